import PrefVerif.Lemmas.C16Merge
import PrefVerif.Model.CategoricalIO
/-!
# C16 — ballot lines and header steps of the two parsers

`ballotLine` of either parser is "decode the line, then `stepTbl`"; the header loop does not touch
the ballot table; under autocorrect the ballot fold keeps `keys multiplicity = ballots`,
duplicate-free, and never touches the header.
-/
namespace PrefVerif.C16
open PrefVerif PrefVerif.Py PrefVerif.InstanceIO PrefVerif.Spec PrefVerif.IOL PrefVerif.IOLw

/-! ## generic folds in `Except` -/

theorem foldlM_inv {σ α ε : Type} (step : σ → α → Except ε σ) (P : σ → Prop)
    (hstep : ∀ a x b, P a → step a x = .ok b → P b) (l : List α) (a b : σ) (ha : P a)
    (h : l.foldlM step a = .ok b) : P b := by
  induction l generalizing a with
  | nil => simp only [List.foldlM_nil] at h; cases h; exact ha
  | cons x l ih =>
    simp only [List.foldlM_cons] at h
    cases hs : step a x with
    | error e => rw [hs] at h; cases h
    | ok a' => rw [hs] at h; exact ih a' (hstep a x a' ha hs) h

theorem headerLoop_inv {σ : Type} (step : σ → Str → Except Err σ) (P : σ → Prop)
    (hstep : ∀ a x b, P a → step a x = .ok b → P b) (ls : List Str) (st st' : σ) (i n : Nat)
    (ha : P st) (h : headerLoop step st ls i = .ok (st', n)) : P st' := by
  induction ls generalizing st i with
  | nil => simp only [headerLoop] at h; cases h; exact ha
  | cons l ls ih =>
    simp only [headerLoop] at h
    split at h
    · cases hs : step st (strip l) with
      | error e => rw [hs] at h; cases h
      | ok a' => rw [hs] at h; exact ih a' (i + 1) (hstep _ _ _ ha hs) h
    · cases h; exact ha

/-! ## ordinal -/

/-- what an ordinal ballot line decodes to (same text as `decodeOrd` in `Props/C16.lean`) -/
def decodeLine (raw : Str) : Except Err (Option (Nat × Order)) :=
  let line := removeWs raw
  if line.isEmpty then .ok none
  else match splitOn ':' (strip line) with
    | [m, o] => (intField m).map (fun mult => some (mult, OrdinalIO.scanOrder o))
    | _ => .error .valueError

/-- a decoded ballot applied to an ordinal instance -/
def applyOrd (ac : Bool) (i : OrdinalIO.OrdInst) (m : Nat) (o : Order) : OrdinalIO.OrdInst :=
  { i with orders := (stepTbl ac i.orders i.multiplicity m o).1,
           multiplicity := (stepTbl ac i.orders i.multiplicity m o).2 }

theorem ballotLine_eq (ac : Bool) (i : OrdinalIO.OrdInst) (raw : Str) :
    OrdinalIO.ballotLine ac i raw = match decodeLine raw with
      | .error e => .error e
      | .ok none => .ok i
      | .ok (some (m, o)) => .ok (applyOrd ac i m o) := by
  unfold OrdinalIO.ballotLine decodeLine
  simp only []
  split
  · rfl
  · generalize splitOn ':' (strip (removeWs raw)) = parts
    match parts with
    | [m, o] =>
      simp only []
      cases hm : intField m with
      | error e => rfl
      | ok mult =>
        simp only [bind, Except.bind, Except.map, applyOrd, stepTbl]
        split <;> rfl
    | [] => rfl
    | [_] => rfl
    | _ :: _ :: _ :: _ => rfl

theorem ballotLine_some (ac : Bool) (i : OrdinalIO.OrdInst) (raw : Str) (m : Nat) (o : Order)
    (hd : decodeLine raw = .ok (some (m, o))) :
    OrdinalIO.ballotLine ac i raw = .ok (applyOrd ac i m o) := by
  rw [ballotLine_eq, hd]

/-- the ordinal invariant of the ballot fold under autocorrect -/
def InvOrd (h : Header) (i : OrdinalIO.OrdInst) : Prop :=
  AList.keys i.multiplicity = i.orders ∧ i.orders.Nodup ∧ i.header = h

theorem applyOrd_inv (h : Header) (i : OrdinalIO.OrdInst) (m : Nat) (o : Order) (hi : InvOrd h i) :
    InvOrd h (applyOrd true i m o) := by
  obtain ⟨h1, h2⟩ := stepTbl_inv i.orders i.multiplicity m o ⟨hi.1, hi.2.1⟩
  exact ⟨h1, h2, hi.2.2⟩

theorem ballotLine_inv (h : Header) (i j : OrdinalIO.OrdInst) (raw : Str) (hi : InvOrd h i)
    (hs : OrdinalIO.ballotLine true i raw = .ok j) : InvOrd h j := by
  rw [ballotLine_eq] at hs
  split at hs
  · cases hs
  · cases hs; exact hi
  · cases hs; exact applyOrd_inv h i _ _ hi

theorem headerStep_tbl (ac : Bool) (i j : OrdinalIO.OrdInst) (line : Str)
    (hs : OrdinalIO.headerStep ac i line = .ok j) :
    j.orders = i.orders ∧ j.multiplicity = i.multiplicity := by
  simp only [OrdinalIO.headerStep] at hs
  split at hs
  · cases hi : intField (line.drop 23) with
    | error e => rw [hi] at hs; cases hs
    | ok n => rw [hi] at hs; cases hs; exact ⟨rfl, rfl⟩
  · cases hp : parseMetadata i.header line ac with
    | error e => rw [hp] at hs; cases hs
    | ok h' => rw [hp] at hs; cases hs; exact ⟨rfl, rfl⟩

/-! ## categorical -/

/-- what a categorical ballot line decodes to -/
def decodeCat (raw : Str) : Except Err (Nat × CategoricalIO.Ballot) :=
  match splitOn ':' (removeSpaces (strip raw)) with
  | [m, p] => (intField m).map (fun mult => (mult, CategoricalIO.scanBallot p))
  | _ => .error .valueError

def applyCat (ac : Bool) (i : CategoricalIO.CatInst) (m : Nat) (b : CategoricalIO.Ballot) :
    CategoricalIO.CatInst :=
  { i with preferences := (stepTbl ac i.preferences i.multiplicity m b).1,
           multiplicity := (stepTbl ac i.preferences i.multiplicity m b).2 }

theorem catBallotLine_eq (ac : Bool) (i : CategoricalIO.CatInst) (raw : Str) :
    CategoricalIO.ballotLine ac i raw = match decodeCat raw with
      | .error e => .error e
      | .ok (m, b) => .ok (applyCat ac i m b) := by
  unfold CategoricalIO.ballotLine decodeCat
  generalize splitOn ':' (removeSpaces (strip raw)) = parts
  match parts with
  | [m, p] =>
    simp only []
    cases hm : intField m with
    | error e => rfl
    | ok mult =>
      simp only [bind, Except.bind, Except.map, applyCat, stepTbl]
      split <;> rfl
  | [] => rfl
  | [_] => rfl
  | _ :: _ :: _ :: _ => rfl

def InvCat (i : CategoricalIO.CatInst) : Prop :=
  AList.keys i.multiplicity = i.preferences ∧ i.preferences.Nodup

theorem catBallotLine_inv (i j : CategoricalIO.CatInst) (raw : Str) (hi : InvCat i)
    (hs : CategoricalIO.ballotLine true i raw = .ok j) : InvCat j := by
  rw [catBallotLine_eq] at hs
  split at hs
  · cases hs
  · cases hs; exact stepTbl_inv i.preferences i.multiplicity _ _ hi

/-- the second `if … elif … else` of the categorical header step -/
def catStep2 (ac : Bool) (i : CategoricalIO.CatInst) (line : Str) : Except Err CategoricalIO.CatInst :=
  if startsWith line (s "# NUMBER CATEGORIES") then do
    let n ← intField (line.drop 20); .ok { i with numCategories := n }
  else if startsWith line (s "# CATEGORY NAME") then
    match matchNumbered (s "# CATEGORY NAME ") line with
    | some (c, name) =>
      .ok { i with categoriesName := CategoricalIO.assignCatName i.categoriesName c name ac }
    | none => .ok i
  else do
    let h ← parseMetadata i.header line ac; .ok { i with header := h }

theorem catHeaderStep_eq (ac : Bool) (i : CategoricalIO.CatInst) (line : Str) :
    CategoricalIO.headerStep ac i line =
      (if startsWith line (s "# NUMBER UNIQUE PREFERENCES") then do
          let n ← intField (line.drop 28); pure { i with numUniquePreferences := n }
        else pure i : Except Err CategoricalIO.CatInst) >>= fun i1 => catStep2 ac i1 line := rfl

theorem catStep2_tbl (ac : Bool) (i j : CategoricalIO.CatInst) (line : Str)
    (hs : catStep2 ac i line = .ok j) :
    j.preferences = i.preferences ∧ j.multiplicity = i.multiplicity := by
  simp only [catStep2] at hs
  split at hs
  · cases hi : intField (line.drop 20) with
    | error e => rw [hi] at hs; cases hs
    | ok n => rw [hi] at hs; cases hs; exact ⟨rfl, rfl⟩
  · split at hs
    · split at hs
      · cases hs; exact ⟨rfl, rfl⟩
      · cases hs; exact ⟨rfl, rfl⟩
    · cases hp : parseMetadata i.header line ac with
      | error e => rw [hp] at hs; cases hs
      | ok h' => rw [hp] at hs; cases hs; exact ⟨rfl, rfl⟩

theorem catHeaderStep_tbl (ac : Bool) (i j : CategoricalIO.CatInst) (line : Str)
    (hs : CategoricalIO.headerStep ac i line = .ok j) :
    j.preferences = i.preferences ∧ j.multiplicity = i.multiplicity := by
  rw [catHeaderStep_eq] at hs
  split at hs
  · cases hi : intField (line.drop 28) with
    | error e => rw [hi] at hs; cases hs
    | ok n =>
      rw [hi] at hs
      exact catStep2_tbl ac { i with numUniquePreferences := n } j line hs
  · exact catStep2_tbl ac i j line hs

/-- a duplicate-free list is its own `eraseDups` -/
theorem eraseDups_of_nodup {α : Type} [BEq α] [LawfulBEq α] (l : List α) (h : l.Nodup) :
    l.eraseDups = l := by
  induction l with
  | nil => rfl
  | cons a l ih =>
    rw [List.nodup_cons] at h
    rw [List.eraseDups_cons]
    have : l.filter (fun b => !b == a) = l := by
      apply List.filter_eq_self.2
      intro b hb
      have : b ≠ a := fun hba => h.1 (hba ▸ hb)
      simpa using this
    rw [this, ih h.2]

end PrefVerif.C16
