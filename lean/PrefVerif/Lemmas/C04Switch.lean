import PrefVerif.Model.SingleCrossing
import PrefVerif.Spec.Domains
import PrefVerif.Lemmas.C04Additive
/-!
# C04 helpers: "once a pair differs from the first order it never changes again" ⇔ at most one switch;
the verification pass `isOrderedSC` checks exactly the former for every pair.
-/
namespace PrefVerif.C04
open PrefVerif PrefVerif.Spec PrefVerif.Distances PrefVerif.SingleCrossing

/-- per pair: whenever order `i ≥ 1` ranks `x,y` differently from the first order `p0`, order `i+1`
ranks them as order `i` does -/
def stay (x y : Nat) (p0 : List Nat) : List (List Nat) → Prop
  | pi :: pj :: more =>
    (prefers pi x y ≠ prefers p0 x y → prefers pj x y = prefers pi x y) ∧ stay x y p0 (pj :: more)
  | _ => True

theorem switches_cons_cons (x y : Nat) (o1 o2 : List Nat) (l : List (List Nat)) :
    switches x y (o1 :: o2 :: l) =
      (if prefers o1 x y != prefers o2 x y then 1 else 0) + switches x y (o2 :: l) := rfl

theorem switches_eq_zero_iff (x y : Nat) (l : List (List Nat)) :
    ∀ o : List Nat, switches x y (o :: l) = 0 ↔ ∀ p ∈ l, prefers p x y = prefers o x y := by
  induction l with
  | nil => intro o; simp [switches]
  | cons o2 l ih =>
    intro o
    rw [switches_cons_cons, List.forall_mem_cons]
    by_cases h : prefers o x y = prefers o2 x y
    · simp only [h, bne_self_eq_false, Bool.false_eq_true, if_false, Nat.zero_add, true_and]
      exact ih o2
    · have hb : (prefers o x y != prefers o2 x y) = true := by simpa using h
      simp only [hb, if_true]
      constructor
      · intro h0; omega
      · intro h0; exact absurd h0.1.symm h

theorem stay_of_ne (x y : Nat) (p0 : List Nat) (l : List (List Nat)) :
    ∀ p1 : List Nat, prefers p1 x y ≠ prefers p0 x y →
      (stay x y p0 (p1 :: l) ↔ ∀ p ∈ l, prefers p x y = prefers p1 x y) := by
  induction l with
  | nil => intro p1 _; simp [stay]
  | cons p2 l ih =>
    intro p1 hne
    simp only [stay, List.forall_mem_cons]
    constructor
    · rintro ⟨h1, h2⟩
      have e := h1 hne
      refine ⟨e, ?_⟩
      have := (ih p2 (by rw [e]; exact hne)).1 h2
      intro p hp
      rw [this p hp, e]
    · rintro ⟨e, h2⟩
      refine ⟨fun _ => e, (ih p2 (by rw [e]; exact hne)).2 ?_⟩
      intro p hp
      rw [h2 p hp, e]

theorem stay_of_eq (x y : Nat) (p0 p1 : List Nat) (l : List (List Nat))
    (he : prefers p1 x y = prefers p0 x y) : stay x y p0 (p1 :: l) ↔ stay x y p0 l := by
  cases l with
  | nil => simp [stay]
  | cons p2 l =>
    simp only [stay]
    constructor
    · exact fun h => h.2
    · exact fun h => ⟨fun hne => absurd he hne, h⟩

theorem stay_iff (x y : Nat) (p0 : List Nat) (l : List (List Nat)) :
    stay x y p0 l ↔ switches x y (p0 :: l) ≤ 1 := by
  induction l with
  | nil => simp [stay, switches]
  | cons p1 l ih =>
    rw [switches_cons_cons]
    by_cases he : prefers p1 x y = prefers p0 x y
    · rw [stay_of_eq x y p0 p1 l he, ih]
      have : switches x y (p1 :: l) = switches x y (p0 :: l) := by
        cases l with
        | nil => rfl
        | cons p2 l => rw [switches_cons_cons, switches_cons_cons, he]
      simp [he, this]
    · rw [stay_of_ne x y p0 l p1 he, ← switches_eq_zero_iff]
      have hb : (prefers p0 x y != prefers p1 x y) = true := by
        simpa using fun e => he e.symm
      simp only [hb, if_true]
      omega

end PrefVerif.C04

namespace PrefVerif.C04
open PrefVerif PrefVerif.Spec PrefVerif.Distances PrefVerif.SingleCrossing

theorem go_iff (alts p0 : List Nat) (h0 : SameRanking alts p0) (rest : List (List Nat)) :
    (∀ o ∈ rest, SameRanking alts o) →
    (isOrderedSC.go p0 rest = true ↔ ∀ x ∈ alts, ∀ y ∈ alts, x ≠ y → stay x y p0 rest) := by
  induction rest with
  | nil => intro _; simp [isOrderedSC.go, stay]
  | cons p1 more ih =>
    intro hr
    cases more with
    | nil => simp [isOrderedSC.go, stay]
    | cons p2 more =>
      have h1 : SameRanking alts p1 := hr p1 (by simp)
      have h2 : SameRanking alts p2 := hr p2 (by simp)
      have ih' := ih (fun o ho => hr o (List.mem_cons_of_mem _ ho))
      simp only [isOrderedSC.go, Bool.and_eq_true, beq_iff_eq, stay]
      rw [ih', kt_add_iff h0 h1 h2]
      constructor
      · rintro ⟨ha, hb⟩ x hx y hy hne
        exact ⟨ha x hx y hy hne, hb x hx y hy hne⟩
      · intro h
        exact ⟨fun x hx y hy hne => (h x hx y hy hne).1, fun x hx y hy hne => (h x hx y hy hne).2⟩

theorem isOrderedSC_iff' (alts : List Nat) (s : List (List Nat)) (h : ∀ o ∈ s, SameRanking alts o) :
    isOrderedSC s = true ↔ SCSeq alts s := by
  cases s with
  | nil => simp [isOrderedSC, SCSeq, switches]
  | cons p0 rest =>
    have h0 : SameRanking alts p0 := h p0 (by simp)
    simp only [isOrderedSC, SCSeq]
    rw [go_iff alts p0 h0 rest (fun o ho => h o (List.mem_cons_of_mem _ ho))]
    constructor
    · intro hs a ha b hb hne
      exact (stay_iff a b p0 rest).1 (hs a ha b hb hne)
    · intro hs a ha b hb hne
      exact (stay_iff a b p0 rest).2 (hs a ha b hb hne)

end PrefVerif.C04
