import PrefVerif.Py.Sort
/-!
# Reusable facts about `stableSort` (`list.sort(key=…)`)

permutation, sortedness (for a total transitive `le`), identity on sorted input (hence
idempotence: the second write of a file is byte-identical), membership / `Nodup` / length.
-/
namespace PrefVerif.IOL
open PrefVerif.Py

variable {α : Type}

/-- `l` is sorted w.r.t. the Boolean order `le` -/
abbrev SortedBy (le : α → α → Bool) (l : List α) : Prop := l.Pairwise (fun a b => le a b = true)

theorem insertSorted_perm (le : α → α → Bool) (x : α) (l : List α) :
    (insertSorted le x l).Perm (x :: l) := by
  induction l with
  | nil => simp [insertSorted]
  | cons y ys ih =>
    simp only [insertSorted]
    split
    · exact (List.Perm.cons y ih).trans (List.Perm.swap x y ys)
    · exact List.Perm.refl _

theorem foldl_insertSorted_perm (le : α → α → Bool) (l acc : List α) :
    (l.foldl (fun acc x => insertSorted le x acc) acc).Perm (acc ++ l) := by
  induction l generalizing acc with
  | nil => simp
  | cons x l ih =>
    simp only [List.foldl_cons]
    refine (ih _).trans ?_
    have : (insertSorted le x acc ++ l).Perm ((x :: acc) ++ l) :=
      List.Perm.append_right l (insertSorted_perm le x acc)
    refine this.trans ?_
    simpa using (List.perm_middle (a := x) (l₁ := acc) (l₂ := l)).symm

/-- the sorted list is a permutation of the input -/
theorem stableSort_perm (le : α → α → Bool) (l : List α) : (stableSort le l).Perm l := by
  simpa [stableSort] using foldl_insertSorted_perm le l []

theorem mem_stableSort (le : α → α → Bool) (l : List α) (a : α) : a ∈ stableSort le l ↔ a ∈ l :=
  (stableSort_perm le l).mem_iff

theorem nodup_stableSort (le : α → α → Bool) (l : List α) : (stableSort le l).Nodup ↔ l.Nodup :=
  (stableSort_perm le l).nodup_iff

theorem length_stableSort (le : α → α → Bool) (l : List α) : (stableSort le l).length = l.length :=
  (stableSort_perm le l).length_eq

theorem stableSort_eq_nil_iff (le : α → α → Bool) (l : List α) : stableSort le l = [] ↔ l = [] := by
  rw [← List.length_eq_zero_iff, length_stableSort, List.length_eq_zero_iff]

theorem insertSorted_sorted {le : α → α → Bool} (total : ∀ a b, le a b = true ∨ le b a = true)
    (trans : ∀ a b c, le a b = true → le b c = true → le a c = true) (x : α) (l : List α)
    (h : SortedBy le l) : SortedBy le (insertSorted le x l) := by
  induction l with
  | nil => simp [insertSorted]
  | cons y ys ih =>
    have hy := List.pairwise_cons.1 h
    simp only [insertSorted]
    split
    · rename_i hyx
      refine List.pairwise_cons.2 ⟨?_, ih hy.2⟩
      intro z hz
      rcases List.mem_cons.1 ((insertSorted_perm le x ys).mem_iff.1 hz) with rfl | hz
      · exact hyx
      · exact hy.1 z hz
    · rename_i hyx
      have hxy : le x y = true := (total x y).resolve_right hyx
      refine List.pairwise_cons.2 ⟨?_, h⟩
      intro z hz
      rcases List.mem_cons.1 hz with rfl | hz
      · exact hxy
      · exact trans _ _ _ hxy (hy.1 z hz)

theorem foldl_insertSorted_sorted {le : α → α → Bool} (total : ∀ a b, le a b = true ∨ le b a = true)
    (trans : ∀ a b c, le a b = true → le b c = true → le a c = true) (l acc : List α)
    (h : SortedBy le acc) : SortedBy le (l.foldl (fun acc x => insertSorted le x acc) acc) := by
  induction l generalizing acc with
  | nil => simpa
  | cons x l ih => exact ih _ (insertSorted_sorted total trans x acc h)

/-- the output is sorted (total transitive `le`) -/
theorem stableSort_sorted {le : α → α → Bool} (total : ∀ a b, le a b = true ∨ le b a = true)
    (trans : ∀ a b c, le a b = true → le b c = true → le a c = true) (l : List α) :
    SortedBy le (stableSort le l) :=
  foldl_insertSorted_sorted total trans l [] List.Pairwise.nil

theorem insertSorted_of_all_le {le : α → α → Bool} (x : α) (l : List α)
    (h : ∀ y ∈ l, le y x = true) : insertSorted le x l = l ++ [x] := by
  induction l with
  | nil => rfl
  | cons y ys ih =>
    simp [insertSorted, h y (by simp), ih (fun z hz => h z (by simp [hz]))]

theorem foldl_insertSorted_of_sorted {le : α → α → Bool} (l acc : List α)
    (h : SortedBy le (acc ++ l)) : l.foldl (fun acc x => insertSorted le x acc) acc = acc ++ l := by
  induction l generalizing acc with
  | nil => simp
  | cons x l ih =>
    have hx : ∀ y ∈ acc, le y x = true := by
      intro y hy
      exact (List.pairwise_append.1 h).2.2 y hy x (by simp)
    simp only [List.foldl_cons, insertSorted_of_all_le x acc hx]
    rw [ih (acc ++ [x]) (by simpa using h)]
    simp

/-- sorting a sorted list changes nothing (stability: equal keys keep their order) -/
theorem stableSort_of_sorted {le : α → α → Bool} (l : List α) (h : SortedBy le l) :
    stableSort le l = l := by
  simpa [stableSort] using foldl_insertSorted_of_sorted (le := le) l [] (by simpa using h)

/-- sorting twice = sorting once -/
theorem stableSort_idem {le : α → α → Bool} (total : ∀ a b, le a b = true ∨ le b a = true)
    (trans : ∀ a b c, le a b = true → le b c = true → le a c = true) (l : List α) :
    stableSort le (stableSort le l) = stableSort le l :=
  stableSort_of_sorted _ (stableSort_sorted total trans l)

theorem stableSort_congr {le le' : α → α → Bool} (h : ∀ a b, le a b = le' a b) (l : List α) :
    stableSort le l = stableSort le' l := by
  have : le = le' := funext fun a => funext fun b => h a b
  rw [this]

end PrefVerif.IOL
