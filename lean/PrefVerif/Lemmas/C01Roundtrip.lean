import PrefVerif.Lemmas.C01Parse
/-!
# C01 — assembling write → parse
-/
namespace PrefVerif.C01
open PrefVerif PrefVerif.Py PrefVerif.InstanceIO PrefVerif.OrdinalIO PrefVerif.Spec.IO PrefVerif.IOL
open PrefVerif.EntryPoints

theorem foldl_ballots (L : List Order) (m : Order → Nat) (j : OrdInst) :
    L.foldl (fun (a : OrdInst) o =>
        { a with orders := a.orders ++ [o], multiplicity := AList.set a.multiplicity o (m o) }) j
      = { j with orders := j.orders ++ L,
                 multiplicity := (L.map (fun o => (o, m o))).foldl (fun d kv => AList.set d kv.1 kv.2)
                   j.multiplicity } := by
  induction L generalizing j with
  | nil => simp
  | cons o L ih => simp only [List.foldl_cons, List.map_cons]; rw [ih]; simp

/-- the written ballot lines, read back from an instance without ballots -/
theorem fold_ballots (L : List Order) (m : Order → Nat) (j : OrdInst) (hj1 : j.orders = [])
    (hj2 : j.multiplicity = []) (hnd : L.Nodup) (hcl : ∀ o ∈ L, ∀ c ∈ o, c ≠ []) :
    (L.map (fun o => ballotText (m o) o ++ ['\n'])).foldlM (ballotLine false) j
      = .ok { j with orders := L, multiplicity := L.map (fun o => (o, m o)) } := by
  rw [foldlM_map_ok L _ _ (fun (a : OrdInst) o =>
        { a with orders := a.orders ++ [o], multiplicity := AList.set a.multiplicity o (m o) })
      (fun o ho a => ballotLine_written a (m o) o (hcl o ho)),
    foldl_ballots, hj1, hj2, foldl_set_nil _ (by rw [keys_map_table]; exact hnd)]
  simp

/-- `parse` of the lines `readlines()` returns for the written file -/
theorem parse_written (i i0 : OrdInst) (h : wfOrd i = true) (h0 : i0.header.altNames = [])
    (h1 : i0.orders = []) (h2 : i0.multiplicity = []) :
    parse i0 ((hdrLines i ++ ballotLines i).map (fun l => l ++ ['\n'])) false false
      = .ok (normOrd i) := by
  obtain ⟨hh, hne, hnd, hk, hall⟩ := (wfOrd_iff i).1 h
  have hsne : sorted i ≠ [] := fun h0 => hne ((stableSort_eq_nil_iff _ _).1 h0)
  -- split off the first ballot line
  obtain ⟨r, rs, hrs⟩ : ∃ r rs, (ballotLines i).map (fun l => l ++ ['\n']) = r :: rs := by
    apply List.exists_cons_of_ne_nil
    simpa [ballotLines] using hsne
  have hr : startsWith (strip r) ['#'] = false := by
    have : r ∈ (ballotLines i).map (fun l => l ++ ['\n']) := by rw [hrs]; simp
    obtain ⟨l, hl, rfl⟩ := List.mem_map.1 this
    obtain ⟨o, _, rfl⟩ := List.mem_map.1 hl
    exact ballotText_not_hash _ o
  have hstrip : ((hdrLines i).map (fun l => l ++ ['\n'])).map strip = hdrPl i := by
    rw [← pl_hdrLines i hh, List.map_map]; rfl
  have hloop := headerLoop_append (headerStep false) ((hdrLines i).map (fun l => l ++ ['\n'])) r rs
    i0 _ 0
    (by
      intro l hl
      have : strip l ∈ hdrPl i := by rw [← hstrip]; exact List.mem_map_of_mem hl
      exact hdrPl_hash i _ this)
    (by rw [hstrip]; exact fold_header i i0 hh h0)
    hr
  have hb := fold_ballots (sorted i) (fun o => (i.multiplicity.get? o).getD 0)
    { i0 with header := i.header, numUniqueOrders := i.numUniqueOrders } h1 h2
    ((nodup_stableSort _ _).2 hnd)
    (fun o ho => (hall o ((mem_stableSort _ _ _).1 ho)).2)
  have hbl : (ballotLines i).map (fun l => l ++ ['\n'])
      = (sorted i).map (fun o => ballotText ((i.multiplicity.get? o).getD 0) o ++ ['\n']) := by
    simp [ballotLines]
  simp only [parse, List.map_append, hrs]
  rw [hloop]
  simp only [bind, Except.bind, Nat.zero_add, List.length_map, Bool.false_eq_true, if_false]
  rw [show List.drop (hdrLines i).length ((hdrLines i).map (fun l => l ++ ['\n']) ++ r :: rs) = r :: rs by
        rw [List.drop_append_of_le_length (by simp)]; simp,
      ← hrs, hbl, hb]
  rfl

/-- **write → `parse_file`** -/
theorem parseFile_write {W : Type} (readW : Str → Option W) (i : OrdInst) (h : wfOrd i = true)
    (base ext : Str) (hext : typeValid .ordinal ext = true) :
    parseFile readW .ordinal base ext (write i) false false = .ok (.ord (normOrd i)) := by
  have hh := ((wfOrd_iff i).1 h).1
  simp only [parseFile, parseLines, fresh, AnyInst.setHeader, AnyInst.header, hext, Bool.not_true,
    Bool.false_eq_true, if_false]
  rw [write_eq, readlines_unlines _ (lineOK_lines i hh), parse_written i _ h rfl rfl rfl]
  rfl

end PrefVerif.C01
