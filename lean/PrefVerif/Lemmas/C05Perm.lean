import PrefVerif.Spec.Domains
/-!
# C05 helper lemmas, part 3: `insertions`, `perms` and `isPermOf`
-/
namespace PrefVerif.C05
open PrefVerif.Spec

variable {α : Type}

theorem mem_insertions (x : α) (l l' : List α) :
    l' ∈ insertions x l ↔ ∃ a b, l = a ++ b ∧ l' = a ++ x :: b := by
  induction l generalizing l' with
  | nil =>
    simp only [insertions, List.mem_singleton]
    constructor
    · rintro rfl; exact ⟨[], [], rfl, rfl⟩
    · rintro ⟨a, b, hab, rfl⟩
      have := List.append_eq_nil_iff.1 hab.symm
      simp [this.1, this.2]
  | cons y ys ih =>
    simp only [insertions, List.mem_cons, List.mem_map]
    constructor
    · rintro (rfl | ⟨t, ht, rfl⟩)
      · exact ⟨[], y :: ys, rfl, rfl⟩
      · obtain ⟨a, b, rfl, rfl⟩ := (ih t).1 ht
        exact ⟨y :: a, b, rfl, rfl⟩
    · rintro ⟨a, b, hab, rfl⟩
      cases a with
      | nil => left; simp at hab; simp [hab]
      | cons a0 a =>
        right
        simp only [List.cons_append, List.cons.injEq] at hab
        obtain ⟨rfl, rfl⟩ := hab
        exact ⟨a ++ x :: b, (ih _).2 ⟨a, b, rfl, rfl⟩, rfl⟩

theorem mem_perms_iff (l l' : List α) : l' ∈ perms l ↔ l'.Perm l := by
  induction l generalizing l' with
  | nil => simp [perms]
  | cons x xs ih =>
    simp only [perms, List.mem_flatMap, mem_insertions]
    constructor
    · rintro ⟨t, ht, a, b, rfl, rfl⟩
      exact List.perm_middle.trans (((ih _).1 ht).cons x)
    · intro h
      have hx : x ∈ l' := h.symm.subset (by simp)
      obtain ⟨a, b, rfl⟩ := List.append_of_mem hx
      refine ⟨a ++ b, (ih _).2 ?_, a, b, rfl, rfl⟩
      exact (List.perm_middle.symm.trans h).cons_inv

theorem perm_of_nodup_subset_length [DecidableEq α] (l l' : List α) (hn : l.Nodup) (hs : ∀ x ∈ l, x ∈ l')
    (hl : l.length = l'.length) : l.Perm l' := by
  induction l generalizing l' with
  | nil =>
    have : l' = [] := List.eq_nil_of_length_eq_zero (by simpa using hl.symm)
    subst this; exact List.Perm.refl _
  | cons a t ih =>
    have ha : a ∈ l' := hs a (by simp)
    have hnt := (List.nodup_cons.1 hn)
    have h1 : t.Perm (l'.erase a) := by
      apply ih _ hnt.2
      · intro x hx
        have hne : x ≠ a := fun h => hnt.1 (h ▸ hx)
        exact (List.mem_erase_of_ne hne).2 (hs x (by simp [hx]))
      · rw [List.length_erase_of_mem ha]; simp at hl; omega
    exact (h1.cons a).trans (List.perm_cons_erase ha).symm

theorem isPermOf_iff (ord base : List Nat) (hb : base.Nodup) : isPermOf ord base = true ↔ ord.Perm base := by
  unfold isPermOf
  simp only [Bool.and_eq_true, decide_eq_true_eq, beq_iff_eq, List.all_eq_true, List.contains_iff_mem]
  constructor
  · rintro ⟨⟨hn, hl⟩, hs⟩
    exact perm_of_nodup_subset_length _ _ hn hs hl
  · intro h
    exact ⟨⟨h.nodup_iff.2 hb, h.length_eq⟩, fun x hx => h.subset hx⟩

theorem isPermOf_range_iff (ord : List Nat) (n : Nat) : isPermOf ord (List.range n) = true ↔ ord.Perm (List.range n) :=
  isPermOf_iff ord _ List.nodup_range

end PrefVerif.C05
