import PrefVerif.Lemmas.C01Scan
import PrefVerif.Lemmas.IOJoin
/-!
# C01 — the ballot renderer

`renderOrder o` is `", ".join(classes)` (`sOrder`); removing whitespace gives the compact form of
`C01Scan.lean`.
-/
namespace PrefVerif.C01
open PrefVerif PrefVerif.Py PrefVerif.InstanceIO PrefVerif.OrdinalIO PrefVerif.IOL

/-- a class as written, without the trailing `", "` -/
def sClass : List Nat → Str
  | [a] => natToStr a
  | cl => '{' :: join [',', ' '] (cl.map natToStr) ++ ['}']

/-- an order as written: `", ".join(classes)` -/
def sOrder (o : Order) : Str := join [',', ' '] (o.map sClass)

theorem renderClass_eq (cl : List Nat) : OrdinalIO.renderClass cl = sClass cl ++ [',', ' '] := by
  match cl with
  | [] => simp [OrdinalIO.renderClass, sClass, s]
  | [a] => simp [OrdinalIO.renderClass, sClass, s]
  | a :: b :: cl => simp [OrdinalIO.renderClass, sClass, s]

abbrev isCS : Char → Bool := fun c => c == ',' || c == ' '

theorem digit_not_isCS {c : Char} (h : c.isDigit = true) : isCS c = false := by
  simp [isCS, digit_bne h (d := ',') (by decide), digit_bne h (d := ' ') (by decide)]

theorem sClass_edged (cl : List Nat) : Edged isCS (sClass cl) := by
  by_cases h1 : cl.length = 1
  · obtain ⟨a, rfl⟩ := List.length_eq_one_iff.1 h1
    exact edged_of_all (natToStr_ne_nil a) (fun c hc => digit_not_isCS (natToStr_isDigit hc))
  · have : sClass cl = '{' :: join [',', ' '] (cl.map natToStr) ++ ['}'] := by
      match cl, h1 with
      | [], _ => rfl
      | [_], h => exact absurd rfl h
      | _ :: _ :: _, _ => rfl
    rw [this]
    exact edged_of_cons_snoc _ _ _ (by decide) (by decide)

/-- `order_str.strip(", ")` of the concatenated classes is the comma-space join -/
theorem renderOrder_eq (o : Order) : renderOrder o = sOrder o := by
  cases o with
  | nil => simp [renderOrder, sOrder, join_nil, stripCommaSpace_nil]
  | cons c o =>
    have h1 : OrdinalIO.renderClass = fun cl => sClass cl ++ [',', ' '] := funext renderClass_eq
    simp only [renderOrder, h1]
    rw [flatten_map_append_sep sClass _ _ (by simp)]
    exact stripCommaSpace_append_sep
      (edged_join _ _ (by simp) (fun x hx => by
        obtain ⟨cl, _, rfl⟩ := List.mem_map.1 hx; exact sClass_edged cl))

theorem removeWs_natToStr (n : Nat) : removeWs (natToStr n) = natToStr n :=
  removeWs_of_no_space (fun _ hc => natToStr_no_space hc)

theorem removeWs_sClass (cl : List Nat) : removeWs (sClass cl) = cClass cl := by
  have hsep : removeWs [',', ' '] = [','] := by decide
  have hmap : ∀ l : List Nat, (l.map natToStr).map removeWs = l.map digits := by
    intro l; simp [removeWs_natToStr, digits]
  match cl with
  | [] => decide
  | [a] => simp [sClass, cClass, removeWs_natToStr, digits]
  | a :: b :: cl =>
    have e : removeWs ('{' :: join [',', ' '] ((a :: b :: cl).map natToStr) ++ ['}'])
        = '{' :: removeWs (join [',', ' '] ((a :: b :: cl).map natToStr)) ++ ['}'] := by
      rw [show ('{' :: join [',', ' '] ((a :: b :: cl).map natToStr) ++ ['}'])
            = ['{'] ++ join [',', ' '] ((a :: b :: cl).map natToStr) ++ ['}'] from rfl,
          removeWs_append, removeWs_append]
      rfl
    simp only [sClass, cClass]
    rw [e, removeWs_join, hsep, hmap]
    rfl

/-- `"".join(line.split())` of a rendered ballot is the compact form -/
theorem removeWs_renderOrder (o : Order) : removeWs (renderOrder o) = cOrder o := by
  rw [renderOrder_eq, sOrder, removeWs_join]
  have : (o.map sClass).map removeWs = o.map cClass := by simp [removeWs_sClass]
  rw [this]; rfl

/-- **scanner ∘ renderer = id** on orders with non-empty classes -/
theorem scanOrder_renderOrder (o : Order) (ho : ∀ c ∈ o, c ≠ []) :
    scanOrder (removeWs (renderOrder o)) = o := by
  rw [removeWs_renderOrder]; exact scanOrder_cOrder o ho

end PrefVerif.C01
