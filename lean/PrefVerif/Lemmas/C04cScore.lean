import PrefVerif.Lemmas.C04cSwitch
import PrefVerif.Lemmas.C07AList
import PrefVerif.Lemmas.C04Bucket
/-!
# C04 completeness helpers (2): on a single-crossing arrangement `s` in which `v1 = s[p1]` comes
before `v2 = s[p2]`, the score loop never bails out and the score it stores for an order is the
signed Kendall-tau distance from `v1` (negative left of `v1`), which increases strictly along `s`.
-/
namespace PrefVerif.C04c
open PrefVerif PrefVerif.Spec PrefVerif.Distances PrefVerif.SingleCrossing PrefVerif.C04 PrefVerif.C20
open PrefVerif.Py

/-- a duplicate-free single-crossing sequence of rankings of `alts` -/
structure Arr (alts : List Nat) (s : List (List Nat)) : Prop where
  rk : ∀ o ∈ s, SameRanking alts o
  nd : s.Nodup
  sc : SCSeq alts s

namespace Arr
variable {alts : List Nat} {s : List (List Nat)}

theorem same (A : Arr alts s) (a b : Nat) (ha : a < s.length) (hb : b < s.length) :
    SameRanking s[a] s[b] :=
  (A.rk _ (List.getElem_mem ha)).symm.trans (A.rk _ (List.getElem_mem hb))

theorem symm (A : Arr alts s) (a b : Nat) (ha : a < s.length) (hb : b < s.length) :
    kt s[a] s[b] = kt s[b] s[a] := kt_symm _ _ (A.same a b ha hb)

theorem self (A : Arr alts s) (a : Nat) (ha : a < s.length) : kt s[a] s[a] = 0 :=
  (kt_eq_zero_iff _ _ (A.same a a ha ha)).2 rfl

theorem pos (A : Arr alts s) (a b : Nat) (ha : a < s.length) (hb : b < s.length) (hne : a ≠ b) :
    0 < kt s[a] s[b] := by
  apply Nat.pos_of_ne_zero
  intro h0
  have e := (kt_eq_zero_iff _ _ (A.same a b ha hb)).1 h0
  exact hne ((List.getElem_inj A.nd).1 e)

theorem add (A : Arr alts s) (a b c : Nat) (hab : a < b) (hbc : b < c) (hc : c < s.length) :
    kt (s[a]'(by omega)) s[c] = kt (s[a]'(by omega)) (s[b]'(by omega)) + kt (s[b]'(by omega)) s[c] :=
  kt_additive alts s A.rk A.sc a b c hab hbc hc

theorem reverse (A : Arr alts s) : Arr alts s.reverse :=
  ⟨fun o ho => A.rk o (List.mem_reverse.1 ho), (List.reverse_perm s).nodup_iff.2 A.nd, scSeq_reverse alts s A.sc⟩

end Arr

/-- signed distance from `v1` (which sits at position `p1` of `s`) -/
def sdist (s : List (List Nat)) (p1 : Nat) (v1 o : List Nat) : Int :=
  if p1 ≤ s.idxOf o then (kt v1 o : Int) else -(kt v1 o : Int)

theorem sdist_getElem {s : List (List Nat)} (hn : s.Nodup) (p1 : Nat) (v1 : List Nat) (p : Nat)
    (hp : p < s.length) :
    sdist s p1 v1 s[p] = if p1 ≤ p then (kt v1 s[p] : Int) else -(kt v1 s[p] : Int) := by
  unfold sdist
  rw [hn.idxOf_getElem p hp]

/-- the branch taken by one iteration of the score loop, and the value it stores -/
def Step (v1 v2 : List Nat) (k : Nat) (f : List Nat → Int) (o : List Nat) : Prop :=
  (kt v1 o + kt v2 o = k ∧ f o = (kt v1 o : Int)) ∨
  (kt v1 o + kt v2 o ≠ k ∧ k + kt v2 o = kt v1 o ∧ f o = (kt v1 o : Int)) ∨
  (kt v1 o + kt v2 o ≠ k ∧ k + kt v2 o ≠ kt v1 o ∧ kt v1 o + k = kt v2 o ∧ f o = -(kt v1 o : Int))

theorem scoreLoop_some (v1 v2 : List Nat) (k : Nat) (f : List Nat → Int) (os : List (List Nat)) :
    ∀ sc, (∀ o ∈ os, Step v1 v2 k f o) →
      ∃ sc', scoreLoop v1 v2 k os sc = some sc' ∧
        ∀ o, AList.get? sc' o = if o ∈ os then some (f o) else AList.get? sc o := by
  induction os with
  | nil => intro sc _; exact ⟨sc, rfl, fun o => by simp⟩
  | cons o os ih =>
    intro sc hs
    obtain ⟨sc', h1, h2⟩ := ih (AList.set sc o (f o)) (fun o' ho' => hs o' (List.mem_cons_of_mem _ ho'))
    refine ⟨sc', ?_, ?_⟩
    · rw [← h1]
      rcases hs o List.mem_cons_self with ⟨c1, hf⟩ | ⟨c1, c2, hf⟩ | ⟨c1, c2, c3, hf⟩
      · simp only [scoreLoop, beq_iff_eq]
        rw [if_pos c1, hf]
      · simp only [scoreLoop, beq_iff_eq]
        rw [if_neg c1, if_pos c2, hf]
      · simp only [scoreLoop, beq_iff_eq]
        rw [if_neg c1, if_neg c2, if_pos c3, hf]
    · intro o'
      rw [h2 o', C07.get?_set]
      by_cases e : o = o'
      · subst e; simp
      · have e' : ¬ o' = o := fun h => e h.symm
        simp [e, e']

/-- every order other than `v1`, `v2` passes one of the three tests and receives its signed distance -/
theorem step_at {alts : List Nat} {s : List (List Nat)} (A : Arr alts s) (p1 p2 : Nat) (h12 : p1 < p2)
    (hp2 : p2 < s.length) (p : Nat) (hp : p < s.length) (hne1 : p ≠ p1) (hne2 : p ≠ p2) :
    Step (s[p1]'(by omega)) s[p2] (kt (s[p1]'(by omega)) s[p2]) (sdist s p1 (s[p1]'(by omega))) s[p] := by
  have hp1 : p1 < s.length := by omega
  unfold Step
  rw [sdist_getElem A.nd p1 _ p hp]
  have pos1 := A.pos p1 p hp1 hp (Ne.symm hne1)
  have pos2 := A.pos p2 p hp2 hp (Ne.symm hne2)
  have pos12 := A.pos p1 p2 hp1 hp2 (by omega)
  rcases Nat.lt_or_gt_of_ne hne1 with hlt | hgt
  · -- left of `v1`: third test
    have a1 := A.add p p1 p2 hlt h12 hp2
    have s1 := A.symm p p1 hp hp1
    have s2 := A.symm p p2 hp hp2
    right; right
    rw [if_neg (by omega)]
    refine ⟨by omega, by omega, by omega, rfl⟩
  · rcases Nat.lt_or_gt_of_ne hne2 with hlt2 | hgt2
    · -- between `v1` and `v2`: first test
      have a1 := A.add p1 p p2 hgt hlt2 hp2
      have s2 := A.symm p p2 hp hp2
      left
      rw [if_pos (by omega)]
      exact ⟨by omega, rfl⟩
    · -- right of `v2`: second test
      have a1 := A.add p1 p2 p h12 hgt2 hp
      right; left
      rw [if_pos (by omega)]
      exact ⟨by omega, by omega, rfl⟩

/-- the signed distance increases strictly along the arrangement -/
theorem sdist_lt {alts : List Nat} {s : List (List Nat)} (A : Arr alts s) (p1 : Nat) (hp1 : p1 < s.length)
    (p q : Nat) (hpq : p < q) (hq : q < s.length) :
    sdist s p1 s[p1] (s[p]'(by omega)) < sdist s p1 s[p1] s[q] := by
  have hp : p < s.length := by omega
  rw [sdist_getElem A.nd p1 _ p hp, sdist_getElem A.nd p1 _ q hq]
  by_cases c1 : p1 ≤ p
  · rw [if_pos c1, if_pos (by omega)]
    rcases Nat.eq_or_lt_of_le c1 with e | hlt
    · subst e
      have := A.self p1 hp1
      have := A.pos p1 q hp1 hq (by omega)
      omega
    · have := A.add p1 p q hlt hpq hq
      have := A.pos p q hp hq (by omega)
      omega
  · rw [if_neg c1]
    by_cases c2 : p1 ≤ q
    · rw [if_pos c2]
      have := A.pos p1 p hp1 hp (by omega)
      omega
    · rw [if_neg c2]
      have := A.add p q p1 hpq (by omega) hp1
      have := A.symm p p1 hp hp1
      have := A.symm q p1 hq hp1
      have := A.pos p q hp hq (by omega)
      omega

theorem sdist_pairwise {alts : List Nat} {s : List (List Nat)} (A : Arr alts s) (p1 : Nat)
    (hp1 : p1 < s.length) :
    s.Pairwise (fun a b => sdist s p1 s[p1] a < sdist s p1 s[p1] b) := by
  rw [List.pairwise_iff_getElem]
  intro i j _ hj hij
  exact sdist_lt A p1 hp1 i j hij hj

theorem sdist_abs_le (s : List (List Nat)) (p1 : Nat) (v1 o : List Nat) :
    -((v1.length * v1.length : Nat) : Int) ≤ sdist s p1 v1 o ∧
      sdist s p1 v1 o ≤ ((v1.length * v1.length : Nat) : Int) := by
  have := kt_le_sq v1 o
  unfold sdist
  split <;> omega

end PrefVerif.C04c
