import PrefVerif.Lemmas.C09Graph
import PrefVerif.Lemmas.IOySort
/-!
# C09 — the edges in written order, and rebuilding a graph from them with `add_edge`

`edgeList g`: nodes ascending, successors ascending (the order `write` uses).  Folding `add_edge`
over a list of edges with pairwise distinct endpoints gives a graph with exactly these edges.
`edgeList` depends on the graph only through its edge set and node set.
-/
namespace PrefVerif.C09
open PrefVerif PrefVerif.Py PrefVerif.MatchingIO PrefVerif.IOL

variable {W : Type}

/-- endpoints of an edge -/
abbrev ekey (e : Nat × Nat × Option W) : Nat × Nat := (e.1, e.2.1)

/-- the edges in the order `write` lists them -/
def edgeList (g : Graph W) : List (Nat × Nat × Option W) :=
  (stableSort natLe g.nodes).flatMap (fun n =>
    (stableSort natLe (succs g n)).map (fun b => (n, b, g.weights.get? (n, b))))

theorem mem_edgeList (g : Graph W) (h : (AList.keys g.nodeMapping).Nodup) (e : Nat × Nat × Option W) :
    e ∈ edgeList g ↔ e ∈ g.edges := by
  rw [mem_edges_iff g h]
  obtain ⟨a, b, ow⟩ := e
  simp only [edgeList, List.mem_flatMap, List.mem_map, mem_stableSort, Prod.mk.injEq]
  constructor
  · rintro ⟨n, _, b', hb', rfl, rfl, rfl⟩
    exact ⟨hb', rfl⟩
  · rintro ⟨hb, rfl⟩
    exact ⟨a, mem_nodes_of_mem_succs g hb, b, hb, rfl, rfl, rfl⟩

/-- every edge of a well-formed graph carries a weight -/
theorem weight_of_mem_edges (g : Graph W) (h : WfG g) {e : Nat × Nat × Option W} (he : e ∈ g.edges) :
    ∃ w, e.2.2 = some w := by
  obtain ⟨h1, _, _, _, h5⟩ := (wfG_iff g).1 h
  obtain ⟨hb, hw⟩ := (mem_edges_iff g h1 e).1 he
  obtain ⟨w, hw'⟩ := get?_isSome_of_mem g.weights (e.1, e.2.1) ((h5 _ _).2 hb)
  exact ⟨w, hw.trans hw'⟩

theorem nodup_keys_edgeList (g : Graph W) (h : WfG g) : ((edgeList g).map ekey).Nodup := by
  obtain ⟨h1, h2, _, _, _⟩ := (wfG_iff g).1 h
  have e : (edgeList g).map ekey
      = (stableSort natLe g.nodes).flatMap (fun n => (stableSort natLe (succs g n)).map (fun b => (n, b))) := by
    simp only [edgeList, List.map_flatMap, List.map_map]; rfl
  rw [e]
  simp only [List.Nodup, List.pairwise_flatMap]
  constructor
  · intro n _
    rw [List.pairwise_map]
    have : (stableSort natLe (succs g n)).Nodup := (nodup_stableSort _ _).2 (h2 n)
    exact this.imp (fun hne he => hne (by simpa using he))
  · have : (stableSort natLe g.nodes).Nodup := (nodup_stableSort _ _).2 h1
    refine this.imp ?_
    intro p q hpq x hx y hy hxy
    obtain ⟨b, _, rfl⟩ := List.mem_map.1 hx
    obtain ⟨c, _, hc⟩ := List.mem_map.1 hy
    rw [← hc] at hxy
    exact hpq (by simpa using congrArg Prod.fst hxy)

/-! ## folding `add_edge` -/

/-- what reading one written edge does to the graph -/
def addE (g : Graph W) (e : Nat × Nat × Option W) : Graph W :=
  match e.2.2 with
  | some w => g.addEdge e.1 e.2.1 w
  | none => g

theorem addE_some (g : Graph W) (a b : Nat) (w : W) : addE g (a, b, some w) = g.addEdge a b w := rfl

/-- adding edges with pairwise distinct endpoints, all weighted: invariant, edge set, node set -/
theorem foldl_addE (L : List (Nat × Nat × Option W)) (g0 : Graph W) (h0 : WfG g0)
    (hw : ∀ e ∈ L, ∃ w, e.2.2 = some w) (hnd : (L.map ekey).Nodup) :
    WfG (L.foldl addE g0) ∧
    (∀ e, e ∈ (L.foldl addE g0).edges ↔ e ∈ L ∨ (e ∈ g0.edges ∧ ekey e ∉ L.map ekey)) ∧
    (∀ x, x ∈ (L.foldl addE g0).nodes ↔ x ∈ g0.nodes ∨ ∃ e ∈ L, e.1 = x ∨ e.2.1 = x) := by
  induction L generalizing g0 with
  | nil => simp [h0]
  | cons e L ih =>
    obtain ⟨a, b, ow⟩ := e
    obtain ⟨w, hw'⟩ := hw (a, b, ow) (by simp)
    simp only at hw'
    subst hw'
    rw [List.map_cons, List.nodup_cons] at hnd
    have hwf := wfG_addEdge g0 a b w h0
    obtain ⟨i1, i2, i3⟩ := ih (g0.addEdge a b w) hwf (fun e he => hw e (by simp [he])) hnd.2
    simp only [List.foldl_cons, addE_some]
    refine ⟨i1, ?_, ?_⟩
    · intro e
      rw [i2, mem_edges_addEdge g0 a b w h0.1]
      simp only [List.mem_cons, List.map_cons, not_or]
      constructor
      · rintro (h | ⟨h | ⟨h, hk⟩, hn⟩)
        · exact Or.inl (Or.inr h)
        · exact Or.inl (Or.inl h)
        · refine Or.inr ⟨h, ?_, hn⟩
          intro e'; apply hk
          simp only [ekey, Prod.mk.injEq] at e'; exact e'
      · rintro ((h | h) | ⟨h, hk, hn⟩)
        · subst h; exact Or.inr ⟨Or.inl rfl, hnd.1⟩
        · exact Or.inl h
        · refine Or.inr ⟨Or.inr ⟨h, ?_⟩, hn⟩
          intro e'; apply hk
          simp only [ekey, Prod.mk.injEq]; exact e'
    · intro x
      rw [i3, mem_nodes_addEdge]
      simp only [List.mem_cons, exists_eq_or_imp]
      constructor
      · rintro ((h | h | h) | h)
        · exact Or.inr (Or.inl (Or.inl h.symm))
        · exact Or.inr (Or.inl (Or.inr h.symm))
        · exact Or.inl h
        · exact Or.inr (Or.inr h)
      · rintro (h | (h | h) | h)
        · exact Or.inl (Or.inr (Or.inr h))
        · exact Or.inl (Or.inl h.symm)
        · exact Or.inl (Or.inr (Or.inl h.symm))
        · exact Or.inr h

theorem wfG_empty : WfG ({} : Graph W) := by
  refine ⟨by simp [AList.keys], by simp, by simp [AList.keys], ?_⟩
  intro a b; simp [AList.keys]

/-- every graph built by `add_edge` calls from the empty graph satisfies the invariant -/
theorem wfG_built (L : List (Nat × Nat × W)) (g0 : Graph W) (h0 : WfG g0) :
    WfG (L.foldl (fun g e => g.addEdge e.1 e.2.1 e.2.2) g0) := by
  induction L generalizing g0 with
  | nil => exact h0
  | cons e L ih => exact ih _ (wfG_addEdge g0 e.1 e.2.1 e.2.2 h0)

/-- the graph rebuilt from the written edges of `g` -/
def rebuilt (g : Graph W) : Graph W := (edgeList g).foldl addE {}

/-- rebuilding a well-formed graph all of whose nodes touch an edge: same edges, same nodes -/
theorem rebuilt_spec (g : Graph W) (h : WfG g)
    (hinc : ∀ n ∈ g.nodes, ∃ e ∈ g.edges, e.1 = n ∨ e.2.1 = n) :
    WfG (rebuilt g) ∧ (∀ e, e ∈ (rebuilt g).edges ↔ e ∈ g.edges) ∧
    (∀ n, n ∈ (rebuilt g).nodes ↔ n ∈ g.nodes) := by
  obtain ⟨h1, _, h3, _, _⟩ := (wfG_iff g).1 h
  obtain ⟨r1, r2, r3⟩ := foldl_addE (edgeList g) {} wfG_empty
    (fun e he => weight_of_mem_edges g h ((mem_edgeList g h1 e).1 he)) (nodup_keys_edgeList g h)
  refine ⟨r1, ?_, ?_⟩
  · intro e
    rw [rebuilt, r2, mem_edgeList g h1]
    simp [Graph.edges]
  · intro n
    rw [rebuilt, r3]
    simp only [Graph.nodes, AList.keys, List.map_nil, List.not_mem_nil, false_or]
    constructor
    · rintro ⟨e, he, hn⟩
      obtain ⟨hb, _⟩ := (mem_edges_iff g h1 e).1 ((mem_edgeList g h1 e).1 he)
      rcases hn with rfl | rfl
      · exact mem_nodes_of_mem_succs g hb
      · exact h3 _ _ hb
    · intro hn
      obtain ⟨e, he, hx⟩ := hinc n hn
      exact ⟨e, (mem_edgeList g h1 e).2 he, hx⟩

/-! ## `edgeList` depends only on the edge set and the node set -/

theorem mem_succs_iff_edges (g : Graph W) (h : (AList.keys g.nodeMapping).Nodup) (a b : Nat) :
    b ∈ succs g a ↔ ∃ ow, (a, b, ow) ∈ g.edges := by
  constructor
  · intro hb; exact ⟨g.weights.get? (a, b), (mem_edges_iff g h (a, b, g.weights.get? (a, b))).2 ⟨hb, rfl⟩⟩
  · rintro ⟨ow, he⟩; exact ((mem_edges_iff g h _).1 he).1

theorem edgeList_congr (g g' : Graph W) (h : WfG g) (h' : WfG g')
    (he : ∀ e, e ∈ g'.edges ↔ e ∈ g.edges) (hn : ∀ n, n ∈ g'.nodes ↔ n ∈ g.nodes) :
    edgeList g' = edgeList g := by
  obtain ⟨h1, h2, _, _, _⟩ := (wfG_iff g).1 h
  obtain ⟨h1', h2', _, _, _⟩ := (wfG_iff g').1 h'
  have hs : ∀ a b, b ∈ succs g' a ↔ b ∈ succs g a := by
    intro a b
    rw [mem_succs_iff_edges g h1, mem_succs_iff_edges g' h1']
    exact exists_congr (fun ow => he _)
  have hsort : ∀ a, stableSort natLe (succs g' a) = stableSort natLe (succs g a) :=
    fun a => natSort_canon (h2' a) (h2 a) (hs a)
  have hnodes : stableSort natLe g'.nodes = stableSort natLe g.nodes := natSort_canon h1' h1 hn
  simp only [edgeList, hnodes, hsort, List.flatMap_def]
  congr 1
  apply List.map_congr_left
  intro n _
  apply List.map_congr_left
  intro b hb
  have hb' : b ∈ succs g n := (mem_stableSort _ _ _).1 hb
  have hm : (n, b, g.weights.get? (n, b)) ∈ g'.edges := (he _).2 ((mem_edges_iff g h1 _).2 ⟨hb', rfl⟩)
  have := ((mem_edges_iff g' h1' _).1 hm).2
  simp only at this
  rw [this]

end PrefVerif.C09
