import PrefVerif.Lemmas.C19xReal
/-!
# C19x helper lemmas (storage order arbitrary): mirroring an embedding; a 1-Euclidean profile is
single-crossing whatever the storage order (sort the voters by position)
-/
namespace PrefVerif.C19x
open PrefVerif PrefVerif.Euclid PrefVerif.Spec

theorem dist_neg (v a : Rat) : Euclid.dist (-v) (-a) = Euclid.dist v a := by
  unfold Euclid.dist; split <;> split <;> grind

/-- the mirror image `y ↦ -y` of an embedding represents the same rankings -/
theorem Rep.mirror {alts : List Nat} {x : Nat → Rat} {o : List Nat} {v : Rat} (h : Rep alts x o v) :
    Rep alts (fun a => -x a) o (-v) := by
  intro a ha b hb
  rw [dist_neg, dist_neg]
  exact h a ha b hb

/-- the mirror image of an embedding realises the same profile -/
theorem realises_mirror (alts : List Nat) (orders : List (List Nat)) (voters : List Rat) (x : Nat → Rat)
    (hord : ∀ o ∈ orders, o.Perm alts)
    (hreal : Spec.Euclid.realises orders voters (alts.map (fun a => (a, x a))) = true) :
    Spec.Euclid.realises orders (voters.map (fun v => -v)) (alts.map (fun a => (a, -x a))) = true := by
  rw [Specs.realises_iff] at hreal ⊢
  obtain ⟨hlen, h⟩ := hreal
  refine ⟨by simpa using hlen, fun i hi hv => ?_⟩
  have hv' : i < voters.length := by simpa using hv
  have hp : orders[i].Perm alts := hord _ (List.getElem_mem hi)
  obtain ⟨_, h2⟩ := h i hi hv'
  refine ⟨fun a ha => ?_, fun j k hjk hk ya yb hya hyb => ?_⟩
  · rw [C19.lookup_axis_map alts (fun a => -x a) a (hp.mem_iff.1 ha)]; rfl
  · have ha : orders[i][j] ∈ alts := hp.mem_iff.1 (List.getElem_mem _)
    have hb : orders[i][k] ∈ alts := hp.mem_iff.1 (List.getElem_mem _)
    rw [C19.lookup_axis_map alts (fun a => -x a) _ ha] at hya
    rw [C19.lookup_axis_map alts (fun a => -x a) _ hb] at hyb
    cases hya; cases hyb
    rw [List.getElem_map, dist_neg, dist_neg]
    exact h2 j k hjk hk _ _ (C19.lookup_axis_map alts x _ ha) (C19.lookup_axis_map alts x _ hb)

/-- a 1-Euclidean profile is single-crossing, whatever the storage order: list the voters by position -/
theorem sc_of_realised (alts : List Nat) (orders : List (List Nat)) (voters : List Rat) (x : Nat → Rat)
    (hord : ∀ o ∈ orders, o.Perm alts)
    (hreal : Spec.Euclid.realises orders voters (alts.map (fun a => (a, x a))) = true) :
    SC alts orders := by
  have hlen : voters.length = orders.length := ((Specs.realises_iff _ _ _).1 hreal).1
  let le : List Nat × Rat → List Nat × Rat → Bool := fun p q => decide (p.2 ≤ q.2)
  have hps := List.mergeSort_perm (orders.zip voters) le
  have hsorted : ((orders.zip voters).mergeSort le).Pairwise (fun p q => le p q) :=
    List.pairwise_mergeSort (le := le)
      (fun a b c h1 h2 => by simp only [le, decide_eq_true_eq] at h1 h2 ⊢; exact Rat.le_trans h1 h2)
      (fun a b => by
        simp only [le, Bool.or_eq_true, decide_eq_true_eq]; exact Rat.le_total) _
  generalize (orders.zip voters).mergeSort le = ps at hps hsorted
  have hmem : ∀ p ∈ ps, p.1.Perm alts ∧ Rep alts x p.1 p.2 := by
    intro p hp
    obtain ⟨j, hj, e⟩ := List.mem_iff_getElem.1 (hps.mem_iff.1 hp)
    have hj1 : j < orders.length := by simp at hj; omega
    have hj2 : j < voters.length := by omega
    rw [List.getElem_zip] at e
    subst e
    exact ⟨hord _ (List.getElem_mem hj1), rep_of_realises alts orders voters x hord hreal j hj1 hj2⟩
  refine ⟨ps.map (·.1), ?_, ?_⟩
  · have := hps.map (·.1)
    rwa [List.map_fst_zip (by omega)] at this
  · refine sc_of_stored alts (ps.map (·.1)) (ps.map (·.2)) x ?_ (by simp) ?_ ?_
    · intro o ho
      obtain ⟨p, hp, rfl⟩ := List.mem_map.1 ho
      exact (hmem p hp).1
    · intro i hi hv
      rw [List.getElem_map, List.getElem_map]
      exact (hmem _ (List.getElem_mem _)).2
    · rw [List.pairwise_map]
      exact hsorted.imp (fun h => by simpa [le] using h)

end PrefVerif.C19x
