import PrefVerif.Py.Str
/-!
# Reusable facts about the Python string model (`PrefVerif/Py/Str.lean`)

`strip`, `removeWs`, `splitOn`, `natToStr` / `toNat?`.  Nothing here is specific to a file format.
(Line splitting — `readlines`, `splitlines`, `splitOn '\n'` — is in `IOLines.lean`.)
-/
namespace PrefVerif.IOL
open PrefVerif.Py

/-! ## generic `dropWhile` facts -/

theorem dropWhile_eq_self {α : Type} {p : α → Bool} {l : List α}
    (h : ∀ c, l.head? = some c → p c = false) : l.dropWhile p = l := by
  cases l with
  | nil => rfl
  | cons a l => simp [h a rfl]

theorem length_dropWhile_le {α : Type} (p : α → Bool) (l : List α) :
    (l.dropWhile p).length ≤ l.length := by
  induction l with
  | nil => simp
  | cons a l ih => simp only [List.dropWhile_cons]; split <;> simp <;> omega

theorem dropWhile_eq_self_of_length {α : Type} {p : α → Bool} {l : List α}
    (h : (l.dropWhile p).length = l.length) : l.dropWhile p = l := by
  cases l with
  | nil => rfl
  | cons a l =>
    simp only [List.dropWhile_cons] at h ⊢
    split
    · rename_i hp
      simp only [hp, if_true, List.length_cons] at h
      have := length_dropWhile_le p l
      omega
    · rfl

theorem dropWhile_eq_nil_of_all {α : Type} {p : α → Bool} {l : List α}
    (h : ∀ c ∈ l, p c = true) : l.dropWhile p = [] := by
  induction l with
  | nil => rfl
  | cons a l ih =>
    simp [h a (by simp), ih (fun c hc => h c (by simp [hc]))]

theorem takeWhile_eq_self_of_all {α : Type} {p : α → Bool} {l : List α}
    (h : ∀ c ∈ l, p c = true) : l.takeWhile p = l := by
  induction l with
  | nil => rfl
  | cons a l ih =>
    simp [h a (by simp), ih (fun c hc => h c (by simp [hc]))]

theorem all_of_dropWhile_eq_nil {α : Type} {p : α → Bool} {l : List α}
    (h : l.dropWhile p = []) : ∀ c ∈ l, p c = true := by
  induction l with
  | nil => simp
  | cons a l ih =>
    simp only [List.dropWhile_cons] at h
    split at h
    · rename_i hp
      intro c hc
      rcases List.mem_cons.1 hc with rfl | hc
      · exact hp
      · exact ih h c hc
    · simp at h

theorem takeWhile_append_of_all {α : Type} {p : α → Bool} (run rest : List α)
    (h : ∀ c ∈ run, p c = true) :
    (run ++ rest).takeWhile p = run ++ rest.takeWhile p ∧
    (run ++ rest).dropWhile p = rest.dropWhile p := by
  induction run with
  | nil => simp
  | cons a run ih =>
    have ha := h a (by simp)
    have := ih (fun c hc => h c (by simp [hc]))
    simp [ha, this.1, this.2]

/-- a maximal run: everything in `run` satisfies `p`, the next character (if any) does not -/
theorem takeWhile_run {α : Type} {p : α → Bool} (run rest : List α)
    (h : ∀ c ∈ run, p c = true) (hr : ∀ c, rest.head? = some c → p c = false) :
    (run ++ rest).takeWhile p = run ∧ (run ++ rest).dropWhile p = rest := by
  obtain ⟨h1, h2⟩ := takeWhile_append_of_all run rest h
  rw [h1, h2, dropWhile_eq_self hr]
  cases rest with
  | nil => simp
  | cons r rest => simp [hr r rfl]

/-! ## `lstrip`, `rstrip`, `strip` -/

theorem lstrip_cons_of_not_space {c : Char} (h : isSpace c = false) (l : Str) :
    lstrip (c :: l) = c :: l := by
  simp [lstrip, h]

theorem lstrip_cons_of_space {c : Char} (h : isSpace c = true) (l : Str) :
    lstrip (c :: l) = lstrip l := by
  simp [lstrip, h]

theorem rstrip_nil : rstrip [] = [] := rfl

theorem rstrip_isEmpty (v : Str) : (rstrip v).isEmpty = (v.reverse.dropWhile isSpace).isEmpty := by
  simp [rstrip]

/-- `rstrip` of a concatenation -/
theorem rstrip_append (p v : Str) :
    rstrip (p ++ v) = if (rstrip v).isEmpty then rstrip p else p ++ rstrip v := by
  rw [rstrip_isEmpty]
  simp only [rstrip, List.reverse_append, List.dropWhile_append]
  split <;> simp

theorem rstrip_snoc_space {c : Char} (h : isSpace c = true) (l : Str) :
    rstrip (l ++ [c]) = rstrip l := by
  rw [rstrip_append]
  simp [rstrip, h]

theorem length_lstrip_le (l : Str) : (lstrip l).length ≤ l.length := length_dropWhile_le _ _

theorem length_rstrip_le (l : Str) : (rstrip l).length ≤ l.length := by
  simpa [rstrip] using length_dropWhile_le isSpace l.reverse

theorem rstrip_eq_self_of_length {l : Str} (h : (rstrip l).length = l.length) : rstrip l = l := by
  have h' : (l.reverse.dropWhile isSpace).length = l.reverse.length := by simpa [rstrip] using h
  have := dropWhile_eq_self_of_length h'
  simp [rstrip, this]

/-- text that `strip` leaves alone is left alone by both halves -/
theorem lstrip_rstrip_of_strip_eq {v : Str} (h : strip v = v) : lstrip v = v ∧ rstrip v = v := by
  have h1 := length_lstrip_le v
  have h2 := length_rstrip_le (lstrip v)
  have h3 : (rstrip (lstrip v)).length = v.length := by
    have := congrArg List.length h; simpa [strip] using this
  have hl : lstrip v = v := dropWhile_eq_self_of_length (by simp only [lstrip] at h1 h2 h3 ⊢; omega)
  refine ⟨hl, ?_⟩
  have : strip v = rstrip v := by simp [strip, hl]
  rw [← this]; exact h

theorem strip_nil : strip [] = [] := rfl

theorem strip_cons_of_space {c : Char} (h : isSpace c = true) (l : Str) :
    strip (c :: l) = strip l := by
  simp [strip, lstrip_cons_of_space h]

theorem strip_snoc_of_space {c : Char} (h : isSpace c = true) (l : Str) :
    strip (l ++ [c]) = strip l := by
  cases hl : lstrip l with
  | nil =>
    have hall : ∀ d ∈ l, isSpace d = true := all_of_dropWhile_eq_nil hl
    have : lstrip (l ++ [c]) = [] := by
      apply dropWhile_eq_nil_of_all
      intro d hd
      rcases List.mem_append.1 hd with hd | hd
      · exact hall d hd
      · simp at hd; subst hd; exact h
    simp [strip, this, hl]
  | cons a l' =>
    have : lstrip (l ++ [c]) = lstrip l ++ [c] := by
      simp only [lstrip, List.dropWhile_append]
      simp only [lstrip] at hl
      simp [hl]
    simp only [strip, this, rstrip_snoc_space h]

/-- `strip (line ++ "\n") = strip line` -/
theorem strip_snoc_newline (l : Str) : strip (l ++ ['\n']) = strip l :=
  strip_snoc_of_space (by decide) l

theorem strip_of_no_space {l : Str} (h : ∀ c ∈ l, isSpace c = false) : strip l = l := by
  have hl : lstrip l = l := dropWhile_eq_self (fun c hc => h c (List.mem_of_mem_head? hc))
  have hr : l.reverse.dropWhile isSpace = l.reverse :=
    dropWhile_eq_self (fun c hc => h c (by simpa using List.mem_of_mem_head? hc))
  simp [strip, hl, rstrip, hr]

/-- the stripped form of a written line `prefix ++ value ++ "\n"` whose prefix starts with a
non-space character (e.g. `#`) and whose value is clean (`strip v = v`) -/
theorem strip_line {c nl : Char} (hc : isSpace c = false) (hnl : isSpace nl = true) (p v : Str)
    (hv : strip v = v) :
    strip (c :: p ++ v ++ [nl]) = if v.isEmpty then rstrip (c :: p) else c :: p ++ v := by
  rw [strip_snoc_of_space hnl]
  have : strip (c :: p ++ v) = rstrip (c :: p ++ v) := by
    simp [strip, List.cons_append, lstrip_cons_of_not_space hc]
  rw [this, rstrip_append, (lstrip_rstrip_of_strip_eq hv).2]

theorem rstrip_snoc_not_space {d : Char} (h : isSpace d = false) (l : Str) :
    rstrip (l ++ [d]) = l ++ [d] := by
  simp [rstrip, h]

/-- stripping keeps a leading non-space character -/
theorem strip_cons_not_space {c : Char} (h : isSpace c = false) (r : Str) :
    strip (c :: r) = c :: rstrip r := by
  have : rstrip (c :: r) = c :: rstrip r := by
    have := rstrip_append [c] r
    rw [show c :: r = [c] ++ r from rfl, this]
    split
    · rename_i he
      have hr : rstrip r = [] := by simpa using he
      rw [hr]; simp [rstrip, h]
    · rfl
  simp [strip, lstrip_cons_of_not_space h, this]

/-- a written line as the parsers see it: `(line + "\n").strip()` -/
def pl (x : Str) : Str := strip (x ++ ['\n'])

/-- the value part of a stripped `KEY: value` line: `" value"`, or nothing when the value is empty
(the space after the colon is then trailing whitespace) -/
def padded (v : Str) : Str := if v.isEmpty then [] else ' ' :: v

theorem padded_nil : padded [] = [] := rfl
theorem padded_cons (a : Char) (v : Str) : padded (a :: v) = ' ' :: a :: v := rfl

theorem strip_padded {v : Str} (hv : strip v = v) : strip (padded v) = v := by
  cases v with
  | nil => rfl
  | cons a v => rw [padded_cons, strip_cons_of_space (by decide), hv]

/-- the stripped form of a written `KEY: value` line -/
theorem pl_key_value {c : Char} (hc : isSpace c = false) (k v : Str) (hk : rstrip (c :: k) = c :: k)
    (hv : strip v = v) : pl (c :: k ++ ' ' :: v) = c :: k ++ padded v := by
  have e : c :: k ++ ' ' :: v ++ ['\n'] = c :: (k ++ [' ']) ++ v ++ ['\n'] := by simp
  rw [pl, e, strip_line hc (by decide) _ _ hv]
  cases v with
  | nil =>
    have := rstrip_snoc_space (c := ' ') (by decide) (c :: k)
    simp only [List.cons_append] at this
    simp [padded, this, hk]
  | cons a v => simp [padded]

/-! ## `removeWs` -/

theorem removeWs_append (a b : Str) : removeWs (a ++ b) = removeWs a ++ removeWs b := by
  simp [removeWs]

theorem removeWs_of_no_space {l : Str} (h : ∀ c ∈ l, isSpace c = false) : removeWs l = l := by
  simp only [removeWs]
  apply List.filter_eq_self.2
  intro c hc; simp [h c hc]

theorem removeWs_no_space (l : Str) : ∀ c ∈ removeWs l, isSpace c = false := by
  intro c hc
  simpa [removeWs] using (List.mem_filter.1 hc).2

theorem removeWs_newline : removeWs ['\n'] = [] := by decide

/-! ## digits -/

theorem isDigit_toNat {c : Char} (h : c.isDigit = true) : 48 ≤ c.toNat ∧ c.toNat ≤ 57 := by
  simp only [Char.isDigit, Bool.and_eq_true, decide_eq_true_eq] at h
  have h1 : (48 : UInt32) ≤ c.val := h.1
  have h2 : c.val ≤ (57 : UInt32) := h.2
  simp only [Char.toNat]
  rw [UInt32.le_iff_toNat_le] at h1 h2
  exact ⟨by simpa using h1, by simpa using h2⟩

/-- a digit is different from any non-digit character -/
theorem digit_bne {c d : Char} (h : c.isDigit = true) (hd : d.isDigit = false) : (c == d) = false := by
  cases hcd : c == d with
  | false => rfl
  | true => have := eq_of_beq hcd; subst this; rw [h] at hd; exact absurd hd (by decide)

theorem digit_ne {c d : Char} (h : c.isDigit = true) (hd : d.isDigit = false) : c ≠ d := by
  intro hcd; subst hcd; rw [h] at hd; exact absurd hd (by decide)

theorem digit_not_space {c : Char} (h : c.isDigit = true) : isSpace c = false := by
  have := isDigit_toNat h
  simp only [isSpace]
  generalize c.toNat = n at this
  simp only [Bool.or_eq_false_iff, Bool.and_eq_false_iff, decide_eq_false_iff_not, beq_eq_false_iff_ne]
  omega

theorem digit_not_linebreak {c : Char} (h : c.isDigit = true) : isLineBreak c = false := by
  have := isDigit_toNat h
  simp only [isLineBreak]
  generalize c.toNat = n at this
  simp only [Bool.or_eq_false_iff, beq_eq_false_iff_ne]
  omega

/-! ## `natToStr`, `toNat?` -/

theorem natToStr_isDigit {n : Nat} {c : Char} (h : c ∈ natToStr n) : c.isDigit = true :=
  Nat.isDigit_of_mem_toDigits (by decide) (by decide) h

theorem natToStr_ne_nil (n : Nat) : natToStr n ≠ [] := Nat.toDigits_ne_nil

theorem natToStr_isEmpty (n : Nat) : (natToStr n).isEmpty = false := by
  cases h : natToStr n with
  | nil => exact absurd h (natToStr_ne_nil n)
  | cons _ _ => rfl

theorem natToStr_all_isDigit (n : Nat) : (natToStr n).all Char.isDigit = true := by
  simp only [List.all_eq_true]; intro c hc; exact natToStr_isDigit hc

theorem ofDigitChars_natToStr (n : Nat) : Nat.ofDigitChars 10 (natToStr n) 0 = n :=
  Nat.ofDigitChars_ten_toDigits

theorem natToStr_no_space {n : Nat} {c : Char} (h : c ∈ natToStr n) : isSpace c = false :=
  digit_not_space (natToStr_isDigit h)

theorem natToStr_ne {n : Nat} {c d : Char} (h : c ∈ natToStr n) (hd : d.isDigit = false) : c ≠ d :=
  digit_ne (natToStr_isDigit h) hd

theorem strip_natToStr (n : Nat) : strip (natToStr n) = natToStr n :=
  strip_of_no_space (fun _ hc => natToStr_no_space hc)

/-- `int(t)` when `t` is `str(n)` up to surrounding whitespace -/
theorem toNat?_of_strip {t : Str} {n : Nat} (h : strip t = natToStr n) : toNat? t = some n := by
  simp [toNat?, h, natToStr_isEmpty, natToStr_all_isDigit, ofDigitChars_natToStr]

theorem toNat?_natToStr (n : Nat) : toNat? (natToStr n) = some n := toNat?_of_strip (strip_natToStr n)

theorem toNat?_space_natToStr (n : Nat) : toNat? (' ' :: natToStr n) = some n :=
  toNat?_of_strip (by rw [strip_cons_of_space (by decide), strip_natToStr])

/-! ## `splitOn` -/

theorem splitOn_ne_nil (sep : Char) (l : Str) : splitOn sep l ≠ [] := by
  induction l with
  | nil => simp [splitOn]
  | cons c cs ih =>
    simp only [splitOn]
    split
    · simp
    · split <;> simp

theorem splitOn_no_sep {sep : Char} {l : Str} (h : ∀ c ∈ l, c ≠ sep) : splitOn sep l = [l] := by
  induction l with
  | nil => rfl
  | cons c cs ih =>
    have hc : (c == sep) = false := by simpa using h c (by simp)
    simp [splitOn, hc, ih (fun d hd => h d (by simp [hd]))]

/-- the first piece: everything before the first separator -/
theorem splitOn_append_sep {sep : Char} (a b : Str) (h : ∀ c ∈ a, c ≠ sep) :
    splitOn sep (a ++ sep :: b) = a :: splitOn sep b := by
  induction a with
  | nil => simp [splitOn]
  | cons c cs ih =>
    have hc : (c == sep) = false := by simpa using h c (by simp)
    simp [splitOn, hc, ih (fun d hd => h d (by simp [hd]))]

/-- `"k:v".split(":") = ["k", "v"]` when neither part contains the separator -/
theorem splitOn_pair {sep : Char} (a b : Str) (ha : ∀ c ∈ a, c ≠ sep) (hb : ∀ c ∈ b, c ≠ sep) :
    splitOn sep (a ++ sep :: b) = [a, b] := by
  rw [splitOn_append_sep a b ha, splitOn_no_sep hb]

end PrefVerif.IOL
