import PrefVerif.Lemmas.ILPModels
import PrefVerif.Lemmas.ILPRestrict
/-!
# ILP helper lemmas, part 7: the alternative-deletion block

A triple of columns is relaxed as soon as one of its three deletion variables is 1, so the block says:
every row is contiguous on the encoded axis restricted to the kept columns.  This is the restricted
profile being single-peaked on the restricted axis.
-/
namespace PrefVerif.ILPP
open PrefVerif PrefVerif.ILP PrefVerif.Spec PrefVerif.Spec.Nearly PrefVerif.C05 PrefVerif.C11
  PrefVerif.SinglePeakedAxis

variable {asg : Var → Rat}

/-- the encoded order restricted to some of its members -/
theorem Encodes.filter {ax : List Nat} (hn : ax.Nodup) (hE : Encodes asg ax) (f : Nat → Bool) :
    Encodes asg (ax.filter f) := by
  let R : Nat → Nat → Prop := fun a b => asg (.leftOf a b) = 1
  have hsub : ∀ a ∈ ax.filter f, a ∈ ax := fun a ha => (List.mem_filter.1 ha).1
  have hpw : ax.Pairwise R := by
    rw [List.pairwise_iff_getElem]
    intro i j hi hj hij
    have hne : ax[i] ≠ ax[j] := fun e => by
      have := hn.idxOf_getElem i hi
      rw [e, hn.idxOf_getElem j hj] at this; omega
    refine (hE.iff ax[i] (List.getElem_mem _) ax[j] (List.getElem_mem _) hne).2 ?_
    rw [hn.idxOf_getElem i hi, hn.idxOf_getElem j hj]; exact hij
  refine ⟨fun a ha b hb => hE.bin a (hsub a ha) b (hsub b hb), fun a ha b hb hab => ?_⟩
  refine rel_iff_idxOf R (ax.filter f) (hpw.filter f) ?_ a b ha hb hab
  intro x hx y hy hxy h1 h2
  have e1 := (hE.iff x (hsub x hx) y (hsub y hy) hxy).1 h1
  have e2 := (hE.iff y (hsub y hy) x (hsub x hx) (Ne.symm hxy)).1 h2
  omega

theorem relaxSum_three (u v w : Var) : relaxSum asg [u, v, w] = asg u + asg v + asg w := by
  simp only [relaxSum, List.map, List.sum_cons, List.sum_nil]; grind

theorem three_bin {x y z : Rat} (hx : Bin x) (hy : Bin y) (hz : Bin z) :
    (x + y + z = 0 ∧ x = 0 ∧ y = 0 ∧ z = 0) ∨ (1 ≤ x + y + z ∧ ¬ (x = 0 ∧ y = 0 ∧ z = 0)) := by
  rcases hx with rfl | rfl <;> rcases hy with rfl | rfl <;> rcases hz with rfl | rfl <;> grind

/-- the block, on the index level -/
theorem sat_altDel_iff (alts : List Nat) (orders : List Order) {ax : List Nat}
    (hp : ax.Perm (List.range alts.length)) (hE : Encodes asg ax)
    (hbin : ∀ a b, a < alts.length → b < alts.length → Bin (asg (.leftOf a b)))
    (hdel : ∀ a, a < alts.length → Bin (asg (.delAlt a))) (kp : Nat → Bool)
    (hkp : ∀ a, a < alts.length → (kp a = true ↔ asg (.delAlt a) = 0)) :
    Sat asg (consOnesAltDelCstr alts orders) ↔
      ∀ r ∈ consOnesRows alts orders, Contiguous (ax.filter kp) r := by
  have hn : ax.Nodup := hp.nodup_iff.2 List.nodup_range
  have hmem : ∀ a, a < alts.length → (a ∈ ax.filter kp ↔ asg (.delAlt a) = 0) := fun a ha => by
    rw [List.mem_filter, hkp a ha]
    exact ⟨fun h => h.2, fun h => ⟨(mem_of_perm_range hp).2 ha, h⟩⟩
  unfold consOnesAltDelCstr
  rw [sat_flatMap]
  refine forall_congr' (fun r => forall_congr' (fun _ => ?_))
  refine sat_row_iff (hn.sublist List.filter_sublist) (hE.filter hn kp) hbin
    (fun a ha => (mem_of_perm_range hp).1 (List.mem_filter.1 ha).1) r _ (fun i j k hi hj hk => ?_)
  rw [relaxSum_three, hmem i hi, hmem j hj, hmem k hk]
  exact three_bin (hdel i hi) (hdel j hj) (hdel k hk)

theorem ofAxis_delAlt_bin (ax dv da : List Nat) (a : Nat) : Bin (ofAxis ax dv da (.delAlt a)) := by
  show Bin (if da.contains a then 1 else 0)
  unfold Bin; split <;> simp

theorem ofAxis_delAlt_zero (ax dv da : List Nat) (a : Nat) :
    (!da.contains a) = true ↔ ofAxis ax dv da (.delAlt a) = 0 := by
  show (!da.contains a) = true ↔ (if da.contains a then (1 : Rat) else 0) = 0
  cases da.contains a <;> simp

/-! ### the kept alternatives -/

/-- the alternatives whose index passes `kp` -/
def keepOf (alts : List Nat) (kp : Nat → Bool) : List Nat :=
  (alts.zipIdx.filter (fun ai => kp ai.2)).map (·.1)

theorem keepOf_sublist (alts : List Nat) (kp : Nat → Bool) : (keepOf alts kp).Sublist alts := by
  have := (List.filter_sublist (p := fun ai : Nat × Nat => kp ai.2) (l := alts.zipIdx)).map (·.1)
  rwa [List.zipIdx_map_fst] at this

theorem mem_keepOf (alts : List Nat) (hn : alts.Nodup) (kp : Nat → Bool) (a : Nat) :
    a ∈ keepOf alts kp ↔ a ∈ alts ∧ kp (alts.idxOf a) = true := by
  unfold keepOf
  rw [List.mem_map]
  constructor
  · rintro ⟨⟨a', i⟩, hai, hEq⟩
    obtain ⟨hm, hk⟩ := List.mem_filter.1 hai
    have := List.mem_zipIdx_iff_getElem?.1 hm
    obtain ⟨hlt, he⟩ := List.getElem?_eq_some_iff.1 this
    simp only at he hk hEq
    rw [← hEq, ← he, hn.idxOf_getElem i hlt]
    exact ⟨List.getElem_mem _, hk⟩
  · rintro ⟨ha, hk⟩
    have hlt := List.idxOf_lt_length_of_mem ha
    refine ⟨(a, alts.idxOf a), List.mem_filter.2 ⟨?_, hk⟩, rfl⟩
    rw [List.mem_zipIdx_iff_getElem?]
    simp only
    rw [List.getElem?_eq_getElem hlt, List.getElem_idxOf hlt]

/-- the axis of alternatives restricted to the kept ones is the relabelled restricted index axis -/
theorem filter_axis (alts : List Nat) (hn : alts.Nodup) (kp : Nat → Bool) (ax : List Nat)
    (hax : ∀ c ∈ ax, c < alts.length) :
    (ax.map (fun i => alts.getD i 0)).filter (fun a => (keepOf alts kp).contains a) =
      (ax.filter kp).map (fun i => alts.getD i 0) := by
  rw [List.filter_map]
  congr 1
  apply List.filter_congr
  intro c hc
  have hlt := hax c hc
  simp only [Function.comp, getD_of_lt alts c hlt]
  have := mem_keepOf alts hn kp alts[c]
  rw [hn.idxOf_getElem c hlt] at this
  cases h : kp c
  · have h' : alts[c] ∉ keepOf alts kp := fun hm => by simpa [h] using (this.1 hm).2
    simpa using h'
  · have h' : alts[c] ∈ keepOf alts kp := this.2 ⟨List.getElem_mem _, h⟩
    simpa using h'

/-- the block, on the level of alternatives -/
theorem altDel_iff_spOnSubset (alts : List Nat) (hn : alts.Nodup) (orders : List Order)
    (ho : ∀ o ∈ orders, CompleteOrder alts o) (ax : List Nat) (hp : ax.Perm (List.range alts.length))
    (kp : Nat → Bool) :
    (∀ r ∈ consOnesRows alts orders, Contiguous (ax.filter kp) r) ↔
      spOnSubset orders (keepOf alts kp)
        ((ax.map (fun i => alts.getD i 0)).filter (fun a => (keepOf alts kp).contains a)) = true := by
  have hax : ∀ c ∈ ax, c < alts.length := fun c hc => (mem_of_perm_range hp).1 hc
  have hkn : (keepOf alts kp).Nodup := hn.sublist (keepOf_sublist alts kp)
  have hperm : (ax.map (fun i => alts.getD i 0)).Perm alts := relabel_perm alts ax hp
  -- the restricted axis lists exactly the kept alternatives
  have h1 : isPermOf ((ax.map (fun i => alts.getD i 0)).filter (fun a => (keepOf alts kp).contains a))
      (keepOf alts kp) = true := by
    rw [isPermOf_iff _ _ hkn, List.perm_ext_iff_of_nodup
      ((hperm.nodup_iff.2 hn).sublist List.filter_sublist) hkn]
    intro a
    rw [List.mem_filter, hperm.mem_iff]
    simp only [List.contains_iff_mem]
    exact ⟨fun h => h.2, fun h => ⟨(keepOf_sublist alts kp).subset h, h⟩⟩
  unfold spOnSubset
  rw [h1, Bool.true_and, spOnAxis_iff, filter_axis alts hn kp ax hax]
  have hk : ∀ a ∈ (ax.filter kp).map (fun i => alts.getD i 0), a ∈ keepOf alts kp := by
    intro a ha
    rw [← filter_axis alts hn kp ax hax] at ha
    simpa using (List.mem_filter.1 ha).2
  rw [spOnAxis_restrict _ _ _ hk]
  exact consOnes_iff_sub alts hn orders (fun o hoo a ha => ((ho o hoo).2.2 a).1 ha) (ax.filter kp)
    (fun c hc => hax c (List.mem_filter.1 hc).1)

end PrefVerif.ILPP
