import PrefVerif.Lemmas.C05PQCompleteP
/-!
Completeness of `set_contiguous`, part 3: the loop and the restructuring step of `Q.set_contiguous`.
-/
set_option linter.unusedSimpArgs false
namespace PrefVerif.PQTree
open Tree

/-- the test deciding whether `Q.set_contiguous` reverses the list of children -/
def revCond (rs : List (Tree × Flag)) (last : Tree × Flag) : Bool :=
  last.2 == Flag.empty || last.2 == Flag.partialAligned && (select Flag.full rs).length + 1 == rs.length

/-- the outcomes of `restructureQ`, with the rule by which the children were (or were not) reversed -/
theorem restructureQ_shape' {v : Nat} {rs : List (Tree × Flag)} {t' : Tree} {f' : Flag}
    (h : restructureQ v rs = .ok (t', f')) :
    ∃ last rs', rs.getLast? = some last ∧ rs' = (if revCond rs last then rs.reverse else rs) ∧
    (((select .full rs).length = rs.length ∧ t' = .q (rs'.map (·.1)) ∧ f' = .full) ∨
     ((select .empty rs).length = rs.length ∧ t' = .q (rs'.map (·.1)) ∧ f' = .empty) ∨
     ((select .partialUnaligned rs).length = 1 ∧ (select .empty rs).length + 1 = rs.length ∧
        t' = .q (rs'.map (·.1)) ∧ f' = .partialUnaligned) ∨
     ((select .partialAligned rs).length = 1 ∧ (select .empty rs).length + 1 = rs.length ∧
        t' = .q (rs'.map (·.1)) ∧
        ((f' = .partialAligned ∧ rs'.getLast?.map (·.2) = some .partialAligned) ∨
         (f' = .partialUnaligned ∧ rs'.getLast?.map (·.2) ≠ some .partialAligned))) ∨
     (select .partialUnaligned rs = [] ∧ (select .partialAligned rs).length ≤ 2 ∧
        (select .full rs).length ≠ rs.length ∧ (select .empty rs).length ≠ rs.length ∧
        ¬ ((select .partialAligned rs).length = 1 ∧ (select .empty rs).length + 1 = rs.length) ∧
        ∃ st, qLoop v ⟨[], false, false⟩ rs' = .ok st ∧ t' = .q st.newChildren ∧
          f' = if st.seenRightEnd then .partialUnaligned else .partialAligned)) := by
  have hsum := select_length_sum rs
  unfold restructureQ at h
  simp only [] at h
  split at h
  · cases h
  rename_i last hlast
  refine ⟨last, _, hlast, rfl, ?_⟩
  have hcond : (last.2 == Flag.empty || last.2 == Flag.partialAligned &&
      (select Flag.full rs).length + 1 == rs.length) = revCond rs last := rfl
  rw [hcond] at h
  generalize (if revCond rs last = true then rs.reverse else rs) = rs' at h ⊢
  split at h
  · cases h
  rename_i h1
  split at h
  · rename_i h2
    simp only [Except.ok.injEq, Prod.mk.injEq] at h
    exact .inl ⟨by simpa using h2, h.1.symm, h.2.symm⟩
  rename_i h2
  split at h
  · rename_i h3
    simp only [Except.ok.injEq, Prod.mk.injEq] at h
    exact .inr (.inl ⟨by simpa using h3, h.1.symm, h.2.symm⟩)
  rename_i h3
  simp only [gt_iff_lt, ge_iff_le, bne_iff_ne, ne_eq, Bool.or_eq_true, decide_eq_true_eq,
    Bool.and_eq_true, not_or, not_and, Decidable.not_not, beq_iff_eq] at h1 h2 h3
  split at h
  · rename_i h4
    simp only [Except.ok.injEq, Prod.mk.injEq] at h
    simp only [beq_iff_eq] at h4
    exact .inr (.inr (.inl ⟨h4, h1.2 (by omega), h.1.symm, h.2.symm⟩))
  rename_i h4
  simp only [beq_iff_eq] at h4
  split at h
  · rename_i h5
    simp only [Bool.and_eq_true, beq_iff_eq] at h5
    split at h
    · rename_i h6
      simp only [Except.ok.injEq, Prod.mk.injEq] at h
      exact .inr (.inr (.inr (.inl ⟨h5.1, h5.2, h.1.symm, .inl ⟨h.2.symm, by simpa using h6⟩⟩)))
    · rename_i h6
      simp only [Except.ok.injEq, Prod.mk.injEq] at h
      exact .inr (.inr (.inr (.inl ⟨h5.1, h5.2, h.1.symm, .inr ⟨h.2.symm, by simpa using h6⟩⟩)))
  rename_i h5
  simp only [Bool.and_eq_true, beq_iff_eq] at h5
  have hPU : select .partialUnaligned rs = [] := by
    apply List.eq_nil_of_length_eq_zero
    by_cases hz : (select .partialUnaligned rs).length = 0
    · exact hz
    · have := h1.2 (by omega); omega
  split at h
  · cases h
  rename_i st hst
  simp only [Except.ok.injEq, Prod.mk.injEq] at h
  exact .inr (.inr (.inr (.inr ⟨hPU, by omega, h2, h3, h5, st, hst, h.1.symm, h.2.symm⟩)))

/-- how `restructureQ` can fail -/
theorem restructureQ_error {v : Nat} {rs : List (Tree × Flag)} {e : Err} (h : restructureQ v rs = .error e) :
    rs = [] ∨ (select .partialAligned rs).length > 2 ∨
      (1 ≤ (select .partialUnaligned rs).length ∧ (select .empty rs).length + 1 ≠ rs.length) ∨
      (∃ last, rs.getLast? = some last ∧
        select .partialUnaligned rs = [] ∧
        (select .full rs).length ≠ rs.length ∧ (select .empty rs).length ≠ rs.length ∧
        ¬ ((select .partialAligned rs).length = 1 ∧ (select .empty rs).length + 1 = rs.length) ∧
        qLoop v ⟨[], false, false⟩ (if revCond rs last then rs.reverse else rs) = .error e) := by
  have hsum := select_length_sum rs
  unfold restructureQ at h
  simp only [] at h
  split at h
  · rename_i hlast
    exact .inl (List.getLast?_eq_none_iff.1 hlast)
  rename_i last hlast
  have hcond : (last.2 == Flag.empty || last.2 == Flag.partialAligned &&
      (select Flag.full rs).length + 1 == rs.length) = revCond rs last := rfl
  rw [hcond] at h
  generalize hrs' : (if revCond rs last = true then rs.reverse else rs) = rs' at h
  split at h
  · rename_i h1
    simp only [gt_iff_lt, ge_iff_le, bne_iff_ne, ne_eq, Bool.or_eq_true, decide_eq_true_eq,
      Bool.and_eq_true] at h1
    rcases h1 with h1 | ⟨h1, h2⟩
    · exact .inr (.inl h1)
    · exact .inr (.inr (.inl ⟨h1, h2⟩))
  rename_i h1
  split at h
  · cases h
  rename_i h2
  split at h
  · cases h
  rename_i h3
  split at h
  · cases h
  rename_i h4
  split at h
  · split at h <;> cases h
  rename_i h5
  simp only [gt_iff_lt, ge_iff_le, bne_iff_ne, ne_eq, Bool.or_eq_true, decide_eq_true_eq,
    Bool.and_eq_true, not_or, not_and, Decidable.not_not, beq_iff_eq] at h1 h2 h3 h4 h5
  have hPU : select .partialUnaligned rs = [] := by
    apply List.eq_nil_of_length_eq_zero
    by_cases hz : (select .partialUnaligned rs).length = 0
    · exact hz
    · have := h1.2 (by omega); omega
  split at h
  · rename_i e' he'
    simp only [Except.error.injEq] at h
    subst h
    exact .inr (.inr (.inr ⟨last, hlast, hPU, h2, h3, fun hh => h5 hh.1 hh.2, hrs' ▸ he'⟩))
  · cases h

/-! ### running the loop along the blocks of an ordering -/

theorem qStep_empty (v : Nat) (st : QLoop) (i : Tree) :
    qStep v st (i, .empty) = .ok ⟨st.newChildren ++ [i], st.seenNonempty,
      if st.seenNonempty then true else st.seenRightEnd⟩ := by
  simp [qStep, Flag.fill, EMPTY]

theorem qStep_full (v : Nat) (st : QLoop) (i : Tree) (h : st.seenRightEnd = false) :
    qStep v st (i, .full) = .ok ⟨st.newChildren ++ [i], true, false⟩ := by
  simp [qStep, Flag.fill, EMPTY, FULL, PARTIAL, h]

theorem qStep_pa_first (v : Nat) (st : QLoop) (i : Tree) (h : st.seenRightEnd = false)
    (hn : st.seenNonempty = false) :
    qStep v st (i, .partialAligned) = .ok ⟨st.newChildren ++ simplify v true i, true, false⟩ := by
  simp [qStep, Flag.fill, Flag.aligned, EMPTY, PARTIAL, ALIGNED, h, hn]

theorem qStep_pa_second (v : Nat) (st : QLoop) (i : Tree) (h : st.seenRightEnd = false)
    (hn : st.seenNonempty = true) :
    qStep v st (i, .partialAligned) =
      .ok ⟨st.newChildren ++ simplify v false (Tree.reverse i), true, true⟩ := by
  simp [qStep, Flag.fill, Flag.aligned, EMPTY, PARTIAL, ALIGNED, h, hn]

/-- not: exactly one partial child among empty ones -/
def NotLone (rem : List Blk) : Prop :=
  ¬ ((select .partialAligned (rem.map (·.1))).length = 1 ∧
      (select .empty (rem.map (·.1))).length + 1 = rem.length)

/-- how the state of the loop relates to the blocks still to come -/
def Phase (v : Nat) (st : QLoop) (rem : List Blk) : Prop :=
  (st.seenNonempty = false ∧ st.seenRightEnd = false ∧ VSeg v (rem.map (·.2)).flatten ∧ NotLone rem) ∨
  (st.seenNonempty = true ∧ st.seenRightEnd = false ∧ Pre v (rem.map (·.2)).flatten) ∨
  (st.seenRightEnd = true ∧ NoV v (rem.map (·.2)).flatten)

theorem all_empty_of_noV {v : Nat} {rest : List Blk} (hgood : ∀ b ∈ rest, GoodBlk v b)
    (h : NoV v (rest.map (·.2)).flatten) : ∀ b ∈ rest, b.1.2 = .empty := by
  intro b hb
  apply (hgood b hb).flag_empty
  intro s hs
  exact h s (List.mem_flatten.2 ⟨b.2, List.mem_map.2 ⟨b, hb, rfl⟩, hs⟩)

theorem allVL_not_noV {v : Nat} {g : List (List Nat)} (hne : g ≠ []) (h1 : AllVL v g) (h2 : NoV v g) : False := by
  obtain ⟨s, hs⟩ := List.exists_mem_of_ne_nil _ hne
  exact h2 s hs (h1 s hs)

/-- **the loop of `Q.set_contiguous` accepts the blocks of an ordering with the sets containing `v` on an
interval, and the ordering is one of the new children's** -/
theorem qLoop_complete {v : Nat} : ∀ (bl : List Blk) (st : QLoop) (done : List (List Nat)),
    (∀ b ∈ bl, GoodBlk v b) → (∀ b ∈ bl, b.1.2 ≠ .partialUnaligned) →
    Seq st.newChildren done → (st.seenNonempty = true → HasV v done) →
    (st.seenRightEnd = true → ∀ z, ¬ Suf v (done ++ z)) → Phase v st bl →
    ∃ st', qLoop v st (bl.map (·.1)) = .ok st' ∧ Seq st'.newChildren (done ++ (bl.map (·.2)).flatten) ∧
      (st'.seenRightEnd = true → ¬ Suf v (done ++ (bl.map (·.2)).flatten)) := by
  intro bl
  induction bl with
  | nil =>
    intro st done _ _ hseq _ hsre _
    refine ⟨st, by simp [qLoop], by simpa using hseq, ?_⟩
    intro h
    simpa using hsre h []
  | cons b rest ih =>
    intro st done hgood hnpu hseq hsn hsre hphase
    obtain ⟨⟨i, f⟩, g⟩ := b
    have hgb : GoodBlk v ((i, f), g) := hgood _ List.mem_cons_self
    have hgrest : ∀ b ∈ rest, GoodBlk v b := fun b hb => hgood b (List.mem_cons_of_mem _ hb)
    have hnpurest : ∀ b ∈ rest, b.1.2 ≠ .partialUnaligned := fun b hb => hnpu b (List.mem_cons_of_mem _ hb)
    simp only [List.map_cons, List.flatten_cons] at hphase ⊢
    -- it suffices to perform one step
    have key : ∀ st1 : QLoop, qStep v st (i, f) = .ok st1 → Seq st1.newChildren (done ++ g) →
        (st1.seenNonempty = true → HasV v (done ++ g)) →
        (st1.seenRightEnd = true → ∀ z, ¬ Suf v (done ++ g ++ z)) → Phase v st1 rest →
        ∃ st', qLoop v st ((i, f) :: rest.map (·.1)) = .ok st' ∧
          Seq st'.newChildren (done ++ (g ++ (rest.map (·.2)).flatten)) ∧
          (st'.seenRightEnd = true → ¬ Suf v (done ++ (g ++ (rest.map (·.2)).flatten))) := by
      intro st1 hstep h1 h2 h3 h4
      obtain ⟨st', hq, hs', hr'⟩ := ih st1 (done ++ g) hgrest hnpurest h1 h2 h3 h4
      refine ⟨st', ?_, by simpa [List.append_assoc] using hs', by simpa [List.append_assoc] using hr'⟩
      simp only [qLoop, hstep]
      exact hq
    cases f with
    | partialUnaligned => exact absurd rfl (hnpu _ List.mem_cons_self)
    | empty =>
      have hnv : NoV v g := hgb.noV rfl
      have hne : g ≠ [] := hgb.ne_nil
      refine key _ (qStep_empty v st i) ?_ ?_ ?_ ?_
      · exact (seq_append _ _ _).2 ⟨_, _, rfl, hseq, (seq_singleton _ _).2 hgb.fr⟩
      · intro h; exact hasV_append.2 (.inl (hsn h))
      · intro h z hs
        by_cases hn : st.seenNonempty = true
        · rw [List.append_assoc] at hs
          exact allVL_not_noV hne (allVL_append.1 (suf_append_hasV hs (hsn hn)).2).1 hnv
        · simp only [hn, Bool.false_eq_true, if_false] at h
          rw [List.append_assoc] at hs
          exact hsre h _ hs
      · rcases hphase with ⟨p1, p2, p3, p4⟩ | ⟨p1, p2, p3⟩ | ⟨p1, p2⟩
        · refine .inl ⟨p1, by simp [p1, p2], p3.right, ?_⟩
          intro ⟨c1, c2⟩
          apply p4
          simp only [List.map_cons, select_cons, List.length_cons]
          simp only [reduceCtorEq, if_false, if_true, List.length_cons]
          exact ⟨c1, by omega⟩
        · exact .inr (.inr ⟨by simp [p1], pre_append_noV p3 hnv hne⟩)
        · exact .inr (.inr ⟨by simp [p1], (noV_append.1 p2).2⟩)
    | full =>
      have hav : AllVL v g := hgb.allVL rfl
      have hne : g ≠ [] := hgb.ne_nil
      have hvg : HasV v g := hgb.hasV (by simp)
      have hsre0 : st.seenRightEnd = false := by
        rcases hphase with ⟨_, p2, _, _⟩ | ⟨_, p2, _⟩ | ⟨_, p2⟩
        · exact p2
        · exact p2
        · exact absurd (noV_append.1 p2).1 (fun hh => allVL_not_noV hne hav hh)
      refine key _ (qStep_full v st i hsre0) ?_ ?_ ?_ ?_
      · exact (seq_append _ _ _).2 ⟨_, _, rfl, hseq, (seq_singleton _ _).2 hgb.fr⟩
      · intro _; exact hasV_append.2 (.inr hvg)
      · intro h; cases h
      · rcases hphase with ⟨_, _, p3, _⟩ | ⟨_, _, p3⟩ | ⟨_, p2⟩
        · refine .inr (.inl ⟨rfl, rfl, ?_⟩)
          rcases vseg_append.1 p3 with ⟨_, h2⟩ | ⟨_, h2⟩ | ⟨h2, _⟩
          · exact h2
          · exact h2.pre
          · exact absurd h2 (fun hh => allVL_not_noV hne hav hh)
        · exact .inr (.inl ⟨rfl, rfl, p3.right⟩)
        · exact absurd (noV_append.1 p2).1 (fun hh => allVL_not_noV hne hav hh)
    | partialAligned =>
      have hvg : HasV v g := hgb.hasV (by simp)
      have hng : HasN v g := hgb.hasN (by simp)
      rcases hphase with ⟨p1, p2, p3, p4⟩ | ⟨p1, p2, p3⟩ | ⟨_, p2⟩
      · -- the first child with `v`: it must be aligned to the right
        have hrest : HasV v (rest.map (·.2)).flatten := by
          rcases hasV_or_noV v (rest.map (·.2)).flatten with h | h
          · exact h
          · exfalso
            apply p4
            have hall := all_empty_of_noV hgrest h
            simp only [List.map_cons, select_cons, if_true, reduceCtorEq, if_false, List.length_cons,
              select_blocks_nil hall (show Flag.partialAligned ≠ Flag.empty by simp),
              select_blocks_of_all hall, List.length_nil, List.length_map]
            exact ⟨trivial, trivial⟩
        obtain ⟨hsg, hprest⟩ := vseg_append_hasV p3 hvg hrest
        refine key _ (qStep_pa_first v st i p2 p1) ?_ ?_ ?_ ?_
        · exact (seq_append _ _ _).2 ⟨_, _, rfl, hseq, hgb.pa rfl hsg⟩
        · intro _; exact hasV_append.2 (.inr hvg)
        · intro h; cases h
        · exact .inr (.inl ⟨rfl, rfl, hprest⟩)
      · -- a second partial child: aligned to the left, nothing with `v` after it
        have hnvrest : NoV v (rest.map (·.2)).flatten := by
          rcases hasV_or_noV v (rest.map (·.2)).flatten with h | h
          · exact absurd (pre_append_hasV p3 h).1 (fun hh => hh.not_hasN hng)
          · exact h
        refine key _ (qStep_pa_second v st i p2 p1) ?_ ?_ ?_ ?_
        · exact (seq_append _ _ _).2 ⟨_, _, rfl, hseq, hgb.pa' rfl p3.left⟩
        · intro _; exact hasV_append.2 (.inr hvg)
        · intro _ z hs
          rw [List.append_assoc] at hs
          exact (allVL_append.1 (suf_append_hasV hs (hsn p1)).2).1.not_hasN hng
        · exact .inr (.inr ⟨rfl, hnvrest⟩)
      · exact absurd hvg (not_hasV_iff.2 (noV_append.1 p2).1)

/-! ### the blocks of an ordering of a `Q` node, read in the direction chosen by the rule -/

theorem dir_blocks {v : Nat} {cs : List Tree} {rs rs' : List (Tree × Flag)}
    (hpairs : Forall2 (fun a r => Pair v a r ∧ PairC v a r) cs rs) (hrs' : rs' = rs ∨ rs' = rs.reverse)
    {g : List (List Nat)} (hg : Fr (.q cs) g) (hv : VSeg v g) :
    ∃ (h : List (List Nat)) (bl : List Blk), (h = g ∨ h = g.reverse) ∧ bl.map (·.1) = rs' ∧
      h = (bl.map (·.2)).flatten ∧ ∀ b ∈ bl, GoodBlk v b := by
  obtain ⟨h0, hh0, hs0, hv0⟩ : ∃ h0, (h0 = g ∨ h0 = g.reverse) ∧ Seq cs h0 ∧ VSeg v h0 := by
    rcases (fr_q cs g).1 hg with hs | hs
    · exact ⟨g, .inl rfl, hs, hv⟩
    · exact ⟨g.reverse, .inr rfl, hs, hv.reverse⟩
  rcases hrs' with rfl | rfl
  · obtain ⟨bl, h1, h2, h3⟩ := blocks_of_seq hpairs hs0 hv0
    exact ⟨h0, bl, hh0, h1, h2, h3⟩
  · obtain ⟨bl, h1, h2, h3⟩ := blocks_of_seq hpairs.reverse (seq_reverse hs0) hv0.reverse
    refine ⟨h0.reverse, bl, ?_, h1, h2, h3⟩
    rcases hh0 with rfl | rfl
    · exact .inr rfl
    · exact .inl (by simp)

theorem keep_q_all {v : Nat} {cs : List Tree} {rs rs' : List (Tree × Flag)}
    (hpairs : Forall2 (fun a r => Pair v a r ∧ PairC v a r) cs rs) (hrs' : rs' = rs ∨ rs' = rs.reverse)
    {g : List (List Nat)} (hg : Fr (.q cs) g) (hv : VSeg v g) : Fr (.q (rs'.map (·.1))) g := by
  obtain ⟨h, bl, hh, hbl, hflat, hgood⟩ := dir_blocks hpairs hrs' hg hv
  have h1 : Fr (.q (rs'.map (·.1))) h := by
    rw [← hbl, hflat, ← map_tree_eq]
    exact seq_q _ _ (seq_of_blocks (fun b hb => (hgood b hb).fr))
  rcases hh with rfl | rfl
  · exact h1
  · simpa using fr_reverse _ _ h1

/-- a left-aligned ordering: blocks full of `v`, at most one partial block, blocks without `v` -/
theorem pre_blocks {v : Nat} {bl : List Blk} (hgood : ∀ b ∈ bl, GoodBlk v b) (hp : Pre v (bl.map (·.2)).flatten) :
    ∃ Fs P Es, bl = Fs ++ P ++ Es ∧ (∀ b ∈ Fs, b.1.2 = .full) ∧ (∀ b ∈ Es, b.1.2 = .empty) ∧
      (P = [] ∨ ∃ y, P = [y] ∧ y.1.2 ≠ .empty ∧ y.1.2 ≠ .full) := by
  induction bl with
  | nil => exact ⟨[], [], [], rfl, by simp, by simp, .inl rfl⟩
  | cons b rest ih =>
    have hgb := hgood b List.mem_cons_self
    have hgrest : ∀ b ∈ rest, GoodBlk v b := fun b hb => hgood b (List.mem_cons_of_mem _ hb)
    simp only [List.map_cons, List.flatten_cons] at hp
    rcases pre_append.1 hp with ⟨h1, h2⟩ | ⟨h1, h2⟩
    · obtain ⟨Fs, P, Es, rfl, hFs, hEs, hP⟩ := ih hgrest h2
      refine ⟨b :: Fs, P, Es, by simp, ?_, hEs, hP⟩
      intro c hc
      rcases List.mem_cons.1 hc with rfl | hc
      · exact hgb.flag_full h1
      · exact hFs c hc
    · have hall := all_empty_of_noV hgrest h2
      by_cases hbe : b.1.2 = .empty
      · refine ⟨[], [], b :: rest, rfl, by simp, ?_, .inl rfl⟩
        intro c hc
        rcases List.mem_cons.1 hc with rfl | hc
        · exact hbe
        · exact hall c hc
      · by_cases hbf : b.1.2 = .full
        · exact ⟨[b], [], rest, rfl, by simpa using hbf, hall, .inl rfl⟩
        · exact ⟨[], [b], rest, rfl, by simp, hall, .inr ⟨b, rfl, hbe, hbf⟩⟩

theorem getLast?_append_singleton' {α : Type} (l : List α) (a : α) : (l ++ [a]).getLast? = some a := by
  simp

theorem exists_concat {α : Type} {l : List α} (h : l ≠ []) : ∃ l' a, l = l' ++ [a] := by
  rcases List.eq_nil_or_concat l with h' | ⟨l', a, h'⟩
  · exact absurd h' h
  · exact ⟨l', a, by simpa using h'⟩

/-- **after the reversal rule no ordering read along the children is aligned to the left** (in the case
handled by the loop) -/
theorem not_pre_of_rule {v : Nat} {rs : List (Tree × Flag)} {last : Tree × Flag} {bl : List Blk}
    (hlast : rs.getLast? = some last) (hbl : bl.map (·.1) = (if revCond rs last then rs.reverse else rs))
    (hgood : ∀ b ∈ bl, GoodBlk v b) (hPU : select .partialUnaligned rs = [])
    (hFn : (select .full rs).length ≠ rs.length) (hEn : (select .empty rs).length ≠ rs.length)
    (hlone : ¬ ((select .partialAligned rs).length = 1 ∧ (select .empty rs).length + 1 = rs.length)) :
    ¬ Pre v (bl.map (·.2)).flatten := by
  intro hp
  obtain ⟨Fs, P, Es, rfl, hFs, hEs, hP⟩ := pre_blocks hgood hp
  -- counts of the flags, read off the blocks
  have hsell : ∀ f, (select f ((Fs ++ P ++ Es).map (·.1))).length = (select f rs).length := by
    intro f; rw [hbl]; split
    · simp [select_reverse]
    · rfl
  have hlen : Fs.length + P.length + Es.length = rs.length := by
    have := congrArg List.length hbl
    simp only [List.length_map, List.length_append] at this
    rw [this]; split <;> simp
  have hsplit : ∀ f, select f ((Fs ++ P ++ Es).map (·.1)) =
      select f (Fs.map (·.1)) ++ select f (P.map (·.1)) ++ select f (Es.map (·.1)) := by
    intro f; simp only [List.map_append, select_append]
  have cF : (select .full rs).length = Fs.length + (select .full (P.map (·.1))).length := by
    rw [← hsell, hsplit, select_blocks_of_all hFs, select_blocks_nil hEs (by simp)]
    simp
  have cE : (select .empty rs).length = (select .empty (P.map (·.1))).length + Es.length := by
    rw [← hsell, hsplit, select_blocks_of_all hEs, select_blocks_nil hFs (by simp)]
    simp
  have cPA : (select .partialAligned rs).length = (select .partialAligned (P.map (·.1))).length := by
    rw [← hsell, hsplit, select_blocks_nil hFs (by simp), select_blocks_nil hEs (by simp)]
    simp
  have cPU : (select .partialUnaligned (P.map (·.1))).length = 0 := by
    have := hsell .partialUnaligned
    rw [hsplit, select_blocks_nil hFs (by simp), select_blocks_nil hEs (by simp), hPU] at this
    simpa using this
  -- the flag of the partial block, if there is one
  have hPfacts : (P = [] ∧ (select .full (P.map (·.1))).length = 0 ∧ (select .empty (P.map (·.1))).length = 0 ∧
      (select .partialAligned (P.map (·.1))).length = 0) ∨
      (∃ y, P = [y] ∧ y.1.2 = .partialAligned ∧ (select .full (P.map (·.1))).length = 0 ∧
        (select .empty (P.map (·.1))).length = 0 ∧ (select .partialAligned (P.map (·.1))).length = 1) := by
    rcases hP with rfl | ⟨y, rfl, hy1, hy2⟩
    · exact .inl ⟨rfl, by simp, by simp, by simp⟩
    · have hya : y.1.2 = .partialAligned := by
        cases hf : y.1.2 with
        | full => exact absurd hf hy2
        | empty => exact absurd hf hy1
        | partialAligned => rfl
        | partialUnaligned =>
          simp only [List.map_cons, List.map_nil, select_cons, if_pos hf, select_nil, List.length_cons,
            List.length_nil] at cPU
          omega
      refine .inr ⟨y, rfl, hya, ?_, ?_, ?_⟩
      · simp [select_cons, hy2]
      · simp [select_cons, hy1]
      · simp [select_cons, hya]
  -- the first and the last child
  have hheadF : ∀ f0 Fs', Fs = f0 :: Fs' → ((Fs ++ P ++ Es).map (fun b : Blk => b.1)).head? = some f0.1 := by
    intro f0 Fs' h; rw [h]; simp
  have hlastE : ∀ Es' el, Es = Es' ++ [el] → ((Fs ++ P ++ Es).map (fun b : Blk => b.1)).getLast? = some el.1 := by
    intro Es' el h; rw [h]; simp
  have hlastP : ∀ y, P = [y] → Es = [] → ((Fs ++ P ++ Es).map (fun b : Blk => b.1)).getLast? = some y.1 := by
    intro y h1 h2; rw [h1, h2]; simp
  cases hFs' : Fs with
  | nil =>
    rw [hFs'] at hlen cF
    simp only [List.length_nil, Nat.zero_add] at hlen cF
    rcases hPfacts with ⟨hP0, h1, h2, h3⟩ | ⟨y, hPy, _, h1, h2, h3⟩
    · apply hEn; rw [hP0] at hlen; simp only [List.length_nil, Nat.zero_add] at hlen; omega
    · apply hlone; rw [hPy] at hlen; simp only [List.length_cons, List.length_nil] at hlen
      exact ⟨by omega, by omega⟩
  | cons f0 Fs' =>
    have hf0 : f0.1.2 = .full := hFs f0 (by rw [hFs']; simp)
    by_cases hc : revCond rs last = true
    · -- reversed: the first child is the former last one
      rw [if_pos hc] at hbl
      have hhead : (rs.reverse).head? = some last := by rw [List.head?_reverse]; exact hlast
      rw [← hbl, hheadF f0 Fs' hFs'] at hhead
      simp only [Option.some.injEq] at hhead
      have : last.2 = .full := by rw [← hhead]; exact hf0
      simp [revCond, this] at hc
    · rw [if_neg hc] at hbl
      by_cases hEs0 : Es = []
      · rcases hPfacts with ⟨hP0, h1, h2, h3⟩ | ⟨y, hPy, hya, h1, h2, h3⟩
        · apply hFn
          rw [hP0, hEs0] at hlen
          simp only [List.length_nil, Nat.add_zero] at hlen
          omega
        · -- the partial child is the last one and all others are full: the rule would have reversed
          have hl := hlastP y hPy hEs0
          rw [hbl, hlast] at hl
          simp only [Option.some.injEq] at hl
          have h4 : last.2 = .partialAligned := by rw [hl]; exact hya
          have h5 : (select .full rs).length + 1 = rs.length := by
            rw [hPy, hEs0] at hlen
            simp only [List.length_cons, List.length_nil, Nat.add_zero] at hlen
            omega
          simp [revCond, h4, h5] at hc
      · obtain ⟨Es', el, hel⟩ := exists_concat hEs0
        have hl := hlastE Es' el hel
        rw [hbl, hlast] at hl
        simp only [Option.some.injEq] at hl
        have : last.2 = .empty := by rw [hl]; exact hEs el (by rw [hel]; simp)
        simp [revCond, this] at hc

theorem flat_split_of_mem {bl : List Blk} {b : Blk} (hb : b ∈ bl) :
    ∃ pre post, (bl.map (·.2)).flatten = pre ++ b.2 ++ post := by
  obtain ⟨l₁, l₂, rfl⟩ := List.append_of_mem hb
  exact ⟨(l₁.map (·.2)).flatten, (l₂.map (·.2)).flatten, by simp⟩

theorem rs'_cases (rs : List (Tree × Flag)) (last : Tree × Flag) :
    (if revCond rs last then rs.reverse else rs) = rs ∨ (if revCond rs last then rs.reverse else rs) = rs.reverse := by
  split
  · exact .inr rfl
  · exact .inl rfl

/-- the flags along the blocks are those of the children -/
theorem blocks_flags {rs rs' : List (Tree × Flag)} (hrs' : rs' = rs ∨ rs' = rs.reverse) :
    (∀ f, (select f rs').length = (select f rs).length) ∧ rs'.length = rs.length ∧ ∀ r, r ∈ rs' ↔ r ∈ rs := by
  rcases hrs' with rfl | rfl
  · exact ⟨fun _ => rfl, rfl, fun _ => Iff.rfl⟩
  · exact ⟨fun f => by simp [select_reverse], by simp, fun r => by simp⟩

/-- `Q.set_contiguous` does not raise when some ordering of the node has the sets with `v` on an interval -/
theorem restructureQ_noerr {v : Nat} {cs : List Tree} {rs : List (Tree × Flag)}
    (hpairs : Forall2 (fun a r => Pair v a r ∧ PairC v a r) cs rs) (hne : rs ≠ [])
    (hex : ∃ g, Fr (.q cs) g ∧ VSeg v g) : ∃ out, restructureQ v rs = .ok out := by
  obtain ⟨g, hg, hv⟩ := hex
  cases hres : restructureQ v rs with
  | ok out => exact ⟨out, rfl⟩
  | error e =>
    exfalso
    obtain ⟨h0, bl0, hh0, hbl0, hflat0, hgood0⟩ := dir_blocks hpairs (.inl rfl) hg hv
    have hv0 : VSeg v (bl0.map (·.2)).flatten := by
      rw [← hflat0]; rcases hh0 with rfl | rfl
      · exact hv
      · exact hv.reverse
    obtain ⟨c1, c2⟩ := counts_of_blocks (rs := rs) (List.Perm.of_eq hbl0) hgood0 hv0
    rcases restructureQ_error hres with h1 | h1 | ⟨h1, h2⟩ | ⟨last, hlast, hPU, hFn, hEn, hlone, hloop⟩
    · exact hne h1
    · omega
    · exact h2 (c2 h1)
    · obtain ⟨h, bl, hh, hbl, hflat, hgood⟩ := dir_blocks hpairs (rs'_cases rs last) hg hv
      obtain ⟨hsell, hlen', hmem⟩ := blocks_flags (rs'_cases rs last)
      have hvh : VSeg v (bl.map (·.2)).flatten := by
        rw [← hflat]; rcases hh with rfl | rfl
        · exact hv
        · exact hv.reverse
      have hnpu : ∀ b ∈ bl, b.1.2 ≠ .partialUnaligned := by
        intro b hb hf
        have : b.1 ∈ rs := (hmem _).1 (hbl ▸ List.mem_map.2 ⟨b, hb, rfl⟩)
        have hm : b.1.1 ∈ select .partialUnaligned rs := mem_select.2 (by rw [← hf]; exact this)
        rw [hPU] at hm; cases hm
      have hphase : Phase v ⟨[], false, false⟩ bl := by
        refine .inl ⟨rfl, rfl, hvh, ?_⟩
        intro ⟨k1, k2⟩
        apply hlone
        rw [hbl, hsell] at k1
        rw [hbl, hsell] at k2
        have : bl.length = rs.length := by
          have := congrArg List.length hbl
          simp only [List.length_map] at this
          rw [this, hlen']
        exact ⟨k1, by omega⟩
      obtain ⟨st', hq, _, _⟩ := qLoop_complete bl ⟨[], false, false⟩ [] hgood hnpu ((seq_nil _).2 rfl)
        (by simp) (by simp) hphase
      rw [hbl, hloop] at hq
      cases hq

/-- the blocks along `rs' = A ++ x :: B` -/
theorem blocks_split {bl : List Blk} {A B : List (Tree × Flag)} {x : Tree × Flag}
    (h : bl.map (·.1) = A ++ x :: B) :
    ∃ Ab xb Bb, bl = Ab ++ xb :: Bb ∧ Ab.map (·.1) = A ∧ xb.1 = x ∧ Bb.map (·.1) = B := by
  obtain ⟨Ab, R, rfl, hA, hR⟩ := List.map_eq_append_iff.1 h
  obtain ⟨xb, Bb, rfl, hx, hB⟩ := List.map_eq_cons_iff.1 hR
  exact ⟨Ab, xb, Bb, rfl, hA, hx, hB⟩

theorem noV_of_all_empty {v : Nat} {A : List Blk} (hgood : ∀ b ∈ A, GoodBlk v b) (h : ∀ b ∈ A, b.1.2 = .empty) :
    NoV v (A.map (·.2)).flatten := noV_flatten_of hgood h

theorem flat_ne_nil {v : Nat} {A : List Blk} (hgood : ∀ b ∈ A, GoodBlk v b) (hne : A ≠ []) :
    (A.map (·.2)).flatten ≠ [] := by
  obtain ⟨b, hb⟩ := List.exists_mem_of_ne_nil _ hne
  obtain ⟨s, hs⟩ := List.exists_mem_of_ne_nil _ (hgood b hb).ne_nil
  intro hnil
  have : s ∈ (A.map (·.2)).flatten := List.mem_flatten.2 ⟨b.2, List.mem_map.2 ⟨b, hb, rfl⟩, hs⟩
  rw [hnil] at this; cases this

theorem getLast?_mid_concat {α : Type} (l : List α) (a : α) (B' : List α) (b : α) :
    (l ++ a :: (B' ++ [b])).getLast? = some b := by
  rw [show l ++ a :: (B' ++ [b]) = (l ++ a :: B') ++ [b] by simp]
  exact List.getLast?_concat

/-- the restructuring step of `Q.set_contiguous` is complete -/
theorem restructureQ_complete {v : Nat} {cs : List Tree} {rs : List (Tree × Flag)} {t' : Tree} {f' : Flag}
    (hpairs : Forall2 (fun a r => Pair v a r ∧ PairC v a r) cs rs) (hlen : 2 ≤ rs.length)
    (hnd : (frontierList (rs.map (·.1))).Nodup) (h : restructureQ v rs = .ok (t', f')) :
    CompleteOut v (.q cs) t' f' := by
  have hch : ∀ r ∈ rs, ChildS v r.1 r.2 := by
    intro r hr
    obtain ⟨a, _, hp⟩ := hpairs.exists_left r hr
    exact hp.1.child
  have hsum := select_length_sum rs
  obtain ⟨last, rs', hlast, hrs'eq, hshape⟩ := restructureQ_shape' h
  have hrs' : rs' = rs ∨ rs' = rs.reverse := hrs'eq ▸ rs'_cases rs last
  obtain ⟨hsell, hlen', hmem⟩ := blocks_flags hrs'
  have hkeep : ∀ g, Fr (.q cs) g → VSeg v g → Fr (.q (rs'.map (·.1))) g :=
    fun g hg hv => keep_q_all hpairs hrs' hg hv
  -- transfer between an ordering and the one read along `rs'`
  have htrans : ∀ {g h : List (List Nat)}, (h = g ∨ h = g.reverse) → ¬ Suf v h → ¬ Pre v h →
      ¬ Suf v g ∧ ¬ Pre v g := by
    intro g h hh h1 h2
    rcases hh with rfl | rfl
    · exact ⟨h1, h2⟩
    · exact ⟨fun hs => h2 hs.reverse, fun hp => h1 hp.reverse⟩
  -- a node with a unique non-empty child
  have huniq : ∀ f, f ≠ Flag.empty → (select f rs).length = 1 → (select .empty rs).length + 1 = rs.length →
      ∃ A x B, rs' = A ++ (x, f) :: B ∧ (∀ r ∈ A, r.2 = .empty) ∧ (∀ r ∈ B, r.2 = .empty) := by
    intro f hf h1 h2
    exact split_unique (rs := rs') hf (by rw [hsell]; exact h1) (by rw [hsell, hlen']; exact h2)
  rcases hshape with ⟨_, rfl, rfl⟩ | ⟨_, rfl, rfl⟩ | ⟨hpu, hE1, rfl, rfl⟩ | ⟨hpa, hE1, rfl, hf⟩ |
    ⟨hPU, hPA2, hFn, hEn, hlone, st, hst, rfl, rfl⟩
  · exact ⟨hkeep, by simp, by simp⟩
  · exact ⟨hkeep, by simp, by simp⟩
  · -- one partial unaligned child
    refine ⟨hkeep, fun _ g hg hv => ?_, by simp⟩
    obtain ⟨A, x, B, hAB, _, _⟩ := huniq .partialUnaligned (by simp) hpu hE1
    obtain ⟨h, bl, hh, hbl, hflat, hgood⟩ := dir_blocks hpairs hrs' hg hv
    obtain ⟨Ab, xb, Bb, rfl, _, hxb, _⟩ := blocks_split (hbl.trans hAB)
    have hgx := hgood xb (by simp)
    have hxf : xb.1.2 = .partialUnaligned := by rw [hxb]
    obtain ⟨pre, post, hsp⟩ := flat_split_of_mem (bl := Ab ++ xb :: Bb) (b := xb) (by simp)
    refine htrans hh ?_ ?_
    · intro hs; rw [hflat, hsp] at hs
      exact (hgx.pu hxf).1 hs.left.right
    · intro hp; rw [hflat, hsp] at hp
      exact (hgx.pu hxf).2 hp.left.right
  · -- one partial aligned child among empty ones
    obtain ⟨A, c0, B, hAB, hA, hB⟩ := huniq .partialAligned (by simp) hpa hE1
    have hF0 : (select .full rs).length = 0 := by omega
    -- the blocks of an ordering, split at the partial child
    have hblk : ∀ {g}, Fr (.q cs) g → VSeg v g → ∃ (h : List (List Nat)) (Ab : List Blk) (xb : Blk) (Bb : List Blk),
        (h = g ∨ h = g.reverse) ∧ h = (Ab.map (·.2)).flatten ++ xb.2 ++ (Bb.map (·.2)).flatten ∧
        (∀ b ∈ Ab ++ xb :: Bb, GoodBlk v b) ∧ Ab.map (·.1) = A ∧ xb.1 = (c0, .partialAligned) ∧
        Bb.map (·.1) = B := by
      intro g hg hv
      obtain ⟨h, bl, hh, hbl, hflat, hgood⟩ := dir_blocks hpairs hrs' hg hv
      obtain ⟨Ab, xb, Bb, rfl, h1, h2, h3⟩ := blocks_split (hbl.trans hAB)
      exact ⟨h, Ab, xb, Bb, hh, by simpa using hflat, hgood, h1, h2, h3⟩
    have hallE : ∀ {Ab : List Blk} {A' : List (Tree × Flag)}, Ab.map (·.1) = A' → (∀ r ∈ A', r.2 = .empty) →
        ∀ b ∈ Ab, b.1.2 = .empty := by
      intro Ab A' h1 h2 b hb
      exact h2 b.1 (h1 ▸ List.mem_map.2 ⟨b, hb, rfl⟩)
    refine ⟨hkeep, fun hfu g hg hv => ?_, fun hfa g hg hsuf => ?_⟩
    · -- unaligned: the partial child is strictly inside
      rcases hf with ⟨hfa, _⟩ | ⟨_, hnl⟩
      · rw [hfa] at hfu; cases hfu
      have hBne : B ≠ [] := by
        intro hB0
        apply hnl
        rw [hAB, hB0]; simp
      have hAne : A ≠ [] := by
        intro hA0
        by_cases hc : revCond rs last = true
        · rw [if_pos hc] at hrs'eq
          have hhead : rs'.head? = some last := by rw [hrs'eq, List.head?_reverse]; exact hlast
          rw [hAB, hA0] at hhead
          simp only [List.nil_append, List.head?_cons, Option.some.injEq] at hhead
          rw [← hhead] at hc
          have : (select .full rs).length + 1 = rs.length := by simpa [revCond] using hc
          omega
        · rw [if_neg hc] at hrs'eq
          obtain ⟨B', bl, hbl⟩ := exists_concat hBne
          have hl : rs'.getLast? = some bl := by rw [hAB, hbl]; exact getLast?_mid_concat _ _ _ _
          rw [hrs'eq, hlast] at hl
          simp only [Option.some.injEq] at hl
          have : last.2 = .empty := by rw [hl]; exact hB bl (by rw [hbl]; simp)
          simp [revCond, this] at hc
      obtain ⟨h, Ab, xb, Bb, hh, hflat, hgood, hAb, hxb, hBb⟩ := hblk hg hv
      have hgx := hgood xb (by simp)
      have hAbE := hallE hAb hA
      have hBbE := hallE hBb hB
      have hAbne : Ab ≠ [] := by intro h0; rw [h0] at hAb; exact hAne hAb.symm
      have hBbne : Bb ≠ [] := by intro h0; rw [h0] at hBb; exact hBne hBb.symm
      have hgA : ∀ b ∈ Ab, GoodBlk v b := fun b hb => hgood b (by simp [hb])
      have hgB : ∀ b ∈ Bb, GoodBlk v b := fun b hb => hgood b (by simp [hb])
      have hxv : HasV v xb.2 := hgx.hasV (by rw [hxb]; simp)
      refine htrans hh ?_ ?_
      · intro hs; rw [hflat] at hs
        have h1 := suf_append_hasV (x := (Ab.map (·.2)).flatten ++ xb.2) hs (hasV_append.2 (.inr hxv))
        exact allVL_not_noV (flat_ne_nil hgB hBbne) h1.2 (noV_of_all_empty hgB hBbE)
      · intro hp; rw [hflat, List.append_assoc] at hp
        have h1 := pre_append_noV hp (noV_of_all_empty hgA hAbE) (flat_ne_nil hgA hAbne)
        exact (noV_append.1 h1).1.not_hasV hxv
    · -- aligned: the partial child is the last one
      have hlastpa : rs'.getLast?.map (·.2) = some .partialAligned := by
        rcases hf with ⟨_, hl⟩ | ⟨hfu, _⟩
        · exact hl
        · rw [hfu] at hfa; cases hfa
      have hB0 : B = [] := by
        apply Classical.byContradiction
        intro hBne
        obtain ⟨B', bl, hbl⟩ := exists_concat hBne
        have hl : rs'.getLast? = some bl := by rw [hAB, hbl]; exact getLast?_mid_concat _ _ _ _
        rw [hl] at hlastpa
        simp only [Option.map_some, Option.some.injEq] at hlastpa
        have := hB bl (by rw [hbl]; simp)
        rw [this] at hlastpa; cases hlastpa
      subst hB0
      have hAne : A ≠ [] := by
        intro hA0
        rw [hAB, hA0] at hlen'
        simp at hlen'; omega
      obtain ⟨h, Ab, xb, Bb, hh, hflat, hgood, hAb, hxb, hBb⟩ := hblk hg hsuf.vseg
      have hBb0 : Bb = [] := by simpa using hBb
      subst hBb0
      simp only [List.map_nil, List.flatten_nil, List.append_nil] at hflat
      have hgx := hgood xb (by simp)
      have hAbE := hallE hAb hA
      have hAbne : Ab ≠ [] := by intro h0; rw [h0] at hAb; exact hAne hAb.symm
      have hgA : ∀ b ∈ Ab, GoodBlk v b := fun b hb => hgood b (by simp [hb])
      have hxv : HasV v xb.2 := hgx.hasV (by rw [hxb]; simp)
      have hxt : xb.1.1 = c0 := by rw [hxb]
      have hxf : xb.1.2 = .partialAligned := by rw [hxb]
      rcases hh with rfl | rfl
      · have hc0 : ChildS v c0 .partialAligned := by
          have := hgx.child; rw [hxb] at this; exact this
        obtain ⟨hsyn0, _⟩ := hc0.pa rfl
        have hAm : ∀ a ∈ A.map (·.1), synPartial v a = false := by
          intro a ha
          obtain ⟨r, hr, rfl⟩ := List.mem_map.1 ha
          have hrc := hch r ((hmem r).1 (by rw [hAB]; simp [hr]))
          rw [hA r hr] at hrc
          exact hrc.ok.noSyn_empty
        rw [hAB]
        simp only [List.map_append, List.map_cons, List.map_nil]
        rw [simplify_q_append_last hAm hsyn0, hflat]
        refine (seq_append _ _ _).2 ⟨_, _, rfl, ?_, ?_⟩
        · have := seq_of_blocks (l := Ab) (fun b hb => (hgA b hb).fr)
          rwa [map_tree_eq, hAb] at this
        · rw [← hxt]
          exact hgx.pa hxf (hflat ▸ hsuf).right
      · exfalso
        have hp : Pre v ((Ab.map (·.2)).flatten ++ xb.2) := by
          rw [← hflat]; exact hsuf.reverse
        exact (pre_append_noV hp (noV_of_all_empty hgA hAbE) (flat_ne_nil hgA hAbne)).not_hasV hxv
  · -- the loop
    have hnd' : (frontierList (rs'.map (·.1))).Nodup := by
      rcases hrs' with rfl | rfl
      · exact hnd
      · rw [List.map_reverse]
        exact (frontierList_perm (List.reverse_perm _)).symm.nodup hnd
    obtain ⟨_, hns, _⟩ := qLoop_ok (st := ⟨[], false, false⟩)
      (fun r hr => (hch r ((hmem r).1 hr)).ok) hnd' (by simp) (by simp) hst
    have hrun : ∀ {g}, Fr (.q cs) g → VSeg v g → ∃ h, (h = g ∨ h = g.reverse) ∧ Seq st.newChildren h ∧
        (st.seenRightEnd = true → ¬ Suf v h) ∧ ¬ Pre v h := by
      intro g hg hv
      obtain ⟨h, bl, hh, hbl, hflat, hgood⟩ := dir_blocks hpairs hrs' hg hv
      have hvh : VSeg v (bl.map (·.2)).flatten := by
        rw [← hflat]; rcases hh with rfl | rfl
        · exact hv
        · exact hv.reverse
      have hnpu : ∀ b ∈ bl, b.1.2 ≠ .partialUnaligned := by
        intro b hb hf
        have : b.1 ∈ rs := (hmem _).1 (hbl ▸ List.mem_map.2 ⟨b, hb, rfl⟩)
        have hm : b.1.1 ∈ select .partialUnaligned rs := mem_select.2 (by rw [← hf]; exact this)
        rw [hPU] at hm; cases hm
      have hphase : Phase v ⟨[], false, false⟩ bl := by
        refine .inl ⟨rfl, rfl, hvh, ?_⟩
        intro ⟨k1, k2⟩
        apply hlone
        rw [hbl, hsell] at k1
        rw [hbl, hsell] at k2
        have : bl.length = rs.length := by
          have := congrArg List.length hbl
          simp only [List.length_map] at this
          rw [this, hlen']
        exact ⟨k1, by omega⟩
      obtain ⟨st', hq, hs', hr'⟩ := qLoop_complete bl ⟨[], false, false⟩ [] hgood hnpu ((seq_nil _).2 rfl)
        (by simp) (by simp) hphase
      rw [hbl, hst] at hq
      simp only [Except.ok.injEq] at hq
      subst hq
      simp only [List.nil_append] at hs' hr'
      refine ⟨h, hh, hflat ▸ hs', fun hre => hflat ▸ hr' hre, ?_⟩
      rw [hflat]
      exact not_pre_of_rule hlast (hbl.trans hrs'eq) hgood hPU hFn hEn hlone
    refine ⟨fun g hg hv => ?_, fun hfu g hg hv => ?_, fun hfa g hg hsuf => ?_⟩
    · obtain ⟨h, hh, hs, _, _⟩ := hrun hg hv
      have h1 : Fr (.q st.newChildren) h := seq_q _ _ hs
      rcases hh with rfl | rfl
      · exact h1
      · simpa using fr_reverse _ _ h1
    · have hre : st.seenRightEnd = true := by
        cases hb : st.seenRightEnd with
        | true => rfl
        | false => rw [hb] at hfu; simp at hfu
      obtain ⟨h, hh, _, hns', hnp⟩ := hrun hg hv
      exact htrans hh (hns' hre) hnp
    · obtain ⟨h, hh, hs, _, hnp⟩ := hrun hg hsuf.vseg
      rw [simplify_q_noSyn hns]
      rcases hh with rfl | rfl
      · exact hs
      · exact absurd hsuf.reverse hnp

end PrefVerif.PQTree
