import PrefVerif.Lemmas.C12OptDefs
/-!
# C12Opt, part 3: `last_check` and `eligible_alternatives` accept the alternatives ranked last
-/
namespace PrefVerif.C12Opt
open PrefVerif PrefVerif.KAlt PrefVerif.C12DP PrefVerif.C03 PrefVerif.C03c

/-! ## the last element of a filtered duplicate-free list is the lowest-ranked element satisfying the filter -/

theorem getLast?_filter_below (v : List Nat) (p : Nat → Bool) (a y : Nat) (hnd : v.Nodup)
    (h : (v.filter p).getLast? = some a) (hy : y ∈ v) (hpy : p y = true) : v.idxOf y ≤ v.idxOf a := by
  induction v with
  | nil => cases hy
  | cons x t ih =>
    have hxt : x ∉ t := (List.nodup_cons.1 hnd).1
    have hndt : t.Nodup := (List.nodup_cons.1 hnd).2
    cases hl : (t.filter p).getLast? with
    | some a' =>
      have haa : a = a' := by
        rw [List.filter_cons] at h
        split at h
        · rw [List.getLast?_cons, hl] at h; simpa using h.symm
        · rw [hl] at h; simpa using h.symm
      subst haa
      have hat : a ∈ t := (List.mem_filter.1 (List.mem_of_getLast? hl)).1
      have hax : x ≠ a := fun e => hxt (e ▸ hat)
      rw [List.idxOf_cons, List.idxOf_cons]
      rcases List.mem_cons.1 hy with rfl | hyt
      · simp
      · have hyx : x ≠ y := fun e => hxt (e ▸ hyt)
        have := ih hndt hl hyt
        have hax' : (x == a) = false := by simpa using hax
        have hyx' : (x == y) = false := by simpa using hyx
        rw [hax', hyx']; simp only [cond_false]; omega
    | none =>
      have hnil : t.filter p = [] := by simpa using hl
      rcases List.mem_cons.1 hy with rfl | hyt
      · simp [List.idxOf_cons]
      · exfalso
        have : y ∈ t.filter p := List.mem_filter.2 ⟨hyt, hpy⟩
        rw [hnil] at this; cases this

theorem getLast?_filter_eq (v : List Nat) (p : Nat → Bool) (a : Nat) (hnd : v.Nodup)
    (ha : a ∈ v) (hpa : p a = true) (hlow : ∀ b ∈ v, p b = true → v.idxOf b ≤ v.idxOf a) :
    (v.filter p).getLast? = some a := by
  have hmem : a ∈ v.filter p := List.mem_filter.2 ⟨ha, hpa⟩
  cases hl : (v.filter p).getLast? with
  | none =>
    have : v.filter p = [] := by simpa using hl
    rw [this] at hmem; cases hmem
  | some c =>
    have hc := List.mem_filter.1 (List.mem_of_getLast? hl)
    have h1 := hlow c hc.1 hc.2
    have h2 := getLast?_filter_below v p c a hnd hl ha hpa
    have : v.idxOf a = v.idxOf c := by omega
    have hac : a = c := by
      have hlt : v.idxOf a < v.length := List.idxOf_lt_length_of_mem ha
      have e1 : v[v.idxOf a]'hlt = a := List.getElem_idxOf hlt
      have hlt' : v.idxOf c < v.length := List.idxOf_lt_length_of_mem hc.1
      have e2 : v[v.idxOf c]'hlt' = c := List.getElem_idxOf hlt'
      rw [← e1, ← e2]; simp [this]
    rw [hac]

/-- `last_check` succeeds when every vote ranks some previously placed alternative below the new ones and each
new alternative is ranked below the other by some vote (`x1 = x2` is the singleton case) -/
theorem lastCheck_true (votes : List (List Nat)) (Y : List Nat) (x1 x2 : Nat)
    (hnd : ∀ v ∈ votes, v.Nodup)
    (hrank : ∀ v ∈ votes, x1 ∈ v ∧ x2 ∈ v)
    (hprev : Y ≠ [] → ∀ v ∈ votes, ∃ y ∈ Y, y ∈ v ∧ y ≠ x1 ∧ y ≠ x2 ∧ lt v x1 y ∧ lt v x2 y)
    (hlow1 : ∃ v ∈ votes, ¬ lt v x1 x2) (hlow2 : ∃ v ∈ votes, ¬ lt v x2 x1) :
    lastCheck votes Y [x1, x2] = true := by
  unfold lastCheck
  simp only [Bool.and_eq_true, List.all_eq_true]
  constructor
  · intro alt halt
    by_cases hY : Y = []
    · subst hY; simp
    · have hno : ¬ alt ∈ votes.filterMap
          (fun v => (v.filter (fun a => ([x1, x2] ++ Y).contains a)).getLast?) := by
        intro hm
        rw [List.mem_filterMap] at hm
        obtain ⟨v, hv, hl⟩ := hm
        obtain ⟨y, hyY, hyv, _, _, hl1, hl2⟩ := hprev hY v hv
        have := getLast?_filter_below v _ alt y (hnd v hv) hl hyv (by simp [hyY])
        unfold lt at hl1 hl2
        simp only [List.mem_cons, List.not_mem_nil, or_false] at halt
        rcases halt with rfl | rfl <;> omega
      have hf : List.contains (votes.filterMap
          (fun v => (v.filter (fun a => ([x1, x2] ++ Y).contains a)).getLast?)) alt = false := by
        rw [List.contains_eq_mem]; exact decide_eq_false hno
      simp only [hf, Bool.false_and, Bool.not_false]
  · intro alt halt
    simp only [List.mem_cons, List.not_mem_nil, or_false] at halt
    simp only [List.contains_eq_mem, decide_eq_true_eq]
    rw [List.mem_filterMap]
    rcases halt with rfl | rfl
    · obtain ⟨v, hv, hl⟩ := hlow1
      refine ⟨v, hv, ?_⟩
      rw [List.filter_filter]
      apply getLast?_filter_eq v _ alt (hnd v hv) (hrank v hv).1 (by simp)
      intro b _ hb
      unfold lt at hl
      simp only [List.mem_cons, List.not_mem_nil, or_false, Bool.and_eq_true, decide_eq_true_eq] at hb
      rcases hb.1 with rfl | rfl <;> omega
    · obtain ⟨v, hv, hl⟩ := hlow2
      refine ⟨v, hv, ?_⟩
      rw [List.filter_filter]
      apply getLast?_filter_eq v _ alt (hnd v hv) (hrank v hv).2 (by simp)
      intro b _ hb
      unfold lt at hl
      simp only [List.mem_cons, List.not_mem_nil, or_false, Bool.and_eq_true, decide_eq_true_eq] at hb
      rcases hb.1 with rfl | rfl <;> omega

/-! ## `set_merge` keeps the elements of its argument -/

theorem mem_foldl_add_of_mem_list (l : List Nat) (s : PySet Nat) (a : Nat) (h : a ∈ l) :
    a ∈ (l.foldl (PySet.add natKey) s).elems := by
  induction l generalizing s with
  | nil => cases h
  | cons x xs ih =>
    rcases List.mem_cons.1 h with rfl | h
    · exact mem_foldl_add_of_mem natKey xs _ a (PrefVerif.C18BF.mem_add_self s a)
    · exact ih _ h

theorem mem_mergeTail_of_mem_right (so other : PySet Nat) (a : Nat) (h : a ∈ other.elems) :
    a ∈ (mergeTail natKey so other).elems := by
  unfold mergeTail
  split
  · exact h
  · split
    · exact h
    · exact mem_foldl_add_of_mem_list _ _ a ((mem_iter natKey other a).2 h)

theorem mem_merge_of_mem_right (so other : PySet Nat) (a : Nat) (h : a ∈ other.elems) :
    a ∈ (so.merge natKey other).elems := by
  rw [merge_eq]
  split
  · rename_i h0
    have : other.elems = [] := by simpa using h0
    rw [this] at h; cases h
  · exact mem_mergeTail_of_mem_right _ _ a h

theorem mem_foldl_merge_of_mem_list (l : List (PySet Nat)) (s : PySet Nat) (a : Nat) (t : PySet Nat)
    (ht : t ∈ l) (h : a ∈ t.elems) : a ∈ (l.foldl (PySet.merge natKey) s).elems := by
  induction l generalizing s with
  | nil => cases ht
  | cons x xs ih =>
    rcases List.mem_cons.1 ht with rfl | ht
    · exact mem_foldl_merge_of_mem natKey xs _ a (mem_merge_of_mem_right s t a h)
    · exact ih _ ht

/-- `remaining_alternatives` contains `L[i]` and every later set except the very last one -/
theorem remainingSet_mem (Li : PySet Nat) (rest : List (PySet Nat)) (a : Nat)
    (h : a ∈ Li.elems ∨ ∃ t ∈ (Li :: rest).dropLast, a ∈ t.elems) :
    a ∈ (remainingSet (Li :: rest)).elems := by
  rcases h with h | ⟨t, ht, h⟩
  · exact remainingSet_head Li rest a h
  · unfold remainingSet
    exact mem_foldl_merge_of_mem_list _ _ a t ht h

/-! ## a key added to a set is represented in it -/

theorem foldl_add_cover {α : Type} (K : HashKey α) (l : List α) (s : PySet α) (k : α) (hk : k ∈ l) :
    ∃ e ∈ (l.foldl (PySet.add K) s).elems, (e = k ∨ K.eq k e = true) ∧ (e ∈ s.elems ∨ e ∈ l) := by
  induction l generalizing s with
  | nil => cases hk
  | cons x xs ih =>
    rcases List.mem_cons.1 hk with rfl | hk
    · by_cases hc : s.contains K k = true
      · unfold PySet.contains at hc
        rw [List.any_eq_true] at hc
        obtain ⟨e, he, heq⟩ := hc
        exact ⟨e, mem_foldl_add_of_mem K xs _ e (mem_add_of_mem K s k e he), Or.inr heq, Or.inl he⟩
      · refine ⟨k, mem_foldl_add_of_mem K xs _ k ?_, Or.inl rfl, Or.inr (by simp)⟩
        rw [add_elems]; simp [hc]
    · obtain ⟨e, he, h1, h2⟩ := ih (s.add K x) hk
      refine ⟨e, he, h1, ?_⟩
      rcases h2 with h2 | h2
      · rcases mem_add_elems K s x e h2 with h2 | h2
        · exact Or.inl h2
        · exact Or.inr (by simp [h2])
      · exact Or.inr (by simp [h2])

theorem pair_elems_spec (x1 x2 q1 q2 : Nat) (fs : FS) (hfs : fs = mkFrozen [q1, q2])
    (h : fs = mkFrozen [x1, x2] ∨ fsEq (mkFrozen [x1, x2]) fs = true) :
    fs.elems.Nodup ∧ ∀ z, z ∈ fs.elems ↔ (z = x1 ∨ z = x2) := by
  rcases h with h | h
  · rw [h, mkFrozen_pair_elems]
    split
    · rename_i e; subst e; simp
    · rename_i e
      refine ⟨by simp; exact fun e' => e e'.symm, by simp⟩
  · subst hfs
    unfold fsEq at h
    rw [mkFrozen_pair_elems, mkFrozen_pair_elems] at h
    rw [mkFrozen_pair_elems]
    by_cases e1 : x2 = x1 <;> by_cases e2 : q2 = q1
    · subst e1; subst e2
      simp at h; subst h; simp
    · simp [e1, e2] at h
    · simp [e1, e2] at h
    · simp only [e1, e2, if_false] at h ⊢
      simp at h
      refine ⟨by simp; exact fun e' => e2 e'.symm, ?_⟩
      intro z; simp
      omega

/-- an accepted pair (or singleton, `x1 = x2`) is one of the extensions, in some iteration order -/
theorem eligible_mem (Li : PySet Nat) (rest : List (PySet Nat)) (Y : List Nat) (votes : List (List Nat))
    (x1 x2 : Nat) (h1 : x1 ∈ Li.elems) (h2 : x2 ∈ (remainingSet (Li :: rest)).elems)
    (h3 : lastCheck votes Y [x1, x2] = true) :
    ∃ X ∈ eligible (Li :: rest) Y votes, X.Nodup ∧ ∀ z, z ∈ X ↔ (z = x1 ∨ z = x2) := by
  have hc : (x1, x2) ∈ candidates Li (remainingSet (Li :: rest)) Y votes :=
    mem_candidates.2 ⟨h1, h2, h3⟩
  have hk : mkFrozen [x1, x2] ∈
      (candidates Li (remainingSet (Li :: rest)) Y votes).map (fun p : Nat × Nat => mkFrozen [p.1, p.2]) :=
    List.mem_map.2 ⟨(x1, x2), hc, rfl⟩
  obtain ⟨fs, hfs, heq, hsrc⟩ := foldl_add_cover fsKey _ PySet.empty _ hk
  have hq : ∃ q1 q2, fs = mkFrozen [q1, q2] := by
    rcases hsrc with hsrc | hsrc
    · simp [PySet.empty] at hsrc
    · obtain ⟨q, _, hq⟩ := List.mem_map.1 hsrc
      exact ⟨q.1, q.2, hq.symm⟩
  obtain ⟨q1, q2, hq⟩ := hq
  obtain ⟨hnd, hmem⟩ := pair_elems_spec x1 x2 q1 q2 fs hq heq
  refine ⟨fs.iter natKey, ?_, (iter_perm natKey fs).nodup_iff.2 hnd, ?_⟩
  · unfold eligible
    dsimp only
    rw [List.mem_map]
    refine ⟨fs, ?_, rfl⟩
    rw [mem_iter, ← List.foldl_map (f := fun p : Nat × Nat => mkFrozen [p.1, p.2]) (g := PySet.add fsKey)]
    exact hfs
  · intro z
    rw [mem_iter]; exact hmem z

end PrefVerif.C12Opt
