import PrefVerif.Lemmas.C01Render
import PrefVerif.Lemmas.IOLoop
/-!
# C01 — ballot lines: what `write` produces is read back by `ballotLine`
-/
namespace PrefVerif.C01
open PrefVerif PrefVerif.Py PrefVerif.InstanceIO PrefVerif.OrdinalIO PrefVerif.IOL

/-- `m: classes` — one ballot line without its `\n` -/
def ballotText (m : Nat) (o : Order) : Str := natToStr m ++ ':' :: ' ' :: renderOrder o

/-- the characters a rendered order consists of -/
def isBallotChar (c : Char) : Bool := c.isDigit || c == ',' || c == ' ' || c == '{' || c == '}'

theorem isBallotChar_digit {c : Char} (h : c.isDigit = true) : isBallotChar c = true := by
  simp [isBallotChar, h]

theorem sClass_chars (cl : List Nat) : ∀ c ∈ sClass cl, isBallotChar c = true := by
  have hj : ∀ c ∈ join [',', ' '] (cl.map natToStr), isBallotChar c = true := by
    intro c hc
    rcases mem_join hc with h | ⟨x, hx, hcx⟩
    · simp at h; rcases h with rfl | rfl <;> decide
    · obtain ⟨a, _, rfl⟩ := List.mem_map.1 hx
      exact isBallotChar_digit (natToStr_isDigit hcx)
  intro c hc
  by_cases h1 : cl.length = 1
  · obtain ⟨a, rfl⟩ := List.length_eq_one_iff.1 h1
    exact isBallotChar_digit (natToStr_isDigit hc)
  · have : sClass cl = '{' :: join [',', ' '] (cl.map natToStr) ++ ['}'] := by
      match cl, h1 with
      | [], _ => rfl
      | [_], h => exact absurd rfl h
      | _ :: _ :: _, _ => rfl
    rw [this] at hc
    simp only [List.cons_append, List.mem_cons, List.mem_append, List.not_mem_nil, or_false] at hc
    rcases hc with rfl | h | rfl
    · decide
    · exact hj c h
    · decide

theorem renderOrder_chars (o : Order) : ∀ c ∈ renderOrder o, isBallotChar c = true := by
  intro c hc
  rw [renderOrder_eq, sOrder] at hc
  rcases mem_join hc with h | ⟨x, hx, hcx⟩
  · simp at h; rcases h with rfl | rfl <;> decide
  · obtain ⟨cl, _, rfl⟩ := List.mem_map.1 hx
    exact sClass_chars cl c hcx

theorem isBallotChar_not_linebreak {c : Char} (h : isBallotChar c = true) : isLineBreak c = false := by
  simp only [isBallotChar, Bool.or_eq_true, beq_iff_eq] at h
  rcases h with (((h | rfl) | rfl) | rfl) | rfl
  · exact digit_not_linebreak h
  all_goals decide

theorem isBallotChar_ne_colon {c : Char} (h : isBallotChar c = true) : c ≠ ':' := by
  simp only [isBallotChar, Bool.or_eq_true, beq_iff_eq] at h
  rcases h with (((h | rfl) | rfl) | rfl) | rfl
  · exact digit_ne h (by decide)
  all_goals decide

theorem lineOK_ballotText (m : Nat) (o : Order) : LineOK (ballotText m o) :=
  (lineOK_natToStr m).append (LineOK.cons (by decide) (LineOK.cons (by decide)
    (fun c hc => isBallotChar_not_linebreak (renderOrder_chars o c hc))))

/-- a ballot line does not look like a header line -/
theorem ballotText_not_hash (m : Nat) (o : Order) :
    startsWith (strip (ballotText m o ++ ['\n'])) ['#'] = false := by
  cases hn : natToStr m with
  | nil => exact absurd hn (natToStr_ne_nil m)
  | cons a v =>
    have ha : a.isDigit = true := natToStr_isDigit (n := m) (by simp [hn])
    simp only [ballotText, hn, List.cons_append, strip_cons_not_space (digit_not_space ha)]
    have hb : ('#' == a) = false := by
      cases hh : '#' == a with
      | false => rfl
      | true => have := eq_of_beq hh; subst this; exact absurd ha (by decide)
    simp [startsWith, List.isPrefixOf, hb]

theorem removeWs_ballotText (m : Nat) (o : Order) :
    removeWs (ballotText m o ++ ['\n']) = natToStr m ++ ':' :: cOrder o := by
  rw [ballotText, removeWs_append, removeWs_append, removeWs_natToStr, removeWs_newline,
    show (':' :: ' ' :: renderOrder o) = [':', ' '] ++ renderOrder o from rfl, removeWs_append,
    removeWs_renderOrder]
  simp [show removeWs [':', ' '] = [':'] by decide]

theorem cOrder_ne_colon (o : Order) : ∀ c ∈ cOrder o, c ≠ ':' := by
  intro c hc
  rw [← removeWs_renderOrder] at hc
  exact isBallotChar_ne_colon (renderOrder_chars o c (List.mem_filter.1 hc).1)

/-- one written ballot line, read back (no `autocorrect`): the order is appended and its
multiplicity recorded -/
theorem ballotLine_written (i0 : OrdInst) (m : Nat) (o : Order) (ho : ∀ c ∈ o, c ≠ []) :
    ballotLine false i0 (ballotText m o ++ ['\n'])
      = .ok { i0 with orders := i0.orders ++ [o], multiplicity := AList.set i0.multiplicity o m } := by
  have hne : (natToStr m ++ ':' :: cOrder o).isEmpty = false := by
    cases hn : natToStr m with
    | nil => exact absurd hn (natToStr_ne_nil m)
    | cons a v => rfl
  have hstrip : strip (natToStr m ++ ':' :: cOrder o) = natToStr m ++ ':' :: cOrder o := by
    apply strip_of_no_space
    rw [← removeWs_ballotText]
    exact removeWs_no_space _
  have hsplit : splitOn ':' (natToStr m ++ ':' :: cOrder o) = [natToStr m, cOrder o] :=
    splitOn_pair _ _ (fun c hc => natToStr_ne hc (by decide)) (cOrder_ne_colon o)
  have hint : intField (natToStr m) = .ok m := by simp [intField, toNat?_natToStr]
  simp only [ballotLine, removeWs_ballotText, hne, hstrip, hsplit, hint, scanOrder_cOrder o ho]
  simp
  rfl

end PrefVerif.C01
