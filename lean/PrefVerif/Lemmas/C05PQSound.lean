import PrefVerif.Lemmas.C05PQSoundQ
import PrefVerif.Lemmas.C12DPSet
/-!
Soundness of `set_contiguous`, part 4: both passes over the children, the induction on the fuel, the
main loop of `reorder_sets`, and the elements that the loop runs over.
-/
set_option linter.unusedSimpArgs false
namespace PrefVerif.PQTree
open Tree PrefVerif.KAlt

/-! ### more `Forall2` -/

theorem Forall2.flip {α β : Type} {R : α → β → Prop} {l : List α} {r : List β} (h : Forall2 R l r) :
    Forall2 (fun b a => R a b) r l := by
  induction h with
  | nil => exact .nil
  | cons hab _ ih => exact .cons hab ih

theorem Forall2.exists_right {α β : Type} {R : α → β → Prop} {l : List α} {r : List β} (h : Forall2 R l r) :
    ∀ a ∈ l, ∃ b ∈ r, R a b := by
  induction h with
  | nil => intro a ha; cases ha
  | cons hab _ ih =>
    intro a ha
    rcases List.mem_cons.1 ha with rfl | ha
    · exact ⟨_, List.mem_cons_self, hab⟩
    · obtain ⟨b, hb, hr⟩ := ih a ha
      exact ⟨b, List.mem_cons_of_mem _ hb, hr⟩

theorem Forall2.exists_left {α β : Type} {R : α → β → Prop} {l : List α} {r : List β} (h : Forall2 R l r) :
    ∀ b ∈ r, ∃ a ∈ l, R a b := fun b hb => h.flip.exists_right b hb

/-- the two passes of `set_contiguous` over the children, child by child -/
theorem twoPass {f : Tree → Except Err (Tree × Flag)} {cs : List Tree} {r1 rs : List (Tree × Flag)}
    (h1 : mapE f cs = .ok r1) (h2 : mapE f ((r1.map (·.1)).map flattenRet) = .ok rs) :
    Forall2 (fun a r => ∃ b, f a = .ok b ∧ f (flattenRet b.1) = .ok r) cs rs := by
  induction cs generalizing r1 rs with
  | nil =>
    simp only [mapE, Except.ok.injEq] at h1
    subst h1
    simp only [List.map_nil, mapE, Except.ok.injEq] at h2
    subst h2
    exact .nil
  | cons a as ih =>
    simp only [mapE] at h1
    split at h1
    · cases h1
    rename_i b hb
    split at h1
    · cases h1
    rename_i bs hbs
    simp only [Except.ok.injEq] at h1
    subst h1
    simp only [List.map_cons, mapE] at h2
    split at h2
    · cases h2
    rename_i r hr
    split at h2
    · cases h2
    rename_i rs' hrs'
    simp only [Except.ok.injEq] at h2
    subst h2
    exact .cons ⟨b, hb, hr⟩ (ih hbs hrs')

/-! ### the induction on the fuel -/

def SCSound (v fuel : Nat) : Prop :=
  ∀ (t t' : Tree) (f' : Flag), Flat t → (frontier t).Nodup → setContiguous v fuel t = .ok (t', f') →
    SoundOut v t t' f'

/-- what both passes together guarantee for one child `a` and its final state `r` -/
structure Pair (v : Nat) (a : Tree) (r : Tree × Flag) : Prop where
  child : ChildS v r.1 r.2
  sub : ∀ g, Fr r.1 g → Fr a g
  perm : (frontier r.1).Perm (frontier a)

theorem pair_of {v fuel : Nat} (ih : SCSound v fuel) {a : Tree} {r : Tree × Flag} (hflat : Flat a)
    (hnd : (frontier a).Nodup)
    (h : ∃ b, setContiguous v fuel a = .ok b ∧ setContiguous v fuel (flattenRet b.1) = .ok r) : Pair v a r := by
  obtain ⟨b, hb, hr⟩ := h
  obtain ⟨ok1, perm1⟩ := setContiguous_ok v fuel a b.1 b.2 hflat.wf hnd hb
  have s1 := ih a b.1 b.2 hflat hnd hb
  have hflat2 : Flat (flattenRet b.1) := flat_flattenRet ok1.wf
  have hfr2 : frontier (flattenRet b.1) = frontier b.1 := frontier_flattenRet b.1
  have hnd2 : (frontier (flattenRet b.1)).Nodup := by rw [hfr2]; exact perm1.symm.nodup hnd
  obtain ⟨ok2, perm2⟩ := setContiguous_ok v fuel _ r.1 r.2 hflat2.wf hnd2 hr
  have s2 := ih _ r.1 r.2 hflat2 hnd2 hr
  have hperm : (frontier r.1).Perm (frontier a) := perm2.trans (hfr2 ▸ perm1)
  exact ⟨⟨ok2, hperm.symm.nodup hnd, s2.part, s2.seg, s2.pa s1.settled⟩,
    fun g hg => s1.sub g (fr_of_flattenRet b.1 g (s2.sub g hg)), hperm⟩

theorem pairs_frontier {v : Nat} {cs : List Tree} {rs : List (Tree × Flag)} (h : Forall2 (Pair v) cs rs) :
    (frontierList (rs.map (·.1))).Perm (frontierList cs) := by
  induction h with
  | nil => simp
  | cons hab _ ih => simpa using hab.perm.append ih

theorem setContiguous_sound (v : Nat) : ∀ fuel, SCSound v fuel := by
  intro fuel
  induction fuel with
  | zero => intro t t' f' _ _ h; simp [setContiguous] at h
  | succ fuel ih =>
    intro t t' f' hflat hnd h
    cases t with
    | leaf s =>
      simp only [setContiguous, Except.ok.injEq, Prod.mk.injEq] at h
      obtain ⟨rfl, rfl⟩ := h
      refine ⟨fun g hg => hg, ?_, ?_, by simpa [flattenRet] using rootSettled_leaf v s, ?_⟩
      · intro g hg
        rw [(fr_leaf s g).1 hg]
        by_cases hv : v ∈ s
        · exact AllVL.vseg (by intro x hx; simp only [List.mem_singleton] at hx; subst hx; exact hv)
        · exact NoV.vseg (by intro x hx; simp only [List.mem_singleton] at hx; subst hx; exact hv)
      · intro hf; split at hf <;> simp at hf
      · intro _ hf; split at hf <;> simp at hf
    | p cs =>
      obtain ⟨h2, hall⟩ := (flat_p cs).1 hflat
      simp only [frontier_p] at hnd
      simp only [setContiguous] at h
      split at h
      · cases h
      rename_i r1 hr1
      split at h
      · cases h
      rename_i rs hrs
      have hr1len : 2 ≤ (r1.map (·.1)).length := by
        have := (mapE_ok hr1).length_eq
        simp only [List.length_map]; omega
      rw [flattenChildren_of_two hr1len] at hrs
      have hpairs : Forall2 (Pair v) cs rs :=
        (twoPass hr1 hrs).mono (fun a ha r hr => pair_of ih (hall a ha) (nodup_frontier_of_mem ha hnd) hr)
      have hch : ∀ r ∈ rs, ChildS v r.1 r.2 := by
        intro r hr
        obtain ⟨a, _, hp⟩ := hpairs.exists_left r hr
        exact hp.child
      have hfperm := pairs_frontier hpairs
      have hrslen : 2 ≤ rs.length := by have := hpairs.length_eq; omega
      have hout := restructureP_sound hrslen hch (hfperm.symm.nodup hnd) h
      have hmono : Forall2 (fun c' c => ∀ g, Fr c' g → Fr c g) (rs.map (·.1)) cs :=
        Forall2.map_left.2 (hpairs.flip.mono (fun r _ a hp => hp.sub))
      refine ⟨fun g hg => fr_p_mono hmono g (hout.sub g hg), hout.seg, hout.part, hout.settled, ?_⟩
      intro hrs0
      apply hout.pa
      intro cs' hcs'
      simp only [Tree.p.injEq] at hcs'
      subst hcs'
      rcases hrs0 cs rfl with hallv | ⟨c, hc, hvc⟩
      · left
        intro s hs
        simp only [frontier_p] at hs
        exact hallv s (by simpa using hfperm.mem_iff.1 hs)
      · right
        obtain ⟨r, hr, hp⟩ := hpairs.exists_right c hc
        exact ⟨r.1, List.mem_map.2 ⟨r, hr, rfl⟩, fun s hs => hvc s (hp.perm.mem_iff.1 hs)⟩
    | q cs =>
      obtain ⟨h2, hall⟩ := (flat_q cs).1 hflat
      simp only [frontier_q] at hnd
      simp only [setContiguous] at h
      split at h
      · cases h
      rename_i r1 hr1
      split at h
      · cases h
      rename_i rs hrs
      have hr1len : 2 ≤ (r1.map (·.1)).length := by
        have := (mapE_ok hr1).length_eq
        simp only [List.length_map]; omega
      rw [flattenChildren_of_two hr1len] at hrs
      have hpairs : Forall2 (Pair v) cs rs :=
        (twoPass hr1 hrs).mono (fun a ha r hr => pair_of ih (hall a ha) (nodup_frontier_of_mem ha hnd) hr)
      have hch : ∀ r ∈ rs, ChildS v r.1 r.2 := by
        intro r hr
        obtain ⟨a, _, hp⟩ := hpairs.exists_left r hr
        exact hp.child
      have hfperm := pairs_frontier hpairs
      have hrslen : 2 ≤ rs.length := by have := hpairs.length_eq; omega
      have hout := restructureQ_sound hrslen hch (hfperm.symm.nodup hnd) h
      have hmono : Forall2 (fun c' c => ∀ g, Fr c' g → Fr c g) (rs.map (·.1)) cs :=
        Forall2.map_left.2 (hpairs.flip.mono (fun r _ a hp => hp.sub))
      refine ⟨fun g hg => fr_q_mono hmono g (hout.sub g hg), hout.seg, hout.part, hout.settled, ?_⟩
      intro _
      exact hout.pa (rootSettled_q v _)

/-! ### the main loop -/

/-- every ordering the tree stands for has the sets with `u` on an interval, for all `u` processed -/
theorem mainLoop_sound {fuel : Nat} {elems : List Nat} {t t' : Tree} (hflat : Flat t) (hnd : (frontier t).Nodup)
    (h : mainLoop fuel elems t = .ok t') :
    (∀ g, Fr t' g → Fr t g) ∧ ∀ u ∈ elems, ∀ g, Fr t' g → VSeg u g := by
  induction elems generalizing t with
  | nil =>
    simp only [mainLoop, Except.ok.injEq] at h
    subst h
    exact ⟨fun g hg => hg, fun u hu => by cases hu⟩
  | cons i rest ih =>
    have step : ∀ r : Tree × Flag, setContiguous i fuel t = .ok r → mainLoop fuel rest (flattenRet r.1) = .ok t' →
        (∀ g, Fr t' g → Fr t g) ∧ ∀ u ∈ i :: rest, ∀ g, Fr t' g → VSeg u g := by
      intro r hr h
      obtain ⟨c1, c2⟩ := setContiguous_ok i fuel _ r.1 r.2 hflat.wf hnd hr
      have s := setContiguous_sound i fuel t r.1 r.2 hflat hnd hr
      have hfr := frontier_flattenRet r.1
      obtain ⟨d1, d2⟩ := ih (flat_flattenRet c1.wf) (by rw [hfr]; exact c2.symm.nodup hnd) h
      have hsub : ∀ g, Fr t' g → Fr r.1 g := fun g hg => fr_of_flattenRet r.1 g (d1 g hg)
      refine ⟨fun g hg => s.sub g (hsub g hg), ?_⟩
      intro u hu g hg
      rcases List.mem_cons.1 hu with rfl | hu
      · exact s.seg g (hsub g hg)
      · exact d2 u hu g hg
    cases t with
    | leaf s => simp [mainLoop] at h
    | p cs =>
      simp only [mainLoop] at h
      split at h
      · cases h
      rename_i r hr
      exact step r hr h
    | q cs =>
      simp only [mainLoop] at h
      split at h
      · cases h
      rename_i r hr
      exact step r hr h

/-! ### the elements the loop runs over -/

theorem mem_add_self (s : PySet Nat) (k : Nat) : k ∈ (s.add natKey k).elems := by
  rw [C12DP.add_elems]
  split
  · rename_i hc
    simp only [PySet.contains, natKey, List.any_eq_true, beq_iff_eq] at hc
    obtain ⟨e, he, rfl⟩ := hc
    exact he
  · simp

theorem mem_foldl_add_self (l : List Nat) (s : PySet Nat) (a : Nat) (h : a ∈ l) :
    a ∈ (l.foldl (PySet.add natKey) s).elems := by
  induction l generalizing s with
  | nil => cases h
  | cons x xs ih =>
    rcases List.mem_cons.1 h with rfl | h
    · exact C12DP.mem_foldl_add_of_mem natKey xs _ _ (mem_add_self s _)
    · exact ih _ h

theorem mem_foldl_sets_of_mem (xs : List (List Nat)) (s : PySet Nat) (a : Nat) (h : a ∈ s.elems) :
    a ∈ (xs.foldl (fun s t => t.foldl (PySet.add natKey) s) s).elems := by
  induction xs generalizing s with
  | nil => exact h
  | cons y ys ih =>
    simp only [List.foldl_cons]
    exact ih _ (C12DP.mem_foldl_add_of_mem natKey y _ _ h)

theorem mem_unionSet {sets : List (List Nat)} {t : List Nat} {a : Nat} (ht : t ∈ sets) (ha : a ∈ t) :
    a ∈ unionSet sets := by
  unfold unionSet
  rw [C12DP.mem_iter]
  generalize PySet.empty = s0
  induction sets generalizing s0 with
  | nil => cases ht
  | cons x xs ih =>
    simp only [List.foldl_cons]
    rcases List.mem_cons.1 ht with rfl | ht
    · exact mem_foldl_sets_of_mem xs _ a (mem_foldl_add_self t s0 a ha)
    · exact ih ht _

end PrefVerif.PQTree
