import PrefVerif.Spec.Domains
import PrefVerif.Spec.Voting
import PrefVerif.Spec.Approval
import PrefVerif.Lemmas.C05Perm
/-!
# C15 helper lemmas, part 1: invariance under permutation of the ballot list
-/
namespace PrefVerif.C15
open PrefVerif PrefVerif.Spec

/-- `any` over all arrangements only depends on the multiset arranged -/
theorem any_perms_perm {α : Type} {l l' : List α} (h : l.Perm l') (f : List α → Bool) :
    (perms l).any f = (perms l').any f := by
  rw [Bool.eq_iff_iff]
  simp only [List.any_eq_true, C05.mem_perms_iff]
  constructor
  · rintro ⟨x, hx, hf⟩; exact ⟨x, hx.trans h, hf⟩
  · rintro ⟨x, hx, hf⟩; exact ⟨x, hx.trans h.symm, hf⟩

theorem spOnAxis_perm' {orders orders' : List Order} (h : orders.Perm orders') (axis : List Nat) :
    spOnAxis orders axis = spOnAxis orders' axis := h.all_eq

theorem prefCount_perm' {v w : List Order} (h : v.Perm w) (a b : Nat) :
    prefCount v a b = prefCount w a b := h.countP_eq _

theorem margin_perm' {v w : List Order} (h : v.Perm w) (a b : Nat) : margin v a b = margin w a b := by
  simp only [margin, prefCount_perm' h]

theorem topCount_perm' {v w : List Order} (h : v.Perm w) (k a : Nat) :
    topCount k v a = topCount k w a := h.countP_eq _

theorem thresholdDepth_perm' {v w : List Order} (h : v.Perm w) (alts : List Nat) (m : Nat) :
    thresholdDepth alts v m = thresholdDepth alts w m := by
  simp only [thresholdDepth, topCount_perm' h, h.length_eq]

end PrefVerif.C15
