import PrefVerif.Lemmas.C12DPShape
import PrefVerif.Lemmas.C05Contig
import PrefVerif.Spec.NearlySP
/-!
From "no vote ranks an alternative of the axis below both its neighbours" to the checker
`PrefVerif.Spec.Nearly.spOnSubset` (every set of `k` best alternatives of every restricted vote is an interval
of the axis).
-/
namespace PrefVerif.C12DP
open PrefVerif.Spec PrefVerif.Spec.Nearly PrefVerif.C05

/-- a strict order as an order with singleton indifference classes -/
def weak (o : List Nat) : Order := o.map (fun a => [a])

theorem restrictOrder_weak (keep o : List Nat) :
    restrictOrder keep (weak o) = weak (o.filter (fun a => keep.contains a)) := by
  unfold restrictOrder weak
  induction o with
  | nil => rfl
  | cons a t ih =>
    simp only [List.map_cons, List.filter_cons] at ih ⊢
    by_cases h : keep.contains a = true
    · simp only [h, if_true, List.filter_nil, List.isEmpty_cons, Bool.not_false, List.map_cons]
      rw [ih]
    · simp only [h, Bool.false_eq_true, if_false, List.filter_nil, List.isEmpty_nil, Bool.not_true]
      rw [ih]

theorem topClasses_weak (w : List Nat) (k : Nat) : topClasses (weak w) k = w.take k := by
  unfold topClasses weak
  induction w generalizing k with
  | nil => simp
  | cons a t ih =>
    cases k with
    | zero => simp
    | succ k => simp only [List.map_cons, List.take_succ_cons, List.flatten_cons, ih]; rfl

theorem idxOf_inj (v : List Nat) (x y : Nat) (hx : x ∈ v) (h : v.idxOf x = v.idxOf y) : x = y := by
  have hlt : v.idxOf x < v.length := List.idxOf_lt_length_of_mem hx
  have h1 := List.getElem_idxOf hlt
  have hlt' : v.idxOf y < v.length := h ▸ hlt
  have h2 := List.getElem_idxOf hlt'
  rw [← h1, ← h2]
  simp [h]

/-- the `k` best alternatives among those satisfying `q` are closed under "ranked better and satisfies `q`" -/
theorem take_filter_down (q : Nat → Bool) (v : List Nat) (k : Nat) (a b : Nat)
    (ha : a ∈ (v.filter q).take k) (hb : b ∈ v) (hq : q b = true) (hlt : v.idxOf b < v.idxOf a) :
    b ∈ (v.filter q).take k := by
  induction v generalizing k with
  | nil => cases hb
  | cons h t ih =>
    have haq : q a = true := (List.mem_filter.1 (List.mem_of_mem_take ha)).2
    rw [List.idxOf_cons, List.idxOf_cons] at hlt
    by_cases hqh : q h = true
    · rw [List.filter_cons_of_pos hqh] at ha ⊢
      cases k with
      | zero => simp at ha
      | succ k =>
        rw [List.take_succ_cons] at ha ⊢
        by_cases hbh : h = b
        · subst hbh; simp
        · by_cases hah : h = a
          · subst hah; simp at hlt
          · simp only [List.mem_cons] at ha hb
            have ha' : a ∈ (t.filter q).take k := by
              rcases ha with ha | ha
              · exact absurd ha.symm hah
              · exact ha
            have hb' : b ∈ t := by
              rcases hb with hb | hb
              · exact absurd hb.symm hbh
              · exact hb
            have : t.idxOf b < t.idxOf a := by
              have e1 : (h == b) = false := by simp [hbh]
              have e2 : (h == a) = false := by simp [hah]
              simp only [e1, e2, cond_false] at hlt; omega
            exact List.mem_cons_of_mem _ (ih k ha' hb' this)
    · rw [List.filter_cons_of_neg hqh] at ha ⊢
      have hbh : h ≠ b := by intro e; subst e; exact hqh hq
      have hah : h ≠ a := by intro e; subst e; exact hqh haq
      have hb' : b ∈ t := by
        simp only [List.mem_cons] at hb
        rcases hb with hb | hb
        · exact absurd hb.symm hbh
        · exact hb
      have : t.idxOf b < t.idxOf a := by
        have e1 : (h == b) = false := by simp [hbh]
        have e2 : (h == a) = false := by simp [hah]
        simp only [e1, e2, cond_false] at hlt; omega
      exact ih k ha hb' this

/-- after one ascent the ranks keep increasing -/
theorem LMF.asc (r : Nat → Nat) (a b : Nat) (t : List Nat) (h : LMF r (a :: b :: t)) (hab : r a < r b)
    (hnd : (a :: b :: t).Nodup) (hinj : ∀ x ∈ a :: b :: t, ∀ y ∈ a :: b :: t, r x = r y → x = y) :
    List.Pairwise (fun x y => r x < r y) (a :: b :: t) := by
  induction t generalizing a b with
  | nil => simp [hab]
  | cons c t ih =>
    rw [LMF_cons3] at h
    have hbc : r b < r c := by
      have h1 : ¬ r c < r b := fun hc => h.1 ⟨hab, hc⟩
      have h2 : r b ≠ r c := by
        intro e
        have := hinj b (by simp) c (by simp) e
        subst this
        simp at hnd
      omega
    have hnd' : (b :: c :: t).Nodup := (List.nodup_cons.1 hnd).2
    have hp := ih b c h.2 hbc hnd' (fun x hx y hy => hinj x (by simp [hx]) y (by simp [hy]))
    rw [List.pairwise_cons]
    refine ⟨?_, hp⟩
    intro y hy
    simp only [List.mem_cons] at hy
    rcases hy with rfl | hy
    · exact hab
    · have := (List.pairwise_cons.1 hp).1 y (by simpa using hy)
      omega

/-- a rank-down-closed set is a segment of a list without interior local minimum -/
theorem LMF.seg (r : Nat → Nat) (p : Nat → Prop) (l : List Nat) (h : LMF r l) (hnd : l.Nodup)
    (hinj : ∀ x ∈ l, ∀ y ∈ l, r x = r y → x = y)
    (hdown : ∀ a ∈ l, ∀ b ∈ l, p a → r b < r a → p b) : Seg p l := by
  induction l with
  | nil => exact ⟨[], [], [], rfl, by simp, by simp, by simp⟩
  | cons a t ih =>
    have hnd' := (List.nodup_cons.1 hnd).2
    obtain ⟨A', B', C', ht, hA, hB, hC⟩ := ih h.tail hnd'
      (fun x hx y hy => hinj x (by simp [hx]) y (by simp [hy]))
      (fun x hx y hy => hdown x (by simp [hx]) y (by simp [hy]))
    by_cases hpa : p a
    · match t, ht with
      | [], _ => exact ⟨[], [a], [], rfl, by simp, by simp [hpa], by simp⟩
      | b :: t', ht =>
        by_cases hpb : p b
        · have hA' : A' = [] := by
            cases A' with
            | nil => rfl
            | cons c A'' =>
              exfalso
              simp only [List.cons_append] at ht
              have : b = c := (List.cons.inj ht).1
              exact hA c (by simp) (this ▸ hpb)
          subst hA'
          refine ⟨[], a :: B', C', by simp [ht], by simp, ?_, hC⟩
          intro x hx
          simp only [List.mem_cons] at hx
          rcases hx with rfl | hx
          · exact hpa
          · exact hB x hx
        · have hab : r a < r b := by
            have h1 : ¬ r b < r a := fun hc => hpb (hdown a (by simp) b (by simp) hpa hc)
            have h2 : r a ≠ r b := by
              intro e
              have := hinj a (by simp) b (by simp) e
              subst this
              simp at hnd
            omega
          have hp := LMF.asc r a b t' h hab hnd hinj
          refine ⟨[], [a], b :: t', rfl, by simp, by simp [hpa], ?_⟩
          intro x hx
          simp only [List.mem_cons] at hx
          rcases hx with rfl | hx
          · exact hpb
          · intro hpx
            have hbx : r x < r x ∨ r b < r x := by
              right
              have := (List.pairwise_cons.1 (List.pairwise_cons.1 hp).2).1 x hx
              exact this
            rcases hbx with hbx | hbx
            · omega
            · exact hpb (hdown x (by simp [hx]) b (by simp) hpx hbx)
    · refine ⟨a :: A', B', C', by simp [ht], ?_, hB, hC⟩
      intro x hx
      simp only [List.mem_cons] at hx
      rcases hx with rfl | hx
      · exact hpa
      · exact hA x hx

/-- single-peakedness of one vote on the axis, in the checker's form -/
theorem lmf_contiguous (v axis : List Nat) (hnd : axis.Nodup) (hsub : ∀ a ∈ axis, a ∈ v)
    (h : LMF v.idxOf axis) (k : Nat) :
    contiguous axis (topClasses (restrictOrder axis (weak v)) k) = true := by
  rw [restrictOrder_weak, topClasses_weak, contiguous_iff_seg]
  apply LMF.seg v.idxOf _ axis h hnd
  · intro x hx y _ e
    exact idxOf_inj v x y (hsub x hx) e
  · intro a _ b hb hpa hlt
    exact take_filter_down _ v k a b hpa (hsub b hb) (by simpa using hb) hlt

theorem lmf_spOnSubset (orders : List (List Nat)) (axis : List Nat) (hnd : axis.Nodup)
    (hsub : ∀ v ∈ orders, ∀ a ∈ axis, a ∈ v) (h : ∀ v ∈ orders, LMF v.idxOf axis) :
    spOnSubset (orders.map weak) axis axis = true := by
  unfold spOnSubset spOnAxis isPermOf
  simp only [Bool.and_eq_true, List.all_eq_true, decide_eq_true_eq, beq_iff_eq, List.map_map]
  refine ⟨⟨⟨hnd, trivial⟩, fun a ha => by simpa using ha⟩, ?_⟩
  intro o ho
  rw [List.mem_map] at ho
  obtain ⟨v, hv, rfl⟩ := ho
  intro k _
  exact lmf_contiguous v axis hnd (hsub v hv) (h v hv) k

end PrefVerif.C12DP
