import PrefVerif.Lemmas.C13Path
import PrefVerif.Lemmas.C13Lists
/-!
# C13 helper lemmas — Trick's elimination loop builds a tree the profile is single-peaked on

`Good orders C E`: `E` is a spanning tree of the remaining alternatives `C` on which every prefix of
every voter's order restricted to `C` is connected.  The removals are undone backwards
(`Good.attach`): re-attaching the leaf `a` to `b ∈ B(a)` preserves `Good`.
-/
namespace PrefVerif.C13
open PrefVerif.SPTree

structure Good (orders : List (List Nat)) (C : List Nat) (E : List (Nat × Nat)) : Prop where
  len : E.length + 1 = C.length
  edges : ∀ e ∈ E, e.1 ≠ e.2 ∧ e.1 ∈ C ∧ e.2 ∈ C
  conn : Conn E C
  votes : ∀ o ∈ orders, ∀ k, Conn E ((restrict o C).take k)

/-- the attachment invariant: `b ∈ B(a)` (w.r.t. the remaining set `C`) is another remaining
alternative, and lies in `B(i, a)` of every voter -/
theorem getB_spec {orders : List (List Nat)} {C : List Nat} {a b : Nat}
    (hO : ∀ o ∈ orders, o.Nodup) (hb : b ∈ getB orders C a) :
    b ∈ C ∧ b ≠ a ∧ ∀ o ∈ orders, b ∈ bOfVoter (restrict o C) a := by
  have hall := mem_getB hb
  obtain ⟨o, ho⟩ := List.exists_mem_of_ne_nil _ (getB_ne_nil_orders hb)
  have h1 := mem_bOfVoter (restrict_nodup C (hO o ho)) (hall o ho)
  exact ⟨(mem_restrict.1 h1.1).2, h1.2, hall⟩

/-- two remaining alternatives joined by an edge -/
theorem Good.pair {orders : List (List Nat)} {a b : Nat} (hab : a ≠ b) :
    Good orders [a, b] [(a, b)] := by
  have hadj : Adj [(a, b)] a b := Or.inl (List.mem_singleton.2 rfl)
  refine ⟨rfl, ?_, Conn.of_pair hadj (by simp), ?_⟩
  · intro e he
    rw [List.mem_singleton.1 he]
    exact ⟨hab, by simp, by simp⟩
  · intro o _ k
    apply Conn.of_pair hadj
    intro x hx
    have := (mem_restrict.1 (List.mem_of_mem_take hx)).2
    simpa using this

/-- undoing one removal: re-attach the leaf `a` to `b ∈ B(a)` -/
theorem Good.attach {orders : List (List Nat)} {C : List Nat} {a b : Nat} {E : List (Nat × Nat)}
    (hO : ∀ o ∈ orders, o.Nodup) (hC : C.Nodup) (ha : a ∈ C) (hb : b ∈ getB orders C a)
    (hg : Good orders (C.filter (· != a)) E) : Good orders C ((b, a) :: E) := by
  obtain ⟨hbC, hba, hall⟩ := getB_spec hO hb
  have hlen := length_filter_ne C hC ha
  have hsubC : ∀ x ∈ C.filter (· != a), x ∈ C := fun x hx => (List.mem_filter.1 hx).1
  have hbC' : b ∈ C.filter (· != a) := List.mem_filter.2 ⟨hbC, by simpa using hba⟩
  refine ⟨?_, ?_, ?_, ?_⟩
  · have := hg.len
    simp only [List.length_cons]
    omega
  · intro e he
    rcases List.mem_cons.1 he with rfl | he
    · exact ⟨hba, hbC, ha⟩
    · have := hg.edges e he
      exact ⟨this.1, hsubC _ this.2.1, hsubC _ this.2.2⟩
  · refine Conn.attach_leaf hsubC ?_ ha hbC' hg.conn
    intro x hx
    by_cases hxa : x = a
    · exact Or.inl hxa
    · exact Or.inr (List.mem_filter.2 ⟨hx, by simpa using hxa⟩)
  · intro o ho k
    -- the prefix without `a` is a prefix of the order restricted to the smaller set
    have hold : Conn E (((restrict o C).take k).filter (· != a)) := by
      obtain ⟨j, hj⟩ := take_filter_prefix (· != a) (restrict o C) k
      rw [hj, ← restrict_filter]
      exact hg.votes o ho j
    by_cases haT : a ∈ (restrict o C).take k
    · rcases bOfVoter_take (hall o ho) k haT with hnil | hbT
      · -- the prefix is just `a`
        apply Conn.of_pair (a := a) (b := b) (Or.inr (List.mem_cons_self ..))
        intro x hx
        by_cases hxa : x = a
        · exact Or.inl hxa
        · have : x ∈ ((restrict o C).take k).filter (· != a) :=
            List.mem_filter.2 ⟨hx, by simpa using hxa⟩
          rw [hnil] at this
          cases this
      · refine Conn.attach_leaf (fun x hx => (List.mem_filter.1 hx).1) ?_ haT
          (List.mem_filter.2 ⟨hbT, by simpa using hba⟩) hold
        intro x hx
        by_cases hxa : x = a
        · exact Or.inl hxa
        · exact Or.inr (List.mem_filter.2 ⟨hx, by simpa using hxa⟩)
    · have hself : ((restrict o C).take k).filter (· != a) = (restrict o C).take k :=
        List.filter_eq_self.2 (fun x hx => by
          have : x ≠ a := fun h => haT (h ▸ hx)
          simpa using this)
      rw [hself] at hold
      exact hold.mono_edges (fun e he => List.mem_cons_of_mem _ he)

/-- what one run of a loop guarantees: it appended edges `E` to the tree, and any good tree on the
remaining alternatives `C₁` extends by `E` to a good tree on `C` -/
def Extends (orders : List (List Nat)) (C : List Nat) (tree : List (Nat × Nat))
    (C₁ : List Nat) (tree₁ : List (Nat × Nat)) : Prop :=
  ∃ E, tree₁ = tree ++ E ∧ C₁.Nodup ∧ 2 ≤ C₁.length ∧ C₁.length ≤ C.length ∧
    (∀ x ∈ C₁, x ∈ C) ∧ ∀ E', Good orders C₁ E' → Good orders C (E ++ E')

theorem Extends.refl {orders : List (List Nat)} {C : List Nat} (tree : List (Nat × Nat))
    (hC : C.Nodup) (h2 : 2 ≤ C.length) : Extends orders C tree C tree :=
  ⟨[], by simp, hC, h2, Nat.le_refl _, fun _ h => h, fun _ h => h⟩

theorem Extends.trans {orders : List (List Nat)} {C C₁ C₂ : List Nat}
    {tree tree₁ tree₂ : List (Nat × Nat)} (h1 : Extends orders C tree C₁ tree₁)
    (h2 : Extends orders C₁ tree₁ C₂ tree₂) : Extends orders C tree C₂ tree₂ := by
  obtain ⟨E1, rfl, _, _, hl1, hs1, hg1⟩ := h1
  obtain ⟨E2, rfl, hnd, h22, hl2, hs2, hg2⟩ := h2
  refine ⟨E1 ++ E2, by simp, hnd, h22, by omega, fun x hx => hs1 x (hs2 x hx), ?_⟩
  intro E' hE'
  rw [List.append_assoc]
  exact hg1 _ (hg2 _ hE')

/-- the `for a in L_set` loop -/
theorem forLoop_spec {orders : List (List Nat)} (hO : ∀ o ∈ orders, o.Nodup) :
    ∀ (ls C : List Nat) (tree : List (Nat × Nat)) (C₁ : List Nat) (tree₁ : List (Nat × Nat)),
    C.Nodup → ls.Nodup → (∀ x ∈ ls, x ∈ C) → 2 ≤ C.length →
    forLoop orders ls C tree = some (C₁, tree₁) →
    Extends orders C tree C₁ tree₁ ∧ (ls ≠ [] → 3 ≤ C.length → C₁.length < C.length) := by
  intro ls
  induction ls with
  | nil =>
    intro C tree C₁ tree₁ hC _ _ h2 h
    simp only [forLoop, Option.some.injEq, Prod.mk.injEq] at h
    obtain ⟨rfl, rfl⟩ := h
    exact ⟨Extends.refl tree hC h2, fun h => absurd rfl h⟩
  | cons a ls ih =>
    intro C tree C₁ tree₁ hC hls hsub h2 h
    rw [forLoop] at h
    split at h
    · next hlt =>
      simp only [Option.some.injEq, Prod.mk.injEq] at h
      obtain ⟨rfl, rfl⟩ := h
      exact ⟨Extends.refl tree hC h2, fun _ h3 => by omega⟩
    · next hge =>
      split at h
      · cases h
      · next b bs hB =>
        have haC : a ∈ C := hsub a (List.mem_cons_self ..)
        have ⟨hals, hls'⟩ := List.nodup_cons.1 hls
        have hlen := length_filter_ne C hC haC
        have hb : b ∈ getB orders C a := by rw [hB]; exact List.mem_cons_self ..
        have hrec := ih (C.filter (· != a)) (tree ++ [(b, a)]) C₁ tree₁
          (hC.sublist List.filter_sublist) hls'
          (fun x hx => List.mem_filter.2 ⟨hsub x (List.mem_cons_of_mem _ hx), by
            have : x ≠ a := fun hxa => hals (hxa ▸ hx)
            simpa using this⟩)
          (by omega) h
        obtain ⟨⟨E, rfl, hnd, h22, hl, hs, hg⟩, _⟩ := hrec
        refine ⟨⟨(b, a) :: E, by simp, hnd, h22, by omega,
          fun x hx => (List.mem_filter.1 (hs x hx)).1, ?_⟩, fun _ _ => by omega⟩
        intro E' hE'
        exact Good.attach hO hC haC hb (hg E' hE')

/-- the `while len(C_set) >= 3` loop: the fuel `|C| - 2` suffices -/
theorem whileLoop_spec {orders : List (List Nat)} (hO : ∀ o ∈ orders, o.Nodup)
    (hne : orders ≠ []) (alts : List Nat) (hA : ∀ o ∈ orders, ∀ x ∈ alts, x ∈ o) :
    ∀ (fuel : Nat) (C : List Nat) (tree : List (Nat × Nat)) (C₁ : List Nat)
      (tree₁ : List (Nat × Nat)),
    C.Nodup → (∀ x ∈ C, x ∈ alts) → 2 ≤ C.length → C.length ≤ fuel + 2 →
    whileLoop orders fuel C tree = some (C₁, tree₁) →
    Extends orders C tree C₁ tree₁ ∧ C₁.length = 2 := by
  intro fuel
  induction fuel with
  | zero =>
    intro C tree C₁ tree₁ hC _ h2 hf h
    simp only [whileLoop, Option.some.injEq, Prod.mk.injEq] at h
    obtain ⟨rfl, rfl⟩ := h
    exact ⟨Extends.refl tree hC h2, by omega⟩
  | succ fuel ih =>
    intro C tree C₁ tree₁ hC hCA h2 hf h
    rw [whileLoop] at h
    split at h
    · next hlt =>
      simp only [Option.some.injEq, Prod.mk.injEq] at h
      obtain ⟨rfl, rfl⟩ := h
      exact ⟨Extends.refl tree hC h2, by omega⟩
    · next hge =>
      split at h
      · cases h
      · next C' tree' hfor =>
        obtain ⟨o, ho⟩ := List.exists_mem_of_ne_nil _ hne
        obtain ⟨c, hc⟩ := List.exists_mem_of_ne_nil C (by
          intro h0; rw [h0] at h2; simp at h2)
        have hbne : bottoms orders C ≠ [] := bottoms_ne_nil ho hc (hA o ho c (hCA c hc))
        obtain ⟨hext, hprog⟩ := forLoop_spec hO (bottoms orders C) C tree C' tree' hC
          (bottoms_nodup orders C) (fun x hx => mem_bottoms hx) h2 hfor
        have hlt := hprog hbne (by omega)
        obtain ⟨E, hE, hnd, h22, hl, hs, hg⟩ := hext
        have hrec := ih C' tree' C₁ tree₁ hnd (fun x hx => hCA x (hs x hx)) h22 (by omega) h
        exact ⟨Extends.trans ⟨E, hE, hnd, h22, hl, hs, hg⟩ hrec.1, hrec.2⟩

/-- the answer of the model is a good tree on all alternatives -/
theorem isSPOnTree_good {alts : List Nat} {orders : List (List Nat)} (hA : alts.Nodup)
    (hO : ∀ o ∈ orders, o.Nodup) (hmem : ∀ o ∈ orders, ∀ x ∈ alts, x ∈ o) (hne : orders ≠ [])
    (h2 : 2 ≤ alts.length) {t : List (Nat × Nat)} (hr : isSPOnTree alts orders = some t) :
    Good orders alts t := by
  unfold isSPOnTree at hr
  split at hr
  · cases hr
  · next C tree hw =>
    obtain ⟨⟨E, hE, hnd, _, _, _, hg⟩, hlen⟩ := whileLoop_spec hO hne alts hmem alts.length alts []
      C tree hA (fun _ h => h) h2 (by omega) hw
    match C, hlen, hnd, hg, hr with
    | [a, b], _, hnd, hg, hr =>
      simp only [Option.some.injEq] at hr
      subst hr
      have hab : a ≠ b := by
        intro h
        have := (List.nodup_cons.1 hnd).1
        exact this (h ▸ List.mem_singleton.2 rfl)
      rw [hE, List.nil_append]
      exact hg _ (Good.pair hab)

end PrefVerif.C13
