import PrefVerif.Lemmas.C03Rank
import PrefVerif.Lemmas.C03Total
/-!
# C03 completeness, part 1: single-peakedness of one voter on an axis as the absence of a valley

`NoValley o axis`: no alternative of the axis is ranked by `o` below both an alternative to its left
and an alternative to its right.  For a ranking `o` of the alternatives of the axis this is the same
as "every set of `n` best alternatives is contiguous on the axis".
-/
namespace PrefVerif.C03c
open PrefVerif PrefVerif.ELO PrefVerif.Spec PrefVerif.C03

/-- no alternative is ranked below both an earlier and a later alternative of the axis -/
def NoValley (o axis : List Nat) : Prop :=
  ∀ P b S a c, axis = P ++ b :: S → a ∈ P → c ∈ S → ¬ (lt o a b ∧ lt o c b)

theorem lt_trans {o : List Nat} {a b c : Nat} (h1 : lt o a b) (h2 : lt o b c) : lt o a c := by
  unfold lt at *; omega

theorem lt_asymm {o : List Nat} {a b : Nat} (h1 : lt o a b) (h2 : lt o b a) : False := by
  unfold lt at *; omega

theorem lt_total {o : List Nat} {a b : Nat} (ha : a ∈ o) (hb : b ∈ o) (hab : a ≠ b) :
    lt o a b ∨ lt o b a := by
  have := idxOf_ne ha hb hab
  unfold lt; omega

theorem lt_of_not_lt {o : List Nat} {a b : Nat} (ha : a ∈ o) (hb : b ∈ o) (hab : a ≠ b)
    (h : ¬ lt o a b) : lt o b a := by
  rcases lt_total ha hb hab with h' | h'
  · exact absurd h' h
  · exact h'

/-! ### equivalence with contiguity of the sets of best alternatives -/

theorem noValley_of_contig {o axis : List Nat} (hsub : ∀ a ∈ axis, a ∈ o)
    (h : ∀ n, Contiguous axis (o.take n)) : NoValley o axis := by
  rintro P b S a c rfl ha hc ⟨hab, hcb⟩
  obtain ⟨i, hi, rfl⟩ := List.getElem_of_mem ha
  obtain ⟨k, hk, rfl⟩ := List.getElem_of_mem hc
  have hlen : (P ++ b :: S).length = P.length + (S.length + 1) := by simp
  have hK : P.length + 1 + k < (P ++ b :: S).length := by omega
  have e1 : (P ++ b :: S)[i]! = P[i] := by
    rw [getElem!_pos (P ++ b :: S) i (by omega), List.getElem_append_left hi]
  have e2 : (P ++ b :: S)[P.length]! = b := by
    rw [getElem!_pos (P ++ b :: S) P.length (by omega), List.getElem_append_right (by omega)]; simp
  have e3 : (P ++ b :: S)[P.length + 1 + k]! = S[k] := by
    rw [getElem!_pos (P ++ b :: S) (P.length + 1 + k) hK, List.getElem_append_right (by omega)]
    have : P.length + 1 + k - P.length = k + 1 := by omega
    simp [this]
  have hbo : b ∈ o := hsub b (by simp)
  have hao : P[i] ∈ o := hsub P[i] (by simp)
  have hco : S[k] ∈ o := hsub S[k] (by simp)
  have := h (o.idxOf b) i P.length (P.length + 1 + k) (by omega) (by omega) hK
    (by rw [e1, mem_take_iff_idxOf o _ _ hao]; exact hab)
    (by rw [e3, mem_take_iff_idxOf o _ _ hco]; exact hcb)
  rw [e2, mem_take_iff_idxOf o _ _ hbo] at this
  omega

theorem contig_of_noValley {o axis : List Nat} (hsub : ∀ a ∈ axis, a ∈ o) (h : NoValley o axis)
    (n : Nat) : Contiguous axis (o.take n) := by
  intro i j k hij hjk hk hi hkk
  have hj : j < axis.length := by omega
  have hi' : i < axis.length := by omega
  rw [getElem!_pos axis i hi'] at hi
  rw [getElem!_pos axis k hk] at hkk
  rw [getElem!_pos axis j hj]
  rw [mem_take_iff_idxOf o _ n (hsub _ (List.getElem_mem _))] at hi hkk ⊢
  apply Classical.byContradiction
  intro hnot
  have hsplit : axis = axis.take j ++ axis[j] :: axis.drop (j + 1) := by
    rw [← List.drop_eq_getElem_cons hj, List.take_append_drop]
  have ha : axis[i] ∈ axis.take j := by
    have : i < (axis.take j).length := by simp; omega
    have e : (axis.take j)[i] = axis[i] := by simp
    rw [← e]; exact List.getElem_mem _
  have hc : axis[k] ∈ axis.drop (j + 1) := by
    have : k - (j + 1) < (axis.drop (j + 1)).length := by simp; omega
    have e : (axis.drop (j + 1))[k - (j + 1)] = axis[k] := by
      simp only [List.getElem_drop]
      congr 1; omega
    rw [← e]; exact List.getElem_mem _
  exact h _ _ _ _ _ hsplit ha hc ⟨by unfold lt; omega, by unfold lt; omega⟩

/-! ### blocks -/

theorem NoValley.mid {o A M B : List Nat} (h : NoValley o (A ++ M ++ B)) : NoValley o M := by
  rintro P b S a c rfl ha hc hv
  exact h (A ++ P) b (S ++ B) a c (by simp) (by simp [ha]) (by simp [hc]) hv

theorem NoValley.reverse {o M : List Nat} (h : NoValley o M) : NoValley o M.reverse := by
  intro P b S a c hM ha hc hv
  have : M = S.reverse ++ b :: P.reverse := by
    have := congrArg List.reverse hM
    simpa using this
  exact h _ _ _ c a this (by simpa using hc) (by simpa using ha) ⟨hv.2, hv.1⟩

/-- a block ranked above everything around it, between an improving and a worsening part -/
theorem noValley_block {o A M B : List Nat} (hA : Desc o A) (hB : Asc o B)
    (hAM : ∀ m ∈ M, ∀ z ∈ A, lt o m z) (hBM : ∀ m ∈ M, ∀ z ∈ B, lt o m z) (hM : NoValley o M) :
    NoValley o (A ++ M ++ B) := by
  intro P b S a c hsplit ha hc hv
  rw [List.append_assoc, List.append_eq_append_iff] at hsplit
  rcases hsplit with ⟨A', hP, hMB⟩ | ⟨C', hAeq, hbS⟩
  · -- `b` is not in `A`
    rw [List.append_eq_append_iff] at hMB
    rcases hMB with ⟨A'', hA', hBeq⟩ | ⟨C'', hMeq, hbS⟩
    · -- `b` in `B`
      subst hBeq
      have := (List.pairwise_append.1 hB).2.1
      rw [List.pairwise_cons] at this
      exact lt_asymm hv.2 (this.1 c hc)
    · cases C'' with
      | nil =>
        simp only [List.nil_append] at hbS
        subst hbS
        exact lt_asymm hv.2 ((List.pairwise_cons.1 hB).1 c hc)
      | cons b' C'' =>
        simp only [List.cons_append, List.cons.injEq] at hbS
        obtain ⟨rfl, rfl⟩ := hbS
        subst hMeq hP
        have hbM : b ∈ A' ++ b :: C'' := by simp
        rcases List.mem_append.1 ha with ha | ha
        · exact lt_asymm hv.1 (hAM b hbM a ha)
        · rcases List.mem_append.1 hc with hc | hc
          · exact hM A' b C'' a c rfl ha hc hv
          · exact lt_asymm hv.2 (hBM b hbM c hc)
  · cases C' with
    | nil =>
      simp only [List.nil_append, List.append_nil] at hbS hAeq
      subst hAeq
      -- `b :: S = M ++ B`
      cases M with
      | nil =>
        simp only [List.nil_append] at hbS
        subst hbS
        exact lt_asymm hv.2 ((List.pairwise_cons.1 hB).1 c hc)
      | cons b' M' =>
        simp only [List.cons_append, List.cons.injEq] at hbS
        obtain ⟨rfl, rfl⟩ := hbS
        exact lt_asymm hv.1 (hAM b (by simp) a ha)
    | cons b' C' =>
      simp only [List.cons_append, List.cons.injEq] at hbS
      obtain ⟨rfl, rfl⟩ := hbS
      subst hAeq
      have := (List.pairwise_append.1 hA).2.2 a ha b (by simp)
      exact lt_asymm hv.1 this

/-- reflection of a block ranked above everything around it -/
theorem reflect_block {o A M B : List Nat} (hA : Desc o A) (hB : Asc o B)
    (hAM : ∀ m ∈ M, ∀ z ∈ A, lt o m z) (hBM : ∀ m ∈ M, ∀ z ∈ B, lt o m z)
    (h : NoValley o (A ++ M ++ B)) : NoValley o (A ++ M.reverse ++ B) :=
  noValley_block hA hB (fun m hm => hAM m (by simpa using hm)) (fun m hm => hBM m (by simpa using hm))
    h.mid.reverse

/-! ### the worst alternative of a block sits at one of its ends -/

theorem worst_at_end {o A M B : List Nat} {x : Nat} (h : NoValley o (A ++ M ++ B)) (hn : M.Nodup)
    (hx : x ∈ M) (hw : ∀ m ∈ M, m ≠ x → lt o m x) :
    (∃ M', M = x :: M') ∨ (∃ M', M = M' ++ [x]) := by
  obtain ⟨M1, M2, rfl⟩ := List.append_of_mem hx
  cases M1 with
  | nil => exact Or.inl ⟨M2, rfl⟩
  | cons m1 M1 =>
    cases M2 with
    | nil => exact Or.inr ⟨m1 :: M1, rfl⟩
    | cons m2 M2 =>
      exfalso
      have hd := List.nodup_append.1 hn
      have h1 : m1 ≠ x := hd.2.2 m1 (by simp) x (by simp)
      have h2 : m2 ≠ x := by
        have := (List.nodup_cons.1 hd.2.1).1
        intro e; apply this; simp [e]
      exact h (A ++ m1 :: M1) x (m2 :: M2 ++ B) m1 m2 (by simp) (by simp) (by simp)
        ⟨hw m1 (by simp) h1, hw m2 (by simp) h2⟩

/-- … at the left end when something to the right of the block is ranked above it -/
theorem worst_at_head {o A M B : List Nat} {x z : Nat} (h : NoValley o (A ++ M ++ B)) (hn : M.Nodup)
    (hx : x ∈ M) (hw : ∀ m ∈ M, m ≠ x → lt o m x) (hz : z ∈ B) (hzx : lt o z x) :
    ∃ M', M = x :: M' := by
  obtain ⟨M1, M2, rfl⟩ := List.append_of_mem hx
  cases M1 with
  | nil => exact ⟨M2, rfl⟩
  | cons m1 M1 =>
    exfalso
    have hd := List.nodup_append.1 hn
    have h1 : m1 ≠ x := hd.2.2 m1 (by simp) x (by simp)
    exact h (A ++ m1 :: M1) x (M2 ++ B) m1 z (by simp) (by simp) (by simp [hz])
      ⟨hw m1 (by simp) h1, hzx⟩

/-- … at the right end when something to the left of the block is ranked above it -/
theorem worst_at_last {o A M B : List Nat} {x z : Nat} (h : NoValley o (A ++ M ++ B)) (hn : M.Nodup)
    (hx : x ∈ M) (hw : ∀ m ∈ M, m ≠ x → lt o m x) (hz : z ∈ A) (hzx : lt o z x) :
    ∃ M', M = M' ++ [x] := by
  obtain ⟨M1, M2, rfl⟩ := List.append_of_mem hx
  cases M2 with
  | nil => exact ⟨M1, rfl⟩
  | cons m2 M2 =>
    exfalso
    have hd := List.nodup_append.1 hn
    have h2 : m2 ≠ x := by
      have := (List.nodup_cons.1 hd.2.1).1
      intro e; apply this; simp [e]
    exact h (A ++ M1) x (m2 :: M2 ++ B) z m2 (by simp) (by simp [hz]) (by simp)
      ⟨hzx, hw m2 (by simp) h2⟩

/-! ### a block below something on its left is ranked in worsening order -/

theorem pairwise_of_split {R : Nat → Nat → Prop} :
    ∀ (l : List Nat), (∀ P b S c, l = P ++ b :: S → c ∈ S → R b c) → l.Pairwise R := by
  intro l
  induction l with
  | nil => intro _; exact List.Pairwise.nil
  | cons b l ih =>
    intro h
    rw [List.pairwise_cons]
    refine ⟨fun c hc => h [] b l c rfl hc, ih ?_⟩
    intro P b' S c hl hc
    exact h (b :: P) b' S c (by rw [hl]; rfl) hc

theorem asc_of_left_above {o A M B : List Nat} {z : Nat} (h : NoValley o (A ++ M ++ B))
    (hn : M.Nodup) (hMo : ∀ m ∈ M, m ∈ o) (hz : z ∈ A) (hzM : ∀ m ∈ M, lt o z m) : Asc o M := by
  apply pairwise_of_split
  rintro P b S c rfl hc
  have hd := List.nodup_append.1 hn
  have hbc : b ≠ c := by
    have := (List.nodup_cons.1 hd.2.1).1
    intro e; apply this; rw [e]; exact hc
  apply lt_of_not_lt (hMo c (by simp [hc])) (hMo b (by simp)) (fun e => hbc e.symm)
  intro hcb
  exact h (A ++ P) b (S ++ B) z c (by simp) (by simp [hz]) (by simp [hc]) ⟨hzM b (by simp), hcb⟩

theorem desc_of_right_above {o A M B : List Nat} {z : Nat} (h : NoValley o (A ++ M ++ B))
    (hn : M.Nodup) (hMo : ∀ m ∈ M, m ∈ o) (hz : z ∈ B) (hzM : ∀ m ∈ M, lt o z m) : Desc o M := by
  apply pairwise_of_split
  rintro P b S c rfl hc
  have hd := List.nodup_append.1 hn
  have hbc : b ≠ c := by
    have := (List.nodup_cons.1 hd.2.1).1
    intro e; apply this; rw [e]; exact hc
  -- `c` is better than `b`
  apply lt_of_not_lt (hMo b (by simp)) (hMo c (by simp [hc])) hbc
  intro hbc'
  -- valley at `c`: `b` before, `z` after
  obtain ⟨S1, S2, rfl⟩ := List.append_of_mem hc
  exact h (A ++ P ++ b :: S1) c (S2 ++ B) b z (by simp) (by simp) (by simp [hz])
    ⟨hbc', hzM c (by simp)⟩

/-- when the head `y` of a block is below something on the left, the whole block is below `y` … -/
theorem head_best {o A M' B : List Nat} {y z : Nat} (h : NoValley o (A ++ (y :: M') ++ B))
    (hn : (y :: M').Nodup) (hMo : ∀ m ∈ y :: M', m ∈ o) (hz : z ∈ A) (hzy : lt o z y) :
    ∀ m ∈ y :: M', lt o z m := by
  intro m hm
  rcases List.mem_cons.1 hm with rfl | hm'
  · exact hzy
  · have hne : y ≠ m := by
      have := (List.nodup_cons.1 hn).1
      intro e; apply this; rw [e]; exact hm'
    have : lt o y m := by
      apply lt_of_not_lt (hMo m hm) (hMo y (by simp)) (fun e => hne e.symm)
      intro hmy
      exact h A y (M' ++ B) z m (by simp) hz (by simp [hm']) ⟨hzy, hmy⟩
    exact lt_trans hzy this

theorem last_best {o A M' B : List Nat} {y z : Nat} (h : NoValley o (A ++ (M' ++ [y]) ++ B))
    (hn : (M' ++ [y]).Nodup) (hMo : ∀ m ∈ M' ++ [y], m ∈ o) (hz : z ∈ B) (hzy : lt o z y) :
    ∀ m ∈ M' ++ [y], lt o z m := by
  intro m hm
  rcases List.mem_append.1 hm with hm' | hm'
  · have hne : y ≠ m := by
      have := (List.nodup_append.1 hn).2.2 m hm' y (by simp)
      exact fun e => this e.symm
    have : lt o y m := by
      apply lt_of_not_lt (hMo m hm) (hMo y (by simp)) (fun e => hne e.symm)
      intro hmy
      exact h (A ++ M') y B m z (by simp) (by simp [hm']) hz ⟨hmy, hzy⟩
    exact lt_trans hzy this
  · simp only [List.mem_singleton] at hm'; subst hm'; exact hzy

end PrefVerif.C03c
