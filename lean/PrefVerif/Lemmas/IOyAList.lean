import PrefVerif.Lemmas.IOAList
/-!
# More facts about the insertion-ordered dict model (`AList`): lookups after `set`, membership

(complements `IOAList.lean`; used by the matching-file development C09)
-/
namespace PrefVerif.IOL
open PrefVerif.Py

variable {κ ν : Type} [BEq κ] [LawfulBEq κ]

omit [BEq κ] [LawfulBEq κ] in
theorem keys_cons (p : κ × ν) (d : AList κ ν) : AList.keys (p :: d) = p.1 :: AList.keys d := rfl

omit [BEq κ] [LawfulBEq κ] in
theorem mem_keys_of_mem {d : AList κ ν} {p : κ × ν} (h : p ∈ d) : p.1 ∈ AList.keys d :=
  List.mem_map.2 ⟨p, h, rfl⟩

omit [BEq κ] [LawfulBEq κ] in
theorem exists_mem_of_mem_keys {d : AList κ ν} {k : κ} (h : k ∈ AList.keys d) : ∃ v, (k, v) ∈ d := by
  obtain ⟨p, hp, rfl⟩ := List.mem_map.1 h
  exact ⟨p.2, hp⟩

omit [LawfulBEq κ] in
theorem get?_nil (k : κ) : AList.get? ([] : AList κ ν) k = none := rfl

omit [LawfulBEq κ] in
theorem get?_cons (k' : κ) (v' : ν) (d : AList κ ν) (k : κ) :
    AList.get? ((k', v') :: d) k = if k' == k then some v' else AList.get? d k := by
  simp only [AList.get?, List.find?_cons]
  cases k' == k <;> simp

theorem contains_iff_mem_keys (d : AList κ ν) (k : κ) : AList.contains d k = true ↔ k ∈ AList.keys d := by
  simp only [AList.contains, AList.keys, List.any_eq_true, List.mem_map, beq_iff_eq]

omit [LawfulBEq κ] in
theorem set_cons (k' : κ) (v' : ν) (d : AList κ ν) (k : κ) (v : ν) :
    AList.set ((k', v') :: d) k v = if k' == k then (k', v) :: d else (k', v') :: AList.set d k v := rfl

/-- lookup after `d[k] = v` -/
theorem get?_set (d : AList κ ν) (k x : κ) (v : ν) :
    AList.get? (AList.set d k v) x = if k == x then some v else AList.get? d x := by
  induction d with
  | nil => simp only [AList.set, get?_cons, get?_nil]
  | cons p d ih =>
    obtain ⟨k', v'⟩ := p
    rw [set_cons]
    cases hk : k' == k with
    | true =>
      have := eq_of_beq hk; subst this
      simp only [if_true, get?_cons]
      cases k' == x <;> simp
    | false =>
      simp only [Bool.false_eq_true, if_false, get?_cons, ih]
      cases hx : k' == x with
      | true =>
        have := eq_of_beq hx; subst this
        have : (k == k') = false := by
          cases h : k == k' with
          | false => rfl
          | true => have := eq_of_beq h; subst this; simp at hk
        simp [this]
      | false => simp

theorem get?_set_same (d : AList κ ν) (k : κ) (v : ν) : AList.get? (AList.set d k v) k = some v := by
  simp [get?_set]

theorem get?_set_other (d : AList κ ν) (k x : κ) (v : ν) (h : x ≠ k) :
    AList.get? (AList.set d k v) x = AList.get? d x := by
  have : (k == x) = false := by
    cases e : k == x with
    | false => rfl
    | true => exact absurd (eq_of_beq e).symm h
  simp [get?_set, this]

/-- membership of keys after `d[k] = v` -/
theorem mem_keys_set (d : AList κ ν) (k x : κ) (v : ν) :
    x ∈ AList.keys (AList.set d k v) ↔ x = k ∨ x ∈ AList.keys d := by
  induction d with
  | nil => simp [AList.set, AList.keys]
  | cons p d ih =>
    obtain ⟨k', v'⟩ := p
    rw [set_cons]
    cases hk : k' == k with
    | true =>
      have := eq_of_beq hk; subst this
      simp only [if_true, keys_cons, List.mem_cons]
      constructor
      · intro h; exact Or.inr h
      · rintro (h | h)
        · exact Or.inl h
        · exact h
    | false =>
      simp only [Bool.false_eq_true, if_false, keys_cons, List.mem_cons, ih]
      constructor
      · rintro (h | h | h)
        · exact Or.inr (Or.inl h)
        · exact Or.inl h
        · exact Or.inr (Or.inr h)
      · rintro (h | h | h)
        · exact Or.inr (Or.inl h)
        · exact Or.inl h
        · exact Or.inr (Or.inr h)

theorem nodup_keys_set (d : AList κ ν) (k : κ) (v : ν) (h : (AList.keys d).Nodup) :
    (AList.keys (AList.set d k v)).Nodup := by
  induction d with
  | nil => simp [AList.set, AList.keys]
  | cons p d ih =>
    obtain ⟨k', v'⟩ := p
    rw [set_cons]
    rw [keys_cons, List.nodup_cons] at h
    cases hk : k' == k with
    | true =>
      simp only [if_true, keys_cons, List.nodup_cons]
      exact h
    | false =>
      simp only [Bool.false_eq_true, if_false, keys_cons, List.nodup_cons]
      refine ⟨?_, ih h.2⟩
      intro hm
      rcases (mem_keys_set d k k' v).1 hm with e | e
      · subst e; simp at hk
      · exact h.1 e

/-- with distinct keys, an entry is in the dict exactly when the lookup returns it -/
theorem mem_iff_get? (d : AList κ ν) (h : (AList.keys d).Nodup) (k : κ) (v : ν) :
    (k, v) ∈ d ↔ AList.get? d k = some v := by
  induction d with
  | nil => simp [get?_nil]
  | cons p d ih =>
    obtain ⟨k', v'⟩ := p
    rw [keys_cons, List.nodup_cons] at h
    rw [get?_cons, List.mem_cons]
    cases hk : k' == k with
    | true =>
      have := eq_of_beq hk; subst this
      simp only [if_true, Option.some.injEq]
      constructor
      · rintro (e | e)
        · cases e; rfl
        · exact absurd (mem_keys_of_mem e) h.1
      · intro e; subst e; exact Or.inl rfl
    | false =>
      simp only [Bool.false_eq_true, if_false, ← ih h.2]
      constructor
      · rintro (e | e)
        · cases e; simp at hk
        · exact e
      · intro e; exact Or.inr e

theorem get?_eq_none_iff (d : AList κ ν) (k : κ) : AList.get? d k = none ↔ k ∉ AList.keys d := by
  constructor
  · intro h hm
    obtain ⟨v, hv⟩ := get?_isSome_of_mem d k hm
    rw [h] at hv; cases hv
  · exact get?_eq_none_of_not_mem d k

theorem mem_keys_of_get? {d : AList κ ν} {k : κ} {v : ν} (h : AList.get? d k = some v) :
    k ∈ AList.keys d := by
  apply Classical.byContradiction
  intro hn
  rw [get?_eq_none_of_not_mem d k hn] at h; cases h

/-- entries after `d[k] = v` (distinct keys) -/
theorem mem_set_iff (d : AList κ ν) (h : (AList.keys d).Nodup) (k x : κ) (v y : ν) :
    (x, y) ∈ AList.set d k v ↔ (x = k ∧ y = v) ∨ (x ≠ k ∧ (x, y) ∈ d) := by
  rw [mem_iff_get? _ (nodup_keys_set d k v h), mem_iff_get? d h]
  by_cases hx : x = k
  · subst hx
    rw [get?_set_same]
    simp only [Option.some.injEq, true_and, ne_eq, not_true_eq_false, false_and, or_false]
    exact ⟨fun e => e.symm, fun e => e.symm⟩
  · rw [get?_set_other d k x v hx]
    simp [hx]

end PrefVerif.IOL
