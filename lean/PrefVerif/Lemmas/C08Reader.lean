import PrefVerif.Lemmas.C08Header
import PrefVerif.Lemmas.C01Reader
import PrefVerif.Lemmas.IOxReaderHdr
/-!
# C08 — the independent reader on a written categorical file
-/
namespace PrefVerif.C08
open PrefVerif PrefVerif.Py PrefVerif.InstanceIO PrefVerif.CategoricalIO PrefVerif.Spec.IO PrefVerif.IOL
open PrefVerif.Spec.Format (itemsGo items keyValue numberedKey digitsToNat?)

/-! ## ballots -/

/-- the reader's view of a written ballot line (`{}` is an empty group) -/
theorem reader_ballotText (m : Nat) (b : Ballot) :
    Spec.Format.ballotLine (ballotText m b) = some (m, b) := by
  rw [ballotText_eq]; exact C01.reader_ballotText m b

theorem reader_ballotLines (i : CatInst) :
    (ballotLines i).mapM Spec.Format.ballotLine
      = some ((sorted i).map (fun b => ((i.multiplicity.get? b).getD 0, b))) :=
  mapM_map_some _ _ _ _ (fun b _ => reader_ballotText _ b)

theorem ballotText_not_hash' (m : Nat) (b : Ballot) : ['#'].isPrefixOf (ballotText m b) = false := by
  rw [ballotText_eq]; exact C01.ballotText_not_hash' m b

theorem ballotText_ne_nil (m : Nat) (b : Ballot) : ballotText m b ≠ [] := by
  simp [ballotText, natToStr_ne_nil]

/-- multiplicities of the written ballots never increase -/
theorem nonIncreasing_sorted (i : CatInst) :
    Spec.Format.nonIncreasing ((sorted i).map (fun b => (i.multiplicity.get? b).getD 0)) = true := by
  apply nonIncreasing_of_pairwise
  rw [List.pairwise_map]
  exact (sorted_sortedBy i).imp (fun h => keyLe_mult h)

/-! ## the header, and the whole file -/

def kvNum (i : CatInst) : List (Str × Str) :=
  [(s "NUMBER ALTERNATIVES", natToStr i.header.numAlternatives),
   (s "NUMBER VOTERS", natToStr i.header.numVoters),
   (s "NUMBER UNIQUE PREFERENCES", natToStr i.numUniquePreferences),
   (s "NUMBER CATEGORIES", natToStr i.numCategories)]

theorem map_keyValue_numLines (i : CatInst) : (numLines i).map keyValue = kvNum i := by
  have h1 := keyValue_numLine (s "NUMBER ALTERNATIVES") (by decide) i.header.numAlternatives
  have h2 := keyValue_numLine (s "NUMBER VOTERS") (by decide) i.header.numVoters
  have h3 := keyValue_numLine (s "NUMBER UNIQUE PREFERENCES") (by decide) i.numUniquePreferences
  have h4 := keyValue_numLine (s "NUMBER CATEGORIES") (by decide) i.numCategories
  simp only [numLines, kvNum, List.map_cons, List.map_nil]
  rw [show numAltKey = '#' :: ' ' :: s "NUMBER ALTERNATIVES" ++ [':'] by decide,
      show numVotersKey = '#' :: ' ' :: s "NUMBER VOTERS" ++ [':'] by decide,
      show numUniqueKey = '#' :: ' ' :: s "NUMBER UNIQUE PREFERENCES" ++ [':'] by decide,
      show numCatKey = '#' :: ' ' :: s "NUMBER CATEGORIES" ++ [':'] by decide, h1, h2, h3, h4]

theorem map_keyValue_catLines (i : CatInst) :
    (catLines i).map keyValue = kvNumbered "CATEGORY NAME " i.categoriesName :=
  map_keyValue_numberedLines "CATEGORY NAME " (by decide) i.categoriesName

theorem map_keyValue_hdrLines (i : CatInst) :
    (hdrLines i).map keyValue
      = kvMeta i.header ++ kvNum i ++ kvNumbered "CATEGORY NAME " i.categoriesName
          ++ kvNumbered "ALTERNATIVE NAME " i.header.altNames := by
  simp only [hdrLines, List.map_append, map_keyValue_metaLines, map_keyValue_numLines,
    map_keyValue_catLines, map_keyValue_altLines]

theorem hdrLines_hash (i : CatInst) : ∀ l ∈ hdrLines i, ['#'].isPrefixOf l = true := by
  intro l hl
  simp only [hdrLines, metaLines, numLines, catLines, List.mem_append, List.mem_map, List.mem_cons,
    List.not_mem_nil, or_false] at hl
  rcases hl with ((⟨f, _, rfl⟩ | rfl | rfl | rfl | rfl) | ⟨kv, _, rfl⟩) | ⟨kv, _, rfl⟩
  · simp [fieldLine, Field.key, List.isPrefixOf]
  · simp [numLine, numAltKey, s, List.isPrefixOf]
  · simp [numLine, numVotersKey, s, List.isPrefixOf]
  · simp [numLine, numUniqueKey, s, List.isPrefixOf]
  · simp [numLine, numCatKey, s, List.isPrefixOf]
  · simp [numberedLine, catPfx, s, List.isPrefixOf]
  · simp [numberedLine, altPfx, s, List.isPrefixOf]

theorem kvNum_filters (i : CatInst) :
    (kvNum i).filter (fun kv => (numberedKey "ALTERNATIVE NAME " kv.1).isNone
      && (numberedKey "CATEGORY NAME " kv.1).isNone) = kvNum i ∧
    (kvNum i).filterMap (fun kv => (numberedKey "ALTERNATIVE NAME " kv.1).map (fun n => (n, kv.2))) = [] ∧
    (kvNum i).filterMap (fun kv => (numberedKey "CATEGORY NAME " kv.1).map (fun n => (n, kv.2))) = [] := by
  have a1 : numberedKey "ALTERNATIVE NAME " (s "NUMBER ALTERNATIVES") = none := by decide
  have a2 : numberedKey "ALTERNATIVE NAME " (s "NUMBER VOTERS") = none := by decide
  have a3 : numberedKey "ALTERNATIVE NAME " (s "NUMBER UNIQUE PREFERENCES") = none := by decide
  have a4 : numberedKey "ALTERNATIVE NAME " (s "NUMBER CATEGORIES") = none := by decide
  have c1 : numberedKey "CATEGORY NAME " (s "NUMBER ALTERNATIVES") = none := by decide
  have c2 : numberedKey "CATEGORY NAME " (s "NUMBER VOTERS") = none := by decide
  have c3 : numberedKey "CATEGORY NAME " (s "NUMBER UNIQUE PREFERENCES") = none := by decide
  have c4 : numberedKey "CATEGORY NAME " (s "NUMBER CATEGORIES") = none := by decide
  simp [kvNum, a1, a2, a3, a4, c1, c2, c3, c4]

/-- **the independent reader on the written file** -/
theorem reader_write (i : CatInst) (h : wfCat i = true) :
    Spec.Format.read false (write i) = some
      { fields := kvMeta i.header ++ kvNum i, altNames := i.header.altNames,
        catNames := i.categoriesName,
        ballots := (sorted i).map (fun b => ((i.multiplicity.get? b).getD 0, b)), edges := [] } := by
  obtain ⟨hh, hne, _, _, _, hcv, _⟩ := (wfCat_iff i).1 h
  have hlines : Spec.Format.splitLines (write i) = hdrLines i ++ ballotLines i := by
    rw [write_eq, splitLines_unlines _ (lineOK_lines i hh hcv)]
    intro l hl hnil
    rcases List.mem_append.1 hl with hl | hl
    · have := hdrLines_hash i l hl; rw [hnil] at this; simp at this
    · obtain ⟨b, _, rfl⟩ := List.mem_map.1 hl
      exact ballotText_ne_nil _ b hnil
  have hb : ∀ l, (ballotLines i).head? = some l → ['#'].isPrefixOf l = false := by
    intro l hl
    obtain ⟨b, _, rfl⟩ := List.mem_map.1 (List.mem_of_mem_head? hl)
    exact ballotText_not_hash' _ b
  rw [read_ballots (write i) (hdrLines i) (ballotLines i) _ hlines (hdrLines_hash i) hb
    (reader_ballotLines i), map_keyValue_hdrLines]
  obtain ⟨k1, k2, k3⟩ := kvNum_filters i
  simp only [List.filter_append, List.filterMap_append, filter_fields_kvMeta, k1,
    filter_fields_kvNumbered_alt, filter_fields_kvNumbered_cat, filterMap_alt_kvMeta, k2,
    filterMap_numbered_self, filterMap_cat_kvMeta, k3, List.append_nil, List.nil_append]
  rw [filterMap_numbered_other "ALTERNATIVE NAME " "CATEGORY NAME " _
      (fun r => by simp [List.isPrefixOf]),
    filterMap_numbered_other "CATEGORY NAME " "ALTERNATIVE NAME " _
      (fun r => by simp [List.isPrefixOf])]
  simp

end PrefVerif.C08
