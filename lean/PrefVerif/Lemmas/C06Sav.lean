import PrefVerif.Lemmas.C06Rules
/-! C06: satisfaction approval voting (exact rational arithmetic) -/
namespace PrefVerif.C06
open PrefVerif PrefVerif.Py PrefVerif.SingleWinner PrefVerif.Spec

theorem savScores_eq (p : Profile) :
    savScores p = applyIncs [] (p.flatMap (fun om =>
      (om.1.headD []).map (fun a => (a, (om.2 : Rat) / ((om.1.headD []).length : Rat))))) := by
  simp only [savScores, applyIncs, List.foldl_flatMap, List.foldl_map]

theorem rat_div_pos {a b : Rat} (ha : 0 < a) (hb : 0 < b) : 0 < a / b := by
  rw [Rat.div_def]; exact Rat.mul_pos ha (Rat.inv_pos.2 hb)

theorem sav_core (i : Inst) (hwf : wfInst i = true) :
    ∃ ws, argmaxKeys (savScores i.profile) = some ws ∧
      IsArgmax i.alts (savScore (votes i.profile)) ws := by
  obtain ⟨_, hp, hall⟩ := (wfInst_iff i).1 hwf
  rw [savScores_eq]
  have hx : ∀ x ∈ i.profile.flatMap (fun om =>
      (om.1.headD []).map (fun a => (a, (om.2 : Rat) / ((om.1.headD []).length : Rat)))),
      x.1 ∈ i.alts ∧ 0 < x.2 := by
    intro x hx
    obtain ⟨om, hom, hx⟩ := List.mem_flatMap.1 hx
    obtain ⟨a, ha, rfl⟩ := List.mem_map.1 hx
    obtain ⟨h1, h2, h3⟩ := head_mem_of_wf (hall om hom).1
    refine ⟨h2 a ha, rat_div_pos (Rat.natCast_pos.2 (hall om hom).2) (Rat.natCast_pos.2 ?_)⟩
    exact List.length_pos_iff.2 h1
  have hne : i.profile.flatMap (fun om =>
      (om.1.headD []).map (fun a => (a, (om.2 : Rat) / ((om.1.headD []).length : Rat)))) ≠ [] := by
    cases hpr : i.profile with
    | nil => exact absurd hpr hp
    | cons om p =>
      have := (head_mem_of_wf (hall om (by simp [hpr])).1).1
      simp only [List.flatMap_cons, ne_eq, List.append_eq_nil_iff, List.map_eq_nil_iff, not_and]
      intro h; exact absurd h this
  obtain ⟨ws, h1, h2⟩ := posDict_spec selRat_max i.alts (savScore (votes i.profile))
    (applyIncs [] (i.profile.flatMap (fun om =>
      (om.1.headD []).map (fun a => (a, (om.2 : Rat) / ((om.1.headD []).length : Rat))))))
    (nodup_keys_applyIncs _ _ (by simp [AList.keys]))
    (by
      intro a ha
      rcases (mem_keys_applyIncs _ _ _).1 ha with h | h
      · simp [AList.keys] at h
      · obtain ⟨x, hx', rfl⟩ := List.mem_map.1 h
        exact (hx x hx').1)
    (by
      intro a
      rw [val_applyIncs_rat, tot_flatMap_sum_rat _
        (fun o => if (o.headD []).contains a then (1 : Rat) / ((o.headD []).length : Rat) else 0) a i.profile
        (fun om hom => by
          rw [tot_map_const_rat _ _ _ (head_mem_of_wf (hall om hom).1).2.2]
          simp only [List.contains_iff_mem]
          split <;> grind)]
      simp only [val, get?_nil, savScore, Option.getD_none]
      grind)
    (by
      have := applyIncs_inv (fun v : Rat => 0 < v) _ []
        (fun x h => by have := (hx x h).2; grind) (fun v hv x h => by have := (hx x h).2; grind)
        (by simp)
      intro q hq; have := this q hq; grind)
    (applyIncs_ne_nil _ _ (Or.inl hne))
  exact ⟨ws, by rw [argmaxKeys_eq]; exact h1, h2⟩

end PrefVerif.C06
