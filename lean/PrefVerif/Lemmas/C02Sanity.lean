import PrefVerif.Lemmas.C02Type
/-! Facts about a `Consistent` state used by the views / sanity / statistics theorems. -/
namespace PrefVerif.C02
open PrefVerif PrefVerif.Ordinal PrefVerif.Spec PrefVerif.Py

theorem nodup_eraseDups {α : Type} [BEq α] [LawfulBEq α] : (l : List α) → l.eraseDups.Nodup
  | [] => by simp
  | a :: as => by
    rw [List.eraseDups_cons, List.nodup_cons]
    have : (as.filter fun b => !b == a).length < as.length + 1 :=
      Nat.lt_add_one_of_le (List.length_filter_le _ as)
    refine ⟨?_, nodup_eraseDups _⟩
    rw [List.mem_eraseDups, List.mem_filter]
    simp
termination_by l => l.length

theorem eraseDups_of_nodup {α : Type} [BEq α] [LawfulBEq α] (l : List α) (h : l.Nodup) :
    l.eraseDups = l := by
  induction l with
  | nil => simp
  | cons a as ih =>
    rw [List.nodup_cons] at h
    have hf : (as.filter fun b => !b == a) = as := by
      rw [List.filter_eq_self]
      intro b hb
      have : b ≠ a := fun e => h.1 (e ▸ hb)
      simp [this]
    rw [List.eraseDups_cons, hf, ih h.2]

theorem cons_core {s : OrdState} {v : List Order} (hc : Consistent s v) :
    Core s.orders s.multiplicity v := ⟨hc.mult, hc.multKeys, hc.nodup, hc.support⟩

theorem cons_of_pre {s : OrdState} {v : List Order} (hp : Pre s v)
    (ht : s.dataType = typeOfVotes s.numAlternatives v) : Consistent s v :=
  ⟨hp.mid.core.cnt, hp.mid.core.keys, hp.mid.core.nodup, hp.mid.core.support, hp.mid.voters,
   hp.unique, hp.mid.alts, hp.mid.altsNodup, hp.numAlts, ht⟩

theorem cons_pre {s : OrdState} {v : List Order} (hc : Consistent s v) : Pre s v :=
  ⟨⟨(cons_core hc), hc.voters, hc.alts, hc.altsNodup⟩, hc.unique, hc.numAlts⟩

/-! ### `typeOfVotes` read back -/

theorem typeOfVotes_strict (n : Nat) (v : List Order) :
    (typeOfVotes n v == "soc" || typeOfVotes n v == "soi") = v.all isStrictOrder := by
  unfold typeOfVotes
  simp only
  generalize v.all isStrictOrder = S
  generalize (v.all fun o => o.flatten.length == n) = C
  cases S <;> cases C <;> decide

theorem typeOfVotes_complete (n : Nat) (v : List Order) :
    (typeOfVotes n v == "soc" || typeOfVotes n v == "toc") = v.all (fun o => o.flatten.length == n) := by
  unfold typeOfVotes
  simp only
  generalize v.all isStrictOrder = S
  generalize (v.all fun o => o.flatten.length == n) = C
  cases S <;> cases C <;> decide

/-! ### facts about a consistent state -/

theorem cons_ballot_le {s : OrdState} {v : List Order} (hc : Consistent s v)
    (hv : ∀ o ∈ v, wfVote o = true) (o : Order) (ho : o ∈ s.orders) :
    o.flatten.length ≤ s.numAlternatives := by
  have hov := (hc.support o).1 ho
  obtain ⟨_, _, hnd⟩ := (wfVote_iff o).1 (hv o hov)
  rw [hc.numAlts]
  apply hnd.length_le_of_subset
  intro a ha
  exact (hc.alts a).2 ⟨o, hov, ha⟩

theorem cons_strict_of_type {s : OrdState} {v : List Order} (hc : Consistent s v)
    (hv : ∀ o ∈ v, wfVote o = true) (o : Order) (ho : o ∈ s.orders)
    (ht : (s.dataType == "soc" || s.dataType == "soi") = true) :
    (listMax (o.map List.length)).getD 0 = 1 := by
  have hov := (hc.support o).1 ho
  rw [hc.type, typeOfVotes_strict, List.all_eq_true] at ht
  have := strict_test_eq o (hv o hov)
  rw [ht o hov] at this
  simpa using this

theorem cons_length_eq {s : OrdState} {v : List Order} (hc : Consistent s v) :
    s.orders.length = s.multiplicity.length := by
  rw [← hc.multKeys, length_keys]

theorem cons_voters_sum {s : OrdState} {v : List Order} (hc : Consistent s v) :
    s.numVoters = (AList.values s.multiplicity).sum := by
  rw [values_eq_map_get? s.multiplicity 0 (hc.multKeys ▸ hc.nodup), hc.multKeys, hc.voters,
    ← (cons_core hc).fullProfile_perm.length_eq, List.length_flatMap]
  simp

theorem cons_alts_le {s : OrdState} {v : List Order} (hc : Consistent s v) :
    ((s.orders.map List.flatten).flatten.eraseDups).length ≤ s.numAlternatives := by
  rw [hc.numAlts]
  apply (nodup_eraseDups _).length_le_of_subset
  intro a ha
  rw [List.mem_eraseDups, List.mem_flatten] at ha
  obtain ⟨l, hl, ha⟩ := ha
  obtain ⟨o, ho, rfl⟩ := List.mem_map.1 hl
  exact (hc.alts a).2 ⟨o, (hc.support o).1 ho, ha⟩

theorem cons_no_zero {s : OrdState} {v : List Order} (hc : Consistent s v)
    (h0 : ∀ o ∈ v, 0 ∉ o.flatten) : 0 ∉ (s.orders.map List.flatten).flatten.eraseDups := by
  intro ha
  rw [List.mem_eraseDups, List.mem_flatten] at ha
  obtain ⟨l, hl, ha⟩ := ha
  obtain ⟨o, ho, rfl⟩ := List.mem_map.1 hl
  exact h0 o ((hc.support o).1 ho) ha

theorem cons_inferType {s : OrdState} {v : List Order} (hc : Consistent s v)
    (hv : ∀ o ∈ v, wfVote o = true) : inferType s = s.dataType := by
  rw [hc.type]; exact inferType_eq_typeOfVotes s v hc.support hv

end PrefVerif.C02
