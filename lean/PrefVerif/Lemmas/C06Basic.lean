import PrefVerif.Model.SingleWinner
import PrefVerif.Spec.Voting
/-! C06 helpers: sums are permutation invariant; sums/counts over the expanded profile -/
namespace PrefVerif.C06
open PrefVerif PrefVerif.Spec

theorem perm_sum_int {l₁ l₂ : List Int} (h : l₁.Perm l₂) : l₁.sum = l₂.sum := by
  induction h with
  | nil => rfl
  | cons x _ ih => simp [ih]
  | swap x y l => simp only [List.sum_cons]; omega
  | trans _ _ ih₁ ih₂ => exact ih₁.trans ih₂

theorem perm_sum_rat {l₁ l₂ : List Rat} (h : l₁.Perm l₂) : l₁.sum = l₂.sum := by
  induction h with
  | nil => rfl
  | cons x _ ih => simp [ih]
  | swap x y l => simp only [List.sum_cons]; grind
  | trans _ _ ih₁ ih₂ => exact ih₁.trans ih₂

theorem margin_perm {v w : List Order} (h : v.Perm w) (a b : Nat) : margin v a b = margin w a b := by
  simp only [margin, prefCount, h.countP_eq]

theorem scores_perm' (v w : List Order) (h : v.Perm w) (alts : List Nat) (m k a : Nat) :
    pluralityScore v a = pluralityScore w a ∧ vetoScore v a = vetoScore w a ∧
    topCount k v a = topCount k w a ∧ bordaScore m v a = bordaScore m w a ∧
    copelandScore alts v a = copelandScore alts w a ∧ savScore v a = savScore w a := by
  refine ⟨h.countP_eq _, h.countP_eq _, h.countP_eq _, perm_sum_int (h.map _), ?_, perm_sum_rat (h.map _)⟩
  simp only [copelandScore, margin_perm h]

end PrefVerif.C06
