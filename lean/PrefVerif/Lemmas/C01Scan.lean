import PrefVerif.Model.OrdinalIO
import PrefVerif.Lemmas.IOStr
/-!
# C01 — the ballot scanner inverts the compact ballot renderer

`cOrder o` is the ballot text after `"".join(line.split())`: classes separated by `,`, a class of
size ≠ 1 in braces.  `scanOrder (cOrder o) = o` for orders with non-empty classes.
-/
namespace PrefVerif.C01
open PrefVerif PrefVerif.Py PrefVerif.OrdinalIO PrefVerif.IOL

abbrev digits (n : Nat) : List Char := natToStr n

/-- a class, compact: `7` or `{1,2,3}` -/
def cClass : List Nat → List Char
  | [a] => digits a
  | cl => '{' :: (List.intercalate [','] (cl.map digits)) ++ ['}']

/-- an order, compact -/
def cOrder (o : Order) : List Char := List.intercalate [','] (o.map cClass)


theorem isDC_digit {c : Char} (h : c.isDigit = true) : isDC c = true := by simp [isDC, h]
theorem isDC_comma : isDC ',' = true := by decide
theorem not_isDC_lbrace : isDC '{' = false := by decide
theorem not_isDC_rbrace : isDC '}' = false := by decide

theorem digits_isDigit {n : Nat} {c : Char} (h : c ∈ digits n) : c.isDigit = true :=
  Nat.isDigit_of_mem_toDigits (by decide) (by decide) h

theorem digits_ne_nil (n : Nat) : digits n ≠ [] := Nat.toDigits_ne_nil

theorem digit_ne_comma {c : Char} (h : c.isDigit = true) : (c == ',') = false := by
  cases hc : c == ',' with
  | false => rfl
  | true => have := eq_of_beq hc; subst this; exact absurd h (by decide)

/-- tokens with a digit accumulator over a digit string followed by anything -/
theorem tokens_digits_append (ds acc rest : List Char) (h : ∀ c ∈ ds, c.isDigit = true) :
    tokens (ds ++ rest) acc = tokens rest (acc ++ ds) := by
  induction ds generalizing acc with
  | nil => simp
  | cons d ds ih =>
    have hd := h d (by simp)
    simp only [List.cons_append, tokens, digit_ne_comma hd, Bool.false_eq_true, if_false]
    rw [ih _ (fun c hc => h c (by simp [hc]))]
    simp

theorem tokens_digits_comma (a : Nat) (rest : List Char) :
    tokens (digits a ++ ',' :: rest) [] = a :: tokens rest [] := by
  rw [tokens_digits_append _ _ _ (fun c hc => digits_isDigit hc)]
  have : (digits a).isEmpty = false := by
    cases h : digits a with
    | nil => exact absurd h (digits_ne_nil a)
    | cons _ _ => rfl
  simp [tokens, this, digits, ofDigitChars_natToStr]

theorem tokens_digits_end (a : Nat) : tokens (digits a) [] = [a] := by
  have := tokens_digits_append (digits a) [] [] (fun c hc => digits_isDigit hc)
  simp only [List.append_nil, List.nil_append] at this
  rw [this]
  have : (digits a).isEmpty = false := by
    cases h : digits a with
    | nil => exact absurd h (digits_ne_nil a)
    | cons _ _ => rfl
  simp [tokens, this, digits, ofDigitChars_natToStr]

theorem tokens_comma (rest : List Char) : tokens (',' :: rest) [] = tokens rest [] := by
  simp [tokens]

/-- body of a brace group -/
def body (cl : List Nat) : List Char := List.intercalate [','] (cl.map digits)

theorem body_cons_cons (a b : Nat) (cl : List Nat) :
    body (a :: b :: cl) = digits a ++ ',' :: body (b :: cl) := by
  simp [body, List.intercalate_cons_cons]

theorem tokens_body (cl : List Nat) : tokens (body cl) [] = cl := by
  induction cl with
  | nil => simp [body, tokens]
  | cons a cl ih =>
    cases cl with
    | nil => simpa [body] using tokens_digits_end a
    | cons b cl => rw [body_cons_cons, tokens_digits_comma, ih]

theorem body_allDC (cl : List Nat) : ∀ c ∈ body cl, isDC c = true := by
  induction cl with
  | nil => simp [body]
  | cons a cl ih =>
    cases cl with
    | nil =>
      intro c hc
      have : c ∈ digits a := by simpa [body] using hc
      exact isDC_digit (digits_isDigit this)
    | cons b cl =>
      intro c hc
      rw [body_cons_cons] at hc
      rcases List.mem_append.1 hc with h | h
      · exact isDC_digit (digits_isDigit h)
      · rcases List.mem_cons.1 h with rfl | h
        · exact isDC_comma
        · exact ih c h

theorem body_ne_nil {cl : List Nat} (h : cl ≠ []) : body cl ≠ [] := by
  cases cl with
  | nil => exact absurd rfl h
  | cons a cl =>
    cases cl with
    | nil => simpa [body] using digits_ne_nil a
    | cons b cl => rw [body_cons_cons]; simp



/-- fuel beyond the length of the input is irrelevant -/
theorem scan_fuel (f g : Nat) (cs : List Char) (hf : cs.length < f) (hg : cs.length < g) :
    scan f cs = scan g cs := by
  induction f generalizing g cs with
  | zero => omega
  | succ f ih =>
    cases g with
    | zero => omega
    | succ g =>
      cases cs with
      | nil => simp [scan]
      | cons c cs =>
        simp only [List.length_cons] at hf hg
        have hd := length_dropWhile_le isDC cs
        simp only [scan]
        split
        · split
          · rename_i run rest x y rest' hrun hrest
            have : rest'.length < cs.length := by
              have := hd; rw [hrest] at this; simp at this; omega
            rw [ih g rest' (by omega) (by omega)]
          · exact ih g cs (by omega) (by omega)
        · split
          · have h2 := length_dropWhile_le isDC (c :: cs)
            rename_i hc
            have h3 : ((c :: cs).dropWhile isDC).length ≤ cs.length := by
              simp only [List.dropWhile_cons, hc, if_true]; exact hd
            rw [ih g _ (by omega) (by omega)]
          · exact ih g cs (by omega) (by omega)

def scan' (cs : List Char) : Order := scan (cs.length + 1) cs

theorem scan'_nil : scan' [] = [] := by simp [scan', scan]

theorem scan'_brace (b rest : List Char) (hb : b ≠ []) (h : ∀ c ∈ b, isDC c = true) :
    scan' ('{' :: (b ++ '}' :: rest)) = tokens b [] :: scan' rest := by
  have htd := takeWhile_run b ('}' :: rest) h (by intro c hc; simp at hc; subst hc; exact not_isDC_rbrace)
  unfold scan'
  simp only [List.length_cons, scan]
  simp only [htd.1, htd.2, beq_self_eq_true, if_true]
  cases b with
  | nil => exact absurd rfl hb
  | cons x xs =>
    simp only
    congr 1
    apply scan_fuel <;> simp <;> omega

theorem scan'_run (run rest : List Char) (hne : run ≠ []) (h : ∀ c ∈ run, isDC c = true)
    (hr : ∀ c, rest.head? = some c → isDC c = false) :
    scan' (run ++ rest) = (tokens run []).map (fun a => [a]) ++ scan' rest := by
  have htd := takeWhile_run run rest h hr
  cases run with
  | nil => exact absurd rfl hne
  | cons x xs =>
    have hx := h x (by simp)
    have hx' : (x == '{') = false := by
      cases hxb : x == '{' with
      | false => rfl
      | true => have := eq_of_beq hxb; subst this; exact absurd hx (by decide)
    unfold scan'
    simp only [List.cons_append, List.length_cons, scan, hx', Bool.false_eq_true, if_false, hx, if_true]
    simp only [List.cons_append] at htd
    rw [htd.1, htd.2]
    congr 1
    apply scan_fuel <;> simp <;> omega



theorem head_dropWhile_not (l : List Char) : ∀ c, (l.dropWhile isDC).head? = some c → isDC c = false := by
  intro c hc
  induction l with
  | nil => simp at hc
  | cons a l ih =>
    simp only [List.dropWhile_cons] at hc
    split at hc
    · exact ih hc
    · simp at hc; subst hc; simpa using ‹¬ isDC a = true›

theorem mem_takeWhile_isDC (l : List Char) : ∀ c ∈ l.takeWhile isDC, isDC c = true := by
  induction l with
  | nil => simp
  | cons a l ih =>
    intro c hc
    simp only [List.takeWhile_cons] at hc
    split at hc
    · rcases List.mem_cons.1 hc with rfl | h
      · assumption
      · exact ih c h
    · simp at hc

/-- `scan'` of any string, in terms of its maximal leading `[\d,]` run. -/
theorem scan'_decomp (s : List Char) :
    scan' s = (tokens (s.takeWhile isDC) []).map (fun a => [a]) ++ scan' (s.dropWhile isDC) := by
  by_cases hne : s.takeWhile isDC = []
  · have : s.dropWhile isDC = s := by
      have := List.takeWhile_append_dropWhile (p := isDC) (l := s)
      rw [hne] at this; simpa using this
    simp [hne, this, tokens]
  · have := scan'_run (s.takeWhile isDC) (s.dropWhile isDC) hne (mem_takeWhile_isDC s) (head_dropWhile_not s)
    rwa [List.takeWhile_append_dropWhile] at this

theorem scan'_single_comma (a : Nat) (s : List Char) :
    scan' (digits a ++ ',' :: s) = [a] :: scan' s := by
  have hrun : ∀ c ∈ digits a ++ [','], isDC c = true := by
    intro c hc
    rcases List.mem_append.1 hc with h | h
    · exact isDC_digit (digits_isDigit h)
    · simp at h; subst h; exact isDC_comma
  have hsplit : digits a ++ ',' :: s = (digits a ++ [',']) ++ s := by simp
  rw [scan'_decomp (digits a ++ ',' :: s), hsplit]
  obtain ⟨h1, h2⟩ := takeWhile_append_of_all (digits a ++ [',']) s hrun
  rw [h1, h2, scan'_decomp s]
  have : digits a ++ [','] ++ List.takeWhile isDC s = digits a ++ ',' :: List.takeWhile isDC s := by simp
  rw [this, tokens_digits_comma]
  simp

theorem scan'_single_end (a : Nat) : scan' (digits a) = [[a]] := by
  have := scan'_run (digits a) [] (digits_ne_nil a) (fun c hc => isDC_digit (digits_isDigit hc)) (by simp)
  simpa [tokens_digits_end, scan'_nil] using this

theorem scan'_comma (s : List Char) : scan' (',' :: s) = scan' s := by
  rw [scan'_decomp (',' :: s), scan'_decomp s]
  simp [isDC_comma, tokens_comma]

theorem cOrder_cons_cons (c d : List Nat) (o : Order) :
    cOrder (c :: d :: o) = cClass c ++ ',' :: cOrder (d :: o) := by
  simp [cOrder, List.intercalate_cons_cons]

theorem cClass_single (a : Nat) : cClass [a] = digits a := rfl

theorem cClass_multi {cl : List Nat} (h : cl.length ≠ 1) :
    cClass cl = '{' :: (body cl ++ ['}']) := by
  match cl, h with
  | [], _ => rfl
  | [_], h => exact absurd rfl h
  | _ :: _ :: _, _ => rfl

/-- The scanner inverts the renderer on every ballot whose classes are non-empty. -/
theorem scan'_cOrder (o : Order) (h : ∀ cl ∈ o, cl ≠ []) : scan' (cOrder o) = o := by
  induction o with
  | nil => simp [cOrder, scan'_nil]
  | cons cl o ih =>
    have hcl := h cl (by simp)
    have ih' := ih (fun c hc => h c (by simp [hc]))
    by_cases h1 : cl.length = 1
    · obtain ⟨a, rfl⟩ := List.length_eq_one_iff.1 h1
      cases o with
      | nil => simpa [cOrder, cClass_single] using scan'_single_end a
      | cons d o => rw [cOrder_cons_cons, cClass_single, scan'_single_comma, ih']
    · cases o with
      | nil =>
        have : cOrder [cl] = '{' :: (body cl ++ '}' :: []) := by
          simp [cOrder, cClass_multi h1]
        rw [this, scan'_brace _ _ (body_ne_nil hcl) (body_allDC cl), tokens_body, scan'_nil]
      | cons d o =>
        have : cOrder (cl :: d :: o) = '{' :: (body cl ++ '}' :: (',' :: cOrder (d :: o))) := by
          rw [cOrder_cons_cons, cClass_multi h1]; simp
        rw [this, scan'_brace _ _ (body_ne_nil hcl) (body_allDC cl), tokens_body, scan'_comma, ih']



theorem scanOrder_eq_scan' (cs : List Char) : scanOrder cs = scan' cs := rfl

/-- the scanner inverts the compact renderer -/
theorem scanOrder_cOrder (o : Order) (h : ∀ cl ∈ o, cl ≠ []) : scanOrder (cOrder o) = o :=
  scan'_cOrder o h

end PrefVerif.C01
