import PrefVerif.Lemmas.C12DPShape
/-!
`place` keeps every vote free of interior local minima: the checks of `case_3`, `case_2` and `check_case_4`
against the boundary identifier are exactly the conditions on the new consecutive triples.
-/
namespace PrefVerif.C12DP
open PrefVerif.KAlt

/-- the axis has one hole and no vote ranks an alternative below both its neighbours -/
def AxSP (votes : List (List Nat)) (A : Axis) : Prop :=
  ∃ Fr S, Shape A Fr S ∧ ∀ v ∈ votes, LMF v.idxOf (Fr.reverse ++ S)

/-- the two early-exit tests of the `case_3` loop (and of `case_2`, per new alternative) do not fire -/
def noExit (bound : Bnd) (v : List Nat) (x : Nat) : Prop :=
  let idX := v.idxOf x
  let b := bndIdx v bound
  ¬ (b.2.1.isSome && b.2.2.1.isSome && (ltO b.2.1 idX && ltO b.2.2.1 idX)) = true ∧
  ¬ ((b.1.isSome || b.2.2.2.isSome) && checkCase4 b idX) = true

theorem noExit_okT (o0 o1 o2 o3 : Option Nat) (v : List Nat) (x : Nat) (h : noExit (o0, o1, o2, o3) v x) :
    okT v.idxOf o0 o1 (some x) ∧ okT v.idxOf o1 (some x) o2 ∧ okT v.idxOf (some x) o2 o3 := by
  unfold noExit at h
  dsimp only at h
  obtain ⟨h1, h2⟩ := h
  refine ⟨?_, ?_, ?_⟩
  · intro a b c ha hb hc hbad
    subst ha hb; cases hc
    apply h2
    simp [bndIdx, checkCase4, hbad.1, hbad.2]
  · intro a b c ha hb hc hbad
    subst ha hc; cases hb
    apply h1
    simp [bndIdx, ltO, hbad.1, hbad.2]
  · intro a b c ha hb hc hbad
    subst hb hc; cases ha
    apply h2
    simp [bndIdx, checkCase4, hbad.1, hbad.2]

theorem okT_none_mid (r : Nat → Nat) (a c : Option Nat) : okT r a none c := by
  intro a' b' c' _ hb; cases hb

theorem okT_none_left (r : Nat → Nat) (b c : Option Nat) : okT r none b c := by
  intro a' b' c' ha; cases ha

theorem okT_none_right (r : Nat → Nat) (a b : Option Nat) : okT r a b none := by
  intro a' b' c' _ _ hc; cases hc

theorem case3Loop_some (bound : Bnd) (x : Nat) (votes : List (List Nat)) (fl fl' : Bool × Bool)
    (h : case3Loop bound x votes fl = some fl') : ∀ v ∈ votes, noExit bound v x := by
  induction votes generalizing fl with
  | nil => intro v hv; cases hv
  | cons w ws ih =>
    obtain ⟨c, d⟩ := fl
    unfold case3Loop at h
    dsimp only at h
    split at h
    · cases h
    · rename_i h1
      split at h
      · cases h
      · rename_i h2
        intro v hv
        simp only [List.mem_cons] at hv
        rcases hv with rfl | hv
        · exact ⟨h1, h2⟩
        · exact ih _ h v hv

theorem take_shape (Fr S : List Nat) :
    (Fr.reverse.map some ++ none :: S.map some : Axis).take Fr.length = Fr.reverse.map some :=
  List.take_left' (by simp)

theorem drop_shape (Fr S : List Nat) :
    (Fr.reverse.map some ++ none :: S.map some : Axis).drop Fr.length = none :: S.map some :=
  List.drop_left' (by simp)

theorem take_shape_succ (Fr S : List Nat) :
    (Fr.reverse.map some ++ none :: S.map some : Axis).take (Fr.length + 1) = Fr.reverse.map some ++ [none] := by
  have : (Fr.reverse.map some ++ none :: S.map some : Axis) = (Fr.reverse.map some ++ [none]) ++ S.map some := by simp
  rw [this]; exact List.take_left' (by simp)

theorem drop_shape_succ (Fr S : List Nat) :
    (Fr.reverse.map some ++ none :: S.map some : Axis).drop (Fr.length + 1) = S.map some := by
  have : (Fr.reverse.map some ++ none :: S.map some : Axis) = (Fr.reverse.map some ++ [none]) ++ S.map some := by simp
  rw [this]; exact List.drop_left' (by simp)

/-- all-`None` inner boundary: the axis is empty -/
theorem shape_empty_of_bnd {Fr S : List Nat} (h : ¬ ((Fr.head?).isSome || (S.head?).isSome) = true) :
    Fr = [] ∧ S = [] := by
  cases Fr with
  | nil =>
    cases S with
    | nil => exact ⟨rfl, rfl⟩
    | cons => simp at h
  | cons => simp at h

theorem case3_sp (votes : List (List Nat)) (A : Axis) (x : Nat) (h : AxSP votes A) :
    AxSP votes (case3 A x votes).1 := by
  obtain ⟨Fr, S, hsh, hlmf⟩ := h
  unfold case3
  dsimp only
  rw [hsh.boundary, hsh.idxOf]
  dsimp only
  have hfacts : (if (Fr.head?).isSome || (S.head?).isSome then
      case3Loop (Fr.tail.head?, Fr.head?, S.head?, S.tail.head?) x votes (false, false)
      else some (false, false)) ≠ none →
      ∀ v ∈ votes, LMF v.idxOf (Fr.reverse ++ x :: S) := by
    intro hne v hv
    split at hne
    · cases hr : case3Loop (Fr.tail.head?, Fr.head?, S.head?, S.tail.head?) x votes (false, false) with
      | none => exact absurd hr hne
      | some fl' =>
        obtain ⟨h1, h2, h3⟩ := noExit_okT _ _ _ _ v x (case3Loop_some _ x votes _ fl' hr v hv)
        exact LMF_insert _ Fr S x (hlmf v hv) h1 h2 h3
    · rename_i hb
      obtain ⟨rfl, rfl⟩ := shape_empty_of_bnd hb
      simp
  split
  · exact ⟨Fr, S, hsh, hlmf⟩
  · rename_i fc fd hr
    have hl := hfacts (by rw [hr]; simp)
    dsimp only
    rw [hsh]
    split
    · refine ⟨Fr, x :: S, ?_, ?_⟩
      · unfold Shape
        rw [take_shape_succ, drop_shape_succ]; simp
      · exact hl
    · refine ⟨x :: Fr, S, ?_, ?_⟩
      · unfold Shape
        rw [take_shape, drop_shape]; simp
      · intro v hv
        have := hl v hv
        simpa using this

/-! ### `case_2` -/

def flagsGood (fl : Flags2) : Prop :=
  ¬ ((fl.c1 && fl.d1) || (fl.c2 && fl.d2) || (fl.c1 && fl.c2) || (fl.d1 && fl.d2)) = true

/-- what the `case_2` loop guarantees when it does not exit early -/
structure Loop2 (bound : Bnd) (x1 x2 : Nat) (votes : List (List Nat)) (fl' : Flags2) : Prop where
  ne1 : ∀ v ∈ votes, noExit bound v x1
  ne2 : ∀ v ∈ votes, noExit bound v x2
  c1 : ∀ v ∈ votes, (ltO (bndIdx v bound).2.2.1 (v.idxOf x1) && decide (v.idxOf x2 < v.idxOf x1)) = true → fl'.c1 = true
  c2 : ∀ v ∈ votes, (ltO (bndIdx v bound).2.2.1 (v.idxOf x2) && decide (v.idxOf x1 < v.idxOf x2)) = true → fl'.c2 = true
  d1 : ∀ v ∈ votes, (ltO (bndIdx v bound).2.1 (v.idxOf x1) && decide (v.idxOf x2 < v.idxOf x1)) = true → fl'.d1 = true
  d2 : ∀ v ∈ votes, (ltO (bndIdx v bound).2.1 (v.idxOf x2) && decide (v.idxOf x1 < v.idxOf x2)) = true → fl'.d2 = true

/-- flags after one vote -/
def step2 (bound : Bnd) (x1 x2 : Nat) (v : List Nat) (fl : Flags2) : Flags2 :=
  let id1 := v.idxOf x1
  let id2 := v.idxOf x2
  let b := bndIdx v bound
  ⟨if ltO b.2.2.1 id1 && decide (id2 < id1) then true else fl.c1,
   if ltO b.2.1 id1 && decide (id2 < id1) then true else fl.d1,
   if ltO b.2.2.1 id2 && decide (id1 < id2) then true else fl.c2,
   if ltO b.2.1 id2 && decide (id1 < id2) then true else fl.d2⟩

def exit1 (bound : Bnd) (x1 x2 : Nat) (v : List Nat) : Bool :=
  let id1 := v.idxOf x1
  let id2 := v.idxOf x2
  let b := bndIdx v bound
  b.2.1.isSome && b.2.2.1.isSome &&
    ((ltO b.2.1 id1 && ltO b.2.2.1 id1) || (ltO b.2.1 id2 && ltO b.2.2.1 id2))

def exit4 (bound : Bnd) (x1 x2 : Nat) (v : List Nat) : Bool :=
  let id1 := v.idxOf x1
  let id2 := v.idxOf x2
  let b := bndIdx v bound
  (b.1.isSome || b.2.2.2.isSome) && (checkCase4 b id1 || checkCase4 b id2)

def flagsBad (fl : Flags2) : Bool := (fl.c1 && fl.d1) || (fl.c2 && fl.d2) || (fl.c1 && fl.c2) || (fl.d1 && fl.d2)

theorem case2Loop_cons (bound : Bnd) (x1 x2 : Nat) (v : List Nat) (rest : List (List Nat)) (fl : Flags2) :
    case2Loop bound x1 x2 (v :: rest) fl =
      if exit1 bound x1 x2 v then none
      else if exit4 bound x1 x2 v then none
      else if flagsBad (step2 bound x1 x2 v fl) then none
      else case2Loop bound x1 x2 rest (step2 bound x1 x2 v fl) := rfl

theorem case2Loop_some (bound : Bnd) (x1 x2 : Nat) (votes : List (List Nat)) (fl fl' : Flags2)
    (h : case2Loop bound x1 x2 votes fl = some fl') (hg : flagsGood fl) :
    Loop2 bound x1 x2 votes fl' ∧ flagsGood fl' ∧
      (fl.c1 = true → fl'.c1 = true) ∧ (fl.c2 = true → fl'.c2 = true) ∧
      (fl.d1 = true → fl'.d1 = true) ∧ (fl.d2 = true → fl'.d2 = true) := by
  induction votes generalizing fl with
  | nil =>
    unfold case2Loop at h
    cases h
    exact ⟨⟨nofun, nofun, nofun, nofun, nofun, nofun⟩, hg, id, id, id, id⟩
  | cons w ws ih =>
    rw [case2Loop_cons] at h
    by_cases h1 : exit1 bound x1 x2 w = true
    · rw [if_pos h1] at h; cases h
    rw [if_neg h1] at h
    by_cases h2 : exit4 bound x1 x2 w = true
    · rw [if_pos h2] at h; cases h
    rw [if_neg h2] at h
    by_cases h3 : flagsBad (step2 bound x1 x2 w fl) = true
    · rw [if_pos h3] at h; cases h
    rw [if_neg h3] at h
    obtain ⟨hL, hg', m1, m2, m3, m4⟩ := ih _ h h3
    have e1 : noExit bound w x1 := by
      refine ⟨?_, ?_⟩
      · intro hc; apply h1
        simp only [exit1, Bool.and_eq_true] at hc ⊢
        exact ⟨hc.1, by simp [hc.2]⟩
      · intro hc; apply h2
        simp only [exit4, Bool.and_eq_true] at hc ⊢
        exact ⟨hc.1, by simp [hc.2]⟩
    have e2 : noExit bound w x2 := by
      refine ⟨?_, ?_⟩
      · intro hc; apply h1
        simp only [exit1, Bool.and_eq_true] at hc ⊢
        exact ⟨hc.1, by simp [hc.2]⟩
      · intro hc; apply h2
        simp only [exit4, Bool.and_eq_true] at hc ⊢
        exact ⟨hc.1, by simp [hc.2]⟩
    refine ⟨⟨?_, ?_, ?_, ?_, ?_, ?_⟩, hg', ?_, ?_, ?_, ?_⟩
    · intro v hv; simp only [List.mem_cons] at hv
      rcases hv with rfl | hv
      · exact e1
      · exact hL.ne1 v hv
    · intro v hv; simp only [List.mem_cons] at hv
      rcases hv with rfl | hv
      · exact e2
      · exact hL.ne2 v hv
    · intro v hv hc; simp only [List.mem_cons] at hv
      rcases hv with rfl | hv
      · apply m1; simp only [step2]; rw [if_pos hc]
      · exact hL.c1 v hv hc
    · intro v hv hc; simp only [List.mem_cons] at hv
      rcases hv with rfl | hv
      · apply m2; simp only [step2]; rw [if_pos hc]
      · exact hL.c2 v hv hc
    · intro v hv hc; simp only [List.mem_cons] at hv
      rcases hv with rfl | hv
      · apply m3; simp only [step2]; rw [if_pos hc]
      · exact hL.d1 v hv hc
    · intro v hv hc; simp only [List.mem_cons] at hv
      rcases hv with rfl | hv
      · apply m4; simp only [step2]; rw [if_pos hc]
      · exact hL.d2 v hv hc
    · intro hc; apply m1; simp only [step2]; split
      · rfl
      · exact hc
    · intro hc; apply m2; simp only [step2]; split
      · rfl
      · exact hc
    · intro hc; apply m3; simp only [step2]; split
      · rfl
      · exact hc
    · intro hc; apply m4; simp only [step2]; split
      · rfl
      · exact hc

/-- the two tests on the pair itself, for the arrangement `… b1 xL xR b2 …` -/
theorem pair_okT (o1 o2 : Option Nat) (o0 o3 : Option Nat) (v : List Nat) (xL xR : Nat)
    (hd : ¬ (ltO (bndIdx v (o0, o1, o2, o3)).2.1 (v.idxOf xL) && decide (v.idxOf xR < v.idxOf xL)) = true)
    (hc : ¬ (ltO (bndIdx v (o0, o1, o2, o3)).2.2.1 (v.idxOf xR) && decide (v.idxOf xL < v.idxOf xR)) = true) :
    okT v.idxOf o1 (some xL) (some xR) ∧ okT v.idxOf (some xL) (some xR) o2 := by
  constructor
  · intro a b c ha hb hc' hbad
    subst ha; cases hb; cases hc'
    apply hd
    simp [bndIdx, ltO, hbad.1, hbad.2]
  · intro a b c ha hb hc' hbad
    subst hc'; cases ha; cases hb
    apply hc
    simp [bndIdx, ltO, hbad.1, hbad.2]

theorem insert2 (v : List Nat) (Fr S : List Nat) (xL xR : Nat) (h : LMF v.idxOf (Fr.reverse ++ S))
    (eL : noExit (Fr.tail.head?, Fr.head?, S.head?, S.tail.head?) v xL)
    (eR : noExit (Fr.tail.head?, Fr.head?, S.head?, S.tail.head?) v xR)
    (hd : ¬ (ltO (bndIdx v (Fr.tail.head?, Fr.head?, S.head?, S.tail.head?)).2.1 (v.idxOf xL) &&
      decide (v.idxOf xR < v.idxOf xL)) = true)
    (hc : ¬ (ltO (bndIdx v (Fr.tail.head?, Fr.head?, S.head?, S.tail.head?)).2.2.1 (v.idxOf xR) &&
      decide (v.idxOf xL < v.idxOf xR)) = true) :
    LMF v.idxOf (Fr.reverse ++ xL :: xR :: S) := by
  obtain ⟨r1, r2, r3⟩ := noExit_okT _ _ _ _ v xR eR
  obtain ⟨l1, _, _⟩ := noExit_okT _ _ _ _ v xL eL
  obtain ⟨p1, p2⟩ := pair_okT _ _ _ _ v xL xR hd hc
  have hR := LMF_insert _ Fr S xR h r1 r2 r3
  exact LMF_insert _ Fr (xR :: S) xL hR l1 (by simpa using p1) (by simpa using p2)

theorem case2_sp (votes : List (List Nat)) (A : Axis) (x1 x2 : Nat) (h : AxSP votes A) :
    AxSP votes (case2 A x1 x2 votes).1 := by
  obtain ⟨Fr, S, hsh, hlmf⟩ := h
  unfold case2
  dsimp only
  rw [hsh.boundary, hsh.idxOf]
  dsimp only
  generalize hr : (if (Fr.head?).isSome || (S.head?).isSome then
      case2Loop (Fr.tail.head?, Fr.head?, S.head?, S.tail.head?) x1 x2 votes ⟨false, false, false, false⟩
      else some ⟨false, false, false, false⟩) = r
  cases r with
  | none => exact ⟨Fr, S, hsh, hlmf⟩
  | some fl =>
    dsimp only
    have hg0 : flagsGood ⟨false, false, false, false⟩ := by simp [flagsGood]
    have hshape : ∀ xL xR, Shape (List.take Fr.length A ++ [some xL] ++ [none] ++ ([some xR] ++ List.drop (Fr.length + 1) A))
        (xL :: Fr) (xR :: S) := by
      intro xL xR
      unfold Shape
      rw [hsh, take_shape, drop_shape_succ]; simp
    -- the facts delivered by the loop (vacuous for the empty axis)
    have hfacts : (∀ v ∈ votes, LMF v.idxOf (Fr.reverse ++ x1 :: x2 :: S)) ∨ (fl.c2 || fl.d1) = true := by
      by_cases hcd : (fl.c2 || fl.d1) = true
      · exact Or.inr hcd
      · left
        intro v hv
        split at hr
        · obtain ⟨hL, _, _⟩ := case2Loop_some _ x1 x2 votes _ fl hr hg0
          apply insert2 v Fr S x1 x2 (hlmf v hv) (hL.ne1 v hv) (hL.ne2 v hv)
          · intro hc; apply hcd; simp [hL.d1 v hv hc]
          · intro hc; apply hcd; simp [hL.c2 v hv hc]
        · rename_i hb
          obtain ⟨rfl, rfl⟩ := shape_empty_of_bnd hb
          simp
    have hfacts' : (fl.c2 || fl.d1) = true → ∀ v ∈ votes, LMF v.idxOf (Fr.reverse ++ x2 :: x1 :: S) := by
      intro hcd v hv
      split at hr
      · obtain ⟨hL, hg, _⟩ := case2Loop_some _ x1 x2 votes _ fl hr hg0
        apply insert2 v Fr S x2 x1 (hlmf v hv) (hL.ne2 v hv) (hL.ne1 v hv)
        · intro hc
          have hd2 := hL.d2 v hv hc
          apply hg
          revert hcd
          cases fl.c1 <;> cases fl.c2 <;> cases fl.d1 <;> simp [hd2]
        · intro hc
          have hc1 := hL.c1 v hv hc
          apply hg
          revert hcd
          cases fl.c2 <;> cases fl.d1 <;> cases fl.d2 <;> simp [hc1]
      · cases hr
        simp at hcd
    split
    · rename_i hcd
      refine ⟨x2 :: Fr, x1 :: S, hshape x2 x1, ?_⟩
      intro v hv
      have := hfacts' hcd v hv
      simpa using this
    · rename_i hcd
      refine ⟨x1 :: Fr, x2 :: S, hshape x1 x2, ?_⟩
      intro v hv
      rcases hfacts with hf | hf
      · have := hf v hv
        simpa using this
      · exact absurd hf hcd

theorem place_sp (votes : List (List Nat)) (A : Axis) (X : List Nat) (h : AxSP votes A) :
    AxSP votes (place A X votes).1 := by
  unfold place
  split
  · exact case3_sp votes A _ h
  · exact case2_sp votes A _ _ h
  · exact h

theorem axSP_init (votes : List (List Nat)) : AxSP votes [none] :=
  ⟨[], [], rfl, fun _ _ => trivial⟩

end PrefVerif.C12DP
