import PrefVerif.Model.Distances
import PrefVerif.Spec.Distances
/-!
# C20 helper lemmas — Kendall-tau (`kt`) versus the declarative `dis`
-/
namespace PrefVerif.C20
open PrefVerif.Distances PrefVerif.Spec

theorem mem_pairs {u : List Nat} {p : Nat × Nat} : p ∈ pairs u ↔ p.1 ∈ u ∧ p.2 ∈ u := by
  simp only [pairs, List.mem_flatMap, List.mem_map]
  constructor
  · rintro ⟨x, hx, y, hy, rfl⟩; exact ⟨hx, hy⟩
  · rintro ⟨h1, h2⟩; exact ⟨p.1, h1, p.2, h2, rfl⟩

theorem countP_or_le {α : Type} (p q r : α → Bool) (l : List α) (h : ∀ x ∈ l, p x → q x ∨ r x) :
    l.countP p ≤ l.countP q + l.countP r := by
  induction l with
  | nil => simp
  | cons a l ih =>
    have ih' := ih (fun x hx => h x (by simp [hx]))
    have ha := h a (by simp)
    simp only [List.countP_cons]
    by_cases hp : p a
    · rcases ha hp with hq | hr
      · simp [hp, hq]; omega
      · simp [hp, hr]; omega
    · simp [hp]; omega

theorem idxOf_inj_of_mem {b : List Nat} {x y : Nat} (hx : x ∈ b) (h : b.idxOf x = b.idxOf y) :
    x = y := by
  induction b with
  | nil => simp at hx
  | cons c b ih =>
    rw [List.idxOf_cons, List.idxOf_cons] at h
    by_cases h1 : c = x
    · subst h1
      by_cases h2 : c = y
      · exact h2
      · have : (c == y) = false := by simpa using h2
        simp [this] at h
    · have e1 : (c == x) = false := by simpa using h1
      by_cases h2 : c = y
      · subst h2; simp [e1] at h
      · have e2 : (c == y) = false := by simpa using h2
        have hx' : x ∈ b := by
          rcases List.mem_cons.1 hx with rfl | h'
          · exact absurd rfl h1
          · exact h'
        simp [e1, e2] at h
        exact ih hx' h

/-- triangle inequality on a common universe -/
theorem dis_triangle (a b c u : List Nat) (hb : ∀ x ∈ u, x ∈ b) :
    dis a c u ≤ dis a b u + dis b c u := by
  unfold dis
  apply countP_or_le
  intro p hp hac
  have hm := mem_pairs.1 hp
  simp only [Bool.and_eq_true, before, decide_eq_true_eq] at hac ⊢
  obtain ⟨h1, h2⟩ := hac
  by_cases hb1 : b.idxOf p.2 < b.idxOf p.1
  · exact Or.inl ⟨h1, hb1⟩
  · right
    refine ⟨?_, h2⟩
    have hne : b.idxOf p.1 ≠ b.idxOf p.2 := by
      intro heq
      have := idxOf_inj_of_mem (hb _ hm.1) heq
      rw [this] at h1; omega
    omega

def c2 (f : Nat → Nat → Bool) (l1 l2 : List Nat) : Nat := (l1.map (fun x => l2.countP (f x))).sum

theorem c2_nil_right (f : Nat → Nat → Bool) (l1 : List Nat) : c2 f l1 [] = 0 := by
  induction l1 with
  | nil => rfl
  | cons x l1 ih =>
    simp only [c2, List.map_cons, List.sum_cons, List.countP_nil, Nat.zero_add] at ih ⊢; exact ih

theorem c2_cons_right (f : Nat → Nat → Bool) (l1 l2 : List Nat) (y : Nat) :
    c2 f l1 (y :: l2) = l1.countP (fun x => f x y) + c2 f l1 l2 := by
  induction l1 with
  | nil => simp [c2]
  | cons x l1 ih =>
    simp only [c2, List.map_cons, List.sum_cons, List.countP_cons] at ih ⊢
    rw [ih]; omega

theorem c2_cons_left (f : Nat → Nat → Bool) (l1 l2 : List Nat) (x : Nat) :
    c2 f (x :: l1) l2 = l2.countP (f x) + c2 f l1 l2 := by
  simp [c2]

theorem c2_swap (f : Nat → Nat → Bool) (l1 l2 : List Nat) :
    c2 f l1 l2 = c2 (fun y x => f x y) l2 l1 := by
  induction l1 with
  | nil => rw [c2_nil_right]; rfl
  | cons x l1 ih =>
    rw [c2_cons_right, ← ih]
    simp [c2]

theorem c2_congr (f g : Nat → Nat → Bool) (l1 l2 : List Nat)
    (h : ∀ x ∈ l1, ∀ y ∈ l2, f x y = g x y) : c2 f l1 l2 = c2 g l1 l2 := by
  unfold c2
  congr 1
  apply List.map_congr_left
  intro x hx
  apply List.countP_congr
  intro y hy
  rw [h x hx y hy]

theorem dis_eq_c2 (a b u : List Nat) :
    dis a b u = c2 (fun x y => before a x y && before b y x) u u := by
  simp [dis, pairs, c2, List.countP_flatMap, List.countP_map, Function.comp_def]

theorem dis_symm (a b u : List Nat) : dis a b u = dis b a u := by
  rw [dis_eq_c2, dis_eq_c2, c2_swap]
  congr 1
  funext y x
  exact Bool.and_comm _ _

/-- `SameRanking` lists are permutations of each other -/
theorem _root_.PrefVerif.Spec.SameRanking.perm {a b : List Nat} (h : SameRanking a b) : a.Perm b :=
  (List.perm_ext_iff_of_nodup h.1 h.2.1).2 h.2.2

theorem _root_.PrefVerif.Spec.SameRanking.length_eq {a b : List Nat} (h : SameRanking a b) : a.length = b.length :=
  h.perm.length_eq

theorem _root_.PrefVerif.Spec.SameRanking.symm {a b : List Nat} (h : SameRanking a b) : SameRanking b a :=
  ⟨h.2.1, h.1, fun x => (h.2.2 x).symm⟩

theorem _root_.PrefVerif.Spec.SameRanking.trans {a b c : List Nat} (h : SameRanking a b) (h' : SameRanking b c) :
    SameRanking a c :=
  ⟨h.1, h'.2.1, fun x => (h.2.2 x).trans (h'.2.2 x)⟩

theorem c2_perm (f : Nat → Nat → Bool) {u v : List Nat} (h : u.Perm v) : c2 f u u = c2 f v v := by
  have h1 : c2 f u u = c2 f u v := by
    unfold c2
    congr 1
    apply List.map_congr_left
    intro x _
    exact h.countP_eq _
  rw [h1]
  unfold c2
  exact (h.map _).sum_nat

/-- `dis` does not depend on the order of the universe -/
theorem dis_perm_univ (a b : List Nat) {u v : List Nat} (h : u.Perm v) : dis a b u = dis a b v := by
  rw [dis_eq_c2, dis_eq_c2, c2_perm _ h]

/-- the loop `kt` counts exactly the discordant pairs -/
theorem kt_eq_c2 (l b : List Nat) (hl : l.Nodup) :
    kt l b = c2 (fun x y => before l x y && before b y x) l l := by
  induction l with
  | nil => rfl
  | cons x rest ih =>
    have hx : x ∉ rest := (List.nodup_cons.1 hl).1
    have hr : rest.Nodup := (List.nodup_cons.1 hl).2
    rw [kt, c2_cons_left, List.countP_cons, c2_cons_right, ih hr]
    have h0 : (before (x :: rest) x x && before b x x) = false := by simp [before]
    have h1 : List.countP (fun y => before (x :: rest) x y && before b y x) rest
        = (List.filter (fun y => decide (b.idxOf x > b.idxOf y)) rest).length := by
      rw [List.countP_eq_length_filter]
      congr 1
      apply List.filter_congr
      intro y hy
      have hne : x ≠ y := fun e => hx (e ▸ hy)
      have : (x == y) = false := by simpa using hne
      simp [before, List.idxOf_cons, this]
    have h2 : List.countP (fun x' => before (x :: rest) x' x && before b x x') rest = 0 := by
      rw [List.countP_eq_zero]
      intro y hy
      simp [before, List.idxOf_cons]
    have h3 : c2 (fun x' y => before (x :: rest) x' y && before b y x') rest rest
        = c2 (fun x' y => before rest x' y && before b y x') rest rest := by
      apply c2_congr
      intro p hp q hq
      have e1 : (x == p) = false := by
        have : x ≠ p := fun e => hx (e ▸ hp)
        simpa using this
      have e2 : (x == q) = false := by
        have : x ≠ q := fun e => hx (e ▸ hq)
        simpa using this
      simp [before, List.idxOf_cons, e1, e2]
    rw [h0, h1, h2, h3]
    simp

theorem kt_eq_dis' (a b : List Nat) (ha : a.Nodup) : kt a b = dis a b a := by
  rw [kt_eq_c2 a b ha, dis_eq_c2]

theorem dis_self (a u : List Nat) : dis a a u = 0 := by
  unfold dis
  rw [List.countP_eq_zero]
  intro p _
  simp [before]
  omega

/-- adding an unseen alternative in front of the reference ranking does not change `kt` -/
theorem kt_cons_right (l b : List Nat) (x : Nat) (hx : x ∉ l) : kt l (x :: b) = kt l b := by
  induction l with
  | nil => rfl
  | cons y rest ih =>
    have hy : (x == y) = false := by
      have : x ≠ y := fun e => hx (by simp [e])
      simpa using this
    have hr : x ∉ rest := fun h => hx (by simp [h])
    rw [kt, kt, ih hr]
    congr 2
    apply List.filter_congr
    intro z hz
    have hz' : (x == z) = false := by
      have : x ≠ z := fun e => hr (e ▸ hz)
      simpa using this
    simp [List.idxOf_cons, hy, hz']

theorem kt_eq_zero_imp (a : List Nat) : ∀ b : List Nat, SameRanking a b → kt a b = 0 → a = b := by
  induction a with
  | nil =>
    intro b h _
    have := h.length_eq
    simp at this
    exact (List.length_eq_zero_iff.1 this.symm).symm
  | cons x rest ih =>
    intro b h hk
    have hxr : x ∉ rest := (List.nodup_cons.1 h.1).1
    have hrn : rest.Nodup := (List.nodup_cons.1 h.1).2
    rw [kt] at hk
    have hf : (rest.filter (fun y => decide (b.idxOf x > b.idxOf y))).length = 0 := by omega
    have hk' : kt rest b = 0 := by omega
    have hf' : ∀ y ∈ rest, b.idxOf x ≤ b.idxOf y := by
      intro y hy
      have := List.length_eq_zero_iff.1 hf
      rw [List.filter_eq_nil_iff] at this
      have := this y hy
      simpa using this
    match b, h, hk', hf' with
    | [], h, _, _ =>
      have := h.length_eq
      simp at this
    | z :: b', h, hk', hf' =>
      have hzx : z = x := by
        by_cases hzx : z = x
        · exact hzx
        · have hz : z ∈ x :: rest := (h.2.2 z).2 (by simp)
          have hz' : z ∈ rest := by
            rcases List.mem_cons.1 hz with e | h'
            · exact absurd e hzx
            · exact h'
          have := hf' z hz'
          have e : (z == x) = false := by simpa using hzx
          simp [List.idxOf_cons, e] at this
      subst hzx
      have hzb : z ∉ b' := (List.nodup_cons.1 h.2.1).1
      have hbn : b'.Nodup := (List.nodup_cons.1 h.2.1).2
      have hs : SameRanking rest b' := by
        refine ⟨hrn, hbn, fun y => ?_⟩
        have := h.2.2 y
        simp only [List.mem_cons] at this
        constructor
        · intro hy
          have hne : y ≠ z := fun e => hxr (e ▸ hy)
          rcases this.1 (Or.inr hy) with e | h'
          · exact absurd e hne
          · exact h'
        · intro hy
          have hne : y ≠ z := fun e => hzb (e ▸ hy)
          rcases this.2 (Or.inr hy) with e | h'
          · exact absurd e hne
          · exact h'
      rw [kt_cons_right _ _ _ hxr] at hk'
      rw [ih b' hs hk']

end PrefVerif.C20
