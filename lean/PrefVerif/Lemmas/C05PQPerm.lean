import PrefVerif.Lemmas.C05PQShape
/-!
`set_contiguous` keeps the leaves: the tree it leaves behind has the same leaves (as a multiset), is well
formed, a `FULL`/`EMPTY` flag tells the truth about the leaves, and a `(PARTIAL, ALIGNED)` tree can be
`simplify`-ed without losing a leaf (`SimpOK`).
-/
set_option linter.unusedSimpArgs false
namespace PrefVerif.PQTree
open Tree

/-- what `setContiguous` guarantees about the tree it leaves behind, as far as the leaves are concerned -/
structure ChildOK (v : Nat) (c : Tree) (f : Flag) : Prop where
  wf : WF c
  full : f = .full → ∀ s ∈ frontier c, v ∈ s
  empty : f = .empty → ∀ s ∈ frontier c, v ∉ s
  simp : f = .partialAligned → SimpOK v c

theorem synPartial_of_all {v : Nat} {c : Tree} (hwf : WF c) (h : ∀ s ∈ frontier c, v ∈ s) :
    synPartial v c = false := by
  cases hpq : c.isPQ with
  | false => simp [synPartial, hpq]
  | true =>
    have hany : anyNotMem v c.children = false := by
      rw [anyNotMem_eq_any, Bool.eq_false_iff]
      simp only [ne_eq, List.any_eq_true, not_exists, not_and]
      intro cc hcc
      have : mem v cc = true := by
        refine mem_of_all (wf_children hwf cc hcc) ?_
        intro s hs
        refine h s ?_
        rw [frontier_eq_children c hpq]
        exact mem_frontierList.2 ⟨cc, hcc, hs⟩
      simp [this]
    simp [synPartial, hany]

theorem ChildOK.noSyn_empty {v : Nat} {c : Tree} (h : ChildOK v c .empty) : synPartial v c = false :=
  synPartial_of_not_mem (not_mem_of_none (h.empty rfl))

theorem ChildOK.noSyn_full {v : Nat} {c : Tree} (h : ChildOK v c .full) : synPartial v c = false :=
  synPartial_of_all h.wf (h.full rfl)

theorem ChildOK.mem_full {v : Nat} {c : Tree} (h : ChildOK v c .full) : mem v c = true :=
  mem_of_all h.wf (h.full rfl)

theorem simpOK_p_append_singleton {v : Nat} {E : List Tree} {X : Tree}
    (hE : ∀ c ∈ E, synPartial v c = false) (hX : synPartial v X = true → SimpOK v X) :
    SimpOK v (.p (E ++ [X])) := by
  have hfil : E.filter (synPartial v) = [] := by
    rw [List.filter_eq_nil_iff]
    intro c hc
    simp [hE c hc]
  refine SimpOK.p _ ?_ ?_
  · rw [List.filter_append, hfil, List.nil_append]
    exact (List.filter_sublist (l := [X])).length_le
  · intro c hc hs
    rcases List.mem_append.1 hc with hc | hc
    · rw [hE c hc] at hs; cases hs
    · simp only [List.mem_singleton] at hc
      subst hc
      exact hX hs

theorem simpOK_newQ {v : Nat} {new : List Tree} (hnd : (frontierList new).Nodup)
    (hns : ∀ c ∈ new, synPartial v c = false) (hs : synPartial v (newQ new) = true) :
    SimpOK v (newQ new) := by
  unfold newQ at hs ⊢
  split
  · rw [mkQ_eq hnd]
    exact SimpOK.q _ (fun c hc hsc => by rw [hns c hc] at hsc; cases hsc)
  · rename_i hlen
    rw [if_neg hlen] at hs
    match new, hns with
    | [], _ => simp [synPartial, isPQ] at hs
    | [x], hns => simp [hns x (List.mem_singleton.2 rfl)] at hs
    | _ :: _ :: _, _ => simp at hlen

theorem nodup_append_right' {α : Type} {a b : List α} (h : (a ++ b).Nodup) : b.Nodup :=
  (List.nodup_append.1 h).2.1

theorem nodup_append_left' {α : Type} {a b : List α} (h : (a ++ b).Nodup) : a.Nodup :=
  (List.nodup_append.1 h).1

/-- the restructuring step of `P.set_contiguous` keeps the leaves -/
theorem restructureP_ok {v : Nat} {rs : List (Tree × Flag)} {t' : Tree} {f' : Flag}
    (hne : rs ≠ []) (hch : ∀ r ∈ rs, ChildOK v r.1 r.2) (hnd : (frontierList (rs.map (·.1))).Nodup)
    (h : restructureP v rs = .ok (t', f')) :
    ChildOK v t' f' ∧ (frontier t').Perm (frontierList (rs.map (·.1))) := by
  have hsel : ∀ f c, c ∈ select f rs → ChildOK v c f := fun f c hc => hch (c, f) (mem_select.1 hc)
  have hwfcs : ∀ c ∈ rs.map (·.1), WF c := by
    intro c hc
    obtain ⟨r, hr, rfl⟩ := List.mem_map.1 hc
    exact (hch r hr).wf
  have hcsne : rs.map (·.1) ≠ [] := by simpa using hne
  have hperm := frontierList_perm (select_perm4 rs)
  have hsum := select_length_sum rs
  have hndsel : ∀ f, (frontierList (select f rs)).Nodup :=
    fun f => nodup_of_sublist_frontier (select_sublist f rs) hnd
  rcases restructureP_shape h with
    ⟨hlen, rfl, rfl⟩ | ⟨hlen, rfl, rfl⟩ | ⟨_, _, rfl, rfl⟩ | ⟨hpa, hE, rfl, rfl⟩ |
    ⟨hPU, hPA, hF, hEne, rfl, rfl⟩ | ⟨hPU, hF, c0, hPA, rfl, rfl⟩ | ⟨hPU, c0, c1, hPA, rfl, rfl⟩
  · -- all full
    refine ⟨⟨(wf_p _).2 ⟨hcsne, hwfcs⟩, ?_, by simp, by simp⟩, by simp⟩
    intro _ s hs
    simp only [frontier_p] at hs
    obtain ⟨c, hc, hsc⟩ := mem_frontierList.1 hs
    obtain ⟨r, hr, rfl⟩ := List.mem_map.1 hc
    exact (hch r hr).full (select_all hlen r hr) s hsc
  · -- all empty
    refine ⟨⟨(wf_p _).2 ⟨hcsne, hwfcs⟩, by simp, ?_, by simp⟩, by simp⟩
    intro _ s hs
    simp only [frontier_p] at hs
    obtain ⟨c, hc, hsc⟩ := mem_frontierList.1 hs
    obtain ⟨r, hr, rfl⟩ := List.mem_map.1 hc
    exact (hch r hr).empty (select_all hlen r hr) s hsc
  · -- one partial unaligned child, all others empty
    exact ⟨⟨(wf_p _).2 ⟨hcsne, hwfcs⟩, by simp, by simp, by simp⟩, by simp⟩
  · -- one partial aligned child, all others empty: it is moved to the right end
    have hF0 : select .full rs = [] := List.eq_nil_of_length_eq_zero (by omega)
    have hPU0 : select .partialUnaligned rs = [] := List.eq_nil_of_length_eq_zero (by omega)
    rw [hF0, hPU0] at hperm
    simp only [frontierList_nil, List.nil_append, List.append_nil, frontierList_append] at hperm
    match hs : select .partialAligned rs, hpa with
    | [c0], _ =>
      have hc0 : ChildOK v c0 .partialAligned := hsel _ c0 (by simp [hs])
      refine ⟨⟨(wf_p _).2 ⟨by simp, ?_⟩, by simp, by simp, fun _ => ?_⟩, ?_⟩
      · intro c hc
        rcases List.mem_append.1 hc with hc | hc
        · exact (hsel _ c hc).wf
        · simp only [List.mem_singleton] at hc; subst hc; exact hc0.wf
      · exact simpOK_p_append_singleton (fun c hc => (hsel _ c hc).noSyn_empty) (fun _ => hc0.simp rfl)
      · rw [hs] at hperm
        simpa using hperm.symm
  · -- empty and full children only
    rw [hPU, hPA] at hperm
    simp only [frontierList_nil, List.append_nil] at hperm
    have hnp : frontier (newP (select .full rs)) = frontierList (select .full rs) := frontier_newP (hndsel _) hF
    have hX : frontier (newQ [newP (select .full rs)]) = frontierList (select .full rs) := by
      rw [frontier_newQ (by simpa [hnp] using hndsel .full) (by simp)]
      simp [hnp]
    have hwfX : WF (newQ [newP (select .full rs)]) := by
      refine wf_newQ (by simpa [hnp] using hndsel .full) (by simp) ?_
      intro c hc
      simp only [List.mem_singleton] at hc
      subst hc
      exact wf_newP (hndsel _) hF (fun c hc => (hsel _ c hc).wf)
    have hnsP : synPartial v (newP (select .full rs)) = false :=
      synPartial_newP_full (hndsel _) (fun c hc => ⟨(hsel _ c hc).mem_full, (hsel _ c hc).noSyn_full⟩)
    refine ⟨⟨(wf_p _).2 ⟨by simp, ?_⟩, by simp, by simp, fun _ => ?_⟩, ?_⟩
    · intro c hc
      rcases List.mem_append.1 hc with hc | hc
      · exact (hsel _ c hc).wf
      · simp only [List.mem_singleton] at hc; subst hc; exact hwfX
    · refine simpOK_p_append_singleton (fun c hc => (hsel _ c hc).noSyn_empty) ?_
      refine simpOK_newQ (by simpa [hnp] using hndsel .full) ?_
      intro c hc
      simp only [List.mem_singleton] at hc
      subst hc
      exact hnsP
    · simp only [frontier_p, frontierList_append, frontierList_cons, frontierList_nil, List.append_nil, hX]
      simp only [frontierList_append] at hperm
      exact List.perm_append_comm.trans hperm.symm
  · -- one partial aligned child and full children
    rw [hPU, hPA] at hperm
    simp only [frontierList_nil, List.append_nil, frontierList_append, frontierList_cons] at hperm
    have hc0 : ChildOK v c0 .partialAligned := hsel _ c0 (by simp [hPA])
    have hnd' := hperm.nodup hnd
    have hndc0 : (frontier c0).Nodup := nodup_append_right' hnd'
    have hnp : frontier (newP (select .full rs)) = frontierList (select .full rs) := frontier_newP (hndsel _) hF
    have hsimp := frontierList_simplify v true (hc0.simp rfl) hndc0
    have hnewperm : (frontierList (simplify v true c0 ++ [newP (select .full rs)])).Perm
        (frontier c0 ++ frontierList (select .full rs)) := by
      simp only [frontierList_append, frontierList_cons, frontierList_nil, List.append_nil, hnp]
      exact List.Perm.append_right _ hsimp
    have hndnew : (frontierList (simplify v true c0 ++ [newP (select .full rs)])).Nodup := by
      refine hnewperm.symm.nodup ?_
      have : (frontierList (select .empty rs) ++ (frontier c0 ++ frontierList (select .full rs))).Perm
          (frontierList (select .full rs) ++ frontierList (select .empty rs) ++ frontier c0) := by
        rw [List.perm_iff_count]; intro a
        simp only [List.count_append]
        omega
      exact nodup_append_right' (this.symm.nodup hnd')
    have hX := frontier_newQ hndnew (by simp)
    have hwfnew : ∀ c ∈ simplify v true c0 ++ [newP (select .full rs)], WF c := by
      intro c hc
      rcases List.mem_append.1 hc with hc | hc
      · exact wf_simplify v true c0 hndc0 hc0.wf c hc
      · simp only [List.mem_singleton] at hc; subst hc
        exact wf_newP (hndsel _) hF (fun c hc => (hsel _ c hc).wf)
    have hnsnew : ∀ c ∈ simplify v true c0 ++ [newP (select .full rs)], synPartial v c = false := by
      intro c hc
      rcases List.mem_append.1 hc with hc | hc
      · exact noSyn_simplify v true c0 hndc0 c hc
      · simp only [List.mem_singleton] at hc; subst hc
        exact synPartial_newP_full (hndsel _) (fun c hc => ⟨(hsel _ c hc).mem_full, (hsel _ c hc).noSyn_full⟩)
    refine ⟨⟨(wf_p _).2 ⟨by simp, ?_⟩, by simp, by simp, fun _ => ?_⟩, ?_⟩
    · intro c hc
      rcases List.mem_append.1 hc with hc | hc
      · exact (hsel _ c hc).wf
      · simp only [List.mem_singleton] at hc; subst hc
        exact wf_newQ hndnew (by simp) hwfnew
    · exact simpOK_p_append_singleton (fun c hc => (hsel _ c hc).noSyn_empty) (simpOK_newQ hndnew hnsnew)
    · simp only [frontier_p, frontierList_append (select .empty rs), frontierList_cons, frontierList_nil,
        List.append_nil, hX]
      rw [List.perm_iff_count]; intro a
      have h1 := hperm.count_eq a
      have h2 := hnewperm.count_eq a
      simp only [List.count_append] at h1 h2 ⊢
      omega
  · -- two partial aligned children
    rw [hPU, hPA] at hperm
    simp only [frontierList_nil, List.append_nil, frontierList_append, frontierList_cons] at hperm
    have hc0 : ChildOK v c0 .partialAligned := hsel _ c0 (by simp [hPA])
    have hc1 : ChildOK v c1 .partialAligned := hsel _ c1 (by simp [hPA])
    have hnd' := hperm.nodup hnd
    have hndc0 : (frontier c0).Nodup := nodup_append_left' (nodup_append_right' hnd')
    have hndc1 : (frontier c1).Nodup := nodup_append_right' (nodup_append_right' hnd')
    have hndr1 : (frontier (Tree.reverse c1)).Nodup := by
      rw [frontier_reverse]; exact (List.reverse_perm _).symm.nodup hndc1
    have hs0 := frontierList_simplify v true (hc0.simp rfl) hndc0
    have hs1 := frontierList_simplify v false (simpOK_reverse (hc1.simp rfl)) hndr1
    have hr1 : (frontier (Tree.reverse c1)).Perm (frontier c1) := by
      rw [frontier_reverse]; exact List.reverse_perm _
    have hoF : frontierList (optP (select .full rs)) = frontierList (select .full rs) :=
      frontierList_optP (hndsel _)
    have hnewperm : (frontierList (simplify v true c0 ++ optP (select .full rs) ++
        simplify v false (Tree.reverse c1))).Perm
        (frontier c0 ++ frontierList (select .full rs) ++ frontier c1) := by
      simp only [frontierList_append, hoF]
      exact (hs0.append_right _).append (hs1.trans hr1)
    have hndnew : (frontierList (simplify v true c0 ++ optP (select .full rs) ++
        simplify v false (Tree.reverse c1))).Nodup := by
      refine hnewperm.symm.nodup ?_
      have : (frontierList (select .empty rs) ++
          (frontier c0 ++ frontierList (select .full rs) ++ frontier c1)).Perm
          (frontierList (select .full rs) ++ frontierList (select .empty rs) ++ (frontier c0 ++ frontier c1)) := by
        rw [List.perm_iff_count]; intro a
        simp only [List.count_append]
        omega
      exact nodup_append_right' (this.symm.nodup hnd')
    have hnewne : simplify v true c0 ++ optP (select .full rs) ++ simplify v false (Tree.reverse c1) ≠ [] := by
      intro hnil
      have h0 : simplify v true c0 = [] := by
        have := congrArg List.length hnil
        simp only [List.length_append, List.length_nil] at this
        exact List.eq_nil_of_length_eq_zero (by omega)
      rw [h0] at hs0
      exact frontier_ne_nil hc0.wf (List.Perm.nil_eq (by simpa using hs0)).symm
    have hX := frontier_newQ hndnew hnewne
    have hwfnew : ∀ c ∈ simplify v true c0 ++ optP (select .full rs) ++ simplify v false (Tree.reverse c1),
        WF c := by
      intro c hc
      rcases List.mem_append.1 hc with hc | hc
      · rcases List.mem_append.1 hc with hc | hc
        · exact wf_simplify v true c0 hndc0 hc0.wf c hc
        · unfold optP at hc
          split at hc
          · simp at hc
          · rename_i hF
            simp only [List.mem_singleton] at hc; subst hc
            exact wf_newP (hndsel _) (by simpa using hF) (fun c hc => (hsel _ c hc).wf)
      · exact wf_simplify v false _ hndr1 (wf_reverse hc1.wf) c hc
    refine ⟨⟨(wf_p _).2 ⟨by simp, ?_⟩, by simp, by simp, by simp⟩, ?_⟩
    · intro c hc
      rcases List.mem_append.1 hc with hc | hc
      · exact (hsel _ c hc).wf
      · simp only [List.mem_singleton] at hc; subst hc
        exact wf_newQ hndnew hnewne hwfnew
    · simp only [frontier_p, frontierList_append (select .empty rs), frontierList_cons, frontierList_nil,
        List.append_nil, hX]
      rw [List.perm_iff_count]; intro a
      have h1 := hperm.count_eq a
      have h2 := hnewperm.count_eq a
      simp only [List.count_append] at h1 h2 ⊢
      omega

/-- the loop of `Q.set_contiguous` keeps the leaves, and its new children are not partial -/
theorem qLoop_ok {v : Nat} {rs : List (Tree × Flag)} {st st' : QLoop}
    (hch : ∀ r ∈ rs, ChildOK v r.1 r.2) (hnd : (frontierList (rs.map (·.1))).Nodup)
    (hwf : ∀ c ∈ st.newChildren, WF c) (hns : ∀ c ∈ st.newChildren, synPartial v c = false)
    (h : qLoop v st rs = .ok st') :
    (∀ c ∈ st'.newChildren, WF c) ∧ (∀ c ∈ st'.newChildren, synPartial v c = false) ∧
    (frontierList st'.newChildren).Perm (frontierList st.newChildren ++ frontierList (rs.map (·.1))) := by
  induction rs generalizing st with
  | nil =>
    simp only [qLoop, Except.ok.injEq] at h
    subst h
    exact ⟨hwf, hns, by simp⟩
  | cons r rs ih =>
    obtain ⟨i, f⟩ := r
    simp only [qLoop] at h
    split at h
    · cases h
    rename_i st1 hst1
    have hi : ChildOK v i f := hch (i, f) List.mem_cons_self
    simp only [List.map_cons, frontierList_cons] at hnd
    have hndi : (frontier i).Nodup := nodup_append_left' hnd
    have hndrs : (frontierList (rs.map (·.1))).Nodup := nodup_append_right' hnd
    have hstep : (∀ c ∈ st1.newChildren, WF c) ∧ (∀ c ∈ st1.newChildren, synPartial v c = false) ∧
        (frontierList st1.newChildren).Perm (frontierList st.newChildren ++ frontier i) := by
      rcases qStep_shape hst1 with ⟨rfl, rfl⟩ | ⟨rfl, _, rfl⟩ | ⟨rfl, _, _, rfl⟩ | ⟨rfl, _, _, rfl⟩
      · refine ⟨?_, ?_, by simp⟩
        · intro c hc
          rcases List.mem_append.1 hc with hc | hc
          · exact hwf c hc
          · simp only [List.mem_singleton] at hc; subst hc; exact hi.wf
        · intro c hc
          rcases List.mem_append.1 hc with hc | hc
          · exact hns c hc
          · simp only [List.mem_singleton] at hc; subst hc; exact hi.noSyn_empty
      · refine ⟨?_, ?_, by simp⟩
        · intro c hc
          rcases List.mem_append.1 hc with hc | hc
          · exact hwf c hc
          · simp only [List.mem_singleton] at hc; subst hc; exact hi.wf
        · intro c hc
          rcases List.mem_append.1 hc with hc | hc
          · exact hns c hc
          · simp only [List.mem_singleton] at hc; subst hc; exact hi.noSyn_full
      · have hndr : (frontier (Tree.reverse i)).Nodup := by
          rw [frontier_reverse]; exact (List.reverse_perm _).symm.nodup hndi
        refine ⟨?_, ?_, ?_⟩
        · intro c hc
          rcases List.mem_append.1 hc with hc | hc
          · exact hwf c hc
          · exact wf_simplify v false _ hndr (wf_reverse hi.wf) c hc
        · intro c hc
          rcases List.mem_append.1 hc with hc | hc
          · exact hns c hc
          · exact noSyn_simplify v false _ hndr c hc
        · simp only [frontierList_append]
          refine List.Perm.append_left _ ?_
          refine (frontierList_simplify v false (simpOK_reverse (hi.simp rfl)) hndr).trans ?_
          rw [frontier_reverse]; exact List.reverse_perm _
      · refine ⟨?_, ?_, ?_⟩
        · intro c hc
          rcases List.mem_append.1 hc with hc | hc
          · exact hwf c hc
          · exact wf_simplify v true _ hndi hi.wf c hc
        · intro c hc
          rcases List.mem_append.1 hc with hc | hc
          · exact hns c hc
          · exact noSyn_simplify v true _ hndi c hc
        · simp only [frontierList_append]
          exact List.Perm.append_left _ (frontierList_simplify v true (hi.simp rfl) hndi)
    obtain ⟨h1, h2, h3⟩ := ih (fun r hr => hch r (List.mem_cons_of_mem _ hr)) hndrs hstep.1 hstep.2.1 h
    refine ⟨h1, h2, h3.trans ?_⟩
    simp only [List.map_cons, frontierList_cons, ← List.append_assoc]
    exact List.Perm.append_right _ hstep.2.2

/-- the restructuring step of `Q.set_contiguous` keeps the leaves -/
theorem restructureQ_ok {v : Nat} {rs : List (Tree × Flag)} {t' : Tree} {f' : Flag}
    (hch : ∀ r ∈ rs, ChildOK v r.1 r.2) (hnd : (frontierList (rs.map (·.1))).Nodup)
    (h : restructureQ v rs = .ok (t', f')) :
    ChildOK v t' f' ∧ (frontier t').Perm (frontierList (rs.map (·.1))) := by
  obtain ⟨rs', hrs', hne, hshape⟩ := restructureQ_shape h
  have hmem : ∀ r, r ∈ rs' ↔ r ∈ rs := by
    intro r; rcases hrs' with rfl | rfl <;> simp
  have hperm' : (rs'.map (·.1)).Perm (rs.map (·.1)) := by
    rcases hrs' with rfl | rfl
    · exact List.Perm.refl _
    · exact (List.reverse_perm _).map _
  have hfperm := frontierList_perm hperm'
  have hch' : ∀ r ∈ rs', ChildOK v r.1 r.2 := fun r hr => hch r ((hmem r).1 hr)
  have hwfcs : ∀ c ∈ rs'.map (·.1), WF c := by
    intro c hc
    obtain ⟨r, hr, rfl⟩ := List.mem_map.1 hc
    exact (hch' r hr).wf
  have hcsne : rs'.map (·.1) ≠ [] := by
    rcases hrs' with rfl | rfl <;> simpa using hne
  have hnd' : (frontierList (rs'.map (·.1))).Nodup := hfperm.symm.nodup hnd
  have hflag : ∀ f, (select f rs).length = rs.length → ∀ r ∈ rs', r.2 = f :=
    fun f hlen r hr => select_all hlen r ((hmem r).1 hr)
  rcases hshape with ⟨hlen, rfl, rfl⟩ | ⟨hlen, rfl, rfl⟩ | ⟨_, _, rfl, rfl⟩ | ⟨hpa, hE, rfl, hf⟩ |
    ⟨hPU, hPA2, hFn, hEn, st, hst, rfl, rfl⟩
  · refine ⟨⟨(wf_q _).2 ⟨hcsne, hwfcs⟩, ?_, by simp, by simp⟩, by simpa using hfperm⟩
    intro _ s hs
    simp only [frontier_q] at hs
    obtain ⟨c, hc, hsc⟩ := mem_frontierList.1 hs
    obtain ⟨r, hr, rfl⟩ := List.mem_map.1 hc
    exact (hch' r hr).full (hflag _ hlen r hr) s hsc
  · refine ⟨⟨(wf_q _).2 ⟨hcsne, hwfcs⟩, by simp, ?_, by simp⟩, by simpa using hfperm⟩
    intro _ s hs
    simp only [frontier_q] at hs
    obtain ⟨c, hc, hsc⟩ := mem_frontierList.1 hs
    obtain ⟨r, hr, rfl⟩ := List.mem_map.1 hc
    exact (hch' r hr).empty (hflag _ hlen r hr) s hsc
  · exact ⟨⟨(wf_q _).2 ⟨hcsne, hwfcs⟩, by simp, by simp, by simp⟩, by simpa using hfperm⟩
  · refine ⟨⟨(wf_q _).2 ⟨hcsne, hwfcs⟩, ?_, ?_, ?_⟩, by simpa using hfperm⟩
    · rcases hf with ⟨rfl, _⟩ | rfl <;> simp
    · rcases hf with ⟨rfl, _⟩ | rfl <;> simp
    · intro _
      refine SimpOK.q _ ?_
      intro c hc hs
      obtain ⟨r, hr, rfl⟩ := List.mem_map.1 hc
      obtain ⟨c, f⟩ := r
      have hcf := hch' (c, f) hr
      cases f
      · rw [hcf.noSyn_full] at hs; cases hs
      · rw [hcf.noSyn_empty] at hs; cases hs
      · exact hcf.simp rfl
      · have : c ∈ select .partialUnaligned rs := mem_select.2 ((hmem _).1 hr)
        have hsum := select_length_sum rs
        have : 0 < (select .partialUnaligned rs).length := List.length_pos_of_mem this
        omega
  · obtain ⟨h1, h2, h3⟩ := qLoop_ok (st := ⟨[], false, false⟩) hch' hnd' (by simp) (by simp) hst
    simp only [frontierList_nil, List.nil_append] at h3
    have hncne : st.newChildren ≠ [] := by
      intro hnil
      have h4 := (h3.trans hfperm).symm
      rw [hnil] at h4
      simp only [frontierList_nil, List.perm_nil] at h4
      match hrs : rs, hne with
      | r :: rest, _ =>
        rw [hrs] at h4
        have hr : r ∈ rs := by simp [hrs]
        have := frontier_ne_nil (hch r hr).wf
        simp only [List.map_cons, frontierList_cons, List.append_eq_nil_iff] at h4
        exact this h4.1
    refine ⟨⟨(wf_q _).2 ⟨hncne, h1⟩, ?_, ?_, ?_⟩, by simpa using h3.trans hfperm⟩
    · split <;> simp
    · split <;> simp
    · intro _
      exact SimpOK.q _ (fun c hc hs => by rw [h2 c hc] at hs; cases hs)

/-- the statement proved by induction on the fuel -/
def SCOk (v fuel : Nat) : Prop :=
  ∀ (t t' : Tree) (f' : Flag), WF t → (frontier t).Nodup → setContiguous v fuel t = .ok (t', f') →
    ChildOK v t' f' ∧ (frontier t').Perm (frontier t)

theorem mapSC_ok {v fuel : Nat} (ih : SCOk v fuel) {cs : List Tree} {r : List (Tree × Flag)}
    (hwf : ∀ c ∈ cs, WF c) (hnd : (frontierList cs).Nodup) (h : mapE (setContiguous v fuel) cs = .ok r) :
    (∀ b ∈ r, ChildOK v b.1 b.2) ∧ (frontierList (r.map (·.1))).Perm (frontierList cs) ∧
      r.length = cs.length := by
  have hf := mapE_ok h
  clear h
  induction hf with
  | nil => simp
  | @cons a b as bs hab _ ih2 =>
    simp only [frontierList_cons] at hnd
    obtain ⟨h1, h2⟩ := ih a b.1 b.2 (hwf a List.mem_cons_self) (nodup_append_left' hnd) hab
    obtain ⟨h3, h4, h5⟩ := ih2 (fun c hc => hwf c (List.mem_cons_of_mem _ hc)) (nodup_append_right' hnd)
    refine ⟨?_, ?_, by simp [h5]⟩
    · intro x hx
      rcases List.mem_cons.1 hx with rfl | hx
      · exact h1
      · exact h3 x hx
    · simp only [List.map_cons, frontierList_cons]
      exact h2.append h4

theorem setContiguous_ok (v : Nat) : ∀ fuel, SCOk v fuel := by
  intro fuel
  induction fuel with
  | zero => intro t t' f' _ _ h; simp [setContiguous] at h
  | succ fuel ih =>
    intro t t' f' hwf hnd h
    cases t with
    | leaf s =>
      simp only [setContiguous, Except.ok.injEq, Prod.mk.injEq] at h
      obtain ⟨rfl, rfl⟩ := h
      refine ⟨⟨by simp, ?_, ?_, ?_⟩, by simp⟩
      · intro hf s' hs'
        simp only [frontier_leaf, List.mem_singleton] at hs'
        subst hs'
        split at hf
        · rename_i hc; simpa using hc
        · cases hf
      · intro hf s' hs'
        simp only [frontier_leaf, List.mem_singleton] at hs'
        subst hs'
        split at hf
        · cases hf
        · rename_i hc; simpa using hc
      · intro hf
        split at hf <;> cases hf
    | p cs =>
      obtain ⟨hne, hall⟩ := (wf_p cs).1 hwf
      simp only [frontier_p] at hnd
      simp only [setContiguous] at h
      split at h
      · cases h
      rename_i r1 hr1
      split at h
      · cases h
      rename_i rs hrs
      obtain ⟨_, a2, a3⟩ := mapSC_ok ih hall hnd hr1
      have a1 : ∀ c ∈ r1.map (·.1), WF c := by
        intro c hc
        obtain ⟨b, hb, rfl⟩ := List.mem_map.1 hc
        exact (mapSC_ok ih hall hnd hr1).1 b hb |>.wf
      have hwf2 := wf_flattenChildren a1
      have hfl2 := frontierList_flattenChildren (r1.map (·.1))
      have hnd2 : (frontierList (flattenChildren (r1.map (·.1)))).Nodup := by
        rw [hfl2]; exact a2.symm.nodup hnd
      obtain ⟨b1, b2, b3⟩ := mapSC_ok ih hwf2 hnd2 hrs
      have hrsne : rs ≠ [] := by
        intro hnil
        rw [hnil, length_flattenChildren, List.length_map, a3] at b3
        exact hne (List.eq_nil_of_length_eq_zero b3.symm)
      obtain ⟨c1, c2⟩ := restructureP_ok hrsne b1 (b2.symm.nodup hnd2) h
      refine ⟨c1, ?_⟩
      simp only [frontier_p]
      exact c2.trans (b2.trans (hfl2 ▸ a2))
    | q cs =>
      obtain ⟨hne, hall⟩ := (wf_q cs).1 hwf
      simp only [frontier_q] at hnd
      simp only [setContiguous] at h
      split at h
      · cases h
      rename_i r1 hr1
      split at h
      · cases h
      rename_i rs hrs
      obtain ⟨_, a2, a3⟩ := mapSC_ok ih hall hnd hr1
      have a1 : ∀ c ∈ r1.map (·.1), WF c := by
        intro c hc
        obtain ⟨b, hb, rfl⟩ := List.mem_map.1 hc
        exact (mapSC_ok ih hall hnd hr1).1 b hb |>.wf
      have hwf2 := wf_flattenChildren a1
      have hfl2 := frontierList_flattenChildren (r1.map (·.1))
      have hnd2 : (frontierList (flattenChildren (r1.map (·.1)))).Nodup := by
        rw [hfl2]; exact a2.symm.nodup hnd
      obtain ⟨b1, b2, b3⟩ := mapSC_ok ih hwf2 hnd2 hrs
      obtain ⟨c1, c2⟩ := restructureQ_ok b1 (b2.symm.nodup hnd2) h
      refine ⟨c1, ?_⟩
      simp only [frontier_q]
      exact c2.trans (b2.trans (hfl2 ▸ a2))

/-- the main loop of `reorder_sets` keeps the leaves -/
theorem mainLoop_ok {fuel : Nat} {elems : List Nat} {t t' : Tree} (hwf : WF t) (hnd : (frontier t).Nodup)
    (h : mainLoop fuel elems t = .ok t') : WF t' ∧ (frontier t').Perm (frontier t) := by
  induction elems generalizing t with
  | nil =>
    simp only [mainLoop, Except.ok.injEq] at h
    subst h
    exact ⟨hwf, List.Perm.refl _⟩
  | cons i rest ih =>
    cases t with
    | leaf s => simp [mainLoop] at h
    | p cs =>
      simp only [mainLoop] at h
      split at h
      · cases h
      rename_i r hr
      obtain ⟨c1, c2⟩ := setContiguous_ok i fuel _ r.1 r.2 hwf hnd hr
      have hfr := frontier_flattenRet r.1
      obtain ⟨d1, d2⟩ := ih (wf_flattenRet c1.wf) (by rw [hfr]; exact c2.symm.nodup hnd) h
      exact ⟨d1, d2.trans (hfr ▸ c2)⟩
    | q cs =>
      simp only [mainLoop] at h
      split at h
      · cases h
      rename_i r hr
      obtain ⟨c1, c2⟩ := setContiguous_ok i fuel _ r.1 r.2 hwf hnd hr
      have hfr := frontier_flattenRet r.1
      obtain ⟨d1, d2⟩ := ih (wf_flattenRet c1.wf) (by rw [hfr]; exact c2.symm.nodup hnd) h
      exact ⟨d1, d2.trans (hfr ▸ c2)⟩

theorem frontierList_map_leaf (sets : List (List Nat)) : frontierList (sets.map .leaf) = sets := by
  induction sets with
  | nil => simp
  | cons s rest ih => simp [ih]

theorem ordering_ok {t : Tree} {ord : List (List Nat)} (h : ordering t = .ok ord) : ord = frontier t := by
  cases t <;> simp [ordering] at h <;> exact h.symm

end PrefVerif.PQTree
