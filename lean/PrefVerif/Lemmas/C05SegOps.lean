import PrefVerif.Lemmas.C05Seg
/-!
# C05 helper lemmas, part 6: intervals under sublists, maps, group expansion; duplicate removal
-/
namespace PrefVerif.C05

variable {α β : Type}

theorem Seg.congr {p q : α → Prop} {l : List α} (h : Seg p l) (hpq : ∀ x ∈ l, (p x ↔ q x)) : Seg q l := by
  obtain ⟨A, B, C, rfl, hA, hB, hC⟩ := h
  refine ⟨A, B, C, rfl, ?_, ?_, ?_⟩
  · intro x hx hq; exact hA x hx ((hpq x (by simp [hx])).2 hq)
  · intro x hx; exact (hpq x (by simp [hx])).1 (hB x hx)
  · intro x hx hq; exact hC x hx ((hpq x (by simp [hx])).2 hq)

theorem Interval.congr {p q : α → Prop} {l : List α} (h : Interval p l) (hpq : ∀ x ∈ l, (p x ↔ q x)) :
    Interval q l :=
  (h.seg.congr hpq).interval

theorem Seg.sublist {p : α → Prop} {l l' : List α} (h : Seg p l) (hs : l'.Sublist l) : Seg p l' := by
  obtain ⟨A, B, C, rfl, hA, hB, hC⟩ := h
  obtain ⟨l1, C', rfl, h1, hC'⟩ := List.sublist_append_iff.1 hs
  obtain ⟨A', B', rfl, hA', hB'⟩ := List.sublist_append_iff.1 h1
  exact ⟨A', B', C', rfl, fun x hx => hA x (hA'.subset hx), fun x hx => hB x (hB'.subset hx),
    fun x hx => hC x (hC'.subset hx)⟩

theorem Interval.sublist {p : α → Prop} {l l' : List α} (h : Interval p l) (hs : l'.Sublist l) :
    Interval p l' :=
  (h.seg.sublist hs).interval

/-- expanding every member of the sequence into a group of elements that inherit its status -/
theorem Seg.flatMap {q : α → Prop} {p : β → Prop} {l : List α} (g : α → List β) (h : Seg q l)
    (hg : ∀ x ∈ l, ∀ y ∈ g x, (p y ↔ q x)) : Seg p (l.flatMap g) := by
  obtain ⟨A, B, C, rfl, hA, hB, hC⟩ := h
  refine ⟨A.flatMap g, B.flatMap g, C.flatMap g, by simp [List.flatMap_append], ?_, ?_, ?_⟩
  · intro y hy hp
    obtain ⟨x, hx, hyx⟩ := List.mem_flatMap.1 hy
    exact hA x hx ((hg x (by simp [hx]) y hyx).1 hp)
  · intro y hy
    obtain ⟨x, hx, hyx⟩ := List.mem_flatMap.1 hy
    exact (hg x (by simp [hx]) y hyx).2 (hB x hx)
  · intro y hy hp
    obtain ⟨x, hx, hyx⟩ := List.mem_flatMap.1 hy
    exact hC x hx ((hg x (by simp [hx]) y hyx).1 hp)

theorem interval_map {p : β → Prop} (f : α → β) (l : List α) :
    Interval p (l.map f) ↔ Interval (fun x => p (f x)) l := by
  unfold Interval
  constructor
  · intro h i j k hij hjk hk hi hk'
    have := h i j k hij hjk (by simpa using hk)
    simp only [List.getElem_map] at this
    exact this hi hk'
  · intro h i j k hij hjk hk hi hk'
    simp only [List.getElem_map] at hi hk' ⊢
    exact h i j k hij hjk (by simpa using hk) hi hk'

/-- the `!`-indexed formulation used in the specifications -/
theorem interval_bang_iff [Inhabited α] (p : α → Prop) (l : List α) :
    (∀ i j k : Nat, i < j → j < k → (hk : k < l.length) → p l[i]! → p l[k]! → p l[j]!) ↔ Interval p l := by
  unfold Interval
  constructor
  · intro h i j k hij hjk hk hi hk'
    have := h i j k hij hjk hk
    rw [getElem!_pos l i (by omega), getElem!_pos l j (by omega), getElem!_pos l k hk] at this
    exact this hi hk'
  · intro h i j k hij hjk hk hi hk'
    rw [getElem!_pos l i (by omega)] at hi
    rw [getElem!_pos l k hk] at hk'
    rw [getElem!_pos l j (by omega)]
    exact h i j k hij hjk hk hi hk'

theorem interval_of_forall_not {p : α → Prop} {l : List α} (h : ∀ x ∈ l, ¬ p x) : Interval p l :=
  fun _ _ _ _ _ _ hi _ => absurd hi (h _ (List.getElem_mem _))

/-! ### removing duplicates (keeps the last occurrence) -/

def dedup [DecidableEq α] : List α → List α
  | [] => []
  | x :: xs => if x ∈ dedup xs then dedup xs else x :: dedup xs

theorem dedup_sublist [DecidableEq α] (l : List α) : (dedup l).Sublist l := by
  induction l with
  | nil => exact List.Sublist.slnil
  | cons x xs ih =>
    simp only [dedup]
    split
    · exact ih.cons x
    · exact ih.cons_cons x

theorem mem_dedup [DecidableEq α] (l : List α) (a : α) : a ∈ dedup l ↔ a ∈ l := by
  induction l with
  | nil => simp [dedup]
  | cons x xs ih =>
    simp only [dedup]
    split
    · next h =>
      simp only [ih, List.mem_cons]
      constructor
      · exact Or.inr
      · rintro (rfl | h')
        · exact (ih.1 h)
        · exact h'
    · simp [ih]

theorem nodup_dedup [DecidableEq α] (l : List α) : (dedup l).Nodup := by
  induction l with
  | nil => simp [dedup]
  | cons x xs ih =>
    simp only [dedup]
    split
    · exact ih
    · next h => exact List.nodup_cons.2 ⟨h, ih⟩

theorem nodup_flatMap_of {l : List α} {f : α → List β} (hl : l.Nodup) (hf : ∀ x ∈ l, (f x).Nodup)
    (hd : ∀ x ∈ l, ∀ y ∈ l, ∀ c, c ∈ f x → c ∈ f y → x = y) : (l.flatMap f).Nodup := by
  induction l with
  | nil => simp
  | cons x l ih =>
    rw [List.flatMap_cons, List.nodup_append]
    have hx := List.nodup_cons.1 hl
    refine ⟨hf x (by simp), ih hx.2 (fun y hy => hf y (by simp [hy]))
      (fun y hy z hz => hd y (by simp [hy]) z (by simp [hz])), ?_⟩
    intro a ha b hb hab
    subst hab
    obtain ⟨y, hy, hay⟩ := List.mem_flatMap.1 hb
    have := hd x (by simp) y (by simp [hy]) a ha hay
    exact hx.1 (this ▸ hy)

end PrefVerif.C05
