import PrefVerif.Lemmas.C19xMain
import PrefVerif.Lemmas.C19onSound
/-!
# C19x helper lemma for an arbitrary outcome of the pre-check: when the LP is reached with an axis running
from left to right in the embedding or in its mirror image, the LP is feasible
-/
namespace PrefVerif.C19x
open PrefVerif PrefVerif.Euclid PrefVerif.Spec

theorem lpOn_feasible (alts : List Nat) (orders : List (List Nat)) (isSc : Bool) (s : List (List Nat)) (l : LP)
    (halts : alts.Nodup) (hord : ∀ o ∈ orders, o.Perm alts) (hlp : lpOn alts orders isSc s = some l)
    (voters : List Rat) (x : Nat → Rat)
    (hreal : Spec.Euclid.realises orders voters (alts.map (fun a => (a, x a))) = true)
    (hsorted : l.axis.Pairwise (fun a b => x a < x b) ∨ l.axis.Pairwise (fun a b => -x a < -x b)) :
    ∃ asg : Var → Rat, ∀ c ∈ l.constraints, satisfies asg c = true := by
  obtain ⟨hcs, hperm, wf⟩ := C19.lpOn_wellFormed alts orders isSc s l halts hord hlp
  obtain ⟨g, v1, vn, _, hcp, _, hpr, _⟩ := C19.lpOn_eq_some alts orders isSc s l hlp
  have hsub : ∀ a ∈ l.cplus, a ∈ alts := by
    rw [hcp]; intro a ha; exact (List.mem_filter.1 ha).1
  rcases hsorted with hsorted | hsorted
  · -- the axis runs from left to right: the embedding itself, scaled
    have hr := realises_restrict alts orders voters x l.cplus l.axis hsub hperm hreal
    rw [← hpr] at hr
    obtain ⟨lam0, _, h⟩ := C19.lp_complete l.preferences l.axis voters x wf
      (fun i j hij hj => List.pairwise_iff_getElem.1 hsorted i j (by omega) hj hij) hr
    exact ⟨C19.scaled lam0 voters x, by rw [hcs]; exact h lam0 Rat.le_refl⟩
  · -- it runs from right to left: the mirror image of the embedding, scaled
    have hr := realises_restrict alts orders (voters.map (fun v => -v)) (fun a => -x a) l.cplus l.axis hsub hperm
      (realises_mirror alts orders voters x hord hreal)
    rw [← hpr] at hr
    obtain ⟨lam0, _, h⟩ := C19.lp_complete l.preferences l.axis (voters.map (fun v => -v)) (fun a => -x a) wf
      (fun i j hij hj => List.pairwise_iff_getElem.1 hsorted i j (by omega) hj hij) hr
    exact ⟨C19.scaled lam0 (voters.map (fun v => -v)) (fun a => -x a), by rw [hcs]; exact h lam0 Rat.le_refl⟩

end PrefVerif.C19x
