import PrefVerif.Lemmas.C13Path
/-!
# C13 helper lemmas — the executable reachability test `reach` / `connectedIn`
-/
namespace PrefVerif.C13
open PrefVerif.Spec

/-- one round of neighbourhood expansion -/
def stepL (edges : List (Nat × Nat)) (S cur : List Nat) : List Nat :=
  S.filter (fun v => cur.contains v || edges.any (fun e =>
    (e.1 == v && cur.contains e.2) || (e.2 == v && cur.contains e.1)))

theorem reach_succ (edges : List (Nat × Nat)) (S : List Nat) (n : Nat) (cur : List Nat) :
    reach edges S (n + 1) cur = reach edges S n (stepL edges S cur) := rfl

theorem mem_stepL {edges : List (Nat × Nat)} {S cur : List Nat} {x : Nat} :
    x ∈ stepL edges S cur ↔ x ∈ S ∧ (x ∈ cur ∨ ∃ y ∈ cur, Adj edges y x) := by
  unfold stepL Adj
  simp only [List.mem_filter, Bool.or_eq_true, List.contains_iff_mem, List.any_eq_true,
    Bool.and_eq_true, beq_iff_eq, Prod.exists]
  constructor
  · rintro ⟨hx, h | ⟨p, q, he, h⟩⟩
    · exact ⟨hx, Or.inl h⟩
    · rcases h with ⟨rfl, hq⟩ | ⟨rfl, hp⟩
      · exact ⟨hx, Or.inr ⟨q, hq, Or.inr he⟩⟩
      · exact ⟨hx, Or.inr ⟨p, hp, Or.inl he⟩⟩
  · rintro ⟨hx, h | ⟨y, hy, h | h⟩⟩
    · exact ⟨hx, Or.inl h⟩
    · exact ⟨hx, Or.inr ⟨y, x, h, Or.inr ⟨rfl, hy⟩⟩⟩
    · exact ⟨hx, Or.inr ⟨x, y, h, Or.inl ⟨rfl, hy⟩⟩⟩

variable {edges : List (Nat × Nat)} {S : List Nat}

theorem stepL_subset (cur : List Nat) : ∀ x ∈ stepL edges S cur, x ∈ S :=
  fun _ hx => (mem_stepL.1 hx).1

theorem subset_stepL {cur : List Nat} (hc : ∀ x ∈ cur, x ∈ S) : ∀ x ∈ cur, x ∈ stepL edges S cur :=
  fun x hx => mem_stepL.2 ⟨hc x hx, Or.inl hx⟩

/-- `cur ⊆ reach … cur` -/
theorem subset_reach (n : Nat) : ∀ (cur : List Nat), (∀ x ∈ cur, x ∈ S) →
    ∀ x ∈ cur, x ∈ reach edges S n cur := by
  induction n with
  | zero => intro cur _ x hx; exact hx
  | succ n ih =>
    intro cur hc x hx
    rw [reach_succ]
    exact ih _ (stepL_subset cur) x (subset_stepL hc x hx)

/-- after at least one round the result is `S` filtered by some predicate -/
theorem reach_eq_filter (n : Nat) : ∀ (cur : List Nat),
    ∃ q : Nat → Bool, reach edges S (n + 1) cur = S.filter q := by
  induction n with
  | zero => intro cur; exact ⟨_, rfl⟩
  | succ n ih => intro cur; rw [reach_succ]; exact ih _

/-- soundness: everything collected is joined to the start vertex inside `S` -/
theorem reach_sound (c : Nat) (n : Nat) : ∀ (cur : List Nat), (∀ x ∈ cur, Path edges S c x) →
    ∀ x ∈ reach edges S n cur, Path edges S c x := by
  induction n with
  | zero => intro cur hc x hx; exact hc x hx
  | succ n ih =>
    intro cur hc x hx
    rw [reach_succ] at hx
    refine ih _ ?_ x hx
    intro y hy
    rcases mem_stepL.1 hy with ⟨hyS, h | ⟨z, hz, hadj⟩⟩
    · exact hc y h
    · exact (hc z hz).snoc hadj hyS

/-- closed under the edges that stay inside `S` -/
def Closed (edges : List (Nat × Nat)) (S R : List Nat) : Prop :=
  ∀ x ∈ R, ∀ y ∈ S, Adj edges x y → y ∈ R

theorem Closed.path {R : List Nat} (hR : Closed edges S R) {u v : Nat} (h : Path edges S u v) :
    u ∈ R → v ∈ R := by
  induction h with
  | refl u hu => exact id
  | step u w v hu he hw h ih => intro huR; exact ih (hR u huR w hw he)

/-- a closed set is a fixed point -/
theorem reach_fixed (n : Nat) : ∀ (cur : List Nat), (∀ x ∈ cur, x ∈ S) → Closed edges S cur →
    ∀ x, x ∈ reach edges S n cur ↔ x ∈ cur := by
  induction n with
  | zero => intro cur _ _ x; exact Iff.rfl
  | succ n ih =>
    intro cur hc hcl x
    have hst : ∀ y, y ∈ stepL edges S cur ↔ y ∈ cur := by
      intro y
      constructor
      · intro hy
        rcases mem_stepL.1 hy with ⟨hyS, h | ⟨z, hz, hadj⟩⟩
        · exact h
        · exact hcl z hz y hyS hadj
      · exact subset_stepL hc y
    rw [reach_succ, ih _ (stepL_subset cur) ?_ x, hst]
    intro a ha b hb hadj
    exact (hst b).2 (hcl a ((hst a).1 ha) b hb hadj)

/-- counting: a pointwise larger predicate with no larger count coincides on the list -/
theorem countP_le_imp {p q : Nat → Bool} : ∀ (l : List Nat), (∀ x ∈ l, p x = true → q x = true) →
    l.countP q ≤ l.countP p → ∀ x ∈ l, q x = true → p x = true := by
  intro l
  induction l with
  | nil => intro _ _ x hx; cases hx
  | cons a t ih =>
    intro hpq hle x hx hqx
    have hmono : t.countP p ≤ t.countP q :=
      List.countP_mono_left (fun y hy => hpq y (List.mem_cons_of_mem _ hy))
    have hpa := hpq a (List.mem_cons_self ..)
    rw [List.countP_cons, List.countP_cons] at hle
    have hle' : t.countP q ≤ t.countP p := by
      cases hp : p a <;> cases hq : q a <;> simp [hp, hq] at hle hpa <;> omega
    rcases List.mem_cons.1 hx with rfl | hxt
    · cases hp : p x
      · rw [hp, hqx] at hle; simp at hle; omega
      · rfl
    · exact ih (fun y hy => hpq y (List.mem_cons_of_mem _ hy)) hle' x hxt hqx

/-- number of vertices of `S` already collected -/
def reached (S cur : List Nat) : Nat := S.countP (fun v => cur.contains v)

/-- with enough fuel the result is closed -/
theorem reach_closed (n : Nat) : ∀ (cur : List Nat), (∀ x ∈ cur, x ∈ S) →
    S.length ≤ n + reached S cur → Closed edges S (reach edges S n cur) := by
  induction n with
  | zero =>
    intro cur _ hlen x _ y hy _
    have h1 : reached S cur ≤ S.length := List.countP_le_length
    have h2 : S.countP (fun v => cur.contains v) = S.length := by unfold reached at *; omega
    have := List.countP_eq_length.1 h2 y hy
    show y ∈ cur
    simpa using this
  | succ n ih =>
    intro cur hc hlen
    have hmono : reached S cur ≤ reached S (stepL edges S cur) := by
      apply List.countP_mono_left
      intro x _ hx
      simp only [List.contains_iff_mem] at hx ⊢
      exact subset_stepL hc x hx
    by_cases hlt : reached S cur < reached S (stepL edges S cur)
    · rw [reach_succ]
      exact ih _ (stepL_subset cur) (by omega)
    · -- no progress: `cur` is closed already
      have hback : ∀ x ∈ S, x ∈ stepL edges S cur → x ∈ cur := by
        intro x hxS hx
        have := countP_le_imp (p := fun v => cur.contains v)
          (q := fun v => (stepL edges S cur).contains v) S
          (by
            intro y _ hy
            simp only [List.contains_iff_mem] at hy ⊢
            exact subset_stepL hc y hy)
          (by unfold reached at hlt; omega) x hxS (by simpa using hx)
        simpa using this
      have hcl : Closed edges S cur := by
        intro x hx y hy hadj
        exact hback y hy (mem_stepL.2 ⟨hy, Or.inr ⟨x, hx, hadj⟩⟩)
      intro x hx y hy hadj
      rw [reach_fixed (n + 1) cur hc hcl] at hx ⊢
      exact hcl x hx y hy hadj

/-- the executable connectivity test decides connectivity (no distinctness needed) -/
theorem connectedIn_iff_conn (edges : List (Nat × Nat)) (S : List Nat) :
    connectedIn edges S = true ↔ Conn edges S := by
  cases S with
  | nil => simp [connectedIn, Conn]
  | cons c rest =>
    have hc : ∀ x ∈ [c], x ∈ c :: rest := by
      intro x hx; rw [List.mem_singleton.1 hx]; exact List.mem_cons_self ..
    have hcR : c ∈ reach edges (c :: rest) (c :: rest).length [c] :=
      subset_reach _ [c] hc c (List.mem_singleton.2 rfl)
    obtain ⟨q, hq⟩ := reach_eq_filter (edges := edges) (S := c :: rest) rest.length [c]
    have hq' : reach edges (c :: rest) (c :: rest).length [c] = (c :: rest).filter q := hq
    simp only [connectedIn, beq_iff_eq]
    constructor
    · intro hlen
      have hsub : List.Sublist (reach edges (c :: rest) (c :: rest).length [c]) (c :: rest) := by
        rw [hq']; exact List.filter_sublist
      have heq := hsub.eq_of_length hlen
      apply Conn.of_star c
      intro x hx
      apply reach_sound c (c :: rest).length [c]
      · intro y hy; rw [List.mem_singleton.1 hy]; exact Path.refl c (List.mem_cons_self ..)
      · rw [heq]; exact hx
    · intro hconn
      have hcl : Closed edges (c :: rest) (reach edges (c :: rest) (c :: rest).length [c]) :=
        reach_closed _ [c] hc (by omega)
      have hall : ∀ x ∈ c :: rest, q x = true := by
        intro x hx
        have hxR := hcl.path (hconn c (List.mem_cons_self ..) x hx) hcR
        rw [hq'] at hxR
        exact (List.mem_filter.1 hxR).2
      rw [hq', List.filter_eq_self.2 hall]

end PrefVerif.C13
