import PrefVerif.Lemmas.C17AList
import PrefVerif.Lemmas.C17Coarsen
/-!
# C17 helper lemmas, part 3: the assembly loop of `from_ordinal` and `factorise_instance`
-/
namespace PrefVerif.C17
open PrefVerif PrefVerif.Categorical PrefVerif.Spec PrefVerif.Py

/-! ### small list facts -/

theorem eraseDups_of_nodup {α : Type} [BEq α] [LawfulBEq α] (l : List α) (h : l.Nodup) :
    l.eraseDups = l := by
  induction l with
  | nil => rfl
  | cons a l ih =>
    rw [List.nodup_cons] at h
    have hf : l.filter (fun b => !b == a) = l := by
      rw [List.filter_eq_self]
      intro b hb
      have : b ≠ a := fun e => h.1 (e ▸ hb)
      simpa using this
    rw [List.eraseDups_cons, hf, ih h.2]

theorem eraseDups_snoc {α : Type} [BEq α] [LawfulBEq α] (l : List α) (a : α) :
    (l ++ [a]).eraseDups = if a ∈ l then l.eraseDups else l.eraseDups ++ [a] := by
  rw [List.eraseDups_append]
  by_cases h : a ∈ l
  · simp [List.removeAll, h]
  · simp [List.removeAll, h, List.eraseDups_cons]

theorem le_foldl_max (ls : List Nat) (l : Nat) : l ≤ ls.foldl max l ∧ ∀ x ∈ ls, x ≤ ls.foldl max l := by
  induction ls generalizing l with
  | nil => simp
  | cons a ls ih =>
    obtain ⟨h1, h2⟩ := ih (max l a)
    simp only [List.foldl_cons, List.mem_cons]
    refine ⟨by omega, ?_⟩
    rintro x (hx | hx)
    · subst hx; omega
    · exact h2 x hx

theorem rawBallots_length (mode : Mode) (p : Profile)
    (hrel : ∀ per, mode = .relative per → per.length = p.length) :
    (rawBallots mode p).length = p.length := by
  cases mode with
  | size tps => simp [rawBallots]
  | count ns => simp [rawBallots]
  | relative per => simp [rawBallots, hrel per rfl]

/-! ### the assembly loop of `from_ordinal` -/

/-- one iteration of the assembly loop (the `fun` inside `fromOrdinal`) -/
def step (k : Nat) (acc : List Ballot × AList Ballot Nat) (bm : Ballot × Nat) :
    List Ballot × AList Ballot Nat :=
  let b := padTo k bm.1
  if acc.2.contains b then (acc.1, AList.upd acc.2 b 0 (· + bm.2))
  else (acc.1 ++ [b], AList.set acc.2 b bm.2)

/-- total multiplicity of the processed pairs whose padded ballot is `b` -/
def msum (k : Nat) (xs : List (Ballot × Nat)) (b : Ballot) : Nat :=
  ((xs.filter (fun (x : Ballot × Nat) => padTo k x.1 == b)).map (fun (x : Ballot × Nat) => x.2)).sum

theorem msum_snoc (k : Nat) (xs : List (Ballot × Nat)) (x : Ballot × Nat) (b : Ballot) :
    msum k (xs ++ [x]) b = msum k xs b + (if padTo k x.1 = b then x.2 else 0) := by
  by_cases h : padTo k x.1 = b
  · simp [msum, List.filter_append, h]
  · simp [msum, List.filter_append, h]

structure Inv (k : Nat) (acc : List Ballot × AList Ballot Nat) (xs : List (Ballot × Nat)) : Prop where
  keys : AList.keys acc.2 = acc.1
  nodup : acc.1.Nodup
  get : ∀ b, (AList.get? acc.2 b).getD 0 = msum k xs b
  total : (AList.values acc.2).sum = (xs.map (·.2)).sum
  src : ∀ b ∈ acc.1, ∃ x ∈ xs, b = padTo k x.1

theorem Inv.init (k : Nat) : Inv k ([], []) [] :=
  ⟨rfl, List.nodup_nil, fun _ => rfl, rfl, by simp⟩

theorem Inv.step {k : Nat} {acc : List Ballot × AList Ballot Nat} {xs : List (Ballot × Nat)}
    (h : Inv k acc xs) (x : Ballot × Nat) : Inv k (step k acc x) (xs ++ [x]) := by
  obtain ⟨prefs, mult⟩ := acc
  obtain ⟨hk, hn, hg, ht, hs⟩ := h
  simp only at hk hn hg ht hs
  by_cases hc : AList.contains mult (padTo k x.1) = true
  · have hm : padTo k x.1 ∈ AList.keys mult := (contains_iff_mem_keys _ _).1 hc
    have hst : C17.step k (prefs, mult) x = (prefs, AList.upd mult (padTo k x.1) 0 (· + x.2)) := by
      simp [C17.step, hc]
    rw [hst]
    refine ⟨?_, hn, ?_, ?_, ?_⟩
    · simpa [keys_upd_of_mem _ _ _ _ hm] using hk
    · intro b
      rw [msum_snoc]
      by_cases hb : padTo k x.1 = b
      · subst hb
        simp only [get?_upd_same, Option.getD_some, if_true, hg]
      · have hb' : b ≠ padTo k x.1 := fun e => hb e.symm
        simp only [get?_upd_other _ _ _ _ _ hb', hg, hb, if_false, Nat.add_zero]
    · simp only [values_sum_upd_of_mem _ _ _ hm, ht, List.map_append, List.sum_append_nat,
        List.map_cons, List.map_nil, List.sum_cons, List.sum_nil, Nat.add_zero]
    · intro b hb
      obtain ⟨y, hy, hby⟩ := hs b hb
      exact ⟨y, by simp [hy], hby⟩
  · have hm : padTo k x.1 ∉ AList.keys mult := fun e => hc ((contains_iff_mem_keys _ _).2 e)
    have hst : C17.step k (prefs, mult) x = (prefs ++ [padTo k x.1], AList.set mult (padTo k x.1) x.2) := by
      simp [C17.step, hc]
    rw [hst]
    refine ⟨?_, ?_, ?_, ?_, ?_⟩
    · simp only [keys_set_of_not_mem _ _ _ hm, hk]
    · rw [List.nodup_append]
      refine ⟨hn, by simp, ?_⟩
      intro a ha b hb
      simp only [List.mem_singleton] at hb
      subst hb
      intro e; subst e
      exact hm (hk ▸ ha)
    · intro b
      rw [msum_snoc]
      by_cases hb : padTo k x.1 = b
      · subst hb
        have h0 : msum k xs (padTo k x.1) = 0 := by
          rw [← hg, get?_of_not_mem _ _ hm]; rfl
        simp only [get?_set_same, Option.getD_some, if_true, h0, Nat.zero_add]
      · have hb' : b ≠ padTo k x.1 := fun e => hb e.symm
        simp only [get?_set_other _ _ _ _ hb', hg, hb, if_false, Nat.add_zero]
    · simp only [values_sum_set_of_not_mem _ _ _ hm, ht, List.map_append, List.sum_append_nat,
        List.map_cons, List.map_nil, List.sum_cons, List.sum_nil, Nat.add_zero]
    · intro b hb
      simp only [List.mem_append, List.mem_singleton] at hb
      rcases hb with hb | hb
      · obtain ⟨y, hy, hby⟩ := hs b hb
        exact ⟨y, by simp [hy], hby⟩
      · exact ⟨x, by simp, hb⟩

theorem Inv.foldl {k : Nat} (xs : List (Ballot × Nat)) {acc : List Ballot × AList Ballot Nat}
    {pre : List (Ballot × Nat)} (h : Inv k acc pre) :
    Inv k (xs.foldl (C17.step k) acc) (pre ++ xs) := by
  induction xs generalizing acc pre with
  | nil => simpa using h
  | cons x xs ih =>
    have := ih (h.step x)
    simpa using this

/-- the state `fromOrdinal` builds from the loop result -/
def mkState (k : Nat) (r : List Ballot × AList Ballot Nat) : CatState :=
  { preferences := r.1, multiplicity := r.2, numCategories := k,
    numVoters := (AList.values r.2).sum, numUniquePreferences := r.1.eraseDups.length,
    categoryKeys := (List.range k).map (· + 1) }

theorem fromOrdinal_eq (mode : Mode) (p : Profile) (l : Nat) (ls : List Nat)
    (h : (rawBallots mode p).map List.length = l :: ls) :
    fromOrdinal mode p = some (mkState (ls.foldl max l)
      (((rawBallots mode p).zip (p.map (·.2))).foldl (C17.step (ls.foldl max l)) ([], []))) := by
  unfold fromOrdinal
  simp only [h]
  rfl

/-! ### `factorise_instance` -/

def fstep (acc : List Ballot × AList Ballot Nat) (b : Ballot) : List Ballot × AList Ballot Nat :=
  if !acc.2.contains b then (acc.1 ++ [b], AList.set acc.2 b 1)
  else (if acc.1.contains b then acc.1 else acc.1 ++ [b], AList.upd acc.2 b 0 (· + 1))

structure FInv (acc : List Ballot × AList Ballot Nat) (xs : List Ballot) : Prop where
  prefs : acc.1 = xs.eraseDups
  keys : AList.keys acc.2 = acc.1
  get : ∀ b, (AList.get? acc.2 b).getD 0 = xs.count b

theorem FInv.step {acc : List Ballot × AList Ballot Nat} {xs : List Ballot}
    (h : FInv acc xs) (x : Ballot) : FInv (fstep acc x) (xs ++ [x]) := by
  obtain ⟨prefs, mult⟩ := acc
  obtain ⟨hp, hk, hg⟩ := h
  simp only at hp hk hg
  by_cases hc : AList.contains mult x = true
  · have hm : x ∈ AList.keys mult := (contains_iff_mem_keys _ _).1 hc
    have hxp : x ∈ prefs := hk ▸ hm
    have hxs : x ∈ xs := by rw [hp, List.mem_eraseDups] at hxp; exact hxp
    have hst : fstep (prefs, mult) x = (prefs, AList.upd mult x 0 (· + 1)) := by
      simp [fstep, hc, hxp]
    rw [hst]
    refine ⟨?_, ?_, ?_⟩
    · simp only [eraseDups_snoc, hxs, if_true, hp]
    · simpa [keys_upd_of_mem _ _ _ _ hm] using hk
    · intro b
      by_cases hb : x = b
      · subst hb
        simp only [get?_upd_same, Option.getD_some, hg, List.count_append, List.count_singleton_self]
      · have hb' : b ≠ x := fun e => hb e.symm
        simp [get?_upd_other _ _ _ _ _ hb', hg, hb]
  · have hm : x ∉ AList.keys mult := fun e => hc ((contains_iff_mem_keys _ _).2 e)
    have hxp : x ∉ prefs := fun e => hm (hk ▸ e)
    have hxs : x ∉ xs := by rw [hp, List.mem_eraseDups] at hxp; exact hxp
    have hst : fstep (prefs, mult) x = (prefs ++ [x], AList.set mult x 1) := by
      simp [fstep, hc]
    rw [hst]
    refine ⟨?_, ?_, ?_⟩
    · simp only [eraseDups_snoc, hxs, if_false, hp]
    · simp only [keys_set_of_not_mem _ _ _ hm, hk]
    · intro b
      by_cases hb : x = b
      · subst hb
        simp [get?_set_same, List.count_eq_zero_of_not_mem hxs]
      · have hb' : b ≠ x := fun e => hb e.symm
        simp [get?_set_other _ _ _ _ hb', hg, hb]

theorem FInv.foldl (xs : List Ballot) {acc : List Ballot × AList Ballot Nat} {pre : List Ballot}
    (h : FInv acc pre) : FInv (xs.foldl fstep acc) (pre ++ xs) := by
  induction xs generalizing acc pre with
  | nil => simpa using h
  | cons x xs ih =>
    have := ih (h.step x)
    simpa using this

theorem factorise_eq (prefs : List Ballot) (mult : AList Ballot Nat) (reset : Bool) :
    factorise prefs mult reset = prefs.foldl fstep ([], if reset then [] else mult) := rfl

end PrefVerif.C17
