import PrefVerif.Lemmas.C05PQCompleteQ
/-!
Completeness of `set_contiguous`, part 4: both passes over the children, the induction on the fuel
(which suffices as soon as it is at least the number of leaves), and the main loop of `reorder_sets`.
-/
set_option linter.unusedSimpArgs false
namespace PrefVerif.PQTree
open Tree

/-! ### `flatten` keeps every ordering -/

theorem forall2_map_right_self {cs : List Tree} {g : Tree → Tree}
    (h : ∀ c ∈ cs, ∀ f, Fr c f → Fr (g c) f) :
    Forall2 (fun c' c => ∀ f, Fr c' f → Fr c f) cs (cs.map g) := by
  induction cs with
  | nil => exact .nil
  | cons c cs ih =>
    exact .cons (h c List.mem_cons_self) (ih (fun d hd => h d (List.mem_cons_of_mem _ hd)))

theorem fr_flattenRet (t : Tree) : ∀ f, Fr t f → Fr (flattenRet t) f := by
  induction t using Tree.ind with
  | hleaf s => intro f h; simpa [flattenRet] using h
  | hp cs ih =>
    intro f h
    match cs, ih, h with
    | [], _, h => simpa [flattenRet, flattenRetList] using h
    | [c], ih, h =>
      simp only [flattenRet]
      exact ih c (List.mem_singleton.2 rfl) f ((fr_p_singleton c f).1 h)
    | c1 :: c2 :: cs, ih, h =>
      simp only [flattenRet, flattenRetList_eq_map]
      exact fr_p_mono (forall2_map_right_self ih) f h
  | hq cs ih =>
    intro f h
    match cs, ih, h with
    | [], _, h => simpa [flattenRet, flattenRetList] using h
    | [c], ih, h =>
      simp only [flattenRet]
      exact ih c (List.mem_singleton.2 rfl) f ((fr_q_singleton c f).1 h)
    | c1 :: c2 :: cs, ih, h =>
      simp only [flattenRet, flattenRetList_eq_map]
      exact fr_q_mono (forall2_map_right_self ih) f h

/-! ### helpers -/

theorem mapE_of_all {α β : Type} {f : α → Except Err β} {l : List α} (h : ∀ a ∈ l, ∃ b, f a = .ok b) :
    ∃ r, mapE f l = .ok r := by
  induction l with
  | nil => exact ⟨[], rfl⟩
  | cons a as ih =>
    obtain ⟨b, hb⟩ := h a List.mem_cons_self
    obtain ⟨bs, hbs⟩ := ih (fun x hx => h x (List.mem_cons_of_mem _ hx))
    exact ⟨b :: bs, by simp [mapE, hb, hbs]⟩

/-- every child has an ordering with the sets containing `v` on an interval, if the node has one -/
theorem seq_child_vseg {v : Nat} {l : List Tree} {g : List (List Nat)} (hs : Seq l g) (hv : VSeg v g) :
    ∀ a ∈ l, ∃ ga, Fr a ga ∧ VSeg v ga := by
  induction l generalizing g with
  | nil => intro a ha; cases ha
  | cons c cs ih =>
    obtain ⟨g1, g2, rfl, h1, h2⟩ := (seq_cons _ _ _).1 hs
    intro a ha
    rcases List.mem_cons.1 ha with rfl | ha
    · exact ⟨g1, h1, hv.left⟩
    · exact ih h2 hv.right a ha

theorem child_vseg {v : Nat} {t : Tree} {g : List (List Nat)} (hg : Fr t g) (hv : VSeg v g) :
    ∀ a ∈ t.children, ∃ ga, Fr a ga ∧ VSeg v ga := by
  cases t with
  | leaf s => intro a ha; simp [children] at ha
  | p cs =>
    obtain ⟨cs', hp, hs⟩ := (fr_p_iff cs g).1 hg
    intro a ha
    exact seq_child_vseg hs hv a (hp.mem_iff.2 ha)
  | q cs =>
    intro a ha
    rcases (fr_q cs g).1 hg with hs | hs
    · exact seq_child_vseg hs hv a ha
    · exact seq_child_vseg hs hv.reverse a ha

theorem length_frontier_child_lt {cs : List Tree} {a : Tree} (ha : a ∈ cs) (h2 : 2 ≤ cs.length)
    (hne : ∀ c ∈ cs, frontier c ≠ []) : (frontier a).length < (frontierList cs).length := by
  obtain ⟨l₁, l₂, rfl⟩ := List.append_of_mem ha
  simp only [frontierList_append, frontierList_cons, List.length_append]
  have hpos : ∀ c ∈ l₁ ++ a :: l₂, 0 < (frontier c).length :=
    fun c hc => List.length_pos_iff.2 (hne c hc)
  cases l₁ with
  | nil =>
    cases l₂ with
    | nil => simp at h2
    | cons b l₂' =>
      have := hpos b (by simp)
      simp only [frontierList_nil, List.length_nil, frontierList_cons, List.length_append]
      omega
  | cons b l₁' =>
    have := hpos b (by simp)
    simp only [frontierList_cons, List.length_append]
    omega

/-! ### the induction on the fuel -/

def SCComplete (v fuel : Nat) : Prop :=
  ∀ t : Tree, Flat t → (frontier t).Nodup →
    (∀ t' f', setContiguous v fuel t = .ok (t', f') → CompleteOut v t t' f') ∧
    ((frontier t).length ≤ fuel → (∃ g, Fr t g ∧ VSeg v g) → ∃ out, setContiguous v fuel t = .ok out)

theorem pairC_of {v fuel : Nat} (ih : SCComplete v fuel) {a : Tree} {r : Tree × Flag} (hflat : Flat a)
    (hnd : (frontier a).Nodup)
    (h : ∃ b, setContiguous v fuel a = .ok b ∧ setContiguous v fuel (flattenRet b.1) = .ok r) : PairC v a r := by
  obtain ⟨b, hb, hr⟩ := h
  obtain ⟨ok1, perm1⟩ := setContiguous_ok v fuel a b.1 b.2 hflat.wf hnd hb
  have c1 := (ih a hflat hnd).1 b.1 b.2 hb
  have hflat2 : Flat (flattenRet b.1) := flat_flattenRet ok1.wf
  have hfr2 : frontier (flattenRet b.1) = frontier b.1 := frontier_flattenRet b.1
  have hnd2 : (frontier (flattenRet b.1)).Nodup := by rw [hfr2]; exact perm1.symm.nodup hnd
  have c2 := (ih _ hflat2 hnd2).1 r.1 r.2 hr
  have hstep : ∀ g, Fr a g → VSeg v g → Fr (flattenRet b.1) g :=
    fun g hg hv => fr_flattenRet _ g (c1.keep g hg hv)
  exact ⟨fun g hg hv => c2.keep g (hstep g hg hv) hv, fun hf g hg hv => c2.pu hf g (hstep g hg hv) hv,
    fun hf g hg hs => c2.pa hf g (hstep g hg hs.vseg) hs⟩

/-- both passes succeed on every child that has an ordering with the sets containing `v` on an interval -/
theorem passes_ok {v fuel : Nat} (ih : SCComplete v fuel) {cs : List Tree} (hflat : ∀ c ∈ cs, Flat c)
    (hnd : (frontierList cs).Nodup) (hlen : ∀ c ∈ cs, (frontier c).length ≤ fuel)
    (hex : ∀ c ∈ cs, ∃ g, Fr c g ∧ VSeg v g) :
    ∃ r1 rs, mapE (setContiguous v fuel) cs = .ok r1 ∧
      mapE (setContiguous v fuel) ((r1.map (·.1)).map flattenRet) = .ok rs := by
  obtain ⟨r1, hr1⟩ := mapE_of_all (f := setContiguous v fuel) (l := cs)
    (fun a ha => (ih a (hflat a ha) (nodup_frontier_of_mem ha hnd)).2 (hlen a ha) (hex a ha))
  refine ⟨r1, ?_⟩
  have hf := mapE_ok hr1
  have h2 : ∀ c ∈ (r1.map (·.1)).map flattenRet, ∃ out, setContiguous v fuel c = .ok out := by
    intro c hc
    simp only [List.map_map, List.mem_map, Function.comp] at hc
    obtain ⟨b, hb, rfl⟩ := hc
    obtain ⟨a, ha, hab⟩ := hf.exists_left b hb
    have hfa := hflat a ha
    have hnda := nodup_frontier_of_mem ha hnd
    obtain ⟨ok1, perm1⟩ := setContiguous_ok v fuel a b.1 b.2 hfa.wf hnda hab
    have c1 := (ih a hfa hnda).1 b.1 b.2 hab
    have hfr2 : frontier (flattenRet b.1) = frontier b.1 := frontier_flattenRet b.1
    obtain ⟨g, hg, hv⟩ := hex a ha
    refine (ih _ (flat_flattenRet ok1.wf) (by rw [hfr2]; exact perm1.symm.nodup hnda)).2 ?_
      ⟨g, fr_flattenRet _ g (c1.keep g hg hv), hv⟩
    rw [hfr2, perm1.length_eq]
    exact hlen a ha
  obtain ⟨rs, hrs⟩ := mapE_of_all h2
  exact ⟨rs, hr1, hrs⟩

theorem setContiguous_complete (v : Nat) : ∀ fuel, SCComplete v fuel := by
  intro fuel
  induction fuel with
  | zero =>
    intro t hflat _
    refine ⟨fun t' f' h => by simp [setContiguous] at h, fun hlen _ => ?_⟩
    exact absurd (List.eq_nil_of_length_eq_zero (Nat.le_zero.1 hlen)) (frontier_ne_nil hflat.wf)
  | succ fuel ih =>
    intro t hflat hnd
    cases t with
    | leaf s =>
      refine ⟨fun t' f' h => ?_, fun _ _ => ⟨_, rfl⟩⟩
      simp only [setContiguous, Except.ok.injEq, Prod.mk.injEq] at h
      obtain ⟨rfl, rfl⟩ := h
      refine ⟨fun g hg _ => hg, fun hf => ?_, fun hf => ?_⟩ <;> (split at hf <;> cases hf)
    | p cs =>
      obtain ⟨h2, hall⟩ := (flat_p cs).1 hflat
      simp only [frontier_p] at hnd
      have hpairsOf : ∀ {r1 rs : List (Tree × Flag)}, mapE (setContiguous v fuel) cs = .ok r1 →
          mapE (setContiguous v fuel) (flattenChildren (r1.map (·.1))) = .ok rs →
          Forall2 (fun a r => Pair v a r ∧ PairC v a r) cs rs ∧
            (frontierList (rs.map (·.1))).Nodup := by
        intro r1 rs hr1 hrs
        have hr1len : 2 ≤ (r1.map (·.1)).length := by
          have := (mapE_ok hr1).length_eq
          simp only [List.length_map]; omega
        rw [flattenChildren_of_two hr1len] at hrs
        have hp : Forall2 (fun a r => Pair v a r ∧ PairC v a r) cs rs :=
          (twoPass hr1 hrs).mono (fun a ha r hr =>
            ⟨pair_of (setContiguous_sound v fuel) (hall a ha) (nodup_frontier_of_mem ha hnd) hr,
             pairC_of ih (hall a ha) (nodup_frontier_of_mem ha hnd) hr⟩)
        exact ⟨hp, (pairs_frontier (hp.mono (fun _ _ _ h => h.1))).symm.nodup hnd⟩
      constructor
      · intro t' f' h
        simp only [setContiguous] at h
        split at h
        · cases h
        rename_i r1 hr1
        split at h
        · cases h
        rename_i rs hrs
        obtain ⟨hp, hndrs⟩ := hpairsOf hr1 hrs
        exact restructureP_complete hp hndrs h
      · intro hlen hex
        obtain ⟨g, hg, hv⟩ := hex
        have hlenc : ∀ c ∈ cs, (frontier c).length ≤ fuel := by
          intro c hc
          have := length_frontier_child_lt hc h2 (fun d hd => frontier_ne_nil (hall d hd).wf)
          simp only [frontier_p] at hlen
          omega
        obtain ⟨r1, rs, hr1, hrs⟩ := passes_ok ih hall hnd hlenc (child_vseg (t := .p cs) hg hv)
        have hr1len : 2 ≤ (r1.map (·.1)).length := by
          have := (mapE_ok hr1).length_eq
          simp only [List.length_map]; omega
        have hrs' : mapE (setContiguous v fuel) (flattenChildren (r1.map (·.1))) = .ok rs := by
          rw [flattenChildren_of_two hr1len]; exact hrs
        obtain ⟨hp, _⟩ := hpairsOf hr1 hrs'
        obtain ⟨out, hout⟩ := restructureP_noerr hp ⟨g, hg, hv⟩
        exact ⟨out, by simp only [setContiguous, hr1, hrs', hout]⟩
    | q cs =>
      obtain ⟨h2, hall⟩ := (flat_q cs).1 hflat
      simp only [frontier_q] at hnd
      have hpairsOf : ∀ {r1 rs : List (Tree × Flag)}, mapE (setContiguous v fuel) cs = .ok r1 →
          mapE (setContiguous v fuel) (flattenChildren (r1.map (·.1))) = .ok rs →
          Forall2 (fun a r => Pair v a r ∧ PairC v a r) cs rs ∧
            (frontierList (rs.map (·.1))).Nodup ∧ 2 ≤ rs.length := by
        intro r1 rs hr1 hrs
        have hr1len : 2 ≤ (r1.map (·.1)).length := by
          have := (mapE_ok hr1).length_eq
          simp only [List.length_map]; omega
        rw [flattenChildren_of_two hr1len] at hrs
        have hp : Forall2 (fun a r => Pair v a r ∧ PairC v a r) cs rs :=
          (twoPass hr1 hrs).mono (fun a ha r hr =>
            ⟨pair_of (setContiguous_sound v fuel) (hall a ha) (nodup_frontier_of_mem ha hnd) hr,
             pairC_of ih (hall a ha) (nodup_frontier_of_mem ha hnd) hr⟩)
        exact ⟨hp, (pairs_frontier (hp.mono (fun _ _ _ h => h.1))).symm.nodup hnd,
          by have := hp.length_eq; omega⟩
      constructor
      · intro t' f' h
        simp only [setContiguous] at h
        split at h
        · cases h
        rename_i r1 hr1
        split at h
        · cases h
        rename_i rs hrs
        obtain ⟨hp, hndrs, hrslen⟩ := hpairsOf hr1 hrs
        exact restructureQ_complete hp hrslen hndrs h
      · intro hlen hex
        obtain ⟨g, hg, hv⟩ := hex
        have hlenc : ∀ c ∈ cs, (frontier c).length ≤ fuel := by
          intro c hc
          have := length_frontier_child_lt hc h2 (fun d hd => frontier_ne_nil (hall d hd).wf)
          simp only [frontier_q] at hlen
          omega
        obtain ⟨r1, rs, hr1, hrs⟩ := passes_ok ih hall hnd hlenc (child_vseg (t := .q cs) hg hv)
        have hr1len : 2 ≤ (r1.map (·.1)).length := by
          have := (mapE_ok hr1).length_eq
          simp only [List.length_map]; omega
        have hrs' : mapE (setContiguous v fuel) (flattenChildren (r1.map (·.1))) = .ok rs := by
          rw [flattenChildren_of_two hr1len]; exact hrs
        obtain ⟨hp, _, hrslen⟩ := hpairsOf hr1 hrs'
        obtain ⟨out, hout⟩ := restructureQ_noerr hp (by intro hn; simp [hn] at hrslen) ⟨g, hg, hv⟩
        exact ⟨out, by simp only [setContiguous, hr1, hrs', hout]⟩

/-! ### the main loop -/

theorem isPQ_of_two_leaves {t : Tree} (h : 2 ≤ (frontier t).length) : t.isPQ = true := by
  cases t with
  | leaf s => simp at h
  | p cs => rfl
  | q cs => rfl

/-- an ordering with every element of `elems` on an interval survives the main loop, which does not raise -/
theorem mainLoop_complete {fuel : Nat} {elems : List Nat} {t : Tree} {G : List (List Nat)} (hflat : Flat t)
    (hnd : (frontier t).Nodup) (hlen : (frontier t).length ≤ fuel) (h2 : 2 ≤ (frontier t).length)
    (hG : Fr t G) (hv : ∀ u ∈ elems, VSeg u G) :
    ∃ t', mainLoop fuel elems t = .ok t' ∧ t'.isPQ = true := by
  induction elems generalizing t with
  | nil => exact ⟨t, rfl, isPQ_of_two_leaves h2⟩
  | cons i rest ih =>
    obtain ⟨c1, c2⟩ := setContiguous_complete i fuel t hflat hnd
    obtain ⟨r, hr⟩ := c2 hlen ⟨G, hG, hv i List.mem_cons_self⟩
    obtain ⟨ok1, perm1⟩ := setContiguous_ok i fuel t r.1 r.2 hflat.wf hnd hr
    have hfr := frontier_flattenRet r.1
    have hG' : Fr (flattenRet r.1) G :=
      fr_flattenRet _ G ((c1 r.1 r.2 hr).keep G hG (hv i List.mem_cons_self))
    obtain ⟨t', ht', hpq⟩ := ih (t := flattenRet r.1) (flat_flattenRet ok1.wf)
      (by rw [hfr]; exact perm1.symm.nodup hnd) (by rw [hfr, perm1.length_eq]; exact hlen)
      (by rw [hfr, perm1.length_eq]; exact h2) hG' (fun u hu => hv u (List.mem_cons_of_mem _ hu))
    refine ⟨t', ?_, hpq⟩
    have hpq0 := isPQ_of_two_leaves h2
    cases t with
    | leaf s => simp [isPQ] at hpq0
    | p cs => simp only [mainLoop, hr]; exact ht'
    | q cs => simp only [mainLoop, hr]; exact ht'

theorem seq_map_leaf (G : List (List Nat)) : Seq (G.map .leaf) G := by
  induction G with
  | nil => exact (seq_nil _).2 rfl
  | cons s G ih =>
    simp only [List.map_cons]
    exact (seq_cons _ _ _).2 ⟨[s], G, rfl, (fr_leaf s _).2 rfl, ih⟩

end PrefVerif.PQTree
