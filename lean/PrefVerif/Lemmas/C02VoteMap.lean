import PrefVerif.Lemmas.C02Step
/-! `append_vote_map`, the sampler wrapper and `populate_*`. -/
namespace PrefVerif.C02
open PrefVerif PrefVerif.Ordinal PrefVerif.Spec PrefVerif.Py

/-- the loop body of `append_vote_map` -/
def vmBody (s : OrdState) (bm : Order × Nat) : OrdState :=
  let o := bm.1
  let s := if !s.orders.contains o then
      { s with orders := s.orders ++ [o], multiplicity := AList.set s.multiplicity o bm.2 }
    else { s with multiplicity := AList.upd s.multiplicity o 0 (· + bm.2) }
  { s with numVoters := s.numVoters + bm.2, altKeys := o.flatten.foldl addAlt s.altKeys }

theorem appendVoteMap_eq (s : OrdState) (vm : List (Order × Nat)) :
    appendVoteMap s vm =
      { vm.foldl vmBody s with
        numAlternatives := (vm.foldl vmBody s).altKeys.length,
        numUniqueOrders := (vm.foldl vmBody s).multiplicity.length,
        dataType := inferType { vm.foldl vmBody s with
          numAlternatives := (vm.foldl vmBody s).altKeys.length,
          numUniqueOrders := (vm.foldl vmBody s).multiplicity.length } } := rfl

theorem alts_replicate (o : Order) (m : Nat) (hm : 1 ≤ m) :
    ∀ a, a ∈ o.flatten ↔ ∃ o' ∈ List.replicate m o, a ∈ o'.flatten := by
  intro a
  simp only [List.mem_replicate]
  constructor
  · intro h; exact ⟨o, ⟨by omega, rfl⟩, h⟩
  · rintro ⟨o', ⟨_, rfl⟩, h⟩; exact h

theorem vmBody_mid (s : OrdState) (bm : Order × Nat) (v : List Order) (h : Mid s v) (hm : 1 ≤ bm.2) :
    Mid (vmBody s bm) (v ++ List.replicate bm.2 bm.1) := by
  obtain ⟨o, m⟩ := bm
  simp only at hm
  have halts := alts_step h.alts (alts_replicate o m hm)
  have hnd := nodup_foldl_addAlt o.flatten s.altKeys h.altsNodup
  unfold vmBody
  simp only
  split
  · next hc =>
    have ho : o ∉ s.orders := by simpa using hc
    refine ⟨h.core.add_new o m hm ho, ?_, halts, hnd⟩
    show s.numVoters + m = _
    rw [h.voters]; simp
  · next hc =>
    have ho : o ∈ s.orders := by simpa using hc
    refine ⟨h.core.add_old o m ho, ?_, halts, hnd⟩
    show s.numVoters + m = _
    rw [h.voters]; simp

theorem foldl_vmBody_mid (vm : List (Order × Nat)) (s : OrdState) (v : List Order) (h : Mid s v)
    (hm : ∀ bm ∈ vm, 1 ≤ bm.2) :
    Mid (vm.foldl vmBody s) (v ++ vm.flatMap (fun bm => List.replicate bm.2 bm.1)) := by
  induction vm generalizing s v with
  | nil => simpa using h
  | cons bm vm ih =>
    rw [List.foldl_cons, List.flatMap_cons, ← List.append_assoc]
    exact ih _ _ (vmBody_mid s bm v h (hm bm (List.mem_cons_self ..)))
      (fun b hb => hm b (List.mem_cons_of_mem _ hb))

theorem appendVoteMap_pre (s : OrdState) (vm : List (Order × Nat)) (v : List Order) (h : Mid s v)
    (hm : ∀ bm ∈ vm, 1 ≤ bm.2) :
    Pre (appendVoteMap s vm) (v ++ votesOfOp (.voteMap vm)) := by
  have hmid := foldl_vmBody_mid vm s v h hm
  rw [appendVoteMap_eq]
  refine ⟨⟨hmid.core, hmid.voters, hmid.alts, hmid.altsNodup⟩, ?_, rfl⟩
  show (vm.foldl vmBody s).multiplicity.length = (vm.foldl vmBody s).orders.length
  rw [← hmid.core.keys, length_keys]

/-! ### the sampler wrapper -/

theorem samplerWrapper_core_aux (vs : List (List Nat)) (acc : List (Order × Nat)) (w : List Order)
    (h : Core (AList.keys acc) acc w) (hm : ∀ p ∈ acc, 1 ≤ p.2) :
    let vm := vs.foldl (fun vm v => AList.upd vm (v.map (fun a => [a])) 0 (· + 1)) acc
    Core (AList.keys vm) vm (w ++ vs.map (fun o => o.map (fun a => [a]))) ∧ ∀ p ∈ vm, 1 ≤ p.2 := by
  induction vs generalizing acc w with
  | nil =>
    simp only [List.foldl_nil, List.map_nil, List.append_nil]
    exact ⟨h, hm⟩
  | cons x vs ih =>
    simp only [List.foldl_cons, List.map_cons]
    have hm' : ∀ p ∈ AList.upd acc (x.map (fun a => [a])) 0 (· + 1), 1 ≤ p.2 := by
      intro p hp
      unfold AList.upd at hp
      rcases mem_set _ _ _ _ hp with hp | hp
      · exact hm p hp
      · simp only at hp; omega
    have hc : Core (AList.keys (AList.upd acc (x.map (fun a => [a])) 0 (· + 1)))
        (AList.upd acc (x.map (fun a => [a])) 0 (· + 1)) (w ++ [x.map (fun a => [a])]) := by
      by_cases hx : x.map (fun a => [a]) ∈ AList.keys acc
      · have c := h.add_old _ 1 hx
        have hk := c.keys
        rw [← hk] at c
        exact c
      · have c := h.add_new _ 1 (Nat.le_refl 1) hx
        have hu : AList.upd acc (x.map (fun a => [a])) 0 (· + 1)
            = AList.set acc (x.map (fun a => [a])) 1 := by
          unfold AList.upd
          rw [get?_eq_none_of_not_mem _ _ hx]
          rfl
        rw [hu]
        have hk := c.keys
        rw [← hk] at c
        exact c
    have := ih _ _ hc hm'
    simpa using this

theorem samplerWrapper_core (vs : List (List Nat)) :
    Core (AList.keys (samplerWrapper vs)) (samplerWrapper vs) (vs.map (fun o => o.map (fun a => [a]))) ∧
    ∀ p ∈ samplerWrapper vs, 1 ≤ p.2 := by
  have := samplerWrapper_core_aux vs [] [] Core.nil (by simp)
  simpa [samplerWrapper] using this

/-- the vote map built by the wrapper expands to a permutation of the sampled votes -/
theorem samplerWrapper_perm (vs : List (List Nat)) :
    (votesOfOp (.voteMap (samplerWrapper vs))).Perm (votesOfOp (.sample vs)) := by
  obtain ⟨c, _⟩ := samplerWrapper_core vs
  rw [List.perm_iff_count]
  intro o
  show ((samplerWrapper vs).flatMap (fun bm => List.replicate bm.2 bm.1)).count o = _
  rw [count_voteMap _ c.nodup, c.cnt o]
  rfl

theorem populate_pre (s : OrdState) (vs : List (List Nat)) (v : List Order) (h : Mid s v) :
    Pre (populate s vs) (v ++ votesOfOp (.sample vs)) := by
  unfold populate
  exact (appendVoteMap_pre s _ v h (samplerWrapper_core vs).2).perm
    (List.Perm.append_left v (samplerWrapper_perm vs))

/-! ### one step of the state machine -/

theorem step_pre (s : OrdState) (op : Op) (v : List Order) (h : Pre s v) (hwf : wfOp op = true) :
    Pre (step s op) (v ++ votesOfOp op) := by
  cases op with
  | order o =>
    show Pre (appendOrder s o) _
    rw [appendOrder_eq]; exact appendOrderList_pre s _ v h
  | array os =>
    show Pre (appendOrderArray s os) _
    rw [appendOrderArray_eq]; exact appendOrderList_pre s _ v h
  | list os => exact appendOrderList_pre s os v h
  | voteMap vm =>
    apply appendVoteMap_pre s vm v h.mid
    intro bm hbm
    simp only [wfOp, Bool.and_eq_true, List.all_eq_true, decide_eq_true_eq] at hwf
    exact (hwf.1 bm hbm).2
  | sample vs => exact populate_pre s vs v h.mid

end PrefVerif.C02
