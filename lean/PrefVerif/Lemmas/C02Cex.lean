import PrefVerif.Lemmas.C02Sanity
/-! Machine-checked counterexamples to the unguarded forms of the C02 statements. -/
namespace PrefVerif.C02
open PrefVerif PrefVerif.Ordinal PrefVerif.Spec PrefVerif.Py

/-- a fresh instance says `"toi"`, the specification (and `infer_type()` itself) says `"soc"`:
`Consistent (run []) (votesOfHistory [])` fails in its `type` field -/
theorem cex_invariant_nil :
    (run []).dataType = "toi" ∧ typeOfVotes (run []).numAlternatives (votesOfHistory []) = "soc" ∧
    inferType (run []) = "soc" ∧ ¬ Consistent (run []) (votesOfHistory []) := by
  refine ⟨by decide, by decide, by decide, fun h => ?_⟩
  have := h.type
  revert this
  decide

/-- the empty history and the history `[append_order_array([])]` add the same (empty) multiset of
votes, are both well-formed, and end with different `data_type` -/
theorem cex_regroup_nil :
    (∀ op ∈ [Op.array []], wfOp op = true) ∧
    (votesOfHistory []).Perm (votesOfHistory [Op.array []]) ∧
    (run []).dataType ≠ (run [Op.array []]).dataType := by
  refine ⟨by decide, ?_, by decide⟩
  exact List.Perm.refl _

/-- a state consistent with the single (ill-formed) empty vote on which `infer_type()` answers
`"toc"` while `data_type = typeOfVotes = "soc"` -/
def cexState : OrdState :=
  { altKeys := [], numAlternatives := 0, numVoters := 1, orders := [[]],
    multiplicity := [([], 1)], numUniqueOrders := 1, dataType := "soc" }

theorem cex_inferType_eq : Consistent cexState [[]] ∧ inferType cexState ≠ cexState.dataType := by
  refine ⟨⟨?_, rfl, by simp [cexState], fun o => Iff.rfl, rfl, rfl, ?_, by simp [cexState], rfl,
    by decide⟩, by decide⟩
  · intro o
    cases o with
    | nil => rfl
    | cons c o => simp [cexState, AList.get?]
  · intro a
    simp [cexState]

end PrefVerif.C02
