import PrefVerif.Lemmas.C05PQSoundP
/-!
Soundness of `set_contiguous`, part 3: the loop and the restructuring step of `Q.set_contiguous`.
-/
set_option linter.unusedSimpArgs false
namespace PrefVerif.PQTree
open Tree

theorem rootSettled_flattenRet_q {v : Nat} {l : List Tree} (h2 : 2 ≤ l.length) :
    RootSettled v (flattenRet (.q l)) := by
  match l, h2 with
  | c1 :: c2 :: rest, _ => simp only [flattenRet]; exact rootSettled_q v _

theorem select_reverse (f : Flag) (rs : List (Tree × Flag)) : select f rs.reverse = (select f rs).reverse := by
  simp [select, List.filter_reverse]

theorem select_len_all {f : Flag} {rs : List (Tree × Flag)} (h : ∀ r ∈ rs, r.2 = f) :
    (select f rs).length = rs.length := by
  induction rs with
  | nil => simp [select]
  | cons r rs ih =>
    rw [select_cons, if_pos (h r List.mem_cons_self)]
    simp [ih (fun r' hr' => h r' (List.mem_cons_of_mem _ hr'))]

theorem exists_flag_ne {f : Flag} {rs : List (Tree × Flag)} (h : (select f rs).length ≠ rs.length) :
    ∃ r ∈ rs, r.2 ≠ f := by
  apply Classical.byContradiction
  intro hn
  apply h
  apply select_len_all
  intro r hr
  apply Classical.byContradiction
  intro hne
  exact hn ⟨r, hr, hne⟩

/-- invariant of the loop of `Q.set_contiguous`: the new children are trees without `v`, then trees full
of `v`, then (once the right end has been seen) trees without `v` -/
structure QInv (v : Nat) (st : QLoop) (done : List Tree) : Prop where
  shape : ∃ Le Lf Le', st.newChildren = Le ++ Lf ++ Le' ∧ (∀ c ∈ Le, VFree v c) ∧ (∀ c ∈ Lf, AllV v c) ∧
    (∀ c ∈ Le', VFree v c) ∧ (st.seenNonempty = true ↔ Lf ≠ []) ∧ (st.seenRightEnd = false → Le' = [])
  sub : ∀ g, Seq st.newChildren g → Seq done g
  len : done.length ≤ st.newChildren.length

theorem seq_append_mono {A A' X : List Tree} {i : Tree} (hA : ∀ g, Seq A g → Seq A' g)
    (hX : ∀ g, Seq X g → Fr i g) : ∀ g, Seq (A ++ X) g → Seq (A' ++ [i]) g := by
  intro g hg
  obtain ⟨g1, g2, rfl, h1, h2⟩ := (seq_append _ _ _).1 hg
  exact (seq_append _ _ _).2 ⟨g1, g2, rfl, hA g1 h1, (seq_singleton _ _).2 (hX g2 h2)⟩

theorem qStep_inv {v : Nat} {st st' : QLoop} {done : List Tree} {i : Tree} {f : Flag}
    (hinv : QInv v st done) (hi : ChildS v i f) (h : qStep v st (i, f) = .ok st') :
    QInv v st' (done ++ [i]) := by
  obtain ⟨⟨Le, Lf, Le', hnc, hLe, hLf, hLe', hsn, hsre⟩, hsub, hlen⟩ := hinv
  rcases qStep_shape h with ⟨rfl, rfl⟩ | ⟨rfl, hr, rfl⟩ | ⟨rfl, hr, hn, rfl⟩ | ⟨rfl, hr, hn, rfl⟩
  · -- an empty child
    have hvi : VFree v i := hi.vfree
    refine ⟨?_, seq_append_mono hsub (fun g hg => (seq_singleton _ _).1 hg), by simp; omega⟩
    by_cases hsn' : st.seenNonempty = true
    · refine ⟨Le, Lf, Le' ++ [i], by simp [hnc], hLe, hLf, ?_, hsn, by simp [hsn']⟩
      intro c hc
      rcases List.mem_append.1 hc with hc | hc
      · exact hLe' c hc
      · simp only [List.mem_singleton] at hc; subst hc; exact hvi
    · have hLf0 : Lf = [] := by
        apply Classical.byContradiction; intro hne; exact hsn' (hsn.2 hne)
      by_cases hre : st.seenRightEnd = true
      · refine ⟨Le, Lf, Le' ++ [i], by simp [hnc], hLe, hLf, ?_, hsn, by simp [hsn', hre]⟩
        intro c hc
        rcases List.mem_append.1 hc with hc | hc
        · exact hLe' c hc
        · simp only [List.mem_singleton] at hc; subst hc; exact hvi
      · have hre' : st.seenRightEnd = false := by simpa using hre
        have hLe'0 := hsre hre'
        subst hLf0 hLe'0
        refine ⟨Le ++ [i], [], [], by simp [hnc], ?_, by simp, by simp, hsn, by simp⟩
        intro c hc
        rcases List.mem_append.1 hc with hc | hc
        · exact hLe c hc
        · simp only [List.mem_singleton] at hc; subst hc; exact hvi
  · -- a full child
    have hLe'0 := hsre hr
    subst hLe'0
    refine ⟨⟨Le, Lf ++ [i], [], by simp [hnc], hLe, ?_, by simp, by simp, by simp⟩,
      seq_append_mono hsub (fun g hg => (seq_singleton _ _).1 hg), by simp; omega⟩
    intro c hc
    rcases List.mem_append.1 hc with hc | hc
    · exact hLf c hc
    · simp only [List.mem_singleton] at hc; subst hc; exact hi.allV
  · -- the right partial child
    have hLe'0 := hsre hr
    subst hLe'0
    obtain ⟨_, hpure⟩ := hi.pa rfl
    have hndr : (frontier (Tree.reverse i)).Nodup := by
      rw [frontier_reverse]; exact (List.reverse_perm _).symm.nodup hi.nd
    have hpl : PureL v (simplify v false (Tree.reverse i)) := by
      rw [simplify_reverse v (hi.ok.simp rfl) hi.nd]; exact pure_reverseList hpure
    obtain ⟨Lfi, Lei, hL, hne1, hne2, h1, h2⟩ := hpl
    refine ⟨⟨Le, Lf ++ Lfi, Lei, by simp [hnc, hL], hLe, ?_, h1, by simp [hne2], by simp⟩,
      seq_append_mono hsub (fun g hg => fr_of_reverse i g
        (seq_simplify v false (simpOK_reverse (hi.ok.simp rfl)) hndr g hg)), ?_⟩
    · intro c hc
      rcases List.mem_append.1 hc with hc | hc
      · exact hLf c hc
      · exact h2 c hc
    · have := List.length_pos_iff.2 hne1
      simp only [List.length_append, List.length_cons, List.length_nil, hL]; omega
  · -- the left partial child
    have hLe'0 := hsre hr
    subst hLe'0
    have hLf0 : Lf = [] := by
      apply Classical.byContradiction; intro hne
      have := hsn.2 hne
      rw [hn] at this; cases this
    subst hLf0
    obtain ⟨_, hpure⟩ := hi.pa rfl
    obtain ⟨Lei, Lfi, hL, hne1, hne2, h1, h2⟩ := hpure
    refine ⟨⟨Le ++ Lei, Lfi, [], by simp [hnc, hL], ?_, h2, by simp, by simp [hne2], by simp⟩,
      seq_append_mono hsub (fun g hg => seq_simplify v true (hi.ok.simp rfl) hi.nd g hg), ?_⟩
    · intro c hc
      rcases List.mem_append.1 hc with hc | hc
      · exact hLe c hc
      · exact h1 c hc
    · have := List.length_pos_iff.2 hne1
      simp only [List.length_append, List.length_cons, List.length_nil, hL]; omega

theorem qLoop_inv {v : Nat} {rs : List (Tree × Flag)} {st st' : QLoop} {done : List Tree}
    (hinv : QInv v st done) (hch : ∀ r ∈ rs, ChildS v r.1 r.2) (h : qLoop v st rs = .ok st') :
    QInv v st' (done ++ rs.map (·.1)) := by
  induction rs generalizing st done with
  | nil =>
    simp only [qLoop, Except.ok.injEq] at h
    subst h
    simpa using hinv
  | cons r rs ih =>
    obtain ⟨i, f⟩ := r
    simp only [qLoop] at h
    split at h
    · cases h
    rename_i st1 hst1
    have h1 := qStep_inv hinv (hch (i, f) List.mem_cons_self) hst1
    have h2 := ih h1 (fun r hr => hch r (List.mem_cons_of_mem _ hr)) h
    simpa using h2

theorem simplify_q_append_last {v : Nat} {A : List Tree} {c : Tree} (hA : ∀ a ∈ A, synPartial v a = false)
    (hc : synPartial v c = true) : simplify v true (.q (A ++ [c])) = A ++ simplify v true c := by
  simp only [simplify, simplifyQ_eq, List.flatMap_append, List.flatMap_cons, List.flatMap_nil,
    List.append_nil, hc, if_true]
  congr 1
  have := simplify_q_noSyn (right := true) hA
  simpa only [simplify, simplifyQ_eq] using this

/-- the restructuring step of `Q.set_contiguous` is sound -/
theorem restructureQ_sound {v : Nat} {rs : List (Tree × Flag)} {t' : Tree} {f' : Flag}
    (hlen : 2 ≤ rs.length) (hch : ∀ r ∈ rs, ChildS v r.1 r.2) (hnd : (frontierList (rs.map (·.1))).Nodup)
    (h : restructureQ v rs = .ok (t', f')) : SoundOut v (.q (rs.map (·.1))) t' f' := by
  obtain ⟨hok', hperm'⟩ := restructureQ_ok (fun r hr => (hch r hr).ok) hnd h
  obtain ⟨rs', hrs', hne, hshape⟩ := restructureQ_shape h
  have hmem : ∀ r, r ∈ rs' ↔ r ∈ rs := by
    intro r; rcases hrs' with rfl | rfl <;> simp
  have hch' : ∀ r ∈ rs', ChildS v r.1 r.2 := fun r hr => hch r ((hmem r).1 hr)
  have hlen' : rs'.length = rs.length := by rcases hrs' with rfl | rfl <;> simp
  have hsell : ∀ f, (select f rs').length = (select f rs).length := by
    intro f; rcases hrs' with rfl | rfl
    · rfl
    · simp [select_reverse]
  have hsub0 : ∀ g, Fr (.q (rs'.map (·.1))) g → Fr (.q (rs.map (·.1))) g := by
    rcases hrs' with rfl | rfl
    · exact fun g hg => hg
    · intro g hg
      rw [List.map_reverse] at hg
      exact fr_q_reverse _ g hg
  have hcs'len : 2 ≤ (rs'.map (·.1)).length := by simp [hlen', hlen]
  have hpartOf : (∃ r ∈ rs, ∃ s ∈ frontier r.1, v ∈ s) → (∃ r ∈ rs, ∃ s ∈ frontier r.1, v ∉ s) →
      (∃ s ∈ frontier t', v ∈ s) ∧ (∃ s ∈ frontier t', v ∉ s) := by
    rintro ⟨r, hr, s, hs, hv⟩ ⟨r', hr', s', hs', hv'⟩
    exact ⟨⟨s, hperm'.mem_iff.2 (mem_frontierList.2 ⟨r.1, List.mem_map.2 ⟨r, hr, rfl⟩, hs⟩), hv⟩,
      ⟨s', hperm'.mem_iff.2 (mem_frontierList.2 ⟨r'.1, List.mem_map.2 ⟨r', hr', rfl⟩, hs'⟩), hv'⟩⟩
  -- a child whose flag is not FULL has a leaf without `v`; not EMPTY: a leaf with `v`
  have hleafN : ∀ r ∈ rs, r.2 ≠ .full → ∃ s ∈ frontier r.1, v ∉ s := by
    intro r hr hf
    have hc := hch r hr
    obtain ⟨c, f⟩ := r
    cases f
    · exact absurd rfl hf
    · obtain ⟨s, hs⟩ := List.exists_mem_of_ne_nil _ (frontier_ne_nil hc.ok.wf)
      exact ⟨s, hs, hc.vfree s hs⟩
    · exact (hc.part (.inl rfl)).2
    · exact (hc.part (.inr rfl)).2
  have hleafV : ∀ r ∈ rs, r.2 ≠ .empty → ∃ s ∈ frontier r.1, v ∈ s := by
    intro r hr hf
    have hc := hch r hr
    obtain ⟨c, f⟩ := r
    cases f
    · obtain ⟨s, hs⟩ := List.exists_mem_of_ne_nil _ (frontier_ne_nil hc.ok.wf)
      exact ⟨s, hs, hc.allV s hs⟩
    · exact absurd rfl hf
    · exact (hc.part (.inl rfl)).1
    · exact (hc.part (.inr rfl)).1
  -- a node with a unique non-empty child `x`
  have huniq : ∀ f, f ≠ .empty → (select f rs).length = 1 → (select .empty rs).length + 1 = rs.length →
      ∃ A x B, rs' = A ++ (x, f) :: B ∧ (∀ r ∈ A, r.2 = .empty) ∧ (∀ r ∈ B, r.2 = .empty) ∧
        ∀ g, Fr (.q (rs'.map (·.1))) g → VSeg v g := by
    intro f hf h1 h2
    obtain ⟨A, x, B, hAB, hA, hB⟩ := split_unique (rs := rs') hf (by rw [hsell]; exact h1)
      (by rw [hsell, hlen']; exact h2)
    refine ⟨A, x, B, hAB, hA, hB, ?_⟩
    have hx : ChildS v x f := hch' (x, f) (by rw [hAB]; simp)
    have hAv : ∀ c ∈ A.map (·.1), VFree v c := by
      intro c hc
      obtain ⟨r, hr, rfl⟩ := List.mem_map.1 hc
      have := hch' r (by rw [hAB]; exact List.mem_append.2 (.inl hr))
      rw [hA r hr] at this
      exact this.vfree
    have hBv : ∀ c ∈ B.map (·.1), VFree v c := by
      intro c hc
      obtain ⟨r, hr, rfl⟩ := List.mem_map.1 hc
      have := hch' r (by rw [hAB]; exact List.mem_append.2 (.inr (List.mem_cons_of_mem _ hr)))
      rw [hB r hr] at this
      exact this.vfree
    intro g hg
    rw [hAB] at hg
    simp only [List.map_append, List.map_cons] at hg
    rcases (fr_q _ g).1 hg with hs | hs
    · exact vseg_seq_one hAv hBv hx.seg hs
    · exact (vseg_seq_one hAv hBv hx.seg hs).of_reverse
  rcases hshape with ⟨_, rfl, rfl⟩ | ⟨_, rfl, rfl⟩ | ⟨hpu, hE1, rfl, rfl⟩ | ⟨hpa, hE1, rfl, hf⟩ |
    ⟨hPU, hPA2, hFn, hEn, st, hst, rfl, rfl⟩
  · have hall : AllV v (.q (rs'.map (·.1))) := hok'.full rfl
    exact ⟨hsub0, fun g hg => (hall.fr hg).vseg, by simp, rootSettled_flattenRet_q hcs'len, by simp⟩
  · have hall : VFree v (.q (rs'.map (·.1))) := hok'.empty rfl
    exact ⟨hsub0, fun g hg => (hall.fr hg).vseg, by simp, rootSettled_flattenRet_q hcs'len, by simp⟩
  · obtain ⟨A, x, B, hAB, _, _, hseg⟩ := huniq .partialUnaligned (by simp) hpu hE1
    have hxr : (x, Flag.partialUnaligned) ∈ rs := (hmem _).1 (by rw [hAB]; simp)
    refine ⟨hsub0, hseg, fun _ => ?_, rootSettled_flattenRet_q hcs'len, by simp⟩
    exact hpartOf ⟨_, hxr, hleafV _ hxr (by simp)⟩ ⟨_, hxr, hleafN _ hxr (by simp)⟩
  · obtain ⟨A, c0, B, hAB, hA, hB, hseg⟩ := huniq .partialAligned (by simp) hpa hE1
    have hxr : (c0, Flag.partialAligned) ∈ rs := (hmem _).1 (by rw [hAB]; simp)
    have hc0 := hch _ hxr
    refine ⟨hsub0, hseg, fun _ => ?_, rootSettled_flattenRet_q hcs'len, fun _ hfa => ?_⟩
    · exact hpartOf ⟨_, hxr, hleafV _ hxr (by simp)⟩ ⟨_, hxr, hleafN _ hxr (by simp)⟩
    · subst hfa
      rcases hf with ⟨_, hlast⟩ | hf
      · -- the partial child is the last one
        have hB0 : B = [] := by
          apply Classical.byContradiction
          intro hBne
          have hl : rs'.getLast? = B.getLast? := by
            rw [hAB, List.getLast?_append]
            cases hb : ((c0, Flag.partialAligned) :: B).getLast? with
            | none => simp at hb
            | some x =>
              rw [List.getLast?_cons_of_ne_nil hBne] at hb
              simp [hb]
          obtain ⟨b, hb⟩ : ∃ b, B.getLast? = some b := by
            cases hb : B.getLast? with
            | none => exact absurd (List.getLast?_eq_none_iff.1 hb) hBne
            | some b => exact ⟨b, rfl⟩
          rw [hl, hb] at hlast
          simp only [Option.map_some, Option.some.injEq] at hlast
          have := hB b (List.mem_of_getLast? hb)
          rw [this] at hlast; cases hlast
        subst hB0
        have hAne : A ≠ [] := by
          intro hA0
          rw [hAB, hA0] at hlen'
          simp at hlen'; omega
        obtain ⟨hsyn0, hpure0⟩ := hc0.pa rfl
        have hAm : ∀ a ∈ A.map (·.1), mem v a = false := by
          intro c hc
          obtain ⟨r, hr, rfl⟩ := List.mem_map.1 hc
          have := hch' r (by rw [hAB]; exact List.mem_append.2 (.inl hr))
          rw [hA r hr] at this
          exact vfree_iff.1 this.vfree
        have hm0 : mem v c0 = true := by
          simp only [synPartial, Bool.and_eq_true] at hsyn0; exact hsyn0.1.2
        rw [hAB]
        simp only [List.map_append, List.map_cons, List.map_nil]
        refine ⟨?_, ?_⟩
        · simp only [synPartial, isPQ, children, Bool.true_and, Bool.and_eq_true, mem, memList_eq_any,
            anyNotMem_eq_any, List.any_append, List.any_cons, List.any_nil, Bool.or_false, hm0, Bool.or_true,
            Bool.not_true, true_and, Bool.or_eq_true, List.any_eq_true, Bool.not_eq_true', Bool.false_eq_true,
            or_false]
          obtain ⟨a, ha⟩ := List.exists_mem_of_ne_nil _ (by simpa using hAne : A.map (·.1) ≠ [])
          exact ⟨a, ha, hAm a ha⟩
        · rw [simplify_q_append_last (fun a ha => synPartial_of_not_mem (hAm a ha)) hsyn0]
          obtain ⟨Le, Lf, hL, hLe, hLf, h1, h2⟩ := hpure0
          refine ⟨A.map (·.1) ++ Le, Lf, by rw [hL]; simp, by simp [hLe], hLf, ?_, h2⟩
          intro c hc
          rcases List.mem_append.1 hc with hc | hc
          · exact vfree_iff.2 (hAm c hc)
          · exact h1 c hc
      · cases hf
  · -- the loop
    have hnd' : (frontierList (rs'.map (·.1))).Nodup := by
      rcases hrs' with rfl | rfl
      · exact hnd
      · rw [List.map_reverse]
        exact (frontierList_perm (List.reverse_perm _)).symm.nodup hnd
    obtain ⟨_, hns, _⟩ := qLoop_ok (st := ⟨[], false, false⟩) (fun r hr => (hch' r hr).ok) hnd'
      (by simp) (by simp) hst
    have hinv0 : QInv v ⟨[], false, false⟩ [] :=
      ⟨⟨[], [], [], by simp, by simp, by simp, by simp, by simp, by simp⟩, fun g hg => hg, by simp⟩
    have hinv := qLoop_inv hinv0 hch' hst
    simp only [List.nil_append] at hinv
    obtain ⟨⟨Le, Lf, Le', hnc, hLe, hLf, hLe', hsn, hsre⟩, hsub, hlenc⟩ := hinv
    have hpart : (∃ s ∈ frontier (.q st.newChildren), v ∈ s) ∧ (∃ s ∈ frontier (.q st.newChildren), v ∉ s) := by
      obtain ⟨r1, hr1, hf1⟩ := exists_flag_ne hFn
      obtain ⟨r2, hr2, hf2⟩ := exists_flag_ne hEn
      exact hpartOf ⟨r2, hr2, hleafV r2 hr2 hf2⟩ ⟨r1, hr1, hleafN r1 hr1 hf1⟩
    have hnclen : 2 ≤ st.newChildren.length := by
      simp only [List.length_map] at hlenc hcs'len; omega
    refine ⟨fun g hg => hsub0 g ?_, ?_, fun _ => hpart, rootSettled_flattenRet_q hnclen, fun _ hfa => ?_⟩
    · rcases (fr_q _ g).1 hg with hs | hs
      · exact (fr_q _ g).2 (.inl (hsub g hs))
      · exact (fr_q _ g).2 (.inr (hsub _ hs))
    · rw [hnc]; exact vseg_q_blocks hLe hLf hLe'
    · have hre : st.seenRightEnd = false := by
        cases hb : st.seenRightEnd with
        | false => rfl
        | true => rw [hb] at hfa; simp at hfa
      have hLe'0 := hsre hre
      subst hLe'0
      simp only [List.append_nil] at hnc
      obtain ⟨⟨s, hs, hv⟩, ⟨s', hs', hv'⟩⟩ := hpart
      simp only [frontier_q, hnc, frontierList_append] at hs hs'
      have hLfne : Lf ≠ [] := by
        rcases List.mem_append.1 hs with hs | hs
        · obtain ⟨c, hc, hsc⟩ := mem_frontierList.1 hs
          exact absurd hv (hLe c hc s hsc)
        · intro h0; rw [h0] at hs; simp at hs
      have hLene : Le ≠ [] := by
        rcases List.mem_append.1 hs' with hs' | hs'
        · intro h0; rw [h0] at hs'; simp at hs'
        · obtain ⟨c, hc, hsc⟩ := mem_frontierList.1 hs'
          exact absurd (hLf c hc s' hsc) hv'
      refine ⟨?_, ?_⟩
      · have hm : mem v (.q st.newChildren) = true := by
          rw [mem_iff]; exact ⟨s, by simp only [frontier_q, hnc, frontierList_append]; exact hs, hv⟩
        simp only [synPartial, isPQ, children, Bool.true_and, Bool.and_eq_true, hm, true_and,
          anyNotMem_eq_any, List.any_eq_true, Bool.not_eq_true']
        obtain ⟨e, he⟩ := List.exists_mem_of_ne_nil _ hLene
        exact ⟨e, by rw [hnc]; exact List.mem_append.2 (.inl he), vfree_iff.1 (hLe e he)⟩
      · rw [simplify_q_noSyn hns]
        exact ⟨Le, Lf, hnc, hLene, hLfne, hLe, hLf⟩

end PrefVerif.PQTree
