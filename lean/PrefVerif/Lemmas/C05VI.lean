import PrefVerif.Lemmas.C05CI
import PrefVerif.Lemmas.C05Extremal
/-!
# C05 helper lemmas, part 12: voter interval and voter extremal interval (transposed matrix)
-/
namespace PrefVerif.C05
open PrefVerif PrefVerif.Dichotomous PrefVerif.Spec PrefVerif.Spec.Approval

theorem mem_approvers (approved : List (List Nat)) (a r : Nat) :
    r ∈ approvers approved a ↔ ∃ h : r < approved.length, a ∈ approved[r] := by
  simp only [approvers, List.mem_map, List.mem_filter]
  constructor
  · rintro ⟨⟨s, i⟩, ⟨hm, hs⟩, rfl⟩
    rw [List.mem_zipIdx_iff_getElem?] at hm
    simp only at hm hs ⊢
    obtain ⟨h, he⟩ := List.getElem?_eq_some_iff.1 hm
    exact ⟨h, by rw [he]; simpa using hs⟩
  · rintro ⟨h, ha⟩
    exact ⟨(approved[r], r), ⟨by rw [List.mem_zipIdx_iff_getElem?]; simp [h], by simpa using ha⟩, rfl⟩

/-- the transposed matrix has one row per alternative: the indicator of its approvers -/
theorem transpose_ciMatrix (alts : List Nat) (approved : List (List Nat)) :
    transpose (ciMatrix alts approved) alts.length =
      alts.map (fun a => approved.map (fun app => if app.contains a then 1 else 0)) := by
  unfold transpose ciMatrix
  apply List.ext_getElem
  · simp
  · intro i h1 h2
    have hi : i < alts.length := by simpa using h2
    simp only [List.getElem_map, List.getElem_range, List.map_map]
    apply List.map_congr_left
    intro app _
    simp only [Function.comp]
    rw [List.getD_eq_getElem?_getD, List.getElem?_map, List.getElem?_eq_getElem hi]
    rfl

theorem rowsOK_transpose (alts : List Nat) (approved : List (List Nat)) (ord : List Nat) :
    RowsOK (transpose (ciMatrix alts approved) alts.length) ord ↔
      ∀ a ∈ alts, Interval (fun r => r ∈ approvers approved a) ord := by
  rw [transpose_ciMatrix]
  simp only [RowsOK, List.mem_map, forall_exists_index, and_imp, forall_apply_eq_imp_iff₂]
  refine forall_congr' fun a => imp_congr_right fun _ => ?_
  apply interval_congr_iff
  intro r
  rw [mem_rowOnes_ind approved (fun app => app.contains a) r, mem_approvers]
  simp

theorem rowsOK_complement_transpose (alts : List Nat) (approved : List (List Nat)) (ord : List Nat)
    (hp : ord.Perm (List.range approved.length)) :
    RowsOK (complement (transpose (ciMatrix alts approved) alts.length)) ord ↔
      ∀ a ∈ alts, Interval (fun r => ¬ r ∈ approvers approved a) ord := by
  rw [transpose_ciMatrix]
  simp only [RowsOK, complement, List.mem_map, forall_exists_index, and_imp, forall_apply_eq_imp_iff₂]
  refine forall_congr' fun a => imp_congr_right fun _ => ?_
  have hc : ∀ r ∈ ord, (r ∈ rowOnes ((approved.map (fun app => if app.contains a then 1 else 0)).map
      (fun v => 1 - v)) ↔ ¬ r ∈ approvers approved a) := by
    intro r hr
    have hlt : r < approved.length := by simpa using hp.subset hr
    rw [mem_rowOnes_compl_ind approved (fun app => app.contains a) r, mem_approvers]
    simp [hlt]
  exact ⟨fun hi => hi.congr hc, fun hi => hi.congr (fun r hr => (hc r hr).symm)⟩

theorem viWitness_iff (alts : List Nat) (approved : List (List Nat)) (ord : List Nat) :
    viWitness alts approved ord = true ↔
      ord.Perm (List.range approved.length) ∧ ∀ a ∈ alts, Interval (fun r => r ∈ approvers approved a) ord := by
  simp only [viWitness, Bool.and_eq_true, isPermOf_range_iff, List.all_eq_true, contiguous_iff_interval]

theorem veiWitness_iff (alts : List Nat) (approved : List (List Nat)) (ord : List Nat) :
    veiWitness alts approved ord = true ↔
      ord.Perm (List.range approved.length) ∧ ∀ a ∈ alts,
        (Interval (fun r => r ∈ approvers approved a) ord ∧ Interval (fun r => ¬ r ∈ approvers approved a) ord) := by
  simp only [veiWitness, Bool.and_eq_true, isPermOf_range_iff, List.all_eq_true, extremal_iff]

theorem voterInterval_spec (solver : Solver) (hs : SolverOKI solver) (alts : List Nat)
    (approved : List (List Nat)) :
    (∀ order, isVoterInterval solver alts approved = some order → viWitness alts approved order = true) ∧
    (isVoterInterval solver alts approved = none → ¬ ∃ order, viWitness alts approved order = true) := by
  obtain ⟨h1, h2⟩ := solveC1_spec solver hs (transpose (ciMatrix alts approved) alts.length) approved.length
  simp only [viWitness_iff, ← rowsOK_transpose]
  exact ⟨h1, h2⟩

theorem voterExtremalInterval_spec (solver : Solver) (hs : SolverOKI solver) (alts : List Nat)
    (approved : List (List Nat)) :
    (∀ order, isVoterExtremalInterval solver alts approved = some order →
        veiWitness alts approved order = true) ∧
    (isVoterExtremalInterval solver alts approved = none →
        ¬ ∃ order, veiWitness alts approved order = true) := by
  obtain ⟨h1, h2⟩ := solveC1_spec solver hs
    (transpose (ciMatrix alts approved) alts.length ++
      complement (transpose (ciMatrix alts approved) alts.length)) approved.length
  have key : ∀ ord : List Nat, ord.Perm (List.range approved.length) →
      (RowsOK (transpose (ciMatrix alts approved) alts.length ++
        complement (transpose (ciMatrix alts approved) alts.length)) ord ↔
      ∀ a ∈ alts, (Interval (fun r => r ∈ approvers approved a) ord ∧
        Interval (fun r => ¬ r ∈ approvers approved a) ord)) := by
    intro ord hp
    rw [rowsOK_append, rowsOK_transpose, rowsOK_complement_transpose alts approved ord hp]
    exact ⟨fun h a ha => ⟨h.1 a ha, h.2 a ha⟩, fun h => ⟨fun a ha => (h a ha).1, fun a ha => (h a ha).2⟩⟩
  simp only [veiWitness_iff]
  constructor
  · intro ord ho
    obtain ⟨hp, hr⟩ := h1 ord ho
    exact ⟨hp, (key ord hp).1 hr⟩
  · intro hn
    rintro ⟨ord, hp, hw⟩
    exact h2 hn ⟨ord, hp, (key ord hp).2 hw⟩

end PrefVerif.C05
