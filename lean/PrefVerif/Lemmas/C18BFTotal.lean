import PrefVerif.Lemmas.C18BFPairUp
import PrefVerif.Lemmas.C18BFDfs
/-!
With `k ≥ ⌈m/2⌉` the search always finds a partition: some branch pairs up the alternatives of each step
(a pair on a fresh axis never fails, and neither does a single alternative on an axis that carries exactly one
alternative), keeping at most one axis with a single alternative.
-/
namespace PrefVerif.C18BF
open PrefVerif.KAlt PrefVerif.KAltBF PrefVerif.C12DP

/-! ### the folds of `dfs` keep and reach `Some` answers -/

theorem foldl_reach {α β : Type} (P : β → Prop) (f : β → α → β) (l : List α) (x : α) (hx : x ∈ l)
    (hpres : ∀ b a, P b → P (f b a)) (hx' : ∀ b, P (f b x)) (b : β) : P (l.foldl f b) := by
  induction l generalizing b with
  | nil => cases hx
  | cons y ys ih =>
    rw [List.foldl_cons]
    by_cases hyx : y = x
    · subst hyx
      exact foldl_inv P f ys _ (hx' b) (fun b a _ hb => hpres b a hb)
    · apply ih
      simp only [List.mem_cons] at hx
      rcases hx with rfl | hx
      · exact absurd rfl hyx
      · exact hx

theorem dfsInner_some (m k : Nat) (L : List (List (List (List Nat)))) (votes : List (List Nat)) (fuel i : Nat)
    (sh : Option (List Axis)) (ax : List Axis) (h : sh.isSome = true) :
    (dfsInner m k L votes fuel i sh ax).isSome = true := by
  unfold dfsInner
  split
  · split
    · split
      · rfl
      · exact h
    · exact h
  · exact h

theorem dfsInner_reach (m k : Nat) (L : List (List (List (List Nat)))) (votes : List (List Nat)) (fuel i : Nat)
    (sh : Option (List Axis)) (ax : List Axis)
    (h : ∀ sh', (dfs m k L votes fuel (i + 1) ax sh').isSome = true) :
    (dfsInner m k L votes fuel i sh ax).isSome = true := by
  cases sh with
  | some s => exact dfsInner_some m k L votes fuel i (some s) ax rfl
  | none =>
    unfold dfsInner
    have h1 := h none
    cases hd : dfs m k L votes fuel (i + 1) ax none with
    | none => rw [hd] at h1; cases h1
    | some c => simp [better]

theorem dfsOuter_some (m k : Nat) (L : List (List (List (List Nat)))) (votes : List (List Nat)) (fuel i : Nat)
    (axes : List Axis) (sh : Option (List Axis)) (ext : List (List Nat)) (h : sh.isSome = true) :
    (dfsOuter m k L votes fuel i axes sh ext).isSome = true := by
  unfold dfsOuter
  split
  · exact h
  · exact foldl_inv (fun s => s.isSome = true) _ _ _ h (fun b a _ hb => dfsInner_some m k L votes fuel i b a hb)

theorem dfsOuter_reach (m k : Nat) (L : List (List (List (List Nat)))) (votes : List (List Nat)) (fuel i : Nat)
    (axes : List Axis) (sh : Option (List Axis)) (ext : List (List Nat)) (hle : ext.length ≤ k)
    (ax : List Axis) (hax : ax ∈ extend axes ext votes k)
    (h : ∀ sh', (dfs m k L votes fuel (i + 1) ax sh').isSome = true) :
    (dfsOuter m k L votes fuel i axes sh ext).isSome = true := by
  unfold dfsOuter
  rw [if_neg (by omega)]
  exact foldl_reach (fun s => s.isSome = true) _ _ ax hax
    (fun b a hb => dfsInner_some m k L votes fuel i b a hb)
    (fun b => dfsInner_reach m k L votes fuel i b ax h) sh

/-- one step of `dfs` that has a branch leading to an answer -/
theorem dfs_reach (m k : Nat) (L : List (List (List (List Nat)))) (votes : List (List Nat)) (fuel i : Nat)
    (axes : List Axis) (sh : Option (List Axis)) (him : i ≠ m) (ext : List (List Nat)) (hext : ext ∈ L.getD i [])
    (hle : ext.length ≤ k) (ax : List Axis) (hax : ax ∈ extend axes ext votes k)
    (h : ∀ sh', (dfs m k L votes fuel (i + 1) ax sh').isSome = true) :
    (dfs m k L votes (fuel + 1) i axes sh).isSome = true := by
  rw [dfs_succ, if_neg (by simpa using him)]
  exact foldl_reach (fun s => s.isSome = true) _ _ ext hext
    (fun b a hb => dfsOuter_some m k L votes fuel i axes b a hb)
    (fun b => dfsOuter_reach m k L votes fuel i axes b ext hle ax hax h) sh

/-! ### placements that never fail -/

/-- the new axis `place([None], alt, votes)[0]` -/
def freshAxis (votes : List (List Nat)) (b : List Nat) : Axis := (place [none] b votes).1

theorem fresh_ne (votes : List (List Nat)) (b : List Nat) (hne : b ≠ []) (hlen : b.length ≤ 2) :
    (freshAxis votes b != [none]) = true := by
  have h := (place_none b votes hne hlen).2
  unfold freshAxis
  simp only [bne_iff_ne, ne_eq]
  intro e
  rw [e] at h
  simp at h

theorem fresh_single (votes : List (List Nat)) (x : Nat) : freshAxis votes [x] = [some x, none] := rfl

theorem bnd_open (a : Nat) : boundary [some a, none] = (none, some a, none, none) := by
  simp [boundary, List.idxOf_cons]

theorem loop_open (a x : Nat) (votes : List (List Nat)) (d : Bool) :
    ∃ d', case3Loop (none, some a, none, none) x votes (false, d) = some (false, d') := by
  induction votes generalizing d with
  | nil => exact ⟨d, rfl⟩
  | cons v vs ih =>
    unfold case3Loop
    simp only [bndIdx, Option.map_none, Option.map_some, Option.isSome_none, Option.isSome_some, Bool.and_false,
      Bool.false_and, Bool.or_self, Bool.false_eq_true, if_false, ltO]
    exact ih _

/-- a single alternative can always be added to an axis that carries exactly one alternative -/
theorem place_open (a x : Nat) (votes : List (List Nat)) :
    ((place [some a, none] [x] votes).1 != [some a, none]) = true := by
  have hlen : (place [some a, none] [x] votes).1.length = 3 := by
    unfold place case3
    rw [bnd_open]
    obtain ⟨d', hd⟩ := loop_open a x votes false
    simp only [Option.isSome_none, Option.isSome_some, Bool.true_or, if_true, hd]
    split <;> simp [List.idxOf_cons]
  simp only [bne_iff_ne, ne_eq]
  intro e
  rw [e] at hlen
  simp at hlen

/-! ### `extend`: following the chosen placements through the queue -/

theorem extendStep_fresh (votes : List (List Nat)) (k : Nat) (queue : List QEntry) (U V : List Axis)
    (b : List Nat) (he : (U, V) ∈ queue) (hne : b ≠ []) (hlen : b.length ≤ 2) (hcnt : U.length + V.length < k) :
    (U, V ++ [freshAxis votes b]) ∈ extendStep votes k queue b := by
  unfold extendStep
  rw [List.mem_flatMap]
  refine ⟨(U, V), he, ?_⟩
  unfold extendEntry
  dsimp only
  rw [List.mem_append]
  right
  rw [if_pos hcnt]
  have := fresh_ne votes b hne hlen
  unfold freshAxis at this
  rw [if_pos this]
  simp [freshAxis]

theorem extendFold_fresh (votes : List (List Nat)) (k : Nat) (bs : List (List Nat))
    (hbs : ∀ b ∈ bs, b ≠ [] ∧ b.length ≤ 2) (queue : List QEntry) (U V : List Axis) (he : (U, V) ∈ queue)
    (hcnt : U.length + V.length + bs.length ≤ k) :
    (U, V ++ bs.map (freshAxis votes)) ∈ bs.foldl (extendStep votes k) queue := by
  induction bs generalizing queue V with
  | nil => simpa using he
  | cons b bs ih =>
    rw [List.foldl_cons]
    simp only [List.length_cons] at hcnt
    have h1 := extendStep_fresh votes k queue U V b he (hbs b (by simp)).1 (hbs b (by simp)).2 (by omega)
    have := ih (fun b' hb' => hbs b' (by simp [hb'])) _ (V ++ [freshAxis votes b]) h1
      (by simp only [List.length_append, List.length_cons, List.length_nil]; omega)
    simpa using this

theorem extendStep_open (votes : List (List Nat)) (k : Nat) (queue : List QEntry) (U V : List Axis) (A : Axis)
    (hA : A ∈ U) (b : List Nat) (hne : ((place A b votes).1 != A) = true) (he : (U, V) ∈ queue) :
    (U.filter (fun a => a != A), V ++ [(place A b votes).1]) ∈ extendStep votes k queue b := by
  unfold extendStep
  rw [List.mem_flatMap]
  refine ⟨(U, V), he, ?_⟩
  unfold extendEntry
  dsimp only
  rw [List.mem_append]
  left
  rw [List.mem_filterMap]
  exact ⟨A, hA, by rw [if_pos hne]⟩

/-! ### the branch -/

/-- `2 * len(axes) ≤ n`, or `≤ n + 1` with an axis carrying exactly one alternative -/
def Good (axes : List Axis) (n : Nat) : Prop :=
  axes.length * 2 ≤ n ∨ (axes.length * 2 ≤ n + 1 ∧ ∃ a, [some a, none] ∈ axes)

theorem fresh_pairUp_good (votes : List (List Nat)) (base : List Axis) (T : List Nat) (n c : Nat)
    (hbase : base.length * 2 ≤ c) (hc : c ≤ n) :
    Good (base ++ (pairUp T).map (freshAxis votes)) (n + T.length) := by
  obtain ⟨_, h2, _⟩ := pairUp_spec T
  by_cases hodd : T.length % 2 = 1
  · right
    refine ⟨by simp only [List.length_append, List.length_map, h2]; omega, ?_⟩
    obtain ⟨x, hx⟩ := pairUp_odd T hodd
    refine ⟨x, ?_⟩
    rw [List.mem_append]
    right
    rw [List.mem_map]
    exact ⟨[x], hx, fresh_single votes x⟩
  · left
    simp only [List.length_append, List.length_map, h2]
    omega

/-- one step: some extension and some way of placing it keep `Good` -/
theorem level_step (votes : List (List Nat)) (k m : Nat) (axes : List Axis) (n : Nat) (T : List Nat)
    (hnd : T.Nodup) (hg : Good axes n) (hnm : n + T.length ≤ m) (hk : (m + 1) / 2 ≤ k) :
    ∃ ext ∈ singletonPairCombinations T, ext.length ≤ k ∧
      ∃ ax ∈ extend axes ext votes k, Good ax (n + T.length) := by
  have newAxes : ∀ (T' : List Nat), T'.Nodup → ∀ (queue : List QEntry) (U V : List Axis), (U, V) ∈ queue →
      U.length + V.length + (pairUp T').length ≤ k →
      (U, V ++ (pairUp T').map (freshAxis votes)) ∈ (pairUp T').foldl (extendStep votes k) queue := by
    intro T' _ queue U V he hcnt
    exact extendFold_fresh votes k (pairUp T') (pairUp_spec T').2.2 queue U V he hcnt
  -- no axis with a single alternative is used: everything goes to new axes
  have caseA : axes.length * 2 ≤ n → ∃ ext ∈ singletonPairCombinations T, ext.length ≤ k ∧
      ∃ ax ∈ extend axes ext votes k, Good ax (n + T.length) := by
    intro hA
    obtain ⟨_, h2, _⟩ := pairUp_spec T
    refine ⟨pairUp T, pairUp_mem_spc T hnd, by omega, axes ++ (pairUp T).map (freshAxis votes), ?_, ?_⟩
    · unfold extend
      dsimp only
      rw [List.mem_map]
      refine ⟨(axes, [] ++ (pairUp T).map (freshAxis votes)), ?_, by simp⟩
      exact newAxes T hnd [(axes, [])] axes [] (by simp) (by simp only [List.length_nil]; omega)
    · exact fresh_pairUp_good votes axes T n n hA (Nat.le_refl _)
  rcases hg with hA | ⟨hB, a, haA⟩
  · exact caseA hA
  · cases T with
    | nil =>
      refine ⟨[], by simp [spc_nil], Nat.zero_le _, axes, ?_, Or.inr ⟨hB, a, haA⟩⟩
      simp [extend]
    | cons x T' =>
      have hndT' : T'.Nodup := (List.nodup_cons.1 hnd).2
      obtain ⟨_, h2, _⟩ := pairUp_spec T'
      have hpos : 0 < axes.length := List.length_pos_iff.2 (List.ne_nil_of_mem haA)
      have hflt : (List.filter (α := Axis) (fun b => b != [some a, none]) axes).length < axes.length := by
        rw [List.length_filter_lt_length_iff_exists]
        exact ⟨_, haA, by simp⟩
      simp only [List.length_cons] at hnm
      refine ⟨[x] :: pairUp T', single_pairUp_mem_spc x T' hndT', by simp only [List.length_cons]; omega,
        List.filter (α := Axis) (fun b => b != [some a, none]) axes ++
          ([(place [some a, none] [x] votes).1] ++ (pairUp T').map (freshAxis votes)), ?_, ?_⟩
      · unfold extend
        dsimp only
        rw [List.mem_map]
        refine ⟨(List.filter (α := Axis) (fun b => b != [some a, none]) axes,
          [(place [some a, none] [x] votes).1] ++ (pairUp T').map (freshAxis votes)), ?_, rfl⟩
        rw [List.foldl_cons]
        apply newAxes T' hndT'
        · have := extendStep_open votes k [(axes, [])] axes [] [some a, none] haA [x]
            (place_open a x votes) (by simp)
          simpa using this
        · simp only [List.length_cons, List.length_nil]
          omega
      · rw [← List.append_assoc]
        have := fresh_pairUp_good votes
          (List.filter (α := Axis) (fun b => b != [some a, none]) axes ++ [(place [some a, none] [x] votes).1]) T' (n + 1) (n + 1)
          (by simp only [List.length_append, List.length_cons, List.length_nil]; omega) (Nat.le_refl _)
        simp only [List.length_cons]
        rw [show n + (T'.length + 1) = n + 1 + T'.length by omega]
        exact this

/-- with `k ≥ ⌈m/2⌉`, from a `Good` list of axes `dfs` returns an answer -/
theorem dfs_total (votes : List (List Nat)) (k : Nat) (Ts : List (List Nat)) (hnd : ∀ T ∈ Ts, T.Nodup)
    (hk : (Ts.flatten.length + 1) / 2 ≤ k) (m : Nat) (hm : m = Ts.length) (fuel i : Nat) (axes : List Axis)
    (sh : Option (List Axis)) (hi : i ≤ m) (hfuel : m - i < fuel) (hg : Good axes (Ts.take i).flatten.length) :
    (dfs m k (Ts.map singletonPairCombinations) votes fuel i axes sh).isSome = true := by
  induction fuel generalizing i axes sh with
  | zero => omega
  | succ fuel ih =>
    by_cases him : i = m
    · rw [dfs_succ, if_pos (by simpa using him)]; rfl
    · have hlt : i < Ts.length := by omega
      have hnext : (Ts.take (i + 1)).flatten.length = (Ts.take i).flatten.length + Ts[i].length := by
        rw [take_succ_flatten Ts i hlt, List.length_append]
      have hle : (Ts.take (i + 1)).flatten.length ≤ Ts.flatten.length := by
        conv => rhs; rw [← List.take_append_drop (i + 1) Ts, List.flatten_append, List.length_append]
        omega
      obtain ⟨ext, hext, hlen, ax, hax, hgood⟩ := level_step votes k Ts.flatten.length axes _ Ts[i]
        (hnd _ (List.getElem_mem hlt)) hg (by omega) hk
      apply dfs_reach m k _ votes fuel i axes sh him ext ?_ hlen ax hax
      · intro sh'
        apply ih (i + 1) ax sh' (by omega) (by omega)
        rw [hnext]; exact hgood
      · rw [List.getD_eq_getElem?_getD, List.getElem?_map, List.getElem?_eq_getElem hlt]
        exact hext

end PrefVerif.C18BF
