import PrefVerif.Lemmas.IOParse
/-!
# The header loop, and folding `parse_metadata` over the written header

* `headerLoop` over header lines followed by a first non-`#` line returns the index of that line;
* generic `foldlM` helpers (`Except`): every step succeeds; lifting a fold on `Header` to a fold
  on an instance that contains a header;
* folding `parseMetadata` over the stripped lines of `writeMetadata` / `writeAltNames`.
-/
namespace PrefVerif.IOL
open PrefVerif.Py PrefVerif.InstanceIO PrefVerif.Spec.IO

/-! ## generic `foldlM` in `Except` -/

theorem foldlM_map_ok {ι σ ε : Type} (L : List ι) (φ : ι → Str) (step : σ → Str → Except ε σ)
    (g : σ → ι → σ) (h : ∀ x ∈ L, ∀ a, step a (φ x) = .ok (g a x)) (a : σ) :
    (L.map φ).foldlM step a = .ok (L.foldl g a) := by
  induction L generalizing a with
  | nil => rfl
  | cons x L ih =>
    simp only [List.map_cons, List.foldlM_cons, List.foldl_cons, h x (by simp) a]
    exact ih (fun y hy => h y (by simp [hy])) _

/-- a fold on a component `τ` of the state, lifted to the whole state through `put` -/
theorem foldlM_lift {σ τ ε : Type} (step : τ → Str → Except ε τ) (step' : σ → Str → Except ε σ)
    (put : τ → σ) (ls : List Str) (h : ∀ l ∈ ls, ∀ a, step' (put a) l = (step a l).map put) (a : τ) :
    ls.foldlM step' (put a) = (ls.foldlM step a).map put := by
  induction ls generalizing a with
  | nil => rfl
  | cons l ls ih =>
    simp only [List.foldlM_cons, h l (by simp) a]
    cases hst : step a l with
    | error e => rfl
    | ok b => exact ih (fun y hy => h y (by simp [hy])) b

theorem foldlM_append_ok {σ ε : Type} (step : σ → Str → Except ε σ) (l1 l2 : List Str) (a b : σ)
    (h : l1.foldlM step a = .ok b) : (l1 ++ l2).foldlM step a = l2.foldlM step b := by
  rw [List.foldlM_append, h]; rfl

/-! ## `headerLoop` -/

theorem headerLoop_header {σ : Type} (step : σ → Str → Except Err σ) (st st' : σ) (l : Str)
    (ls : List Str) (i : Nat) (hh : startsWith (strip l) ['#'] = true)
    (hs : step st (strip l) = .ok st') :
    headerLoop step st (l :: ls) i = headerLoop step st' ls (i + 1) := by
  simp only [headerLoop, hh, hs, if_true]; rfl

theorem headerLoop_stop {σ : Type} (step : σ → Str → Except Err σ) (st : σ) (l : Str)
    (ls : List Str) (i : Nat) (hh : startsWith (strip l) ['#'] = false) :
    headerLoop step st (l :: ls) i = .ok (st, i) := by
  simp [headerLoop, hh]

/-- header lines, then a first line that does not start with `#`: the loop stops there -/
theorem headerLoop_append {σ : Type} (step : σ → Str → Except Err σ) (hs : List Str) (r : Str)
    (rs : List Str) (st st' : σ) (i : Nat)
    (hhash : ∀ l ∈ hs, startsWith (strip l) ['#'] = true)
    (hfold : (hs.map strip).foldlM step st = .ok st')
    (hr : startsWith (strip r) ['#'] = false) :
    headerLoop step st (hs ++ r :: rs) i = .ok (st', i + hs.length) := by
  induction hs generalizing st i with
  | nil =>
    simp only [List.map_nil, List.foldlM_nil] at hfold
    cases hfold
    simpa using headerLoop_stop step _ r rs i hr
  | cons l hs ih =>
    simp only [List.map_cons, List.foldlM_cons] at hfold
    cases hst : step st (strip l) with
    | error e => rw [hst] at hfold; cases hfold
    | ok st1 =>
      rw [hst] at hfold
      rw [List.cons_append, headerLoop_header step st st1 l _ i (hhash l (by simp)) hst,
        ih st1 (i + 1) (fun x hx => hhash x (by simp [hx])) hfold]
      simp only [List.length_cons]; congr 2; omega

/-! ## folding `parseMetadata` over the written header -/

/-- `# KEY…` lines start with `#` -/
theorem startsWith_hash_cons (r : Str) : startsWith ('#' :: r) ['#'] = true := by
  simp [startsWith]

theorem pl_metaLines (h : Header) (hw : ∀ f : Field, strip (f.get h) = f.get h) :
    (metaLines h).map pl = Field.all.map (fun f => f.key ++ padded (f.get h)) := by
  simp only [metaLines, List.map_map]
  apply List.map_congr_left
  intro f _
  exact pl_fieldLine f (hw f)

/-- the nine text fields come back -/
theorem foldlM_metaLines (h0 h : Header) (hw : ∀ f : Field, strip (f.get h) = f.get h) (ac : Bool) :
    ((metaLines h).map pl).foldlM (fun a l => parseMetadata a l ac) h0
      = .ok { h with numAlternatives := h0.numAlternatives, numVoters := h0.numVoters,
                     altNames := h0.altNames } := by
  have hstep : ∀ f ∈ Field.all, ∀ a : Header,
      (fun a l => parseMetadata a l ac) a ((fun f => f.key ++ padded (f.get h)) f)
        = .ok ((fun a f => f.set a (f.get h)) a f) := by
    intro f _ a
    show parseMetadata a (f.key ++ padded (f.get h)) ac = _
    rw [parseMetadata_field, strip_padded (hw f)]
  rw [pl_metaLines h hw, foldlM_map_ok Field.all _ _ _ hstep]
  simp [Field.all, Field.set, Field.get]

theorem pl_altLines (names : AList Nat Str) (hw : ∀ kv ∈ names, strip kv.2 = kv.2) :
    (names.map (numberedLine altPfx)).map pl
      = names.map (fun kv => altPfx ++ natToStr kv.1 ++ ':' :: padded kv.2) := by
  simp only [List.map_map]
  apply List.map_congr_left
  intro kv hkv
  exact pl_numberedLine (s " ALTERNATIVE NAME ") kv.1 (hw kv hkv)

theorem foldl_set_altNames (names : AList Nat Str) (h0 : Header) :
    names.foldl (fun a kv => ({ a with altNames := AList.set a.altNames kv.1 kv.2 } : Header)) h0
      = { h0 with altNames := names.foldl (fun d kv => AList.set d kv.1 kv.2) h0.altNames } := by
  induction names generalizing h0 with
  | nil => rfl
  | cons kv names ih => simp only [List.foldl_cons]; rw [ih]

/-- the alternative names come back (each name recorded under its key, in file order) -/
theorem foldlM_altLines (h0 : Header) (names : AList Nat Str)
    (hw : ∀ kv ∈ names, cleanText kv.2 = true) :
    ((names.map (numberedLine altPfx)).map pl).foldlM (fun a l => parseMetadata a l false) h0
      = .ok { h0 with altNames := names.foldl (fun d kv => AList.set d kv.1 kv.2) h0.altNames } := by
  rw [pl_altLines names (fun kv hkv => ((cleanText_iff _).1 (hw kv hkv)).2),
    foldlM_map_ok names _ _ (fun a kv => { a with altNames := AList.set a.altNames kv.1 kv.2 })
      (fun kv hkv a => parseMetadata_altName a kv.1 kv.2 ((cleanText_iff _).1 (hw kv hkv)).1.ne_nl),
    foldl_set_altNames]

/-- starting without names, a dict with distinct keys comes back identically -/
theorem foldlM_altLines_nil (h0 : Header) (names : AList Nat Str) (h0n : h0.altNames = [])
    (hnd : (AList.keys names).Nodup) (hw : ∀ kv ∈ names, cleanText kv.2 = true) :
    ((names.map (numberedLine altPfx)).map pl).foldlM (fun a l => parseMetadata a l false) h0
      = .ok { h0 with altNames := names } := by
  rw [foldlM_altLines h0 names hw, h0n, foldl_set_nil names hnd]

end PrefVerif.IOL
