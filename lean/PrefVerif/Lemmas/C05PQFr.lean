import PrefVerif.Lemmas.C05PQShape
/-!
The orderings a PQ-tree stands for (`Fr t f`: `f` is a frontier of `t` after permuting the children of
`P` nodes and possibly reversing the children of `Q` nodes — what `P.orderings`/`Q.orderings` enumerate),
and their closure properties.
-/
set_option linter.unusedSimpArgs false
namespace PrefVerif.PQTree
open Tree

/-! ### `Forall2` -/

namespace Forall2
variable {α β : Type} {R S : α → β → Prop}

theorem length_eq {l : List α} {r : List β} (h : Forall2 R l r) : l.length = r.length := by
  induction h with
  | nil => rfl
  | cons _ _ ih => simp [ih]

theorem mono {l : List α} {r : List β} (h : Forall2 R l r) (hRS : ∀ a ∈ l, ∀ b, R a b → S a b) :
    Forall2 S l r := by
  induction h with
  | nil => exact .nil
  | cons hab _ ih =>
    exact .cons (hRS _ List.mem_cons_self _ hab) (ih (fun a ha => hRS a (List.mem_cons_of_mem _ ha)))

theorem nil_left {r : List β} : Forall2 R [] r ↔ r = [] := by
  constructor
  · intro h; cases h; rfl
  · rintro rfl; exact .nil

theorem cons_left {a : α} {l : List α} {r : List β} :
    Forall2 R (a :: l) r ↔ ∃ b bs, r = b :: bs ∧ R a b ∧ Forall2 R l bs := by
  constructor
  · intro h; cases h with | cons h1 h2 => exact ⟨_, _, rfl, h1, h2⟩
  · rintro ⟨b, bs, rfl, h1, h2⟩; exact .cons h1 h2

theorem append {l₁ l₂ : List α} {r₁ r₂ : List β} (h₁ : Forall2 R l₁ r₁) (h₂ : Forall2 R l₂ r₂) :
    Forall2 R (l₁ ++ l₂) (r₁ ++ r₂) := by
  induction h₁ with
  | nil => simpa using h₂
  | cons hab _ ih => exact .cons hab ih

theorem append_left {l₁ l₂ : List α} {r : List β} :
    Forall2 R (l₁ ++ l₂) r ↔ ∃ r₁ r₂, r = r₁ ++ r₂ ∧ Forall2 R l₁ r₁ ∧ Forall2 R l₂ r₂ := by
  constructor
  · intro h
    induction l₁ generalizing r with
    | nil => exact ⟨[], r, rfl, .nil, by simpa using h⟩
    | cons a l ih =>
      obtain ⟨b, bs, rfl, h1, h2⟩ := cons_left.1 h
      obtain ⟨r₁, r₂, rfl, h3, h4⟩ := ih h2
      exact ⟨b :: r₁, r₂, rfl, .cons h1 h3, h4⟩
  · rintro ⟨r₁, r₂, rfl, h1, h2⟩; exact h1.append h2

theorem singleton_left {a : α} {r : List β} : Forall2 R [a] r ↔ ∃ b, r = [b] ∧ R a b := by
  constructor
  · intro h
    obtain ⟨b, bs, rfl, h1, h2⟩ := cons_left.1 h
    cases h2
    exact ⟨b, rfl, h1⟩
  · rintro ⟨b, rfl, h⟩; exact .cons h .nil

theorem reverse {l : List α} {r : List β} (h : Forall2 R l r) : Forall2 R l.reverse r.reverse := by
  induction h with
  | nil => exact .nil
  | cons hab _ ih =>
    simp only [List.reverse_cons]
    exact ih.append (.cons hab .nil)

theorem reverse_iff {l : List α} {r : List β} : Forall2 R l.reverse r ↔ Forall2 R l r.reverse := by
  constructor
  · intro h; simpa using h.reverse
  · intro h; simpa using h.reverse

theorem map_left {γ : Type} {g : γ → α} {l : List γ} {r : List β} :
    Forall2 R (l.map g) r ↔ Forall2 (fun c b => R (g c) b) l r := by
  induction l generalizing r with
  | nil => simp [nil_left]
  | cons a l ih => simp only [List.map_cons, cons_left, ih]

theorem map_right {γ : Type} {g : β → γ} {S : α → γ → Prop} {l : List α} {r : List β}
    (h : Forall2 R l r) (hRS : ∀ a ∈ l, ∀ b, R a b → S a (g b)) : Forall2 S l (r.map g) := by
  induction h with
  | nil => exact .nil
  | cons hab _ ih =>
    exact .cons (hRS _ List.mem_cons_self _ hab) (ih (fun a ha => hRS a (List.mem_cons_of_mem _ ha)))

/-- a permutation of the right list can be followed on the left -/
theorem perm_right {l : List α} {r r' : List β} (h : Forall2 R l r) (hp : r'.Perm r) :
    ∃ l', l'.Perm l ∧ Forall2 R l' r' := by
  induction hp generalizing l with
  | nil => cases h; exact ⟨[], .nil, .nil⟩
  | cons b _ ih =>
    obtain ⟨a, as, hab, has⟩ : ∃ a as, l = a :: as ∧ True := by cases h; exact ⟨_, _, rfl, trivial⟩
    subst hab
    cases h with
    | cons h1 h2 =>
      obtain ⟨l', hl', hf⟩ := ih h2
      exact ⟨a :: l', hl'.cons a, .cons h1 hf⟩
  | swap b₁ b₂ bs =>
    cases h with
    | cons h1 h2 =>
      cases h2 with
      | cons h3 h4 =>
        exact ⟨_ :: _ :: _, List.Perm.swap _ _ _, .cons h3 (.cons h1 h4)⟩
  | trans _ _ ih1 ih2 =>
    obtain ⟨l₂, hl₂, hf₂⟩ := ih2 h
    obtain ⟨l₁, hl₁, hf₁⟩ := ih1 hf₂
    exact ⟨l₁, hl₁.trans hl₂, hf₁⟩

/-- a permutation of the left list can be followed on the right -/
theorem perm_left {l l' : List α} {r : List β} (h : Forall2 R l r) (hp : l'.Perm l) :
    ∃ r', r'.Perm r ∧ Forall2 R l' r' := by
  induction hp generalizing r with
  | nil => cases h; exact ⟨[], .nil, .nil⟩
  | cons a _ ih =>
    cases h with
    | cons h1 h2 =>
      obtain ⟨r', hr', hf⟩ := ih h2
      exact ⟨_ :: r', hr'.cons _, .cons h1 hf⟩
  | swap a₁ a₂ as =>
    cases h with
    | cons h1 h2 =>
      cases h2 with
      | cons h3 h4 =>
        exact ⟨_ :: _ :: _, List.Perm.swap _ _ _, .cons h3 (.cons h1 h4)⟩
  | trans _ _ ih1 ih2 =>
    obtain ⟨r₂, hr₂, hf₂⟩ := ih2 h
    obtain ⟨r₁, hr₁, hf₁⟩ := ih1 hf₂
    exact ⟨r₁, hr₁.trans hr₂, hf₁⟩

end Forall2

/-! ### the orderings of a tree -/

mutual
/-- `f` is one of the orderings of the leaves that the tree stands for -/
def Fr : Tree → List (List Nat) → Prop
  | .leaf s, f => f = [s]
  | .p cs, f => ∃ fs, FrList cs fs ∧ ∃ fs' : List (List (List Nat)), fs'.Perm fs ∧ f = fs'.flatten
  | .q cs, f => ∃ fs, FrList cs fs ∧ (f = fs.flatten ∨ f = fs.flatten.reverse)
/-- one ordering for every child -/
def FrList : List Tree → List (List (List Nat)) → Prop
  | [], fs => fs = []
  | c :: cs, fs => ∃ g gs, fs = g :: gs ∧ Fr c g ∧ FrList cs gs
end

theorem frList_iff (cs : List Tree) (fs : List (List (List Nat))) : FrList cs fs ↔ Forall2 Fr cs fs := by
  induction cs generalizing fs with
  | nil => simp [FrList, Forall2.nil_left]
  | cons c cs ih => simp only [FrList, Forall2.cons_left, ih]

/-- the children in the given order, each in one of its orderings -/
def Seq (cs : List Tree) (f : List (List Nat)) : Prop := ∃ fs, Forall2 Fr cs fs ∧ f = fs.flatten

theorem fr_leaf (s : List Nat) (f : List (List Nat)) : Fr (.leaf s) f ↔ f = [s] := by simp [Fr]

theorem fr_p (cs : List Tree) (f : List (List Nat)) :
    Fr (.p cs) f ↔ ∃ fs, Forall2 Fr cs fs ∧ ∃ fs' : List (List (List Nat)), fs'.Perm fs ∧ f = fs'.flatten := by
  simp [Fr, frList_iff]

theorem fr_q (cs : List Tree) (f : List (List Nat)) : Fr (.q cs) f ↔ Seq cs f ∨ Seq cs f.reverse := by
  simp only [Fr, frList_iff, Seq]
  constructor
  · rintro ⟨fs, h, rfl | rfl⟩
    · exact .inl ⟨fs, h, rfl⟩
    · exact .inr ⟨fs, h, by simp⟩
  · rintro (⟨fs, h, rfl⟩ | ⟨fs, h, hf⟩)
    · exact ⟨fs, h, .inl rfl⟩
    · exact ⟨fs, h, .inr (by rw [← hf]; simp)⟩

/-- a `P` node: the children in any order -/
theorem fr_p_iff (cs : List Tree) (f : List (List Nat)) : Fr (.p cs) f ↔ ∃ cs', cs'.Perm cs ∧ Seq cs' f := by
  rw [fr_p]
  constructor
  · rintro ⟨fs, h, fs', hp, rfl⟩
    obtain ⟨cs', hcs', hf⟩ := h.perm_right hp
    exact ⟨cs', hcs', fs', hf, rfl⟩
  · rintro ⟨cs', hp, fs', hf, rfl⟩
    obtain ⟨fs, hfs, hf'⟩ := hf.perm_left hp.symm
    exact ⟨fs, hf', fs', hfs.symm, rfl⟩

/-! ### `Seq` -/

theorem seq_nil (f : List (List Nat)) : Seq [] f ↔ f = [] := by
  simp only [Seq, Forall2.nil_left]
  constructor
  · rintro ⟨fs, rfl, rfl⟩; rfl
  · rintro rfl; exact ⟨[], rfl, rfl⟩

theorem seq_singleton (c : Tree) (f : List (List Nat)) : Seq [c] f ↔ Fr c f := by
  simp only [Seq, Forall2.singleton_left]
  constructor
  · rintro ⟨fs, ⟨g, rfl, hg⟩, rfl⟩; simpa using hg
  · intro h; exact ⟨[f], ⟨f, rfl, h⟩, by simp⟩

theorem seq_append (a b : List Tree) (f : List (List Nat)) :
    Seq (a ++ b) f ↔ ∃ f₁ f₂, f = f₁ ++ f₂ ∧ Seq a f₁ ∧ Seq b f₂ := by
  simp only [Seq, Forall2.append_left]
  constructor
  · rintro ⟨fs, ⟨r₁, r₂, rfl, h1, h2⟩, rfl⟩
    exact ⟨r₁.flatten, r₂.flatten, by simp, ⟨r₁, h1, rfl⟩, ⟨r₂, h2, rfl⟩⟩
  · rintro ⟨f₁, f₂, rfl, ⟨r₁, h1, rfl⟩, ⟨r₂, h2, rfl⟩⟩
    exact ⟨r₁ ++ r₂, ⟨r₁, r₂, rfl, h1, h2⟩, by simp⟩

theorem seq_cons (c : Tree) (cs : List Tree) (f : List (List Nat)) :
    Seq (c :: cs) f ↔ ∃ f₁ f₂, f = f₁ ++ f₂ ∧ Fr c f₁ ∧ Seq cs f₂ := by
  have := seq_append [c] cs f
  simp only [List.singleton_append, seq_singleton] at this
  exact this

theorem Seq.mono {cs : List Tree} {f : List (List Nat)} {cs' : List Tree}
    (h : Seq cs' f) (hcs : Forall2 (fun c' c => ∀ g, Fr c' g → Fr c g) cs' cs) : Seq cs f := by
  induction hcs generalizing f with
  | nil => exact h
  | cons hab _ ih =>
    obtain ⟨f₁, f₂, rfl, h1, h2⟩ := (seq_cons _ _ _).1 h
    exact (seq_cons _ _ _).2 ⟨f₁, f₂, rfl, hab _ h1, ih h2⟩

theorem seq_p (cs : List Tree) (f : List (List Nat)) (h : Seq cs f) : Fr (.p cs) f :=
  (fr_p_iff cs f).2 ⟨cs, List.Perm.refl _, h⟩

theorem seq_q (cs : List Tree) (f : List (List Nat)) (h : Seq cs f) : Fr (.q cs) f :=
  (fr_q cs f).2 (.inl h)

/-! ### the current layout is one of the orderings; every ordering consists of the leaves -/

theorem forall2_self {cs : List Tree} {g : Tree → List (List Nat)} (h : ∀ c ∈ cs, Fr c (g c)) :
    Forall2 Fr cs (cs.map g) := by
  induction cs with
  | nil => exact .nil
  | cons c cs ih =>
    exact .cons (h c List.mem_cons_self) (ih (fun d hd => h d (List.mem_cons_of_mem _ hd)))

theorem fr_frontier (t : Tree) : Fr t (frontier t) := by
  induction t using Tree.ind with
  | hleaf s => simp [fr_leaf]
  | hp cs ih =>
    refine seq_p _ _ ⟨cs.map frontier, forall2_self ih, ?_⟩
    simp [frontierList_eq_flatMap, List.flatMap_def]
  | hq cs ih =>
    refine seq_q _ _ ⟨cs.map frontier, forall2_self ih, ?_⟩
    simp [frontierList_eq_flatMap, List.flatMap_def]

theorem seq_perm_of {cs : List Tree} (ih : ∀ c ∈ cs, ∀ f, Fr c f → f.Perm (frontier c)) {f : List (List Nat)}
    (h : Seq cs f) : f.Perm (frontierList cs) := by
  induction cs generalizing f with
  | nil => rw [(seq_nil f).1 h]; simp
  | cons c cs ihc =>
    obtain ⟨f₁, f₂, rfl, h1, h2⟩ := (seq_cons _ _ _).1 h
    simp only [frontierList_cons]
    exact (ih c List.mem_cons_self f₁ h1).append (ihc (fun d hd => ih d (List.mem_cons_of_mem _ hd)) h2)

theorem fr_perm (t : Tree) : ∀ f, Fr t f → f.Perm (frontier t) := by
  induction t using Tree.ind with
  | hleaf s => intro f h; rw [(fr_leaf s f).1 h]; simp
  | hp cs ih =>
    intro f h
    obtain ⟨cs', hp, hs⟩ := (fr_p_iff cs f).1 h
    have := seq_perm_of (fun c hc => ih c (hp.mem_iff.1 hc)) hs
    simp only [frontier_p]
    exact this.trans (frontierList_perm hp)
  | hq cs ih =>
    intro f h
    simp only [frontier_q]
    rcases (fr_q cs f).1 h with hs | hs
    · exact seq_perm_of ih hs
    · exact (List.reverse_perm f).symm.trans (seq_perm_of ih hs)

theorem seq_perm {cs : List Tree} {f : List (List Nat)} (h : Seq cs f) : f.Perm (frontierList cs) :=
  seq_perm_of (fun c _ => fr_perm c) h

/-! ### closure under reversal -/

theorem flatten_reverse' {α : Type} (fs : List (List α)) :
    fs.flatten.reverse = (fs.map List.reverse).reverse.flatten := by
  induction fs with
  | nil => rfl
  | cons g gs ih => simp [ih]

theorem seq_reverse_of {cs : List Tree} (ih : ∀ c ∈ cs, ∀ f, Fr c f → Fr c f.reverse) {f : List (List Nat)}
    (h : Seq cs f) : Seq cs.reverse f.reverse := by
  obtain ⟨fs, hf, rfl⟩ := h
  refine ⟨(fs.map List.reverse).reverse, ?_, flatten_reverse' fs⟩
  exact (hf.map_right (fun c hc g hg => ih c hc g hg)).reverse

theorem fr_reverse (t : Tree) : ∀ f, Fr t f → Fr t f.reverse := by
  induction t using Tree.ind with
  | hleaf s => intro f h; rw [(fr_leaf s f).1 h]; simp [fr_leaf]
  | hp cs ih =>
    intro f h
    obtain ⟨cs', hp, hs⟩ := (fr_p_iff cs f).1 h
    have := seq_reverse_of (fun c hc => ih c (hp.mem_iff.1 hc)) hs
    exact (fr_p_iff cs _).2 ⟨cs'.reverse, (List.reverse_perm _).trans hp, this⟩
  | hq cs ih =>
    intro f h
    rcases (fr_q cs f).1 h with hs | hs
    · exact (fr_q cs _).2 (.inr (by simpa using hs))
    · exact (fr_q cs _).2 (.inl hs)

theorem seq_reverse {cs : List Tree} {f : List (List Nat)} (h : Seq cs f) : Seq cs.reverse f.reverse :=
  seq_reverse_of (fun c _ => fr_reverse c) h

/-! ### `reverse`, `flatten` only restrict -/

theorem fr_of_reverse (t : Tree) : ∀ f, Fr (reverse t) f → Fr t f := by
  induction t using Tree.ind with
  | hleaf s => intro f h; simpa [reverse] using h
  | hp cs ih =>
    intro f h
    simp only [reverse, reverseList_eq] at h
    obtain ⟨cs', hp, hs⟩ := (fr_p_iff _ f).1 h
    -- cs' is a permutation of the reversed children; follow it back
    obtain ⟨fs, hf, rfl⟩ := hs
    have h1 : Forall2 (fun c g => Fr c g) ((cs.map reverse).reverse) ((cs.map reverse).reverse.map frontier) :=
      forall2_self (fun c _ => fr_frontier c)
    -- simpler: use the permutation lemma on children directly
    have hcs : ∃ ds, ds.Perm cs ∧ Forall2 Fr ds fs := by
      have hp' : cs'.Perm (cs.map reverse) := hp.trans (List.reverse_perm _)
      -- every element of cs' is `reverse d` for some `d ∈ cs`
      clear h1 h hp
      induction hf generalizing cs with
      | nil =>
        have : cs.map reverse = [] := by simpa using hp'.symm
        have : cs = [] := by simpa using this
        subst this
        exact ⟨[], .nil, .nil⟩
      | @cons a b as bs hab _ ih2 =>
        have ha : a ∈ cs.map reverse := hp'.mem_iff.1 List.mem_cons_self
        obtain ⟨d, hd, rfl⟩ := List.mem_map.1 ha
        -- split cs around d
        obtain ⟨l₁, l₂, rfl⟩ := List.append_of_mem hd
        have hp2 : as.Perm ((l₁ ++ l₂).map reverse) := by
          have : (reverse d :: as).Perm (reverse d :: ((l₁ ++ l₂).map reverse)) := by
            refine hp'.trans ?_
            simp only [List.map_append, List.map_cons]
            exact List.perm_middle
          exact List.Perm.cons_inv this
        obtain ⟨ds, hds, hfds⟩ := ih2 (cs := l₁ ++ l₂)
          (fun c hc => ih c (by
            rcases List.mem_append.1 hc with hc | hc
            · exact List.mem_append.2 (.inl hc)
            · exact List.mem_append.2 (.inr (List.mem_cons_of_mem _ hc)))) hp2
        refine ⟨d :: ds, ?_, .cons (ih d hd _ hab) hfds⟩
        exact (hds.cons d).trans List.perm_middle.symm
    obtain ⟨ds, hds, hfds⟩ := hcs
    exact (fr_p_iff cs _).2 ⟨ds, hds, fs, hfds, rfl⟩
  | hq cs ih =>
    intro f h
    simp only [reverse, reverseList_eq] at h
    have key : ∀ g, Seq (cs.map reverse).reverse g → Seq cs g.reverse := by
      intro g hg
      have h1 := seq_reverse hg
      simp only [List.reverse_reverse] at h1
      obtain ⟨fs, hf, hfe⟩ := h1
      exact ⟨fs, (Forall2.map_left.1 hf).mono (fun c hc g hg => ih c hc g hg), hfe⟩
    rcases (fr_q _ f).1 h with hs | hs
    · exact (fr_q cs f).2 (.inr (key f hs))
    · exact (fr_q cs f).2 (.inl (by simpa using key _ hs))

theorem fr_p_singleton (c : Tree) (f : List (List Nat)) : Fr (.p [c]) f ↔ Fr c f := by
  rw [fr_p_iff]
  constructor
  · rintro ⟨cs', hp, hs⟩
    rw [List.perm_singleton.1 hp] at hs
    exact (seq_singleton c f).1 hs
  · intro h; exact ⟨[c], List.Perm.refl _, (seq_singleton c f).2 h⟩

theorem fr_q_singleton (c : Tree) (f : List (List Nat)) : Fr (.q [c]) f ↔ Fr c f := by
  rw [fr_q, seq_singleton, seq_singleton]
  constructor
  · rintro (h | h)
    · exact h
    · simpa using fr_reverse c _ h
  · intro h; exact .inl h

theorem fr_p_mono {cs cs' : List Tree} (hcs : Forall2 (fun c' c => ∀ g, Fr c' g → Fr c g) cs' cs)
    (f : List (List Nat)) (h : Fr (.p cs') f) : Fr (.p cs) f := by
  obtain ⟨fs, hf, fs', hp, rfl⟩ := (fr_p cs' f).1 h
  refine (fr_p cs _).2 ⟨fs, ?_, fs', hp, rfl⟩
  clear hp h
  induction hcs generalizing fs with
  | nil => exact hf
  | cons hab _ ih =>
    obtain ⟨b, bs, rfl, h1, h2⟩ := Forall2.cons_left.1 hf
    exact .cons (hab _ h1) (ih bs h2)

theorem fr_q_mono {cs cs' : List Tree} (hcs : Forall2 (fun c' c => ∀ g, Fr c' g → Fr c g) cs' cs)
    (f : List (List Nat)) (h : Fr (.q cs') f) : Fr (.q cs) f := by
  rcases (fr_q cs' f).1 h with hs | hs
  · exact (fr_q cs f).2 (.inl (hs.mono hcs))
  · exact (fr_q cs f).2 (.inr (hs.mono hcs))

theorem forall2_map_left_self {cs : List Tree} {g : Tree → Tree}
    (h : ∀ c ∈ cs, ∀ f, Fr (g c) f → Fr c f) :
    Forall2 (fun c' c => ∀ f, Fr c' f → Fr c f) (cs.map g) cs := by
  induction cs with
  | nil => exact .nil
  | cons c cs ih =>
    exact .cons (h c List.mem_cons_self) (ih (fun d hd => h d (List.mem_cons_of_mem _ hd)))

theorem fr_of_flattenRet (t : Tree) : ∀ f, Fr (flattenRet t) f → Fr t f := by
  induction t using Tree.ind with
  | hleaf s => intro f h; simpa [flattenRet] using h
  | hp cs ih =>
    intro f h
    match cs, ih, h with
    | [], _, h => simpa [flattenRet, flattenRetList] using h
    | [c], ih, h =>
      simp only [flattenRet] at h
      exact (fr_p_singleton c f).2 (ih c (List.mem_singleton.2 rfl) f h)
    | c1 :: c2 :: cs, ih, h =>
      simp only [flattenRet, flattenRetList_eq_map] at h
      exact fr_p_mono (forall2_map_left_self ih) f h
  | hq cs ih =>
    intro f h
    match cs, ih, h with
    | [], _, h => simpa [flattenRet, flattenRetList] using h
    | [c], ih, h =>
      simp only [flattenRet] at h
      exact (fr_q_singleton c f).2 (ih c (List.mem_singleton.2 rfl) f h)
    | c1 :: c2 :: cs, ih, h =>
      simp only [flattenRet, flattenRetList_eq_map] at h
      exact fr_q_mono (forall2_map_left_self ih) f h

/-! ### `P` nodes: order of children irrelevant; a `P` child of a `P` node can be dissolved -/

theorem fr_p_perm {cs cs' : List Tree} (hp : cs'.Perm cs) (f : List (List Nat)) (h : Fr (.p cs') f) :
    Fr (.p cs) f := by
  obtain ⟨ds, hds, hs⟩ := (fr_p_iff cs' f).1 h
  exact (fr_p_iff cs f).2 ⟨ds, hds.trans hp, hs⟩

/-- if every ordering of `X` is an ordering of the `P` node over `B`, then `X` may replace `B` -/
theorem fr_p_absorb {A B : List Tree} {X : Tree} (hX : ∀ g, Fr X g → Fr (.p B) g) (f : List (List Nat))
    (h : Fr (.p (A ++ [X])) f) : Fr (.p (A ++ B)) f := by
  obtain ⟨fs, hf, fs', hp, rfl⟩ := (fr_p _ f).1 h
  obtain ⟨fa, fx, rfl, hfa, hfx⟩ := Forall2.append_left.1 hf
  obtain ⟨g, rfl, hg⟩ := Forall2.singleton_left.1 hfx
  obtain ⟨gs, hgs, gs', hgp, rfl⟩ := (fr_p B g).1 (hX g hg)
  -- fs' is a permutation of fa ++ [gs'.flatten]; replace that piece by the pieces gs'
  have hmem : gs'.flatten ∈ fs' := hp.symm.mem_iff.1 (by simp)
  obtain ⟨l₁, l₂, rfl⟩ := List.append_of_mem hmem
  refine (fr_p _ _).2 ⟨fa ++ gs, hfa.append hgs, l₁ ++ gs' ++ l₂, ?_, by simp⟩
  have h1 : (l₁ ++ l₂).Perm fa := by
    have : (gs'.flatten :: (l₁ ++ l₂)).Perm (gs'.flatten :: fa) :=
      List.perm_middle.symm.trans (hp.trans (List.perm_append_singleton _ _))
    exact List.Perm.cons_inv this
  have h2 : (l₁ ++ gs' ++ l₂).Perm (gs' ++ (l₁ ++ l₂)) := by
    simp only [List.append_assoc]
    exact (List.perm_append_comm_assoc l₁ gs' l₂)
  exact h2.trans ((List.perm_append_comm).trans (h1.append hgp))

end PrefVerif.PQTree
