import PrefVerif.Model.CategoricalIO
import PrefVerif.Lemmas.C01Scan
/-!
# C08 — the categorical ballot scanner inverts the compact ballot renderer

`cBallot b` is the ballot text after `line.strip().replace(" ", "")`: categories separated by `,`,
a category of size ≠ 1 in braces — the empty one is `{}`.  `scanBallot (cBallot b) = b` for every
ballot.  Token-level facts (`tokens`, `body`, `digits`) are those of `C01Scan.lean`: both scanners
use `OrdinalIO.tokens` / `OrdinalIO.isDC`.
-/
namespace PrefVerif.C08
open PrefVerif PrefVerif.Py PrefVerif.CategoricalIO PrefVerif.IOL
open PrefVerif.OrdinalIO (isDC tokens)
open PrefVerif.C01 (digits body)

/-- a category, compact: `{}`, `7` or `{1,2,3}` -/
def cCat : List Nat → List Char
  | [a] => digits a
  | cl => '{' :: (List.intercalate [','] (cl.map digits)) ++ ['}']

/-- a ballot, compact -/
def cBallot (b : Ballot) : List Char := List.intercalate [','] (b.map cCat)

theorem cCat_eq (cl : List Nat) : cCat cl = C01.cClass cl := by
  match cl with
  | [] => rfl
  | [_] => rfl
  | _ :: _ :: _ => rfl

theorem cBallot_eq (b : Ballot) : cBallot b = C01.cOrder b := by
  have : cCat = C01.cClass := funext cCat_eq
  simp [cBallot, C01.cOrder, this]

/-- fuel beyond the length of the input is irrelevant -/
theorem scan_fuel (f g : Nat) (cs : List Char) (hf : cs.length < f) (hg : cs.length < g) :
    scan f cs = scan g cs := by
  induction f generalizing g cs with
  | zero => omega
  | succ f ih =>
    cases g with
    | zero => omega
    | succ g =>
      cases cs with
      | nil => simp [scan]
      | cons c cs =>
        simp only [List.length_cons] at hf hg
        have hd := length_dropWhile_le isDC cs
        simp only [scan]
        split
        · split
          · rename_i run rest x y rest' hrun hrest
            have : rest'.length < cs.length := by
              have := hd; rw [hrest] at this; simp at this; omega
            rw [ih g rest' (by omega) (by omega)]
          · rename_i run rest rest' hrun hrest
            have : rest'.length < cs.length := by
              have := hd; rw [hrest] at this; simp at this; omega
            rw [ih g rest' (by omega) (by omega)]
          · exact ih g cs (by omega) (by omega)
        · split
          · rename_i hc
            have h3 : ((c :: cs).dropWhile isDC).length ≤ cs.length := by
              simp only [List.dropWhile_cons, hc, if_true]; exact hd
            rw [ih g _ (by omega) (by omega)]
          · exact ih g cs (by omega) (by omega)

def scan' (cs : List Char) : Ballot := scan (cs.length + 1) cs

theorem scan'_nil : scan' [] = [] := by simp [scan', scan]

/-- `{1,2,3}` -/
theorem scan'_brace (b rest : List Char) (hb : b ≠ []) (h : ∀ c ∈ b, isDC c = true) :
    scan' ('{' :: (b ++ '}' :: rest)) = tokens b [] :: scan' rest := by
  have htd := takeWhile_run b ('}' :: rest) h
    (by intro c hc; simp at hc; subst hc; exact C01.not_isDC_rbrace)
  unfold scan'
  simp only [List.length_cons, scan]
  simp only [htd.1, htd.2, beq_self_eq_true, if_true]
  cases b with
  | nil => exact absurd rfl hb
  | cons x xs =>
    simp only
    congr 1
    apply scan_fuel <;> simp <;> omega

/-- `{}` — the third alternative of the pattern -/
theorem scan'_empty (rest : List Char) : scan' ('{' :: '}' :: rest) = [] :: scan' rest := by
  unfold scan'
  simp only [List.length_cons, scan, beq_self_eq_true, if_true]
  have h1 : List.takeWhile isDC ('}' :: rest) = [] := by simp [C01.not_isDC_rbrace]
  have h2 : List.dropWhile isDC ('}' :: rest) = '}' :: rest := by simp [C01.not_isDC_rbrace]
  rw [h1, h2]
  simp only
  congr 1
  apply scan_fuel <;> omega

theorem scan'_run (run rest : List Char) (hne : run ≠ []) (h : ∀ c ∈ run, isDC c = true)
    (hr : ∀ c, rest.head? = some c → isDC c = false) :
    scan' (run ++ rest) = (tokens run []).map (fun a => [a]) ++ scan' rest := by
  have htd := takeWhile_run run rest h hr
  cases run with
  | nil => exact absurd rfl hne
  | cons x xs =>
    have hx := h x (by simp)
    have hx' : (x == '{') = false := by
      cases hxb : x == '{' with
      | false => rfl
      | true => have := eq_of_beq hxb; subst this; exact absurd hx (by decide)
    unfold scan'
    simp only [List.cons_append, List.length_cons, scan, hx', Bool.false_eq_true, if_false, hx, if_true]
    simp only [List.cons_append] at htd
    rw [htd.1, htd.2]
    congr 1
    apply scan_fuel <;> simp <;> omega

/-- `scan'` of any string, in terms of its maximal leading `[\d,]` run. -/
theorem scan'_decomp (s : List Char) :
    scan' s = (tokens (s.takeWhile isDC) []).map (fun a => [a]) ++ scan' (s.dropWhile isDC) := by
  by_cases hne : s.takeWhile isDC = []
  · have : s.dropWhile isDC = s := by
      have := List.takeWhile_append_dropWhile (p := isDC) (l := s)
      rw [hne] at this; simpa using this
    simp [hne, this, tokens]
  · have := scan'_run (s.takeWhile isDC) (s.dropWhile isDC) hne (C01.mem_takeWhile_isDC s)
      (C01.head_dropWhile_not s)
    rwa [List.takeWhile_append_dropWhile] at this

/-- a bare singleton followed by more text: adjacent bare singletons merge into one `[\d,]+` match,
the result is the same -/
theorem scan'_single_comma (a : Nat) (s : List Char) :
    scan' (digits a ++ ',' :: s) = [a] :: scan' s := by
  have hrun : ∀ c ∈ digits a ++ [','], isDC c = true := by
    intro c hc
    rcases List.mem_append.1 hc with h | h
    · exact C01.isDC_digit (C01.digits_isDigit h)
    · simp at h; subst h; exact C01.isDC_comma
  have hsplit : digits a ++ ',' :: s = (digits a ++ [',']) ++ s := by simp
  rw [scan'_decomp (digits a ++ ',' :: s), hsplit]
  obtain ⟨h1, h2⟩ := takeWhile_append_of_all (digits a ++ [',']) s hrun
  rw [h1, h2, scan'_decomp s]
  have : digits a ++ [','] ++ List.takeWhile isDC s = digits a ++ ',' :: List.takeWhile isDC s := by simp
  rw [this, C01.tokens_digits_comma]
  simp

theorem scan'_single_end (a : Nat) : scan' (digits a) = [[a]] := by
  have := scan'_run (digits a) [] (C01.digits_ne_nil a)
    (fun c hc => C01.isDC_digit (C01.digits_isDigit hc)) (by simp)
  simpa [C01.tokens_digits_end, scan'_nil] using this

theorem scan'_comma (s : List Char) : scan' (',' :: s) = scan' s := by
  rw [scan'_decomp (',' :: s), scan'_decomp s]
  simp [C01.isDC_comma, C01.tokens_comma]

theorem cBallot_cons_cons (c d : List Nat) (b : Ballot) :
    cBallot (c :: d :: b) = cCat c ++ ',' :: cBallot (d :: b) := by
  simp [cBallot, List.intercalate_cons_cons]

theorem cCat_single (a : Nat) : cCat [a] = digits a := rfl

theorem cCat_nil : cCat [] = ['{', '}'] := rfl

theorem cCat_multi {cl : List Nat} (h : cl.length ≠ 1) : cCat cl = '{' :: (body cl ++ ['}']) := by
  match cl, h with
  | [], _ => rfl
  | [_], h => exact absurd rfl h
  | _ :: _ :: _, _ => rfl

/-- one category followed by `,` and more text -/
theorem scan'_cCat_comma (cl : List Nat) (s : List Char) :
    scan' (cCat cl ++ ',' :: s) = cl :: scan' s := by
  by_cases h1 : cl.length = 1
  · obtain ⟨a, rfl⟩ := List.length_eq_one_iff.1 h1
    rw [cCat_single, scan'_single_comma]
  · cases cl with
    | nil => simp only [cCat_nil, List.cons_append, List.nil_append]; rw [scan'_empty, scan'_comma]
    | cons x xs =>
      have : cCat (x :: xs) ++ ',' :: s = '{' :: (body (x :: xs) ++ '}' :: (',' :: s)) := by
        rw [cCat_multi h1]; simp
      rw [this, scan'_brace _ _ (C01.body_ne_nil (by simp)) (C01.body_allDC _), C01.tokens_body,
        scan'_comma]

/-- the last category -/
theorem scan'_cCat_end (cl : List Nat) : scan' (cCat cl) = [cl] := by
  by_cases h1 : cl.length = 1
  · obtain ⟨a, rfl⟩ := List.length_eq_one_iff.1 h1
    rw [cCat_single, scan'_single_end]
  · cases cl with
    | nil => rw [cCat_nil, scan'_empty, scan'_nil]
    | cons x xs =>
      have : cCat (x :: xs) = '{' :: (body (x :: xs) ++ '}' :: []) := by rw [cCat_multi h1]
      rw [this, scan'_brace _ _ (C01.body_ne_nil (by simp)) (C01.body_allDC _), C01.tokens_body,
        scan'_nil]

/-- The scanner inverts the compact renderer on every ballot: empty categories first, last,
consecutive; adjacent bare singletons; larger categories. -/
theorem scan'_cBallot (b : Ballot) : scan' (cBallot b) = b := by
  induction b with
  | nil => simp [cBallot, scan'_nil]
  | cons cl b ih =>
    cases b with
    | nil => simpa [cBallot] using scan'_cCat_end cl
    | cons d b => rw [cBallot_cons_cons, scan'_cCat_comma, ih]

theorem scanBallot_eq_scan' (cs : List Char) : scanBallot cs = scan' cs := rfl

/-- the scanner inverts the compact renderer -/
theorem scanBallot_cBallot (b : Ballot) : scanBallot (cBallot b) = b := scan'_cBallot b

end PrefVerif.C08
