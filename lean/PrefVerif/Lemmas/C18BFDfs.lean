import PrefVerif.Lemmas.C18BFExtend
import PrefVerif.Lemmas.C12DPInv
/-!
`dfs`: whatever it returns (a complete list of axes reached at depth `m`, or the `shortest` it was given) is a
list of at most `k` non-empty incomplete axes carrying every alternative exactly once, with no vote having an
interior local minimum on any of them.
-/
namespace PrefVerif.C18BF
open PrefVerif.KAlt PrefVerif.KAltBF PrefVerif.C12DP

theorem dfs_zero (m k : Nat) (L : List (List (List (List Nat)))) (votes : List (List Nat)) (i : Nat)
    (axes : List Axis) (shortest : Option (List Axis)) : dfs m k L votes 0 i axes shortest = shortest := rfl

/-- body of `for ax in new_axes` -/
def dfsInner (m k : Nat) (L : List (List (List (List Nat)))) (votes : List (List Nat)) (fuel i : Nat)
    (shortest : Option (List Axis)) (ax : List Axis) : Option (List Axis) :=
  if better shortest ax.length then
    match dfs m k L votes fuel (i + 1) ax shortest with
    | some completed => if better shortest completed.length then some completed else shortest
    | none => shortest
  else shortest

/-- body of `for extension in extensions` -/
def dfsOuter (m k : Nat) (L : List (List (List (List Nat)))) (votes : List (List Nat)) (fuel i : Nat)
    (axes : List Axis) (shortest : Option (List Axis)) (extension : List (List Nat)) : Option (List Axis) :=
  if extension.length > k then shortest
  else (extend axes extension votes k).foldl (dfsInner m k L votes fuel i) shortest

theorem dfs_succ (m k : Nat) (L : List (List (List (List Nat)))) (votes : List (List Nat)) (fuel i : Nat)
    (axes : List Axis) (shortest : Option (List Axis)) :
    dfs m k L votes (fuel + 1) i axes shortest =
      if i == m then some axes
      else (L.getD i []).foldl (dfsOuter m k L votes fuel i axes) shortest := rfl

/-- the stated fuel bound: any fuel above `m - i` gives the same result (the out-of-fuel branch is never taken) -/
theorem dfs_fuel (m k : Nat) (L : List (List (List (List Nat)))) (votes : List (List Nat)) (f g i : Nat)
    (axes : List Axis) (shortest : Option (List Axis)) (hi : i ≤ m) (hf : m - i < f) (hg : m - i < g) :
    dfs m k L votes f i axes shortest = dfs m k L votes g i axes shortest := by
  induction f generalizing g i axes shortest with
  | zero => omega
  | succ f ih =>
    cases g with
    | zero => omega
    | succ g =>
      rw [dfs_succ, dfs_succ]
      split
      · rfl
      · rename_i him
        have hne : i ≠ m := by simpa using him
        have hin : dfsInner m k L votes f i = dfsInner m k L votes g i := by
          funext sh ax
          unfold dfsInner
          rw [ih g (i + 1) ax sh (by omega) (by omega) (by omega)]
        have hout : dfsOuter m k L votes f i axes = dfsOuter m k L votes g i axes := by
          funext sh ext
          unfold dfsOuter
          rw [hin]
        rw [hout]

/-- `shortest` is `None` or a complete answer -/
def ShortOK (votes : List (List Nat)) (k : Nat) (P : List Nat) (sh : Option (List Axis)) : Prop :=
  ∀ s, sh = some s → AxesInv votes k P s

theorem take_succ_flatten (Ls : List (List Nat)) (i : Nat) (hi : i < Ls.length) :
    (Ls.take (i + 1)).flatten = (Ls.take i).flatten ++ Ls[i] := by
  rw [List.take_succ_eq_append_getElem hi, List.flatten_append]
  simp

theorem dfs_inv (votes : List (List Nat)) (k : Nat) (Ls : List (List Nat)) (L : List (List (List (List Nat))))
    (hL : ∀ i (hi : i < Ls.length), ∀ ext ∈ L.getD i [], ext.flatten.Perm Ls[i])
    (hnd : Ls.flatten.Nodup) (fuel i : Nat) (axes : List Axis) (shortest : Option (List Axis))
    (hi : i ≤ Ls.length) (hax : AxesInv votes k (Ls.take i).flatten axes)
    (hsh : ShortOK votes k Ls.flatten shortest) :
    ShortOK votes k Ls.flatten (dfs Ls.length k L votes fuel i axes shortest) := by
  induction fuel generalizing i axes shortest with
  | zero => rw [dfs_zero]; exact hsh
  | succ fuel ih =>
    rw [dfs_succ]
    split
    · rename_i him
      have him : i = Ls.length := by simpa using him
      intro s hs
      cases hs
      rw [him, List.take_of_length_le (Nat.le_refl _)] at hax
      exact hax
    · rename_i him
      have hlt : i < Ls.length := by
        have : i ≠ Ls.length := by simpa using him
        omega
      apply foldl_inv (ShortOK votes k Ls.flatten) _ _ _ hsh
      intro sh ext hext hsh'
      unfold dfsOuter
      split
      · exact hsh'
      · have hperm := hL i hlt ext hext
        have hP : (ext.flatten ++ (Ls.take i).flatten).Perm (Ls.take (i + 1)).flatten := by
          rw [take_succ_flatten Ls i hlt]
          exact (List.Perm.append_right _ hperm).trans List.perm_append_comm
        have hnd1 : (Ls.take (i + 1)).flatten.Nodup := by
          have := hnd
          rw [← List.take_append_drop (i + 1) Ls, List.flatten_append, List.nodup_append] at this
          exact this.1
        have hext_inv := extend_inv votes k axes ext (Ls.take i).flatten (hP.nodup_iff.2 hnd1) hax
        apply foldl_inv (ShortOK votes k Ls.flatten) _ _ _ hsh'
        intro sh2 ax hax2 hsh2
        unfold dfsInner
        split
        · have hrec := ih (i + 1) ax sh2 hlt ((hext_inv ax hax2).congr hP) hsh2
          split
          · rename_i completed hc
            split
            · intro s hs
              cases hs
              exact hrec completed hc
            · exact hsh2
          · exact hsh2
        · exact hsh2

end PrefVerif.C18BF
