import PrefVerif.Model.ILP
/-!
# ILP helper lemmas, part 1: what the individual constraints say

`Sat asg cs` (every constraint of `cs` holds under `asg`) distributes over the list combinators used
by the generators; each constraint shape is rewritten as a plain rational (in)equality; the index
combinations `combos2` / `combos3` of an ascending list are the ascending pairs / triples.
-/
namespace PrefVerif.ILPP
open PrefVerif PrefVerif.ILP

/-- every constraint holds (unfolded form of `Feasible`) -/
def Sat (asg : Var → Rat) (cs : List Constr) : Prop := ∀ c ∈ cs, satisfies asg c = true

/-- 0/1 valued (unfolded form of `IsBin`) -/
def Bin (r : Rat) : Prop := r = 0 ∨ r = 1

variable {asg : Var → Rat}

theorem sat_nil : Sat asg [] := by intro c hc; simp at hc

theorem sat_cons {c : Constr} {cs : List Constr} : Sat asg (c :: cs) ↔ satisfies asg c = true ∧ Sat asg cs := by
  simp [Sat]

theorem sat_append {A B : List Constr} : Sat asg (A ++ B) ↔ Sat asg A ∧ Sat asg B := by
  simp only [Sat, List.mem_append]
  exact ⟨fun h => ⟨fun c hc => h c (Or.inl hc), fun c hc => h c (Or.inr hc)⟩,
    fun h c hc => hc.elim (h.1 c) (h.2 c)⟩

theorem sat_flatMap {α : Type} {l : List α} {f : α → List Constr} :
    Sat asg (l.flatMap f) ↔ ∀ x ∈ l, Sat asg (f x) := by
  simp only [Sat, List.mem_flatMap]
  exact ⟨fun h x hx c hc => h c ⟨x, hx, hc⟩, fun h c ⟨x, hx, hc⟩ => h x hx c hc⟩

theorem sat_map {α : Type} {l : List α} {f : α → Constr} :
    Sat asg (l.map f) ↔ ∀ x ∈ l, satisfies asg (f x) = true := by
  simp only [Sat, List.mem_map]
  exact ⟨fun h x hx => h _ ⟨x, hx, rfl⟩, fun h c ⟨x, hx, hc⟩ => hc ▸ h x hx⟩

/-! ### the constraint shapes -/

theorem satisfies_transOne (x y z : Nat) :
    satisfies asg (transOne x y z) = true ↔
      asg (.leftOf x y) + asg (.leftOf y z) - asg (.leftOf x z) ≤ 1 := by
  simp only [satisfies, transOne, eval, List.map, List.sum_cons, List.sum_nil]
  constructor <;> intro h <;> grind

theorem satisfies_total (a b : Nat) :
    satisfies asg { terms := [(1, .leftOf a b), (1, .leftOf b a)], sense := .eq, rhs := 1 } = true ↔
      asg (.leftOf a b) + asg (.leftOf b a) = 1 := by
  simp only [satisfies, eval, List.map, List.sum_cons, List.sum_nil]
  constructor <;> intro h <;> grind

theorem satisfies_ordering (m a b : Nat) :
    satisfies asg (ordering m a b) = true ↔
      asg (.pos a) - asg (.pos b) + (m : Rat) * asg (.leftOf a b) ≤ m := by
  simp only [satisfies, ordering, eval, List.map, List.sum_cons, List.sum_nil]
  constructor <;> intro h <;> grind

theorem satisfies_diffPos (m a b : Nat) :
    satisfies asg (diffPos m a b) = true ↔
      -(m : Rat) ≤ asg (.pos b) - asg (.pos a) - ((1 : Rat) / 2 + m) * asg (.leftOf a b) := by
  simp only [satisfies, diffPos, eval, List.map, List.sum_cons, List.sum_nil, decide_eq_true_eq, ge_iff_le]
  constructor <;> intro h <;> grind

/-- sum of the values of the relaxation variables -/
def relaxSum (asg : Var → Rat) (relax : List Var) : Rat := (relax.map asg).sum

theorem eval_relax (relax : List Var) :
    eval asg (relax.map (fun v => ((-1 : Rat), v))) = - relaxSum asg relax := by
  induction relax with
  | nil => simp [eval, relaxSum]
  | cons v vs ih =>
    simp only [eval, relaxSum, List.map, List.sum_cons] at ih ⊢
    rw [ih]; grind

theorem eval_pair_relax (u v : Var) (relax : List Var) :
    eval asg ([(1, u), (1, v)] ++ relax.map (fun w => ((-1 : Rat), w))) =
      asg u + asg v - relaxSum asg relax := by
  have h := eval_relax (asg := asg) relax
  simp only [eval, List.map, List.cons_append, List.nil_append, List.sum_cons] at h ⊢
  rw [h]; grind

theorem sat_consOnesPair (i j k : Nat) (relax : List Var) :
    Sat asg (consOnesPair i j k relax) ↔
      (asg (.leftOf i k) + asg (.leftOf k j) - relaxSum asg relax ≤ 1 ∧
       asg (.leftOf j k) + asg (.leftOf k i) - relaxSum asg relax ≤ 1) := by
  simp only [consOnesPair, sat_cons, satisfies, eval_pair_relax, decide_eq_true_eq]
  exact ⟨fun h => ⟨h.1, h.2.1⟩, fun h => ⟨h.1, h.2, sat_nil⟩⟩

/-! ### ascending pairs and triples -/

theorem mem_combos2 {l : List Nat} (hl : l.Pairwise (· < ·)) (a b : Nat) :
    (a, b) ∈ combos2 l ↔ a ∈ l ∧ b ∈ l ∧ a < b := by
  induction l with
  | nil => simp [combos2]
  | cons x t ih =>
    have hx : ∀ y ∈ t, x < y := (List.pairwise_cons.1 hl).1
    have ht := (List.pairwise_cons.1 hl).2
    simp only [combos2, List.mem_append, List.mem_map, Prod.mk.injEq, ih ht, List.mem_cons]
    constructor
    · rintro (⟨y, hy, rfl, rfl⟩ | ⟨ha, hb, hab⟩)
      · exact ⟨Or.inl rfl, Or.inr hy, hx y hy⟩
      · exact ⟨Or.inr ha, Or.inr hb, hab⟩
    · rintro ⟨ha | ha, hb | hb, hab⟩
      · omega
      · exact Or.inl ⟨b, hb, ha.symm, rfl⟩
      · have := hx a ha; omega
      · exact Or.inr ⟨ha, hb, hab⟩

theorem mem_combos3 {l : List Nat} (hl : l.Pairwise (· < ·)) (a b c : Nat) :
    (a, b, c) ∈ combos3 l ↔ a ∈ l ∧ b ∈ l ∧ c ∈ l ∧ a < b ∧ b < c := by
  induction l with
  | nil => simp [combos3]
  | cons x t ih =>
    have hx : ∀ y ∈ t, x < y := (List.pairwise_cons.1 hl).1
    have ht := (List.pairwise_cons.1 hl).2
    simp only [combos3, List.mem_append, List.mem_map, Prod.mk.injEq, ih ht, List.mem_cons]
    constructor
    · rintro (⟨⟨y, z⟩, hyz, rfl, rfl, rfl⟩ | ⟨ha, hb, hc, hab, hbc⟩)
      · obtain ⟨hy, hz, hyz'⟩ := (mem_combos2 ht y z).1 hyz
        exact ⟨Or.inl rfl, Or.inr hy, Or.inr hz, hx y hy, hyz'⟩
      · exact ⟨Or.inr ha, Or.inr hb, Or.inr hc, hab, hbc⟩
    · rintro ⟨ha | ha, hb | hb, hc | hc, hab, hbc⟩
      · omega
      · omega
      · have := hx b hb; omega
      · exact Or.inl ⟨(b, c), (mem_combos2 ht b c).2 ⟨hb, hc, hbc⟩, ha.symm, rfl, rfl⟩
      · have := hx a ha; omega
      · have := hx a ha; omega
      · have := hx b hb; omega
      · exact Or.inr ⟨ha, hb, hc, hab, hbc⟩

theorem mem_combos2_range (m a b : Nat) : (a, b) ∈ combos2 (List.range m) ↔ a < b ∧ b < m := by
  rw [mem_combos2 List.pairwise_lt_range]; simp only [List.mem_range]; omega

theorem mem_combos3_range (m a b c : Nat) :
    (a, b, c) ∈ combos3 (List.range m) ↔ a < b ∧ b < c ∧ c < m := by
  rw [mem_combos3 List.pairwise_lt_range]; simp only [List.mem_range]; omega

end PrefVerif.ILPP
