import PrefVerif.Lemmas.C13Path
import PrefVerif.Lemmas.C13Lists
import PrefVerif.Lemmas.C13cCount
/-!
# C13 completeness, part 2 — leaves

`a` is a leaf with neighbour `b` when `b` is the only vertex adjacent to `a`.  A connected set
containing `a` and something else contains `b` (`leaf_nbr_mem`); removing a leaf from a connected
set keeps it connected, even after deleting the edges touching the leaf (`Conn.remove_leaf`).
Plus the list facts about prefixes used by the step lemma.
-/
namespace PrefVerif.C13c
open PrefVerif.C13 PrefVerif.SPTree

/-- `b` is the only neighbour of `a` -/
def Leaf (E : List (Nat × Nat)) (a b : Nat) : Prop := ∀ w, Adj E a w → w = b

/-- at most one incident edge: the neighbour is unique -/
theorem leaf_of_count {E : List (Nat × Nat)} {a b : Nat} (hc : E.countP (inc a) ≤ 1)
    (hab : Adj E a b) : Leaf E a b := by
  intro w hw
  have key : ∀ e1 ∈ E, ∀ e2 ∈ E, inc a e1 = true → inc a e2 = true → e1 = e2 :=
    countP_le_one_unique E hc
  rcases hw with hw | hw <;> rcases hab with hab | hab
  · have := key _ hw _ hab (by simp [inc]) (by simp [inc])
    exact (Prod.mk.inj this).2
  · have := key _ hw _ hab (by simp [inc]) (by simp [inc])
    have h := Prod.mk.inj this
    rw [h.2, h.1]
  · have := key _ hw _ hab (by simp [inc]) (by simp [inc])
    have h := Prod.mk.inj this
    rw [h.1, ← h.2]
  · have := key _ hw _ hab (by simp [inc]) (by simp [inc])
    exact (Prod.mk.inj this).1

/-- a connected set containing the leaf and another vertex contains the leaf's neighbour -/
theorem leaf_nbr_mem {E : List (Nat × Nat)} {S : List Nat} {a b x : Nat} (hl : Leaf E a b)
    (hc : Conn E S) (ha : a ∈ S) (hx : x ∈ S) (hxa : x ≠ a) : b ∈ S := by
  cases hc a ha x hx with
  | refl => exact absurd rfl hxa
  | step _ w _ _ he hw _ => rw [← hl w he]; exact hw

/-- a vertex of a connected set with at least two members has a neighbour in the set -/
theorem exists_nbr {E : List (Nat × Nat)} {S : List Nat} {a x : Nat}
    (hc : Conn E S) (ha : a ∈ S) (hx : x ∈ S) (hxa : x ≠ a) : ∃ b, b ∈ S ∧ Adj E a b := by
  cases hc a ha x hx with
  | refl => exact absurd rfl hxa
  | step _ w _ _ he hw _ => exact ⟨w, hw, he⟩

theorem mem_filter_ne {S : List Nat} {a x : Nat} : x ∈ S.filter (· != a) ↔ x ∈ S ∧ x ≠ a := by
  simp [List.mem_filter]

/-- rerouting a path around the leaf `a`: `E'` keeps every edge not touching `a` -/
theorem Path.remove_leaf {E E' : List (Nat × Nat)} {S : List Nat} {a b : Nat} (hl : Leaf E a b)
    (hd : ∀ e ∈ E, e.1 ≠ e.2)
    (hE' : ∀ u w, Adj E u w → u ≠ a → w ≠ a → Adj E' u w) {u v : Nat} (h : Path E S u v)
    (hv : v ≠ a) :
    (u ≠ a → Path E' (S.filter (· != a)) u v) ∧ (u = a → Path E' (S.filter (· != a)) b v) := by
  induction h with
  | refl u hu =>
    exact ⟨fun _ => Path.refl u (mem_filter_ne.2 ⟨hu, hv⟩), fun h => absurd h hv⟩
  | step u w v hu he hw _ ih =>
    have ih := ih hv
    constructor
    · intro hua
      by_cases hwa : w = a
      · have hub : u = b := hl u (by rw [← hwa]; exact Or.symm he)
        rw [hub]
        exact ih.2 hwa
      · exact Path.step u w v (mem_filter_ne.2 ⟨hu, hua⟩) (hE' u w he hua hwa)
          (mem_filter_ne.2 ⟨hw, hwa⟩) (ih.1 hwa)
    · intro hua
      have hwb : w = b := hl w (by rw [← hua]; exact he)
      have hwa : w ≠ a := by
        intro hwa
        rcases he with he | he
        · exact (hd _ he) (by simp [hua, hwa])
        · exact (hd _ he) (by simp [hua, hwa])
      rw [← hwb]
      exact ih.1 hwa

/-- removing a leaf (and the edges touching it) from a connected set keeps it connected -/
theorem Conn.remove_leaf {E E' : List (Nat × Nat)} {S : List Nat} {a b : Nat} (hl : Leaf E a b)
    (hd : ∀ e ∈ E, e.1 ≠ e.2) (hE' : ∀ u w, Adj E u w → u ≠ a → w ≠ a → Adj E' u w)
    (hc : Conn E S) : Conn E' (S.filter (· != a)) := by
  intro u hu v hv
  have hu' := mem_filter_ne.1 hu
  have hv' := mem_filter_ne.1 hv
  exact (Path.remove_leaf hl hd hE' (hc u hu'.1 v hv'.1) hv'.2).1 hu'.2

/-! ### list facts -/

/-- every prefix of a filtered list is the filtering of a prefix -/
theorem filter_take_prefix (p : Nat → Bool) : ∀ (l : List Nat) (j : Nat),
    ∃ k, (l.filter p).take j = (l.take k).filter p := by
  intro l
  induction l with
  | nil => intro j; exact ⟨0, by simp⟩
  | cons y t ih =>
    intro j
    by_cases hy : p y = true
    · cases j with
      | zero => exact ⟨0, by simp⟩
      | succ j =>
        obtain ⟨k, hk⟩ := ih j
        exact ⟨k + 1, by simp [hy, hk]⟩
    · obtain ⟨k, hk⟩ := ih j
      exact ⟨k + 1, by simp [hy, hk]⟩

/-- the prefix ending with `a` consists of `a` and what precedes it -/
theorem exists_take_takeWhile {a : Nat} : ∀ (l : List Nat), a ∈ l →
    ∃ k, ∀ x, x ∈ l.take k ↔ (x ∈ l.takeWhile (fun c => c != a) ∨ x = a) := by
  intro l
  induction l with
  | nil => intro h; cases h
  | cons y t ih =>
    intro h
    by_cases hya : y = a
    · refine ⟨1, fun x => ?_⟩
      simp [hya]
    · have hat : a ∈ t := by
        rcases List.mem_cons.1 h with h | h
        · exact absurd h.symm hya
        · exact h
      obtain ⟨k, hk⟩ := ih hat
      refine ⟨k + 1, fun x => ?_⟩
      have : (y != a) = true := by simpa using hya
      rw [List.take_succ_cons, List.takeWhile_cons, if_pos this]
      simp only [List.mem_cons, hk]
      exact or_assoc.symm

/-- all but the last element of a duplicate-free list -/
theorem mem_dropLast_of_getLast? {r : List Nat} {a : Nat} (hr : r.Nodup)
    (hlast : r.getLast? = some a) : ∀ x, x ∈ r.dropLast ↔ (x ∈ r ∧ x ≠ a) := by
  have hsplit : r.dropLast ++ [a] = r := by
    obtain ⟨ys, rfl⟩ := List.getLast?_eq_some_iff.1 hlast
    simp
  intro x
  rw [← hsplit] at hr
  have hnd := List.nodup_append.1 hr
  constructor
  · intro hx
    refine ⟨by rw [← hsplit]; exact List.mem_append_left _ hx, ?_⟩
    intro hxa
    exact hnd.2.2 x hx a (List.mem_singleton.2 rfl) hxa
  · rintro ⟨hx, hxa⟩
    rw [← hsplit] at hx
    rcases List.mem_append.1 hx with h | h
    · exact h
    · exact absurd (List.mem_singleton.1 h) hxa

theorem getLast?_filter_ne {a a' : Nat} : ∀ (l : List Nat), l.getLast? = some a' → a' ≠ a →
    (l.filter (· != a)).getLast? = some a' := by
  intro l h hne
  have hsplit : l.dropLast ++ [a'] = l := by
    obtain ⟨ys, rfl⟩ := List.getLast?_eq_some_iff.1 h
    simp
  have : (a' != a) = true := by simpa using hne
  rw [← hsplit, List.filter_append]
  simp [this]

end PrefVerif.C13c
