import PrefVerif.Lemmas.C09Fold
import PrefVerif.Lemmas.IOLoop
/-!
# C09 — the written matching file as a list of lines, and the header loop on it
-/
namespace PrefVerif.C09
open PrefVerif PrefVerif.Py PrefVerif.InstanceIO PrefVerif.MatchingIO PrefVerif.Spec.IO PrefVerif.IOL

variable {W : Type}

def numEdgesKey : Str := s "# NUMBER EDGES:"

/-- the two numeric lines of a matching file -/
def numLines (i : MatchInst W) : List Str :=
  [numLine numAltKey i.header.numAlternatives, numLine numEdgesKey i.numEdges]

/-- header lines of the written file -/
def hdrLines (i : MatchInst W) : List Str :=
  metaLines i.header ++ numLines i ++ i.header.altNames.map (numberedLine altPfx)

/-- the weight as written (nothing for a missing weight) -/
def weightText (showW : W → Str) : Option W → Str
  | some w => showW w
  | none => []

/-- an edge line `a, b, w` -/
def edgeText (showW : W → Str) (e : Nat × Nat × Option W) : Str :=
  natToStr e.1 ++ ',' :: ' ' :: natToStr e.2.1 ++ ',' :: ' ' :: weightText showW e.2.2

/-- edge lines of the written file -/
def edgeLines (showW : W → Str) (g : Graph W) : List Str := (edgeList g).map (edgeText showW)

theorem write_eq (showW : W → Str) (i : MatchInst W) :
    write showW i = unlines (hdrLines i ++ edgeLines showW i.graph) := by
  have hb : ((stableSort (fun a b => decide (a ≤ b)) i.graph.nodes).flatMap (fun n =>
        (stableSort (fun a b => decide (a ≤ b)) ((i.graph.nodeMapping.get? n).getD [])).map (fun b =>
          natToStr n ++ s ", " ++ natToStr b ++ s ", "
            ++ (match i.graph.weights.get? (n, b) with | some w => showW w | none => []) ++ s "\n"))).flatten
      = unlines (edgeLines showW i.graph) := by
    simp only [unlines, edgeLines, edgeList, succs, List.map_flatMap, List.map_map]
    congr 1
    simp only [List.flatMap_def]
    congr 1
    apply List.map_congr_left
    intro n _
    apply List.map_congr_left
    intro b _
    simp only [Function.comp_def, edgeText, s, weightText]
    cases i.graph.weights.get? (n, b) <;> simp
  have hn : s "# NUMBER ALTERNATIVES: " ++ natToStr i.header.numAlternatives
      ++ s "\n# NUMBER EDGES: " ++ natToStr i.numEdges ++ s "\n" = unlines (numLines i) := by
    simp [unlines, numLines, numLine, numAltKey, numEdgesKey, s]
  simp only [write, writeMetadata_eq, writeAltNames_eq, hdrLines, unlines_append, ← hn, ← hb]
  simp only [List.append_assoc]
  rfl

theorem lineOK_numLines (i : MatchInst W) : ∀ l ∈ numLines i, LineOK l := by
  intro l hl
  simp only [numLines, List.mem_cons, List.not_mem_nil, or_false] at hl
  rcases hl with rfl | rfl <;> exact lineOK_numLine (lineOK_of_all (by decide)) _

theorem lineOK_hdrLines (i : MatchInst W) (h : wfHeader i.header = true) :
    ∀ l ∈ hdrLines i, LineOK l := by
  intro l hl
  simp only [hdrLines, List.mem_append] at hl
  rcases hl with (hl | hl) | hl
  · exact lineOK_metaLines h l hl
  · exact lineOK_numLines i l hl
  · exact lineOK_altLines h l hl

/-! ## the stripped header lines -/

/-- `hdrLines` as the header loop sees them -/
def hdrPl (i : MatchInst W) : List Str :=
  Field.all.map (fun f => f.key ++ padded (f.get i.header))
    ++ [numAltKey ++ ' ' :: natToStr i.header.numAlternatives,
        numEdgesKey ++ ' ' :: natToStr i.numEdges]
    ++ i.header.altNames.map (fun kv => altPfx ++ natToStr kv.1 ++ ':' :: padded kv.2)

theorem strip_of_clean {t : Str} (h : cleanText t = true) : strip t = t := ((cleanText_iff t).1 h).2

theorem pl_hdrLines (i : MatchInst W) (h : wfHeader i.header = true) : (hdrLines i).map pl = hdrPl i := by
  obtain ⟨hf, _, hv⟩ := (wfHeader_iff _).1 h
  have h1 := pl_numLine (s " NUMBER ALTERNATIVES") i.header.numAlternatives
  have h2 := pl_numLine (s " NUMBER EDGES") i.numEdges
  simp only [hdrLines, hdrPl, List.map_append, pl_metaLines _ (fun f => strip_of_clean (hf f)),
    pl_altLines _ (fun kv hkv => strip_of_clean (hv kv hkv)), numLines, List.map_cons, List.map_nil]
  congr 2
  rw [show numAltKey = '#' :: s " NUMBER ALTERNATIVES" ++ [':'] by decide,
      show numEdgesKey = '#' :: s " NUMBER EDGES" ++ [':'] by decide, h1, h2]

theorem hdrPl_hash (i : MatchInst W) : ∀ l ∈ hdrPl i, startsWith l ['#'] = true := by
  intro l hl
  simp only [hdrPl, List.mem_append, List.mem_map, List.mem_cons, List.not_mem_nil, or_false] at hl
  rcases hl with (⟨f, _, rfl⟩ | rfl | rfl) | ⟨kv, _, rfl⟩
  · exact startsWith_hash_cons _
  · exact startsWith_hash_cons _
  · exact startsWith_hash_cons _
  · exact startsWith_hash_cons _

/-! ## the header step -/

/-- on every line that is not `# NUMBER EDGES` the step is `parse_metadata` on the header -/
theorem headerStep_lift (ac : Bool) (i : MatchInst W) (a : Header) (line : Str)
    (h : startsWith line (s "# NUMBER EDGES") = false) :
    headerStep ac { i with header := a } line
      = (parseMetadata a line ac).map (fun h => { i with header := h }) := by
  simp only [headerStep, h]
  cases parseMetadata a line ac <;> rfl

theorem headerStep_numEdges (ac : Bool) (i : MatchInst W) (n : Nat) :
    headerStep ac i (numEdgesKey ++ ' ' :: natToStr n) = .ok { i with numEdges := n } := by
  have := intField_space_natToStr n
  simp [headerStep, startsWith, numEdgesKey, s, List.isPrefixOf, this]
  rfl

theorem field_not_edges (f : Field) (w : Str) :
    startsWith (f.key ++ w) (s "# NUMBER EDGES") = false := by
  cases f <;> simp [startsWith, Field.key, Field.name, s, List.isPrefixOf]

theorem numAlt_not_edges (w : Str) : startsWith (numAltKey ++ w) (s "# NUMBER EDGES") = false := by
  simp [startsWith, numAltKey, s, List.isPrefixOf]

theorem alt_not_edges (w : Str) : startsWith (altPfx ++ w) (s "# NUMBER EDGES") = false := by
  simp [startsWith, altPfx, s, List.isPrefixOf]

/-- the header of the written file, folded from any starting instance without names: header
(except `num_voters`, which a matching file does not carry) and `numEdges` are those of `i` -/
theorem fold_header (i i0 : MatchInst W) (h : wfHeader i.header = true) (h0 : i0.header.altNames = []) :
    (hdrPl i).foldlM (headerStep false) i0
      = .ok { i0 with header := { i.header with numVoters := i0.header.numVoters },
                      numEdges := i.numEdges } := by
  obtain ⟨hf, hk, hv⟩ := (wfHeader_iff _).1 h
  -- part 1: the nine text fields
  have hA : (Field.all.map (fun f => f.key ++ padded (f.get i.header))).foldlM (headerStep false) i0
      = .ok { i0 with header := { i.header with numAlternatives := i0.header.numAlternatives,
                                                numVoters := i0.header.numVoters, altNames := [] } } := by
    have := foldlM_lift (fun a l => parseMetadata a l false) (headerStep false)
      (fun a => { i0 with header := a }) (Field.all.map (fun f => f.key ++ padded (f.get i.header)))
      (by
        intro l hl a
        obtain ⟨f, _, rfl⟩ := List.mem_map.1 hl
        exact headerStep_lift false i0 a _ (field_not_edges f _))
      i0.header
    rw [← pl_metaLines _ (fun f => strip_of_clean (hf f)), foldlM_metaLines i0.header i.header
      (fun f => strip_of_clean (hf f)) false, h0] at this
    rw [← pl_metaLines _ (fun f => strip_of_clean (hf f))]
    exact this
  -- part 2: the numeric fields
  have hB : ∀ j : MatchInst W,
      [numAltKey ++ ' ' :: natToStr i.header.numAlternatives,
       numEdgesKey ++ ' ' :: natToStr i.numEdges].foldlM (headerStep false) j
      = .ok { j with header := { j.header with numAlternatives := i.header.numAlternatives },
                     numEdges := i.numEdges } := by
    intro j
    have e1 := headerStep_lift false j j.header _ (numAlt_not_edges (' ' :: natToStr i.header.numAlternatives))
    rw [parseMetadata_numAlternatives] at e1
    simp only [List.foldlM_cons, List.foldlM_nil]
    rw [show j = { j with header := j.header } from rfl, e1]
    simp only [Except.map, bind, Except.bind]
    rw [headerStep_numEdges]
    rfl
  -- part 3: the alternative names
  have hC : ∀ j : MatchInst W, j.header.altNames = [] →
      (i.header.altNames.map (fun kv => altPfx ++ natToStr kv.1 ++ ':' :: padded kv.2)).foldlM
        (headerStep false) j = .ok { j with header := { j.header with altNames := i.header.altNames } } := by
    intro j hj
    have := foldlM_lift (fun a l => parseMetadata a l false) (headerStep false)
      (fun a => { j with header := a })
      (i.header.altNames.map (fun kv => altPfx ++ natToStr kv.1 ++ ':' :: padded kv.2))
      (by
        intro l hl a
        obtain ⟨kv, _, rfl⟩ := List.mem_map.1 hl
        rw [List.append_assoc]
        exact headerStep_lift false j a _ (alt_not_edges _))
      j.header
    rw [← pl_altLines _ (fun kv hkv => strip_of_clean (hv kv hkv)),
      foldlM_altLines_nil j.header i.header.altNames hj hk hv] at this
    rw [← pl_altLines _ (fun kv hkv => strip_of_clean (hv kv hkv))]
    exact this
  rw [hdrPl, foldlM_append_ok _ _ _ _ _ (by rw [foldlM_append_ok _ _ _ _ _ hA]; exact hB _), hC _ rfl]

end PrefVerif.C09
