import PrefVerif.Spec.NearlySP
import PrefVerif.Lemmas.C11ConsOnes
/-!
# ILP helper lemmas, part 6: restricted orders and partial column orders

The unions of the best classes of a restricted order are the restricted unions of the best classes;
the consecutive-ones matrix read on a list of *some* of the column indices.
-/
namespace PrefVerif.ILPP
open PrefVerif PrefVerif.Spec PrefVerif.Spec.Nearly PrefVerif.C05 PrefVerif.C11 PrefVerif.SinglePeakedAxis

theorem restrictOrder_nil (keep : List Nat) : restrictOrder keep [] = [] := rfl

theorem restrictOrder_cons_of_empty (keep c : List Nat) (o : Order)
    (h : c.filter (fun a => keep.contains a) = []) :
    restrictOrder keep (c :: o) = restrictOrder keep o := by
  simp only [restrictOrder, List.map_cons, List.filter_cons, h, List.isEmpty_nil, Bool.not_true,
    Bool.false_eq_true, if_false]

theorem restrictOrder_cons_of_ne (keep c : List Nat) (o : Order)
    (h : c.filter (fun a => keep.contains a) ≠ []) :
    restrictOrder keep (c :: o) = c.filter (fun a => keep.contains a) :: restrictOrder keep o := by
  simp only [restrictOrder, List.map_cons, List.filter_cons]
  have : (!(c.filter (fun a => keep.contains a)).isEmpty) = true := by
    cases hc : c.filter (fun a => keep.contains a) with
    | nil => exact absurd hc h
    | cons _ _ => rfl
  simp only [this, if_true]

theorem topClasses_nil (k : Nat) : topClasses [] k = [] := by simp [topClasses]

/-- every union of best classes of the restricted order is a restricted union of best classes -/
theorem topClasses_restrict (keep : List Nat) (o : Order) (k : Nat) :
    ∃ k', topClasses (restrictOrder keep o) k = (topClasses o k').filter (fun a => keep.contains a) := by
  induction o generalizing k with
  | nil => exact ⟨0, by simp [restrictOrder_nil, topClasses_nil]⟩
  | cons c o ih =>
    cases k with
    | zero => exact ⟨0, by simp [topClasses_zero]⟩
    | succ k =>
      by_cases h : c.filter (fun a => keep.contains a) = []
      · obtain ⟨k', hk'⟩ := ih (k + 1)
        refine ⟨k' + 1, ?_⟩
        rw [restrictOrder_cons_of_empty keep c o h, hk', topClasses_cons_succ, List.filter_append, h,
          List.nil_append]
      · obtain ⟨k', hk'⟩ := ih k
        refine ⟨k' + 1, ?_⟩
        rw [restrictOrder_cons_of_ne keep c o h, topClasses_cons_succ, topClasses_cons_succ,
          List.filter_append, hk']

/-- and conversely -/
theorem restrict_topClasses (keep : List Nat) (o : Order) (k' : Nat) :
    ∃ k, (topClasses o k').filter (fun a => keep.contains a) = topClasses (restrictOrder keep o) k := by
  induction o generalizing k' with
  | nil => exact ⟨0, by simp [restrictOrder_nil, topClasses_nil]⟩
  | cons c o ih =>
    cases k' with
    | zero => exact ⟨0, by simp [topClasses_zero]⟩
    | succ k' =>
      obtain ⟨k, hk⟩ := ih k'
      by_cases h : c.filter (fun a => keep.contains a) = []
      · refine ⟨k, ?_⟩
        rw [restrictOrder_cons_of_empty keep c o h, topClasses_cons_succ, List.filter_append, h,
          List.nil_append, hk]
      · refine ⟨k + 1, ?_⟩
        rw [restrictOrder_cons_of_ne keep c o h, topClasses_cons_succ, topClasses_cons_succ,
          List.filter_append, hk]

theorem contiguous_congr {axis S S' : List Nat} (h : ∀ a ∈ axis, (a ∈ S ↔ a ∈ S')) :
    Contiguous axis S ↔ Contiguous axis S' := by
  rw [contiguous_def_iff, contiguous_def_iff]
  exact ⟨fun hi => hi.congr h, fun hi => hi.congr (fun a ha => (h a ha).symm)⟩

/-- on an axis made of kept alternatives, restricting the profile changes nothing -/
theorem spOnAxis_restrict (keep : List Nat) (orders : List Order) (axis : List Nat)
    (hax : ∀ a ∈ axis, a ∈ keep) :
    SPOnAxis (orders.map (restrictOrder keep)) axis ↔ SPOnAxis orders axis := by
  have hc : ∀ T : List Nat, Contiguous axis (T.filter (fun a => keep.contains a)) ↔ Contiguous axis T :=
    fun T => contiguous_congr (fun a ha => by simp [List.mem_filter, hax a ha])
  unfold SPOnAxis
  constructor
  · intro h o ho k
    obtain ⟨k2, hk2⟩ := restrict_topClasses keep o k
    rw [← hc, hk2]
    exact h _ (List.mem_map.2 ⟨o, ho, rfl⟩) k2
  · intro h o' ho' k
    obtain ⟨o, ho, rfl⟩ := List.mem_map.1 ho'
    obtain ⟨k', hk'⟩ := topClasses_restrict keep o k
    rw [hk', hc]
    exact h o ho k'

/-! ### a column order listing only some of the columns -/

theorem interval_relabel_sub (alts idx : List Nat) (h : ∀ c ∈ idx, c < alts.length) (p : Nat → Prop) :
    Interval p (idx.map (fun i => alts.getD i 0)) ↔ Interval (fun c => ∃ h : c < alts.length, p alts[c]) idx := by
  rw [interval_map]
  have hc : ∀ c ∈ idx, (p (alts.getD c 0) ↔ ∃ h : c < alts.length, p alts[c]) := by
    intro c hc
    have hlt : c < alts.length := h c hc
    rw [getD_of_lt alts c hlt]
    exact ⟨fun hp => ⟨hlt, hp⟩, fun ⟨_, hp⟩ => hp⟩
  exact ⟨fun hi => hi.congr hc, fun hi => hi.congr (fun c hcm => (hc c hcm).symm)⟩

theorem contiguous_relabel_sub (alts : List Nat) (hn : alts.Nodup) (ord : List Nat)
    (hord : ∀ c ∈ ord, c < alts.length) (T : List Nat) (hT : ∀ a ∈ T, a ∈ alts) :
    Contiguous ord (T.map (fun a => alts.idxOf a)) ↔ Contiguous (ord.map (fun i => alts.getD i 0)) T := by
  rw [contiguous_def_iff, contiguous_def_iff, interval_relabel_sub alts ord hord]
  have hc : ∀ c ∈ ord, (c ∈ T.map (fun a => alts.idxOf a) ↔ ∃ h : c < alts.length, alts[c] ∈ T) := by
    intro c hc
    have hlt : c < alts.length := hord c hc
    constructor
    · intro hm
      obtain ⟨a, ha, hac⟩ := List.mem_map.1 hm
      refine ⟨hlt, ?_⟩
      have hlt' : alts.idxOf a < alts.length := List.idxOf_lt_length_of_mem (hT a ha)
      have : alts[alts.idxOf a] = a := List.getElem_idxOf hlt'
      subst hac
      rw [this]; exact ha
    · rintro ⟨_, hm⟩
      exact List.mem_map.2 ⟨alts[c], hm, hn.idxOf_getElem c hlt⟩
  exact ⟨fun h => h.congr hc, fun h => h.congr (fun c hcm => (hc c hcm).symm)⟩

theorem consOnes_iff_sub (alts : List Nat) (hn : alts.Nodup) (orders : List Order)
    (ho : ∀ o ∈ orders, ∀ a ∈ o.flatten, a ∈ alts) (ord : List Nat)
    (hord : ∀ c ∈ ord, c < alts.length) :
    (∀ r ∈ consOnesRows alts orders, Contiguous ord r) ↔
      SPOnAxis orders (ord.map (fun i => alts.getD i 0)) := by
  unfold SPOnAxis
  constructor
  · intro h o hoo
    rw [forall_topClasses_iff_succ (fun S => Contiguous _ S) (contiguous_nil _)]
    intro lvl hl
    rw [← contiguous_relabel_sub alts hn ord hord _
      (fun a ha => ho o hoo a (mem_flatten_of_mem_topClasses ha))]
    exact h _ ((mem_consOnesRows alts orders _).2 ⟨o, hoo, lvl, hl, rfl⟩)
  · intro h r hr
    obtain ⟨o, hoo, lvl, _, rfl⟩ := (mem_consOnesRows alts orders r).1 hr
    rw [contiguous_relabel_sub alts hn ord hord _
      (fun a ha => ho o hoo a (mem_flatten_of_mem_topClasses ha))]
    exact h o hoo _

end PrefVerif.ILPP
