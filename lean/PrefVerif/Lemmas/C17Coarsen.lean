import PrefVerif.Model.Categorical
import PrefVerif.Spec.Categorical
/-!
# C17 helper lemmas, part 1: `takeUntil`, `catBySize`, `catByCount`, `stripCat`, `padTo`
-/
namespace PrefVerif.C17
open PrefVerif PrefVerif.Categorical PrefVerif.Spec PrefVerif.Py

/-! ### `takeUntil` returns an explicit group of whole classes -/

theorem takeUntil_spec (tp : Nat) (cs : List (List Nat)) (acc : List Nat) :
    ∃ g rest', takeUntil tp cs acc = (acc ++ g.flatten, rest') ∧ cs = g ++ rest' ∧
      (g = [] ∨ (acc ++ g.dropLast.flatten).length < tp) ∧
      (rest' = [] ∨ tp ≤ (acc ++ g.flatten).length) := by
  induction cs generalizing acc with
  | nil => exact ⟨[], [], by simp [takeUntil]⟩
  | cons c rest ih =>
    by_cases h : acc.length < tp
    · obtain ⟨g, rest', h1, h2, h3, h4⟩ := ih (acc ++ c)
      refine ⟨c :: g, rest', ?_, ?_, ?_, ?_⟩
      · simp [takeUntil, h, h1]
      · simp [h2]
      · right
        cases g with
        | nil => simpa using h
        | cons d g' =>
          rcases h3 with h3 | h3
          · cases h3
          · simpa [List.dropLast] using h3
      · rcases h4 with h4 | h4
        · exact Or.inl h4
        · right; simpa using h4
    · refine ⟨[], c :: rest, ?_, ?_, Or.inl rfl, Or.inr ?_⟩
      · simp [takeUntil, h]
      · simp
      · simp; omega

/-! ### the size rule (no hypothesis on the order is needed) -/

theorem sizeRuleGroups_nil (tps : List Nat) : sizeRuleGroups tps [] = true := by
  cases tps <;> simp [sizeRuleGroups]

theorem catBySize_rule_gen (tps : List Nat) (o : List (List Nat)) :
    ∃ groups : List (List (List Nat)), groups.flatten = o ∧ catBySize tps o = groups.map List.flatten ∧
      sizeRuleGroups tps groups = true := by
  induction tps generalizing o with
  | nil =>
    cases o with
    | nil => exact ⟨[], by simp [catBySize, sizeRuleGroups]⟩
    | cons c o => exact ⟨[c :: o], by simp [catBySize, sizeRuleGroups]⟩
  | cons tp tps ih =>
    obtain ⟨g, rest', h1, h2, h3, h4⟩ := takeUntil_spec tp o []
    simp only [List.nil_append] at h1 h3 h4
    by_cases hr : rest' = []
    · subst hr
      refine ⟨[g], by simp [h2], ?_, ?_⟩
      · simp [catBySize, h1]
      · simp only [sizeRuleGroups, sizeRuleGroups_nil, List.isEmpty_nil, Bool.or_true, Bool.and_true,
          Bool.or_eq_true, decide_eq_true_eq, List.isEmpty_iff]
        rcases h3 with h3 | h3
        · exact Or.inr h3
        · exact Or.inl h3
    · obtain ⟨gs, hg1, hg2, hg3⟩ := ih rest'
      refine ⟨g :: gs, by simp [h2, hg1], ?_, ?_⟩
      · have : rest'.isEmpty = false := by cases rest' <;> simp_all
        simp [catBySize, h1, this, hg2]
      · simp only [sizeRuleGroups, hg3, Bool.and_true, Bool.and_eq_true, Bool.or_eq_true,
          decide_eq_true_eq, List.isEmpty_iff]
        refine ⟨?_, ?_⟩
        · rcases h3 with h3 | h3
          · exact Or.inr h3
          · exact Or.inl h3
        · rcases h4 with h4 | h4
          · exact absurd h4 hr
          · exact Or.inl h4

/-! ### the class-count rule -/

theorem all_isEmpty_of_flatten_nil {α : Type} (gs : List (List α)) (h : gs.flatten = []) :
    gs.all List.isEmpty = true := by
  simp only [List.all_eq_true, List.isEmpty_iff]
  intro x hx
  simp only [List.flatten_eq_nil_iff] at h
  exact h x hx

theorem catByCount_rule_gen (ns : List Nat) (o : List (List Nat)) :
    ∃ groups : List (List (List Nat)), groups.flatten = o ∧ catByCount ns o = groups.map List.flatten ∧
      countRuleGroups ns groups = true := by
  induction ns generalizing o with
  | nil =>
    cases o with
    | nil => exact ⟨[], by simp [catByCount, countRuleGroups]⟩
    | cons c o => exact ⟨[c :: o], by simp [catByCount, countRuleGroups]⟩
  | cons n ns ih =>
    obtain ⟨gs, hg1, hg2, hg3⟩ := ih (o.drop n)
    refine ⟨o.take n :: gs, by simp [hg1], by simp [catByCount, hg2], ?_⟩
    simp only [countRuleGroups, hg3, Bool.and_true, Bool.and_eq_true, Bool.or_eq_true,
      decide_eq_true_eq]
    refine ⟨by simp [List.length_take]; omega, ?_⟩
    by_cases hl : n ≤ o.length
    · left; simp [List.length_take]; omega
    · right
      apply all_isEmpty_of_flatten_nil
      rw [hg1]; simp; omega

/-! ### coarsenings -/

theorem coarsening_flatten_eq {o : List (List Nat)} {b : Ballot} (h : Coarsening o b) :
    b.flatten = o.flatten := by
  obtain ⟨groups, h1, h2⟩ := h
  rw [h2, ← h1, List.flatten_flatten]

theorem coarsening_of_size (tps : List Nat) (o : List (List Nat)) : Coarsening o (catBySize tps o) := by
  obtain ⟨g, h1, h2, _⟩ := catBySize_rule_gen tps o
  exact ⟨g, h1, h2⟩

theorem coarsening_of_count (ns : List Nat) (o : List (List Nat)) : Coarsening o (catByCount ns o) := by
  obtain ⟨g, h1, h2, _⟩ := catByCount_rule_gen ns o
  exact ⟨g, h1, h2⟩

theorem padTo_coarsening_gen (n : Nat) (o : List (List Nat)) (b : Ballot) (h : Coarsening o b) :
    Coarsening o (padTo n b) := by
  obtain ⟨groups, h1, h2⟩ := h
  refine ⟨groups ++ List.replicate (n - b.length) [], ?_, ?_⟩
  · simp [h1]
  · simp [padTo, h2]

theorem padTo_length (n : Nat) (b : Ballot) (h : b.length ≤ n) : (padTo n b).length = n := by
  simp [padTo]; omega

/-! ### `stripCat` / `isCoarsening` -/

theorem stripCat_some (o : List (List Nat)) (cat : List Nat) (rest : List (List Nat))
    (h : stripCat o cat = some rest) : ∃ g, o = g ++ rest ∧ g.flatten = cat := by
  induction o generalizing cat with
  | nil =>
    simp only [stripCat] at h
    split at h
    · next hc =>
      cases h
      exact ⟨[], rfl, by simpa using hc.symm⟩
    · cases h
  | cons c o ih =>
    simp only [stripCat] at h
    split at h
    · next hc =>
      cases h
      refine ⟨[], rfl, ?_⟩
      simp only [List.isEmpty_iff] at hc
      simp [hc]
    · split at h
      · next hc hp =>
        obtain ⟨g, hg1, hg2⟩ := ih _ h
        refine ⟨c :: g, by simp [hg1], ?_⟩
        rw [List.isPrefixOf_iff_prefix] at hp
        obtain ⟨t, ht⟩ := hp
        subst ht
        simp at hg2
        simp [hg2]
      · cases h

theorem stripCat_nil_cat (r : List (List Nat)) : stripCat r [] = some r := by
  cases r <;> simp [stripCat]

theorem stripCat_append (g r : List (List Nat)) (hg : ∀ c ∈ g, c ≠ []) :
    stripCat (g ++ r) g.flatten = some r := by
  induction g with
  | nil => simpa using stripCat_nil_cat r
  | cons c g ih =>
    have hc : c ≠ [] := hg c (by simp)
    have hne : (c ++ g.flatten).isEmpty = false := by
      cases c with
      | nil => exact absurd rfl hc
      | cons a c => rfl
    have hp : c.isPrefixOf (c ++ g.flatten) = true := by
      rw [List.isPrefixOf_iff_prefix]; exact List.prefix_append _ _
    simp only [List.cons_append, List.flatten_cons, stripCat, hne, hp, List.drop_left]
    simpa using ih (fun c hc => hg c (by simp [hc]))

theorem isCoarsening_sound (o : List (List Nat)) (b : Ballot) (h : isCoarsening o b = true) :
    Coarsening o b := by
  induction b generalizing o with
  | nil =>
    simp only [isCoarsening, List.isEmpty_iff] at h
    exact ⟨[], by simp [h], rfl⟩
  | cons cat b ih =>
    simp only [isCoarsening] at h
    split at h
    · cases h
    · next rest hs =>
      obtain ⟨g, hg1, hg2⟩ := stripCat_some o cat rest hs
      obtain ⟨gs, hgs1, hgs2⟩ := ih rest h
      exact ⟨g :: gs, by simp [hg1, hgs1], by simp [hg2, hgs2]⟩

theorem isCoarsening_complete (groups : List (List (List Nat)))
    (ho : ∀ c ∈ groups.flatten, c ≠ []) :
    isCoarsening groups.flatten (groups.map List.flatten) = true := by
  induction groups with
  | nil => simp [isCoarsening]
  | cons g gs ih =>
    have h1 : stripCat (g ++ gs.flatten) g.flatten = some gs.flatten :=
      stripCat_append g gs.flatten (fun c hc => ho c (by simp [hc]))
    simp only [List.flatten_cons, List.map_cons, isCoarsening, h1]
    exact ih (fun c hc => ho c (by simp [hc]))

/-! ### zipping a profile with per-order truncators -/

theorem mem_zip_map_zip {α β γ : Type} (f : α × β → γ) (l : List α) (per : List β) (x : α × γ)
    (hx : x ∈ l.zip ((l.zip per).map f)) : ∃ t, x.2 = f (x.1, t) := by
  induction l generalizing per with
  | nil => simp at hx
  | cons a l ih =>
    cases per with
    | nil => simp at hx
    | cons t per =>
      simp only [List.zip_cons_cons, List.map_cons, List.mem_cons] at hx
      rcases hx with hx | hx
      · exact ⟨t, by simp [hx]⟩
      · exact ih per hx

theorem mem_zip_map {α γ : Type} (f : α → γ) (l : List α) (x : α × γ)
    (hx : x ∈ l.zip (l.map f)) : x.2 = f x.1 := by
  induction l with
  | nil => simp at hx
  | cons a l ih =>
    simp only [List.map_cons, List.zip_cons_cons, List.mem_cons] at hx
    rcases hx with hx | hx
    · simp [hx]
    · exact ih hx

end PrefVerif.C17
