import PrefVerif.Lemmas.C09Edge
import PrefVerif.Model.EntryPoints
/-!
# C09 — assembling write → parse
-/
namespace PrefVerif.C09
open PrefVerif PrefVerif.Py PrefVerif.InstanceIO PrefVerif.MatchingIO PrefVerif.Spec.IO PrefVerif.IOL
open PrefVerif.EntryPoints

variable {W : Type}

/-- well-formed matching instance (same text as `wfMat` in `Props/C09.lean`) -/
def WfM (i : MatchInst W) : Prop :=
  wfHeader i.header = true ∧ WfG i.graph ∧ i.graph.edges ≠ [] ∧
  i.numEdges = i.graph.edges.length ∧
  (∀ n ∈ i.graph.nodes, ∃ e ∈ i.graph.edges, e.1 = n ∨ e.2.1 = n)

/-- the instance `parse` returns for the written file -/
def reparsed (i : MatchInst W) : MatchInst W :=
  { header := { i.header with numVoters := i.header.numAlternatives },
    numEdges := ((AList.values (rebuilt i.graph).nodeMapping).map List.length).sum,
    graph := rebuilt i.graph }

theorem foldl_graph (L : List (Nat × Nat × Option W)) (j : MatchInst W) :
    L.foldl (fun (a : MatchInst W) e => { a with graph := addE a.graph e }) j
      = { j with graph := L.foldl addE j.graph } := by
  induction L generalizing j with
  | nil => rfl
  | cons e L ih => simp only [List.foldl_cons]; rw [ih]

section
variable {showW : W → Str} {readW : Str → Option W} (hf : FloatSpec showW readW)
include hf

/-- the written edge lines, read back -/
theorem fold_edges (L : List (Nat × Nat × Option W)) (hw : ∀ e ∈ L, ∃ w, e.2.2 = some w)
    (j : MatchInst W) :
    (L.map (fun e => edgeText showW e ++ ['\n'])).foldlM (edgeLine readW) j
      = .ok { j with graph := L.foldl addE j.graph } := by
  rw [foldlM_map_ok L _ _ (fun (a : MatchInst W) e => { a with graph := addE a.graph e }), foldl_graph]
  intro e he a
  obtain ⟨x, y, ow⟩ := e
  obtain ⟨w, hw'⟩ := hw _ he
  simp only at hw'
  subst hw'
  exact edgeLine_written hf a x y w

theorem edgeText_start (e : Nat × Nat × Option W) (he : ∃ w, e.2.2 = some w) :
    startsWith (strip (edgeText showW e ++ ['\n'])) ['#'] = false := by
  obtain ⟨x, y, ow⟩ := e
  obtain ⟨w, hw'⟩ := he
  simp only at hw'
  subst hw'
  rw [strip_edgeText hf]
  exact edgeText_not_hash showW _

/-- `parse` of the lines `readlines()` returns for the written file -/
theorem parse_written (i i0 : MatchInst W) (h : WfM i) (h0 : i0.header.altNames = [])
    (h1 : i0.graph = {}) :
    parse readW i0 ((hdrLines i ++ edgeLines showW i.graph).map (fun l => l ++ ['\n'])) false false
      = .ok (reparsed i) := by
  obtain ⟨hh, hg, hne, _, _⟩ := h
  have hk := hg.1
  have hwt : ∀ e ∈ edgeList i.graph, ∃ w, e.2.2 = some w :=
    fun e he => weight_of_mem_edges i.graph hg ((mem_edgeList i.graph hk e).1 he)
  have hLne : edgeList i.graph ≠ [] := by
    intro h0
    obtain ⟨e, es, hes⟩ := List.exists_cons_of_ne_nil hne
    have : e ∈ edgeList i.graph := (mem_edgeList i.graph hk e).2 (by rw [hes]; simp)
    rw [h0] at this; simp at this
  -- split off the first edge line
  obtain ⟨r, rs, hrs⟩ : ∃ r rs, (edgeLines showW i.graph).map (fun l => l ++ ['\n']) = r :: rs := by
    apply List.exists_cons_of_ne_nil
    simpa [edgeLines] using hLne
  have hr : startsWith (strip r) ['#'] = false := by
    have : r ∈ (edgeLines showW i.graph).map (fun l => l ++ ['\n']) := by rw [hrs]; simp
    obtain ⟨l, hl, rfl⟩ := List.mem_map.1 this
    obtain ⟨e, he, rfl⟩ := List.mem_map.1 hl
    exact edgeText_start hf e (hwt e he)
  have hstrip : ((hdrLines i).map (fun l => l ++ ['\n'])).map strip = hdrPl i := by
    rw [← pl_hdrLines i hh, List.map_map]; rfl
  have hloop := headerLoop_append (headerStep false) ((hdrLines i).map (fun l => l ++ ['\n'])) r rs
    i0 _ 0
    (by
      intro l hl
      have : strip l ∈ hdrPl i := by rw [← hstrip]; exact List.mem_map_of_mem hl
      exact hdrPl_hash i _ this)
    (by rw [hstrip]; exact fold_header i i0 hh h0)
    hr
  have hbl : (edgeLines showW i.graph).map (fun l => l ++ ['\n'])
      = (edgeList i.graph).map (fun e => edgeText showW e ++ ['\n']) := by
    simp [edgeLines]
  simp only [parse, List.map_append, hrs]
  rw [hloop]
  simp only [bind, Except.bind, Nat.zero_add, List.length_map, Bool.false_eq_true, if_false]
  rw [show List.drop (hdrLines i).length ((hdrLines i).map (fun l => l ++ ['\n']) ++ r :: rs) = r :: rs by
        rw [List.drop_append_of_le_length (by simp)]; simp,
      ← hrs, hbl, fold_edges hf _ hwt]
  simp only [pure, Except.pure, h1, reparsed, rebuilt]

/-- **write → `parse_file`** -/
theorem parseFile_write (i : MatchInst W) (h : WfM i) (base : Str) :
    parseFile readW .matching base (s "wmd") (write showW i) false false = .ok (.mat (reparsed i)) := by
  have hh := h.1
  have hg := h.2.1
  have hlines : ∀ l ∈ hdrLines i ++ edgeLines showW i.graph, LineOK l := by
    intro l hl
    rcases List.mem_append.1 hl with hl | hl
    · exact lineOK_hdrLines i hh l hl
    · obtain ⟨e, he, rfl⟩ := List.mem_map.1 hl
      obtain ⟨x, y, ow⟩ := e
      obtain ⟨w, hw'⟩ := weight_of_mem_edges i.graph hg ((mem_edgeList i.graph hg.1 _).1 he)
      simp only at hw'
      subst hw'
      exact lineOK_edgeText hf x y w
  have hgate : typeValid .matching (s "wmd") = true := by decide
  simp only [parseFile, parseLines, fresh, AnyInst.setHeader, AnyInst.header, hgate, Bool.not_true,
    Bool.false_eq_true, if_false]
  rw [write_eq, readlines_unlines _ hlines, parse_written hf i _ h rfl rfl]
  rfl

end

/-! ## the re-parsed instance -/

theorem reparsed_spec (i : MatchInst W) (h : WfM i) :
    (∀ e, e ∈ (reparsed i).graph.edges ↔ e ∈ i.graph.edges) ∧
    (∀ n, n ∈ (reparsed i).graph.nodes ↔ n ∈ i.graph.nodes) ∧
    WfG (reparsed i).graph ∧
    (reparsed i).numEdges = i.graph.edges.length ∧
    (reparsed i).header = { i.header with numVoters := i.header.numAlternatives } := by
  obtain ⟨_, hg, _, _, hinc⟩ := h
  obtain ⟨r1, r2, r3⟩ := rebuilt_spec i.graph hg hinc
  refine ⟨r2, r3, r1, ?_, rfl⟩
  show ((AList.values (rebuilt i.graph).nodeMapping).map List.length).sum = _
  rw [sum_lengths_eq]
  exact ((List.perm_ext_iff_of_nodup (nodup_edges _ r1) (nodup_edges _ hg)).2 r2).length_eq

/-- writing depends on the instance only through header (minus `num_voters`), `num_edges`,
edge set and node set -/
theorem write_congr (showW : W → Str) (i j : MatchInst W) (hi : WfG i.graph) (hj : WfG j.graph)
    (he : ∀ e, e ∈ j.graph.edges ↔ e ∈ i.graph.edges) (hn : ∀ n, n ∈ j.graph.nodes ↔ n ∈ i.graph.nodes)
    (hnum : j.numEdges = i.numEdges) (v : Nat) (hh : j.header = { i.header with numVoters := v }) :
    write showW j = write showW i := by
  rw [write_eq, write_eq, edgeLines, edgeLines, edgeList_congr i.graph j.graph hi hj he hn]
  simp only [hdrLines, numLines, hnum, hh, metaLines, Field.all, Field.get, List.map_cons, List.map_nil]

end PrefVerif.C09
