import PrefVerif.Lemmas.C04Conflict
import PrefVerif.Lemmas.C04Switch
import PrefVerif.Lemmas.C04Perms
import PrefVerif.Lemmas.IOSort
/-!
# C04 helpers: conflict sets from a first voter form a chain ⇔ single-crossing arrangement exists.
-/
namespace PrefVerif.C04
open PrefVerif PrefVerif.Spec PrefVerif.Distances PrefVerif.SingleCrossing PrefVerif.C20

/-- every pair on which `oj` differs from `oi` is also a pair on which `ok` differs from `oi` -/
def Incl (alts oi oj ok : List Nat) : Prop :=
  ∀ a ∈ alts, ∀ b ∈ alts, a ≠ b → Spec.prefers oi a b ≠ Spec.prefers oj a b →
    Spec.prefers oi a b ≠ Spec.prefers ok a b

theorem Incl.self_left (alts oi ok : List Nat) : Incl alts oi oi ok :=
  fun _ _ _ _ _ h => absurd rfl h

theorem Incl.refl (alts oi oj : List Nat) : Incl alts oi oj oj :=
  fun _ _ _ _ _ h => h

theorem subset_conflict_iff {alts oi oj ok : List Nat} (hi : SameRanking alts oi)
    (hj : SameRanking alts oj) (hk : SameRanking alts ok) :
    SingleCrossing.subset (conflictSet oi oj) (conflictSet oi ok) = true ↔ Incl alts oi oj ok := by
  rw [subset_iff]
  constructor
  · intro h a ha b hb hne hd
    rcases Nat.lt_or_gt_of_ne hne with hlt | hgt
    · have := h (a, b) ((mem_conflictSet hi hj (a, b)).2 ⟨hlt, ha, hb, hd⟩)
      exact ((mem_conflictSet hi hk (a, b)).1 this).2.2.2
    · have ti := prefers_total ((hi.2.2 b).1 hb) (Ne.symm hne)
      have tj := prefers_total ((hj.2.2 b).1 hb) (Ne.symm hne)
      have tk := prefers_total ((hk.2.2 b).1 hb) (Ne.symm hne)
      have hd' : Spec.prefers oi b a ≠ Spec.prefers oj b a := by
        intro e; apply hd; rw [ti, tj, e]
      have := h (b, a) ((mem_conflictSet hi hj (b, a)).2 ⟨hgt, hb, ha, hd'⟩)
      have hd2 := ((mem_conflictSet hi hk (b, a)).1 this).2.2.2
      intro e; apply hd2
      rw [ti, tk] at e
      simpa using e
  · intro h p hp
    obtain ⟨hlt, ha, hb, hd⟩ := (mem_conflictSet hi hj p).1 hp
    exact (mem_conflictSet hi hk p).2 ⟨hlt, ha, hb, h _ ha _ hb (Nat.ne_of_lt hlt) hd⟩

end PrefVerif.C04

namespace PrefVerif.C04
open PrefVerif PrefVerif.Spec PrefVerif.Distances PrefVerif.SingleCrossing PrefVerif.C20

/-! ### from a single-crossing arrangement to a chain of conflict sets -/

theorem stay_tail (a b : Nat) (p0 p1 : List Nat) (l : List (List Nat))
    (h : stay a b p0 (p1 :: l)) : stay a b p0 l := by
  cases l with
  | nil => simp [stay]
  | cons p2 l => exact h.2

theorem stay_pairwise (a b : Nat) (p0 : List Nat) (l : List (List Nat)) (h : stay a b p0 l) :
    l.Pairwise (fun oj ok => Spec.prefers p0 a b ≠ Spec.prefers oj a b →
      Spec.prefers p0 a b ≠ Spec.prefers ok a b) := by
  induction l with
  | nil => exact List.Pairwise.nil
  | cons p1 l ih =>
    rw [List.pairwise_cons]
    refine ⟨?_, ih (stay_tail a b p0 p1 l h)⟩
    intro ok hok hne
    have hne' : Spec.prefers p1 a b ≠ Spec.prefers p0 a b := fun e => hne e.symm
    have := (stay_of_ne a b p0 l p1 hne').1 h ok hok
    rw [this]; exact hne

theorem pairwise_incl_of_scSeq (alts p0 : List Nat) (rest : List (List Nat))
    (h : SCSeq alts (p0 :: rest)) : rest.Pairwise (Incl alts p0) := by
  rw [List.pairwise_iff_forall_sublist]
  intro oj ok hsub a ha b hb hne
  have hs := stay_pairwise a b p0 rest ((stay_iff a b p0 rest).2 (h a ha b hb hne))
  exact (List.pairwise_iff_forall_sublist.1 hs) hsub

theorem pairwise_forall_or {α : Type} {R : α → α → Prop} (l : List α) (hp : l.Pairwise R)
    (hr : ∀ x, R x x) : ∀ x ∈ l, ∀ y ∈ l, R x y ∨ R y x := by
  induction l with
  | nil => intro x hx; simp at hx
  | cons z l ih =>
    rw [List.pairwise_cons] at hp
    intro x hx y hy
    rcases List.mem_cons.1 hx with rfl | hx'
    · rcases List.mem_cons.1 hy with rfl | hy'
      · exact Or.inl (hr _)
      · exact Or.inl (hp.1 y hy')
    · rcases List.mem_cons.1 hy with rfl | hy'
      · exact Or.inr (hp.1 x hx')
      · exact ih hp.2 x hx' y hy'

theorem chain_of_scSeq (alts p0 : List Nat) (rest : List (List Nat)) (h : SCSeq alts (p0 :: rest)) :
    ∀ oj ∈ p0 :: rest, ∀ ok ∈ p0 :: rest, Incl alts p0 oj ok ∨ Incl alts p0 ok oj := by
  intro oj hj ok hk
  rcases List.mem_cons.1 hj with rfl | hj'
  · exact Or.inl (Incl.self_left _ _ _)
  · rcases List.mem_cons.1 hk with rfl | hk'
    · exact Or.inr (Incl.self_left _ _ _)
    · exact pairwise_forall_or rest (pairwise_incl_of_scSeq alts p0 rest h) (Incl.refl alts p0)
        oj hj' ok hk'

theorem isSCWithFirst_iff {alts oi : List Nat} {orders : List (List Nat)} (hi : SameRanking alts oi)
    (h : ∀ o ∈ orders, SameRanking alts o) :
    isSCWithFirst oi orders = true ↔
      ∀ oj ∈ orders, ∀ ok ∈ orders, Incl alts oi oj ok ∨ Incl alts oi ok oj := by
  simp only [isSCWithFirst, List.all_map, List.all_eq_true, Function.comp_apply, Bool.or_eq_true]
  constructor
  · intro hc oj hj ok hk
    rcases hc oj hj ok hk with e | e
    · exact Or.inl ((subset_conflict_iff hi (h oj hj) (h ok hk)).1 e)
    · exact Or.inr ((subset_conflict_iff hi (h ok hk) (h oj hj)).1 e)
  · intro hc oj hj ok hk
    rcases hc oj hj ok hk with e | e
    · exact Or.inl ((subset_conflict_iff hi (h oj hj) (h ok hk)).2 e)
    · exact Or.inr ((subset_conflict_iff hi (h ok hk) (h oj hj)).2 e)

theorem conflictSets_complete' (alts : List Nat) (orders : List (List Nat))
    (h : ∀ o ∈ orders, SameRanking alts o) (hne : orders ≠ []) (hsc : SC alts orders) :
    isSCConflictSets orders = true := by
  obtain ⟨s, hp, hs⟩ := hsc
  cases s with
  | nil => exact absurd hp.symm.eq_nil hne
  | cons p0 rest =>
    have hp0 : p0 ∈ orders := hp.mem_iff.1 List.mem_cons_self
    simp only [isSCConflictSets, List.any_eq_true]
    refine ⟨p0, hp0, (isSCWithFirst_iff (h p0 hp0) h).2 ?_⟩
    intro oj hj ok hk
    exact chain_of_scSeq alts p0 rest hs oj (hp.mem_iff.2 hj) ok (hp.mem_iff.2 hk)

end PrefVerif.C04

namespace PrefVerif.C04
open PrefVerif PrefVerif.Spec PrefVerif.Distances PrefVerif.SingleCrossing PrefVerif.C20 PrefVerif.Py

/-! ### from a chain of conflict sets to a single-crossing arrangement -/

/-- a pair whose "differs from the reference status `t0`" flag is monotone along the sequence
switches at most once -/
theorem switches_le_one_of_pairwise (a b : Nat) (t0 : Bool) (l : List (List Nat))
    (h : l.Pairwise (fun oj ok => t0 ≠ Spec.prefers oj a b → t0 ≠ Spec.prefers ok a b)) :
    switches a b l ≤ 1 := by
  induction l with
  | nil => simp [switches]
  | cons o1 l ih =>
    rw [List.pairwise_cons] at h
    have ih' := ih h.2
    by_cases d1 : t0 = Spec.prefers o1 a b
    · cases l with
      | nil => simp [switches]
      | cons o2 l =>
        rw [switches_cons_cons]
        by_cases e : Spec.prefers o1 a b = Spec.prefers o2 a b
        · simp only [e, bne_self_eq_false, Bool.false_eq_true, if_false, Nat.zero_add]
          exact ih'
        · have hb : (Spec.prefers o1 a b != Spec.prefers o2 a b) = true := by simpa using e
          have h2 := List.pairwise_cons.1 h.2
          have d2 : t0 ≠ Spec.prefers o2 a b := by rw [d1]; exact e
          have hz : switches a b (o2 :: l) = 0 := by
            rw [switches_eq_zero_iff]
            intro p hp
            have := h2.1 p hp d2
            revert this d2
            cases t0 <;> cases Spec.prefers o2 a b <;> cases Spec.prefers p a b <;> simp
          simp only [hb, if_true, hz]
          omega
    · have hz : switches a b (o1 :: l) = 0 := by
        rw [switches_eq_zero_iff]
        intro p hp
        have := h.1 p hp d1
        revert this d1
        cases t0 <;> cases Spec.prefers o1 a b <;> cases Spec.prefers p a b <;> simp
      omega

theorem scSeq_of_pairwise_incl (alts oi : List Nat) (s : List (List Nat))
    (h : s.Pairwise (Incl alts oi)) : SCSeq alts s := by
  intro a ha b hb hne
  apply switches_le_one_of_pairwise a b (Spec.prefers oi a b)
  exact h.imp (fun hI => hI a ha b hb hne)

/-- in a chain, the smaller conflict set is the included one -/
theorem incl_of_length_le {alts oi oj ok : List Nat} (hi : SameRanking alts oi)
    (hj : SameRanking alts oj) (hk : SameRanking alts ok)
    (hc : Incl alts oi oj ok ∨ Incl alts oi ok oj)
    (hl : (conflictSet oi oj).length ≤ (conflictSet oi ok).length) : Incl alts oi oj ok := by
  rcases hc with h | h
  · exact h
  · rw [← subset_conflict_iff hi hk hj, subset_iff] at h
    rw [← subset_conflict_iff hi hj hk, subset_iff]
    exact mem_of_nodup_subset_length _ _ (nodup_conflictSet oi ok) h hl

theorem conflictSets_sound' (alts : List Nat) (orders : List (List Nat))
    (h : ∀ o ∈ orders, SameRanking alts o) (hc : isSCConflictSets orders = true) :
    SC alts orders := by
  simp only [isSCConflictSets, List.any_eq_true] at hc
  obtain ⟨oi, hoi, hw⟩ := hc
  have hi := h oi hoi
  rw [isSCWithFirst_iff hi h] at hw
  let le : List Nat → List Nat → Bool :=
    fun x y => decide ((conflictSet oi x).length ≤ (conflictSet oi y).length)
  have hsorted : IOL.SortedBy le (stableSort le orders) := by
    apply IOL.stableSort_sorted
    · intro x y
      simp only [le, decide_eq_true_eq]
      omega
    · intro x y z
      simp only [le, decide_eq_true_eq]
      omega
  refine ⟨stableSort le orders, IOL.stableSort_perm le orders, ?_⟩
  apply scSeq_of_pairwise_incl alts oi
  refine List.Pairwise.imp_of_mem ?_ hsorted
  intro oj ok hj hk hle
  have hj' := (IOL.mem_stableSort le orders oj).1 hj
  have hk' := (IOL.mem_stableSort le orders ok).1 hk
  simp only [le, decide_eq_true_eq] at hle
  exact incl_of_length_le hi (h oj hj') (h ok hk') (hw oj hj' ok hk') hle

end PrefVerif.C04
