import PrefVerif.Lemmas.C14AList
/-!
# C14 helper lemmas, part 2: top-`k` counts of the full profile versus weighted counts of the
compressed profile; the score tables of `firstScores` / `levelPass`
-/
namespace PrefVerif.C14
open PrefVerif PrefVerif.SingleWinner PrefVerif.Spec PrefVerif.Py

/-! ### full profile versus multiplicities -/

theorem votes_cons (om : Order × Nat) (p : Profile) :
    votes (om :: p) = List.replicate om.2 om.1 ++ votes p := by
  simp [votes]

theorem countP_votes (p : Profile) (q : Order → Bool) : (votes p).countP q = wcount p q := by
  induction p with
  | nil => simp [votes, wcount]
  | cons om p ih =>
    rw [votes_cons, List.countP_append, ih, List.countP_replicate]
    simp [wcount]

theorem length_votes (p : Profile) : (votes p).length = (p.map (·.2)).sum := by
  induction p with
  | nil => simp [votes]
  | cons om p ih => rw [votes_cons, List.length_append, ih]; simp

theorem numVoters_eq (i : Inst) : i.numVoters = (votes i.profile).length := by
  rw [length_votes]; rfl

theorem mem_votes {p : Profile} {o : Order} (h : o ∈ votes p) : ∃ om ∈ p, om.1 = o ∧ 1 ≤ om.2 := by
  unfold votes at h
  obtain ⟨om, hom, ho⟩ := List.mem_flatMap.mp h
  obtain ⟨hne, rfl⟩ := List.mem_replicate.mp ho
  exact ⟨om, hom, rfl, by omega⟩

theorem mem_votes_of_mem {p : Profile} {om : Order × Nat} (h : om ∈ p) (h1 : 1 ≤ om.2) :
    om.1 ∈ votes p := by
  unfold votes
  refine List.mem_flatMap.mpr ⟨om, h, List.mem_replicate.mpr ⟨by omega, rfl⟩⟩

/-! ### heads of the classes -/

/-- the ballot as the model reads it: first element of every class -/
def heads (o : Order) : List Nat := o.map (fun c => c.headD 0)

theorem inTop_eq (k : Nat) (o : Order) (a : Nat) : inTop k o a = ((heads o).take k).contains a := by
  unfold inTop heads
  rw [List.map_take]

theorem inTop_iff (k : Nat) (o : Order) (a : Nat) : inTop k o a = true ↔ a ∈ (heads o).take k := by
  rw [inTop_eq]; simp

theorem heads_sublist_flatten (o : Order) (h : ∀ c ∈ o, c ≠ []) : (heads o).Sublist o.flatten := by
  induction o with
  | nil => simp [heads]
  | cons c o ih =>
    have hc := h c (List.mem_cons_self ..)
    have ih' := ih (fun c' hc' => h c' (List.mem_cons_of_mem _ hc'))
    cases c with
    | nil => exact absurd rfl hc
    | cons x c' =>
      simp only [heads, List.map_cons, List.headD_cons, List.flatten_cons, List.cons_append]
      exact List.Sublist.cons_cons _ (List.sublist_append_of_sublist_right ih')

theorem mem_take_succ_iff (l : List Nat) (k a : Nat) :
    a ∈ l.take (k + 1) ↔ a ∈ l.take k ∨ l[k]? = some a := by
  rw [List.take_add_one, List.mem_append]
  simp

theorem not_mem_take_and_get (l : List Nat) (hl : l.Nodup) (k a : Nat)
    (h1 : a ∈ l.take k) (h2 : l[k]? = some a) : False := by
  induction l generalizing k with
  | nil => simp at h2
  | cons x l ih =>
    rw [List.nodup_cons] at hl
    cases k with
    | zero => simp at h1
    | succ k =>
      simp only [List.take_succ_cons, List.mem_cons] at h1
      simp only [List.getElem?_cons_succ] at h2
      rcases h1 with rfl | h1
      · exact hl.1 (List.mem_of_getElem? h2)
      · exact ih hl.2 k h1 h2

/-- the class at position `k` (as `levelPass` reads it) -/
def headAt (k : Nat) (o : Order) : Option Nat := (o[k]?).map (fun c => c.headD 0)

theorem headAt_eq (k : Nat) (o : Order) : headAt k o = (heads o)[k]? := by
  simp [headAt, heads]

theorem inTop_succ_weight (o : Order) (ho : (heads o).Nodup) (k a m : Nat) :
    (if inTop (k + 1) o a = true then m else 0) =
      (if inTop k o a = true then m else 0) + (if (headAt k o == some a) = true then m else 0) := by
  have h1 := mem_take_succ_iff (heads o) k a
  have h2 := not_mem_take_and_get (heads o) ho k a
  simp only [inTop_iff, beq_iff_eq, headAt_eq]
  by_cases ha : a ∈ (heads o).take k
  · by_cases hb : (heads o)[k]? = some a
    · exact absurd hb (fun hb => h2 ha hb)
    · simp [h1, ha, hb]
  · by_cases hb : (heads o)[k]? = some a
    · simp [h1, ha, hb]
    · simp [h1, ha, hb]

theorem wcount_inTop_succ (p : Profile) (hp : ∀ om ∈ p, (heads om.1).Nodup) (k a : Nat) :
    wcount p (fun o => inTop (k + 1) o a) =
      wcount p (fun o => inTop k o a) + wcount p (fun o => headAt k o == some a) := by
  induction p with
  | nil => simp [wcount]
  | cons om p ih =>
    have ih' := ih (fun om' h => hp om' (List.mem_cons_of_mem _ h))
    have h0 := inTop_succ_weight om.1 (hp om (List.mem_cons_self ..)) k a om.2
    simp only [wcount, List.map_cons, List.sum_cons] at ih' ⊢
    omega

/-! ### well-formedness -/

structure WfOrder (alts : List Nat) (o : Order) : Prop where
  ne : o ≠ []
  cls : ∀ c ∈ o, c ≠ []
  sub : ∀ a ∈ o.flatten, a ∈ alts
  nodup : o.flatten.Nodup

theorem wfOrder_iff (alts : List Nat) (o : Order) : wfOrder alts o = true ↔ WfOrder alts o := by
  unfold wfOrder
  simp only [Bool.and_eq_true, Bool.not_eq_true', List.isEmpty_eq_false_iff, List.all_eq_true,
    List.contains_iff_mem, decide_eq_true_eq]
  constructor
  · rintro ⟨⟨⟨h1, h2⟩, h3⟩, h4⟩
    exact ⟨h1, h2, h3, h4⟩
  · rintro ⟨h1, h2, h3, h4⟩
    exact ⟨⟨⟨h1, h2⟩, h3⟩, h4⟩

structure WfInst (i : Inst) : Prop where
  nodup : i.alts.Nodup
  ne : i.profile ≠ []
  ord : ∀ om ∈ i.profile, WfOrder i.alts om.1
  mult : ∀ om ∈ i.profile, 1 ≤ om.2

theorem wfInst_iff (i : Inst) : wfInst i = true ↔ WfInst i := by
  unfold wfInst
  simp only [Bool.and_eq_true, decide_eq_true_eq, Bool.not_eq_true', List.isEmpty_eq_false_iff,
    List.all_eq_true, wfOrder_iff, ge_iff_le]
  constructor
  · rintro ⟨⟨h1, h2⟩, h3⟩
    exact ⟨h1, h2, fun om h => (h3 om h).1, fun om h => (h3 om h).2⟩
  · rintro ⟨h1, h2, h3, h4⟩
    exact ⟨⟨h1, h2⟩, fun om h => ⟨h3 om h, h4 om h⟩⟩

theorem WfOrder.heads_nodup {alts : List Nat} {o : Order} (h : WfOrder alts o) : (heads o).Nodup :=
  (heads_sublist_flatten o h.cls).nodup h.nodup

theorem WfOrder.heads_sub {alts : List Nat} {o : Order} (h : WfOrder alts o) {a : Nat}
    (ha : a ∈ heads o) : a ∈ alts :=
  h.sub a ((heads_sublist_flatten o h.cls).subset ha)

theorem topCount_pos_mem {i : Inst} (h : WfInst i) {k a : Nat}
    (hp : 1 ≤ topCount k (votes i.profile) a) : a ∈ i.alts := by
  unfold topCount at hp
  obtain ⟨o, ho, hin⟩ := List.countP_pos_iff.mp hp
  obtain ⟨om, hom, rfl, _⟩ := mem_votes ho
  rw [inTop_iff] at hin
  exact (h.ord om hom).heads_sub (List.mem_of_mem_take hin)

theorem exists_topCount_pos {i : Inst} (h : WfInst i) {k : Nat} (hk : 1 ≤ k) :
    ∃ a0, 1 ≤ topCount k (votes i.profile) a0 := by
  cases hp : i.profile with
  | nil => exact absurd hp h.ne
  | cons om p =>
    have hom : om ∈ i.profile := by rw [hp]; exact List.mem_cons_self ..
    have hwo := h.ord om hom
    cases ho : om.1 with
    | nil => exact absurd ho hwo.ne
    | cons c o' =>
      refine ⟨c.headD 0, ?_⟩
      rw [← hp]
      unfold topCount
      apply List.countP_pos_iff.mpr
      refine ⟨om.1, mem_votes_of_mem hom (h.mult om hom), ?_⟩
      rw [inTop_iff, ho]
      obtain ⟨k', rfl⟩ : ∃ k', k = k' + 1 := ⟨k - 1, by omega⟩
      simp [heads]

/-! ### the score tables -/

theorem firstScores_eq (p : Profile) :
    firstScores p = p.foldl (stepBy (fun o => some ((o.headD []).headD 0))) [] := rfl

theorem levelPass_eq (p : Profile) (pos : Nat) (s : AList Nat Int) :
    levelPass p pos s = p.foldl (stepBy (headAt pos)) s := by
  unfold levelPass
  congr
  funext s om
  unfold stepBy headAt
  cases om.1[pos]? <;> rfl

theorem wcount_congr (p : Profile) (q1 q2 : Order → Bool) (h : ∀ om ∈ p, q1 om.1 = q2 om.1) :
    wcount p q1 = wcount p q2 := by
  induction p with
  | nil => rfl
  | cons om p ih =>
    have := ih (fun om' h' => h om' (List.mem_cons_of_mem _ h'))
    simp only [wcount, List.map_cons, List.sum_cons] at this ⊢
    rw [h om (List.mem_cons_self ..), this]

theorem reads_firstScores {i : Inst} (h : WfInst i) :
    Reads (firstScores i.profile) (topCount 1 (votes i.profile)) := by
  rw [firstScores_eq]
  refine ⟨keys_nodup_foldl_stepBy _ _ _ (by simp), ?_⟩
  intro a
  rw [get?_foldl_stepBy]
  unfold topCount
  rw [countP_votes]
  simp only [get?_nil, Option.getD_none, Int.zero_add]
  congr 1
  apply wcount_congr
  intro om hom
  have hwo := h.ord om hom
  cases ho : om.1 with
  | nil => exact absurd ho hwo.ne
  | cons c o' =>
    rw [inTop_eq]
    simp only [heads, List.headD_cons, List.map_cons, List.take_succ_cons, List.take_zero]
    generalize c.headD 0 = x
    by_cases hc : x = a
    · subst hc; simp
    · have : ¬ a = x := fun e => hc e.symm
      simp [hc, this]

theorem reads_levelPass {i : Inst} (h : WfInst i) {k : Nat} {s : AList Nat Int}
    (hs : Reads s (topCount k (votes i.profile))) :
    Reads (levelPass i.profile k s) (topCount (k + 1) (votes i.profile)) := by
  rw [levelPass_eq]
  refine ⟨keys_nodup_foldl_stepBy _ _ _ hs.1, ?_⟩
  intro a
  rw [get?_foldl_stepBy, hs.2 a]
  unfold topCount
  rw [countP_votes, countP_votes,
    wcount_inTop_succ i.profile (fun om hom => (h.ord om hom).heads_nodup) k a]
  omega

end PrefVerif.C14
