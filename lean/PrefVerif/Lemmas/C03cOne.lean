import PrefVerif.Lemmas.C03cRound
import PrefVerif.Lemmas.C03cLoops
/-!
# C03 completeness, part 5: one last candidate

The single last candidate `x` is ranked last of the unplaced candidates by every voter, hence it is at
an end of the block `M` of any single-peaked axis `T ++ L ++ M ++ R`.  Either a voter forces the end
(then the code puts `x` there), or every voter ranks `M` above everything placed (then `M` may be
reflected), or two voters force different ends (then no such axis exists).
-/
namespace PrefVerif.C03c
open PrefVerif PrefVerif.ELO PrefVerif.Spec PrefVerif.C03

section
variable {alts : List Nat} {orders : List (List Nat)} {s : State} {popped : List (List Nat × Nat)}
  {M : List Nat} {x : Nat}

theorem one_worst (R : Round alts orders s popped M) (hlast : ∀ r ∈ popped, r.2 = x) {o : List Nat}
    (hoo : o ∈ orders) : ∀ m ∈ M, m ≠ x → lt o m x := by
  obtain ⟨r, hr, hw⟩ := R.voter_worst hoo
  rw [hlast r hr] at hw
  exact hw

theorem one_mem (R : Round alts orders s popped M) (hpne : popped ≠ []) (hlast : ∀ r ∈ popped, r.2 = x) :
    x ∈ M := by
  obtain ⟨r, hr⟩ := List.exists_mem_of_ne_nil _ hpne
  rw [← hlast r hr]; exact R.last_mem hr

/-- the iteration continues: the existential invariant is preserved -/
theorem complete_one_fin {s' : State} (R : Round alts orders s popped M) (hpne : popped ≠ [])
    (hlast : ∀ r ∈ popped, r.2 = x) (hE : EndsOk s) (hF : ∀ o ∈ orders, Full o s)
    (h : stepOne orders { s with prefs := (popped.map (·.1)).map (fun p => p.erase x) } x = .fin s') :
    Ex alts orders s'.tal s'.left s'.right := by
  have hxM := one_mem R hpne hlast
  have hworst := fun o hoo => one_worst R hlast (o := o) hoo
  obtain ⟨o0, ho0⟩ := R.exists_voter hpne
  have hMV := R.hM
  have hV := R.hV
  have hnd := R.nodup
  obtain ⟨prefs, tal, left, right, ends⟩ := s
  simp only at hMV hV
  cases hends : ends with
  | none =>
    subst hends
    have := stepOne_fin_none (by rfl) h
    subst this
    simp only [EndsOk] at hE
    obtain ⟨hl, hr⟩ := hE
    subst hl hr
    rcases worst_at_end (hV o0 ho0) hnd hxM (hworst o0 ho0) with ⟨M', rfl⟩ | ⟨M', rfl⟩
    · exact Ex.of_eq M' (by simp) hMV hV
    · obtain ⟨hM2, hV2⟩ := reflect_valid hMV hV
        (fun o hoo => above_none (hF o hoo) rfl rfl (fun m hm => R.memM hpne hm))
      exact Ex.of_eq M'.reverse (by simp) hM2 hV2
  | some e =>
    obtain ⟨xi, xj⟩ := e
    subst hends
    simp only [EndsOk] at hE
    obtain ⟨⟨L0, hl⟩, ⟨R0, hr⟩⟩ := hE
    subst hl hr
    cases popped with
    | nil => exact absurd rfl hpne
    | cons r rs =>
      have hrx : r.2 = x := hlast r List.mem_cons_self
      have hpr := R.perm_pref (r := r) List.mem_cons_self
      rw [hrx] at hpr
      have her : r.1.erase x = r.1 := erase_one (hpr.nodup_iff.1 hnd)
      by_cases hemp : r.1.erase x = []
      · -- the very last candidate
        have := stepOne_fin_last (xi := xi) (xj := xj) (ps := (rs.map (·.1)).map (fun p => p.erase x))
          (by rfl) (by simp [hemp]) h
        subst this
        rw [her] at hemp
        rw [hemp] at hpr
        have hM1 : M = [x] := List.perm_singleton.1 hpr
        subst hM1
        exact Ex.of_eq [] (by simp) hMV hV
      · rcases stepOne_some_fin (xi := xi) (xj := xj) (p := r.1.erase x)
          (ps := (rs.map (·.1)).map (fun p => p.erase x)) (by rfl) (by simp) hemp h with
          ⟨hs', hall | ⟨o, hoo, hlt⟩⟩ | ⟨hs', o, hoo, hlt⟩
        · -- every voter ranks `x` above both ends
          subst hs'
          rcases worst_at_end (hV o0 ho0) hnd hxM (hworst o0 ho0) with ⟨M', rfl⟩ | ⟨M', rfl⟩
          · exact Ex.of_eq M' (by simp) hMV hV
          · obtain ⟨hM2, hV2⟩ := reflect_valid hMV hV
              (fun o hoo => above_some (hF o hoo) rfl rfl
                (all_above_of_worst (hworst o hoo) (hall o hoo).1 (hall o hoo).2))
            exact Ex.of_eq M'.reverse (by simp) hM2 hV2
        · -- a voter ranks `x` below `x_j`: `x` is next to `x_i`
          subst hs'
          obtain ⟨M', rfl⟩ := worst_at_head (z := xj) (hV o hoo) hnd hxM (hworst o hoo) (by simp) hlt
          exact Ex.of_eq M' (by simp) hMV hV
        · -- a voter ranks `x` below `x_i`: `x` is next to `x_j`
          subst hs'
          obtain ⟨M', rfl⟩ := worst_at_last (z := xi) (hV o hoo) hnd hxM (hworst o hoo) (by simp) hlt
          exact Ex.of_eq M' (by simp) hMV hV

/-- a `contradiction` break is right: no single-peaked axis extends the placement -/
theorem complete_one_brk {e : Exit} (R : Round alts orders s popped M) (hpne : popped ≠ [])
    (hlast : ∀ r ∈ popped, r.2 = x) (hE : EndsOk s)
    (h : stepOne orders { s with prefs := (popped.map (·.1)).map (fun p => p.erase x) } x = .brk e) :
    False := by
  have hxM := one_mem R hpne hlast
  have hworst := fun o hoo => one_worst R hlast (o := o) hoo
  have hV := R.hV
  have hnd := R.nodup
  obtain ⟨prefs, tal, left, right, ends⟩ := s
  simp only at hV
  cases hends : ends with
  | none => subst hends; simp [stepOne] at h
  | some e' =>
    obtain ⟨xi, xj⟩ := e'
    subst hends
    simp only [EndsOk] at hE
    obtain ⟨⟨L0, hl⟩, ⟨R0, hr⟩⟩ := hE
    subst hl hr
    cases popped with
    | nil => exact absurd rfl hpne
    | cons r rs =>
      have hrx : r.2 = x := hlast r List.mem_cons_self
      have hpr := R.perm_pref (r := r) List.mem_cons_self
      rw [hrx] at hpr
      have her : r.1.erase x = r.1 := erase_one (hpr.nodup_iff.1 hnd)
      obtain ⟨hne, o1, ho1, o2, ho2, h1, h2⟩ := stepOne_some_brk (xi := xi) (xj := xj)
        (p := r.1.erase x) (ps := (rs.map (·.1)).map (fun p => p.erase x)) (by rfl) (by simp) h
      rw [her] at hne
      have hlen : 2 ≤ M.length := by
        rw [hpr.length_eq]
        cases hr1 : r.1 with
        | nil => exact absurd hr1 hne
        | cons _ _ => simp
      obtain ⟨M1, hM1⟩ := worst_at_head (z := xj) (hV o1 ho1) hnd hxM (hworst o1 ho1) (by simp) h1
      obtain ⟨M2, hM2⟩ := worst_at_last (z := xi) (hV o2 ho2) hnd hxM (hworst o2 ho2) (by simp) h2
      exact head_last_false hnd hlen hM1 hM2

end

end PrefVerif.C03c
