import PrefVerif.Lemmas.C03Inv
/-!
# C03 helper lemmas, part 5: the first iteration with three last candidates; fuel
-/
namespace PrefVerif.C03
open PrefVerif PrefVerif.ELO PrefVerif.Py

/-- three distinct popped candidates ⇒ `len(last_candidates) >= 3` ⇒ the iteration stops with `False` -/
theorem step_threeLast {orders : List (List Nat)} {s : State} {popped : List (List Nat × Nat)}
    (hpop : popAll s.prefs = some popped) {a b c : Nat} (hab : a ≠ b) (hac : a ≠ c) (hbc : b ≠ c)
    (ha : a ∈ popped.map (·.2)) (hb : b ∈ popped.map (·.2)) (hc : c ∈ popped.map (·.2)) :
    step orders s = .brk .threeLast := by
  have h1 := (mem_firstAppearances _ a).2 ha
  have h2 := (mem_firstAppearances _ b).2 hb
  have h3 := (mem_firstAppearances _ c).2 hc
  unfold step
  rw [hpop]
  simp only
  split
  · rename_i e; rw [e] at h1; simp at h1
  · rename_i x e; rw [e] at h1 h2
    simp only [List.mem_singleton] at h1 h2; omega
  · rename_i x y e; rw [e] at h1 h2 h3
    simp only [List.mem_cons, List.not_mem_nil, or_false] at h1 h2 h3; omega
  · rfl

/-- the last alternative of a member of `ps` is among the popped candidates -/
theorem mem_popped_of_getLast {ps : List (List Nat)} {popped : List (List Nat × Nat)}
    (hpop : popAll ps = some popped) {o : List Nat} (ho : o ∈ ps) {a : Nat} (ha : o.getLast? = some a) :
    a ∈ popped.map (·.2) := by
  rw [popAll_eq_some hpop] at ho
  obtain ⟨r, hr, rfl⟩ := List.mem_map.1 ho
  have : r.2 = a := by simpa using ha
  exact List.mem_map.2 ⟨r, hr, this⟩

/-! ### fuel -/

/-- `len(list_of_preferences_SP[0])` -/
def headLen (s : State) : Nat := (s.prefs.headD []).length

/-- every iteration that continues shortens the first remaining preference -/
theorem step_fin_headLen {orders : List (List Nat)} {s s' : State} (h : step orders s = .fin s') :
    headLen s' < headLen s := by
  unfold step at h
  split at h
  · simp at h
  · rename_i popped hpop
    have hprefs := popAll_eq_some hpop
    cases popped with
    | nil => simp [firstAppearances] at h
    | cons r rs =>
      have hs : headLen s = r.1.length + 1 := by
        simp [headLen, hprefs]
      split at h
      · simp at h
      · rename_i x _
        obtain ⟨hpr, _⟩ := stepOne_fin h
        have : headLen s' = (r.1.erase x).length := by simp [headLen, hpr]
        rw [this, hs]
        have := List.length_erase_le (a := x) (l := r.1)
        omega
      · rename_i x y _
        obtain ⟨hpr, _⟩ := stepTwo_fin h
        have : headLen s' = ((r.1.erase x).erase y).length := by simp [headLen, hpr]
        rw [this, hs]
        have h1 := List.length_erase_le (a := x) (l := r.1)
        have h2 := List.length_erase_le (a := y) (l := r.1.erase x)
        omega
      · simp at h

/-- any two amounts of fuel above the length of the first remaining preference give the same run:
the fuel never runs out -/
theorem loop_fuel (orders : List (List Nat)) :
    ∀ (f1 f2 : Nat) (s : State), headLen s < f1 → headLen s < f2 →
      loop orders f1 s = loop orders f2 s := by
  intro f1
  induction f1 with
  | zero => intro f2 s h; omega
  | succ k ih =>
    intro f2 s h1 h2
    cases f2 with
    | zero => omega
    | succ j =>
      unfold loop
      split
      · rfl
      · split
        · split
          · rfl
          · rfl
          · rename_i s' hst
            have := step_fin_headLen hst
            exact ih j s' (by omega) (by omega)
        · rfl

end PrefVerif.C03
