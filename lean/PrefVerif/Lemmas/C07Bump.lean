import PrefVerif.Model.Pairwise
import PrefVerif.Lemmas.C07AList
/-!
# C07 helper lemmas: nested tables, `bump`, and the three nested loops as sums
-/
namespace PrefVerif.C07
open PrefVerif PrefVerif.Pairwise PrefVerif.Py

set_option linter.unusedSimpArgs false

/-- `t[x][y]` (none when a key is absent) -/
def look (t : Table) (x y : Nat) : Option Int := (AList.get? t x).bind (fun row => AList.get? row y)

/-- keys of row `x` -/
def rowKeys (t : Table) (x : Nat) : Option (List Nat) := (AList.get? t x).map AList.keys

/-! ### `bump` -/

theorem keys_bump (t : Table) (w b : Nat) (d : Int) : AList.keys (bump t w b d) = AList.keys t := by
  unfold bump
  split
  · rfl
  · rename_i row hrow
    split
    · rfl
    · exact keys_set_of_mem _ _ _ (mem_keys_of_get? hrow)

theorem rowKeys_bump (t : Table) (w b : Nat) (d : Int) (x : Nat) :
    rowKeys (bump t w b d) x = rowKeys t x := by
  unfold bump
  split
  · rfl
  · rename_i row hrow
    split
    · rfl
    · rename_i v hv
      simp only [rowKeys, get?_set]
      by_cases h : w = x
      · subst h
        simp [hrow, keys_set_of_mem _ _ _ (mem_keys_of_get? hv)]
      · simp [h]

theorem look_bump (t : Table) (w b : Nat) (d : Int) (x y : Nat) :
    look (bump t w b d) x y = (look t x y).map (· + (if x = w ∧ y = b then d else 0)) := by
  unfold bump
  split
  · rename_i hrow
    by_cases h : x = w ∧ y = b
    · obtain ⟨rfl, rfl⟩ := h
      simp [look, hrow]
    · simp [h]
  · rename_i row hrow
    split
    · rename_i hv
      by_cases h : x = w ∧ y = b
      · obtain ⟨rfl, rfl⟩ := h
        simp [look, hrow, hv]
      · simp [h]
    · rename_i v hv
      simp only [look, get?_set]
      by_cases hx : w = x
      · subst hx
        simp only [if_true, Option.bind_some, get?_set, hrow, true_and]
        by_cases hy : b = y
        · subst hy; simp [hv]
        · have hy' : ¬ y = b := fun h => hy h.symm
          simp [hy, hy']
      · have hx' : ¬ x = w := fun h => hx h.symm
        simp [hx, hx']

/-! ### generic fold lemmas -/

theorem inv_foldl {α β : Type} (P : Table → β) (l : List α) (step : Table → α → Table)
    (h : ∀ t e, P (step t e) = P t) (t : Table) : P (l.foldl step t) = P t := by
  induction l generalizing t with
  | nil => rfl
  | cons e l ih => simp [List.foldl_cons, ih, h]

theorem look_foldl {α : Type} (l : List α) (step : Table → α → Table) (g : α → Int) (x y : Nat)
    (h : ∀ t, ∀ e ∈ l, look (step t e) x y = (look t x y).map (· + g e)) (t : Table) :
    look (l.foldl step t) x y = (look t x y).map (· + (l.map g).sum) := by
  induction l generalizing t with
  | nil => simp
  | cons e l ih =>
    rw [List.foldl_cons, ih (fun t e' he' => h t e' (by simp [he'])), h t e (by simp)]
    simp [Option.map_map, Function.comp_def, Int.add_assoc]

/-! ### sums of indicator functions -/

theorem sum_map_ite_eq (l : List Nat) (x : Nat) (c : Prop) [Decidable c] (d : Int) :
    (l.map (fun w => if x = w ∧ c then d else 0)).sum = if c then (l.count x : Int) * d else 0 := by
  induction l with
  | nil => simp
  | cons w l ih =>
    simp only [List.map_cons, List.sum_cons, ih, List.count_cons]
    by_cases hc : c <;> by_cases hw : x = w
    · subst hw; simp [hc, Int.add_mul]; omega
    · have : ¬ w = x := fun h => hw h.symm
      simp [hc, hw, this]
    · simp [hc]
    · simp [hc]

theorem sum_map_ite_eq' (l : List Nat) (y : Nat) (c : Prop) [Decidable c] (d : Int) :
    (l.map (fun b => if c ∧ y = b then d else 0)).sum = if c then (l.count y : Int) * d else 0 := by
  have := sum_map_ite_eq l y c d
  simpa [and_comm] using this

theorem sum_map_mul_count (l : List Nat) (y : Nat) (k : Int) :
    (l.map (fun b => if y = b then k else 0)).sum = (l.count y : Int) * k := by
  have := sum_map_ite_eq l y True k
  simpa using this

end PrefVerif.C07
