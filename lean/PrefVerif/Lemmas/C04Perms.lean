import PrefVerif.Spec.Domains
/-!
# C04 helpers: the permutation enumerator, the Boolean checker `scSeq`, and
"duplicate-free + same length + subset ⇒ permutation".
-/
namespace PrefVerif.C04
open PrefVerif PrefVerif.Spec

theorem mem_insertions {α : Type} (x : α) (l l' : List α) :
    l' ∈ insertions x l ↔ ∃ a b, l = a ++ b ∧ l' = a ++ x :: b := by
  induction l generalizing l' with
  | nil =>
    simp only [insertions, List.mem_singleton]
    constructor
    · intro h; exact ⟨[], [], rfl, by simpa using h⟩
    · rintro ⟨a, b, hab, rfl⟩
      have := List.append_eq_nil_iff.1 hab.symm
      rw [this.1, this.2]; rfl
  | cons y ys ih =>
    simp only [insertions, List.mem_cons, List.mem_map]
    constructor
    · rintro (rfl | ⟨t, ht, rfl⟩)
      · exact ⟨[], y :: ys, rfl, rfl⟩
      · obtain ⟨a, b, rfl, rfl⟩ := (ih t).1 ht
        exact ⟨y :: a, b, rfl, rfl⟩
    · rintro ⟨a, b, hab, rfl⟩
      cases a with
      | nil =>
        left
        simp at hab
        rw [← hab]; rfl
      | cons z a =>
        right
        simp at hab
        obtain ⟨rfl, rfl⟩ := hab
        exact ⟨a ++ x :: b, (ih _).2 ⟨a, b, rfl, rfl⟩, rfl⟩

theorem mem_perms' {α : Type} (l : List α) : ∀ l' : List α, l' ∈ perms l ↔ l'.Perm l := by
  induction l with
  | nil =>
    intro l'
    simp [perms]
  | cons x xs ih =>
    intro l'
    simp only [perms, List.mem_flatMap]
    constructor
    · rintro ⟨t, ht, hl'⟩
      obtain ⟨a, b, rfl, rfl⟩ := (mem_insertions x t l').1 hl'
      exact List.perm_middle.trans (((ih _).1 ht).cons x)
    · intro hp
      have hx : x ∈ l' := hp.mem_iff.2 (List.mem_cons_self)
      obtain ⟨a, b, rfl⟩ := List.append_of_mem hx
      have hp' : (a ++ b).Perm xs := (List.perm_middle.symm.trans hp).cons_inv
      exact ⟨a ++ b, (ih _).2 hp', (mem_insertions x _ _).2 ⟨a, b, rfl, rfl⟩⟩

theorem scSeq_iff' (alts : List Nat) (s : List (List Nat)) : scSeq alts s = true ↔ SCSeq alts s := by
  simp only [scSeq, SCSeq, List.all_eq_true, Bool.or_eq_true, beq_iff_eq, decide_eq_true_eq]
  constructor
  · intro h a ha b hb hab
    rcases h a ha b hb with e | e
    · exact absurd e hab
    · exact e
  · intro h a ha b hb
    by_cases e : a = b
    · exact Or.inl e
    · exact Or.inr (h a ha b hb e)

/-- a duplicate-free list inside another list is at most as long -/
theorem length_le_of_nodup_subset {α : Type} [DecidableEq α] (s : List α) :
    ∀ t : List α, s.Nodup → (∀ x ∈ s, x ∈ t) → s.length ≤ t.length := by
  induction s with
  | nil => intro t _ _; simp
  | cons x s ih =>
    intro t hn hsub
    have hx : x ∈ t := hsub x List.mem_cons_self
    rw [List.nodup_cons] at hn
    have h1 : s.length ≤ (t.erase x).length := by
      apply ih _ hn.2
      intro y hy
      have hne : y ≠ x := fun e => hn.1 (e ▸ hy)
      exact (List.mem_erase_of_ne hne).2 (hsub y (List.mem_cons_of_mem _ hy))
    rw [List.length_erase_of_mem hx] at h1
    have : 0 < t.length := List.length_pos_of_mem hx
    simp only [List.length_cons]
    omega

/-- pigeonhole: duplicate-free, contained in `t`, and at least as long ⇒ every element of `t` occurs -/
theorem mem_of_nodup_subset_length {α : Type} [DecidableEq α] (s : List α) :
    ∀ t : List α, s.Nodup → (∀ x ∈ s, x ∈ t) → t.length ≤ s.length → ∀ y ∈ t, y ∈ s := by
  intro t hn hsub hlen y hy
  refine Classical.byContradiction fun hys => ?_
  have h1 : s.length ≤ (t.erase y).length := by
    apply length_le_of_nodup_subset s _ hn
    intro x hx
    have hne : x ≠ y := fun e => hys (e ▸ hx)
    exact (List.mem_erase_of_ne hne).2 (hsub x hx)
  rw [List.length_erase_of_mem hy] at h1
  have : 0 < t.length := List.length_pos_of_mem hy
  omega

theorem perm_of_nodup_subset_length {α : Type} [DecidableEq α] (s t : List α) (hs : s.Nodup)
    (ht : t.Nodup) (hsub : ∀ x ∈ s, x ∈ t) (hlen : s.length = t.length) : s.Perm t :=
  (List.perm_ext_iff_of_nodup hs ht).2 fun x =>
    ⟨hsub x, mem_of_nodup_subset_length s t hs hsub (by omega) x⟩

end PrefVerif.C04
