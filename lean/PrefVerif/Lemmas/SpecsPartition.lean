import PrefVerif.Spec.NearlySP
/-!
# Specs helper lemmas, part 2: the enumerator `setPartitions`
-/
namespace PrefVerif.Specs
open PrefVerif PrefVerif.Spec PrefVerif.Spec.Nearly

variable {α : Type}

/-- cons `x` onto the block whose (offset) index is `i` -/
def ins (x : α) (i : Nat) (p : List (List α)) (n : Nat) : List (List α) :=
  (p.zipIdx n).map (fun bi => if bi.2 == i then x :: bi.1 else bi.1)

theorem ins_cons (x : α) (i : Nat) (b : List α) (p : List (List α)) (n : Nat) :
    ins x i (b :: p) n = (if n == i then x :: b else b) :: ins x i p (n + 1) := by
  simp only [ins, List.zipIdx_cons, List.map_cons]

theorem ins_lt (x : α) (i : Nat) (p : List (List α)) : ∀ n, i < n → ins x i p n = p := by
  induction p with
  | nil => intro n _; rfl
  | cons b p ih =>
    intro n hn
    have hne : (n == i) = false := by simp only [beq_eq_false_iff_ne]; omega
    rw [ins_cons, hne, ih (n + 1) (by omega)]
    rfl

theorem ins_split (x : α) (b : List α) (C : List (List α)) (A : List (List α)) :
    ∀ n, ins x (n + A.length) (A ++ b :: C) n = A ++ (x :: b) :: C := by
  induction A with
  | nil =>
    intro n
    simp only [List.length_nil, Nat.add_zero, List.nil_append, ins_cons, BEq.rfl, if_true]
    rw [ins_lt x n C (n + 1) (by omega)]
  | cons a A ih =>
    intro n
    have hne : (n == n + (a :: A).length) = false := by
      simp only [beq_eq_false_iff_ne, List.length_cons]; omega
    have hidx : n + (a :: A).length = (n + 1) + A.length := by simp only [List.length_cons]; omega
    rw [List.cons_append, ins_cons, hne, hidx, ih (n + 1)]
    rfl

theorem setPartitions_cons (x : α) (xs : List α) :
    setPartitions (x :: xs) = (setPartitions xs).flatMap (fun p =>
      ([x] :: p) :: (List.range p.length).map (fun i => ins x i p 0)) := rfl

/-- a partition of `x :: xs` is a partition of `xs` with `x` as a new first block or added in front of
one of the blocks -/
theorem mem_setPartitions_cons (x : α) (xs : List α) (q : List (List α)) :
    q ∈ setPartitions (x :: xs) ↔
      ∃ p ∈ setPartitions xs, q = [x] :: p ∨ ∃ A b C, p = A ++ b :: C ∧ q = A ++ (x :: b) :: C := by
  rw [setPartitions_cons]
  simp only [List.mem_flatMap, List.mem_cons, List.mem_map, List.mem_range]
  constructor
  · rintro ⟨p, hp, h | ⟨i, hi, rfl⟩⟩
    · exact ⟨p, hp, Or.inl h⟩
    · refine ⟨p, hp, Or.inr ⟨p.take i, p[i], p.drop (i + 1), ?_, ?_⟩⟩
      · rw [List.getElem_cons_drop, List.take_append_drop]
      · have h1 : p = p.take i ++ p[i] :: p.drop (i + 1) := by
          rw [List.getElem_cons_drop, List.take_append_drop]
        have h2 := ins_split x p[i] (p.drop (i + 1)) (p.take i) 0
        rw [← h1, List.length_take, Nat.min_eq_left (by omega), Nat.zero_add] at h2
        exact h2
  · rintro ⟨p, hp, h | ⟨A, b, C, rfl, rfl⟩⟩
    · exact ⟨p, hp, Or.inl h⟩
    · refine ⟨_, hp, Or.inr ⟨A.length, by simp, ?_⟩⟩
      have := ins_split x b C A 0
      rw [Nat.zero_add] at this
      exact this

theorem setPartitions_sound' (l : List α) :
    ∀ p ∈ setPartitions l, p.flatten.Perm l ∧ ∀ b ∈ p, b ≠ [] := by
  induction l with
  | nil =>
    intro p hp
    simp only [setPartitions, List.mem_singleton] at hp
    subst hp
    exact ⟨List.Perm.refl _, by simp⟩
  | cons x xs ih =>
    intro q hq
    obtain ⟨p, hp, rfl | ⟨A, b, C, rfl, rfl⟩⟩ := (mem_setPartitions_cons x xs q).1 hq
    · obtain ⟨h1, h2⟩ := ih p hp
      refine ⟨?_, ?_⟩
      · simp only [List.flatten_cons, List.cons_append, List.nil_append]
        exact h1.cons x
      · intro b hb
        rcases List.mem_cons.1 hb with rfl | hb
        · simp
        · exact h2 b hb
    · obtain ⟨h1, h2⟩ := ih _ hp
      refine ⟨?_, ?_⟩
      · simp only [List.flatten_append, List.flatten_cons, List.cons_append] at h1 ⊢
        exact List.perm_middle.trans (h1.cons x)
      · intro c hc
        simp only [List.mem_append, List.mem_cons] at hc
        rcases hc with hc | rfl | hc
        · exact h2 c (by simp [hc])
        · simp
        · exact h2 c (by simp [hc])

end PrefVerif.Specs
