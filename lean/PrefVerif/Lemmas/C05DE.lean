import PrefVerif.Lemmas.C05CI
/-!
# C05 helper lemmas, part 14: dichotomous Euclidean — the embedding returned is valid
-/
namespace PrefVerif.C05
open PrefVerif PrefVerif.Dichotomous PrefVerif.Spec PrefVerif.Spec.Approval

/-! ### minimum and maximum by `foldl` -/

theorem foldl_min_le (ps : List Nat) (init : Nat) :
    ps.foldl min init ≤ init ∧ ∀ x ∈ ps, ps.foldl min init ≤ x := by
  induction ps generalizing init with
  | nil => simp
  | cons p ps ih =>
    obtain ⟨h1, h2⟩ := ih (min init p)
    refine ⟨by simp only [List.foldl_cons]; omega, ?_⟩
    intro x hx
    simp only [List.foldl_cons]
    rcases List.mem_cons.1 hx with rfl | hx
    · omega
    · exact h2 x hx

theorem foldl_min_mem (ps : List Nat) (init : Nat) : ps.foldl min init = init ∨ ps.foldl min init ∈ ps := by
  induction ps generalizing init with
  | nil => simp
  | cons p ps ih =>
    simp only [List.foldl_cons, List.mem_cons]
    rcases ih (min init p) with h | h
    · rw [h]; rcases Nat.le_total init p with h' | h'
      · left; omega
      · right; left; omega
    · exact Or.inr (Or.inr h)

theorem le_foldl_max (ps : List Nat) (init : Nat) :
    init ≤ ps.foldl max init ∧ ∀ x ∈ ps, x ≤ ps.foldl max init := by
  induction ps generalizing init with
  | nil => simp
  | cons p ps ih =>
    obtain ⟨h1, h2⟩ := ih (max init p)
    refine ⟨by simp only [List.foldl_cons]; omega, ?_⟩
    intro x hx
    simp only [List.foldl_cons]
    rcases List.mem_cons.1 hx with rfl | hx
    · omega
    · exact h2 x hx

theorem foldl_max_mem (ps : List Nat) (init : Nat) : ps.foldl max init = init ∨ ps.foldl max init ∈ ps := by
  induction ps generalizing init with
  | nil => simp
  | cons p ps ih =>
    simp only [List.foldl_cons, List.mem_cons]
    rcases ih (max init p) with h | h
    · rw [h]; rcases Nat.le_total init p with h' | h'
      · right; left; omega
      · left; omega
    · exact Or.inr (Or.inr h)

theorem span_spec (ps : List Nat) (hne : ps ≠ []) :
    ps.foldl min (ps.headD 0) ∈ ps ∧ ps.foldl max (ps.headD 0) ∈ ps ∧
      ∀ x ∈ ps, ps.foldl min (ps.headD 0) ≤ x ∧ x ≤ ps.foldl max (ps.headD 0) := by
  cases ps with
  | nil => exact absurd rfl hne
  | cons p ps =>
    simp only [List.headD_cons]
    refine ⟨?_, ?_, fun x hx => ⟨(foldl_min_le _ p).2 x hx, (le_foldl_max _ p).2 x hx⟩⟩
    · rcases foldl_min_mem (p :: ps) p with h | h
      · rw [h]; simp
      · exact h
    · rcases foldl_max_mem (p :: ps) p with h | h
      · rw [h]; simp
      · exact h

/-! ### the voters' positions and radii -/

/-- `(2·position, 2·radius)` of a ballot, as computed by `is_dichotomous_euclidean` -/
def deVoter (order app : List Nat) : Int × Int :=
  match app with
  | [] => ((-2 : Int), (0 : Int))
  | [a] => ((2 * order.idxOf a : Nat), 0)
  | _ =>
    let ps := app.map (fun a => order.idxOf a)
    let l := ps.foldl min (ps.headD 0)
    let r := ps.foldl max (ps.headD 0)
    (((l + r : Nat) : Int), ((r - l : Nat) : Int))

theorem isDichotomousEuclidean_eq (solver : Solver) (alts : List Nat) (approved : List (List Nat)) :
    isDichotomousEuclidean solver alts approved =
      (isCandidateInterval solver alts approved).map
        (fun order => (approved.map (deVoter order), order.zipIdx)) := by
  unfold isDichotomousEuclidean
  split
  · next h => rw [h]; rfl
  · next o h => rw [h]; rfl

theorem deVoter_of_ne_nil (order app : List Nat) (hne : app ≠ []) :
    deVoter order app =
      ((((app.map (fun a => order.idxOf a)).foldl min ((app.map (fun a => order.idxOf a)).headD 0) +
          (app.map (fun a => order.idxOf a)).foldl max ((app.map (fun a => order.idxOf a)).headD 0) : Nat) : Int),
       (((app.map (fun a => order.idxOf a)).foldl max ((app.map (fun a => order.idxOf a)).headD 0) -
          (app.map (fun a => order.idxOf a)).foldl min ((app.map (fun a => order.idxOf a)).headD 0) : Nat) : Int)) := by
  match app, hne with
  | [a], _ =>
    simp only [deVoter, List.map_cons, List.map_nil, List.headD_cons, List.foldl_cons, List.foldl_nil,
      Nat.min_self, Nat.max_self, Prod.mk.injEq]
    constructor <;> omega
  | a :: b :: rest, _ => rfl

theorem deVoter_within (order s : List Nat) (hn : order.Nodup) (hsub : ∀ a ∈ s, a ∈ order)
    (hI : Interval (fun a => a ∈ s) order) (p : Nat) (hp : p < order.length) :
    ((((2 * p : Nat) : Int) - (deVoter order s).1 ≤ (deVoter order s).2 ∧
      -(((2 * p : Nat) : Int) - (deVoter order s).1) ≤ (deVoter order s).2) ↔ order[p] ∈ s) := by
  by_cases hs : s = []
  · subst hs
    simp only [deVoter, List.not_mem_nil, iff_false]
    omega
  · rw [deVoter_of_ne_nil order s hs]
    have hps : s.map (fun a => order.idxOf a) ≠ [] := by simpa using hs
    obtain ⟨hl, hr, hb⟩ := span_spec _ hps
    generalize (s.map (fun a => order.idxOf a)).foldl min ((s.map (fun a => order.idxOf a)).headD 0) = l at *
    generalize (s.map (fun a => order.idxOf a)).foldl max ((s.map (fun a => order.idxOf a)).headD 0) = r at *
    obtain ⟨a1, ha1, rfl⟩ := List.mem_map.1 hl
    obtain ⟨a2, ha2, rfl⟩ := List.mem_map.1 hr
    have hlr := (hb _ hr).1
    have hl1 : order.idxOf a1 < order.length := List.idxOf_lt_length_of_mem (hsub a1 ha1)
    have hl2 : order.idxOf a2 < order.length := List.idxOf_lt_length_of_mem (hsub a2 ha2)
    have he1 : order[order.idxOf a1] = a1 := List.getElem_idxOf hl1
    have he2 : order[order.idxOf a2] = a2 := List.getElem_idxOf hl2
    have hiff : ((((2 * p : Nat) : Int) - ((order.idxOf a1 + order.idxOf a2 : Nat) : Int) ≤
          ((order.idxOf a2 - order.idxOf a1 : Nat) : Int) ∧
        -(((2 * p : Nat) : Int) - ((order.idxOf a1 + order.idxOf a2 : Nat) : Int)) ≤
          ((order.idxOf a2 - order.idxOf a1 : Nat) : Int)) ↔
        (order.idxOf a1 ≤ p ∧ p ≤ order.idxOf a2)) := by omega
    simp only
    rw [hiff]
    constructor
    · rintro ⟨h1, h2⟩
      by_cases e1 : p = order.idxOf a1
      · subst e1; rw [he1]; exact ha1
      by_cases e2 : p = order.idxOf a2
      · subst e2; rw [he2]; exact ha2
      have := hI (order.idxOf a1) p (order.idxOf a2) (by omega) (by omega) hl2
      rw [he1, he2] at this
      exact this ha1 ha2
    · intro hm
      have : order.idxOf order[p] = p := hn.idxOf_getElem p hp
      have hmem : p ∈ s.map (fun a => order.idxOf a) := List.mem_map.2 ⟨order[p], hm, this⟩
      exact hb p hmem

end PrefVerif.C05
