import PrefVerif.Lemmas.C11Scan
import PrefVerif.Lemmas.C05SegOps
import PrefVerif.Lemmas.C05Contig
import PrefVerif.Spec.Domains
/-!
# C11 helper lemmas, part 2: class positions vs. unions of the best classes

`indifClassPos o a < k` iff `a` lies in the union of the `k` best classes; hence the lower level
sets of the list of positions along the axis are exactly the sets `topClasses o k` read on the axis.
-/
namespace PrefVerif.C11
open PrefVerif PrefVerif.SinglePeakedAxis PrefVerif.Spec PrefVerif.C05

/-- position of `a` in `o`, 0 if absent (the value read by the scan) -/
def posOf (o : Order) (a : Nat) : Nat := (indifClassPos o a).getD 0

theorem indifClassPos_isSome {o : Order} {a : Nat} (h : a ∈ o.flatten) : ∃ n, indifClassPos o a = some n := by
  induction o with
  | nil => simp at h
  | cons c o ih =>
    unfold indifClassPos
    by_cases hc : a ∈ c
    · exact ⟨0, by simp [hc]⟩
    · have hin : a ∈ o.flatten := by
        rw [List.flatten_cons, List.mem_append] at h
        exact h.resolve_left hc
      obtain ⟨n, hn⟩ := ih hin
      exact ⟨n + 1, by simp [hc, hn]⟩

theorem posOf_cons_of_mem {c : List Nat} {o : Order} {a : Nat} (h : a ∈ c) : posOf (c :: o) a = 0 := by
  simp [posOf, indifClassPos, h]

theorem posOf_cons_of_not_mem {c : List Nat} {o : Order} {a : Nat} (hc : a ∉ c) (h : a ∈ o.flatten) :
    posOf (c :: o) a = posOf o a + 1 := by
  obtain ⟨n, hn⟩ := indifClassPos_isSome h
  simp [posOf, indifClassPos, hc, hn]

theorem topClasses_zero (o : Order) : topClasses o 0 = [] := by simp [topClasses]

theorem topClasses_cons_succ (c : List Nat) (o : Order) (k : Nat) :
    topClasses (c :: o) (k + 1) = c ++ topClasses o k := by
  simp [topClasses]

theorem topClasses_of_le (o : Order) (k : Nat) (h : o.length ≤ k) : topClasses o k = topClasses o o.length := by
  simp [topClasses, List.take_of_length_le h]

theorem mem_flatten_of_mem_topClasses {o : Order} {k a : Nat} (h : a ∈ topClasses o k) : a ∈ o.flatten := by
  unfold topClasses at h
  obtain ⟨c, hc, hac⟩ := List.mem_flatten.1 h
  exact List.mem_flatten.2 ⟨c, List.mem_of_mem_take hc, hac⟩

/-- the position of an alternative is below `k` iff it belongs to one of the `k` best classes -/
theorem posOf_lt_iff (o : Order) (a k : Nat) (h : a ∈ o.flatten) : posOf o a < k ↔ a ∈ topClasses o k := by
  induction o generalizing k with
  | nil => simp at h
  | cons c o ih =>
    cases k with
    | zero => simp [topClasses_zero]
    | succ k =>
      rw [topClasses_cons_succ, List.mem_append]
      by_cases hc : a ∈ c
      · simp [posOf_cons_of_mem hc, hc]
      · have hin : a ∈ o.flatten := by
          rw [List.flatten_cons, List.mem_append] at h
          exact h.resolve_left hc
        rw [posOf_cons_of_not_mem hc hin]
        simp only [hc, false_or]
        rw [← ih k hin]
        omega

/-- the lower level sets of the positions along the axis are the unions of the best classes -/
theorem contig_positions_iff (o : Order) (axis : List Nat) (hsub : ∀ a ∈ axis, a ∈ o.flatten) :
    Contig (axis.map (posOf o)) ↔ ∀ k, Contiguous axis (topClasses o k) := by
  unfold Contig
  refine forall_congr' (fun k => ?_)
  rw [contiguous_def_iff, interval_map]
  have hc : ∀ a ∈ axis, (posOf o a < k ↔ a ∈ topClasses o k) := fun a ha => posOf_lt_iff o a k (hsub a ha)
  exact ⟨fun h => h.congr hc, fun h => h.congr (fun a ha => (hc a ha).symm)⟩

/-- a non-empty axis over the alternatives of the order passes through the top class -/
theorem zero_mem_positions (o : Order) (axis : List Nat) (hne : ∀ c ∈ o, c ≠ [])
    (hsub : ∀ a ∈ axis, a ∈ o.flatten) (hsup : ∀ a ∈ o.flatten, a ∈ axis) :
    axis.map (posOf o) = [] ∨ 0 ∈ axis.map (posOf o) := by
  cases o with
  | nil =>
    left
    cases axis with
    | nil => rfl
    | cons a _ => have := hsub a (by simp); simp at this
  | cons c o =>
    right
    cases c with
    | nil => exact absurd rfl (hne [] (by simp))
    | cons a c =>
      have ha : a ∈ axis := hsup a (by simp)
      exact List.mem_map.2 ⟨a, ha, posOf_cons_of_mem (by simp)⟩

theorem orderOk_eq (o : Order) (axis : List Nat) : orderOk o axis = scan false none (axis.map (posOf o)) := rfl

/-- the per-voter scan, for an axis that lists exactly the alternatives of the order -/
theorem orderOk_iff_core (o : Order) (axis : List Nat) (hne : ∀ c ∈ o, c ≠ [])
    (hsub : ∀ a ∈ axis, a ∈ o.flatten) (hsup : ∀ a ∈ o.flatten, a ∈ axis) :
    orderOk o axis = true ↔ ∀ k, Contiguous axis (topClasses o k) := by
  rw [orderOk_eq, scan_iff_contig _ (zero_mem_positions o axis hne hsub hsup),
    contig_positions_iff o axis hsub]

/-! ### which `k` matter -/

theorem contiguous_nil (axis : List Nat) : Contiguous axis [] := by
  intro i j k _ _ _ hi; simp at hi

theorem forall_topClasses_iff_le (P : List Nat → Prop) (o : Order) :
    (∀ k, P (topClasses o k)) ↔ ∀ k, k < o.length + 1 → P (topClasses o k) := by
  constructor
  · intro h k _; exact h k
  · intro h k
    by_cases hk : k < o.length + 1
    · exact h k hk
    · rw [topClasses_of_le o k (by omega)]; exact h _ (by omega)

theorem forall_topClasses_iff_succ (P : List Nat → Prop) (hP : P []) (o : Order) :
    (∀ k, P (topClasses o k)) ↔ ∀ lvl, lvl < o.length → P (topClasses o (lvl + 1)) := by
  constructor
  · intro h k _; exact h _
  · intro h
    rw [forall_topClasses_iff_le]
    intro k hk
    cases k with
    | zero => rw [topClasses_zero]; exact hP
    | succ k => exact h k (by omega)

theorem spOnAxis_iff_core (orders : List Order) (axis : List Nat) :
    spOnAxis orders axis = true ↔ SPOnAxis orders axis := by
  simp only [spOnAxis, SPOnAxis, List.all_eq_true, List.mem_range]
  refine forall_congr' (fun o => forall_congr' (fun _ => ?_))
  rw [forall_topClasses_iff_le (fun S => Contiguous axis S)]
  refine forall_congr' (fun k => forall_congr' (fun _ => ?_))
  exact (contiguous_iff_interval axis _).trans (contiguous_def_iff axis _).symm

end PrefVerif.C11
