import PrefVerif.Lemmas.C08Header
/-!
# C08 — `CategoricalInstance.parse` on the written header
-/
namespace PrefVerif.C08
open PrefVerif PrefVerif.Py PrefVerif.InstanceIO PrefVerif.CategoricalIO PrefVerif.Spec.IO PrefVerif.IOL

/-! ## the header step -/

/-- a line that is none of the three categorical kinds -/
def Plain (line : Str) : Prop :=
  startsWith line (s "# NUMBER UNIQUE PREFERENCES") = false ∧
  startsWith line (s "# NUMBER CATEGORIES") = false ∧
  startsWith line (s "# CATEGORY NAME") = false

/-- on a plain line the step is `parse_metadata` on the header -/
theorem headerStep_lift (ac : Bool) (i : CatInst) (a : Header) (line : Str) (h : Plain line) :
    headerStep ac { i with header := a } line
      = (parseMetadata a line ac).map (fun h => { i with header := h }) := by
  simp only [headerStep, h.1, h.2.1, h.2.2, Bool.false_eq_true, if_false, bind, Except.bind, pure,
    Except.pure]
  cases parseMetadata a line ac <;> rfl

/-- the `# NUMBER UNIQUE PREFERENCES` line sets its field, then falls through to `parse_metadata`,
which ignores it -/
theorem headerStep_numUnique (ac : Bool) (i : CatInst) (n : Nat) :
    headerStep ac i (numUniqueKey ++ ' ' :: natToStr n) = .ok { i with numUniquePreferences := n } := by
  have := intField_space_natToStr n
  simp [headerStep, parseMetadata, startsWith, numUniqueKey, s, List.isPrefixOf, this]
  rfl

theorem headerStep_numCat (ac : Bool) (i : CatInst) (n : Nat) :
    headerStep ac i (numCatKey ++ ' ' :: natToStr n) = .ok { i with numCategories := n } := by
  have := intField_space_natToStr n
  simp [headerStep, startsWith, numCatKey, s, List.isPrefixOf, this]
  rfl

/-- a `# CATEGORY NAME k: name` line (stripped) records the name under key `k` -/
theorem headerStep_catName (i : CatInst) (k : Nat) (v : Str) (hv : ∀ c ∈ v, c ≠ '\n') :
    headerStep false i (catPfx ++ natToStr k ++ ':' :: padded v)
      = .ok { i with categoriesName := AList.set i.categoriesName k v } := by
  have hm := matchNumbered_numbered catPfx k v hv
  generalize hL : catPfx ++ natToStr k ++ ':' :: padded v = L at hm
  have hs : ∀ q : Str, startsWith L q = startsWith (catPfx ++ (natToStr k ++ ':' :: padded v)) q := by
    intro q; rw [← hL, List.append_assoc]
  have h1 : startsWith L (s "# NUMBER UNIQUE PREFERENCES") = false := by
    rw [hs]; simp [startsWith, catPfx, s, List.isPrefixOf]
  have h2 : startsWith L (s "# NUMBER CATEGORIES") = false := by
    rw [hs]; simp [startsWith, catPfx, s, List.isPrefixOf]
  have h3 : startsWith L (s "# CATEGORY NAME") = true := by
    rw [hs]; simp [startsWith, catPfx, s, List.isPrefixOf]
  have hm' : matchNumbered (s "# CATEGORY NAME ") L = some (k, v) := hm
  simp only [headerStep, h1, h2, h3, hm', assignCatName, assignName]
  simp

theorem field_plain (f : Field) (w : Str) : Plain (f.key ++ w) := by
  refine ⟨?_, ?_, ?_⟩ <;> cases f <;> simp [startsWith, Field.key, Field.name, s, List.isPrefixOf]

theorem numAlt_plain (w : Str) : Plain (numAltKey ++ w) := by
  refine ⟨?_, ?_, ?_⟩ <;> simp [startsWith, numAltKey, s, List.isPrefixOf]

theorem numVoters_plain (w : Str) : Plain (numVotersKey ++ w) := by
  refine ⟨?_, ?_, ?_⟩ <;> simp [startsWith, numVotersKey, s, List.isPrefixOf]

theorem alt_plain (w : Str) : Plain (altPfx ++ w) := by
  refine ⟨?_, ?_, ?_⟩ <;> simp [startsWith, altPfx, s, List.isPrefixOf]

theorem foldl_set_catNames (names : AList Nat Str) (j : CatInst) :
    names.foldl (fun a kv => ({ a with categoriesName := AList.set a.categoriesName kv.1 kv.2 } : CatInst)) j
      = { j with categoriesName := names.foldl (fun d kv => AList.set d kv.1 kv.2) j.categoriesName } := by
  induction names generalizing j with
  | nil => rfl
  | cons kv names ih => simp only [List.foldl_cons]; rw [ih]

/-- the category names come back: starting without names, a dict with distinct keys comes back
identically -/
theorem foldlM_catLines_nil (j : CatInst) (names : AList Nat Str) (hj : j.categoriesName = [])
    (hnd : (AList.keys names).Nodup) (hw : ∀ kv ∈ names, cleanText kv.2 = true) :
    (names.map (fun kv => catPfx ++ natToStr kv.1 ++ ':' :: padded kv.2)).foldlM (headerStep false) j
      = .ok { j with categoriesName := names } := by
  rw [foldlM_map_ok names _ _
      (fun (a : CatInst) kv => { a with categoriesName := AList.set a.categoriesName kv.1 kv.2 })
      (fun kv hkv a => headerStep_catName a kv.1 kv.2 ((cleanText_iff _).1 (hw kv hkv)).1.ne_nl),
    foldl_set_catNames, hj, foldl_set_nil names hnd]

/-- the header of the written file, folded from any starting instance without names: header,
counts and category names are those of `i`, the rest is untouched -/
theorem fold_header (i i0 : CatInst) (h : wfHeader i.header = true)
    (hcn : (AList.keys i.categoriesName).Nodup) (hcv : ∀ kv ∈ i.categoriesName, cleanText kv.2 = true)
    (h0 : i0.header.altNames = []) (h0c : i0.categoriesName = []) :
    (hdrPl i).foldlM (headerStep false) i0
      = .ok { i0 with header := i.header, numUniquePreferences := i.numUniquePreferences,
                      numCategories := i.numCategories, categoriesName := i.categoriesName } := by
  obtain ⟨hf, hk, hv⟩ := (wfHeader_iff _).1 h
  -- part 1: the nine text fields
  have hA : (Field.all.map (fun f => f.key ++ padded (f.get i.header))).foldlM (headerStep false) i0
      = .ok { i0 with header := { i.header with numAlternatives := i0.header.numAlternatives,
                                                numVoters := i0.header.numVoters, altNames := [] } } := by
    have := foldlM_lift (fun a l => parseMetadata a l false) (headerStep false)
      (fun a => { i0 with header := a }) (Field.all.map (fun f => f.key ++ padded (f.get i.header)))
      (by
        intro l hl a
        obtain ⟨f, _, rfl⟩ := List.mem_map.1 hl
        exact headerStep_lift false i0 a _ (field_plain f _))
      i0.header
    rw [← pl_metaLines _ (fun f => strip_of_clean (hf f)), foldlM_metaLines i0.header i.header
      (fun f => strip_of_clean (hf f)) false, h0] at this
    rw [← pl_metaLines _ (fun f => strip_of_clean (hf f))]
    exact this
  -- part 2: the numeric fields
  have hB : ∀ j : CatInst,
      [numAltKey ++ ' ' :: natToStr i.header.numAlternatives,
       numVotersKey ++ ' ' :: natToStr i.header.numVoters,
       numUniqueKey ++ ' ' :: natToStr i.numUniquePreferences,
       numCatKey ++ ' ' :: natToStr i.numCategories].foldlM (headerStep false) j
      = .ok { j with header := { j.header with numAlternatives := i.header.numAlternatives,
                                               numVoters := i.header.numVoters },
                     numUniquePreferences := i.numUniquePreferences,
                     numCategories := i.numCategories } := by
    intro j
    have e1 := headerStep_lift false j j.header _ (numAlt_plain (' ' :: natToStr i.header.numAlternatives))
    rw [parseMetadata_numAlternatives] at e1
    have e2 := headerStep_lift false j { j.header with numAlternatives := i.header.numAlternatives } _
      (numVoters_plain (' ' :: natToStr i.header.numVoters))
    rw [parseMetadata_numVoters] at e2
    simp only [List.foldlM_cons, List.foldlM_nil]
    rw [show j = { j with header := j.header } from rfl, e1]
    simp only [Except.map, bind, Except.bind]
    rw [e2]
    simp only [Except.map]
    rw [headerStep_numUnique]
    simp only
    rw [headerStep_numCat]
    rfl
  -- part 3: the category names
  have hC : ∀ j : CatInst, j.categoriesName = [] →
      (i.categoriesName.map (fun kv => catPfx ++ natToStr kv.1 ++ ':' :: padded kv.2)).foldlM
        (headerStep false) j = .ok { j with categoriesName := i.categoriesName } :=
    fun j hj => foldlM_catLines_nil j i.categoriesName hj hcn hcv
  -- part 4: the alternative names
  have hD : ∀ j : CatInst, j.header.altNames = [] →
      (i.header.altNames.map (fun kv => altPfx ++ natToStr kv.1 ++ ':' :: padded kv.2)).foldlM
        (headerStep false) j = .ok { j with header := { j.header with altNames := i.header.altNames } } := by
    intro j hj
    have := foldlM_lift (fun a l => parseMetadata a l false) (headerStep false)
      (fun a => { j with header := a })
      (i.header.altNames.map (fun kv => altPfx ++ natToStr kv.1 ++ ':' :: padded kv.2))
      (by
        intro l hl a
        obtain ⟨kv, _, rfl⟩ := List.mem_map.1 hl
        rw [List.append_assoc]
        exact headerStep_lift false j a _ (alt_plain _))
      j.header
    rw [← pl_altLines _ (fun kv hkv => strip_of_clean (hv kv hkv)),
      foldlM_altLines_nil j.header i.header.altNames hj hk hv] at this
    rw [← pl_altLines _ (fun kv hkv => strip_of_clean (hv kv hkv))]
    exact this
  rw [hdrPl, foldlM_append_ok _ _ _ _ _ (by
      rw [foldlM_append_ok _ _ _ _ _ (by rw [foldlM_append_ok _ _ _ _ _ hA]; exact hB _)]
      exact hC _ h0c), hD _ rfl]

end PrefVerif.C08
