import PrefVerif.Py.AList
/-!
# Reusable facts about the insertion-ordered dict model (`AList`)

`set` on a fresh key appends; rebuilding a dict with distinct keys entry by entry gives it back;
lookups in a table built from a key list.
-/
namespace PrefVerif.IOL
open PrefVerif.Py

variable {κ ν : Type} [BEq κ] [LawfulBEq κ]

omit [BEq κ] [LawfulBEq κ] in
theorem keys_append (d e : AList κ ν) : AList.keys (d ++ e) = AList.keys d ++ AList.keys e := by
  simp [AList.keys]

/-- `d[k] = v` for a key not yet present appends the entry -/
theorem set_of_not_mem (d : AList κ ν) (k : κ) (v : ν) (h : k ∉ AList.keys d) :
    AList.set d k v = d ++ [(k, v)] := by
  induction d with
  | nil => rfl
  | cons p d ih =>
    obtain ⟨k', v'⟩ := p
    have hk : (k' == k) = false := by
      cases hkk : k' == k with
      | false => rfl
      | true => exact absurd (by simp [AList.keys, eq_of_beq hkk]) h
    have : k ∉ AList.keys d := fun hm => h (by simp [AList.keys] at hm ⊢; exact Or.inr hm)
    simp [AList.set, hk, ih this]

/-- inserting the entries of a dict with distinct keys one by one, after `acc` whose keys are
disjoint from them, appends them in order -/
theorem foldl_set_append (l acc : AList κ ν) (hnd : (AList.keys (acc ++ l)).Nodup) :
    l.foldl (fun d kv => AList.set d kv.1 kv.2) acc = acc ++ l := by
  induction l generalizing acc with
  | nil => simp
  | cons p l ih =>
    obtain ⟨k, v⟩ := p
    have hk : k ∉ AList.keys acc := by
      intro hm
      rw [keys_append] at hnd
      exact (List.nodup_append.1 hnd).2.2 k hm k (by simp [AList.keys]) rfl
    simp only [List.foldl_cons, set_of_not_mem acc k v hk]
    rw [ih (acc ++ [(k, v)]) (by simpa using hnd)]
    simp

/-- rebuilding a dict with distinct keys from the empty dict gives it back -/
theorem foldl_set_nil (l : AList κ ν) (hnd : (AList.keys l).Nodup) :
    l.foldl (fun d kv => AList.set d kv.1 kv.2) [] = l := by
  simpa using foldl_set_append l [] (by simpa using hnd)

theorem get?_eq_none_of_not_mem (d : AList κ ν) (k : κ) (h : k ∉ AList.keys d) :
    AList.get? d k = none := by
  induction d with
  | nil => rfl
  | cons p d ih =>
    obtain ⟨k', v'⟩ := p
    have hk : (k' == k) = false := by
      cases hkk : k' == k with
      | false => rfl
      | true => exact absurd (by simp [AList.keys, eq_of_beq hkk]) h
    have hd : k ∉ AList.keys d := fun hm => h (by simp [AList.keys] at hm ⊢; exact Or.inr hm)
    have := ih hd
    simp only [AList.get?] at this ⊢
    simp [hk, this]

theorem get?_isSome_of_mem (d : AList κ ν) (k : κ) (h : k ∈ AList.keys d) :
    ∃ v, AList.get? d k = some v := by
  induction d with
  | nil => simp [AList.keys] at h
  | cons p d ih =>
    obtain ⟨k', v'⟩ := p
    cases hkk : k' == k with
    | true => exact ⟨v', by simp [AList.get?, hkk]⟩
    | false =>
      have hd : k ∈ AList.keys d := by
        simp only [AList.keys, List.map_cons, List.mem_cons] at h
        rcases h with rfl | h
        · simp at hkk
        · exact h
      obtain ⟨v, hv⟩ := ih hd
      refine ⟨v, ?_⟩
      simp only [AList.get?] at hv ⊢
      simp [hkk, hv]

/-- lookup in the table `[(k, f k) for k in l]` -/
theorem get?_map_table (l : List κ) (f : κ → ν) (k : κ) :
    AList.get? (l.map (fun x => (x, f x))) k = if k ∈ l then some (f k) else none := by
  induction l with
  | nil => simp [AList.get?]
  | cons a l ih =>
    simp only [AList.get?] at ih ⊢
    cases hak : a == k with
    | true =>
      have := eq_of_beq hak; subst this
      simp
    | false =>
      have hne : ¬ k = a := fun h => by subst h; simp at hak
      simp only [List.map_cons, List.find?_cons, hak, List.mem_cons, hne, false_or]
      exact ih

omit [BEq κ] [LawfulBEq κ] in
theorem keys_map_table (l : List κ) (f : κ → ν) : AList.keys (l.map (fun x => (x, f x))) = l := by
  induction l with
  | nil => rfl
  | cons a l ih => simp only [AList.keys, List.map_cons] at ih ⊢; rw [ih]

end PrefVerif.IOL
