import PrefVerif.Lemmas.C20Kendall
/-!
# C20 helper lemmas — Spearman footrule
-/
namespace PrefVerif.C20
open PrefVerif.Distances PrefVerif.Spec

theorem absDiff_comm (i j : Nat) : absDiff i j = absDiff j i := by
  unfold absDiff; split <;> split <;> omega

theorem absDiff_self (i : Nat) : absDiff i i = 0 := by
  unfold absDiff; split <;> omega

theorem absDiff_eq_zero {i j : Nat} (h : absDiff i j = 0) : i = j := by
  unfold absDiff at h; split at h <;> omega

/-- pointwise triangle inequality through the (doubled) centre `n` -/
theorem two_absDiff_le (p q n : Nat) :
    2 * absDiff p q ≤ absDiff (2 * p + 1) n + absDiff (2 * q + 1) n := by
  unfold absDiff; split <;> split <;> split <;> omega

theorem footruleNumFrom_eq_sum (l b : List Nat) (hl : l.Nodup) : ∀ j,
    footruleNumFrom j l b = (l.map (fun x => absDiff (j + l.idxOf x) (b.idxOf x))).sum := by
  induction l with
  | nil => intro j; rfl
  | cons x rest ih =>
    intro j
    have hx : x ∉ rest := (List.nodup_cons.1 hl).1
    have hr := (List.nodup_cons.1 hl).2
    rw [footruleNumFrom, ih hr (j + 1)]
    simp only [List.map_cons, List.sum_cons, List.idxOf_cons_self, Nat.add_zero]
    congr 2
    apply List.map_congr_left
    intro y hy
    have : (x == y) = false := by
      have : x ≠ y := fun e => hx (e ▸ hy)
      simpa using this
    simp only [List.idxOf_cons, this, cond_false]
    congr 1
    omega

theorem footruleNum_eq_sum (a b : List Nat) (ha : a.Nodup) :
    footruleNum a b = (a.map (fun x => absDiff (a.idxOf x) (b.idxOf x))).sum := by
  rw [footruleNum, footruleNumFrom_eq_sum a b ha 0]
  simp

theorem footruleNum_symm (a b : List Nat) (h : SameRanking a b) :
    footruleNum a b = footruleNum b a := by
  rw [footruleNum_eq_sum a b h.1, footruleNum_eq_sum b a h.2.1]
  have : (fun x => absDiff (b.idxOf x) (a.idxOf x)) = (fun x => absDiff (a.idxOf x) (b.idxOf x)) := by
    funext x; exact absDiff_comm _ _
  rw [this]
  exact (h.perm.map _).sum_nat

theorem footruleNum_self (a : List Nat) (ha : a.Nodup) : footruleNum a a = 0 := by
  rw [footruleNum_eq_sum a a ha, List.sum_eq_zero_iff_forall_eq_nat]
  intro y hy
  rcases List.mem_map.1 hy with ⟨x, _, rfl⟩
  exact absDiff_self _

theorem eq_of_footruleNum_eq_zero (a b : List Nat) (h : SameRanking a b)
    (h0 : footruleNum a b = 0) : a = b := by
  rw [footruleNum_eq_sum a b h.1, List.sum_eq_zero_iff_forall_eq_nat] at h0
  have hidx : ∀ x ∈ a, a.idxOf x = b.idxOf x := by
    intro x hx
    exact absDiff_eq_zero (h0 _ (List.mem_map.2 ⟨x, hx, rfl⟩))
  apply List.ext_getElem h.length_eq
  intro i h1 h2
  have hm : a[i] ∈ a := List.getElem_mem h1
  have e1 : a.idxOf a[i] = i := h.1.idxOf_getElem i h1
  have e2 : b.idxOf a[i] = i := by rw [← hidx _ hm, e1]
  have hlt : b.idxOf a[i] < b.length := by rw [e2]; exact h2
  have := List.getElem_idxOf hlt
  rw [← this]
  simp only [e2]

theorem two_sum_map_le (l : List Nat) (f g k : Nat → Nat) (h : ∀ x ∈ l, 2 * f x ≤ g x + k x) :
    2 * (l.map f).sum ≤ (l.map g).sum + (l.map k).sum := by
  induction l with
  | nil => simp
  | cons x l ih =>
    have := ih (fun y hy => h y (by simp [hy]))
    have := h x (by simp)
    simp only [List.map_cons, List.sum_cons]
    omega

theorem map_idxOf_self (l : List Nat) (hl : l.Nodup) : l.map (fun x => l.idxOf x) = List.range l.length := by
  apply List.ext_getElem (by simp)
  intro i h1 h2
  simp at h1
  simp [hl.idxOf_getElem i h1]

theorem sum_map_idxOf_self (l : List Nat) (hl : l.Nodup) (g : Nat → Nat) :
    (l.map (fun x => g (l.idxOf x))).sum = ((List.range l.length).map g).sum := by
  rw [← map_idxOf_self l hl, List.map_map]
  rfl

/-- `Σ_{i<n} |2i+1 − n| = ⌊n²/2⌋` -/
theorem centre_sum : ∀ n : Nat,
    ((List.range n).map (fun i => absDiff (2 * i + 1) n)).sum = n * n / 2
  | 0 => rfl
  | 1 => rfl
  | n + 2 => by
    have ih := centre_sum n
    rw [List.range_succ_eq_map, List.range_succ]
    simp only [List.map_cons, List.map_append, List.map_map, List.sum_cons, List.sum_append_nat,
      List.map_nil, List.sum_nil]
    have e : (List.map ((fun i => absDiff (2 * i + 1) (n + 2)) ∘ Nat.succ) (List.range n))
        = (List.range n).map (fun i => absDiff (2 * i + 1) n) := by
      apply List.map_congr_left
      intro i _
      simp only [Function.comp, absDiff]
      split <;> split <;> omega
    rw [e, ih]
    have e0 : absDiff (2 * 0 + 1) (n + 2) = n + 1 := by unfold absDiff; split <;> omega
    have e1 : absDiff (2 * n.succ + 1) (n + 2) = n + 1 := by unfold absDiff; split <;> omega
    have e2 : (n + 2) * (n + 2) = n * n + 4 * n + 4 := by
      simp only [Nat.add_mul, Nat.mul_add]; omega
    rw [e0, e1, e2]
    omega

theorem footruleNum_le (a b : List Nat) (h : SameRanking a b) :
    footruleNum a b ≤ footruleDen a.length := by
  have hb : ((a.map (fun x => absDiff (2 * b.idxOf x + 1) a.length)).sum)
      = ((b.map (fun x => absDiff (2 * b.idxOf x + 1) a.length)).sum) := (h.perm.map _).sum_nat
  have h1 := sum_map_idxOf_self a h.1 (fun i => absDiff (2 * i + 1) a.length)
  have h2 := sum_map_idxOf_self b h.2.1 (fun i => absDiff (2 * i + 1) a.length)
  have h3 := two_sum_map_le a (fun x => absDiff (a.idxOf x) (b.idxOf x))
    (fun x => absDiff (2 * a.idxOf x + 1) a.length) (fun x => absDiff (2 * b.idxOf x + 1) a.length)
    (fun x _ => two_absDiff_le _ _ _)
  rw [hb, h1, h2, ← h.length_eq, centre_sum, ← footruleNum_eq_sum a b h.1] at h3
  unfold footruleDen
  omega

end PrefVerif.C20
