import PrefVerif.Model.KAltDeletion
/-!
Logical content of the modelled CPython sets: `elems` evolves independently of the table layout, and the
iteration order is a permutation of `elems`.
-/
namespace PrefVerif.C12DP
open PrefVerif.KAlt

variable {α : Type}

theorem iter_perm (K : HashKey α) (s : PySet α) : (s.iter K).Perm s.elems := by
  unfold PySet.iter; exact List.mergeSort_perm _ _

theorem mem_iter (K : HashKey α) (s : PySet α) (a : α) : a ∈ s.iter K ↔ a ∈ s.elems :=
  (iter_perm K s).mem_iff

@[simp] theorem resize_elems (K : HashKey α) (s : PySet α) (n : Nat) : (s.resize K n).elems = s.elems := by
  unfold PySet.resize; dsimp only; split <;> rfl

theorem add_elems (K : HashKey α) (s : PySet α) (k : α) :
    (s.add K k).elems = if s.contains K k then s.elems else s.elems ++ [k] := by
  unfold PySet.add
  by_cases h : s.contains K k = true
  · simp [h]
  · simp only [h, Bool.false_eq_true, if_false]; split <;> simp

theorem mem_add_elems (K : HashKey α) (s : PySet α) (k a : α) (h : a ∈ (s.add K k).elems) :
    a ∈ s.elems ∨ a = k := by
  rw [add_elems] at h; split at h
  · exact Or.inl h
  · simpa using h

theorem mem_add_of_mem (K : HashKey α) (s : PySet α) (k a : α) (h : a ∈ s.elems) : a ∈ (s.add K k).elems := by
  rw [add_elems]; split
  · exact h
  · simp [h]

theorem add_elems_ne_nil (K : HashKey α) (s : PySet α) (k : α) (h : s.elems ≠ []) : (s.add K k).elems ≠ [] := by
  rw [add_elems]; split
  · exact h
  · simp

theorem add_empty_elems (K : HashKey α) (k : α) : ((PySet.empty : PySet α).add K k).elems = [k] := by
  rw [add_elems]; simp [PySet.contains, PySet.empty]

theorem mem_foldl_add (K : HashKey α) (l : List α) (s : PySet α) (a : α)
    (h : a ∈ (l.foldl (PySet.add K) s).elems) : a ∈ s.elems ∨ a ∈ l := by
  induction l generalizing s with
  | nil => exact Or.inl h
  | cons x xs ih =>
    rcases ih _ h with h | h
    · rcases mem_add_elems K s x a h with h | h
      · exact Or.inl h
      · exact Or.inr (by simp [h])
    · exact Or.inr (by simp [h])

theorem mem_foldl_add_of_mem (K : HashKey α) (l : List α) (s : PySet α) (a : α) (h : a ∈ s.elems) :
    a ∈ (l.foldl (PySet.add K) s).elems := by
  induction l generalizing s with
  | nil => exact h
  | cons x xs ih => exact ih _ (mem_add_of_mem K s x a h)

/-- the part of `set_merge` after the initial resize -/
def mergeTail (K : HashKey α) (so other : PySet α) : PySet α :=
  if so.elems.length == 0 && so.mask == other.mask then
    { elems := other.elems, mask := so.mask, table := other.table }
  else if so.elems.length == 0 then
    { elems := other.elems, mask := so.mask,
      table := (other.iter K).foldl (fun t k => PySet.insertClean so.mask t (K.hash k) k) so.table }
  else (other.iter K).foldl (PySet.add K) so

theorem merge_eq (K : HashKey α) (so other : PySet α) :
    so.merge K other = if other.elems.length == 0 then so else
      mergeTail K (if (so.elems.length + other.elems.length) * 5 ≥ so.mask * 3
        then so.resize K ((so.elems.length + other.elems.length) * 2) else so) other := rfl

theorem mem_mergeTail (K : HashKey α) (so other : PySet α) (a : α) (h : a ∈ (mergeTail K so other).elems) :
    a ∈ so.elems ∨ a ∈ other.elems := by
  unfold mergeTail at h
  split at h
  · exact Or.inr h
  · split at h
    · exact Or.inr h
    · rcases mem_foldl_add K _ _ a h with h | h
      · exact Or.inl h
      · exact Or.inr ((mem_iter K other a).1 h)

theorem mem_mergeTail_of_mem (K : HashKey α) (so other : PySet α) (a : α) (h : a ∈ so.elems) :
    a ∈ (mergeTail K so other).elems := by
  have hne : ¬ (so.elems.length == 0) = true := by
    cases hso : so.elems with
    | nil => rw [hso] at h; cases h
    | cons => simp
  unfold mergeTail
  rw [if_neg (by simp only [Bool.and_eq_true]; exact fun hc => hne hc.1), if_neg hne]
  exact mem_foldl_add_of_mem K _ _ a h

theorem mergeTail_empty (K : HashKey α) (so other : PySet α) (h : so.elems = []) :
    (mergeTail K so other).elems = other.elems := by
  unfold mergeTail
  split
  · rfl
  · split
    · rfl
    · rename_i h2; simp [h] at h2

theorem resizeIf_elems (K : HashKey α) (so : PySet α) (c : Prop) [Decidable c] (n : Nat) :
    (if c then so.resize K n else so).elems = so.elems := by
  split <;> simp

theorem mem_merge_elems (K : HashKey α) (so other : PySet α) (a : α) (h : a ∈ (so.merge K other).elems) :
    a ∈ so.elems ∨ a ∈ other.elems := by
  rw [merge_eq] at h
  split at h
  · exact Or.inl h
  · rcases mem_mergeTail K _ _ a h with h | h
    · rw [resizeIf_elems] at h; exact Or.inl h
    · exact Or.inr h

theorem mem_merge_of_mem (K : HashKey α) (so other : PySet α) (a : α) (h : a ∈ so.elems) :
    a ∈ (so.merge K other).elems := by
  rw [merge_eq]
  split
  · exact h
  · apply mem_mergeTail_of_mem; rw [resizeIf_elems]; exact h

theorem copy_elems (K : HashKey α) (s : PySet α) : (s.copy K).elems = s.elems := by
  unfold PySet.copy; rw [merge_eq]
  split
  · rename_i h
    have : s.elems = [] := by simpa using h
    simp [PySet.empty, this]
  · rw [mergeTail_empty]; rw [resizeIf_elems]; rfl

/-- `frozenset([x1, x2])` -/
theorem mkFrozen_pair_elems (x1 x2 : Nat) :
    (mkFrozen [x1, x2]).elems = if x2 = x1 then [x1] else [x1, x2] := by
  unfold mkFrozen
  simp only [List.foldl_cons, List.foldl_nil]
  rw [add_elems, add_empty_elems]
  simp [PySet.contains, natKey, add_empty_elems]

end PrefVerif.C12DP
