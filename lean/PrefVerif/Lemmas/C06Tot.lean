import PrefVerif.Lemmas.C06Dict
import PrefVerif.Lemmas.C06Basic
/-! C06: totals of increment lists vs. voter-by-voter counts -/
namespace PrefVerif.C06
open PrefVerif PrefVerif.Py PrefVerif.SingleWinner PrefVerif.Spec

section gen
variable {β : Type} [Add β] [OfNat β 0] (hz : ∀ x : β, x + 0 = x) (hz' : ∀ x : β, 0 + x = x)

theorem tot_of_not_mem (L : List (Nat × β)) (a : Nat) (hz : ∀ x : β, x + 0 = x)
    (h : a ∉ L.map (·.1)) : tot L a = 0 := by
  induction L with
  | nil => rfl
  | cons y L ih =>
    simp only [List.map_cons, List.mem_cons, not_or] at h
    have : ¬ y.1 = a := fun e => h.1 e.symm
    simp [tot, this, ih h.2, hz]

include hz hz' in
/-- `for x in cls: scores[x] += d` with `cls` duplicate-free -/
theorem tot_map_const (cls : List Nat) (d : β) (a : Nat) (hnd : cls.Nodup) :
    tot (cls.map (fun x => (x, d))) a = if a ∈ cls then d else 0 := by
  induction cls with
  | nil => simp [tot]
  | cons c cls ih =>
    have hnd' := List.nodup_cons.1 hnd
    simp only [List.map_cons, tot, ih hnd'.2, List.mem_cons]
    by_cases h : c = a
    · subst h; simp [hnd'.1, hz]
    · have : ¬ a = c := fun e => h e.symm
      simp [h, this, hz']

end gen

theorem tot_append_int (L₁ L₂ : List (Nat × Int)) (a : Nat) : tot (L₁ ++ L₂) a = tot L₁ a + tot L₂ a :=
  tot_append (by intros; omega) (by intros; omega) _ _ _

theorem val_applyIncs_int (L : List (Nat × Int)) (s : AList Nat Int) (a : Nat) :
    val (applyIncs s L) a = val s a + tot L a :=
  val_applyIncs (by intros; omega) (by intros; omega) (by intros; omega) _ _ _

theorem tot_map_const_int (cls : List Nat) (d : Int) (a : Nat) (hnd : cls.Nodup) :
    tot (cls.map (fun x => (x, d))) a = if a ∈ cls then d else 0 :=
  tot_map_const (by intros; omega) (by intros; omega) _ _ _ hnd

theorem tot_append_rat (L₁ L₂ : List (Nat × Rat)) (a : Nat) : tot (L₁ ++ L₂) a = tot L₁ a + tot L₂ a :=
  tot_append (by intros; grind) (by intros; grind) _ _ _

theorem val_applyIncs_rat (L : List (Nat × Rat)) (s : AList Nat Rat) (a : Nat) :
    val (applyIncs s L) a = val s a + tot L a :=
  val_applyIncs (by intros; grind) (by intros; grind) (by intros; grind) _ _ _

theorem tot_map_const_rat (cls : List Nat) (d : Rat) (a : Nat) (hnd : cls.Nodup) :
    tot (cls.map (fun x => (x, d))) a = if a ∈ cls then d else 0 :=
  tot_map_const (by intros; grind) (by intros; grind) _ _ _ hnd

theorem votes_cons (om : Order × Nat) (p : Profile) :
    votes (om :: p) = List.replicate om.2 om.1 ++ votes p := by simp [votes]

/-- counting rules: every ballot of weight `m` satisfying `pred` contributes `m` -/
theorem tot_flatMap_countP (chunk : Order × Nat → List (Nat × Int)) (pred : Order → Bool) (a : Nat)
    (p : Profile) (h : ∀ om ∈ p, tot (chunk om) a = if pred om.1 then (om.2 : Int) else 0) :
    tot (p.flatMap chunk) a = (((votes p).countP pred : Nat) : Int) := by
  induction p with
  | nil => simp [votes, tot]
  | cons om p ih =>
    rw [List.flatMap_cons, tot_append_int, votes_cons, List.countP_append, List.countP_replicate,
      ih (fun om' h' => h om' (by simp [h'])), h om (by simp)]
    split <;> simp

theorem sum_replicate_int (n : Nat) (x : Int) : (List.replicate n x).sum = n * x := by
  induction n with
  | zero => simp
  | succ n ih => simp [List.replicate_succ, ih]; grind

theorem sum_replicate_rat (n : Nat) (x : Rat) : (List.replicate n x).sum = n * x := by
  induction n with
  | zero => simp
  | succ n ih => simp [List.replicate_succ, ih]; grind

theorem tot_flatMap_sum_int (chunk : Order × Nat → List (Nat × Int)) (g : Order → Int) (a : Nat)
    (p : Profile) (h : ∀ om ∈ p, tot (chunk om) a = om.2 * g om.1) :
    tot (p.flatMap chunk) a = ((votes p).map g).sum := by
  induction p with
  | nil => simp [votes, tot]
  | cons om p ih =>
    rw [List.flatMap_cons, tot_append_int, votes_cons, List.map_append, List.sum_append,
      List.map_replicate, sum_replicate_int,
      ih (fun om' h' => h om' (by simp [h'])), h om (by simp)]

theorem tot_flatMap_sum_rat (chunk : Order × Nat → List (Nat × Rat)) (g : Order → Rat) (a : Nat)
    (p : Profile) (h : ∀ om ∈ p, tot (chunk om) a = om.2 * g om.1) :
    tot (p.flatMap chunk) a = ((votes p).map g).sum := by
  induction p with
  | nil => simp [votes, tot]
  | cons om p ih =>
    rw [List.flatMap_cons, tot_append_rat, votes_cons, List.map_append, List.sum_append,
      List.map_replicate, sum_replicate_rat,
      ih (fun om' h' => h om' (by simp [h'])), h om (by simp)]

end PrefVerif.C06
