import PrefVerif.Model.Dichotomous
import PrefVerif.Lemmas.C17AList
/-!
# C05 helper lemmas, part 5: `indices_to_columns` (`groupColumns`)

The keys are the distinct supports (no repeats); the value of a support is the list of the columns
having it.
-/
namespace PrefVerif.C05
open PrefVerif PrefVerif.Py PrefVerif.Dichotomous

abbrev Groups := AList (List Nat) (List Nat)

def groupStep (d : Groups) (ci : List Nat × Nat) : Groups := AList.upd d ci.1 [] (· ++ [ci.2])

theorem groupColumns_eq (cols : List (List Nat)) : groupColumns cols = cols.zipIdx.foldl groupStep [] := rfl

theorem keys_groupStep (d : Groups) (ci : List Nat × Nat) :
    AList.keys (groupStep d ci) = if ci.1 ∈ AList.keys d then AList.keys d else AList.keys d ++ [ci.1] := by
  unfold groupStep AList.upd
  split
  · next h => exact C17.keys_set_of_mem _ _ _ h
  · next h => exact C17.keys_set_of_not_mem _ _ _ h

theorem get?_groupStep (d : Groups) (ci : List Nat × Nat) (k : List Nat) :
    (AList.get? (groupStep d ci) k).getD [] =
      (AList.get? d k).getD [] ++ (if ci.1 = k then [ci.2] else []) := by
  unfold groupStep
  by_cases h : ci.1 = k
  · subst h; simp [C17.get?_upd_same]
  · rw [C17.get?_upd_other _ _ _ _ _ (fun e => h e.symm)]; simp [h]

theorem nodup_keys_foldl (l : List (List Nat × Nat)) (d : Groups) (h : (AList.keys d).Nodup) :
    (AList.keys (l.foldl groupStep d)).Nodup := by
  induction l generalizing d with
  | nil => exact h
  | cons ci l ih =>
    apply ih
    rw [keys_groupStep]
    split
    · exact h
    · next hk =>
      rw [List.nodup_append]
      refine ⟨h, by simp, ?_⟩
      intro a ha b hb
      simp only [List.mem_singleton] at hb; subst hb
      exact fun e => hk (e ▸ ha)

theorem mem_keys_foldl (l : List (List Nat × Nat)) (d : Groups) (k : List Nat) :
    k ∈ AList.keys (l.foldl groupStep d) ↔ k ∈ AList.keys d ∨ k ∈ l.map (·.1) := by
  induction l generalizing d with
  | nil => simp
  | cons ci l ih =>
    rw [List.foldl_cons, ih, keys_groupStep]
    by_cases hk : ci.1 ∈ AList.keys d
    · simp only [hk, if_true, List.map_cons, List.mem_cons]
      constructor
      · rintro (h | h)
        · exact Or.inl h
        · exact Or.inr (Or.inr h)
      · rintro (h | h | h)
        · exact Or.inl h
        · exact Or.inl (h ▸ hk)
        · exact Or.inr h
    · simp only [hk, if_false, List.mem_append, List.map_cons, List.mem_cons, List.not_mem_nil, or_false]
      exact or_assoc

theorem get?_foldl (l : List (List Nat × Nat)) (d : Groups) (k : List Nat) :
    (AList.get? (l.foldl groupStep d) k).getD [] =
      (AList.get? d k).getD [] ++ (l.filter (fun ci => ci.1 == k)).map (·.2) := by
  induction l generalizing d with
  | nil => simp
  | cons ci l ih =>
    rw [List.foldl_cons, ih, get?_groupStep]
    by_cases h : ci.1 = k
    · simp [h]
    · simp [h]

/-! ### consequences for `groupColumns` -/

theorem nodup_keys_groupColumns (cols : List (List Nat)) : (AList.keys (groupColumns cols)).Nodup :=
  nodup_keys_foldl _ _ (by simp [AList.keys])

theorem mem_keys_groupColumns (cols : List (List Nat)) (k : List Nat) :
    k ∈ AList.keys (groupColumns cols) ↔ k ∈ cols := by
  rw [groupColumns_eq, mem_keys_foldl]
  simp [AList.keys]

/-- the columns with support `k` -/
def group (cols : List (List Nat)) (k : List Nat) : List Nat := (AList.get? (groupColumns cols) k).getD []

theorem group_eq (cols : List (List Nat)) (k : List Nat) :
    group cols k = (cols.zipIdx.filter (fun ci => ci.1 == k)).map (·.2) := by
  rw [group, groupColumns_eq, get?_foldl]; simp [AList.get?]

theorem mem_group (cols : List (List Nat)) (k : List Nat) (c : Nat) :
    c ∈ group cols k ↔ cols[c]? = some k := by
  rw [group_eq]
  simp only [List.mem_map, List.mem_filter, beq_iff_eq]
  constructor
  · rintro ⟨⟨s, i⟩, ⟨hm, hs⟩, rfl⟩
    rw [List.mem_zipIdx_iff_getElem?] at hm
    simp only at hs hm; subst hs; exact hm
  · intro h
    exact ⟨(k, c), ⟨by rw [List.mem_zipIdx_iff_getElem?]; exact h, rfl⟩, rfl⟩

theorem nodup_group (cols : List (List Nat)) (k : List Nat) : (group cols k).Nodup := by
  rw [group_eq]
  have h1 : ((cols.zipIdx.filter (fun ci => ci.1 == k)).map (·.2)).Sublist (cols.zipIdx.map (·.2)) :=
    (List.filter_sublist).map _
  refine h1.nodup ?_
  have : cols.zipIdx.map (·.2) = List.range' 0 cols.length := by
    simp [List.zipIdx_map_snd]
  rw [this]; exact List.nodup_range'

end PrefVerif.C05
