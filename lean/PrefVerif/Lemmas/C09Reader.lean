import PrefVerif.Lemmas.C09Roundtrip
import PrefVerif.Lemmas.IOReaderHdr
/-!
# C09 — the independent reader on a written matching file
-/
namespace PrefVerif.C09
open PrefVerif PrefVerif.Py PrefVerif.InstanceIO PrefVerif.MatchingIO PrefVerif.Spec.IO PrefVerif.IOL
open PrefVerif.Spec.Format (keyValue numberedKey digitsToNat?)

variable {W : Type}

/-- what the reader returns in edge mode, given the header lines, the body lines and the parsed edges -/
theorem read_edges (text : Str) (hdrL bodyL : List Str) (es : List (Nat × Nat × Str))
    (hlines : Spec.Format.splitLines text = hdrL ++ bodyL)
    (hh : ∀ l ∈ hdrL, ['#'].isPrefixOf l = true)
    (hb : ∀ l, bodyL.head? = some l → ['#'].isPrefixOf l = false)
    (hes : bodyL.mapM Spec.Format.edgeLine = some es) :
    Spec.Format.read true text = some
      { fields := (hdrL.map keyValue).filter (fun kv => (numberedKey "ALTERNATIVE NAME " kv.1).isNone
                                    && (numberedKey "CATEGORY NAME " kv.1).isNone),
        altNames := (hdrL.map keyValue).filterMap
          (fun kv => (numberedKey "ALTERNATIVE NAME " kv.1).map (fun n => (n, kv.2))),
        catNames := (hdrL.map keyValue).filterMap
          (fun kv => (numberedKey "CATEGORY NAME " kv.1).map (fun n => (n, kv.2))),
        ballots := [], edges := es } := by
  have hrun := takeWhile_run (p := fun l : Str => ['#'].isPrefixOf l) hdrL bodyL hh hb
  simp only [Spec.Format.read, hlines, hrun.1, hrun.2, hes, if_true]
  rfl

/-! ## the header -/

def kvNum (i : MatchInst W) : List (Str × Str) :=
  [(s "NUMBER ALTERNATIVES", natToStr i.header.numAlternatives),
   (s "NUMBER EDGES", natToStr i.numEdges)]

theorem map_keyValue_numLines (i : MatchInst W) : (numLines i).map keyValue = kvNum i := by
  have h1 := keyValue_numLine (s "NUMBER ALTERNATIVES") (by decide) i.header.numAlternatives
  have h2 := keyValue_numLine (s "NUMBER EDGES") (by decide) i.numEdges
  simp only [numLines, kvNum, List.map_cons, List.map_nil]
  rw [show numAltKey = '#' :: ' ' :: s "NUMBER ALTERNATIVES" ++ [':'] by decide,
      show numEdgesKey = '#' :: ' ' :: s "NUMBER EDGES" ++ [':'] by decide, h1, h2]

theorem map_keyValue_hdrLines (i : MatchInst W) :
    (hdrLines i).map keyValue
      = kvMeta i.header ++ kvNum i ++ kvNumbered "ALTERNATIVE NAME " i.header.altNames := by
  simp only [hdrLines, List.map_append, map_keyValue_metaLines, map_keyValue_numLines,
    map_keyValue_altLines]

theorem hdrLines_hash (i : MatchInst W) : ∀ l ∈ hdrLines i, ['#'].isPrefixOf l = true := by
  intro l hl
  simp only [hdrLines, metaLines, numLines, List.mem_append, List.mem_map, List.mem_cons,
    List.not_mem_nil, or_false] at hl
  rcases hl with (⟨f, _, rfl⟩ | rfl | rfl) | ⟨kv, _, rfl⟩
  · simp [fieldLine, Field.key, List.isPrefixOf]
  · simp [numLine, numAltKey, s, List.isPrefixOf]
  · simp [numLine, numEdgesKey, s, List.isPrefixOf]
  · simp [numberedLine, altPfx, s, List.isPrefixOf]

theorem kvNum_filters (i : MatchInst W) :
    (kvNum i).filter (fun kv => (numberedKey "ALTERNATIVE NAME " kv.1).isNone
      && (numberedKey "CATEGORY NAME " kv.1).isNone) = kvNum i ∧
    (kvNum i).filterMap (fun kv => (numberedKey "ALTERNATIVE NAME " kv.1).map (fun n => (n, kv.2))) = [] ∧
    (kvNum i).filterMap (fun kv => (numberedKey "CATEGORY NAME " kv.1).map (fun n => (n, kv.2))) = [] := by
  have a1 : numberedKey "ALTERNATIVE NAME " (s "NUMBER ALTERNATIVES") = none := by decide
  have a2 : numberedKey "ALTERNATIVE NAME " (s "NUMBER EDGES") = none := by decide
  have c1 : numberedKey "CATEGORY NAME " (s "NUMBER ALTERNATIVES") = none := by decide
  have c2 : numberedKey "CATEGORY NAME " (s "NUMBER EDGES") = none := by decide
  simp [kvNum, a1, a2, c1, c2]

/-! ## the whole file -/

/-- an edge as the reader reports it -/
def readerEdge (showW : W → Str) (e : Nat × Nat × Option W) : Nat × Nat × Str :=
  (e.1, e.2.1, weightText showW e.2.2)

section
variable {showW : W → Str} {readW : Str → Option W} (hf : FloatSpec showW readW)
include hf

theorem reader_edgeLines (g : Graph W) (hg : WfG g) :
    (edgeLines showW g).mapM Spec.Format.edgeLine = some ((edgeList g).map (readerEdge showW)) := by
  apply mapM_map_some
  intro e he
  obtain ⟨x, y, ow⟩ := e
  obtain ⟨w, hw'⟩ := weight_of_mem_edges g hg ((mem_edgeList g hg.1 _).1 he)
  simp only at hw'
  subst hw'
  exact reader_edgeText hf x y w

/-- **the independent reader on the written file** -/
theorem reader_write (i : MatchInst W) (h : WfM i) :
    Spec.Format.read true (write showW i) = some
      { fields := kvMeta i.header ++ kvNum i, altNames := i.header.altNames, catNames := [],
        ballots := [], edges := (edgeList i.graph).map (readerEdge showW) } := by
  obtain ⟨hh, hg, _, _, _⟩ := h
  have hok : ∀ l ∈ hdrLines i ++ edgeLines showW i.graph, LineOK l := by
    intro l hl
    rcases List.mem_append.1 hl with hl | hl
    · exact lineOK_hdrLines i hh l hl
    · obtain ⟨e, he, rfl⟩ := List.mem_map.1 hl
      obtain ⟨x, y, ow⟩ := e
      obtain ⟨w, hw'⟩ := weight_of_mem_edges i.graph hg ((mem_edgeList i.graph hg.1 _).1 he)
      simp only at hw'
      subst hw'
      exact lineOK_edgeText hf x y w
  have hlines : Spec.Format.splitLines (write showW i) = hdrLines i ++ edgeLines showW i.graph := by
    rw [write_eq, splitLines_unlines _ hok]
    intro l hl hnil
    rcases List.mem_append.1 hl with hl | hl
    · have := hdrLines_hash i l hl; rw [hnil] at this; simp at this
    · obtain ⟨e, _, rfl⟩ := List.mem_map.1 hl
      exact edgeText_ne_nil showW e hnil
  have hb : ∀ l, (edgeLines showW i.graph).head? = some l → ['#'].isPrefixOf l = false := by
    intro l hl
    obtain ⟨e, _, rfl⟩ := List.mem_map.1 (List.mem_of_mem_head? hl)
    exact edgeText_not_hash showW e
  rw [read_edges (write showW i) (hdrLines i) (edgeLines showW i.graph) _ hlines (hdrLines_hash i) hb
    (reader_edgeLines hf i.graph hg), map_keyValue_hdrLines]
  obtain ⟨k1, k2, k3⟩ := kvNum_filters i
  simp only [List.filter_append, List.filterMap_append, filter_fields_kvMeta, k1,
    filter_fields_kvNumbered_alt, filterMap_alt_kvMeta, k2, filterMap_numbered_self,
    filterMap_cat_kvMeta, k3, List.append_nil, List.nil_append]
  rw [filterMap_numbered_other "ALTERNATIVE NAME " "CATEGORY NAME " _
    (fun r => by simp [List.isPrefixOf])]

end

/-- the reader's edges are exactly the graph's edges with their weight texts -/
theorem mem_reader_edges (showW : W → Str) (g : Graph W) (hg : WfG g) (a b : Nat) (t : Str) :
    (a, b, t) ∈ (edgeList g).map (readerEdge showW) ↔ ∃ w, (a, b, some w) ∈ g.edges ∧ t = showW w := by
  simp only [List.mem_map, readerEdge, Prod.mk.injEq]
  constructor
  · rintro ⟨e, he, rfl, rfl, rfl⟩
    have hm := (mem_edgeList g hg.1 e).1 he
    obtain ⟨x, y, ow⟩ := e
    obtain ⟨w, hw'⟩ := weight_of_mem_edges g hg hm
    simp only at hw'
    subst hw'
    exact ⟨w, hm, rfl⟩
  · rintro ⟨w, hm, rfl⟩
    exact ⟨(a, b, some w), (mem_edgeList g hg.1 _).2 hm, rfl, rfl, rfl⟩

end PrefVerif.C09
