import PrefVerif.Py.AList
/-!
# C07 helper lemmas: association lists (`dict`s in insertion order)
-/
namespace PrefVerif.C07
open PrefVerif.Py

variable {κ ν : Type} [BEq κ] [LawfulBEq κ] [DecidableEq κ]
set_option linter.unusedSectionVars false
set_option linter.unusedSimpArgs false

theorem get?_nil (k : κ) : AList.get? ([] : AList κ ν) k = none := rfl

theorem get?_cons (k' : κ) (v' : ν) (d : AList κ ν) (k : κ) :
    AList.get? ((k', v') :: d) k = if k' = k then some v' else AList.get? d k := by
  simp only [AList.get?, List.find?_cons]
  by_cases h : k' = k
  · simp [h]
  · have hb : (k' == k) = false := by simpa using h
    simp [h, hb]

theorem keys_cons (e : κ × ν) (d : AList κ ν) : AList.keys (e :: d) = e.1 :: AList.keys d := rfl

theorem get?_set_same (d : AList κ ν) (k : κ) (v : ν) : AList.get? (AList.set d k v) k = some v := by
  induction d with
  | nil => simp [AList.set, get?_cons]
  | cons e d ih =>
    obtain ⟨k', v'⟩ := e
    by_cases h : k' = k <;> simp [AList.set, h, get?_cons, ih]

theorem get?_set_other (d : AList κ ν) (k k' : κ) (v : ν) (h : k ≠ k') :
    AList.get? (AList.set d k v) k' = AList.get? d k' := by
  induction d with
  | nil => simp [AList.set, get?_cons, get?_nil, h]
  | cons e d ih =>
    obtain ⟨k0, v0⟩ := e
    by_cases h0 : k0 = k
    · subst h0; simp [AList.set, get?_cons, h]
    · simp [AList.set, h0, get?_cons, ih]

theorem get?_set (d : AList κ ν) (k k' : κ) (v : ν) :
    AList.get? (AList.set d k v) k' = if k = k' then some v else AList.get? d k' := by
  by_cases h : k = k'
  · subst h; simp [get?_set_same]
  · simp [h, get?_set_other d k k' v h]

theorem get?_eq_none_iff (d : AList κ ν) (k : κ) : AList.get? d k = none ↔ k ∉ AList.keys d := by
  induction d with
  | nil => simp [get?_nil, AList.keys]
  | cons e d ih =>
    obtain ⟨k0, v0⟩ := e
    by_cases h0 : k0 = k
    · subst h0; simp [get?_cons, keys_cons]
    · have h1 : ¬ k = k0 := fun h => h0 h.symm
      simp [get?_cons, keys_cons, h0, h1, ih]

theorem mem_keys_of_get? {d : AList κ ν} {k : κ} {v : ν} (h : AList.get? d k = some v) :
    k ∈ AList.keys d := by
  false_or_by_contra
  rename_i hn
  rw [← get?_eq_none_iff] at hn
  simp [hn] at h

theorem keys_set_of_mem (d : AList κ ν) (k : κ) (v : ν) (h : k ∈ AList.keys d) :
    AList.keys (AList.set d k v) = AList.keys d := by
  induction d with
  | nil => simp [AList.keys] at h
  | cons e d ih =>
    obtain ⟨k0, v0⟩ := e
    by_cases h0 : k0 = k
    · subst h0; simp [AList.set, keys_cons]
    · have h1 : ¬ k = k0 := fun h => h0 h.symm
      simp only [keys_cons, List.mem_cons, h1, false_or] at h
      simp [AList.set, h0, keys_cons, ih h]

theorem keys_set_of_not_mem (d : AList κ ν) (k : κ) (v : ν) (h : k ∉ AList.keys d) :
    AList.keys (AList.set d k v) = AList.keys d ++ [k] := by
  induction d with
  | nil => simp [AList.set, AList.keys]
  | cons e d ih =>
    obtain ⟨k0, v0⟩ := e
    simp only [keys_cons, List.mem_cons, not_or] at h
    have h0 : ¬ k0 = k := fun h' => h.1 h'.symm
    simp [AList.set, h0, keys_cons, ih h.2]

/-- a dict built by a comprehension `{k: F k for k in l}` -/
theorem get?_map_mk (l : List κ) (F : κ → ν) (k : κ) :
    AList.get? (l.map (fun x => (x, F x))) k = if k ∈ l then some (F k) else none := by
  induction l with
  | nil => simp [get?_nil]
  | cons x l ih =>
    simp only [List.map_cons, get?_cons, ih, List.mem_cons]
    by_cases h : x = k
    · subst h; simp
    · have h1 : ¬ k = x := fun h' => h h'.symm
      simp [h, h1]

/-- extensionality: a dict is determined by its key list and its lookups -/
theorem eq_map_of_keys_get? (d : AList κ ν) (ks : List κ) (F : κ → ν) (hk : AList.keys d = ks)
    (hnd : ks.Nodup) (hg : ∀ k ∈ ks, AList.get? d k = some (F k)) :
    d = ks.map (fun k => (k, F k)) := by
  induction d generalizing ks with
  | nil => simp [AList.keys] at hk; subst hk; rfl
  | cons e d ih =>
    obtain ⟨k0, v0⟩ := e
    cases ks with
    | nil => simp [AList.keys] at hk
    | cons k ks =>
      simp only [keys_cons, List.cons.injEq] at hk
      obtain ⟨rfl, hk⟩ := hk
      have h0 := hg k0 (by simp)
      simp only [get?_cons, if_true, Option.some.injEq] at h0
      subst h0
      simp only [List.map_cons, List.cons.injEq, true_and]
      rw [List.nodup_cons] at hnd
      apply ih ks hk hnd.2
      intro k hkm
      have := hg k (by simp [hkm])
      have hne : ¬ k0 = k := by rintro rfl; exact hnd.1 hkm
      simpa [get?_cons, hne] using this

end PrefVerif.C07
