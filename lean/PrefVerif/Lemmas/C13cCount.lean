import PrefVerif.Lemmas.C13Path
/-!
# C13 completeness, part 1 — edge counting

A connected graph on `n` distinct vertices has at least `n - 1` edges with both endpoints among
them (`conn_edge_count`).  The proof grows the vertex set one vertex at a time (`Grown`), each new
vertex bringing a new edge.  Consequence used by Trick's argument: in a spanning tree
(`|E| + 1 = |C|`), a vertex whose removal leaves the rest connected has at most one incident edge
(`incident_le_one`).
-/
namespace PrefVerif.C13c
open PrefVerif.C13

/-- the edge `e` touches the vertex `a` -/
def inc (a : Nat) (e : Nat × Nat) : Bool := e.1 == a || e.2 == a

/-- both endpoints of `e` lie in `T` -/
def within (T : List Nat) (e : Nat × Nat) : Bool := T.contains e.1 && T.contains e.2

theorem within_iff {T : List Nat} {e : Nat × Nat} : within T e = true ↔ e.1 ∈ T ∧ e.2 ∈ T := by
  simp [within]

theorem inc_iff {a : Nat} {e : Nat × Nat} : inc a e = true ↔ e.1 = a ∨ e.2 = a := by
  simp [inc]

/-! ### pigeonhole and counting on lists -/

theorem length_le_of_subset : ∀ (S T : List Nat), S.Nodup → (∀ x ∈ S, x ∈ T) →
    S.length ≤ T.length := by
  intro S
  induction S with
  | nil => intro T _ _; simp
  | cons x S ih =>
    intro T hnd hsub
    have ⟨hx, hS⟩ := List.nodup_cons.1 hnd
    have hxT : x ∈ T := hsub x (List.mem_cons_self ..)
    have h1 : S.length ≤ (T.erase x).length := by
      apply ih _ hS
      intro y hy
      have hyx : y ≠ x := fun h => hx (h ▸ hy)
      exact (List.mem_erase_of_ne hyx).2 (hsub y (List.mem_cons_of_mem _ hy))
    have h2 := List.length_erase_of_mem hxT
    have h3 : 0 < T.length := List.length_pos_of_mem hxT
    simp only [List.length_cons]
    omega

theorem exists_not_mem_of_length_lt {S T : List Nat} (hS : S.Nodup) (h : T.length < S.length) :
    ∃ x ∈ S, x ∉ T := by
  apply Classical.byContradiction
  intro hno
  have : ∀ x ∈ S, x ∈ T := by
    intro x hx
    apply Classical.byContradiction
    intro hxT
    exact hno ⟨x, hx, hxT⟩
  have := length_le_of_subset S T hS this
  omega

theorem countP_succ_le {α : Type} {p q : α → Bool} {e0 : α} : ∀ (l : List α),
    (∀ e ∈ l, p e = true → q e = true) → e0 ∈ l → q e0 = true → p e0 = false →
    l.countP p + 1 ≤ l.countP q := by
  intro l
  induction l with
  | nil => intro _ h; cases h
  | cons y t ih =>
    intro himp hmem hq hp
    have hmono : t.countP p ≤ t.countP q :=
      List.countP_mono_left (fun e he => himp e (List.mem_cons_of_mem _ he))
    rcases List.mem_cons.1 hmem with rfl | hmem
    · simp only [List.countP_cons, hq, hp]
      simp
      omega
    · have := ih (fun e he => himp e (List.mem_cons_of_mem _ he)) hmem hq hp
      simp only [List.countP_cons]
      by_cases hpy : p y = true
      · have := himp y (List.mem_cons_self ..) hpy
        simp [hpy, this]; omega
      · simp [hpy]; omega

theorem countP_le_one_unique {α : Type} {p : α → Bool} : ∀ (l : List α), l.countP p ≤ 1 →
    ∀ x ∈ l, ∀ y ∈ l, p x = true → p y = true → x = y := by
  intro l
  induction l with
  | nil => intro _ x hx; cases hx
  | cons z t ih =>
    intro hc x hx y hy hpx hpy
    simp only [List.countP_cons] at hc
    rcases List.mem_cons.1 hx with hxz | hxt
    · rcases List.mem_cons.1 hy with hyz | hyt
      · rw [hxz, hyz]
      · have : 0 < t.countP p := List.countP_pos_iff.2 ⟨y, hyt, hpy⟩
        rw [hxz] at hpx
        simp only [hpx, if_true] at hc; omega
    · rcases List.mem_cons.1 hy with hyz | hyt
      · have : 0 < t.countP p := List.countP_pos_iff.2 ⟨x, hxt, hpx⟩
        rw [hyz] at hpy
        simp only [hpy, if_true] at hc; omega
      · exact ih (by omega) x hxt y hyt hpx hpy

/-! ### growing a connected set -/

/-- `T` can be built from one vertex by repeatedly adding a new vertex adjacent to an old one -/
inductive Grown (E : List (Nat × Nat)) : List Nat → Prop where
  | single (v : Nat) : Grown E [v]
  | cons (a b : Nat) (T : List Nat) (h : Grown E T) (hb : b ∈ T) (ha : a ∉ T) (he : Adj E b a) :
      Grown E (a :: T)

theorem Grown.ne_nil {E : List (Nat × Nat)} {T : List Nat} (h : Grown E T) : T ≠ [] := by
  cases h <;> simp

theorem Grown.count {E : List (Nat × Nat)} {T : List Nat} (h : Grown E T) :
    T.length ≤ E.countP (within T) + 1 := by
  induction h with
  | single v => simp
  | cons a b T _ hb ha he ih =>
    have hmono : ∀ e ∈ E, within T e = true → within (a :: T) e = true := by
      intro e _ h
      rw [within_iff] at h ⊢
      exact ⟨List.mem_cons_of_mem _ h.1, List.mem_cons_of_mem _ h.2⟩
    have : E.countP (within T) + 1 ≤ E.countP (within (a :: T)) := by
      rcases he with he | he
      · apply countP_succ_le E hmono he
        · rw [within_iff]; exact ⟨List.mem_cons_of_mem _ hb, List.mem_cons_self ..⟩
        · apply Bool.eq_false_iff.2
          intro h; rw [within_iff] at h; exact ha h.2
      · apply countP_succ_le E hmono he
        · rw [within_iff]; exact ⟨List.mem_cons_self .., List.mem_cons_of_mem _ hb⟩
        · apply Bool.eq_false_iff.2
          intro h; rw [within_iff] at h; exact ha h.1
    simp only [List.length_cons]
    omega

/-- a path from inside `T` to outside `T` crosses the boundary along an edge -/
theorem Path.crossing {E : List (Nat × Nat)} {S T : List Nat} {u x : Nat} (h : Path E S u x)
    (hu : u ∈ T) (hx : x ∉ T) : ∃ b a, b ∈ T ∧ a ∉ T ∧ a ∈ S ∧ Adj E b a := by
  induction h with
  | refl u _ => exact absurd hu hx
  | step u w v _ he hw _ ih =>
    by_cases hwT : w ∈ T
    · exact ih hwT hx
    · exact ⟨u, w, hu, hwT, hw, he⟩

theorem grow_aux {E : List (Nat × Nat)} {S : List Nat} (hc : Conn E S) (hS : S.Nodup) :
    ∀ (n : Nat) (T : List Nat), Grown E T → T.Nodup → (∀ x ∈ T, x ∈ S) →
      T.length + n = S.length →
      ∃ T', Grown E T' ∧ (∀ x ∈ T', x ∈ S) ∧ T'.length = S.length := by
  intro n
  induction n with
  | zero => intro T hg _ hsub hl; exact ⟨T, hg, hsub, by omega⟩
  | succ n ih =>
    intro T hg hnd hsub hl
    obtain ⟨x, hxS, hxT⟩ := exists_not_mem_of_length_lt (T := T) hS (by omega)
    obtain ⟨v, hv⟩ := List.exists_mem_of_ne_nil T hg.ne_nil
    obtain ⟨b, a, hb, ha, haS, he⟩ := Path.crossing (hc v (hsub v hv) x hxS) hv hxT
    apply ih (a :: T) (Grown.cons a b T hg hb ha he) (List.nodup_cons.2 ⟨ha, hnd⟩)
    · intro y hy
      rcases List.mem_cons.1 hy with rfl | hy
      · exact haS
      · exact hsub y hy
    · simp only [List.length_cons]; omega

/-- a connected graph on `n ≥ 1` distinct vertices has at least `n - 1` edges inside the set -/
theorem conn_edge_count {E : List (Nat × Nat)} {S : List Nat} (hc : Conn E S) (hS : S.Nodup)
    (hne : S ≠ []) : S.length ≤ E.countP (within S) + 1 := by
  obtain ⟨v, hv⟩ := List.exists_mem_of_ne_nil S hne
  have hpos : 0 < S.length := List.length_pos_of_mem hv
  obtain ⟨T, hg, hsub, hl⟩ := grow_aux hc hS (S.length - 1) [v] (Grown.single v) (by simp)
    (by intro x hx; rw [List.mem_singleton.1 hx]; exact hv) (by simp; omega)
  have h1 := hg.count
  have h2 : E.countP (within T) ≤ E.countP (within S) := by
    apply List.countP_mono_left
    intro e _ h
    rw [within_iff] at h ⊢
    exact ⟨hsub _ h.1, hsub _ h.2⟩
  omega

/-- in a graph with `|C| - 1` edges, a vertex `a` whose removal leaves the other vertices of `C`
connected has at most one incident edge -/
theorem incident_le_one {E : List (Nat × Nat)} {C : List Nat} {a : Nat} (hC : C.Nodup)
    (hlen : E.length + 1 = C.length) (h3 : 2 ≤ C.length)
    (hc : Conn E (C.filter (· != a))) (hfl : (C.filter (· != a)).length + 1 = C.length) :
    E.countP (inc a) ≤ 1 := by
  have hne : C.filter (· != a) ≠ [] := by
    intro h; rw [h] at hfl; simp at hfl; omega
  have h1 := conn_edge_count hc (hC.sublist List.filter_sublist) hne
  have h2 : E.countP (inc a) ≤ E.countP (fun e => !within (C.filter (· != a)) e) := by
    apply List.countP_mono_left
    intro e _ h
    rw [inc_iff] at h
    simp only [Bool.not_eq_true', ← Bool.not_eq_true, within_iff, List.mem_filter]
    rintro ⟨⟨_, h1⟩, ⟨_, h2⟩⟩
    rcases h with h | h
    · simp [h] at h1
    · simp [h] at h2
  have h3' := List.length_eq_countP_add_countP (within (C.filter (· != a))) (l := E)
  simp only [Bool.not_eq_true] at h3'
  have h4 : E.countP (fun e => !within (C.filter (· != a)) e)
      = E.countP (fun e => within (C.filter (· != a)) e = false) := by
    apply List.countP_congr
    intro e _
    simp
  omega

end PrefVerif.C13c
