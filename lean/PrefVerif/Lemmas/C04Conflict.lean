import PrefVerif.Model.SingleCrossing
import PrefVerif.Spec.Domains
import PrefVerif.Lemmas.C04Additive
/-!
# C04 helpers: what `conflict_set(o1, o2)` contains, and what inclusion of conflict sets means.
-/
namespace PrefVerif.C04
open PrefVerif PrefVerif.Spec PrefVerif.Distances PrefVerif.SingleCrossing PrefVerif.C20

/-- the test inside `conflict_set` -/
def cflag (o1 o2 : List Nat) (x y : Nat) : Bool :=
  (SingleCrossing.prefers x y o1 && SingleCrossing.prefers y x o2) ||
    (SingleCrossing.prefers y x o1 && SingleCrossing.prefers x y o2)

theorem cflag_symm (o1 o2 : List Nat) (x y : Nat) : cflag o1 o2 x y = cflag o1 o2 y x := by
  simp only [cflag]; rw [Bool.or_comm]

theorem cflag_irrefl (o1 o2 : List Nat) (x : Nat) : cflag o1 o2 x x = false := by
  simp [cflag, SingleCrossing.prefers]

theorem cflag_iff {o1 o2 : List Nat} {x y : Nat} (h1 : x ∈ o1) (h2 : x ∈ o2) (hne : x ≠ y) :
    cflag o1 o2 x y = true ↔ Spec.prefers o1 x y ≠ Spec.prefers o2 x y := by
  have t1 : o1.idxOf x ≠ o1.idxOf y := fun e => hne (idxOf_inj_of_mem h1 e)
  have t2 : o2.idxOf x ≠ o2.idxOf y := fun e => hne (idxOf_inj_of_mem h2 e)
  simp only [cflag, SingleCrossing.prefers, Spec.prefers, Bool.or_eq_true, Bool.and_eq_true,
    decide_eq_true_eq, ne_eq, decide_eq_decide]
  omega

theorem outer_cons (o1 o2 : List Nat) (x : Nat) (rest : List Nat) :
    conflictSet.outer o1 o2 (x :: rest) =
      (rest.filterMap (fun y => if cflag o1 o2 x y then some (min x y, max x y) else none)) ++
        conflictSet.outer o1 o2 rest := rfl

theorem mem_outer (o1 o2 : List Nat) (p : Nat × Nat) (l : List Nat) :
    p ∈ conflictSet.outer o1 o2 l ↔
      ∃ x ∈ l, ∃ y ∈ l, cflag o1 o2 x y = true ∧ p = (min x y, max x y) := by
  induction l with
  | nil => simp [conflictSet.outer]
  | cons z rest ih =>
    rw [outer_cons, List.mem_append, ih, List.mem_filterMap]
    constructor
    · rintro (⟨y, hy, hc⟩ | ⟨x, hx, y, hy, hc, rfl⟩)
      · split at hc
        · rename_i hf
          simp only [Option.some.injEq] at hc
          exact ⟨z, List.mem_cons_self, y, List.mem_cons_of_mem _ hy, hf, hc.symm⟩
        · simp at hc
      · exact ⟨x, List.mem_cons_of_mem _ hx, y, List.mem_cons_of_mem _ hy, hc, rfl⟩
    · rintro ⟨x, hx, y, hy, hc, rfl⟩
      rcases List.mem_cons.1 hx with rfl | hx'
      · rcases List.mem_cons.1 hy with rfl | hy'
        · rw [cflag_irrefl] at hc; simp at hc
        · left
          exact ⟨y, hy', by simp [hc]⟩
      · rcases List.mem_cons.1 hy with rfl | hy'
        · left
          refine ⟨x, hx', ?_⟩
          rw [cflag_symm] at hc
          simp [hc, Nat.min_comm, Nat.max_comm]
        · right
          exact ⟨x, hx', y, hy', hc, rfl⟩

/-- `conflict_set(o1, o2)` = the pairs `a < b` of alternatives ranked differently by `o1` and `o2` -/
theorem mem_conflictSet {alts o1 o2 : List Nat} (h1 : SameRanking alts o1) (h2 : SameRanking alts o2)
    (p : Nat × Nat) :
    p ∈ conflictSet o1 o2 ↔
      p.1 < p.2 ∧ p.1 ∈ alts ∧ p.2 ∈ alts ∧ Spec.prefers o1 p.1 p.2 ≠ Spec.prefers o2 p.1 p.2 := by
  unfold conflictSet
  rw [List.mem_eraseDups, mem_outer]
  constructor
  · rintro ⟨x, hx, y, hy, hc, rfl⟩
    have hne : x ≠ y := by
      rintro rfl
      rw [cflag_irrefl] at hc; simp at hc
    have hxa : x ∈ alts := (h1.2.2 x).2 hx
    have hya : y ∈ alts := (h1.2.2 y).2 hy
    rcases Nat.lt_or_gt_of_ne hne with hlt | hgt
    · rw [Nat.min_eq_left (Nat.le_of_lt hlt), Nat.max_eq_right (Nat.le_of_lt hlt)]
      exact ⟨hlt, hxa, hya, (cflag_iff hx ((h2.2.2 x).1 hxa) hne).1 hc⟩
    · rw [Nat.min_eq_right (Nat.le_of_lt hgt), Nat.max_eq_left (Nat.le_of_lt hgt)]
      rw [cflag_symm] at hc
      exact ⟨hgt, hya, hxa, (cflag_iff hy ((h2.2.2 y).1 hya) (Ne.symm hne)).1 hc⟩
  · rintro ⟨hlt, ha, hb, hd⟩
    refine ⟨p.1, (h1.2.2 _).1 ha, p.2, (h1.2.2 _).1 hb, ?_, ?_⟩
    · exact (cflag_iff ((h1.2.2 _).1 ha) ((h2.2.2 _).1 ha) (Nat.ne_of_lt hlt)).2 hd
    · rw [Nat.min_eq_left (Nat.le_of_lt hlt), Nat.max_eq_right (Nat.le_of_lt hlt)]

theorem nodup_eraseDups_aux {α : Type} [BEq α] [LawfulBEq α] (n : Nat) :
    ∀ l : List α, l.length ≤ n → l.eraseDups.Nodup := by
  induction n with
  | zero =>
    intro l hl
    have : l = [] := List.length_eq_zero_iff.1 (by omega)
    subst this
    simp
  | succ n ih =>
    intro l hl
    cases l with
    | nil => simp
    | cons a as =>
      rw [List.eraseDups_cons, List.nodup_cons]
      constructor
      · rw [List.mem_eraseDups, List.mem_filter]
        simp
      · apply ih
        have := List.length_filter_le (fun b => !b == a) as
        simp only [List.length_cons] at hl
        omega

theorem nodup_conflictSet (o1 o2 : List Nat) : (conflictSet o1 o2).Nodup :=
  nodup_eraseDups_aux _ _ (Nat.le_refl _)

theorem subset_iff (a b : List (Nat × Nat)) : SingleCrossing.subset a b = true ↔ ∀ x ∈ a, x ∈ b := by
  simp [SingleCrossing.subset]

end PrefVerif.C04
