import PrefVerif.Lemmas.C06Rules
/-! C06: Borda -/
namespace PrefVerif.C06
open PrefVerif PrefVerif.Py PrefVerif.SingleWinner PrefVerif.Spec PrefVerif.Pairwise

/-- a duplicate-free list of alternatives as long as `alts` covers `alts` -/
theorem complete_covers (alts fl : List Nat) (hnd : fl.Nodup) (hsub : ∀ a ∈ fl, a ∈ alts)
    (hlen : fl.length = alts.length) : ∀ a ∈ alts, a ∈ fl := by
  intro a ha
  apply Classical.byContradiction
  intro hn
  have h1 : (a :: fl).Nodup := List.nodup_cons.2 ⟨hn, hnd⟩
  have h2 : (a :: fl) ⊆ alts := by
    intro x hx
    rcases List.mem_cons.1 hx with rfl | hx
    · exact ha
    · exact hsub x hx
  have := h1.length_le_of_subset h2
  simp at this; omega

/-- the `res[alt] += i * mult` updates of one order, `j` alternatives not yet ranked -/
def bordaIncs (m : Nat) : Int → Order → List (Nat × Int)
  | _, [] => []
  | j, c :: o => c.map (fun a => (a, (j - c.length) * (m : Int))) ++ bordaIncs m (j - c.length) o

theorem bordaIncs_keys (m : Nat) (o : Order) (j : Int) : (bordaIncs m j o).map (·.1) = o.flatten := by
  induction o generalizing j with
  | nil => rfl
  | cons c o ih => simp [bordaIncs, ih, Function.comp_def]

theorem bordaOrder_fold (m : Nat) (o : Order) (res : AList Nat Int) (j : Int) :
    (o.foldl (fun (acc : AList Nat Int × Int) cls =>
      let i := acc.2 - cls.length
      (cls.foldl (fun r alt => AList.upd r alt 0 (· + i * m)) acc.1, i)) (res, j)).1
      = applyIncs res (bordaIncs m j o) := by
  induction o generalizing res j with
  | nil => rfl
  | cons c o ih =>
    rw [List.foldl_cons, bordaIncs, applyIncs_append]
    simp only
    rw [ih]
    congr 1
    simp only [applyIncs, List.foldl_map]
    rfl

theorem bordaOrder_eq (res : AList Nat Int) (n : Nat) (o : Order) (m : Nat) :
    bordaOrder res n o m = applyIncs res (bordaIncs m (n : Int) o) := bordaOrder_fold m o res n

theorem bordaScores_fold (n : Nat) (p : Profile) (r : AList Nat Int) :
    p.foldl (fun r om => bordaOrder r n om.1 om.2) r
      = applyIncs r (p.flatMap (fun om => bordaIncs om.2 (n : Int) om.1)) := by
  induction p generalizing r with
  | nil => rfl
  | cons om p ih => rw [List.foldl_cons, ih, List.flatMap_cons, applyIncs_append, bordaOrder_eq]

theorem tot_bordaIncs (m : Nat) (o : Order) (j : Int) (a : Nat) (hnd : o.flatten.Nodup) :
    tot (bordaIncs m j o) a = (m : Int) * bordaOf j o a := by
  induction o generalizing j with
  | nil => simp [bordaIncs, tot, bordaOf]
  | cons c o ih =>
    rw [List.flatten_cons, List.nodup_append] at hnd
    rw [bordaIncs, tot_append_int, tot_map_const_int _ _ _ hnd.1, bordaOf, ih _ hnd.2.1]
    by_cases h : a ∈ c
    · have hn : a ∉ (bordaIncs m (j - c.length) o).map (·.1) := by
        rw [bordaIncs_keys]; intro h'; exact hnd.2.2 a h a h' rfl
      have h0 := tot_of_not_mem (bordaIncs m (j - c.length) o) a (by intros; omega) hn
      rw [ih _ hnd.2.1] at h0
      simp only [h, if_true, List.contains_iff_mem, h0]
      rw [Int.mul_comm]; omega
    · simp [h]

theorem borda_core (i : Inst) (hwf : wfInst i = true)
    (hc : ∀ om ∈ i.profile, isCompleteOrder i.alts om.1 = true) :
    ∃ ws, argmaxKeys (bordaScores i.numAlternatives i.profile) = some ws ∧
      IsArgmax i.alts (bordaScore i.numAlternatives (votes i.profile)) ws := by
  obtain ⟨hand, hp, hall⟩ := (wfInst_iff i).1 hwf
  have hcov : ∀ om ∈ i.profile, ∀ a ∈ i.alts, a ∈ om.1.flatten := by
    intro om hom
    obtain ⟨h1, h2, h3, h4⟩ := (wfOrder_iff _ _).1 (hall om hom).1
    exact complete_covers i.alts _ h4 h3 (by simpa [isCompleteOrder] using hc om hom)
  have halts : i.alts ≠ [] := by
    cases hpr : i.profile with
    | nil => exact absurd hpr hp
    | cons om p =>
      obtain ⟨h1, h2, h3, h4⟩ := (wfOrder_iff _ _).1 (hall om (by simp [hpr])).1
      cases ho : om.1 with
      | nil => exact absurd ho h1
      | cons c o =>
        have hc := h2 c (by simp [ho])
        cases c with
        | nil => exact absurd rfl hc
        | cons a c =>
          intro e
          have := h3 a (by simp [ho])
          simp [e] at this
  have hkeys : ∀ x, x ∈ (i.profile.flatMap (fun om => bordaIncs om.2 (i.numAlternatives : Int) om.1)).map (·.1)
      ↔ ∃ om ∈ i.profile, x ∈ om.1.flatten := by
    intro x
    simp only [List.map_flatMap, bordaIncs_keys, List.mem_flatMap]
  unfold bordaScores
  rw [bordaScores_fold]
  obtain ⟨ws, h1, h2⟩ := fullDict_spec selInt_max i.alts
    (fun a => bordaScore i.numAlternatives (votes i.profile) a)
    (applyIncs [] (i.profile.flatMap (fun om => bordaIncs om.2 (i.numAlternatives : Int) om.1)))
    (nodup_keys_applyIncs _ _ (by simp [AList.keys]))
    (by
      intro a ha
      rcases (mem_keys_applyIncs _ _ _).1 ha with h | h
      · simp [AList.keys] at h
      · obtain ⟨om, hom, hx⟩ := (hkeys a).1 h
        exact ((wfOrder_iff _ _).1 (hall om hom).1).2.2.1 a hx)
    (by
      intro a ha
      cases hpr : i.profile with
      | nil => exact absurd hpr hp
      | cons om p =>
        rw [← hpr]
        exact (mem_keys_applyIncs _ _ _).2 (Or.inr ((hkeys a).2 ⟨om, by simp [hpr], hcov om (by simp [hpr]) a ha⟩)))
    (by
      intro a _
      rw [val_applyIncs_int, tot_flatMap_sum_int _ (fun o => bordaOf (i.numAlternatives : Int) o a) a i.profile
        (fun om hom => tot_bordaIncs _ _ _ _ ((wfOrder_iff _ _).1 (hall om hom).1).2.2.2)]
      simp [val, get?_nil, bordaScore])
    halts
  exact ⟨ws, by rw [argmaxKeys_eq]; exact h1, h2⟩

end PrefVerif.C06
