import PrefVerif.Lemmas.IOStr
/-!
# More facts about `strip`, `removeWs`, `removeSpaces`

* `strip` is idempotent and ignores whitespace padding on both sides;
* `removeWs` ignores `strip` and `removeSpaces`;
* `removeSpaces` commutes with `strip`.

Nothing here is specific to a file format.
-/
namespace PrefVerif.IOL
open PrefVerif.Py

/-! ## generic `dropWhile` / `filter` facts -/

theorem dropWhile_head_not {α : Type} (p : α → Bool) (l : List α) :
    ∀ c, (l.dropWhile p).head? = some c → p c = false := by
  intro c hc
  have := List.head?_dropWhile_not p l
  rw [hc] at this
  exact this

theorem dropWhile_idem {α : Type} (p : α → Bool) (l : List α) :
    (l.dropWhile p).dropWhile p = l.dropWhile p :=
  dropWhile_eq_self (dropWhile_head_not p l)

/-- dropping a run of elements that the filter rejects anyway -/
theorem filter_dropWhile_of_imp {α : Type} {p q : α → Bool} (h : ∀ c, p c = true → q c = false)
    (l : List α) : (l.dropWhile p).filter q = l.filter q := by
  induction l with
  | nil => rfl
  | cons a l ih =>
    simp only [List.dropWhile_cons]
    split
    · rename_i hp
      rw [ih, List.filter_cons_of_neg (by simp [h a hp])]
    · rfl

/-- a filter that only rejects elements of the dropped kind commutes with `dropWhile` -/
theorem filter_dropWhile_comm {α : Type} {p q : α → Bool} (h : ∀ c, q c = false → p c = true)
    (l : List α) : (l.dropWhile p).filter q = (l.filter q).dropWhile p := by
  induction l with
  | nil => rfl
  | cons a l ih =>
    cases hp : p a with
    | true =>
      rw [List.dropWhile_cons_of_pos hp, ih]
      cases hq : q a with
      | true => rw [List.filter_cons_of_pos hq, List.dropWhile_cons_of_pos hp]
      | false => rw [List.filter_cons_of_neg (by simp [hq])]
    | false =>
      have hq : q a = true := by
        cases hq : q a with
        | true => rfl
        | false => rw [h a hq] at hp; cases hp
      rw [List.dropWhile_cons_of_neg (by simp [hp]), List.filter_cons_of_pos hq,
        List.dropWhile_cons_of_neg (by simp [hp])]

/-! ## `strip` is idempotent -/

theorem lstrip_head_not_space (l : Str) : ∀ c, (lstrip l).head? = some c → isSpace c = false :=
  dropWhile_head_not isSpace l

theorem rstrip_prefix (l : Str) : rstrip l <+: l := by
  have h : l.reverse.dropWhile isSpace <:+ l.reverse := List.dropWhile_suffix isSpace
  have := List.reverse_prefix.2 h
  simpa [rstrip] using this

theorem rstrip_head {l : Str} {c : Char} (h : (rstrip l).head? = some c) : l.head? = some c := by
  obtain ⟨t, ht⟩ := rstrip_prefix l
  cases hr : rstrip l with
  | nil => rw [hr] at h; cases h
  | cons a r =>
    rw [hr] at h ht
    rw [← ht]
    simpa using h

theorem rstrip_idem (l : Str) : rstrip (rstrip l) = rstrip l := by
  simp [rstrip, dropWhile_idem]

theorem lstrip_idem (l : Str) : lstrip (lstrip l) = lstrip l := dropWhile_idem isSpace l

/-- `rstrip` does not expose new leading whitespace -/
theorem lstrip_rstrip_lstrip (l : Str) : lstrip (rstrip (lstrip l)) = rstrip (lstrip l) :=
  dropWhile_eq_self (fun c hc => lstrip_head_not_space l c (rstrip_head hc))

theorem strip_idem (l : Str) : strip (strip l) = strip l := by
  simp only [strip]
  rw [lstrip_rstrip_lstrip, rstrip_idem]

/-! ## whitespace padding is invisible to `strip` -/

theorem lstrip_append_left {pre : Str} (h : ∀ c ∈ pre, isSpace c = true) (l : Str) :
    lstrip (pre ++ l) = lstrip l :=
  (takeWhile_append_of_all pre l h).2

theorem strip_append_left {pre : Str} (h : ∀ c ∈ pre, isSpace c = true) (l : Str) :
    strip (pre ++ l) = strip l := by
  simp only [strip, lstrip_append_left h]

theorem strip_append_right {post : Str} (h : ∀ c ∈ post, isSpace c = true) (l : Str) :
    strip (l ++ post) = strip l := by
  induction post generalizing l with
  | nil => simp
  | cons c post ih =>
    have e : l ++ c :: post = (l ++ [c]) ++ post := by simp
    rw [e, ih (fun d hd => h d (by simp [hd])), strip_snoc_of_space (h c (by simp))]

/-- `(pre + l + post).strip() == l.strip()` for whitespace `pre`, `post` -/
theorem strip_pad {pre post : Str} (hpre : ∀ c ∈ pre, isSpace c = true)
    (hpost : ∀ c ∈ post, isSpace c = true) (l : Str) : strip (pre ++ l ++ post) = strip l := by
  rw [strip_append_right hpost, strip_append_left hpre]

/-! ## `removeWs` -/

theorem removeWs_of_all_space {l : Str} (h : ∀ c ∈ l, isSpace c = true) : removeWs l = [] := by
  simp only [removeWs, List.filter_eq_nil_iff]
  intro c hc; simp [h c hc]

theorem removeWs_pad {pre post : Str} (hpre : ∀ c ∈ pre, isSpace c = true)
    (hpost : ∀ c ∈ post, isSpace c = true) (l : Str) : removeWs (pre ++ l ++ post) = removeWs l := by
  simp [removeWs_append, removeWs_of_all_space hpre, removeWs_of_all_space hpost]

theorem removeWs_lstrip (l : Str) : removeWs (lstrip l) = removeWs l :=
  filter_dropWhile_of_imp (fun c hc => by simp [hc]) l

theorem removeWs_rstrip (l : Str) : removeWs (rstrip l) = removeWs l := by
  have := filter_dropWhile_of_imp (p := isSpace) (q := fun c => !isSpace c)
    (fun c hc => by simp [hc]) l.reverse
  simp only [removeWs, rstrip, List.filter_reverse, this, List.reverse_reverse]

/-- `"".join(l.strip().split()) == "".join(l.split())` -/
theorem removeWs_strip (l : Str) : removeWs (strip l) = removeWs l := by
  rw [strip, removeWs_rstrip, removeWs_lstrip]

/-! ## `removeSpaces` -/

theorem isSpace_of_not_ne_space {c : Char} (h : (c != ' ') = false) : isSpace c = true := by
  have : c = ' ' := by simpa using h
  subst this; decide

/-- `"".join(l.replace(" ", "").split()) == "".join(l.split())` -/
theorem removeWs_removeSpaces (l : Str) : removeWs (removeSpaces l) = removeWs l := by
  simp only [removeWs, removeSpaces, List.filter_filter]
  apply List.filter_congr
  intro c _
  cases hc : c != ' ' with
  | true => simp
  | false => simp [isSpace_of_not_ne_space hc]

theorem removeSpaces_lstrip (l : Str) : removeSpaces (lstrip l) = lstrip (removeSpaces l) :=
  filter_dropWhile_comm (fun _ hc => isSpace_of_not_ne_space hc) l

theorem removeSpaces_rstrip (l : Str) : removeSpaces (rstrip l) = rstrip (removeSpaces l) := by
  have := filter_dropWhile_comm (p := isSpace) (q := fun c => c != ' ')
    (fun _ hc => isSpace_of_not_ne_space hc) l.reverse
  simp only [removeSpaces, rstrip, List.filter_reverse, this]

/-- `l.strip().replace(" ", "") == l.replace(" ", "").strip()` -/
theorem removeSpaces_strip (l : Str) : removeSpaces (strip l) = strip (removeSpaces l) := by
  rw [strip, removeSpaces_rstrip, removeSpaces_lstrip, strip]

/-- lines that agree up to blanks still agree, up to blanks, once stripped -/
theorem removeSpaces_strip_congr {l' l : Str} (h : removeSpaces l' = removeSpaces l) :
    removeSpaces (strip l') = removeSpaces (strip l) := by
  rw [removeSpaces_strip, removeSpaces_strip, h]

theorem removeWs_congr_of_removeSpaces {l' l : Str} (h : removeSpaces l' = removeSpaces l) :
    removeWs l' = removeWs l := by
  rw [← removeWs_removeSpaces l', ← removeWs_removeSpaces l, h]

end PrefVerif.IOL
