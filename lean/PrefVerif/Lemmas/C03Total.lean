import PrefVerif.Lemmas.C03Sound
/-!
# C03 helper lemmas, part 9: no exception is ever raised on rankings

The two `ValueError("We should never have ended up here …")` are unreachable: every remaining
candidate is ranked above `x_i` or above `x_j` by every voter (the last part of `Full`).
-/
namespace PrefVerif.C03
open PrefVerif PrefVerif.ELO PrefVerif.Py

theorem pyIndex_of_mem {l : List Nat} {x : Nat} (h : x ∈ l) : pyIndex l x = some (l.idxOf x) := by
  simp [pyIndex, h]

theorem idxOf_ne {o : List Nat} {a b : Nat} (ha : a ∈ o) (hb : b ∈ o) (hab : a ≠ b) :
    o.idxOf a ≠ o.idxOf b := by
  intro e
  have h1 := List.getElem_idxOf (List.idxOf_lt_length_of_mem ha)
  have h2 := List.getElem_idxOf (List.idxOf_lt_length_of_mem hb)
  simp only [e] at h1
  exact hab (h1.symm.trans h2)

theorem forLoop_ne_error {α : Type} (body : List Nat → α → Loop α) (P : α → Prop)
    (hpres : ∀ o a a', P a → body o a = .fin a' → P a') :
    ∀ (os : List (List Nat)), (∀ o ∈ os, ∀ a, P a → body o a ≠ .error) →
      ∀ a, P a → forLoop body os a ≠ .error := by
  intro os
  induction os with
  | nil => intro _ a _; simp [forLoop]
  | cons o os ih =>
    intro hne a hP
    unfold forLoop
    cases hb : body o a with
    | error => exact absurd hb (hne o List.mem_cons_self a hP)
    | brk e => simp
    | fin a1 =>
      exact ih (fun o' ho' => hne o' (List.mem_cons_of_mem _ ho')) a1 (hpres o a a1 hP hb)

theorem body1_ne_error {x xi xj : Nat} {o : List Nat} {c : Nat} (hx : x ∈ o) (hxi : xi ∈ o)
    (hxj : xj ∈ o) (h1 : x ≠ xi) (h2 : x ≠ xj) (hJ : lt o x xi ∨ lt o x xj) :
    body1 x xi xj o c ≠ .error := by
  have n1 := idxOf_ne hx hxi h1
  have n2 := idxOf_ne hx hxj h2
  unfold lt at hJ
  simp only [body1, pyIndex_of_mem hx, pyIndex_of_mem hxi, pyIndex_of_mem hxj]
  split
  · split <;> simp
  · split
    · split <;> simp
    · split
      · simp
      · exfalso; omega

theorem body2core_ne_error {orders : List (List Nat)} {s : State} {o : List Nat} {xi xj x' y' : Nat}
    {f : AList Nat Side} (hx : x' ∈ o) (hy : y' ∈ o) (hxi : xi ∈ o) (hxj : xj ∈ o)
    (hxy : x' ≠ y') (h1 : x' ≠ xi) (h2 : x' ≠ xj) (h3 : y' ≠ xi) (h4 : y' ≠ xj)
    (hle : o.idxOf y' ≤ o.idxOf x') (hJ : lt o x' xi ∨ lt o x' xj) :
    body2core orders s o (o.idxOf xi) (o.idxOf xj) (o.idxOf x') (o.idxOf y') x' y' f ≠ .error := by
  have n0 := idxOf_ne hx hy hxy
  have n1 := idxOf_ne hx hxi h1
  have n2 := idxOf_ne hx hxj h2
  have n3 := idxOf_ne hy hxi h3
  have n4 := idxOf_ne hy hxj h4
  unfold lt at hJ
  unfold body2core
  split
  · simp
  · split
    · simp
    · split
      · split <;> simp
      · split
        · split <;> simp
        · split
          · simp
          · exfalso; omega

theorem body2_ne_error {orders : List (List Nat)} {s : State} {o : List Nat} {xi xj : Nat} {v : L2}
    (hx : v.x ∈ o) (hy : v.y ∈ o) (hxi : xi ∈ o) (hxj : xj ∈ o)
    (hxy : v.x ≠ v.y) (h1 : v.x ≠ xi) (h2 : v.x ≠ xj) (h3 : v.y ≠ xi) (h4 : v.y ≠ xj)
    (hJx : lt o v.x xi ∨ lt o v.x xj) (hJy : lt o v.y xi ∨ lt o v.y xj) :
    body2 orders s xi xj o v ≠ .error := by
  simp only [body2, pyIndex_of_mem hx, pyIndex_of_mem hy, pyIndex_of_mem hxi, pyIndex_of_mem hxj]
  split
  · exact body2core_ne_error hy hx hxi hxj (fun e => hxy e.symm) h3 h4 h1 h2 (by omega) hJy
  · exact body2core_ne_error hx hy hxi hxj hxy h1 h2 h3 h4 (by omega) hJx

/-- one iteration never raises -/
theorem step_ne_error {alts : List Nat} {orders : List (List Nat)} {s : State} (hn : alts.Nodup)
    (ho : ∀ o ∈ orders, o.Perm alts) (hS : SInv alts orders s) (hlen : 1 ≤ headLen s) :
    step orders s ≠ .error := by
  obtain ⟨hinv, hsub, hrest⟩ := hS
  have hEF : EndsOk s ∧ ∀ o ∈ orders, Full o s := by
    rcases hrest with h | ⟨h0, _⟩
    · exact h
    · omega
  obtain ⟨hE, hF⟩ := hEF
  obtain ⟨prefs, tal, left, right, ends⟩ := s
  have hperm := hinv.2
  simp only at hperm
  -- all remaining preferences are non-empty
  have hhead : ∃ p0 ps, prefs = p0 :: ps ∧ p0 ≠ [] := by
    cases prefs with
    | nil => simp [headLen] at hlen
    | cons p0 ps =>
      refine ⟨p0, ps, rfl, ?_⟩
      intro e; subst e; simp [headLen] at hlen
  obtain ⟨p0, ps, hp0, hp0ne⟩ := hhead
  have hall : ∀ p ∈ prefs, p ≠ [] := by
    intro p hp e
    have := (prefs_perm (hperm p hp) (hperm p0 (by rw [hp0]; exact List.mem_cons_self))).length_eq
    rw [e] at this
    cases p0 with
    | nil => exact hp0ne rfl
    | cons _ _ => simp at this
  obtain ⟨popped, hpop⟩ := popAll_isSome hall
  have hprefs := popAll_eq_some hpop
  have hpne : popped ≠ [] := by
    intro e; rw [e] at hprefs; rw [hprefs] at hp0; simp at hp0
  have hfa : ∀ r ∈ popped, r.2 ∈ firstAppearances (popped.map (·.2)) := fun r hr =>
    (mem_firstAppearances _ _).2 (List.mem_map.2 ⟨r, hr, rfl⟩)
  -- membership of a last candidate
  have hlastM : ∀ z ∈ firstAppearances (popped.map (·.2)), ∃ p ∈ prefs, z ∈ p := by
    intro z hz
    rw [mem_firstAppearances] at hz
    obtain ⟨r, hr, e⟩ := List.mem_map.1 hz
    exact ⟨r.1 ++ [r.2], by rw [hprefs]; exact List.mem_map.2 ⟨r, hr, rfl⟩, by simp [e]⟩
  -- a remaining candidate is an alternative different from the placed ones
  have hMfacts : ∀ z, (∃ p ∈ prefs, z ∈ p) → (∀ o ∈ orders, z ∈ o) ∧ z ∉ left ∧ z ∉ right := by
    rintro z ⟨p, hp, hzp⟩
    obtain ⟨_, d2, d3⟩ := pref_disjoint hn (hperm p hp) hzp
    refine ⟨fun o hoo => (ho o hoo).mem_iff.2 ((hperm p hp).mem_iff.1 ?_), d2, d3⟩
    simp [hzp]
  have hplaced : ∀ z, z ∈ left ∨ z ∈ right → ∀ o ∈ orders, z ∈ o := by
    intro z hz o hoo
    refine (ho o hoo).mem_iff.2 ((hperm p0 (by rw [hp0]; exact List.mem_cons_self)).mem_iff.1 ?_)
    rcases hz with h | h <;> simp [h]
  simp only [step, hpop]
  split
  · -- `last_candidates` is not empty
    rename_i hnil
    obtain ⟨r, hr⟩ := List.exists_mem_of_ne_nil _ hpne
    have := hfa r hr
    rw [hnil] at this; simp at this
  · -- one last candidate
    rename_i x hx
    have hxM := hlastM x (by rw [hx]; simp)
    obtain ⟨hxo, hxl, hxr⟩ := hMfacts x hxM
    unfold stepOne
    simp only
    cases hends : ends with
    | none => simp
    | some e =>
      obtain ⟨xi, xj⟩ := e
      subst hends
      simp only [EndsOk] at hE
      obtain ⟨⟨L0, hl⟩, ⟨R0, hr⟩⟩ := hE
      subst hl hr
      simp only
      cases popped with
      | nil => exact absurd rfl hpne
      | cons r rs =>
        simp only [List.map_cons]
        split
        · simp
        · have hne := forLoop_ne_error (body1 x xi xj) (fun _ => True) (fun _ _ _ _ _ => trivial) orders
            (fun o hoo c _ => by
              obtain ⟨_, _, _, hJ3⟩ := hF o hoo
              exact body1_ne_error (hxo o hoo) (hplaced xi (Or.inl (by simp)) o hoo)
                (hplaced xj (Or.inr (by simp)) o hoo)
                (fun e => hxl (by rw [e]; simp)) (fun e => hxr (by rw [e]; simp))
                (hJ3 xi xj rfl x hxM)) 0 trivial
          split
          · rename_i herr; exact absurd herr hne
          · simp
          · split
            · simp
            · split
              · simp
              · split <;> simp
  · -- two last candidates
    rename_i x y hx
    have hnd := firstAppearances_nodup (popped.map (·.2))
    rw [hx] at hnd
    have hxy : x ≠ y := by
      intro e; subst e; simp at hnd
    have hxM := hlastM x (by rw [hx]; simp)
    have hyM := hlastM y (by rw [hx]; simp)
    obtain ⟨hxo, hxl, hxr⟩ := hMfacts x hxM
    obtain ⟨hyo, hyl, hyr⟩ := hMfacts y hyM
    unfold stepTwo
    simp only
    cases hends : ends with
    | none => simp
    | some e =>
      obtain ⟨xi, xj⟩ := e
      subst hends
      simp only [EndsOk] at hE
      obtain ⟨⟨L0, hl⟩, ⟨R0, hr⟩⟩ := hE
      subst hl hr
      simp only
      have hxi : ∀ o ∈ orders, xi ∈ o := hplaced xi (Or.inl (by simp))
      have hxj : ∀ o ∈ orders, xj ∈ o := hplaced xj (Or.inr (by simp))
      have x1 : x ≠ xi := fun e => hxl (by rw [e]; simp)
      have x2 : x ≠ xj := fun e => hxr (by rw [e]; simp)
      have y1 : y ≠ xi := fun e => hyl (by rw [e]; simp)
      have y2 : y ≠ xj := fun e => hyr (by rw [e]; simp)
      have hne := forLoop_ne_error
        (body2 orders
          { prefs := (popped.map (·.1)).map (fun p => (p.erase x).erase y), tal := tal,
            left := L0 ++ [xi], right := xj :: R0, ends := some (xi, xj) } xi xj)
        (Names x y) (fun o a a' ha hb => body2_fin ha hb) orders
        (fun o hoo v hv => by
          obtain ⟨_, _, _, hJ3⟩ := hF o hoo
          have jx := hJ3 xi xj rfl x hxM
          have jy := hJ3 xi xj rfl y hyM
          rcases hv with ⟨a, b⟩ | ⟨a, b⟩
          · exact body2_ne_error (by rw [a]; exact hxo o hoo) (by rw [b]; exact hyo o hoo) (hxi o hoo)
              (hxj o hoo) (by rw [a, b]; exact hxy) (by rw [a]; exact x1) (by rw [a]; exact x2)
              (by rw [b]; exact y1) (by rw [b]; exact y2) (by rw [a]; exact jx) (by rw [b]; exact jy)
          · exact body2_ne_error (by rw [a]; exact hyo o hoo) (by rw [b]; exact hxo o hoo) (hxi o hoo)
              (hxj o hoo) (by rw [a, b]; exact fun e => hxy e.symm) (by rw [a]; exact y1)
              (by rw [a]; exact y2) (by rw [b]; exact x1) (by rw [b]; exact x2) (by rw [a]; exact jy)
              (by rw [b]; exact jx))
        ⟨x, y, []⟩ (Or.inl ⟨rfl, rfl⟩)
      split
      · rename_i herr; exact absurd herr hne
      · simp
      · rename_i v hfl
        have hP : P2 x y xi xj ([] ++ orders) v :=
          forLoop_fin_pre (body2 orders _ xi xj) (P2 x y xi xj)
            (fun done o a a' hP hb => body2_P2 hxy hP hb)
            orders [] ⟨x, y, []⟩ v ⟨Or.inl ⟨rfl, rfl⟩, Or.inl ⟨rfl, rfl⟩, by simp⟩ hfl
        obtain ⟨hn', hd, _⟩ := hP
        rcases forcedLeft_spec (xi := xi) (xj := xj) hxy hn' hd with ⟨hf, _⟩ | ⟨hf, _⟩ <;>
          rw [hf] <;> simp
  · simp

/-- the whole loop never raises and never runs out of fuel -/
theorem loop_ne_none {alts : List Nat} {orders : List (List Nat)} (hn : alts.Nodup)
    (ho : ∀ o ∈ orders, o.Perm alts) :
    ∀ (fuel : Nat) (s : State), SInv alts orders s → headLen s < fuel → loop orders fuel s ≠ none := by
  intro fuel
  induction fuel with
  | zero => intro s _ h; omega
  | succ f ih =>
    intro s hS hlt
    unfold loop
    split
    · rename_i hnil; exact absurd hnil hS.1.1
    · rename_i p ps hps
      split
      · rename_i hlen
        have hl : 1 ≤ headLen s := by simp [headLen, hps]; omega
        split
        · rename_i herr; exact absurd herr (step_ne_error hn ho hS hl)
        · simp
        · rename_i s' hst
          have := step_fin_headLen hst
          exact ih s' (step_sound hn ho hS hl hst) (by omega)
      · simp

end PrefVerif.C03
