import PrefVerif.Lemmas.C12OptPath
import PrefVerif.Props.C12DP
/-!
# C12Opt, part 8: the path through the loops of `longest_single_peaked_axis`
-/
namespace PrefVerif.C12Opt
open PrefVerif PrefVerif.KAlt PrefVerif.C12DP PrefVerif.C03 PrefVerif.C03c PrefVerif.C18BF

section
variable {alts : List Nat} {orders : List (List Nat)} {S : List Nat}

theorem foldlX_tinv (alts : List Nat) (suffix : List (PySet Nat)) (Y : List Nat) (A : Axis)
    (hs : SetsSub alts suffix) (hA : AxSP orders A) (l : List (List Nat))
    (hl : ∀ X ∈ l, X ∈ eligible suffix Y orders) (st : St) (hst : TInv orders st) :
    TInv orders (l.foldl (processX orders A) st) := by
  apply foldl_inv (TInv orders) _ _ _ hst
  intro st' X hX hst'
  have hx := eligible_spec alts orders suffix _ X hs (hl X hX)
  exact processX_tinv orders A X st' hA hx.nodup hx.len hst'

theorem foldlKey_tinv (alts : List Nat) (suffix : List (PySet Nat)) (remaining : List Nat)
    (hs : SetsSub alts suffix) (l : List (Key × Axis)) (hl : ∀ e ∈ l, AxSP orders e.2) (st : St)
    (hst : TInv orders st) : TInv orders (l.foldl (processKey orders suffix remaining) st) := by
  apply foldl_inv (TInv orders) _ _ _ hst
  intro st' e he hst'
  exact processKey_tinv orders alts suffix remaining e st' hs (hl e he) hst'

/-- processing the entry of the path with the extension found by `find_ext` -/
theorem apply_ext (hr : Rankings alts orders) (hS : S.Nodup)
    {vc : List (List Nat)} {prev : PySet Nat} {R : List Nat} (hL : LState alts orders vc prev R) (n : Nat)
    (remaining : List Nat) (hrem : ∀ a ∈ R, a ∈ remaining) (st : St) (hT : TInv orders st) {e : Key × Axis}
    (heT : EntryT orders e) {Fr M Sr Y Fr' Sr' X : List Nat} (hA : AtEntry orders S e Fr M Sr Y Fr' Sr')
    (hMR : ∀ a ∈ M, a ∈ R) (hMne : M ≠ [])
    (hE : Ext orders S (lLoop alts (n + 1) vc prev) e Fr M Sr Fr' Sr' X) :
    Reached (S.length + 1) (processKey orders (lLoop alts (n + 1) vc prev) remaining st e) ∨
      PathAt orders S (processKey orders (lLoop alts (n + 1) vc prev) remaining st e)
        (R.filter (fun i => !(lRound alts prev vc PySet.empty).2.elems.contains i)) := by
  have hI := hA.ideal
  have hσnd : (Fr.reverse ++ M ++ Sr).Nodup := hI.1.nodup_iff.2 hS
  have hMnd : M.Nodup := (List.nodup_append.1 (List.nodup_append.1 hσnd).1).2.1
  have hMS : ∀ m ∈ M, m ∈ S := fun m hm => hI.1.mem_iff.1 (by simp [hm])
  have hlenS : Fr.length + M.length + Sr.length = S.length := by
    have := hI.1.length_eq
    simp only [List.length_append, List.length_reverse] at this
    omega
  have hsh := hA.sh
  have hlen := hA.len
  have hs : SetsSub alts (lLoop alts (n + 1) vc prev) := lLoop_sub alts _ _ _
  unfold processKey
  have hc : (!e.2.contains none) = false := by rw [hsh, shape_contains_none]; rfl
  rw [hc]
  simp only [Bool.false_eq_true, if_false]
  by_cases hpr : e.2.length + remaining.length < st.longest.length
  · rw [if_pos hpr]
    left; left
    have : M.length ≤ remaining.length :=
      List.Nodup.length_le_of_subset hMnd (fun a ha => hrem a (hMR a ha))
    omega
  · rw [if_neg hpr]
    obtain ⟨k1, k2, hsplit⟩ := List.append_of_mem hE.el
    have hk : ∀ X' ∈ k1, X' ∈ eligible (lLoop alts (n + 1) vc prev) e.1.X orders := by
      intro X' hX'; rw [hsplit]; simp [hX']
    rw [hsplit, List.foldl_append, List.foldl_cons]
    have hT2 := foldlX_tinv alts _ e.1.X e.2 hs heT.ax k1 hk st hT
    generalize List.foldl (processX orders e.2) st k1 = st2 at hT2 ⊢
    -- it suffices to look at the state after `X`
    suffices hQ : Reached (S.length + 1) (processX orders e.2 st2 X) ∨ PathAt orders S (processX orders e.2 st2 X)
        (R.filter (fun i => !(lRound alts prev vc PySet.empty).2.elems.contains i)) by
      have hle := foldl_le (processX orders e.2) k2 (processX orders e.2 st2 X) (fun s X' => processX_le orders e.2 s X')
      rcases hQ with hQ | hQ
      · exact Or.inl (hQ.mono hle)
      · exact Or.inr (hQ.mono hle)
    obtain ⟨Fr2, M2, Sr2, Fr2', Sr2', b, hpl, hb2, hl2', hl2, hI2, hperm, hlock⟩ := hE.res.ex
    have hXM2nd : (X ++ M2).Nodup := hperm.nodup_iff.2 hMnd
    have hdisj : ∀ y ∈ X, y ∉ M2 := fun y hy hy2 => (List.nodup_append.1 hXM2nd).2.2 y hy y hy2 rfl
    have hlenM : X.length + M2.length = M.length := by
      have := hperm.length_eq; simpa using this
    have hnewlen : (shape Fr2' Sr2').length = e.2.length + X.length := by
      rw [length_shape, hsh, length_shape]; omega
    unfold processX
    dsimp only
    rw [hsh, hpl]
    dsimp only
    cases b with
    | true =>
      right
      simp only [if_true]
      refine ⟨Fr2, M2, Sr2, X, hI2, ?_, ?_, ?_⟩
      · intro a ha
        have haM : a ∈ M := hperm.mem_iff.1 (by simp [ha])
        rw [List.mem_filter]
        refine ⟨hMR a haM, ?_⟩
        simp only [Bool.not_eq_true', List.contains_eq_mem, decide_eq_false_iff_not]
        intro haL
        obtain ⟨_, o, ho, hwo⟩ := hL.level_worst hr a haL
        obtain ⟨y, hy, hwy⟩ := hE.worst o ho
        have : a = y := worst_unique haM (hE.sub y hy) (fun m hm hne => hwo m (hMR m hm) hne) hwy
        subst this
        exact hdisj a hy ha
      · obtain ⟨e', he', h1, h2, h3⟩ := dictPut_has st2.S ⟨boundary (shape Fr2' Sr2'), X⟩ (shape Fr2' Sr2')
          (fun e0 he0 => (hT2.S e0 he0).nodup) hE.nd
        refine ⟨e', he', ?_, h2, ?_⟩
        · rw [h1]; dsimp only; rw [boundary_shape, hb2]
        · omega
      · refine ⟨fun y hy => hMS y (hE.sub y hy), fun _ o ho => ?_⟩
        obtain ⟨y, hy, hwy⟩ := hE.worst o ho
        refine ⟨y, hy, hdisj y hy, fun m hm => ?_⟩
        have hmM : m ∈ M := hperm.mem_iff.1 (by simp [hm])
        exact hwy m hmM (fun e0 => hdisj y hy (e0 ▸ hm))
    | false =>
      left; right
      have hM2 := hlock rfl
      subst hM2
      have hXpos : 0 < X.length := by
        have : 0 < M.length := List.length_pos_iff.2 hMne
        simp at hlenM; omega
      simp only [Bool.false_eq_true, if_false]
      have hneA : (shape Fr2' Sr2' != shape Fr' Sr') = true := by
        simp only [bne_iff_ne, ne_eq]
        intro e0
        have := congrArg List.length e0
        rw [hnewlen, hsh] at this
        omega
      rw [hneA]
      simp only [Bool.true_and, decide_eq_true_eq]
      simp only [List.length_nil, Nat.add_zero] at hlenM
      split
      · dsimp only; omega
      · omega

/-- one level of the main loop -/
theorem level_step (hr : Rankings alts orders) (hS : S.Nodup) (hsub : ∀ a ∈ S, a ∈ alts)
    {vc : List (List Nat)} {prev : PySet Nat} {R : List Nat} (hL : LState alts orders vc prev R) (n : Nat)
    (hn : R.length ≤ n + 1) (remaining : List Nat) (hrem : ∀ a ∈ R, a ∈ remaining) (st : St)
    (hT : TInv orders st) (hP : Reached (S.length + 1) st ∨ PathAt orders S st R) :
    TInv orders (st.S.foldl (processKey orders (lLoop alts (n + 1) vc prev) remaining) st) ∧
    (Reached (S.length + 1) (st.S.foldl (processKey orders (lLoop alts (n + 1) vc prev) remaining) st) ∨
      PathAt orders S (st.S.foldl (processKey orders (lLoop alts (n + 1) vc prev) remaining) st)
        (R.filter (fun i => !(lRound alts prev vc PySet.empty).2.elems.contains i))) := by
  have hs : SetsSub alts (lLoop alts (n + 1) vc prev) := lLoop_sub alts _ _ _
  refine ⟨foldlKey_tinv alts _ remaining hs st.S (fun e he => (hT.S e he).ax) st hT, ?_⟩
  have hleAll : ∀ (l : List (Key × Axis)) (s : St),
      Le s (l.foldl (processKey orders (lLoop alts (n + 1) vc prev) remaining) s) :=
    fun l s => foldl_le _ l s (fun s' e' => processKey_le orders _ remaining s' e')
  rcases hP with hP | hP
  · exact Or.inl (hP.mono (hleAll _ _))
  · obtain ⟨Fr, M, Sr, Y, hI, hMR, hHas, hY⟩ := hP
    by_cases hex : ∃ x1 ∈ M, x1 ∈ (lRound alts prev vc PySet.empty).2.elems
    · obtain ⟨x1, hx1M, hx1L⟩ := hex
      obtain ⟨e, he, hkb, hkX, hlen⟩ := hHas
      have heT := hT.S e he
      obtain ⟨Fr', Sr', hsh, hbnd'⟩ := heT.shape
      have hA : AtEntry orders S e Fr M Sr Y Fr' Sr' := ⟨hI, hsh, hbnd'.symm.trans hkb, hkX, hlen, hY⟩
      obtain ⟨X, hE⟩ := find_ext hr hS hsub hL n hn hA hMR x1 hx1M hx1L
      obtain ⟨l1, l2, hsplit⟩ := List.append_of_mem he
      have hl1 : ∀ e' ∈ l1, AxSP orders e'.2 := fun e' he' => (hT.S e' (by rw [hsplit]; simp [he'])).ax
      have hT1 := foldlKey_tinv alts _ remaining hs l1 hl1 st hT
      rw [hsplit, List.foldl_append, List.foldl_cons]
      generalize List.foldl (processKey orders (lLoop alts (n + 1) vc prev) remaining) st l1 = st1 at hT1 ⊢
      have hQ := apply_ext hr hS hL n remaining hrem st1 hT1 heT hA hMR (List.ne_nil_of_mem hx1M) hE
      rcases hQ with hQ | hQ
      · exact Or.inl (hQ.mono (hleAll _ _))
      · exact Or.inr (hQ.mono (hleAll _ _))
    · right
      refine ⟨Fr, M, Sr, Y, hI, ?_, hHas.mono (hleAll _ _), hY⟩
      intro a ha
      rw [List.mem_filter]
      refine ⟨hMR a ha, ?_⟩
      simp only [Bool.not_eq_true', List.contains_eq_mem, decide_eq_false_iff_not]
      intro haL
      exact hex ⟨a, ha, haL⟩

/-- the whole main loop -/
theorem mainLoop_path (hr : Rankings alts orders) (hS : S.Nodup) (hsub : ∀ a ∈ S, a ∈ alts) (n : Nat)
    {vc : List (List Nat)} {prev : PySet Nat} {R : List Nat} (hL : LState alts orders vc prev R)
    (hn : R.length ≤ n) (remaining : List Nat) (hrem : ∀ a ∈ R, a ∈ remaining) (st : St)
    (hT : TInv orders st) (hP : Reached (S.length + 1) st ∨ PathAt orders S st R) :
    Reached (S.length + 1) (mainLoop orders (lLoop alts n vc prev) st remaining) := by
  induction n generalizing vc prev R remaining st with
  | zero =>
    unfold lLoop mainLoop
    rcases hP with hP | hP
    · exact hP
    · obtain ⟨Fr, M, Sr, Y, hI, hMR, hHas, _⟩ := hP
      have hR : R = [] := List.eq_nil_of_length_eq_zero (by omega)
      have hM : M = [] := by
        cases M with
        | nil => rfl
        | cons a t => have := hMR a (by simp); rw [hR] at this; cases this
      subst hM
      have hlenS : Fr.length + Sr.length = S.length := by
        have := hI.1.length_eq
        simp only [List.length_append, List.length_reverse, List.length_nil] at this
        omega
      obtain ⟨e, he, _, _, hlen⟩ := hHas
      have := hT.le e he
      left
      omega
  | succ n ih =>
    rw [lLoop_succ]
    unfold mainLoop
    obtain ⟨hT', hP'⟩ := level_step hr hS hsub hL n hn remaining hrem st hT hP
    rw [lLoop_succ] at hT' hP'
    apply ih hL.next (hL.next_length n hn) _ _ _ hT' hP'
    intro a ha
    rw [List.mem_filter] at ha ⊢
    refine ⟨hrem a ha.1, ?_⟩
    have h2 := ha.2
    simp only [Bool.not_eq_true', List.contains_eq_mem, decide_eq_false_iff_not] at h2
    simp only [Bool.not_eq_true']
    exact (contains_nat_false _ a).2 h2

end

/-! ### the answer -/

theorem lt_filter (o : List Nat) (p : Nat → Bool) (a b : Nat) (ha : a ∈ o) (hpa : p a = true)
    (hpb : p b = true) (h : o.idxOf a < o.idxOf b) : (o.filter p).idxOf a < (o.filter p).idxOf b := by
  induction o with
  | nil => cases ha
  | cons c t ih =>
    rw [List.idxOf_cons, List.idxOf_cons] at h
    by_cases hca : c = a
    · subst hca
      have hcb : (c == b) = false := by
        apply Bool.eq_false_iff.2
        intro e0
        have : c = b := by simpa using e0
        subst this; simp at h
      rw [List.filter_cons_of_pos hpa, List.idxOf_cons, List.idxOf_cons]
      simp only [hcb, BEq.rfl, cond_true, cond_false]
      omega
    · have hca' : (c == a) = false := by simpa using hca
      have hcb : (c == b) = false := by
        apply Bool.eq_false_iff.2
        intro e0
        have : c = b := by simpa using e0
        subst this
        simp only [hca', BEq.rfl, cond_true, cond_false] at h
        omega
      have hat : a ∈ t := by
        rcases List.mem_cons.1 ha with h0 | h0
        · exact absurd h0.symm hca
        · exact h0
      have ht : t.idxOf a < t.idxOf b := by
        simp only [hca', hcb, cond_false] at h
        omega
      have := ih hat ht
      by_cases hpc : p c = true
      · rw [List.filter_cons_of_pos hpc, List.idxOf_cons, List.idxOf_cons]
        simp only [hca', hcb, cond_false]
        omega
      · rw [List.filter_cons_of_neg hpc]
        exact this

/-- a single-peaked axis of the restricted profile is an axis without valley for the original orders -/
theorem valid_of_sp {alts : List Nat} {orders : List (List Nat)} {S : List Nat} (hr : Rankings alts orders)
    (hS : S.Nodup) (hsub : ∀ a ∈ S, a ∈ alts)
    (hsp : Spec.SP S ((orders.map (fun o => o.filter (fun a => S.contains a))).map ELO.wrap)) :
    ∃ σ, σ.Perm S ∧ Valid orders σ := by
  obtain ⟨σ, hperm, hspa⟩ := hsp
  have hr' : Rankings S (orders.map (fun o => o.filter (fun a => S.contains a))) := by
    refine ⟨hS, ?_⟩
    intro o' ho'
    obtain ⟨o, ho, rfl⟩ := List.mem_map.1 ho'
    refine ⟨(hr.2 o ho).1.sublist List.filter_sublist, fun a => ?_⟩
    simp only [List.mem_filter, List.contains_eq_mem, decide_eq_true_eq]
    exact ⟨fun h => h.2, fun h => ⟨((hr.2 o ho).2 a).2 (hsub a h), h⟩⟩
  have hv := (valid_iff_SPOnAxis hr' hperm).1 hspa
  refine ⟨σ, hperm, ?_⟩
  intro o ho
  have hnv := hv _ (List.mem_map.2 ⟨o, ho, rfl⟩)
  intro P b Q a c hsplit ha hc hval
  have hmemS : ∀ z ∈ σ, z ∈ S := fun z hz => hperm.mem_iff.1 hz
  have haS : a ∈ S := hmemS a (by rw [hsplit]; simp [ha])
  have hbS : b ∈ S := hmemS b (by rw [hsplit]; simp)
  have hcS : c ∈ S := hmemS c (by rw [hsplit]; simp [hc])
  have hin : ∀ z ∈ S, z ∈ o := fun z hz => ((hr.2 o ho).2 z).2 (hsub z hz)
  refine hnv P b Q a c hsplit ha hc ⟨?_, ?_⟩
  · exact lt_filter o _ a b (hin a haS) (by simpa using haS) (by simpa using hbS) hval.1
  · exact lt_filter o _ c b (hin c hcS) (by simpa using hcS) (by simpa using hbS) hval.2

theorem path_init (orders : List (List Nat)) (S σ alts : List Nat) (hσ : σ.Perm S) (hv : Valid orders σ)
    (hsub : ∀ a ∈ S, a ∈ alts) : PathAt orders S st0 alts := by
  refine ⟨[], σ, [], [], ⟨by simpa using hσ, by simpa using hv⟩, ?_, ?_, ?_⟩
  · intro a ha; exact hsub a (hσ.mem_iff.1 ha)
  · exact ⟨(initKey, [none]), by simp [st0], rfl, (fun z => by simp [initKey]), by simp⟩
  · exact ⟨fun y hy => (nomatch hy), fun h => absurd rfl h⟩

/-- the axis returned has at least as many alternatives as any set on which the profile is single-peaked -/
theorem optimal_length {alts : List Nat} {orders : List (List Nat)} {S : List Nat} (hr : Rankings alts orders)
    (hne : orders ≠ []) (hS : S.Nodup) (hsub : ∀ a ∈ S, a ∈ alts)
    (hsp : Spec.SP S ((orders.map (fun o => o.filter (fun a => S.contains a))).map ELO.wrap)) :
    S.length ≤ (kAlternativeDeletion alts orders).1.length := by
  obtain ⟨σ, hσ, hv⟩ := valid_of_sp hr hS hsub hsp
  have hreach : Reached (S.length + 1) (finalState orders alts) := by
    unfold finalState getLSets
    exact mainLoop_path hr hS hsub alts.length (LState.init hr hne) (Nat.le_refl _) alts (fun a ha => ha) st0
      (st0_tinv orders) (Or.inr (path_init orders S σ alts hσ hv hsub))
  have hlen : S.length + 1 ≤ (finalLongest orders alts).length := by
    unfold finalLongest
    dsimp only
    split
    · rcases hreach with h | h <;> omega
    · rcases hreach with h | h <;> omega
  obtain ⟨Fr, Sr, hsh, _⟩ := finalLongest_sp orders alts
  unfold kAlternativeDeletion
  rw [axis_eq, hsh.members]
  have : (finalLongest orders alts).length = Fr.length + Sr.length + 1 := by
    rw [hsh]; simp; omega
  simp only [List.length_append, List.length_reverse]
  omega

end PrefVerif.C12Opt
