import PrefVerif.Lemmas.C19Axis
/-!
# C19 helper lemmas for an arbitrary outcome `(isSc, s)` of the pre-check: the LP reached by
`Euclid.lpOn` is the one generated for the restricted preferences and the axis, and these are well-formed
-/
namespace PrefVerif.C19
open PrefVerif PrefVerif.Euclid

/-- the content of `lp_wellFormed` for `lpOn` (whatever the outcome of the pre-check), stated without the
structure `WellFormed` of `Props/C19.lean` -/
theorem lpOn_wellFormed_aux (alts : List Nat) (orders : List (List Nat)) (isSc : Bool) (s : List (List Nat))
    (l : LP) (halts : alts.Nodup) (hord : ∀ o ∈ orders, o.Perm alts)
    (hlp : lpOn alts orders isSc s = some l) :
    l.constraints = lpConstraints l.preferences l.axis ∧ l.axis.Perm l.cplus ∧
      l.axis.Nodup ∧ ∀ p ∈ l.preferences, p.Perm l.axis := by
  obtain ⟨g, v1, vn, _, hcp, hax, hpr, hcs⟩ := lpOn_eq_some alts orders isSc s l hlp
  have hperm : l.axis.Perm l.cplus := hax ▸ axisOf_perm g v1 vn l.cplus
  have hsub : l.cplus.Sublist alts := hcp ▸ List.filter_sublist
  refine ⟨hcs, hperm, hperm.nodup_iff.2 (hsub.nodup halts), fun p hp => ?_⟩
  rw [hpr, restrictPreferences] at hp
  obtain ⟨o, ho, rfl⟩ := List.mem_map.1 hp
  refine List.Perm.trans ?_ hperm.symm
  have h1 : (o.filter (fun c => l.cplus.contains c)).Perm (alts.filter (fun c => l.cplus.contains c)) :=
    (hord o ho).filter _
  refine h1.trans ?_
  rw [hcp, colouredAlts]
  apply List.Perm.of_eq
  apply List.filter_congr
  intro a ha
  by_cases hc : (colour g a != 3) = true
  · simp [hc, List.mem_filter, ha]
  · simp [hc, List.mem_filter]

end PrefVerif.C19
