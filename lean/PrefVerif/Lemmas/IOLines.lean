import PrefVerif.Lemmas.IOStr
/-!
# Reusable facts about line splitting

A written file is `"".join(line + "\n" for line in lines)`.  When no line contains a line break,
`readlines()` returns the lines with their `\n`, `splitlines()` and `split("\n")` the bare lines.
-/
namespace PrefVerif.IOL
open PrefVerif.Py

/-- the text of a file made of the given lines -/
def unlines (ls : List Str) : Str := (ls.map (fun l => l ++ ['\n'])).flatten

theorem unlines_nil : unlines [] = [] := rfl
theorem unlines_cons (l : Str) (ls : List Str) : unlines (l :: ls) = l ++ '\n' :: unlines ls := by
  simp [unlines]
theorem unlines_append (a b : List Str) : unlines (a ++ b) = unlines a ++ unlines b := by
  simp [unlines]

/-- no character of the line is a `splitlines()` boundary -/
def LineOK (l : Str) : Prop := ∀ c ∈ l, isLineBreak c = false

theorem LineOK.append {a b : Str} (ha : LineOK a) (hb : LineOK b) : LineOK (a ++ b) := by
  intro c hc; rcases List.mem_append.1 hc with h | h
  · exact ha c h
  · exact hb c h

theorem LineOK.cons {c : Char} {a : Str} (hc : isLineBreak c = false) (ha : LineOK a) : LineOK (c :: a) := by
  intro d hd; rcases List.mem_cons.1 hd with rfl | h
  · exact hc
  · exact ha d h

theorem lineOK_nil : LineOK [] := by intro c hc; simp at hc

theorem lineOK_of_all {l : Str} (h : l.all (fun c => !isLineBreak c) = true) : LineOK l := by
  intro c hc; simpa using (List.all_eq_true.1 h) c hc

theorem lineOK_natToStr (n : Nat) : LineOK (natToStr n) :=
  fun _ hc => digit_not_linebreak (natToStr_isDigit hc)

theorem LineOK.ne_nl {l : Str} (h : LineOK l) : ∀ c ∈ l, c ≠ '\n' := by
  intro c hc hn; subst hn; exact absurd (h _ hc) (by decide)

theorem LineOK.ne_cr {l : Str} (h : LineOK l) : ∀ c ∈ l, c ≠ '\r' := by
  intro c hc hn; subst hn; exact absurd (h _ hc) (by decide)

/-! ## `readlines` -/

theorem readlinesGo_char {c : Char} (h1 : c ≠ '\n') (h2 : c ≠ '\r') (cs cur : Str) :
    readlinesGo (c :: cs) cur = readlinesGo cs (c :: cur) := by
  rw [readlinesGo]
  · simp [h1, h2]
  · intro cs' h; exact absurd h h2

theorem readlinesGo_nl (cs cur : Str) :
    readlinesGo ('\n' :: cs) cur = ('\n' :: cur).reverse :: readlinesGo cs [] := by
  rw [readlinesGo]
  · simp
  · intro cs' h; simp at h

theorem readlinesGo_line (l rest cur : Str) (h : LineOK l) :
    readlinesGo (l ++ '\n' :: rest) cur = (cur.reverse ++ l ++ ['\n']) :: readlinesGo rest [] := by
  induction l generalizing cur with
  | nil => simp [readlinesGo_nl]
  | cons c l ih =>
    have hc1 := h.ne_nl c (by simp)
    have hc2 := h.ne_cr c (by simp)
    rw [List.cons_append, readlinesGo_char hc1 hc2, ih _ (fun d hd => h d (by simp [hd]))]
    simp

/-- `readlines()` of a written file: the lines, each with its `\n` -/
theorem readlines_unlines (ls : List Str) (h : ∀ l ∈ ls, LineOK l) :
    readlines (unlines ls) = ls.map (fun l => l ++ ['\n']) := by
  unfold readlines
  induction ls with
  | nil => simp [unlines_nil, readlinesGo]
  | cons l ls ih =>
    rw [unlines_cons, readlinesGo_line l _ [] (h l (by simp)), ih (fun x hx => h x (by simp [hx]))]
    simp

/-! ## `splitlines` -/

theorem splitlinesGo_char {c : Char} (h : isLineBreak c = false) (cs cur : Str) :
    splitlinesGo (c :: cs) cur = splitlinesGo cs (c :: cur) := by
  rw [splitlinesGo]
  · simp [h]
  · intro cs' hc; rw [hc] at h; exact absurd h (by decide)

theorem splitlinesGo_nl (cs cur : Str) :
    splitlinesGo ('\n' :: cs) cur = cur.reverse :: splitlinesGo cs [] := by
  rw [splitlinesGo]
  · simp [show isLineBreak '\n' = true by decide]
  · intro cs' h; simp at h

theorem splitlinesGo_line (l rest cur : Str) (h : LineOK l) :
    splitlinesGo (l ++ '\n' :: rest) cur = (cur.reverse ++ l) :: splitlinesGo rest [] := by
  induction l generalizing cur with
  | nil => simp [splitlinesGo_nl]
  | cons c l ih =>
    rw [List.cons_append, splitlinesGo_char (h c (by simp)), ih _ (fun d hd => h d (by simp [hd]))]
    simp

/-- `splitlines()` of a written file: the bare lines -/
theorem splitlines_unlines (ls : List Str) (h : ∀ l ∈ ls, LineOK l) :
    splitlines (unlines ls) = ls := by
  unfold splitlines
  induction ls with
  | nil => simp [unlines_nil, splitlinesGo]
  | cons l ls ih =>
    rw [unlines_cons, splitlinesGo_line l _ [] (h l (by simp)), ih (fun x hx => h x (by simp [hx]))]
    simp

/-! ## `split("\n")` -/

/-- `text.split("\n")` of a written file: the bare lines and a final empty piece -/
theorem splitOn_unlines (ls : List Str) (h : ∀ l ∈ ls, ∀ c ∈ l, c ≠ '\n') :
    splitOn '\n' (unlines ls) = ls ++ [[]] := by
  induction ls with
  | nil => simp [unlines_nil, splitOn]
  | cons l ls ih =>
    rw [unlines_cons, splitOn_append_sep l _ (h l (by simp)), ih (fun x hx => h x (by simp [hx]))]
    simp

end PrefVerif.IOL
