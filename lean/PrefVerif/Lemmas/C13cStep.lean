import PrefVerif.Lemmas.C13Loop
import PrefVerif.Lemmas.C13cLeaf
/-!
# C13 completeness, part 3 — one elimination step of Trick's algorithm

Invariant: `∃ E, Good orders C E` — the profile restricted to the remaining alternatives `C` is
single-peaked on some tree `E` on `C`.  If some voter ranks `a` last among `C` then
* `a` is a leaf of `E` (`step_leaf`),
* its neighbour lies in `B(a)`, so the algorithm does not answer False (`step_getB`),
* the profile restricted to `C \ {a}` is single-peaked on `E` minus the leaf (`step_good`).
-/
namespace PrefVerif.C13c
open PrefVerif.C13 PrefVerif.SPTree

/-- the edges not touching `a` -/
def dropVertex (E : List (Nat × Nat)) (a : Nat) : List (Nat × Nat) := E.filter (fun e => !inc a e)

theorem mem_restrict_iff {orders : List (List Nat)} {C : List Nat}
    (hCo : ∀ o ∈ orders, ∀ x ∈ C, x ∈ o) {o : List Nat} (ho : o ∈ orders) (x : Nat) :
    x ∈ restrict o C ↔ x ∈ C := by
  rw [mem_restrict]
  exact ⟨fun h => h.2, fun h => ⟨hCo o ho x h, h⟩⟩

/-- (i) an alternative ranked last among `C` by some voter is a leaf of the tree -/
theorem step_leaf {orders : List (List Nat)} {C : List Nat} {E : List (Nat × Nat)} {a : Nat}
    (hO : ∀ o ∈ orders, o.Nodup) (hCo : ∀ o ∈ orders, ∀ x ∈ C, x ∈ o) (hC : C.Nodup)
    (h2 : 2 ≤ C.length) (hg : Good orders C E) {o : List Nat} (ho : o ∈ orders)
    (hlast : (restrict o C).getLast? = some a) :
    a ∈ C ∧ ∃ b, b ∈ C ∧ b ≠ a ∧ Adj E a b ∧ E.countP (inc a) ≤ 1 := by
  have hr : (restrict o C).Nodup := restrict_nodup C (hO o ho)
  have haC : a ∈ C := (mem_restrict_iff hCo ho a).1 (List.mem_of_getLast? hlast)
  refine ⟨haC, ?_⟩
  have hconn : Conn E (C.filter (· != a)) := by
    have h1 := hg.votes o ho ((restrict o C).length - 1)
    rw [← List.dropLast_eq_take] at h1
    apply h1.congr_set
    intro x
    rw [mem_dropLast_of_getLast? hr hlast, mem_filter_ne, mem_restrict_iff hCo ho]
  have hfl := length_filter_ne C hC haC
  have hcount := incident_le_one hC hg.len h2 hconn hfl
  have hne : C.filter (· != a) ≠ [] := by
    intro h; rw [h] at hfl; simp at hfl; omega
  obtain ⟨x, hx⟩ := List.exists_mem_of_ne_nil _ hne
  have hx' := mem_filter_ne.1 hx
  obtain ⟨b, hbC, hab⟩ := exists_nbr hg.conn haC hx'.1 hx'.2
  refine ⟨b, hbC, ?_, hab, hcount⟩
  intro hba
  rcases hab with h | h
  · exact (hg.edges _ h).1 hba.symm
  · exact (hg.edges _ h).1 hba

/-- (ii) for one voter: the neighbour of the leaf `a` lies in `B(i, a)` -/
theorem leaf_mem_bOfVoter {E : List (Nat × Nat)} {r : List Nat} {a b : Nat} (hl : Leaf E a b)
    (hba : b ≠ a) (hr : r.Nodup) (ha : a ∈ r) (hlen : 2 ≤ r.length)
    (hv : ∀ k, Conn E (r.take k)) : b ∈ bOfVoter r a := by
  cases r with
  | nil => cases ha
  | cons top rest =>
    simp only [bOfVoter]
    split
    · next htop =>
      have htop : top = a := by simpa using htop
      cases rest with
      | nil => simp at hlen
      | cons second tl =>
        have hsa : second ≠ a := by
          intro h
          have := (List.nodup_cons.1 hr).1
          rw [htop, h] at this
          exact this (List.mem_cons_self ..)
        have h2 : Conn E [a, second] := by
          have := hv 2
          rw [htop] at this
          simpa using this
        have := leaf_nbr_mem hl h2 (by simp) (show second ∈ [a, second] by simp) hsa
        simp only [List.mem_cons, List.not_mem_nil, or_false] at this
        rcases this with h | h
        · exact absurd h hba
        · simp [h]
    · next htop =>
      have htop : top ≠ a := by simpa using htop
      obtain ⟨k, hk⟩ := exists_take_takeWhile (top :: rest) ha
      have ha' : a ∈ (top :: rest).take k := (hk a).2 (Or.inr rfl)
      have ht' : top ∈ (top :: rest).take k := by
        apply (hk top).2
        left
        have : (top != a) = true := by simpa using htop
        rw [List.takeWhile_cons, if_pos this]
        exact List.mem_cons_self ..
      have := leaf_nbr_mem hl (hv k) ha' ht' htop
      rcases (hk b).1 this with h | h
      · exact h
      · exact absurd h hba

/-- converse of `mem_getB` -/
theorem mem_getB_of {orders : List (List Nat)} {C : List Nat} {a x : Nat} (hne : orders ≠ [])
    (h : ∀ o ∈ orders, x ∈ bOfVoter (restrict o C) a) : x ∈ getB orders C a := by
  cases orders with
  | nil => exact absurd rfl hne
  | cons o os =>
    simp only [getB, List.map_cons]
    rw [mem_foldl_inter]
    refine ⟨h o (List.mem_cons_self ..), ?_⟩
    intro l hl
    obtain ⟨o', ho', rfl⟩ := List.mem_map.1 hl
    exact h o' (List.mem_cons_of_mem _ ho')

/-- (ii) the neighbour of the leaf `a` lies in `B(a)` -/
theorem step_getB {orders : List (List Nat)} {C : List Nat} {E : List (Nat × Nat)} {a b : Nat}
    (hO : ∀ o ∈ orders, o.Nodup) (hCo : ∀ o ∈ orders, ∀ x ∈ C, x ∈ o) (hC : C.Nodup)
    (hne : orders ≠ []) (h2 : 2 ≤ C.length) (hg : Good orders C E) (ha : a ∈ C) (hba : b ≠ a)
    (hl : Leaf E a b) : b ∈ getB orders C a := by
  apply mem_getB_of hne
  intro o ho
  have hr : (restrict o C).Nodup := restrict_nodup C (hO o ho)
  apply leaf_mem_bOfVoter hl hba hr ((mem_restrict_iff hCo ho a).2 ha) ?_ (hg.votes o ho)
  have : C.length ≤ (restrict o C).length :=
    length_le_of_subset C _ hC (fun x hx => (mem_restrict_iff hCo ho x).2 hx)
  omega

/-- (iii) removing the leaf keeps the invariant -/
theorem step_good {orders : List (List Nat)} {C : List Nat} {E : List (Nat × Nat)} {a b : Nat}
    (hC : C.Nodup) (hg : Good orders C E) (ha : a ∈ C) (hab : Adj E a b)
    (hcount : E.countP (inc a) ≤ 1) :
    Good orders (C.filter (· != a)) (dropVertex E a) := by
  have hl : Leaf E a b := leaf_of_count hcount hab
  have hd : ∀ e ∈ E, e.1 ≠ e.2 := fun e he => (hg.edges e he).1
  have hE' : ∀ u w, Adj E u w → u ≠ a → w ≠ a → Adj (dropVertex E a) u w := by
    intro u w he hua hwa
    unfold dropVertex
    rcases he with he | he
    · exact Or.inl (List.mem_filter.2 ⟨he, by simp [inc, hua, hwa]⟩)
    · exact Or.inr (List.mem_filter.2 ⟨he, by simp [inc, hua, hwa]⟩)
  refine ⟨?_, ?_, Conn.remove_leaf hl hd hE' hg.conn, ?_⟩
  · have hfl := length_filter_ne C hC ha
    have hpos : 0 < E.countP (inc a) := by
      rcases hab with h | h
      · exact List.countP_pos_iff.2 ⟨_, h, by simp [inc]⟩
      · exact List.countP_pos_iff.2 ⟨_, h, by simp [inc]⟩
    have h1 := List.length_eq_countP_add_countP (inc a) (l := E)
    have h2 : (dropVertex E a).length = E.countP (fun e => ¬ inc a e = true) := by
      unfold dropVertex
      rw [← List.countP_eq_length_filter]
      apply List.countP_congr
      intro e _
      simp
    have := hg.len
    omega
  · intro e he
    unfold dropVertex at he
    obtain ⟨heE, hinc⟩ := List.mem_filter.1 he
    have hinc : ¬ (e.1 = a ∨ e.2 = a) := by
      rw [← inc_iff]; simpa using hinc
    have := hg.edges e heE
    exact ⟨this.1, mem_filter_ne.2 ⟨this.2.1, fun h => hinc (Or.inl h)⟩,
      mem_filter_ne.2 ⟨this.2.2, fun h => hinc (Or.inr h)⟩⟩
  · intro o ho j
    rw [restrict_filter]
    obtain ⟨k, hk⟩ := filter_take_prefix (· != a) (restrict o C) j
    rw [hk]
    exact Conn.remove_leaf hl hd hE' (hg.votes o ho k)

end PrefVerif.C13c
