import PrefVerif.Lemmas.IOLines
import PrefVerif.Lemmas.IOzStrip
/-!
# Line splitting for the three line-end styles

A text made of non-empty, break-free lines joined (and optionally terminated) by one of `\n`,
`\r\n`, `\r`: `readlines()` (universal newlines) returns the lines with `\n` appended (the last one
only when the text is terminated), `splitlines()` returns the bare lines.
-/
namespace PrefVerif.IOL
open PrefVerif.Py

/-- lines joined by `eol`, with a final `eol` or not -/
def eolText (eol : Str) (final : Bool) (ls : List Str) : Str :=
  List.intercalate eol ls ++ (if final then eol else [])

def IsEol (e : Str) : Prop := e = ['\n'] ∨ e = ['\r', '\n'] ∨ e = ['\r']

/-- what `readlines()` returns: every line with its `\n`, the last one only if terminated -/
def withNl (final : Bool) : List Str → List Str
  | [] => []
  | [l] => [l ++ (if final then ['\n'] else [])]
  | l :: ls => (l ++ ['\n']) :: withNl final ls

theorem withNl_cons_cons (final : Bool) (l l2 : Str) (ls : List Str) :
    withNl final (l :: l2 :: ls) = (l ++ ['\n']) :: withNl final (l2 :: ls) := rfl

theorem length_withNl (final : Bool) (ls : List Str) : (withNl final ls).length = ls.length := by
  induction ls with
  | nil => rfl
  | cons l ls ih =>
    cases ls with
    | nil => rfl
    | cons l2 ls => rw [withNl_cons_cons, List.length_cons, ih]; rfl

theorem map_strip_withNl (final : Bool) (ls : List Str) :
    (withNl final ls).map strip = ls.map strip := by
  induction ls with
  | nil => rfl
  | cons l ls ih =>
    cases ls with
    | nil =>
      cases final
      · simp [withNl]
      · simp [withNl, strip_snoc_newline]
    | cons l2 ls => rw [withNl_cons_cons, List.map_cons, ih, strip_snoc_newline]; rfl

/-! ## one step of `readlinesGo` / `splitlinesGo` -/

theorem readlinesGo_crlf (cs cur : Str) :
    readlinesGo ('\r' :: '\n' :: cs) cur = ('\n' :: cur).reverse :: readlinesGo cs [] := by
  rw [readlinesGo]

theorem readlinesGo_cr (cs cur : Str) (h : ∀ c, cs.head? = some c → c ≠ '\n') :
    readlinesGo ('\r' :: cs) cur = ('\n' :: cur).reverse :: readlinesGo cs [] := by
  rw [readlinesGo]
  · simp
  · intro cs' _ hc
    subst hc
    exact h '\n' rfl rfl

theorem splitlinesGo_crlf (cs cur : Str) :
    splitlinesGo ('\r' :: '\n' :: cs) cur = cur.reverse :: splitlinesGo cs [] := by
  rw [splitlinesGo]

theorem splitlinesGo_cr (cs cur : Str) (h : ∀ c, cs.head? = some c → c ≠ '\n') :
    splitlinesGo ('\r' :: cs) cur = cur.reverse :: splitlinesGo cs [] := by
  rw [splitlinesGo]
  · simp [show isLineBreak '\r' = true by decide]
  · intro cs' _ hc
    subst hc
    exact h '\n' rfl rfl

/-- a break-free run is accumulated -/
theorem readlinesGo_run (l rest cur : Str) (h : LineOK l) :
    readlinesGo (l ++ rest) cur = readlinesGo rest (l.reverse ++ cur) := by
  induction l generalizing cur with
  | nil => rfl
  | cons c l ih =>
    rw [List.cons_append, readlinesGo_char (h.ne_nl c (by simp)) (h.ne_cr c (by simp)),
      ih _ (fun d hd => h d (by simp [hd]))]
    simp

theorem splitlinesGo_run (l rest cur : Str) (h : LineOK l) :
    splitlinesGo (l ++ rest) cur = splitlinesGo rest (l.reverse ++ cur) := by
  induction l generalizing cur with
  | nil => rfl
  | cons c l ih =>
    rw [List.cons_append, splitlinesGo_char (h c (by simp)), ih _ (fun d hd => h d (by simp [hd]))]
    simp

/-- any of the three line ends closes the current line -/
theorem readlinesGo_eol {eol : Str} (heol : IsEol eol) (rest cur : Str)
    (h : ∀ c, rest.head? = some c → c ≠ '\n') :
    readlinesGo (eol ++ rest) cur = ('\n' :: cur).reverse :: readlinesGo rest [] := by
  rcases heol with rfl | rfl | rfl
  · exact readlinesGo_nl rest cur
  · exact readlinesGo_crlf rest cur
  · exact readlinesGo_cr rest cur h

theorem splitlinesGo_eol {eol : Str} (heol : IsEol eol) (rest cur : Str)
    (h : ∀ c, rest.head? = some c → c ≠ '\n') :
    splitlinesGo (eol ++ rest) cur = cur.reverse :: splitlinesGo rest [] := by
  rcases heol with rfl | rfl | rfl
  · exact splitlinesGo_nl rest cur
  · exact splitlinesGo_crlf rest cur
  · exact splitlinesGo_cr rest cur h

/-- a break-free line followed by a line end -/
theorem readlinesGo_line_eol {eol : Str} (heol : IsEol eol) (l rest : Str) (hl : LineOK l)
    (h : ∀ c, rest.head? = some c → c ≠ '\n') :
    readlinesGo (l ++ eol ++ rest) [] = (l ++ ['\n']) :: readlinesGo rest [] := by
  rw [List.append_assoc, readlinesGo_run l _ _ hl, readlinesGo_eol heol _ _ h]
  simp

theorem splitlinesGo_line_eol {eol : Str} (heol : IsEol eol) (l rest : Str) (hl : LineOK l)
    (h : ∀ c, rest.head? = some c → c ≠ '\n') :
    splitlinesGo (l ++ eol ++ rest) [] = l :: splitlinesGo rest [] := by
  rw [List.append_assoc, splitlinesGo_run l _ _ hl, splitlinesGo_eol heol _ _ h]
  simp

/-- a final, unterminated, non-empty line -/
theorem readlinesGo_last (l : Str) (hl : LineOK l) (hne : l ≠ []) : readlinesGo l [] = [l] := by
  have := readlinesGo_run l [] [] hl
  rw [List.append_nil] at this
  rw [this]
  cases l with
  | nil => exact absurd rfl hne
  | cons c l => simp [readlinesGo]

theorem splitlinesGo_last (l : Str) (hl : LineOK l) (hne : l ≠ []) : splitlinesGo l [] = [l] := by
  have := splitlinesGo_run l [] [] hl
  rw [List.append_nil] at this
  rw [this]
  cases l with
  | nil => exact absurd rfl hne
  | cons c l => simp [splitlinesGo]

/-! ## the whole text -/

theorem eolText_singleton (eol : Str) (final : Bool) (l : Str) :
    eolText eol final [l] = l ++ (if final then eol else []) := by
  simp [eolText, List.intercalate]

theorem eolText_cons_cons (eol : Str) (final : Bool) (l l2 : Str) (ls : List Str) :
    eolText eol final (l :: l2 :: ls) = l ++ eol ++ eolText eol final (l2 :: ls) := by
  simp [eolText, List.intercalate_cons_cons]

/-- the text of non-empty break-free lines does not start with `\n` -/
theorem eolText_head (eol : Str) (final : Bool) (l : Str) (ls : List Str) (hl : LineOK l)
    (hne : l ≠ []) : ∀ c, (eolText eol final (l :: ls)).head? = some c → c ≠ '\n' := by
  intro c hc
  cases l with
  | nil => exact absurd rfl hne
  | cons a l =>
    have : c = a := by
      cases ls with
      | nil => rw [eolText_singleton] at hc; simpa using hc.symm
      | cons l2 ls => rw [eolText_cons_cons] at hc; simpa using hc.symm
    subst this
    exact hl.ne_nl c (by simp)

/-- `readlines()` for every line-end style -/
theorem readlines_eolText {eol : Str} (heol : IsEol eol) (final : Bool) (ls : List Str)
    (hne : ls ≠ []) (hls : ∀ l ∈ ls, l ≠ [] ∧ LineOK l) :
    readlines (eolText eol final ls) = withNl final ls := by
  unfold readlines
  induction ls with
  | nil => exact absurd rfl hne
  | cons l ls ih =>
    obtain ⟨hne1, hl⟩ := hls l (by simp)
    cases ls with
    | nil =>
      rw [eolText_singleton]
      cases final
      · simpa [withNl] using readlinesGo_last l hl hne1
      · have := readlinesGo_line_eol heol l [] hl (by simp)
        simpa [withNl, readlinesGo] using this
    | cons l2 ls =>
      obtain ⟨hne2, hl2⟩ := hls l2 (by simp)
      rw [eolText_cons_cons, readlinesGo_line_eol heol l _ hl (eolText_head eol final l2 ls hl2 hne2),
        ih (by simp) (fun x hx => hls x (by simp [hx])), withNl_cons_cons]

/-- `splitlines()` for every line-end style -/
theorem splitlines_eolText {eol : Str} (heol : IsEol eol) (final : Bool) (ls : List Str)
    (hne : ls ≠ []) (hls : ∀ l ∈ ls, l ≠ [] ∧ LineOK l) :
    splitlines (eolText eol final ls) = ls := by
  unfold splitlines
  induction ls with
  | nil => exact absurd rfl hne
  | cons l ls ih =>
    obtain ⟨hne1, hl⟩ := hls l (by simp)
    cases ls with
    | nil =>
      rw [eolText_singleton]
      cases final
      · simpa using splitlinesGo_last l hl hne1
      · have := splitlinesGo_line_eol heol l [] hl (by simp)
        simpa [splitlinesGo] using this
    | cons l2 ls =>
      obtain ⟨hne2, hl2⟩ := hls l2 (by simp)
      rw [eolText_cons_cons, splitlinesGo_line_eol heol l _ hl (eolText_head eol final l2 ls hl2 hne2),
        ih (by simp) (fun x hx => hls x (by simp [hx]))]

end PrefVerif.IOL
