import PrefVerif.Props.C19
/-!
# C19 for an arbitrary outcome `(isSc, s)` of the pre-check: `lp_wellFormed`, `lp_model_sound` and
`nogrey_partial` hold for `Euclid.lpOn` / `Euclid.stageOn` (they never look at the arrangement)
-/
namespace PrefVerif.C19
open PrefVerif PrefVerif.Euclid PrefVerif.Spec

theorem lpOn_wellFormed (alts : List Nat) (orders : List (List Nat)) (isSc : Bool) (s : List (List Nat)) (l : LP)
    (halts : alts.Nodup) (hord : ∀ o ∈ orders, o.Perm alts) (hlp : lpOn alts orders isSc s = some l) :
    l.constraints = lpConstraints l.preferences l.axis ∧ l.axis.Perm l.cplus ∧
      WellFormed l.preferences l.axis := by
  obtain ⟨hcs, hperm, hnd, hp⟩ := lpOn_wellFormed_aux alts orders isSc s l halts hord hlp
  exact ⟨hcs, hperm, ⟨hnd, hp⟩⟩

theorem lpOn_model_sound (alts : List Nat) (orders : List (List Nat)) (isSc : Bool) (s : List (List Nat))
    (l : LP) (asg : Var → Rat) (halts : alts.Nodup) (hord : ∀ o ∈ orders, o.Perm alts)
    (hlp : lpOn alts orders isSc s = some l) (hsat : ∀ c ∈ l.constraints, satisfies asg c = true) :
    l.preferences = orders.map (fun o => o.filter (fun c => l.cplus.contains c)) ∧
    (∀ i j (_ : i < j) (hj : j < l.axis.length), asg (.alt l.axis[i]) + 1 ≤ asg (.alt l.axis[j])) ∧
    Spec.Euclid.realises l.preferences (voterPositions asg orders.length) (altPositions asg l.axis) = true := by
  obtain ⟨hcs, _, wf⟩ := lpOn_wellFormed alts orders isSc s l halts hord hlp
  obtain ⟨g, v1, vn, _, _, _, hpr, _⟩ := lpOn_eq_some alts orders isSc s l hlp
  rw [hcs] at hsat
  obtain ⟨h1, h2⟩ := lp_sound l.preferences l.axis asg wf hsat
  have hlen : l.preferences.length = orders.length := by rw [hpr, restrictPreferences, List.length_map]
  rw [hlen] at h2
  exact ⟨hpr, h1, h2⟩

theorem lpOn_nogrey (alts : List Nat) (orders : List (List Nat)) (isSc : Bool) (s : List (List Nat))
    (l : LP) (asg : Var → Rat) (halts : alts.Nodup) (hord : ∀ o ∈ orders, o.Perm alts)
    (hlp : lpOn alts orders isSc s = some l) (hgrey : (stageOn alts isSc s).grey = [])
    (hsat : ∀ c ∈ l.constraints, satisfies asg c = true) :
    l.axis.Perm alts ∧
    Spec.Euclid.realises orders (voterPositions asg orders.length) (altPositions asg l.axis) = true := by
  obtain ⟨hcs, hperm, wf⟩ := lpOn_wellFormed alts orders isSc s l halts hord hlp
  obtain ⟨g, v1, vn, hg, hcp, _, hpr, _⟩ := lpOn_eq_some alts orders isSc s l hlp
  rw [stageOn_grey alts isSc s g hg] at hgrey
  have hfull : l.cplus = alts := hcp.trans (colouredAlts_of_no_grey alts g hgrey)
  have hprefs : l.preferences = orders := by
    rw [hpr, hfull]
    exact restrictPreferences_full orders alts (fun o ho a ha => (hord o ho).mem_iff.1 ha)
  rw [hcs] at hsat
  have h := (lp_sound l.preferences l.axis asg wf hsat).2
  rw [hprefs] at h
  exact ⟨hfull ▸ hperm, h⟩

end PrefVerif.C19
