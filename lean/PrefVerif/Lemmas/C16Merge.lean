import PrefVerif.Lemmas.IOwAList
import PrefVerif.Spec.Autocorrect
/-!
# C16 — the merge table

`Autocorrect.merged` is a left fold of `d[b] += m` over the decoded lines as long as the keys stay
distinct (they do); the fold keeps the keys distinct, adds up the multiplicities per ballot and in
total.  `stepTbl` is what one ballot line does to the pair (ballot list, multiplicity dict) in both
parsers; under autocorrect it keeps `keys = ballots`, duplicate-free.
-/
namespace PrefVerif.C16
open PrefVerif PrefVerif.Py PrefVerif.Spec PrefVerif.IOL PrefVerif.IOLw

variable {β : Type} [BEq β] [LawfulBEq β]

/-- one step of `merged` -/
def mstep (acc : List (β × Nat)) (mb : Nat × β) : List (β × Nat) :=
  if acc.any (fun e => e.1 == mb.2) then acc.map (fun e => if e.1 == mb.2 then (e.1, e.2 + mb.1) else e)
  else acc ++ [(mb.2, mb.1)]

/-- `d[b] += m` for every decoded line -/
def bumpAll (acc : AList β Nat) (lines : List (Nat × β)) : AList β Nat :=
  lines.foldl (fun d mb => AList.upd d mb.2 0 (· + mb.1)) acc

omit [LawfulBEq β] in
theorem merged_eq_foldl (lines : List (Nat × β)) : Autocorrect.merged lines = lines.foldl mstep [] := rfl

omit [LawfulBEq β] in
theorem bumpAll_nil (acc : AList β Nat) : bumpAll acc [] = acc := rfl

omit [LawfulBEq β] in
theorem bumpAll_cons (acc : AList β Nat) (mb : Nat × β) (lines : List (Nat × β)) :
    bumpAll acc (mb :: lines) = bumpAll (AList.upd acc mb.2 0 (· + mb.1)) lines := rfl

/-- on a dict with distinct keys the `merged` step is `d[b] += m` -/
theorem mstep_eq_upd (acc : List (β × Nat)) (mb : Nat × β) (hnd : (AList.keys acc).Nodup) :
    mstep acc mb = AList.upd acc mb.2 0 (· + mb.1) := by
  unfold mstep
  rw [any_eq_contains]
  cases hc : AList.contains acc mb.2 with
  | true =>
    simp only [if_true]
    exact (upd_eq_map acc mb.2 mb.1 hnd ((contains_iff_mem_keys _ _).1 hc)).symm
  | false =>
    have := (contains_eq_false_iff _ _).1 hc
    rw [upd_of_not_mem _ _ _ this, set_of_not_mem _ _ _ this]
    simp

theorem foldl_mstep (lines : List (Nat × β)) (acc : List (β × Nat)) (hnd : (AList.keys acc).Nodup) :
    lines.foldl mstep acc = bumpAll acc lines := by
  induction lines generalizing acc with
  | nil => rfl
  | cons mb lines ih =>
    simp only [List.foldl_cons, bumpAll_cons]
    rw [mstep_eq_upd _ _ hnd]
    exact ih _ (nodup_keys_upd _ _ _ _ hnd)

theorem merged_eq_bumpAll (lines : List (Nat × β)) : Autocorrect.merged lines = bumpAll [] lines := by
  rw [merged_eq_foldl, foldl_mstep _ _ (by simp [AList.keys])]

theorem bumpAll_nodup (lines : List (Nat × β)) (acc : AList β Nat) (hnd : (AList.keys acc).Nodup) :
    (AList.keys (bumpAll acc lines)).Nodup := by
  induction lines generalizing acc with
  | nil => exact hnd
  | cons mb lines ih => rw [bumpAll_cons]; exact ih _ (nodup_keys_upd _ _ _ _ hnd)

theorem bumpAll_get? (lines : List (Nat × β)) (acc : AList β Nat) (o : β) :
    (AList.get? (bumpAll acc lines) o).getD 0
      = (AList.get? acc o).getD 0 + ((lines.filter (fun mo => mo.2 == o)).map (·.1)).sum := by
  induction lines generalizing acc with
  | nil => simp [bumpAll_nil]
  | cons mb lines ih =>
    rw [bumpAll_cons, ih, get?_upd]
    cases hb : mb.2 == o <;> simp [hb] <;> omega

omit [LawfulBEq β] in
theorem bumpAll_sum (lines : List (Nat × β)) (acc : AList β Nat) :
    (AList.values (bumpAll acc lines)).sum = (AList.values acc).sum + (lines.map (·.1)).sum := by
  induction lines generalizing acc with
  | nil => simp [bumpAll_nil]
  | cons mb lines ih =>
    rw [bumpAll_cons, ih, sum_values_upd]
    simp only [List.map_cons, List.sum_cons]
    omega

/-! ## one ballot line on the pair (ballot list, multiplicity dict) -/

/-- what both parsers do with a decoded ballot line -/
def stepTbl (ac : Bool) (os : List β) (d : AList β Nat) (m : Nat) (o : β) : List β × AList β Nat :=
  if ac && AList.contains d o then (os, AList.upd d o 0 (· + m)) else (os ++ [o], AList.set d o m)

/-- under autocorrect the dict step is always `d[o] += m` -/
theorem stepTbl_snd (os : List β) (d : AList β Nat) (m : Nat) (o : β) :
    (stepTbl true os d m o).2 = AList.upd d o 0 (· + m) := by
  unfold stepTbl
  cases hc : AList.contains d o with
  | true => rfl
  | false =>
    simp only [Bool.and_false, Bool.false_eq_true, if_false]
    exact (upd_of_not_mem d o m ((contains_eq_false_iff _ _).1 hc)).symm

/-- under autocorrect the ballot list stays the duplicate-free key list of the dict -/
theorem stepTbl_inv (os : List β) (d : AList β Nat) (m : Nat) (o : β)
    (h : AList.keys d = os ∧ os.Nodup) :
    AList.keys (stepTbl true os d m o).2 = (stepTbl true os d m o).1 ∧ (stepTbl true os d m o).1.Nodup := by
  obtain ⟨hk, hnd⟩ := h
  unfold stepTbl
  cases hc : AList.contains d o with
  | true =>
    simp only [Bool.and_true, if_true]
    exact ⟨by rw [AList.upd, keys_set_of_mem _ _ _ ((contains_iff_mem_keys _ _).1 hc), hk], hnd⟩
  | false =>
    have hno := (contains_eq_false_iff _ _).1 hc
    simp only [Bool.and_false, Bool.false_eq_true, if_false]
    refine ⟨by rw [keys_set_of_not_mem _ _ _ hno, hk], ?_⟩
    have := nodup_keys_set d o m (hk ▸ hnd)
    rwa [keys_set_of_not_mem _ _ _ hno, hk] at this

/-- without autocorrect, or on a ballot not yet in the dict, the step appends -/
theorem stepTbl_of_not_mem (ac : Bool) (os : List β) (d : AList β Nat) (m : Nat) (o : β)
    (h : o ∉ AList.keys d) : stepTbl ac os d m o = (os ++ [o], AList.set d o m) := by
  unfold stepTbl
  rw [(contains_eq_false_iff _ _).2 h]
  simp

omit [LawfulBEq β] in
theorem stepTbl_false (os : List β) (d : AList β Nat) (m : Nat) (o : β) :
    stepTbl false os d m o = (os ++ [o], AList.set d o m) := by
  simp [stepTbl]

/-! ## `mapM` in `Except` -/

theorem mapM_cons_ok {α γ ε : Type} (f : α → Except ε γ) (a : α) (as : List α) (ys : List γ)
    (h : (a :: as).mapM f = .ok ys) :
    ∃ y ys', f a = .ok y ∧ as.mapM f = .ok ys' ∧ ys = y :: ys' := by
  rw [List.mapM_cons] at h
  cases hfa : f a with
  | error e => rw [hfa] at h; cases h
  | ok y =>
    cases hfs : as.mapM f with
    | error e => rw [hfa, hfs] at h; cases h
    | ok ys' =>
      rw [hfa, hfs] at h
      refine ⟨y, ys', rfl, rfl, ?_⟩
      cases h; rfl

theorem mapM_nil_ok {α γ ε : Type} (f : α → Except ε γ) (ys : List γ)
    (h : ([] : List α).mapM f = .ok ys) : ys = [] := by
  rw [List.mapM_nil] at h
  cases h; rfl

end PrefVerif.C16
