import PrefVerif.Lemmas.C06Pairs
import PrefVerif.Lemmas.C06Rules
/-! C06: the `copeland_scores` table holds the net margins; Copeland winners -/
namespace PrefVerif.C06
open PrefVerif PrefVerif.Py PrefVerif.Pairwise PrefVerif.SingleWinner PrefVerif.Spec

/-- indicator of "`x` strictly above `y` in `o`" -/
def ab (o : Order) (x y : Nat) : Int := if above o x y = true then 1 else 0

theorem copelandOrder_tbl (alts : List Nat) (hnd : alts.Nodup) (o : Order) (ho : o.flatten.Nodup)
    (m : Nat) (f : Nat → Nat → Int) :
    copelandOrder (tbl alts f) o m
      = tbl alts (fun x y => f x y + (m : Int) * (ab o x y - ab o y x)) := by
  rw [copelandOrder_eq, foldl_stepC alts hnd]
  congr 1
  funext x y
  have hc : ∀ x y, ((pairsAux [] o).count (x, y) : Int) = ab o x y := by
    intro x y
    rw [count_pairsAux o [] x y (by simpa using ho), ab]
    have := above_mem o x y
    by_cases h : above o x y = true <;> simp [h, this]
  rw [hc, hc]

theorem margin_cons (om : Order × Nat) (p : Profile) (x y : Nat) :
    margin (votes (om :: p)) x y = (om.2 : Int) * (ab om.1 x y - ab om.1 y x) + margin (votes p) x y := by
  simp only [margin, prefCount, votes_cons, List.countP_append, List.countP_replicate, ab]
  by_cases h1 : above om.1 x y = true <;> by_cases h2 : above om.1 y x = true <;> simp [h1, h2] <;> omega

theorem copelandScores_fold (alts : List Nat) (hnd : alts.Nodup) (p : Profile)
    (hp : ∀ om ∈ p, om.1.flatten.Nodup) (f : Nat → Nat → Int) :
    p.foldl (fun t om => copelandOrder t om.1 om.2) (tbl alts f)
      = tbl alts (fun x y => f x y + margin (votes p) x y) := by
  induction p generalizing f with
  | nil => simp [votes, margin, prefCount]
  | cons om p ih =>
    rw [List.foldl_cons, copelandOrder_tbl alts hnd _ (hp om (by simp)), ih (fun om' h => hp om' (by simp [h]))]
    congr 1
    funext x y
    rw [margin_cons]; omega

theorem copelandScores_tbl (alts : List Nat) (hnd : alts.Nodup) (p : Profile)
    (hp : ∀ om ∈ p, om.1.flatten.Nodup) :
    copelandScores alts p = tbl alts (fun x y => margin (votes p) x y) := by
  rw [copelandScores, initTable_eq, copelandScores_fold alts hnd p hp]
  simp

/-- entry lemma: `copeland_scores[a][b]` is the net margin of `a` over `b` -/
theorem copelandScores_entry (alts : List Nat) (hnd : alts.Nodup) (p : Profile)
    (hp : ∀ om ∈ p, om.1.flatten.Nodup) (a b : Nat) (ha : a ∈ alts) (hb : b ∈ alts) (hab : b ≠ a) :
    ((AList.get? (copelandScores alts p) a).bind (fun row => AList.get? row b))
      = some (margin (votes p) a b) := by
  rw [copelandScores_tbl alts hnd p hp, tbl, get?_map]
  simp only [ha, ↓reduceIte, Option.bind_some]
  rw [rowOf, get?_map]
  simp [hb, hab]

theorem copelandWins_eq (alts : List Nat) (hnd : alts.Nodup) (p : Profile)
    (hp : ∀ om ∈ p, om.1.flatten.Nodup) :
    copelandWins alts p = alts.map (fun x => (x, ((copelandScore alts (votes p) x : Nat) : Int))) := by
  rw [copelandWins, copelandScores_tbl alts hnd p hp, tbl, List.map_map]
  apply List.map_congr_left
  intro x _
  simp only [Function.comp_apply, rowOf, copelandScore, List.filter_map, List.length_map,
    List.filter_filter, Function.comp_def]
  congr 3
  apply List.filter_congr
  intro y _
  rw [Bool.and_comm]

theorem copeland_core (i : Inst) (hwf : wfInst i = true) :
    ∃ ws, argmaxKeys (copelandWins i.alts i.profile) = some ws ∧
      IsArgmax i.alts (copelandScore i.alts (votes i.profile)) ws := by
  obtain ⟨hand, hp, hall⟩ := (wfInst_iff i).1 hwf
  have hnd : ∀ om ∈ i.profile, om.1.flatten.Nodup :=
    fun om hom => ((wfOrder_iff _ _).1 (hall om hom).1).2.2.2
  have halts : i.alts ≠ [] := by
    cases hpr : i.profile with
    | nil => exact absurd hpr hp
    | cons om p =>
      obtain ⟨h1, h2, h3, h4⟩ := (wfOrder_iff _ _).1 (hall om (by simp [hpr])).1
      cases ho : om.1 with
      | nil => exact absurd ho h1
      | cons c o =>
        have hc := h2 c (by simp [ho])
        cases c with
        | nil => exact absurd rfl hc
        | cons a c =>
          intro e
          have := h3 a (by simp [ho])
          simp [e] at this
  rw [copelandWins_eq i.alts hand i.profile hnd]
  have hk : AList.keys (i.alts.map (fun x => (x, ((copelandScore i.alts (votes i.profile) x : Nat) : Int))))
      = i.alts := by simp [AList.keys, Function.comp_def]
  obtain ⟨ws, h1, h2⟩ := fullDict_spec selInt_max i.alts
    (fun a => ((copelandScore i.alts (votes i.profile) a : Nat) : Int))
    (i.alts.map (fun x => (x, ((copelandScore i.alts (votes i.profile) x : Nat) : Int))))
    (by rw [hk]; exact hand) (by rw [hk]; exact fun a h => h) (by rw [hk]; exact fun a h => h)
    (by intro a ha; rw [val, get?_map]; simp [ha])
    halts
  exact ⟨ws, by rw [argmaxKeys_eq]; exact h1, isArgmax_cast h2⟩

end PrefVerif.C06
