import PrefVerif.Props.Specs
import PrefVerif.Lemmas.C19LP
/-!
# C19 helper lemmas, part 3: reading `Spec.Euclid.realises` by alternatives instead of by ranks
-/
namespace PrefVerif.C19
open PrefVerif PrefVerif.Euclid PrefVerif.Spec

/-- if the positions realise the preferences, voter `i` is strictly closer to `a` than to `b`
whenever `a` comes before `b` in the voter's ranking -/
theorem closer_of_realises (prefs : List (List Nat)) (voters : List Rat) (alts : List (Nat × Rat))
    (h : Spec.Euclid.realises prefs voters alts = true) (i : Nat) (hi : i < prefs.length)
    (hv : i < voters.length) (a b : Nat) (hb : b ∈ prefs[i])
    (hlt : prefs[i].idxOf a < prefs[i].idxOf b) (ya yb : Rat)
    (hya : alts.lookup a = some ya) (hyb : alts.lookup b = some yb) :
    Euclid.dist voters[i] ya < Euclid.dist voters[i] yb := by
  obtain ⟨_, h2⟩ := (Specs.realises_iff prefs voters alts).1 h
  have hk : prefs[i].idxOf b < prefs[i].length := List.idxOf_lt_length_iff.2 hb
  refine (h2 i hi hv).2 (prefs[i].idxOf a) (prefs[i].idxOf b) hlt hk ya yb ?_ ?_
  · rw [List.getElem_idxOf]; exact hya
  · rw [List.getElem_idxOf]; exact hyb

theorem idxOf_ne_of_ne (l : List Nat) (a b : Nat) (ha : a ∈ l) (hb : b ∈ l) (hne : a ≠ b) :
    l.idxOf a ≠ l.idxOf b := by
  intro e
  have h1 := List.getElem_idxOf (List.idxOf_lt_length_iff.2 ha)
  have h2 := List.getElem_idxOf (List.idxOf_lt_length_iff.2 hb)
  apply hne
  rw [← h1, ← h2]
  simp only [e]

end PrefVerif.C19
