import PrefVerif.Model.Euclid
import PrefVerif.Lemmas.C19Rat
/-!
# C19 helper lemmas, part 2: which constraints `lpConstraints` contains and what they say
-/
namespace PrefVerif.C19
open PrefVerif PrefVerif.Euclid

theorem mem_combos2_of_idxOf_lt (l : List Nat) (a b : Nat) (ha : a ∈ l) (hb : b ∈ l)
    (h : l.idxOf a < l.idxOf b) : (a, b) ∈ combos2 l := by
  induction l with
  | nil => simp at ha
  | cons c rest ih =>
    rw [combos2, List.mem_append]
    by_cases hca : c = a
    · subst hca
      have hbc : b ≠ c := by
        intro e; subst e; simp at h
      left
      rcases List.mem_cons.1 hb with e | hb'
      · exact absurd e hbc
      · exact List.mem_map.2 ⟨b, hb', rfl⟩
    · have ha' : a ∈ rest := by
        rcases List.mem_cons.1 ha with e | h'
        · exact absurd e.symm hca
        · exact h'
      have hcb : c ≠ b := by
        intro e; subst e; simp at h
      have hb' : b ∈ rest := by
        rcases List.mem_cons.1 hb with e | h'
        · exact absurd e.symm hcb
        · exact h'
      right
      apply ih ha' hb'
      rw [List.idxOf_cons, List.idxOf_cons] at h
      have e1 : (c == a) = false := by simpa using hca
      have e2 : (c == b) = false := by simpa using hcb
      rw [e1, e2] at h
      simp only [cond_false] at h
      omega

/-- the pairs of `combos2` are in list order -/
theorem combos2_getElem (l : List Nat) (a b : Nat) (h : (a, b) ∈ combos2 l) :
    ∃ i j, ∃ (_ : i < j) (hj : j < l.length), l[i] = a ∧ l[j] = b := by
  induction l with
  | nil => simp [combos2] at h
  | cons c rest ih =>
    rw [combos2, List.mem_append] at h
    rcases h with h | h
    · obtain ⟨b', hb', e⟩ := List.mem_map.1 h
      cases e
      obtain ⟨j, hj, e⟩ := List.getElem_of_mem hb'
      exact ⟨0, j + 1, by omega, by simp; omega, by simp, by simpa using e⟩
    · obtain ⟨i, j, hij, hj, e1, e2⟩ := ih h
      exact ⟨i + 1, j + 1, by omega, by simp; omega, by simpa using e1, by simpa using e2⟩

theorem mem_lpPairs (axis : List Nat) (a b : Nat) (ha : a ∈ axis) (hb : b ∈ axis)
    (h : axis.idxOf a < axis.idxOf b) : (a, b) ∈ lpPairs axis := by
  unfold lpPairs
  rw [List.mem_filter]
  exact ⟨mem_combos2_of_idxOf_lt axis a b ha hb h, by simp only [idx]; exact decide_eq_true h⟩

theorem lpPairs_getElem (axis : List Nat) (a b : Nat) (h : (a, b) ∈ lpPairs axis) :
    ∃ i j, ∃ (_ : i < j) (hj : j < axis.length), axis[i] = a ∧ axis[j] = b :=
  combos2_getElem axis a b (List.mem_filter.1 h).1

theorem axisConstr_mem (prefs : List (List Nat)) (axis : List Nat) (a b : Nat)
    (h : (a, b) ∈ lpPairs axis) : axisConstr a b ∈ lpConstraints prefs axis := by
  unfold lpConstraints
  exact List.mem_flatMap.2 ⟨(a, b), h, by simp [pairConstrs]⟩

theorem voterConstr_mem (prefs : List (List Nat)) (axis : List Nat) (a b : Nat)
    (h : (a, b) ∈ lpPairs axis) (i : Nat) (hi : i < prefs.length) :
    voterConstr i prefs[i] a b ∈ lpConstraints prefs axis := by
  unfold lpConstraints
  refine List.mem_flatMap.2 ⟨(a, b), h, ?_⟩
  unfold pairConstrs
  refine List.mem_cons_of_mem _ (List.mem_map.2 ⟨(prefs[i], i), ?_, rfl⟩)
  rw [List.mem_zipIdx_iff_getElem?]
  simp [hi]

/-- every generated constraint is an axis constraint or a voter constraint of an axis pair -/
theorem mem_lpConstraints (prefs : List (List Nat)) (axis : List Nat) (c : Constr)
    (h : c ∈ lpConstraints prefs axis) :
    ∃ a b, (a, b) ∈ lpPairs axis ∧
      (c = axisConstr a b ∨ ∃ i, ∃ (hi : i < prefs.length), c = voterConstr i prefs[i] a b) := by
  unfold lpConstraints at h
  obtain ⟨⟨a, b⟩, hab, hc⟩ := List.mem_flatMap.1 h
  refine ⟨a, b, hab, ?_⟩
  unfold pairConstrs at hc
  rcases List.mem_cons.1 hc with e | hc
  · exact Or.inl e
  · obtain ⟨⟨p, i⟩, hpi, e⟩ := List.mem_map.1 hc
    rw [List.mem_zipIdx_iff_getElem?] at hpi
    obtain ⟨hi, e'⟩ := List.getElem?_eq_some_iff.1 hpi
    simp only at hi e'
    exact Or.inr ⟨i, hi, by rw [← e, e']⟩

theorem satisfies_axisConstr (asg : Var → Rat) (a b : Nat) :
    satisfies asg (axisConstr a b) = true ↔ asg (.alt a) + 1 ≤ asg (.alt b) := by
  simp only [satisfies, axisConstr, eval, List.map_cons, List.map_nil, List.sum_cons, List.sum_nil,
    decide_eq_true_eq]
  constructor <;> intro h <;> grind

theorem satisfies_voterLeft (asg : Var → Rat) (i a b : Nat) :
    satisfies asg (voterLeft i a b) = true ↔ asg (.voter i) + 1 ≤ (asg (.alt a) + asg (.alt b)) / 2 := by
  simp only [satisfies, voterLeft, eval, List.map_cons, List.map_nil, List.sum_cons, List.sum_nil,
    decide_eq_true_eq]
  constructor <;> intro h <;> grind

theorem satisfies_voterRight (asg : Var → Rat) (i a b : Nat) :
    satisfies asg (voterRight i a b) = true ↔ asg (.voter i) ≥ (asg (.alt b) + asg (.alt a)) / 2 + 1 := by
  simp only [satisfies, voterRight, eval, List.map_cons, List.map_nil, List.sum_cons, List.sum_nil,
    decide_eq_true_eq]
  constructor <;> intro h <;> grind

theorem lookup_axis_map (axis : List Nat) (x : Nat → Rat) (a : Nat) (ha : a ∈ axis) :
    (axis.map (fun a => (a, x a))).lookup a = some (x a) := by
  induction axis with
  | nil => simp at ha
  | cons c rest ih =>
    rw [List.map_cons, List.lookup_cons]
    by_cases hac : a = c
    · subst hac; simp
    · have : (a == c) = false := by simpa using hac
      rw [this]
      rcases List.mem_cons.1 ha with e | h'
      · exact absurd e hac
      · exact ih h'

end PrefVerif.C19
