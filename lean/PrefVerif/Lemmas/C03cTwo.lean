import PrefVerif.Lemmas.C03cRound
import PrefVerif.Lemmas.C03cStepTwo
/-!
# C03 completeness, part 6: two last candidates

Both last candidates are at the ends of the block `M` of any single-peaked axis `T ++ L ++ M ++ R`.
A voter of Case 2(c) forces which one is next to `x_i`; when no voter does, `M` is ranked above
everything placed by every voter and may be reflected; two voters forcing opposite placements
exclude every axis; a voter of Case 2(d) forces the whole order of `M`.
-/
namespace PrefVerif.C03c
open PrefVerif PrefVerif.ELO PrefVerif.Spec PrefVerif.C03

section
variable {alts : List Nat} {orders : List (List Nat)} {s : State} {popped : List (List Nat × Nat)}
  {M : List Nat}

/-- a voter of Case 2(c) determines the two ends of `M` -/
theorem force_shape (R : Round alts orders s popped M) {a b xi xj : Nat} {o : List Nat} (hab : a ≠ b)
    (ha : ∃ r ∈ popped, r.2 = a) (hb : ∃ r ∈ popped, r.2 = b)
    (hlast : ∀ r ∈ popped, r.2 = a ∨ r.2 = b) (hxi : xi ∈ s.tal ++ s.left) (hxj : xj ∈ s.right)
    (hoo : o ∈ orders) (hf : ForceLR xi xj o a b) : ∃ M'', M = a :: (M'' ++ [b]) := by
  obtain ⟨ra, hra, ea⟩ := ha
  obtain ⟨rb, hrb, eb⟩ := hb
  have hae := R.at_end hra
  have hbe := R.at_end hrb
  have haM := R.last_mem hra
  have hbM := R.last_mem hrb
  rw [ea] at hae haM
  rw [eb] at hbe hbM
  have shape := two_ends hab hae hbe
  obtain ⟨r, hr, hw⟩ := R.voter_worst hoo
  rcases hf with ⟨h1, h2⟩ | ⟨h1, h2⟩
  · have hra' : r.2 = a := by
      rcases hlast r hr with e | e
      · exact e
      · exfalso; rw [e] at hw; exact lt_asymm (hw a haM hab) h1
    rw [hra'] at hw
    obtain ⟨M1, hM1⟩ := worst_at_head (z := xj) (R.hV o hoo) R.nodup haM hw hxj h2
    rcases shape with h | ⟨M'', h⟩
    · exact h
    · rw [hM1] at h; simp only [List.cons.injEq] at h; exact absurd h.1 hab
  · have hrb' : r.2 = b := by
      rcases hlast r hr with e | e
      · exfalso; rw [e] at hw; exact lt_asymm (hw b hbM (fun e => hab e.symm)) h1
      · exact e
    rw [hrb'] at hw
    obtain ⟨M1, hM1⟩ := worst_at_last (z := xi) (R.hV o hoo) R.nodup hbM hw hxi h2
    rcases shape with h | ⟨M'', h⟩
    · exact h
    · exfalso
      rw [hM1] at h
      have := List.append_inj' (s₁ := M1) (t₁ := [b]) (s₂ := b :: M'') (t₂ := [a]) (by simpa using h) rfl
      simp only [List.cons.injEq, and_true] at this
      exact hab this.2.symm

/-- the placement of the two candidates preserves the existential invariant -/
theorem place_two (R : Round alts orders s popped M) {a b xi xj : Nat} {L0 R0 : List Nat} (hab : a ≠ b)
    (ha : ∃ r ∈ popped, r.2 = a) (hb : ∃ r ∈ popped, r.2 = b)
    (hlast : ∀ r ∈ popped, r.2 = a ∨ r.2 = b) (hl : s.left = L0 ++ [xi]) (hr : s.right = xj :: R0)
    (hF : ∀ o ∈ orders, Full o s)
    (reason : (∀ o ∈ orders, lt o a xi ∧ lt o a xj ∧ lt o b xi ∧ lt o b xj) ∨
      ∃ o ∈ orders, ForceLR xi xj o a b) :
    Ex alts orders s.tal (s.left ++ [a]) (b :: s.right) := by
  rcases reason with hall | ⟨o, hoo, hf⟩
  · obtain ⟨ra, hra, ea⟩ := ha
    obtain ⟨rb, hrb, eb⟩ := hb
    have hae := R.at_end hra
    have hbe := R.at_end hrb
    rw [ea] at hae
    rw [eb] at hbe
    rcases two_ends hab hae hbe with ⟨M'', rfl⟩ | ⟨M'', rfl⟩
    · exact Ex.of_eq M'' (by simp) R.hM R.hV
    · have habove : ∀ o ∈ orders, ∀ m ∈ b :: (M'' ++ [a]), lt o m xi ∧ lt o m xj := by
        intro o hoo
        obtain ⟨r, hr', hw⟩ := R.voter_worst hoo
        obtain ⟨h1, h2, h3, h4⟩ := hall o hoo
        rcases hlast r hr' with e | e <;> rw [e] at hw
        · exact all_above_of_worst hw h1 h2
        · exact all_above_of_worst hw h3 h4
      obtain ⟨hM2, hV2⟩ := reflect_valid R.hM R.hV
        (fun o hoo => above_some (hF o hoo) hl hr (habove o hoo))
      exact Ex.of_eq M''.reverse (by simp) hM2 hV2
  · obtain ⟨M'', rfl⟩ := force_shape R hab ha hb hlast (by rw [hl]; simp) (by rw [hr]; simp) hoo hf
    exact Ex.of_eq M'' (by simp) R.hM R.hV

variable {x y : Nat}

/-- the iteration continues: the existential invariant is preserved -/
theorem complete_two_fin {s' : State} (R : Round alts orders s popped M) (hxy : x ≠ y)
    (hlast : ∀ r ∈ popped, r.2 = x ∨ r.2 = y) (hx : ∃ r ∈ popped, r.2 = x)
    (hy : ∃ r ∈ popped, r.2 = y) (hE : EndsOk s) (hF : ∀ o ∈ orders, Full o s)
    (h : stepTwo orders { s with prefs := (popped.map (·.1)).map (fun p => (p.erase x).erase y) } x y
      = .fin s') :
    Ex alts orders s'.tal s'.left s'.right := by
  have hpne : popped ≠ [] := by
    obtain ⟨r, hr, _⟩ := hx
    exact List.ne_nil_of_mem hr
  cases hends : s.ends with
  | none =>
    have := stepTwo_fin_none
      (s := { s with prefs := (popped.map (·.1)).map (fun p => (p.erase x).erase y) }) hends h
    subst this
    rw [EndsOk, hends] at hE
    obtain ⟨hl, hr⟩ := hE
    obtain ⟨rx, hrx, ex⟩ := hx
    obtain ⟨ry, hry, ey⟩ := hy
    have hxe := R.at_end hrx
    have hye := R.at_end hry
    rw [ex] at hxe
    rw [ey] at hye
    have hM := R.hM
    have hV := R.hV
    rcases two_ends hxy hxe hye with ⟨M'', rfl⟩ | ⟨M'', rfl⟩
    · exact Ex.of_eq M'' (by simp) hM hV
    · obtain ⟨hM2, hV2⟩ := reflect_valid hM hV
        (fun o hoo => above_none (hF o hoo) hl hr (fun m hm => R.memM hpne hm))
      exact Ex.of_eq M''.reverse (by simp) hM2 hV2
  | some e =>
    obtain ⟨xi, xj⟩ := e
    rw [EndsOk, hends] at hE
    obtain ⟨⟨L0, hl⟩, ⟨R0, hr⟩⟩ := hE
    obtain ⟨a, b, hnames, hs', reason⟩ := stepTwo_some_fin
      (s := { s with prefs := (popped.map (·.1)).map (fun p => (p.erase x).erase y) }) hxy hends h
    subst hs'
    rcases hnames with ⟨rfl, rfl⟩ | ⟨rfl, rfl⟩
    · exact place_two R hxy hx hy hlast hl hr hF reason
    · refine place_two R (fun e => hxy e.symm) hy hx (fun r hr' => (hlast r hr').symm) hl hr hF ?_
      rcases reason with hall | hf
      · exact Or.inl fun o hoo => ⟨(hall o hoo).2.2.1, (hall o hoo).2.2.2, (hall o hoo).1, (hall o hoo).2.1⟩
      · exact Or.inr hf

/-! ### Case 2(d) -/

theorem filter_unplaced_perm {o : List Nat} (hn : alts.Nodup) (ho : o.Perm alts)
    (H : (s.tal ++ s.left ++ M ++ s.right).Perm alts) : (o.filter (fun c => !placed s c)).Perm M := by
  have h1 := (ho.trans H.symm).filter (fun c => !placed s c)
  rw [List.filter_append, List.filter_append, List.filter_append] at h1
  have e1 : s.tal.filter (fun c => !placed s c) = [] := by
    rw [List.filter_eq_nil_iff]; intro a ha; simp [placed, ha]
  have e2 : s.left.filter (fun c => !placed s c) = [] := by
    rw [List.filter_eq_nil_iff]; intro a ha; simp [placed, ha]
  have e3 : s.right.filter (fun c => !placed s c) = [] := by
    rw [List.filter_eq_nil_iff]; intro a ha; simp [placed, ha]
  have e4 : M.filter (fun c => !placed s c) = M := by
    rw [List.filter_eq_self]; intro a ha
    obtain ⟨h1, h2, h3⟩ := pref_disjoint hn H ha
    simp [placed, h1, h2, h3]
  rw [e1, e2, e3, e4] at h1
  simpa using h1

/-- a list ranked in worsening order by `o` is `o` restricted to its members -/
theorem filter_eq_of_asc {o : List Nat} (hn : alts.Nodup) (ho : o.Perm alts)
    (H : (s.tal ++ s.left ++ M ++ s.right).Perm alts) (hA : Asc o M) :
    o.filter (fun c => !placed s c) = M := by
  have hf : Asc o (o.filter (fun c => !placed s c)) :=
    (nodup_pairwise_idxOf (ho.symm.nodup hn)).sublist List.filter_sublist
  exact List.Perm.eq_of_pairwise (fun a b _ _ h1 h2 => (lt_asymm h1 h2).elim) hf hA
    (filter_unplaced_perm hn ho H)

/-- Case 2(d) Reverse: `x_i > y' > x'` for voter `o`: the axis built from `o` is the valid axis -/
theorem case2d_axis_false (R : Round alts orders s popped M) {x' y' xi : Nat} {L0 : List Nat}
    {o : List Nat} (hx'y' : x' ≠ y') (hx' : ∃ r ∈ popped, r.2 = x') (hy' : ∃ r ∈ popped, r.2 = y')
    (hl : s.left = L0 ++ [xi]) (hoo : o ∈ orders) (h1 : lt o xi y') (h2 : lt o y' x') :
    case2dAxis s o false = s.tal ++ s.left ++ M ++ s.right := by
  obtain ⟨rx, hrx, ex⟩ := hx'
  obtain ⟨ry, hry, ey⟩ := hy'
  have hxe := R.at_end hrx
  have hye := R.at_end hry
  rw [ex] at hxe
  rw [ey] at hye
  have hV := R.hV o hoo
  have hnd := R.nodup
  have hMo : ∀ m ∈ M, m ∈ o := fun m hm => R.mem_order hm hoo
  have hxiA : xi ∈ s.tal ++ s.left := by rw [hl]; simp
  have hA : Asc o M := by
    rcases two_ends hx'y' hxe hye with ⟨M'', hM⟩ | ⟨M'', hM⟩
    · exfalso
      subst hM
      rw [hl] at hV
      exact hV (s.tal ++ (L0 ++ [xi])) x' (M'' ++ [y'] ++ s.right) xi y' (by simp) (by simp) (by simp)
        ⟨lt_trans h1 h2, h2⟩
    · subst hM
      exact asc_of_left_above hV hnd hMo hxiA (head_best hV hnd hMo hxiA h1)
  simp only [case2dAxis, Bool.false_eq_true, if_false]
  rw [filter_eq_of_asc R.hn (R.ho o hoo) R.hM hA]

/-- Case 2(d): `x_j > y' > x'` for voter `o`: the axis built from `o` (reversed) is the valid axis -/
theorem case2d_axis_true (R : Round alts orders s popped M) {x' y' xj : Nat} {R0 : List Nat}
    {o : List Nat} (hx'y' : x' ≠ y') (hx' : ∃ r ∈ popped, r.2 = x') (hy' : ∃ r ∈ popped, r.2 = y')
    (hr : s.right = xj :: R0) (hoo : o ∈ orders) (h1 : lt o xj y') (h2 : lt o y' x') :
    case2dAxis s o true = s.tal ++ s.left ++ M ++ s.right := by
  obtain ⟨rx, hrx, ex⟩ := hx'
  obtain ⟨ry, hry, ey⟩ := hy'
  have hxe := R.at_end hrx
  have hye := R.at_end hry
  rw [ex] at hxe
  rw [ey] at hye
  have hV := R.hV o hoo
  have hnd := R.nodup
  have hMo : ∀ m ∈ M, m ∈ o := fun m hm => R.mem_order hm hoo
  have hxjB : xj ∈ s.right := by rw [hr]; simp
  have hD : Desc o M := by
    rcases two_ends hx'y' hxe hye with ⟨M'', hM⟩ | ⟨M'', hM⟩
    · subst hM
      have hV' : NoValley o (s.tal ++ s.left ++ ((x' :: M'') ++ [y']) ++ s.right) := by simpa using hV
      have hnd' : ((x' :: M'') ++ [y']).Nodup := by simpa using hnd
      have hMo' : ∀ m ∈ (x' :: M'') ++ [y'], m ∈ o := fun m hm => hMo m (by simpa using hm)
      have := desc_of_right_above hV' hnd' hMo' hxjB (last_best hV' hnd' hMo' hxjB h1)
      simpa using this
    · exfalso
      subst hM
      exact hV (s.tal ++ s.left ++ y' :: M'') x' s.right y' xj (by simp) (by simp) hxjB
        ⟨h2, lt_trans h1 h2⟩
  have hA : Asc o M.reverse := by
    unfold Asc; rw [List.pairwise_reverse]; exact hD
  have hMrev : (s.tal ++ s.left ++ M.reverse ++ s.right).Perm alts :=
    (((List.Perm.refl _).append (List.reverse_perm M)).append (List.Perm.refl _)).trans R.hM
  simp only [case2dAxis, if_true]
  rw [filter_eq_of_asc R.hn (R.ho o hoo) hMrev hA, List.reverse_reverse]

/-- a `break` of the two-candidates step never yields `False` when a single-peaked axis exists -/
theorem complete_two_brk {e : Exit} (R : Round alts orders s popped M) (hrk : Rankings alts orders)
    (hxy : x ≠ y) (hlast : ∀ r ∈ popped, r.2 = x ∨ r.2 = y) (hx : ∃ r ∈ popped, r.2 = x)
    (hy : ∃ r ∈ popped, r.2 = y) (hE : EndsOk s)
    (h : stepTwo orders { s with prefs := (popped.map (·.1)).map (fun p => (p.erase x).erase y) } x y
      = .brk e) :
    e.result.1 = true := by
  cases hends : s.ends with
  | none =>
    exfalso
    obtain ⟨prefs, tal, left, right, ends⟩ := s
    simp only at hends; subst hends
    simp [stepTwo] at h
  | some e' =>
    obtain ⟨xi, xj⟩ := e'
    rw [EndsOk, hends] at hE
    obtain ⟨⟨L0, hl⟩, ⟨R0, hr⟩⟩ := hE
    have hxi : xi ∈ s.tal ++ s.left := by rw [hl]; simp
    have hxj : xj ∈ s.right := by rw [hr]; simp
    have hok : axisTest orders (s.tal ++ s.left ++ M ++ s.right) = true :=
      (axisTest_iff hrk R.hM).2 ((valid_iff_SPOnAxis hrk R.hM).2 R.hV)
    rcases stepTwo_some_brk
      (s := { s with prefs := (popped.map (·.1)).map (fun p => (p.erase x).erase y) }) hxy hends h with
      ⟨_, o1, ho1, o2, ho2, w, u, hwu, hf1, hf2⟩ | ⟨o, hoo, x', y', hnames, h2d⟩
    · exfalso
      have key : ∀ a b, a ≠ b → (∃ r ∈ popped, r.2 = a) → (∃ r ∈ popped, r.2 = b) →
          (∀ r ∈ popped, r.2 = a ∨ r.2 = b) → ForceLR xi xj o1 a b → ForceLR xi xj o2 b a → False := by
        intro a b hab ha hb hl' g1 g2
        obtain ⟨M1, hM1⟩ := force_shape R hab ha hb hl' hxi hxj ho1 g1
        obtain ⟨M2, hM2⟩ := force_shape R (fun e => hab e.symm) hb ha (fun r hr' => (hl' r hr').symm)
          hxi hxj ho2 g2
        rw [hM1] at hM2
        simp only [List.cons.injEq] at hM2
        exact hab hM2.1
      rcases hwu with ⟨rfl, rfl⟩ | ⟨rfl, rfl⟩
      · exact key _ _ hxy hx hy hlast hf1 hf2
      · exact key _ _ (fun e => hxy e.symm) hy hx (fun r hr' => (hlast r hr').symm) hf1 hf2
    · have hx'y' : x' ≠ y' ∧ (∃ r ∈ popped, r.2 = x') ∧ (∃ r ∈ popped, r.2 = y') := by
        rcases hnames with ⟨rfl, rfl⟩ | ⟨rfl, rfl⟩
        · exact ⟨hxy, hx, hy⟩
        · exact ⟨fun e => hxy e.symm, hy, hx⟩
      obtain ⟨hne, hx', hy'⟩ := hx'y'
      rcases h2d with ⟨he, h1, h2⟩ | ⟨he, h1, h2⟩
      · have hax : case2dAxis { s with prefs := (popped.map (·.1)).map (fun p => (p.erase x).erase y) } o
            false = s.tal ++ s.left ++ M ++ s.right := case2d_axis_false R hne hx' hy' hl hoo h1 h2
        rw [he, hax, hok]; rfl
      · have hax : case2dAxis { s with prefs := (popped.map (·.1)).map (fun p => (p.erase x).erase y) } o
            true = s.tal ++ s.left ++ M ++ s.right := case2d_axis_true R hne hx' hy' hr hoo h1 h2
        rw [he, hax, hok]; rfl

end

end PrefVerif.C03c
