import PrefVerif.Lemmas.C06Tot
/-! C06: plurality, k-approval, veto as counting rules -/
namespace PrefVerif.C06
open PrefVerif PrefVerif.Py PrefVerif.SingleWinner PrefVerif.Spec

theorem isArgmax_cast {alts : List Nat} {f : Nat → Nat} {ws : List Nat}
    (h : ∀ a, a ∈ ws ↔ (a ∈ alts ∧ ∀ b ∈ alts, ((f b : Nat) : Int) ≤ ((f a : Nat) : Int))) :
    IsArgmax alts f ws := by
  intro a; rw [h a]; simp only [Int.ofNat_le]

theorem isArgmin_cast {alts : List Nat} {f : Nat → Nat} {ws : List Nat}
    (h : ∀ a, a ∈ ws ↔ (a ∈ alts ∧ ∀ b ∈ alts, ((f a : Nat) : Int) ≤ ((f b : Nat) : Int))) :
    IsArgmin alts f ws := by
  intro a; rw [h a]; simp only [Int.ofNat_le]

/-- a `defaultdict(int)` filled by `scores[x] += mult` over per-ballot chunks -/
theorem countRule_spec (alts : List Nat) (p : Profile) (chunk : Order × Nat → List (Nat × Int))
    (pred : Order → Nat → Bool) (hne : p.flatMap chunk ≠ [])
    (hkeys : ∀ om ∈ p, ∀ x ∈ chunk om, x.1 ∈ alts ∧ 0 < x.2)
    (htot : ∀ om ∈ p, ∀ a, tot (chunk om) a = if pred om.1 a then (om.2 : Int) else 0) :
    ∃ ws, argmaxKeys (applyIncs [] (p.flatMap chunk)) = some ws ∧
      IsArgmax alts (fun a => (votes p).countP (fun o => pred o a)) ws := by
  have hx : ∀ x ∈ p.flatMap chunk, x.1 ∈ alts ∧ 0 < x.2 := by
    intro x hx
    obtain ⟨om, hom, hx⟩ := List.mem_flatMap.1 hx
    exact hkeys om hom x hx
  obtain ⟨ws, h1, h2⟩ := posDict_spec selInt_max alts
    (fun a => (((votes p).countP (fun o => pred o a) : Nat) : Int)) (applyIncs [] (p.flatMap chunk))
    (nodup_keys_applyIncs _ _ (by simp [AList.keys]))
    (by
      intro a ha
      rcases (mem_keys_applyIncs _ _ _).1 ha with h | h
      · simp [AList.keys] at h
      · obtain ⟨x, hx', rfl⟩ := List.mem_map.1 h
        exact (hx x hx').1)
    (by
      intro a
      rw [val_applyIncs_int, tot_flatMap_countP chunk (fun o => pred o a) a p (fun om hom => htot om hom a)]
      simp [val, get?_nil])
    (by
      have := applyIncs_inv (fun v : Int => 0 < v) (p.flatMap chunk) []
        (fun x h => by have := (hx x h).2; omega) (fun v hv x h => by have := (hx x h).2; omega)
        (by simp)
      intro q hq; have := this q hq; omega)
    (applyIncs_ne_nil _ _ (Or.inl hne))
  exact ⟨ws, by rw [argmaxKeys_eq]; exact h1, isArgmax_cast h2⟩

theorem pluralityScores_eq (p : Profile) :
    pluralityScores p
      = applyIncs [] (p.flatMap (fun om => (om.1.headD []).map (fun a => (a, (om.2 : Int))))) := by
  simp only [pluralityScores, applyIncs, List.foldl_flatMap, List.foldl_map]

theorem plurality_core (i : Inst) (hwf : wfInst i = true) :
    ∃ ws, argmaxKeys (pluralityScores i.profile) = some ws ∧
      IsArgmax i.alts (pluralityScore (votes i.profile)) ws := by
  obtain ⟨_, hp, hall⟩ := (wfInst_iff i).1 hwf
  rw [pluralityScores_eq]
  apply countRule_spec i.alts i.profile _ (fun o a => (o.headD []).contains a)
  · cases hpr : i.profile with
    | nil => exact absurd hpr hp
    | cons om p =>
      have := (head_mem_of_wf (hall om (by simp [hpr])).1).1
      simp only [List.flatMap_cons, ne_eq, List.append_eq_nil_iff, List.map_eq_nil_iff, not_and]
      intro h; exact absurd h this
  · intro om hom x hx
    obtain ⟨a, ha, rfl⟩ := List.mem_map.1 hx
    have := hall om hom
    exact ⟨(head_mem_of_wf this.1).2.1 a ha, by simp; omega⟩
  · intro om hom a
    rw [tot_map_const_int _ _ _ (head_mem_of_wf (hall om hom).1).2.2]
    simp only [List.contains_iff_mem]

theorem truthful_mem {i : Inst} (ht : i.dataType = typeOf i.alts i.profile) :
    ordinal4.contains i.dataType = true := by
  rw [List.contains_iff_mem, ht]; exact typeOf_mem _ _

theorem truthful_mem' {i : Inst} (ht : i.dataType = typeOf i.alts i.profile) :
    (ordinal4 ++ ["cat"]).contains i.dataType = true := by
  rw [List.contains_iff_mem, ht]; exact List.mem_append_left _ (typeOf_mem _ _)

end PrefVerif.C06
