import PrefVerif.Lemmas.C05PQSimplifyFr
import PrefVerif.Lemmas.C05PQPerm
/-!
Soundness of `set_contiguous`, part 1: the notions (`Flat`, `RootSettled`, `PASpec`, `ChildS`) and the
generic facts about `P`/`Q` nodes whose children are without `v` except for one block.
-/
set_option linter.unusedSimpArgs false
namespace PrefVerif.PQTree
open Tree

/-! ### flat trees: every node has at least two children (what `_flatten` returns) -/

mutual
def Flat : Tree → Prop
  | .leaf _ => True
  | .p cs => 2 ≤ cs.length ∧ FlatList cs
  | .q cs => 2 ≤ cs.length ∧ FlatList cs
def FlatList : List Tree → Prop
  | [] => True
  | c :: cs => Flat c ∧ FlatList cs
end

theorem flatList_iff (cs : List Tree) : FlatList cs ↔ ∀ c ∈ cs, Flat c := by
  induction cs with
  | nil => simp [FlatList]
  | cons c cs ih => simp [FlatList, ih]

theorem flat_p (cs : List Tree) : Flat (.p cs) ↔ 2 ≤ cs.length ∧ ∀ c ∈ cs, Flat c := by
  simp [Flat, flatList_iff]
theorem flat_q (cs : List Tree) : Flat (.q cs) ↔ 2 ≤ cs.length ∧ ∀ c ∈ cs, Flat c := by
  simp [Flat, flatList_iff]
@[simp] theorem flat_leaf (s : List Nat) : Flat (.leaf s) := by simp [Flat]

theorem Flat.wf {t : Tree} (h : Flat t) : WF t := by
  induction t using Tree.ind with
  | hleaf s => simp
  | hp cs ih =>
    obtain ⟨h2, hall⟩ := (flat_p cs).1 h
    exact (wf_p cs).2 ⟨by intro hn; simp [hn] at h2, fun c hc => ih c hc (hall c hc)⟩
  | hq cs ih =>
    obtain ⟨h2, hall⟩ := (flat_q cs).1 h
    exact (wf_q cs).2 ⟨by intro hn; simp [hn] at h2, fun c hc => ih c hc (hall c hc)⟩

theorem flat_flattenRet {t : Tree} (h : WF t) : Flat (flattenRet t) := by
  induction t using Tree.ind with
  | hleaf s => simp [flattenRet]
  | hp cs ih =>
    obtain ⟨hne, hall⟩ := (wf_p cs).1 h
    match cs, hne, ih, hall with
    | [c], _, ih, hall => simpa [flattenRet] using ih c (List.mem_singleton.2 rfl) (hall c (List.mem_singleton.2 rfl))
    | c1 :: c2 :: cs, _, ih, hall =>
      simp only [flattenRet, flat_p, flattenRetList_eq_map]
      refine ⟨by simp, ?_⟩
      intro c hc
      obtain ⟨c', hc', rfl⟩ := List.mem_map.1 hc
      exact ih c' hc' (hall c' hc')
  | hq cs ih =>
    obtain ⟨hne, hall⟩ := (wf_q cs).1 h
    match cs, hne, ih, hall with
    | [c], _, ih, hall => simpa [flattenRet] using ih c (List.mem_singleton.2 rfl) (hall c (List.mem_singleton.2 rfl))
    | c1 :: c2 :: cs, _, ih, hall =>
      simp only [flattenRet, flat_q, flattenRetList_eq_map]
      refine ⟨by simp, ?_⟩
      intro c hc
      obtain ⟨c', hc', rfl⟩ := List.mem_map.1 hc
      exact ih c' hc' (hall c' hc')

theorem flattenChildren_of_two {cs : List Tree} (h : 2 ≤ cs.length) : flattenChildren cs = cs.map flattenRet := by
  match cs, h with
  | c1 :: c2 :: cs, _ => simp [flattenChildren, flattenRetList_eq_map]

/-! ### the invariants -/

/-- a `P` root is full of `v` or has a child without `v` -/
def RootSettled (v : Nat) (t : Tree) : Prop := ∀ cs, t = .p cs → AllV v t ∨ ∃ c ∈ cs, VFree v c

theorem rootSettled_q (v : Nat) (cs : List Tree) : RootSettled v (.q cs) := by
  intro cs' h; cases h
theorem rootSettled_leaf (v : Nat) (s : List Nat) : RootSettled v (.leaf s) := by
  intro cs' h; cases h

/-- what a `(PARTIAL, ALIGNED)` tree looks like to its parent: it is recognised as partial by `simplify`,
and `simplify` turns it into trees without `v` followed by trees full of `v` -/
def PASpec (v : Nat) (t : Tree) : Prop := synPartial v t = true ∧ Pure v (simplify v true t)

/-- what the second pass of `set_contiguous` guarantees about a child and its flag -/
structure ChildS (v : Nat) (c : Tree) (f : Flag) : Prop where
  ok : ChildOK v c f
  nd : (frontier c).Nodup
  part : (f = .partialAligned ∨ f = .partialUnaligned) → (∃ s ∈ frontier c, v ∈ s) ∧ (∃ s ∈ frontier c, v ∉ s)
  seg : ∀ g, Fr c g → VSeg v g
  pa : f = .partialAligned → PASpec v c

theorem ChildS.allV {v : Nat} {c : Tree} (h : ChildS v c .full) : AllV v c := h.ok.full rfl
theorem ChildS.vfree {v : Nat} {c : Tree} (h : ChildS v c .empty) : VFree v c := h.ok.empty rfl

theorem ChildS.flag_of_vfree {v : Nat} {c : Tree} {f : Flag} (h : ChildS v c f) (hv : VFree v c) : f = .empty := by
  cases f
  · obtain ⟨s, hs⟩ := List.exists_mem_of_ne_nil _ (frontier_ne_nil h.ok.wf)
    exact absurd (h.ok.full rfl s hs) (hv s hs)
  · rfl
  · obtain ⟨⟨s, hs, hvs⟩, _⟩ := h.part (.inl rfl)
    exact absurd hvs (hv s hs)
  · obtain ⟨⟨s, hs, hvs⟩, _⟩ := h.part (.inr rfl)
    exact absurd hvs (hv s hs)

theorem ChildS.flag_of_allV {v : Nat} {c : Tree} {f : Flag} (h : ChildS v c f) (hv : AllV v c) : f = .full := by
  cases f
  · rfl
  · obtain ⟨s, hs⟩ := List.exists_mem_of_ne_nil _ (frontier_ne_nil h.ok.wf)
    exact absurd (hv s hs) (h.ok.empty rfl s hs)
  · obtain ⟨_, ⟨s, hs, hvs⟩⟩ := h.part (.inl rfl)
    exact absurd (hv s hs) hvs
  · obtain ⟨_, ⟨s, hs, hvs⟩⟩ := h.part (.inr rfl)
    exact absurd (hv s hs) hvs

/-! ### one block among children without `v` -/

/-- orderings of the given children in the given order, when only one of them (`x`) has sets with `v` -/
theorem vseg_seq_one {v : Nat} {A B : List Tree} {x : Tree} (hA : ∀ c ∈ A, VFree v c) (hB : ∀ c ∈ B, VFree v c)
    (hx : ∀ g, Fr x g → VSeg v g) {g : List (List Nat)} (h : Seq (A ++ x :: B) g) : VSeg v g := by
  obtain ⟨g₁, g₂, rfl, h1, h2⟩ := (seq_append _ _ _).1 h
  obtain ⟨gx, g₃, rfl, h3, h4⟩ := (seq_cons _ _ _).1 h2
  exact VSeg.cons_noV (seq_vfree hA h1) (VSeg.append_noV (hx gx h3) (seq_vfree hB h4))

/-- a `P` node whose children are without `v` except for `X` -/
theorem vseg_p_EX {v : Nat} {E : List Tree} {X : Tree} (hE : ∀ c ∈ E, VFree v c)
    (hX : ∀ g, Fr X g → VSeg v g) : ∀ g, Fr (.p (E ++ [X])) g → VSeg v g := by
  intro g h
  obtain ⟨cs', hp, hs⟩ := (fr_p_iff _ g).1 h
  have hmem : X ∈ cs' := hp.symm.mem_iff.1 (by simp)
  obtain ⟨l₁, l₂, rfl⟩ := List.append_of_mem hmem
  have h1 : (l₁ ++ l₂).Perm E := by
    have : (X :: (l₁ ++ l₂)).Perm (X :: E) :=
      List.perm_middle.symm.trans (hp.trans (List.perm_append_singleton _ _))
    exact List.Perm.cons_inv this
  refine vseg_seq_one (fun c hc => hE c (h1.mem_iff.1 (List.mem_append.2 (.inl hc))))
    (fun c hc => hE c (h1.mem_iff.1 (List.mem_append.2 (.inr hc)))) hX hs

theorem fr_p_EX {E B cs : List Tree} {X : Tree} (hX : ∀ g, Fr X g → Fr (.p B) g) (hp : (E ++ B).Perm cs) :
    ∀ g, Fr (.p (E ++ [X])) g → Fr (.p cs) g :=
  fun g h => fr_p_perm hp g (fr_p_absorb hX g h)

theorem fr_q_reverse (cs : List Tree) (g : List (List Nat)) (h : Fr (.q cs.reverse) g) : Fr (.q cs) g := by
  rcases (fr_q _ g).1 h with hs | hs
  · exact (fr_q cs g).2 (.inr (by simpa using seq_reverse hs))
  · exact (fr_q cs g).2 (.inl (by simpa using seq_reverse hs))

/-- orderings of a `Q` node over trees without `v`, trees full of `v`, trees without `v` -/
theorem vseg_q_blocks {v : Nat} {Le Lf Le' : List Tree} (h1 : ∀ c ∈ Le, VFree v c) (h2 : ∀ c ∈ Lf, AllV v c)
    (h3 : ∀ c ∈ Le', VFree v c) : ∀ g, Fr (.q (Le ++ Lf ++ Le')) g → VSeg v g := by
  have key : ∀ g, Seq (Le ++ Lf ++ Le') g → VSeg v g := by
    intro g hg
    obtain ⟨g12, g3, rfl, hg12, hg3⟩ := (seq_append _ _ _).1 hg
    obtain ⟨g1, g2, rfl, hg1, hg2⟩ := (seq_append _ _ _).1 hg12
    exact ⟨g1, g2, g3, rfl, seq_vfree h1 hg1, seq_allV h2 hg2, seq_vfree h3 hg3⟩
  intro g h
  rcases (fr_q _ g).1 h with hs | hs
  · exact key g hs
  · exact (key _ hs).of_reverse

/-- a unique child with flag `f`, all others `EMPTY`: split the list there -/
theorem split_unique {rs : List (Tree × Flag)} {f : Flag} (hf : f ≠ .empty)
    (h1 : (select f rs).length = 1) (h2 : (select .empty rs).length + 1 = rs.length) :
    ∃ A x B, rs = A ++ (x, f) :: B ∧ (∀ r ∈ A, r.2 = .empty) ∧ (∀ r ∈ B, r.2 = .empty) := by
  match hs : select f rs, h1 with
  | [x], _ =>
    have hx : (x, f) ∈ rs := mem_select.1 (by simp [hs])
    obtain ⟨A, B, rfl⟩ := List.append_of_mem hx
    have hE : (select .empty (A ++ B)).length = (A ++ B).length := by
      have : select .empty (A ++ (x, f) :: B) = select .empty (A ++ B) := by
        simp only [select, List.filter_append, List.filter_cons, List.map_append]
        have : ((x, f).2 == Flag.empty) = false := by simpa using hf
        simp [this]
      rw [this] at h2
      simp only [List.length_append, List.length_cons] at h2 ⊢
      omega
    have := select_all hE
    exact ⟨A, x, B, rfl, fun r hr => this r (List.mem_append.2 (.inl hr)),
      fun r hr => this r (List.mem_append.2 (.inr hr))⟩

end PrefVerif.PQTree
