import PrefVerif.Model.Euclid
import PrefVerif.Lemmas.IOSort
import PrefVerif.Lemmas.C19onStage
/-!
# C19 helper lemmas, part 4: the axis is a permutation of the coloured alternatives; the pieces of
`Euclid.lp`
-/
namespace PrefVerif.C19
open PrefVerif PrefVerif.Euclid

theorem bump_keys (d : List (Nat × Nat)) (k : Nat) : (bump d k).map (·.1) = d.map (·.1) := by
  unfold bump
  rw [List.map_map]
  apply List.map_congr_left
  intro kv _
  simp only [Function.comp]
  split <;> rfl

theorem axisDict_keys (g : Colouring) (v1 vn cplus : List Nat) :
    (axisDict g v1 vn cplus).map (·.1) = cplus := by
  unfold axisDict
  have : ∀ (ps : List (Nat × Nat)) (d : List (Nat × Nat)),
      (ps.foldl (axisStep g v1 vn) d).map (·.1) = d.map (·.1) := by
    intro ps
    induction ps with
    | nil => intro d; rfl
    | cons p ps ih =>
      intro d
      rw [List.foldl_cons, ih]
      unfold axisStep
      split
      · exact bump_keys _ _
      · rfl
  rw [this, List.map_map]
  exact (List.map_congr_left (fun _ _ => rfl)).trans (List.map_id _)

/-- the axis is a rearrangement of `C_set_plus` -/
theorem axisOf_perm (g : Colouring) (v1 vn cplus : List Nat) : (axisOf g v1 vn cplus).Perm cplus := by
  unfold axisOf
  have h := (PrefVerif.IOL.stableSort_perm (fun x y => decide (y.2 ≤ x.2)) (axisDict g v1 vn cplus)).map (·.1)
  rw [axisDict_keys] at h
  exact h

/-- the grey set reported by `stage` is the set of alternatives coloured 3 -/
theorem stage_grey (alts : List Nat) (orders : List (List Nat)) (g : Colouring)
    (h : (stage alts orders).coloured = some g) :
    (stage alts orders).grey = alts.filter (fun c => colour g c == 3) :=
  stageOn_grey alts _ _ g h

/-- unfolding of `Euclid.lp` -/
theorem lp_eq_some (alts : List Nat) (orders : List (List Nat)) (l : LP) (h : lp alts orders = some l) :
    ∃ g v1 vn, (stage alts orders).coloured = some g ∧
      l.cplus = colouredAlts alts g ∧ l.axis = axisOf g v1 vn l.cplus ∧
      l.preferences = restrictPreferences orders l.cplus ∧
      l.constraints = lpConstraints l.preferences l.axis :=
  lpOn_eq_some alts orders _ _ l h

theorem colouredAlts_of_no_grey (alts : List Nat) (g : Colouring)
    (h : alts.filter (fun c => colour g c == 3) = []) : colouredAlts alts g = alts := by
  unfold colouredAlts
  rw [List.filter_eq_self]
  intro a ha
  have := (List.filter_eq_nil_iff.1 h) a ha
  simpa using this

theorem restrictPreferences_full (orders : List (List Nat)) (alts : List Nat)
    (h : ∀ o ∈ orders, ∀ a ∈ o, a ∈ alts) : restrictPreferences orders alts = orders := by
  unfold restrictPreferences
  conv => rhs; rw [← List.map_id orders]
  apply List.map_congr_left
  intro o ho
  rw [id, List.filter_eq_self]
  intro a ha
  simpa using h o ho a ha

end PrefVerif.C19
