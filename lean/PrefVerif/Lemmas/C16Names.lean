import PrefVerif.Lemmas.IOwAList
import PrefVerif.Lemmas.IOStr
import PrefVerif.Model.InstanceIO
/-!
# C16 — the `__n` loop and name assignment under autocorrect

`freshSuffix` with fuel `len taken + 1` returns a name outside `taken` (pigeonhole over the
pairwise distinct candidates `name__1 … name__(len+2)`); assigning names to new ids keeps the
values pairwise distinct.
-/
namespace PrefVerif.C16
open PrefVerif PrefVerif.Py PrefVerif.InstanceIO PrefVerif.IOL PrefVerif.IOLw

/-- the candidate `name__t` -/
def cand (name : Str) (t : Nat) : Str := name ++ s "__" ++ natToStr t

theorem natToStr_inj {a b : Nat} (h : natToStr a = natToStr b) : a = b := by
  have := congrArg (fun l => Nat.ofDigitChars 10 l 0) h
  simpa [ofDigitChars_natToStr] using this

theorem cand_inj {name : Str} {a b : Nat} (h : cand name a = cand name b) : a = b :=
  natToStr_inj (List.append_cancel_left h)

/-- if the loop's answer is taken, so were all the `fuel + 1` candidates it looked at -/
theorem freshSuffix_mem (taken : List Str) (name : Str) (fuel tmp : Nat)
    (h : freshSuffix taken name fuel tmp ∈ taken) : ∀ k, k ≤ fuel → cand name (tmp + k) ∈ taken := by
  induction fuel generalizing tmp with
  | zero =>
    intro k hk
    have : k = 0 := by omega
    subst this
    simpa [freshSuffix, cand] using h
  | succ f ih =>
    simp only [freshSuffix] at h
    split at h
    · rename_i hc
      intro k hk
      cases k with
      | zero => simpa [cand] using hc
      | succ k =>
        have := ih (tmp + 1) h k (by omega)
        rwa [show tmp + 1 + k = tmp + (k + 1) by omega] at this
    · rename_i hc
      exact absurd h (by simpa using hc)

/-- the loop ends on an unused name -/
theorem freshSuffix_not_mem (taken : List Str) (name : Str) :
    freshSuffix taken name (taken.length + 1) 1 ∉ taken := by
  intro h
  have hall := freshSuffix_mem taken name (taken.length + 1) 1 h
  let L := (List.range (taken.length + 2)).map (fun k => cand name (1 + k))
  have hnd : L.Nodup := by
    show List.Pairwise (· ≠ ·) _
    rw [List.pairwise_map]
    have hr : (List.range (taken.length + 2)).Pairwise (· ≠ ·) := List.nodup_range
    refine List.Pairwise.imp ?_ hr
    intro a b hab hc
    have := cand_inj (name := name) hc
    omega
  have hsub : L ⊆ taken := by
    intro x hx
    obtain ⟨k, hk, rfl⟩ := List.mem_map.1 hx
    exact hall k (by have := List.mem_range.1 hk; omega)
  have := hnd.length_le_of_subset hsub
  simp only [L, List.length_map, List.length_range] at this
  omega

/-! ## `assignName` -/

theorem assignName_of_not_mem (names : AList Nat Str) (k : Nat) (name : Str) (ac : Bool)
    (hn : name ∉ AList.values names) : assignName names k name ac = AList.set names k name := by
  have : (AList.values names).contains name = false := by simpa using hn
  simp only [assignName, this, Bool.and_false, Bool.false_eq_true, if_false]

theorem assignName_false (names : AList Nat Str) (k : Nat) (name : Str) :
    assignName names k name false = AList.set names k name := by
  simp [assignName]

/-- a new id gets a value that is not yet used, appended at the end -/
theorem assignName_fresh_key (names : AList Nat Str) (k : Nat) (name : Str)
    (hk : k ∉ AList.keys names) :
    ∃ v, v ∉ AList.values names ∧ assignName names k name true = names ++ [(k, v)] := by
  by_cases hn : name ∈ AList.values names
  · refine ⟨freshSuffix (AList.values names) name ((AList.values names).length + 1) 1,
      freshSuffix_not_mem _ _, ?_⟩
    have : (AList.values names).contains name = true := by simpa using hn
    simp only [assignName, this, Bool.and_true, if_true]
    exact set_of_not_mem _ _ _ hk
  · exact ⟨name, hn, by rw [assignName_of_not_mem _ _ _ _ hn, set_of_not_mem _ _ _ hk]⟩

theorem foldl_assignName_nodup (raw : List (Nat × Str)) (acc : AList Nat Str)
    (hk : (AList.keys acc ++ raw.map (·.1)).Nodup) (hv : (AList.values acc).Nodup) :
    (AList.values (raw.foldl (fun names kv => assignName names kv.1 kv.2 true) acc)).Nodup := by
  induction raw generalizing acc with
  | nil => exact hv
  | cons kv raw ih =>
    have hkn : kv.1 ∉ AList.keys acc := by
      intro hm
      exact (List.nodup_append.1 hk).2.2 kv.1 hm kv.1 (by simp) rfl
    obtain ⟨v, hvn, he⟩ := assignName_fresh_key acc kv.1 kv.2 hkn
    simp only [List.foldl_cons, he]
    apply ih
    · rw [keys_append]
      simpa [AList.keys] using hk
    · rw [values_append]
      exact List.nodup_append.2 ⟨hv, by simp [AList.values], by
        intro a ha b hb hab
        simp only [AList.values, List.map_cons, List.map_nil, List.mem_singleton] at hb
        subst hb; subst hab; exact hvn ha⟩

/-- the whole dict comes back when its keys and its values are pairwise distinct -/
theorem foldl_assignName_clean (l acc : AList Nat Str) (hk : (AList.keys (acc ++ l)).Nodup)
    (hv : (AList.values (acc ++ l)).Nodup) :
    l.foldl (fun d kv => assignName d kv.1 kv.2 true) acc = acc ++ l := by
  induction l generalizing acc with
  | nil => simp
  | cons p l ih =>
    obtain ⟨k, v⟩ := p
    have hkn : k ∉ AList.keys acc := by
      intro hm
      rw [keys_append] at hk
      exact (List.nodup_append.1 hk).2.2 k hm k (by simp [AList.keys]) rfl
    have hvn : v ∉ AList.values acc := by
      intro hm
      rw [values_append] at hv
      exact (List.nodup_append.1 hv).2.2 v hm v (by simp [AList.values]) rfl
    simp only [List.foldl_cons, assignName_of_not_mem acc k v true hvn, set_of_not_mem acc k v hkn]
    rw [ih (acc ++ [(k, v)]) (by simpa using hk) (by simpa using hv)]
    simp

end PrefVerif.C16
