import PrefVerif.Lemmas.C05PQBasic
/-!
`simplify` in terms of `List` combinators; the leaves it returns (`SimpOK`: at most one "partial" child
below every `P` node on the way down, otherwise `partial = c.simplify(...)` overwrites — and loses — the
leaves of an earlier partial child); none of the trees it returns is partial again.
-/
set_option linter.unusedSimpArgs false
namespace PrefVerif.PQTree
open Tree

theorem synPartial_cond1 (v : Nat) (c : Tree) :
    (mem v c && (c.isPQ && anyNotMem v c.children)) = synPartial v c := by
  unfold synPartial
  cases mem v c <;> cases c.isPQ <;> simp

theorem synPartial_cond2 (v : Nat) (c : Tree) :
    (mem v c && !(c.isPQ && anyNotMem v c.children)) = (mem v c && !synPartial v c) := by
  unfold synPartial
  cases mem v c <;> cases c.isPQ <;> simp

theorem synPartial_leaf (v : Nat) (s : List Nat) : synPartial v (.leaf s) = false := by
  simp [synPartial, isPQ]

theorem synPartial_of_not_mem {v : Nat} {c : Tree} (h : mem v c = false) : synPartial v c = false := by
  simp [synPartial, h]

theorem simplifyEmpty_eq (v : Nat) (cs : List Tree) : simplifyEmpty v cs = cs.filter (fun c => !mem v c) := by
  induction cs with
  | nil => simp [simplifyEmpty]
  | cons c cs ih =>
    simp only [simplifyEmpty, ih, List.filter_cons]
    cases mem v c <;> simp

theorem simplifyFull_eq (v : Nat) (cs : List Tree) :
    simplifyFull v cs = cs.filter (fun c => mem v c && !synPartial v c) := by
  induction cs with
  | nil => simp [simplifyFull]
  | cons c cs ih =>
    simp only [simplifyFull, ih, List.filter_cons, synPartial_cond2]

theorem simplifyPartial_eq (v : Nat) (right : Bool) (cs acc : List Tree) :
    simplifyPartial v right cs acc =
      (((cs.filter (synPartial v)).getLast?).map (simplify v right)).getD acc := by
  induction cs generalizing acc with
  | nil => simp [simplifyPartial]
  | cons c cs ih =>
    simp only [simplifyPartial, synPartial_cond1, List.filter_cons]
    by_cases hc : synPartial v c = true
    · simp only [hc, if_true]
      rw [ih, List.getLast?_cons]
      cases (cs.filter (synPartial v)).getLast? <;> simp
    · have hc' : synPartial v c = false := by simpa using hc
      simp only [hc', Bool.false_eq_true, if_false]
      rw [ih]

theorem simplifyQ_eq (v : Nat) (right : Bool) (cs : List Tree) :
    simplifyQ v right cs = cs.flatMap (fun c => if synPartial v c then simplify v right c else [c]) := by
  induction cs with
  | nil => simp [simplifyQ]
  | cons c cs ih =>
    simp only [simplifyQ, ih, List.flatMap_cons]
    rfl

/-- the children of a `P`/`Q` node that `simplify` would descend into are harmless -/
inductive SimpOK (v : Nat) : Tree → Prop
  | leaf (s : List Nat) : SimpOK v (.leaf s)
  | p (cs : List Tree) : (cs.filter (synPartial v)).length ≤ 1 →
      (∀ c ∈ cs, synPartial v c = true → SimpOK v c) → SimpOK v (.p cs)
  | q (cs : List Tree) : (∀ c ∈ cs, synPartial v c = true → SimpOK v c) → SimpOK v (.q cs)

/-- three-way split of the children of a `P` node -/
theorem split3_perm (v : Nat) (cs : List Tree) :
    cs.Perm (cs.filter (fun c => !mem v c) ++ cs.filter (synPartial v) ++
      cs.filter (fun c => mem v c && !synPartial v c)) := by
  induction cs with
  | nil => simp
  | cons c cs ih =>
    simp only [List.filter_cons]
    by_cases hm : mem v c = true
    · by_cases hs : synPartial v c = true
      · simp only [hm, hs, Bool.not_true, Bool.false_eq_true, if_false, if_true, Bool.and_false]
        refine (List.Perm.cons c ih).trans ?_
        rw [List.append_assoc, List.append_assoc]
        exact (List.perm_middle).symm
      · have hs' : synPartial v c = false := by simpa using hs
        simp only [hm, hs', Bool.not_true, Bool.false_eq_true, if_false, Bool.not_false, Bool.and_self, if_true]
        refine (List.Perm.cons c ih).trans ?_
        exact (List.perm_middle).symm
    · have hm' : mem v c = false := by simpa using hm
      simp only [hm', synPartial_of_not_mem hm', Bool.not_false, if_true, Bool.false_eq_true, if_false,
        Bool.false_and, List.cons_append]
      exact List.Perm.cons c ih

theorem nodup_of_sublist_frontier {a b : List Tree} (h : a.Sublist b) (hn : (frontierList b).Nodup) :
    (frontierList a).Nodup := by
  have : (frontierList a).Sublist (frontierList b) := by
    clear hn
    induction h with
    | slnil => simp
    | cons c _ ih => simpa using ih.trans (List.sublist_append_right _ _)
    | cons_cons c _ ih => simpa using List.Sublist.append_left ih (frontier c)
  exact this.nodup hn

theorem nodup_frontier_of_mem {c : Tree} {cs : List Tree} (hc : c ∈ cs) (hn : (frontierList cs).Nodup) :
    (frontier c).Nodup := by
  have : [c].Sublist cs := List.singleton_sublist.2 hc
  simpa using nodup_of_sublist_frontier this hn

theorem nodup_children {t : Tree} {c : Tree} (hc : c ∈ t.children) (hn : (frontier t).Nodup) :
    (frontier c).Nodup := by
  cases t with
  | leaf s => simp [children] at hc
  | p cs => exact nodup_frontier_of_mem (cs := cs) hc (by simpa using hn)
  | q cs => exact nodup_frontier_of_mem (cs := cs) hc (by simpa using hn)

/-- frontier of the optional `[_new_P(l)]` -/
theorem frontierList_optP {l : List Tree} (h : (frontierList l).Nodup) :
    frontierList (if l.isEmpty then [] else [newP l]) = frontierList l := by
  cases l with
  | nil => simp
  | cons c cs => simp [frontier_newP h]

/-- **leaves of `simplify`** -/
theorem frontierList_simplify (v : Nat) (right : Bool) {t : Tree} (hok : SimpOK v t)
    (hn : (frontier t).Nodup) : (frontierList (simplify v right t)).Perm (frontier t) := by
  induction hok with
  | leaf s => simp [simplify]
  | p cs hlen hch ih =>
    simp only [frontier_p] at hn
    have hE : (frontierList (cs.filter (fun c => !mem v c))).Nodup :=
      nodup_of_sublist_frontier List.filter_sublist hn
    have hF : (frontierList (cs.filter (fun c => mem v c && !synPartial v c))).Nodup :=
      nodup_of_sublist_frontier List.filter_sublist hn
    have hP : (frontierList (simplifyPartial v right cs [])).Perm (frontierList (cs.filter (synPartial v))) := by
      rw [simplifyPartial_eq]
      match hf : cs.filter (synPartial v), hlen with
      | [], _ => simp
      | [c], _ =>
        have hc : c ∈ cs.filter (synPartial v) := by simp [hf]
        have hc' := List.mem_filter.1 hc
        simpa using ih c hc'.1 hc'.2 (nodup_frontier_of_mem hc'.1 hn)
      | _ :: _ :: _, h => simp at h
    have h3 := frontierList_perm (split3_perm v cs)
    simp only [simplify, simplifyEmpty_eq, simplifyFull_eq, frontier_p]
    cases right
    · simp only [Bool.false_eq_true, if_false, frontierList_append, frontierList_optP hE, frontierList_optP hF]
      refine List.Perm.trans ?_ h3.symm
      simp only [frontierList_append]
      refine (List.perm_append_comm).trans ?_
      refine List.Perm.trans ?_ (List.Perm.of_eq (List.append_assoc _ _ _).symm)
      exact List.Perm.append_left _ ((List.perm_append_comm).trans (List.Perm.append_right _ hP))
    · simp only [if_true, frontierList_append, frontierList_optP hE, frontierList_optP hF]
      refine List.Perm.trans ?_ h3.symm
      simp only [frontierList_append]
      exact List.Perm.append_right _ (List.Perm.append_left _ hP)
  | q cs hch ih =>
    simp only [frontier_q] at hn
    simp only [simplify, simplifyQ_eq, frontier_q]
    clear hch
    induction cs with
    | nil => simp
    | cons c cs ihc =>
      simp only [List.flatMap_cons, frontierList_append, frontierList_cons]
      have hnc : (frontier c).Nodup := nodup_frontier_of_mem List.mem_cons_self hn
      have hncs : (frontierList cs).Nodup := nodup_of_sublist_frontier (List.sublist_cons_self c cs) hn
      refine List.Perm.append ?_ (ihc (fun d hd => ih d (List.mem_cons_of_mem _ hd)) hncs)
      by_cases hs : synPartial v c = true
      · simp only [hs, if_true]
        exact ih c List.mem_cons_self hs hnc
      · simp [hs]

theorem mem_newP {v : Nat} {l : List Tree} (h : (frontierList l).Nodup) (hne : l ≠ []) :
    mem v (newP l) = memList v l := by
  rw [Bool.eq_iff_iff, mem_iff, memList_iff, frontier_newP h hne]

theorem synPartial_newP_empty {v : Nat} {l : List Tree} (h : (frontierList l).Nodup) (hne : l ≠ [])
    (hl : ∀ c ∈ l, mem v c = false) : synPartial v (newP l) = false := by
  apply synPartial_of_not_mem
  rw [mem_newP h hne, memList_eq_any, Bool.eq_false_iff]
  simp only [ne_eq, List.any_eq_true, not_exists, not_and]
  intro c hc
  simp [hl c hc]

theorem synPartial_newP_full {v : Nat} {l : List Tree} (h : (frontierList l).Nodup)
    (hl : ∀ c ∈ l, mem v c = true ∧ synPartial v c = false) : synPartial v (newP l) = false := by
  unfold newP
  split
  · rw [mkP_eq h]
    simp only [synPartial, children, anyNotMem_eq_any, Bool.and_eq_false_imp]
    intro _
    rw [Bool.eq_false_iff]
    simp only [ne_eq, List.any_eq_true, not_exists, not_and]
    intro c hc
    simp [(hl c hc).1]
  · match l, hl with
    | [], _ => simp [synPartial, isPQ]
    | [c], hl => simpa using (hl c (List.mem_singleton.2 rfl)).2
    | _ :: _ :: _, _ => simp at *

/-- **no tree returned by `simplify` is partial again** -/
theorem noSyn_simplify (v : Nat) (right : Bool) (t : Tree) (hn : (frontier t).Nodup) :
    ∀ c ∈ simplify v right t, synPartial v c = false := by
  induction t using Tree.ind with
  | hleaf s => simp [simplify, synPartial_leaf]
  | hp cs ih =>
    simp only [frontier_p] at hn
    have hE : (frontierList (cs.filter (fun c => !mem v c))).Nodup :=
      nodup_of_sublist_frontier List.filter_sublist hn
    have hF : (frontierList (cs.filter (fun c => mem v c && !synPartial v c))).Nodup :=
      nodup_of_sublist_frontier List.filter_sublist hn
    have h1 : ∀ c ∈ (if (cs.filter (fun c => !mem v c)).isEmpty then []
        else [newP (cs.filter (fun c => !mem v c))]), synPartial v c = false := by
      intro c hc
      split at hc
      · simp at hc
      · rename_i hne
        simp only [List.mem_singleton] at hc
        subst hc
        refine synPartial_newP_empty hE (by simpa using hne) ?_
        intro d hd
        simpa using (List.mem_filter.1 hd).2
    have h2 : ∀ c ∈ (if (cs.filter (fun c => mem v c && !synPartial v c)).isEmpty then []
        else [newP (cs.filter (fun c => mem v c && !synPartial v c))]), synPartial v c = false := by
      intro c hc
      split at hc
      · simp at hc
      · simp only [List.mem_singleton] at hc
        subst hc
        refine synPartial_newP_full hF ?_
        intro d hd
        simpa using (List.mem_filter.1 hd).2
    have h3 : ∀ c ∈ simplifyPartial v right cs [], synPartial v c = false := by
      rw [simplifyPartial_eq]
      cases hl : (cs.filter (synPartial v)).getLast? with
      | none => simp
      | some d =>
        have hd : d ∈ cs := (List.mem_filter.1 (List.mem_of_getLast? hl)).1
        simpa using ih d hd (nodup_frontier_of_mem hd hn)
    intro c hc
    simp only [simplify, simplifyEmpty_eq, simplifyFull_eq] at hc
    cases right
    · simp only [Bool.false_eq_true, if_false, List.mem_append] at hc
      rcases hc with (hc | hc) | hc
      · exact h2 c hc
      · exact h3 c hc
      · exact h1 c hc
    · simp only [if_true, List.mem_append] at hc
      rcases hc with (hc | hc) | hc
      · exact h1 c hc
      · exact h3 c hc
      · exact h2 c hc
  | hq cs ih =>
    simp only [frontier_q] at hn
    intro c hc
    simp only [simplify, simplifyQ_eq, List.mem_flatMap] at hc
    obtain ⟨d, hd, hcd⟩ := hc
    by_cases hs : synPartial v d = true
    · simp only [hs, if_true] at hcd
      exact ih d hd (nodup_frontier_of_mem hd hn) c hcd
    · simp only [hs, Bool.false_eq_true, if_false, List.mem_singleton] at hcd
      subst hcd
      simpa using hs

/-- the trees returned by `simplify` are well formed -/
theorem wf_simplify (v : Nat) (right : Bool) (t : Tree) (hn : (frontier t).Nodup) (hwf : WF t) :
    ∀ c ∈ simplify v right t, WF c := by
  induction t using Tree.ind with
  | hleaf s => simp [simplify]
  | hp cs ih =>
    simp only [frontier_p] at hn
    obtain ⟨_, hall⟩ := (wf_p cs).1 hwf
    have hopt : ∀ (f : Tree → Bool), ∀ c ∈ (if (cs.filter f).isEmpty then [] else [newP (cs.filter f)]), WF c := by
      intro f c hc
      split at hc
      · simp at hc
      · rename_i hne
        simp only [List.mem_singleton] at hc
        subst hc
        exact wf_newP (nodup_of_sublist_frontier List.filter_sublist hn) (by simpa using hne)
          (fun d hd => hall d (List.mem_filter.1 hd).1)
    have h3 : ∀ c ∈ simplifyPartial v right cs [], WF c := by
      rw [simplifyPartial_eq]
      cases hl : (cs.filter (synPartial v)).getLast? with
      | none => simp
      | some d =>
        have hd : d ∈ cs := (List.mem_filter.1 (List.mem_of_getLast? hl)).1
        simpa using ih d hd (nodup_frontier_of_mem hd hn) (hall d hd)
    intro c hc
    simp only [simplify, simplifyEmpty_eq, simplifyFull_eq] at hc
    cases right
    · simp only [Bool.false_eq_true, if_false, List.mem_append] at hc
      rcases hc with (hc | hc) | hc
      · exact hopt _ c hc
      · exact h3 c hc
      · exact hopt _ c hc
    · simp only [if_true, List.mem_append] at hc
      rcases hc with (hc | hc) | hc
      · exact hopt _ c hc
      · exact h3 c hc
      · exact hopt _ c hc
  | hq cs ih =>
    simp only [frontier_q] at hn
    obtain ⟨_, hall⟩ := (wf_q cs).1 hwf
    intro c hc
    simp only [simplify, simplifyQ_eq, List.mem_flatMap] at hc
    obtain ⟨d, hd, hcd⟩ := hc
    by_cases hs : synPartial v d = true
    · simp only [hs, if_true] at hcd
      exact ih d hd (nodup_frontier_of_mem hd hn) (hall d hd) c hcd
    · simp only [hs, Bool.false_eq_true, if_false, List.mem_singleton] at hcd
      subst hcd
      exact hall c hd

/-! ### `reverse` and `SimpOK` -/

theorem anyNotMem_reverseList (v : Nat) (cs : List Tree) : anyNotMem v (reverseList cs) = anyNotMem v cs := by
  simp only [anyNotMem_eq_any, reverseList_eq, List.any_reverse, List.any_map]
  congr 1
  funext c
  simp [mem_reverse]

theorem synPartial_reverse (v : Nat) (c : Tree) : synPartial v (reverse c) = synPartial v c := by
  simp [synPartial, isPQ_reverse, mem_reverse, children_reverse, anyNotMem_reverseList]

theorem filter_syn_reverseList (v : Nat) (cs : List Tree) :
    (reverseList cs).filter (synPartial v) = reverseList (cs.filter (synPartial v)) := by
  induction cs with
  | nil => simp [reverseList]
  | cons c cs ih =>
    simp only [reverseList, List.filter_append, ih, List.filter_cons, synPartial_reverse, List.filter_nil]
    by_cases hs : synPartial v c = true <;> simp [hs, reverseList]

theorem length_reverseList (cs : List Tree) : (reverseList cs).length = cs.length := by
  simp [reverseList_eq]

theorem simpOK_reverse {v : Nat} {t : Tree} (h : SimpOK v t) : SimpOK v (reverse t) := by
  induction h with
  | leaf s => simpa [reverse] using SimpOK.leaf s
  | p cs hlen hch ih =>
    simp only [reverse]
    refine SimpOK.p _ ?_ ?_
    · rw [filter_syn_reverseList, length_reverseList]; exact hlen
    · intro c hc hs
      simp only [reverseList_eq, List.mem_reverse, List.mem_map] at hc
      obtain ⟨d, hd, rfl⟩ := hc
      exact ih d hd (by simpa [synPartial_reverse] using hs)
  | q cs hch ih =>
    simp only [reverse]
    refine SimpOK.q _ ?_
    intro c hc hs
    simp only [reverseList_eq, List.mem_reverse, List.mem_map] at hc
    obtain ⟨d, hd, rfl⟩ := hc
    exact ih d hd (by simpa [synPartial_reverse] using hs)

end PrefVerif.PQTree
