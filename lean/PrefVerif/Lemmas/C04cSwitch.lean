import PrefVerif.Lemmas.C04Switch
import PrefVerif.Lemmas.C04Chain
import PrefVerif.Props.C20
/-!
# C04 completeness helpers (1): along a single-crossing sequence no pair switches back, the reverse
of a single-crossing sequence is single-crossing, and Kendall-tau is additive along the sequence.
-/
namespace PrefVerif.C04c
open PrefVerif PrefVerif.Spec PrefVerif.Distances PrefVerif.SingleCrossing PrefVerif.C04 PrefVerif.C20

theorem switches_tail_le (x y : Nat) (o : List Nat) (l : List (List Nat)) :
    switches x y l ≤ switches x y (o :: l) := by
  cases l with
  | nil => simp [switches]
  | cons o2 l => rw [switches_cons_cons]; omega

theorem switches_drop_le (x y : Nat) (l : List (List Nat)) (i : Nat) :
    switches x y (l.drop i) ≤ switches x y l := by
  induction i generalizing l with
  | zero => simp
  | succ i ih =>
    cases l with
    | nil => simp
    | cons o l =>
      rw [List.drop_succ_cons]
      exact Nat.le_trans (ih l) (switches_tail_le x y o l)

theorem bool_third {a b c : Bool} (h1 : b ≠ a) (h2 : a ≠ c) : c = b := by
  cases a <;> cases b <;> cases c <;> simp_all

/-- offsets form of `no_aba` -/
theorem no_aba' (x y : Nat) (s : List (List Nat)) (h : switches x y s ≤ 1) (i a b : Nat)
    (hk : i + 1 + a + 1 + b < s.length)
    (hd : prefers (s[i + 1 + a]'(by omega)) x y ≠ prefers (s[i]'(by omega)) x y) :
    prefers (s[i + 1 + a + 1 + b]) x y = prefers (s[i + 1 + a]'(by omega)) x y := by
  have hi : i < s.length := by omega
  have hdrop : s.drop i = s[i] :: s.drop (i + 1) := List.drop_eq_getElem_cons hi
  have hsw : switches x y (s[i] :: s.drop (i + 1)) ≤ 1 := by
    rw [← hdrop]; exact Nat.le_trans (switches_drop_le x y s i) h
  have hp := stay_pairwise x y s[i] (s.drop (i + 1)) ((stay_iff x y s[i] _).2 hsw)
  rw [List.pairwise_iff_getElem] at hp
  have h3 := hp a (a + 1 + b) (by simp; omega) (by simp; omega) (by omega)
  simp only [List.getElem_drop] at h3
  have e : s[i + 1 + (a + 1 + b)]'(by omega) = s[i + 1 + a + 1 + b] :=
    getElem_congr_idx (by omega)
  rw [e] at h3
  exact bool_third hd (h3 (fun e' => hd e'.symm))

/-- along a sequence in which the pair `x,y` switches at most once: once position `j` differs from
an earlier position `i`, every later position `k` agrees with `j` -/
theorem no_aba (x y : Nat) (s : List (List Nat)) (h : switches x y s ≤ 1) (i j k : Nat)
    (hij : i < j) (hjk : j < k) (hk : k < s.length)
    (hd : prefers (s[j]'(by omega)) x y ≠ prefers (s[i]'(by omega)) x y) :
    prefers (s[k]) x y = prefers (s[j]'(by omega)) x y := by
  obtain ⟨a, rfl⟩ : ∃ a, j = i + 1 + a := ⟨j - i - 1, by omega⟩
  obtain ⟨b, rfl⟩ : ∃ b, k = i + 1 + a + 1 + b := ⟨k - (i + 1 + a) - 1, by omega⟩
  exact no_aba' x y s h i a b hk hd

/-- Kendall-tau is additive along a single-crossing sequence -/
theorem kt_additive (alts : List Nat) (s : List (List Nat)) (h : ∀ o ∈ s, SameRanking alts o)
    (hsc : SCSeq alts s) (i j k : Nat) (hij : i < j) (hjk : j < k) (hk : k < s.length) :
    kt (s[i]'(by omega)) (s[k]) = kt (s[i]'(by omega)) (s[j]'(by omega)) + kt (s[j]'(by omega)) (s[k]) := by
  have hi := h _ (List.getElem_mem (show i < s.length by omega))
  have hj := h _ (List.getElem_mem (show j < s.length by omega))
  have hk' := h _ (List.getElem_mem hk)
  refine ((kt_add_iff hi hj hk').2 ?_).symm
  intro x hx y hy hne hd
  exact no_aba x y s (hsc x hx y hy hne) i j k hij hjk hk hd

/-! ### reversal -/

theorem switches_append (x y : Nat) (l1 : List (List Nat)) (o : List Nat) (l2 : List (List Nat)) :
    switches x y (l1 ++ o :: l2) = switches x y (l1 ++ [o]) + switches x y (o :: l2) := by
  induction l1 with
  | nil => simp [switches]
  | cons a l1 ih =>
    cases l1 with
    | nil =>
      simp only [List.cons_append, List.nil_append, switches_cons_cons]
      simp [switches]
    | cons b l1 =>
      simp only [List.cons_append, switches_cons_cons] at ih ⊢
      omega

theorem switches_reverse (x y : Nat) (s : List (List Nat)) :
    switches x y s.reverse = switches x y s := by
  induction s with
  | nil => rfl
  | cons o l ih =>
    cases l with
    | nil => rfl
    | cons o2 l =>
      have e : (o :: o2 :: l).reverse = l.reverse ++ o2 :: [o] := by simp
      rw [e, switches_append, switches_cons_cons]
      have e2 : l.reverse ++ [o2] = (o2 :: l).reverse := by simp
      rw [e2, ih, switches_cons_cons]
      have : (prefers o2 x y != prefers o x y) = (prefers o x y != prefers o2 x y) := by
        cases prefers o2 x y <;> cases prefers o x y <;> rfl
      simp only [this, switches]
      omega

theorem scSeq_reverse (alts : List Nat) (s : List (List Nat)) (h : SCSeq alts s) :
    SCSeq alts s.reverse := by
  intro a ha b hb hne
  rw [switches_reverse]
  exact h a ha b hb hne

end PrefVerif.C04c
