import PrefVerif.Lemmas.C12DPPlace
import PrefVerif.Lemmas.C12DPLast
/-!
The invariant of the table `S`, of `longest` and of `locked_axis` through the loops of
`longest_single_peaked_axis`.
-/
namespace PrefVerif.C12DP
open PrefVerif.KAlt

theorem foldl_inv {β α : Type} (P : β → Prop) (f : β → α → β) (l : List α) (b : β) (hb : P b)
    (h : ∀ b a, a ∈ l → P b → P (f b a)) : P (l.foldl f b) := by
  induction l generalizing b with
  | nil => exact hb
  | cons x xs ih =>
    exact ih (f b x) (h b x (by simp) hb) (fun b a ha hP => h b a (by simp [ha]) hP)

/-- the alternatives on the axis are distinct members of `alts` -/
def Good (alts : List Nat) (A : Axis) : Prop := (members A).Nodup ∧ ∀ a ∈ members A, a ∈ alts

/-- an entry `key ↦ axis` of the table -/
def EntryOK (votes : List (List Nat)) (alts : List Nat) (e : Key × Axis) : Prop :=
  Good alts e.2 ∧ (∀ a ∈ members e.2, Low votes a e.1.X) ∧ (e.1.X = [] → members e.2 = [])

/-- progress: something has been placed on `longest` -/
def Prog (st : St) : Prop := members st.longest ≠ []

structure Inv (votes : List (List Nat)) (alts : List Nat) (b : Bool) (st : St) : Prop where
  S : ∀ e ∈ st.S, EntryOK votes alts e
  longest : Good alts st.longest
  locked : Good alts st.locked
  lockedNE : st.locked = [none] ∨ members st.locked ≠ []
  prog : b = true → Prog st

theorem Key.eq_spec {k' k : Key} (h : k'.eq k = true) : k'.X.length = k.X.length ∧ ∀ z ∈ k'.X, z ∈ k.X := by
  unfold Key.eq at h
  simp only [Bool.and_eq_true, List.all_eq_true, beq_iff_eq] at h
  exact ⟨h.1.2, fun z hz => by simpa using h.2 z hz⟩

theorem mem_dictPut (S : List (Key × Axis)) (k : Key) (A : Axis) (e : Key × Axis) (h : e ∈ dictPut S k A) :
    e ∈ S ∨ e = (k, A) ∨ ∃ k' A', (k', A') ∈ S ∧ k'.eq k = true ∧ e = (k', A) := by
  induction S with
  | nil => simp [dictPut] at h; exact Or.inr (Or.inl h)
  | cons hd tl ih =>
    obtain ⟨k', A'⟩ := hd
    unfold dictPut at h
    split at h
    · rename_i heq
      split at h
      · simp only [List.mem_cons] at h
        rcases h with h | h
        · exact Or.inr (Or.inr ⟨k', A', by simp, heq, h⟩)
        · exact Or.inl (by simp [h])
      · exact Or.inl h
    · simp only [List.mem_cons] at h
      rcases h with h | h
      · exact Or.inl (by simp [h])
      · rcases ih h with h | h | ⟨k2, A2, h1, h2, h3⟩
        · exact Or.inl (by simp [h])
        · exact Or.inr (Or.inl h)
        · exact Or.inr (Or.inr ⟨k2, A2, by simp [h1], h2, h3⟩)

theorem place_good (votes : List (List Nat)) (alts : List Nat) (k : Key) (A : Axis) (X : List Nat)
    (he : EntryOK votes alts (k, A)) (hX : XSpec votes alts k.X X) :
    place A X votes = (A, false) ∨
      (Good alts (place A X votes).1 ∧ (∀ a ∈ members (place A X votes).1, Low votes a X) ∧
        members (place A X votes).1 ≠ []) := by
  rcases place_cases A X votes with h | ⟨_, hperm⟩
  · exact Or.inl h
  · refine Or.inr ⟨⟨?_, ?_⟩, ?_, ?_⟩
    · rw [hperm.nodup_iff, List.nodup_append]
      refine ⟨hX.nodup, he.1.1, ?_⟩
      intro a ha b hb hab
      subst hab
      by_cases hY : k.X = []
      · have := he.2.2 hY
        simp only at this
        rw [this] at hb; cases hb
      · exact (he.2.1 a hb).disjoint (hX.prev hY) ha
    · intro a ha
      rw [hperm.mem_iff, List.mem_append] at ha
      rcases ha with ha | ha
      · exact hX.sub a ha
      · exact he.1.2 a ha
    · intro a ha
      rw [hperm.mem_iff, List.mem_append] at ha
      rcases ha with ha | ha
      · exact hX.low a ha
      · by_cases hY : k.X = []
        · have := he.2.2 hY
          simp only at this
          rw [this] at ha; cases ha
        · exact (he.2.1 a ha).extend (hX.prev hY)
    · intro e
      have hl := hperm.length_eq
      rw [e] at hl
      have := hX.ne
      cases X with
      | nil => exact this rfl
      | cons => simp at hl

theorem processX_inv (votes : List (List Nat)) (alts : List Nat) (b : Bool) (k : Key) (A : Axis) (X : List Nat)
    (st : St) (he : EntryOK votes alts (k, A)) (hX : XSpec votes alts k.X X) (hst : Inv votes alts b st) :
    Inv votes alts b (processX votes A st X) := by
  unfold processX
  dsimp only
  rcases place_good votes alts k A X he hX with h | ⟨hg, hlow, hne⟩
  · rw [h]; simp only [Bool.false_eq_true, if_false, bne_self_eq_false, Bool.false_and]
    exact hst
  · split
    · refine ⟨?_, ?_, hst.locked, hst.lockedNE, ?_⟩
      · intro e hemem
        rcases mem_dictPut _ _ _ _ hemem with h | h | ⟨k', A', _, heq, h⟩
        · exact hst.S e h
        · subst h
          exact ⟨hg, hlow, fun e => absurd e hX.ne⟩
        · subst h
          obtain ⟨hlen, hsub⟩ := Key.eq_spec heq
          refine ⟨hg, fun a ha => (hlow a ha).antitone hsub, ?_⟩
          intro e
          exfalso
          simp only at e hlen
          rw [e] at hlen
          apply hX.ne
          exact List.eq_nil_of_length_eq_zero hlen.symm
      · dsimp only; split
        · exact hg
        · exact hst.longest
      · intro hb
        show members _ ≠ []
        dsimp only; split
        · exact hne
        · exact hst.prog hb
    · split
      · exact ⟨hst.S, hst.longest, hg, Or.inr hne, hst.prog⟩
      · exact hst

theorem processKey_inv (votes : List (List Nat)) (alts : List Nat) (b : Bool) (suffix : List (PySet Nat))
    (remaining : List Nat) (e : Key × Axis) (st : St) (hs : SetsSub alts suffix)
    (he : EntryOK votes alts e) (hst : Inv votes alts b st) :
    Inv votes alts b (processKey votes suffix remaining st e) := by
  unfold processKey
  split
  · exact hst
  · split
    · exact hst
    · apply foldl_inv (Inv votes alts b) _ _ _ hst
      intro st' X hX hst'
      exact processX_inv votes alts b e.1 e.2 X st' he (eligible_spec alts votes suffix _ X hs hX) hst'

theorem mainLoop_inv (votes : List (List Nat)) (alts : List Nat) (b : Bool) (suffix : List (PySet Nat))
    (remaining : List Nat) (st : St) (hs : SetsSub alts suffix) (hst : Inv votes alts b st) :
    Inv votes alts b (mainLoop votes suffix st remaining) := by
  induction suffix generalizing st remaining with
  | nil => exact hst
  | cons Li rest ih =>
    unfold mainLoop
    apply ih
    · intro s hs'; exact hs s (by simp [hs'])
    · apply foldl_inv (Inv votes alts b) _ _ _ hst
      intro st' e hemem hst'
      exact processKey_inv votes alts b _ remaining e st' hs (hst.S e hemem) hst'

/-! ### the `L` sets -/

theorem lRound_sub (alts : List Nat) (prev : PySet Nat) (vs : List (List Nat)) (last : PySet Nat) :
    ∀ a ∈ (lRound alts prev vs last).2.elems, a ∈ last.elems ∨ a ∈ alts := by
  induction vs generalizing last with
  | nil => intro a ha; exact Or.inl ha
  | cons v vs ih =>
    intro a ha
    unfold lRound at ha
    dsimp only at ha
    rcases ih _ a ha with h | h
    · split at h
      · rename_i x hx
        rcases mem_add_elems natKey last x a h with h | h
        · exact Or.inl h
        · subst h
          have := List.mem_of_getLast? hx
          simp only [List.mem_filter, Bool.and_eq_true] at this
          exact Or.inr (by simpa using this.2.2)
      · exact Or.inl h
    · exact Or.inr h

theorem lRound_ne (alts : List Nat) (prev : PySet Nat) (vs : List (List Nat)) (last : PySet Nat)
    (h : last.elems ≠ []) : (lRound alts prev vs last).2.elems ≠ [] := by
  induction vs generalizing last with
  | nil => exact h
  | cons v vs ih =>
    unfold lRound
    dsimp only
    apply ih
    split
    · exact add_elems_ne_nil natKey last _ h
    · exact h

theorem lLoop_sub (alts : List Nat) (n : Nat) (vc : List (List Nat)) (prev : PySet Nat) :
    SetsSub alts (lLoop alts n vc prev) := by
  induction n generalizing vc prev with
  | zero => intro s hs; simp [lLoop] at hs
  | succ n ih =>
    intro s hs a ha
    unfold lLoop at hs
    simp only [List.mem_cons] at hs
    rcases hs with hs | hs
    · subst hs
      rcases lRound_sub alts prev vc PySet.empty a ha with h | h
      · simp [PySet.empty] at h
      · exact h
    · exact ih _ _ s hs a ha

theorem getLSets_sub (alts : List Nat) (votes : List (List Nat)) : SetsSub alts (getLSets alts votes) :=
  lLoop_sub alts _ _ _

theorem getLSets_head (alts : List Nat) (votes : List (List Nat)) (halts : alts ≠ []) (hvotes : votes ≠ [])
    (hcomp : ∀ v ∈ votes, ∀ a ∈ alts, a ∈ v) :
    ∃ L1 rest, getLSets alts votes = L1 :: rest ∧ L1.elems ≠ [] := by
  unfold getLSets
  cases alts with
  | nil => exact absurd rfl halts
  | cons a0 at' =>
    cases votes with
    | nil => exact absurd rfl hvotes
    | cons v vs =>
      refine ⟨_, _, rfl, ?_⟩
      unfold lRound
      dsimp only
      apply lRound_ne
      have hmem : a0 ∈ v.filter (fun a => !PySet.contains natKey PySet.empty a && (a0 :: at').contains a) := by
        simp only [List.mem_filter, Bool.and_eq_true]
        refine ⟨hcomp v (by simp) a0 (by simp), ?_, by simp⟩
        simp [PySet.contains, PySet.empty]
      split
      · rw [add_empty_elems]; simp
      · rename_i hnone
        rw [List.getLast?_eq_none_iff] at hnone
        rw [hnone] at hmem; cases hmem

/-! ### the first step places something -/

theorem getLast?_const (l : List Nat) (x : Nat) (hne : l ≠ []) (h : ∀ a ∈ l, a = x) : l.getLast? = some x := by
  rw [List.getLast?_eq_some_getLast hne]
  rw [h _ (List.getLast_mem hne)]

theorem lastCheck_single (votes : List (List Nat)) (x : Nat) (hvotes : votes ≠ []) (hx : ∀ v ∈ votes, x ∈ v) :
    lastCheck votes [] [x, x] = true := by
  unfold lastCheck
  simp only [Bool.and_eq_true, List.all_eq_true]
  constructor
  · intro a _; simp
  · intro a ha
    have : a = x := by simpa using ha
    subst this
    cases votes with
    | nil => exact absurd rfl hvotes
    | cons v vs =>
      simp only [List.contains_eq_mem, decide_eq_true_eq, List.mem_filterMap]
      refine ⟨v, by simp, ?_⟩
      apply getLast?_const
      · intro e
        have : a ∈ List.filter (fun a_1 => decide (a_1 ∈ [a, a]))
            (List.filter (fun a_1 => decide (a_1 ∈ [a, a] ++ [])) v) := by
          simp [hx v (by simp)]
        rw [e] at this; cases this
      · intro b hb
        simp at hb
        exact hb.2

theorem eligible_ne (alts : List Nat) (votes : List (List Nat)) (L1 : PySet Nat) (rest : List (PySet Nat))
    (hs : SetsSub alts (L1 :: rest)) (hL : L1.elems ≠ []) (hvotes : votes ≠ [])
    (hcomp : ∀ v ∈ votes, ∀ a ∈ alts, a ∈ v) : eligible (L1 :: rest) [] votes ≠ [] := by
  unfold eligible
  dsimp only
  cases hL1 : L1.elems with
  | nil => exact absurd hL1 hL
  | cons x xs =>
    have hx : x ∈ L1.elems := by simp [hL1]
    have hc : (x, x) ∈ candidates L1 (remainingSet (L1 :: rest)) [] votes := by
      rw [mem_candidates]
      refine ⟨hx, remainingSet_head L1 rest x hx, ?_⟩
      exact lastCheck_single votes x hvotes (fun v hv => hcomp v hv x (hs L1 (by simp) x hx))
    intro e
    rw [List.map_eq_nil_iff] at e
    have hlen := (iter_perm fsKey (List.foldl (fun s p => PySet.add fsKey s (mkFrozen [p.1, p.2])) PySet.empty
      (candidates L1 (remainingSet (L1 :: rest)) [] votes))).length_eq
    rw [e] at hlen
    cases hcs : candidates L1 (remainingSet (L1 :: rest)) [] votes with
    | nil => rw [hcs] at hc; cases hc
    | cons c cs =>
      rw [hcs, List.foldl_cons, ← List.foldl_map (f := fun p : Nat × Nat => mkFrozen [p.1, p.2])
        (g := PySet.add fsKey)] at hlen
      have : mkFrozen [c.1, c.2] ∈ (List.foldl (PySet.add fsKey) (PySet.add fsKey PySet.empty (mkFrozen [c.1, c.2]))
          (List.map (fun p : Nat × Nat => mkFrozen [p.1, p.2]) cs)).elems := by
        apply mem_foldl_add_of_mem
        rw [add_empty_elems]; simp
      revert this hlen
      generalize (List.foldl (PySet.add fsKey) (PySet.add fsKey PySet.empty (mkFrozen [c.1, c.2]))
          (List.map (fun p : Nat × Nat => mkFrozen [p.1, p.2]) cs)).elems = l
      intro hlen hm
      cases l with
      | nil => cases hm
      | cons => simp at hlen

theorem place_none (X : List Nat) (votes : List (List Nat)) (hne : X ≠ []) (hlen : X.length ≤ 2) :
    (place [none] X votes).2 = true ∧ (place [none] X votes).1.length > 1 := by
  match X, hne, hlen with
  | [x], _, _ => exact ⟨rfl, Nat.lt_succ_self 1⟩
  | [x1, x2], _, _ => exact ⟨rfl, Nat.lt_succ_of_lt (Nat.lt_succ_self 1)⟩

def st0 : St := ⟨[(initKey, [none])], [none], [none]⟩

theorem st0_inv (votes : List (List Nat)) (alts : List Nat) : Inv votes alts false st0 := by
  refine ⟨?_, ?_, ?_, Or.inl rfl, fun h => by cases h⟩
  · intro e he
    simp only [st0, List.mem_singleton] at he
    subst he
    exact ⟨⟨by simp [members], by simp [members]⟩, by simp [members], fun _ => rfl⟩
  · exact ⟨by simp [st0, members], by simp [st0, members]⟩
  · exact ⟨by simp [st0, members], by simp [st0, members]⟩

theorem initEntry_ok (votes : List (List Nat)) (alts : List Nat) : EntryOK votes alts (initKey, [none]) :=
  (st0_inv votes alts).S _ (by simp [st0])

theorem Inv.weaken {votes alts b st} (h : Inv votes alts b st) : Inv votes alts false st :=
  ⟨h.S, h.longest, h.locked, h.lockedNE, fun e => by cases e⟩

/-- after the first round (`i = 1`) something has been placed on `longest` -/
theorem firstRound_prog (votes : List (List Nat)) (alts : List Nat) (L1 : PySet Nat) (rest : List (PySet Nat))
    (hs : SetsSub alts (L1 :: rest)) (hL : L1.elems ≠ []) (hvotes : votes ≠ [])
    (hcomp : ∀ v ∈ votes, ∀ a ∈ alts, a ∈ v) :
    Inv votes alts true (st0.S.foldl (processKey votes (L1 :: rest) alts) st0) := by
  have hel := eligible_ne alts votes L1 rest hs hL hvotes hcomp
  simp only [st0, List.foldl_cons, List.foldl_nil]
  unfold processKey
  have h1 : (![none].contains (none : Option Nat)) = false := by decide
  have h2 : ¬ ([none] : Axis).length + alts.length < ([none] : Axis).length := by simp
  simp only [h1, Bool.false_eq_true, if_false, h2]
  cases hE : eligible (L1 :: rest) initKey.X votes with
  | nil => exact absurd hE hel
  | cons X Xs =>
    have hXspec : ∀ X' ∈ X :: Xs, XSpec votes alts initKey.X X' := by
      intro X' hX'; rw [← hE] at hX'
      exact eligible_spec alts votes _ _ X' hs hX'
    rw [List.foldl_cons]
    apply foldl_inv (Inv votes alts true)
    · have hX := hXspec X (by simp)
      have hi := processX_inv votes alts false initKey [none] X st0 (initEntry_ok votes alts) hX (st0_inv votes alts)
      refine ⟨hi.S, hi.longest, hi.locked, hi.lockedNE, fun _ => ?_⟩
      have hp := place_none X votes hX.ne hX.len
      have hg := place_good votes alts initKey [none] X (initEntry_ok votes alts) hX
      rcases hg with hg | hg
      · rw [hg] at hp; simp at hp
      · show members (processX votes [none] st0 X).longest ≠ []
        unfold processX
        dsimp only
        rw [if_pos hp.1]
        dsimp only
        rw [if_pos (by simpa [st0] using hp.2)]
        exact hg.2.2
    · intro st' X' hX' hst'
      exact processX_inv votes alts true initKey [none] X' st' (initEntry_ok votes alts)
        (hXspec X' (by simp [hX'])) hst'

end PrefVerif.C12DP
