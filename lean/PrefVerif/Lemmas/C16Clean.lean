import PrefVerif.Lemmas.C16Ballot
import PrefVerif.Lemmas.C16Names
import PrefVerif.Lemmas.C01Roundtrip
/-!
# C16 — on a clean file `autocorrect=True` takes the path of `autocorrect=False`

Autocorrect-parametric versions of the C01 write → parse lemmas: every alternative-name line of the
written file carries a name not yet among the values, every ballot line an order not yet in the
table, and the final recount writes back the three header numbers.
-/
namespace PrefVerif.C16
open PrefVerif PrefVerif.Py PrefVerif.InstanceIO PrefVerif.OrdinalIO PrefVerif.Spec.IO PrefVerif.IOL PrefVerif.IOLw
open PrefVerif.C01 PrefVerif.EntryPoints

/-! ## header lines -/

/-- a line whose alternative name (if it is a name line) is not yet used is read alike -/
theorem parseMetadata_clean (h : Header) (line : Str)
    (hfresh : ∀ k v, matchNumbered (s "# ALTERNATIVE NAME ") line = some (k, v) →
      v ∉ AList.values h.altNames) :
    parseMetadata h line true = parseMetadata h line false := by
  cases hm : matchNumbered (s "# ALTERNATIVE NAME ") line with
  | none => simp only [parseMetadata, hm]
  | some p =>
    obtain ⟨k, v⟩ := p
    simp only [parseMetadata, hm, assignName_of_not_mem h.altNames k v true (hfresh k v hm),
      assignName_false]

/-- an `# ALTERNATIVE NAME k: name` line with an unused name, under autocorrect -/
theorem parseMetadata_altName_true (h : Header) (k : Nat) (v : Str) (hv : ∀ c ∈ v, c ≠ '\n')
    (hn : v ∉ AList.values h.altNames) :
    parseMetadata h (altPfx ++ natToStr k ++ ':' :: padded v) true
      = .ok { h with altNames := AList.set h.altNames k v } := by
  rw [parseMetadata_clean, parseMetadata_altName h k v hv]
  intro k' v' hm
  have := matchNumbered_numbered altPfx k v hv
  rw [show s "# ALTERNATIVE NAME " = altPfx from rfl, this] at hm
  cases hm
  exact hn

/-- the alternative names come back under autocorrect when keys and values are pairwise distinct -/
theorem foldlM_altLines_true (l : AList Nat Str) (h0 : Header)
    (hk : (AList.keys (h0.altNames ++ l)).Nodup) (hv : (AList.values (h0.altNames ++ l)).Nodup)
    (hw : ∀ kv ∈ l, cleanText kv.2 = true) :
    (l.map (fun kv => altPfx ++ natToStr kv.1 ++ ':' :: padded kv.2)).foldlM
        (fun a ln => parseMetadata a ln true) h0
      = .ok { h0 with altNames := h0.altNames ++ l } := by
  induction l generalizing h0 with
  | nil => simp only [List.map_nil, List.foldlM_nil, List.append_nil]; rfl
  | cons p l ih =>
    obtain ⟨k, v⟩ := p
    have hkn : k ∉ AList.keys h0.altNames := by
      intro hm
      rw [keys_append] at hk
      exact (List.nodup_append.1 hk).2.2 k hm k (by simp [AList.keys]) rfl
    have hvn : v ∉ AList.values h0.altNames := by
      intro hm
      rw [values_append] at hv
      exact (List.nodup_append.1 hv).2.2 v hm v (by simp [AList.values]) rfl
    have hcl := (cleanText_iff _).1 (hw (k, v) (by simp))
    simp only [List.map_cons, List.foldlM_cons]
    rw [parseMetadata_altName_true h0 k v hcl.1.ne_nl hvn, set_of_not_mem _ _ _ hkn]
    simp only [bind, Except.bind]
    rw [ih { h0 with altNames := h0.altNames ++ [(k, v)] } (by simpa using hk) (by simpa using hv)
      (fun kv hkv => hw kv (by simp [hkv]))]
    simp

/-- `fold_header` of C01 under autocorrect (names pairwise distinct) -/
theorem fold_header_true (i i0 : OrdInst) (h : wfHeader i.header = true) (h0 : i0.header.altNames = [])
    (hn : (AList.values i.header.altNames).Nodup) :
    (hdrPl i).foldlM (headerStep true) i0
      = .ok { i0 with header := i.header, numUniqueOrders := i.numUniqueOrders } := by
  obtain ⟨hf, hk, hv⟩ := (wfHeader_iff _).1 h
  -- part 1: the nine text fields
  have hA : (Field.all.map (fun f => f.key ++ padded (f.get i.header))).foldlM (headerStep true) i0
      = .ok { i0 with header := { i.header with numAlternatives := i0.header.numAlternatives,
                                                numVoters := i0.header.numVoters, altNames := [] } } := by
    have := foldlM_lift (fun a l => parseMetadata a l true) (headerStep true)
      (fun a => { i0 with header := a }) (Field.all.map (fun f => f.key ++ padded (f.get i.header)))
      (by
        intro l hl a
        obtain ⟨f, _, rfl⟩ := List.mem_map.1 hl
        exact headerStep_lift true i0 a _ (field_not_unique f _))
      i0.header
    rw [← pl_metaLines _ (fun f => strip_of_clean (hf f)), foldlM_metaLines i0.header i.header
      (fun f => strip_of_clean (hf f)) true, h0] at this
    rw [← pl_metaLines _ (fun f => strip_of_clean (hf f))]
    exact this
  -- part 2: the numeric fields
  have hB : ∀ j : OrdInst,
      [numAltKey ++ ' ' :: natToStr i.header.numAlternatives,
       numVotersKey ++ ' ' :: natToStr i.header.numVoters,
       numUniqueKey ++ ' ' :: natToStr i.numUniqueOrders].foldlM (headerStep true) j
      = .ok { j with header := { j.header with numAlternatives := i.header.numAlternatives,
                                               numVoters := i.header.numVoters },
                     numUniqueOrders := i.numUniqueOrders } := by
    intro j
    have e1 := headerStep_lift true j j.header _ (numAlt_not_unique (' ' :: natToStr i.header.numAlternatives))
    rw [parseMetadata_numAlternatives] at e1
    have e2 := headerStep_lift true j { j.header with numAlternatives := i.header.numAlternatives } _
      (numVoters_not_unique (' ' :: natToStr i.header.numVoters))
    rw [parseMetadata_numVoters] at e2
    simp only [List.foldlM_cons, List.foldlM_nil]
    rw [show j = { j with header := j.header } from rfl, e1]
    simp only [Except.map, bind, Except.bind]
    rw [e2]
    simp only [Except.map]
    rw [headerStep_numUnique]
    rfl
  -- part 3: the alternative names
  have hC : ∀ j : OrdInst, j.header.altNames = [] →
      (i.header.altNames.map (fun kv => altPfx ++ natToStr kv.1 ++ ':' :: padded kv.2)).foldlM
        (headerStep true) j = .ok { j with header := { j.header with altNames := i.header.altNames } } := by
    intro j hj
    have := foldlM_lift (fun a l => parseMetadata a l true) (headerStep true)
      (fun a => { j with header := a })
      (i.header.altNames.map (fun kv => altPfx ++ natToStr kv.1 ++ ':' :: padded kv.2))
      (by
        intro l hl a
        obtain ⟨kv, _, rfl⟩ := List.mem_map.1 hl
        rw [List.append_assoc]
        exact headerStep_lift true j a _ (alt_not_unique _))
      j.header
    rw [foldlM_altLines_true i.header.altNames j.header (by rw [hj]; simpa using hk)
      (by rw [hj]; simpa using hn) hv, hj] at this
    exact this
  rw [hdrPl, foldlM_append_ok _ _ _ _ _ (by rw [foldlM_append_ok _ _ _ _ _ hA]; exact hB _), hC _ rfl]

/-! ## ballot lines -/

/-- a line whose order (if it is a ballot line) is not yet in the table is read alike -/
theorem ballotLine_true_eq_false (a : OrdInst) (raw : Str)
    (hfresh : ∀ m o, decodeLine raw = .ok (some (m, o)) → o ∉ AList.keys a.multiplicity) :
    ballotLine true a raw = ballotLine false a raw := by
  rw [ballotLine_eq, ballotLine_eq]
  cases hd : decodeLine raw with
  | error e => rfl
  | ok r =>
    cases r with
    | none => rfl
    | some mo =>
      obtain ⟨m, o⟩ := mo
      have := hfresh m o hd
      simp only [applyOrd, stepTbl_of_not_mem _ _ _ _ _ this]

/-- the written ballot lines are read alike as long as the table lists exactly the orders read
so far and the orders to come are new -/
theorem foldlM_ballots_true (L : List Order) (m : Order → Nat) (a : OrdInst)
    (hk : AList.keys a.multiplicity = a.orders) (hnd : (a.orders ++ L).Nodup)
    (hcl : ∀ o ∈ L, ∀ c ∈ o, c ≠ []) :
    (L.map (fun o => ballotText (m o) o ++ ['\n'])).foldlM (ballotLine true) a
      = (L.map (fun o => ballotText (m o) o ++ ['\n'])).foldlM (ballotLine false) a := by
  induction L generalizing a with
  | nil => rfl
  | cons o L ih =>
    have hw := ballotLine_written a (m o) o (hcl o (by simp))
    have hno : o ∉ AList.keys a.multiplicity := by
      rw [hk]
      intro hm
      exact (List.nodup_append.1 hnd).2.2 o hm o (by simp) rfl
    have ht : ballotLine true a (ballotText (m o) o ++ ['\n']) = ballotLine false a (ballotText (m o) o ++ ['\n']) := by
      apply ballotLine_true_eq_false
      intro m' o' hd
      have h2 := ballotLine_some false a _ m' o' hd
      rw [hw] at h2
      have h3 := congrArg (fun r => match r with | .ok (j : OrdInst) => j.orders | .error _ => []) h2
      simp only [applyOrd, stepTbl_false] at h3
      have : o = o' := by simpa using List.append_cancel_left h3
      exact this ▸ hno
    simp only [List.map_cons, List.foldlM_cons, ht, hw]
    simp only [bind, Except.bind]
    apply ih
    · show AList.keys (AList.set a.multiplicity o (m o)) = a.orders ++ [o]
      rw [keys_set_of_not_mem _ _ _ hno, hk]
    · show (a.orders ++ [o] ++ L).Nodup
      simpa using hnd
    · exact fun o' ho' => hcl o' (by simp [ho'])

/-! ## the recount -/

theorem sum_values_normOrd (i : OrdInst) (h : wfOrd i = true) :
    (AList.values (normOrd i).multiplicity).sum = (AList.values i.multiplicity).sum := by
  obtain ⟨_, _, hnd, hk, _⟩ := (wfOrd_iff i).1 h
  have h1 : AList.values (normOrd i).multiplicity
      = (sorted i).map (fun o => (i.multiplicity.get? o).getD 0) := by
    simp [normOrd_multiplicity, AList.values]
  have h2 : AList.values i.multiplicity = i.orders.map (fun o => (i.multiplicity.get? o).getD 0) := by
    rw [← hk, map_get?_keys _ (hk ▸ hnd)]
  rw [h1, h2]
  exact ((stableSort_perm _ _).map _).sum_nat

/-- `parse` (autocorrect) of the lines `readlines()` returns for the written file -/
theorem parse_written_true (i i0 : OrdInst) (h : wfOrd i = true)
    (hn : (AList.values i.header.altNames).Nodup)
    (hc : i.header.numAlternatives = i.header.altNames.length ∧
          i.header.numVoters = (AList.values i.multiplicity).sum ∧ i.numUniqueOrders = i.orders.length)
    (h0 : i0.header.altNames = []) (h1 : i0.orders = []) (h2 : i0.multiplicity = []) :
    parse i0 ((hdrLines i ++ ballotLines i).map (fun l => l ++ ['\n'])) true false
      = .ok (normOrd i) := by
  obtain ⟨hh, hne, hnd, hk, hall⟩ := (wfOrd_iff i).1 h
  have hsne : sorted i ≠ [] := fun h0 => hne ((stableSort_eq_nil_iff _ _).1 h0)
  obtain ⟨r, rs, hrs⟩ : ∃ r rs, (ballotLines i).map (fun l => l ++ ['\n']) = r :: rs := by
    apply List.exists_cons_of_ne_nil
    simpa [ballotLines] using hsne
  have hr : startsWith (strip r) ['#'] = false := by
    have : r ∈ (ballotLines i).map (fun l => l ++ ['\n']) := by rw [hrs]; simp
    obtain ⟨l, hl, rfl⟩ := List.mem_map.1 this
    obtain ⟨o, _, rfl⟩ := List.mem_map.1 hl
    exact ballotText_not_hash _ o
  have hstrip : ((hdrLines i).map (fun l => l ++ ['\n'])).map strip = hdrPl i := by
    rw [← pl_hdrLines i hh, List.map_map]; rfl
  have hloop := headerLoop_append (headerStep true) ((hdrLines i).map (fun l => l ++ ['\n'])) r rs
    i0 _ 0
    (by
      intro l hl
      have : strip l ∈ hdrPl i := by rw [← hstrip]; exact List.mem_map_of_mem hl
      exact hdrPl_hash i _ this)
    (by rw [hstrip]; exact fold_header_true i i0 hh h0 hn)
    hr
  have hb := fold_ballots (sorted i) (fun o => (i.multiplicity.get? o).getD 0)
    { i0 with header := i.header, numUniqueOrders := i.numUniqueOrders } h1 h2
    ((nodup_stableSort _ _).2 hnd)
    (fun o ho => (hall o ((mem_stableSort _ _ _).1 ho)).2)
  rw [← foldlM_ballots_true (sorted i) _ _ (by simp [h1, h2, AList.keys])
    (by simpa [h1] using (nodup_stableSort _ _).2 hnd)
    (fun o ho => (hall o ((mem_stableSort _ _ _).1 ho)).2)] at hb
  have hbl : (ballotLines i).map (fun l => l ++ ['\n'])
      = (sorted i).map (fun o => ballotText ((i.multiplicity.get? o).getD 0) o ++ ['\n']) := by
    simp [ballotLines]
  have e2 := sum_values_normOrd i h
  have e3 : (sorted i).length = i.orders.length := length_stableSort _ _
  simp only [parse, List.map_append, hrs]
  rw [hloop]
  simp only [bind, Except.bind, Nat.zero_add, List.length_map, Bool.false_eq_true, if_false]
  rw [show List.drop (hdrLines i).length ((hdrLines i).map (fun l => l ++ ['\n']) ++ r :: rs) = r :: rs by
        rw [List.drop_append_of_le_length (by simp)]; simp,
      ← hrs, hbl, hb]
  simp only [if_true, pure, Except.pure]
  show Except.ok (_ : OrdInst) = Except.ok (normOrd i)
  congr 1
  show ({ header := { i.header with numAlternatives := i.header.altNames.length,
                                    numVoters := (AList.values (normOrd i).multiplicity).sum },
          numUniqueOrders := (sorted i).length, orders := sorted i,
          multiplicity := (normOrd i).multiplicity } : OrdInst) = normOrd i
  rw [e2, e3, ← hc.1, ← hc.2.1, ← hc.2.2]
  rfl

/-- autocorrect parse of the written file, through `parse_file` -/
theorem parseFile_write_true {W : Type} (readW : Str → Option W) (i : OrdInst) (h : wfOrd i = true)
    (hn : (AList.values i.header.altNames).Nodup)
    (hc : i.header.numAlternatives = i.header.altNames.length ∧
          i.header.numVoters = (AList.values i.multiplicity).sum ∧ i.numUniqueOrders = i.orders.length)
    (base ext : Str) (hext : typeValid .ordinal ext = true) :
    parseFile readW .ordinal base ext (write i) true false = .ok (.ord (normOrd i)) := by
  have hh := ((wfOrd_iff i).1 h).1
  simp only [parseFile, parseLines, fresh, AnyInst.setHeader, AnyInst.header, hext, Bool.not_true,
    Bool.false_eq_true, if_false]
  rw [write_eq, readlines_unlines _ (lineOK_lines i hh), parse_written_true i _ h hn hc rfl rfl rfl]
  rfl

end PrefVerif.C16
