import PrefVerif.Lemmas.C12DPInv
/-!
The sets `L[1], …, L[m]` of `get_L_sets(alternatives, unique_votes)` partition the alternatives when the profile
is non-empty and every order ranks every alternative: each round removes the alternatives ranked last among the
remaining ones, and the first order alone guarantees that at least one is removed while some remain.
-/
namespace PrefVerif.C18BF
open PrefVerif.KAlt PrefVerif.C12DP

theorem contains_nat (s : PySet Nat) (a : Nat) : s.contains natKey a = true ↔ a ∈ s.elems := by
  simp [PySet.contains, natKey]

theorem contains_nat_false (s : PySet Nat) (a : Nat) : s.contains natKey a = false ↔ a ∉ s.elems := by
  rw [← contains_nat]; simp

theorem add_nodup (s : PySet Nat) (k : Nat) (h : s.elems.Nodup) : (s.add natKey k).elems.Nodup := by
  rw [add_elems]
  split
  · exact h
  · rename_i hc
    have : k ∉ s.elems := fun hk => hc ((contains_nat s k).2 hk)
    rw [List.nodup_append]
    refine ⟨h, by simp, ?_⟩
    intro a ha b hb
    simp only [List.mem_singleton] at hb
    subst hb
    intro e; subst e; exact this ha

/-- the filter applied to every vote in one round of `get_L_sets` -/
def roundFilter (alts : List Nat) (prev : PySet Nat) (a : Nat) : Bool :=
  !prev.contains natKey a && alts.contains a

theorem roundFilter_iff (alts : List Nat) (prev : PySet Nat) (a : Nat) :
    roundFilter alts prev a = true ↔ a ∉ prev.elems ∧ a ∈ alts := by
  unfold roundFilter
  simp only [Bool.and_eq_true, Bool.not_eq_true', contains_nat_false, List.contains_eq_mem, decide_eq_true_eq]

theorem lRound_eq (alts : List Nat) (prev : PySet Nat) (v : List Nat) (vs : List (List Nat)) (last : PySet Nat) :
    lRound alts prev (v :: vs) last =
      ((v.filter (roundFilter alts prev)) :: (lRound alts prev vs
        (match (v.filter (roundFilter alts prev)).getLast? with
          | some a => last.add natKey a
          | none => last)).1,
       (lRound alts prev vs
        (match (v.filter (roundFilter alts prev)).getLast? with
          | some a => last.add natKey a
          | none => last)).2) := rfl

theorem lRound_fst (alts : List Nat) (prev : PySet Nat) (vs : List (List Nat)) (last : PySet Nat) :
    (lRound alts prev vs last).1 = vs.map (fun v => v.filter (roundFilter alts prev)) := by
  induction vs generalizing last with
  | nil => rfl
  | cons v vs ih => rw [lRound_eq]; simp only [List.map_cons]; rw [ih]

theorem lRound_nodup (alts : List Nat) (prev : PySet Nat) (vs : List (List Nat)) (last : PySet Nat)
    (h : last.elems.Nodup) : (lRound alts prev vs last).2.elems.Nodup := by
  induction vs generalizing last with
  | nil => exact h
  | cons v vs ih =>
    rw [lRound_eq]
    apply ih
    split
    · exact add_nodup _ _ h
    · exact h

theorem lRound_mono (alts : List Nat) (prev : PySet Nat) (vs : List (List Nat)) (last : PySet Nat) (a : Nat)
    (h : a ∈ last.elems) : a ∈ (lRound alts prev vs last).2.elems := by
  induction vs generalizing last with
  | nil => exact h
  | cons v vs ih =>
    rw [lRound_eq]
    apply ih
    split
    · exact mem_add_of_mem _ _ _ _ h
    · exact h

theorem mem_add_self (s : PySet Nat) (k : Nat) : k ∈ (s.add natKey k).elems := by
  rw [add_elems]
  split
  · rename_i hc; exact (contains_nat s k).1 hc
  · simp

/-- the lowest-ranked remaining alternative of every vote is collected -/
theorem lRound_last_mem (alts : List Nat) (prev : PySet Nat) (vs : List (List Nat)) (last : PySet Nat)
    (v : List Nat) (hv : v ∈ vs) (a : Nat) (ha : (v.filter (roundFilter alts prev)).getLast? = some a) :
    a ∈ (lRound alts prev vs last).2.elems := by
  induction vs generalizing last with
  | nil => cases hv
  | cons w ws ih =>
    rw [lRound_eq]
    simp only [List.mem_cons] at hv
    rcases hv with rfl | hv
    · apply lRound_mono
      rw [ha]
      exact mem_add_self _ _
    · exact ih _ hv

/-- nothing else is collected -/
theorem lRound_mem (alts : List Nat) (prev : PySet Nat) (vs : List (List Nat)) (last : PySet Nat) (a : Nat)
    (h : a ∈ (lRound alts prev vs last).2.elems) :
    a ∈ last.elems ∨ ∃ v ∈ vs, a ∈ v.filter (roundFilter alts prev) := by
  induction vs generalizing last with
  | nil => exact Or.inl h
  | cons w ws ih =>
    rw [lRound_eq] at h
    rcases ih _ h with h | ⟨v, hv, hav⟩
    · split at h
      · rename_i x hx
        rcases mem_add_elems natKey last x a h with h | h
        · exact Or.inl h
        · subst h
          exact Or.inr ⟨w, by simp, List.mem_of_getLast? hx⟩
      · exact Or.inl h
    · exact Or.inr ⟨v, by simp [hv], hav⟩

theorem perm_append_filter_not' (l R : List Nat) (hl : l.Nodup) (hsub : ∀ a ∈ l, a ∈ R) (hR : R.Nodup) :
    (l ++ R.filter (fun i => !l.contains i)).Perm R := by
  have h1 := List.filter_append_perm (fun i => l.contains i) R
  refine (List.Perm.append_right _ ?_).trans h1
  rw [List.perm_ext_iff_of_nodup hl (hR.sublist List.filter_sublist)]
  intro a
  simp only [List.mem_filter, List.contains_eq_mem, decide_eq_true_eq]
  exact ⟨fun h => ⟨hsub a h, h⟩, fun h => h.2⟩

/-- state of `get_L_sets` before a round: `R` are the alternatives not yet assigned to an `L` set -/
structure LInv (alts : List Nat) (vc : List (List Nat)) (prev : PySet Nat) (R : List Nat) : Prop where
  ne : vc ≠ []
  all : ∀ v ∈ vc, ∀ a ∈ R, a ∈ v
  only : ∀ v ∈ vc, ∀ a ∈ v, a ∈ alts → a ∉ prev.elems → a ∈ R
  sub : ∀ a ∈ R, a ∉ prev.elems ∧ a ∈ alts
  nd : R.Nodup

theorem lLoop_perm (alts : List Nat) (n : Nat) (vc : List (List Nat)) (prev : PySet Nat) (R : List Nat)
    (h : LInv alts vc prev R) (hn : R.length ≤ n) :
    ((lLoop alts n vc prev).map (fun s => s.elems)).flatten.Perm R ∧
      ∀ s ∈ lLoop alts n vc prev, s.elems.Nodup := by
  induction n generalizing vc prev R with
  | zero =>
    have : R = [] := List.eq_nil_of_length_eq_zero (by omega)
    subst this
    simp [lLoop]
  | succ n ih =>
    unfold lLoop
    dsimp only
    generalize hr : lRound alts prev vc PySet.empty = r
    have hfst : r.1 = vc.map (fun v => v.filter (roundFilter alts prev)) := by rw [← hr, lRound_fst]
    have hnd : r.2.elems.Nodup := by
      rw [← hr]; exact lRound_nodup _ _ _ _ (by simp [PySet.empty])
    have hmem : ∀ a ∈ r.2.elems, ∃ v ∈ vc, a ∈ v.filter (roundFilter alts prev) := by
      intro a ha
      rw [← hr] at ha
      rcases lRound_mem _ _ _ _ a ha with h' | h'
      · simp [PySet.empty] at h'
      · exact h'
    have hsubR : ∀ a ∈ r.2.elems, a ∈ R := by
      intro a ha
      obtain ⟨v, hv, hav⟩ := hmem a ha
      rw [List.mem_filter, roundFilter_iff] at hav
      exact h.only v hv a hav.1 hav.2.2 hav.2.1
    have hperm := perm_append_filter_not' r.2.elems R hnd hsubR h.nd
    have hinv : LInv alts r.1 r.2 (R.filter (fun i => !r.2.elems.contains i)) := by
      refine ⟨?_, ?_, ?_, ?_, ?_⟩
      · rw [hfst]
        intro e
        exact h.ne (List.map_eq_nil_iff.1 e)
      · intro v hv a ha
        rw [hfst, List.mem_map] at hv
        obtain ⟨v0, hv0, rfl⟩ := hv
        have haR : a ∈ R := (List.mem_filter.1 ha).1
        rw [List.mem_filter, roundFilter_iff]
        exact ⟨h.all v0 hv0 a haR, h.sub a haR⟩
      · intro v hv a ha hal hnl
        rw [hfst, List.mem_map] at hv
        obtain ⟨v0, hv0, rfl⟩ := hv
        rw [List.mem_filter, roundFilter_iff] at ha
        rw [List.mem_filter]
        exact ⟨h.only v0 hv0 a ha.1 hal ha.2.1, by simpa using hnl⟩
      · intro a ha
        rw [List.mem_filter] at ha
        exact ⟨by simpa using ha.2, (h.sub a ha.1).2⟩
      · exact h.nd.sublist List.filter_sublist
    have hlen : (R.filter (fun i => !r.2.elems.contains i)).length ≤ n := by
      have hl := hperm.length_eq
      rw [List.length_append] at hl
      cases hR : R with
      | nil => simp
      | cons a0 R0 =>
        have hpos : 0 < r.2.elems.length := by
          apply List.length_pos_iff.2
          obtain ⟨v0, hv0⟩ := List.exists_mem_of_ne_nil _ h.ne
          have ha0 : a0 ∈ R := by rw [hR]; simp
          have hin : a0 ∈ v0.filter (roundFilter alts prev) := by
            rw [List.mem_filter, roundFilter_iff]
            exact ⟨h.all v0 hv0 a0 ha0, h.sub a0 ha0⟩
          cases hl' : (v0.filter (roundFilter alts prev)).getLast? with
          | none =>
            rw [List.getLast?_eq_none_iff] at hl'
            rw [hl'] at hin; cases hin
          | some x =>
            have := lRound_last_mem alts prev vc PySet.empty v0 hv0 x hl'
            rw [hr] at this
            exact List.ne_nil_of_mem this
        rw [← hR]
        omega
    obtain ⟨ih1, ih2⟩ := ih r.1 r.2 _ hinv hlen
    constructor
    · simp only [List.map_cons, List.flatten_cons]
      exact (List.Perm.append_left _ ih1).trans hperm
    · intro s hs
      simp only [List.mem_cons] at hs
      rcases hs with rfl | hs
      · exact hnd
      · exact ih2 s hs

/-- the `L` sets partition the alternatives -/
theorem getLSets_perm (alts : List Nat) (orders : List (List Nat)) (ha : alts.Nodup) (hord : orders ≠ [])
    (hcomp : ∀ o ∈ orders, ∀ a ∈ alts, a ∈ o) :
    ((getLSets alts orders).map (fun s => s.elems)).flatten.Perm alts ∧
      ∀ s ∈ getLSets alts orders, s.elems.Nodup := by
  unfold getLSets
  apply lLoop_perm alts alts.length orders PySet.empty alts _ (Nat.le_refl _)
  exact ⟨hord, hcomp, fun _ _ a _ hal _ => hal, fun a hal => ⟨by simp [PySet.empty], hal⟩, ha⟩

theorem getLSets_length (alts : List Nat) (orders : List (List Nat)) :
    (getLSets alts orders).length = alts.length := by
  unfold getLSets
  generalize alts.length = n
  generalize (PySet.empty : PySet Nat) = prev
  induction n generalizing orders prev with
  | zero => rfl
  | succ n ih => unfold lLoop; simp [ih]

end PrefVerif.C18BF
