import PrefVerif.Spec.IOWF
import PrefVerif.Lemmas.IOLines
/-!
# The header lines of a written PrefLib file

`writeMetadata h` and `writeAltNames` as lists of lines; what each line looks like after
`strip()` (`pl`); no line contains a line break when the header is well formed.
-/
namespace PrefVerif.IOL
open PrefVerif.Py PrefVerif.InstanceIO PrefVerif.Spec.IO

/-- the nine text fields of `write_metadata`, in written order -/
inductive Field where
  | fileName | title | description | dataType | modificationType | relatesTo | relatedFiles
  | publicationDate | modificationDate
  deriving DecidableEq, Repr

def Field.all : List Field :=
  [.fileName, .title, .description, .dataType, .modificationType, .relatesTo, .relatedFiles,
   .publicationDate, .modificationDate]

/-- the key as documented (between `# ` and `:`) -/
def Field.name : Field → Str
  | .fileName => s "FILE NAME" | .title => s "TITLE" | .description => s "DESCRIPTION"
  | .dataType => s "DATA TYPE" | .modificationType => s "MODIFICATION TYPE"
  | .relatesTo => s "RELATES TO" | .relatedFiles => s "RELATED FILES"
  | .publicationDate => s "PUBLICATION DATE" | .modificationDate => s "MODIFICATION DATE"

/-- `# KEY:` -/
def Field.key (f : Field) : Str := '#' :: ' ' :: f.name ++ [':']

def Field.get : Field → Header → Str
  | .fileName, h => h.fileName | .title, h => h.title | .description, h => h.description
  | .dataType, h => h.dataType | .modificationType, h => h.modificationType
  | .relatesTo, h => h.relatesTo | .relatedFiles, h => h.relatedFiles
  | .publicationDate, h => h.publicationDate | .modificationDate, h => h.modificationDate

def Field.set : Field → Header → Str → Header
  | .fileName, h, v => { h with fileName := v } | .title, h, v => { h with title := v }
  | .description, h, v => { h with description := v } | .dataType, h, v => { h with dataType := v }
  | .modificationType, h, v => { h with modificationType := v }
  | .relatesTo, h, v => { h with relatesTo := v } | .relatedFiles, h, v => { h with relatedFiles := v }
  | .publicationDate, h, v => { h with publicationDate := v }
  | .modificationDate, h, v => { h with modificationDate := v }

theorem Field.mem_all (f : Field) : f ∈ Field.all := by cases f <;> simp [Field.all]

/-- `# KEY: value` -/
def fieldLine (f : Field) (v : Str) : Str := f.key ++ ' ' :: v

/-- the lines of `write_metadata` -/
def metaLines (h : Header) : List Str := Field.all.map (fun f => fieldLine f (f.get h))

/-- `# NUMBER …: n` (`key` includes the colon) -/
def numLine (key : Str) (n : Nat) : Str := key ++ ' ' :: natToStr n

/-- `# ALTERNATIVE NAME k: name` (`pfx` includes the space before the number) -/
def numberedLine (pfx : Str) (kv : Nat × Str) : Str := pfx ++ natToStr kv.1 ++ ':' :: ' ' :: kv.2

def altPfx : Str := s "# ALTERNATIVE NAME "

theorem writeMetadata_eq (h : Header) : writeMetadata h = unlines (metaLines h) := by
  simp [writeMetadata, unlines, metaLines, Field.all, fieldLine, Field.key, Field.name, Field.get, s]

theorem writeAltNames_eq (names : AList Nat Str) :
    writeAltNames names = unlines (names.map (numberedLine altPfx)) := by
  simp [writeAltNames, unlines, numberedLine, altPfx, s, Function.comp_def]

/-! ## well-formedness unfolded -/

theorem cleanText_iff (t : Str) : cleanText t = true ↔ LineOK t ∧ strip t = t := by
  simp [cleanText, LineOK]

theorem wfHeader_iff (h : Header) : wfHeader h = true ↔
    (∀ f : Field, cleanText (f.get h) = true) ∧ (AList.keys h.altNames).Nodup ∧
    ∀ kv ∈ h.altNames, cleanText kv.2 = true := by
  constructor
  · intro hw
    simp only [wfHeader, Bool.and_eq_true, decide_eq_true_eq, List.all_eq_true] at hw
    obtain ⟨⟨⟨⟨⟨⟨⟨⟨⟨⟨h1, h2⟩, h3⟩, h4⟩, h5⟩, h6⟩, h7⟩, h8⟩, h9⟩, hk⟩, hv⟩ := hw
    refine ⟨fun f => by cases f <;> assumption, hk, fun kv hkv => hv kv.2 ?_⟩
    exact List.mem_map.2 ⟨kv, hkv, rfl⟩
  · rintro ⟨hf, hk, hv⟩
    simp only [wfHeader, Bool.and_eq_true, decide_eq_true_eq, List.all_eq_true]
    refine ⟨⟨⟨⟨⟨⟨⟨⟨⟨⟨hf .fileName, hf .title⟩, hf .description⟩, hf .dataType⟩, hf .modificationType⟩,
      hf .relatesTo⟩, hf .relatedFiles⟩, hf .publicationDate⟩, hf .modificationDate⟩, hk⟩, ?_⟩
    intro v hvm
    obtain ⟨kv, hkv, rfl⟩ := List.mem_map.1 hvm
    exact hv kv hkv

/-! ## the lines contain no line break -/

theorem lineOK_key (f : Field) : LineOK f.key := by
  cases f <;> exact lineOK_of_all (by decide)

theorem lineOK_fieldLine (f : Field) {v : Str} (hv : LineOK v) : LineOK (fieldLine f v) :=
  (lineOK_key f).append (LineOK.cons (by decide) hv)

theorem lineOK_numLine {key : Str} (hk : LineOK key) (n : Nat) : LineOK (numLine key n) :=
  hk.append (LineOK.cons (by decide) (lineOK_natToStr n))

theorem lineOK_numberedLine {pfx : Str} (hp : LineOK pfx) (kv : Nat × Str) (hv : LineOK kv.2) :
    LineOK (numberedLine pfx kv) :=
  (hp.append (lineOK_natToStr _)).append (LineOK.cons (by decide) (LineOK.cons (by decide) hv))

theorem lineOK_altPfx : LineOK altPfx := lineOK_of_all (by decide)

theorem lineOK_metaLines {h : Header} (hw : wfHeader h = true) : ∀ l ∈ metaLines h, LineOK l := by
  intro l hl
  obtain ⟨f, _, rfl⟩ := List.mem_map.1 hl
  exact lineOK_fieldLine f ((cleanText_iff _).1 (((wfHeader_iff h).1 hw).1 f)).1

theorem lineOK_altLines {h : Header} (hw : wfHeader h = true) :
    ∀ l ∈ h.altNames.map (numberedLine altPfx), LineOK l := by
  intro l hl
  obtain ⟨kv, hkv, rfl⟩ := List.mem_map.1 hl
  exact lineOK_numberedLine lineOK_altPfx kv ((cleanText_iff _).1 (((wfHeader_iff h).1 hw).2.2 kv hkv)).1

/-! ## the stripped lines -/

theorem pl_fieldLine (f : Field) {v : Str} (hv : strip v = v) :
    pl (fieldLine f v) = f.key ++ padded v := by
  have hk : rstrip ('#' :: (' ' :: f.name ++ [':'])) = '#' :: (' ' :: f.name ++ [':']) :=
    rstrip_snoc_not_space (d := ':') (by decide) ('#' :: ' ' :: f.name)
  exact pl_key_value (c := '#') (by decide) (' ' :: f.name ++ [':']) v hk hv

/-- numeric line, for a key `#…:` -/
theorem pl_numLine (k : Str) (n : Nat) :
    pl (numLine ('#' :: k ++ [':']) n) = '#' :: k ++ [':'] ++ ' ' :: natToStr n := by
  have hk : rstrip ('#' :: (k ++ [':'])) = '#' :: (k ++ [':']) :=
    rstrip_snoc_not_space (d := ':') (by decide) ('#' :: k)
  have := pl_key_value (c := '#') (by decide) (k ++ [':']) (natToStr n) hk (strip_natToStr n)
  cases hn : natToStr n with
  | nil => exact absurd hn (natToStr_ne_nil n)
  | cons a v => rw [hn, padded_cons] at this; simpa [numLine, hn] using this

/-- numbered line, for a prefix `#… ` -/
theorem pl_numberedLine (p : Str) (k : Nat) {v : Str} (hv : strip v = v) :
    pl (numberedLine ('#' :: p) (k, v)) = '#' :: p ++ natToStr k ++ ':' :: padded v := by
  have hk : rstrip ('#' :: (p ++ natToStr k ++ [':'])) = '#' :: (p ++ natToStr k ++ [':']) :=
    rstrip_snoc_not_space (d := ':') (by decide) ('#' :: (p ++ natToStr k))
  have := pl_key_value (c := '#') (by decide) (p ++ natToStr k ++ [':']) v hk hv
  simpa [numberedLine] using this

end PrefVerif.IOL
