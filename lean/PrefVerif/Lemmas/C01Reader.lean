import PrefVerif.Lemmas.C01Header
import PrefVerif.Lemmas.IOReaderHdr
/-!
# C01 — the independent reader on a written ordinal file
-/
namespace PrefVerif.C01
open PrefVerif PrefVerif.Py PrefVerif.InstanceIO PrefVerif.OrdinalIO PrefVerif.Spec.IO PrefVerif.IOL
open PrefVerif.Spec.Format (itemsGo items keyValue numberedKey digitsToNat?)

/-! ## ballots -/

theorem sClass_multi {cl : List Nat} (h : cl.length ≠ 1) :
    sClass cl = '{' :: join [',', ' '] (cl.map natToStr) ++ ['}'] := by
  match cl, h with
  | [], _ => rfl
  | [_], h => exact absurd rfl h
  | _ :: _ :: _, _ => rfl

/-- a class followed by anything: the class is recorded once the item ends -/
theorem itemsGo_sClass_brace {cl : List Nat} (h : cl.length ≠ 1) (rest : Str) (done : List (List Nat)) :
    itemsGo (sClass cl ++ rest) done none [] = itemsGo rest (cl :: done) none [] := by
  rw [sClass_multi h]
  cases cl with
  | nil =>
    simp only [List.map_nil, join_nil, List.nil_append, List.cons_append]
    rw [itemsGo_open, itemsGo_close_nil]; rfl
  | cons a cl =>
    have e : '{' :: join [',', ' '] ((a :: cl).map natToStr) ++ ['}'] ++ rest
        = '{' :: (join [',', ' '] ((a :: cl).map natToStr) ++ '}' :: rest) := by simp
    rw [e, itemsGo_open, itemsGo_group_body]; rfl

theorem itemsGo_sClass_sep (cl : List Nat) (rest : Str) (done : List (List Nat)) :
    itemsGo (sClass cl ++ ',' :: ' ' :: rest) done none [] = itemsGo rest (cl :: done) none [] := by
  by_cases h1 : cl.length = 1
  · obtain ⟨a, rfl⟩ := List.length_eq_one_iff.1 h1
    show itemsGo (natToStr a ++ ',' :: ' ' :: rest) done none [] = _
    rw [itemsGo_number, itemsGo_comma_top_num, itemsGo_space]
  · rw [itemsGo_sClass_brace h1, itemsGo_comma_top_nil, itemsGo_space]

theorem itemsGo_sClass_end (cl : List Nat) (done : List (List Nat)) :
    itemsGo (sClass cl) done none [] = some (cl :: done).reverse := by
  by_cases h1 : cl.length = 1
  · obtain ⟨a, rfl⟩ := List.length_eq_one_iff.1 h1
    have := itemsGo_number a [] done none
    rw [List.append_nil] at this
    show itemsGo (natToStr a) done none [] = _
    rw [this, itemsGo_end_num]
  · have := itemsGo_sClass_brace h1 [] done
    rw [List.append_nil] at this
    rw [this, itemsGo_end_nil]

theorem itemsGo_sOrder (o : Order) (done : List (List Nat)) :
    itemsGo (sOrder o) done none [] = some (done.reverse ++ o) := by
  induction o generalizing done with
  | nil => simp [sOrder, join_nil, itemsGo_end_nil]
  | cons c o ih =>
    cases o with
    | nil => simp [sOrder, join_singleton, itemsGo_sClass_end]
    | cons d o =>
      have e : sOrder (c :: d :: o) = sClass c ++ ',' :: ' ' :: sOrder (d :: o) := by
        simp [sOrder, join_cons_cons]
      rw [e, itemsGo_sClass_sep, ih]; simp

/-- the reader's view of a written ballot line -/
theorem reader_ballotText (m : Nat) (o : Order) :
    Spec.Format.ballotLine (ballotText m o) = some (m, o) := by
  have hrun := takeWhile_run (p := fun c => c != ':') (natToStr m) (':' :: ' ' :: renderOrder o)
    (fun c hc => by simpa using natToStr_ne hc (d := ':') (by decide))
    (by intro c hc; simp at hc; subst hc; decide)
  have hit : items (' ' :: renderOrder o) = some o := by
    rw [items, itemsGo_space, renderOrder_eq, itemsGo_sOrder]; rfl
  simp only [Spec.Format.ballotLine, ballotText, hrun.1, hrun.2, List.drop_succ_cons, List.drop_zero,
    digitsToNat?_natToStr, hit]

theorem reader_ballotLines (i : OrdInst) :
    (ballotLines i).mapM Spec.Format.ballotLine
      = some ((sorted i).map (fun o => ((i.multiplicity.get? o).getD 0, o))) :=
  mapM_map_some _ _ _ _ (fun o _ => reader_ballotText _ o)

theorem ballotText_not_hash' (m : Nat) (o : Order) : ['#'].isPrefixOf (ballotText m o) = false := by
  cases hn : natToStr m with
  | nil => exact absurd hn (natToStr_ne_nil m)
  | cons a v =>
    have ha : a.isDigit = true := natToStr_isDigit (n := m) (by simp [hn])
    have hb : ('#' == a) = false := by
      cases hh : '#' == a with
      | false => rfl
      | true => have := eq_of_beq hh; subst this; exact absurd ha (by decide)
    simp [ballotText, hn, List.isPrefixOf, hb]

theorem ballotText_ne_nil (m : Nat) (o : Order) : ballotText m o ≠ [] := by
  simp [ballotText, natToStr_ne_nil]

/-- multiplicities of the written ballots never increase -/
theorem nonIncreasing_sorted (i : OrdInst) :
    Spec.Format.nonIncreasing ((sorted i).map (fun o => (i.multiplicity.get? o).getD 0)) = true := by
  apply nonIncreasing_of_pairwise
  rw [List.pairwise_map]
  exact (sorted_sortedBy i).imp (fun h => keyLe_mult h)

/-! ## the header, and the whole file -/

def kvNum (i : OrdInst) : List (Str × Str) :=
  [(s "NUMBER ALTERNATIVES", natToStr i.header.numAlternatives),
   (s "NUMBER VOTERS", natToStr i.header.numVoters),
   (s "NUMBER UNIQUE ORDERS", natToStr i.numUniqueOrders)]

theorem map_keyValue_numLines (i : OrdInst) : (numLines i).map keyValue = kvNum i := by
  have h1 := keyValue_numLine (s "NUMBER ALTERNATIVES") (by decide) i.header.numAlternatives
  have h2 := keyValue_numLine (s "NUMBER VOTERS") (by decide) i.header.numVoters
  have h3 := keyValue_numLine (s "NUMBER UNIQUE ORDERS") (by decide) i.numUniqueOrders
  simp only [numLines, kvNum, List.map_cons, List.map_nil]
  rw [show numAltKey = '#' :: ' ' :: s "NUMBER ALTERNATIVES" ++ [':'] by decide,
      show numVotersKey = '#' :: ' ' :: s "NUMBER VOTERS" ++ [':'] by decide,
      show numUniqueKey = '#' :: ' ' :: s "NUMBER UNIQUE ORDERS" ++ [':'] by decide, h1, h2, h3]

theorem map_keyValue_hdrLines (i : OrdInst) :
    (hdrLines i).map keyValue
      = kvMeta i.header ++ kvNum i ++ kvNumbered "ALTERNATIVE NAME " i.header.altNames := by
  simp only [hdrLines, List.map_append, map_keyValue_metaLines, map_keyValue_numLines,
    map_keyValue_altLines]

theorem hdrLines_hash (i : OrdInst) : ∀ l ∈ hdrLines i, ['#'].isPrefixOf l = true := by
  intro l hl
  simp only [hdrLines, metaLines, numLines, List.mem_append, List.mem_map, List.mem_cons,
    List.not_mem_nil, or_false] at hl
  rcases hl with (⟨f, _, rfl⟩ | rfl | rfl | rfl) | ⟨kv, _, rfl⟩
  · simp [fieldLine, Field.key, List.isPrefixOf]
  · simp [numLine, numAltKey, s, List.isPrefixOf]
  · simp [numLine, numVotersKey, s, List.isPrefixOf]
  · simp [numLine, numUniqueKey, s, List.isPrefixOf]
  · simp [numberedLine, altPfx, s, List.isPrefixOf]

theorem kvNum_filters (i : OrdInst) :
    (kvNum i).filter (fun kv => (numberedKey "ALTERNATIVE NAME " kv.1).isNone
      && (numberedKey "CATEGORY NAME " kv.1).isNone) = kvNum i ∧
    (kvNum i).filterMap (fun kv => (numberedKey "ALTERNATIVE NAME " kv.1).map (fun n => (n, kv.2))) = [] ∧
    (kvNum i).filterMap (fun kv => (numberedKey "CATEGORY NAME " kv.1).map (fun n => (n, kv.2))) = [] := by
  have a1 : numberedKey "ALTERNATIVE NAME " (s "NUMBER ALTERNATIVES") = none := by decide
  have a2 : numberedKey "ALTERNATIVE NAME " (s "NUMBER VOTERS") = none := by decide
  have a3 : numberedKey "ALTERNATIVE NAME " (s "NUMBER UNIQUE ORDERS") = none := by decide
  have c1 : numberedKey "CATEGORY NAME " (s "NUMBER ALTERNATIVES") = none := by decide
  have c2 : numberedKey "CATEGORY NAME " (s "NUMBER VOTERS") = none := by decide
  have c3 : numberedKey "CATEGORY NAME " (s "NUMBER UNIQUE ORDERS") = none := by decide
  simp [kvNum, a1, a2, a3, c1, c2, c3]

/-- **the independent reader on the written file** -/
theorem reader_write (i : OrdInst) (h : wfOrd i = true) :
    Spec.Format.read false (write i) = some
      { fields := kvMeta i.header ++ kvNum i, altNames := i.header.altNames, catNames := [],
        ballots := (sorted i).map (fun o => ((i.multiplicity.get? o).getD 0, o)), edges := [] } := by
  obtain ⟨hh, hne, _, _, _⟩ := (wfOrd_iff i).1 h
  have hlines : Spec.Format.splitLines (write i) = hdrLines i ++ ballotLines i := by
    rw [write_eq, splitLines_unlines _ (lineOK_lines i hh)]
    intro l hl hnil
    rcases List.mem_append.1 hl with hl | hl
    · have := hdrLines_hash i l hl; rw [hnil] at this; simp at this
    · obtain ⟨o, _, rfl⟩ := List.mem_map.1 hl
      exact ballotText_ne_nil _ o hnil
  have hb : ∀ l, (ballotLines i).head? = some l → ['#'].isPrefixOf l = false := by
    intro l hl
    obtain ⟨o, _, rfl⟩ := List.mem_map.1 (List.mem_of_mem_head? hl)
    exact ballotText_not_hash' _ o
  rw [read_ballots (write i) (hdrLines i) (ballotLines i) _ hlines (hdrLines_hash i) hb
    (reader_ballotLines i), map_keyValue_hdrLines]
  obtain ⟨k1, k2, k3⟩ := kvNum_filters i
  simp only [List.filter_append, List.filterMap_append, filter_fields_kvMeta, k1,
    filter_fields_kvNumbered_alt, filterMap_alt_kvMeta, k2, filterMap_numbered_self,
    filterMap_cat_kvMeta, k3, List.append_nil, List.nil_append]
  rw [filterMap_numbered_other "ALTERNATIVE NAME " "CATEGORY NAME " _
    (fun r => by simp [List.isPrefixOf])]

end PrefVerif.C01
