import PrefVerif.Lemmas.C12DPPlace
/-!
Shape of the incomplete axes (`left part, hole, right part`), the boundary identifier in terms of the shape,
and "no interior local minimum" (`LMF`): a vote is single-peaked on an axis iff no alternative is ranked below
both its neighbours.  `r a` is the position of `a` in the vote (smaller is better).
-/
namespace PrefVerif.C12DP
open PrefVerif.KAlt

/-- `Fr`: the left part read from the hole outwards; `S`: the right part read from the hole outwards -/
def Shape (A : Axis) (Fr S : List Nat) : Prop := A = Fr.reverse.map some ++ none :: S.map some

theorem idxOf_none_shape (F : List Nat) (R : Axis) : (F.map some ++ none :: R).idxOf none = F.length := by
  induction F with
  | nil => simp
  | cons a t ih => simp [List.idxOf_cons, ih]

theorem Shape.idxOf {A Fr S} (h : Shape A Fr S) : A.idxOf none = Fr.length := by
  rw [h, idxOf_none_shape]; simp

theorem Shape.members {A Fr S} (h : Shape A Fr S) : members A = Fr.reverse ++ S := by
  rw [h]; simp [PrefVerif.C12DP.members, List.filterMap_append, List.filterMap_map]

theorem getD_prefix (P R : Axis) (j : Nat) : (P ++ R).getD (P.length + j) none = R.getD j none := by
  induction P with
  | nil => simp
  | cons p P ih =>
    have : (p :: P).length + j = (P.length + j) + 1 := by simp; omega
    rw [this, List.cons_append, List.getD_cons_succ, ih]

theorem bnd_aux (P : Axis) (u w : Option Nat) (S : List Nat) :
    let tmp := P ++ u :: w :: none :: (S.map some ++ [none, none])
    tmp.getD P.length none = u ∧ tmp.getD (P.length + 1) none = w ∧
      tmp.getD (P.length + 3) none = S.head? ∧ tmp.getD (P.length + 4) none = S.tail.head? := by
  dsimp only
  refine ⟨?_, ?_, ?_, ?_⟩
  · simp
  · rw [getD_prefix]; simp
  · rw [getD_prefix]
    cases S with
    | nil => simp
    | cons a t => simp
  · rw [getD_prefix]
    cases S with
    | nil => simp
    | cons a t =>
      cases t with
      | nil => simp
      | cons b t => simp

theorem Shape.boundary {A Fr S} (h : Shape A Fr S) :
    boundary A = (Fr.tail.head?, Fr.head?, S.head?, S.tail.head?) := by
  unfold KAlt.boundary
  rw [h.idxOf, h]
  dsimp only
  match Fr with
  | [] =>
    obtain ⟨h1, h2, h3, h4⟩ := bnd_aux [] none none S
    simp only [List.nil_append, List.length_nil, Nat.zero_add] at h1 h2 h3 h4
    simp only [List.reverse_nil, List.map_nil, List.nil_append, List.length_nil, Nat.zero_add,
      List.cons_append, List.tail_nil, List.head?_nil]
    rw [show (2 - 2 : Nat) = 0 from rfl, show (2 - 1 : Nat) = 1 from rfl, h1, h2, h3, h4]
  | [b1] =>
    obtain ⟨h1, h2, h3, h4⟩ := bnd_aux [none] none (some b1) S
    simp only [List.length_singleton, List.cons_append, List.nil_append] at h1 h2 h3 h4
    simp only [List.reverse_cons, List.reverse_nil, List.nil_append, List.map_cons, List.map_nil,
      List.cons_append, List.length_singleton, List.tail_cons, List.head?_nil, List.head?_cons]
    rw [show (1 + 2 - 2 : Nat) = 1 from rfl, show (1 + 2 - 1 : Nat) = 1 + 1 from rfl,
      show (1 + 2 + 1 : Nat) = 1 + 3 from rfl, show (1 + 2 + 2 : Nat) = 1 + 4 from rfl, h1, h2, h3, h4]
  | b1 :: b0 :: t =>
    obtain ⟨h1, h2, h3, h4⟩ := bnd_aux (none :: none :: t.reverse.map some) (some b0) (some b1) S
    have hl : (none :: none :: t.reverse.map some : Axis).length = t.length + 2 := by simp
    rw [hl] at h1 h2 h3 h4
    simp only [List.reverse_cons, List.map_append, List.map_cons, List.map_nil, List.append_assoc,
      List.cons_append, List.nil_append, List.length_cons, List.tail_cons, List.head?_cons]
    simp only [List.cons_append] at h1 h2 h3 h4
    rw [show (t.length + 1 + 1 + 2 - 2 : Nat) = t.length + 2 by omega,
      show (t.length + 1 + 1 + 2 - 1 : Nat) = t.length + 2 + 1 by omega,
      show (t.length + 1 + 1 + 2 + 1 : Nat) = t.length + 2 + 3 by omega,
      show (t.length + 1 + 1 + 2 + 2 : Nat) = t.length + 2 + 4 by omega, h1, h2, h3, h4]

/-- no alternative strictly inside the list is ranked below both its neighbours -/
def LMF (r : Nat → Nat) : List Nat → Prop
  | a :: b :: c :: t => ¬(r a < r b ∧ r c < r b) ∧ LMF r (b :: c :: t)
  | _ => True

@[simp] theorem LMF_nil (r) : LMF r [] := trivial
@[simp] theorem LMF_one (r a) : LMF r [a] := trivial
@[simp] theorem LMF_two (r a b) : LMF r [a, b] := trivial
@[simp] theorem LMF_cons3 (r a b c t) :
    LMF r (a :: b :: c :: t) ↔ ¬(r a < r b ∧ r c < r b) ∧ LMF r (b :: c :: t) := Iff.rfl

theorem LMF.tail {r a l} (h : LMF r (a :: l)) : LMF r l := by
  match l with
  | [] => trivial
  | [b] => trivial
  | b :: c :: t => exact h.2

/-- splitting at an overlapping pair -/
theorem LMF_split (r : Nat → Nat) (l1 : List Nat) (a b : Nat) (l2 : List Nat) :
    LMF r (l1 ++ a :: b :: l2) ↔ LMF r (l1 ++ [a, b]) ∧ LMF r (a :: b :: l2) := by
  induction l1 with
  | nil => simp
  | cons p l1 ih =>
    match l1 with
    | [] =>
      simp only [List.cons_append, List.nil_append, LMF_cons3, LMF_two, and_true]
    | [q] =>
      simp only [List.cons_append, List.nil_append, LMF_cons3] at ih ⊢
      rw [ih]
      simp [and_assoc]
    | q :: c :: l4 =>
      simp only [List.cons_append, LMF_cons3] at ih ⊢
      rw [ih]
      simp [and_assoc]

/-- `b` is not ranked below both `a` and `c` (vacuous when one of them is missing) -/
def okT (r : Nat → Nat) (a b c : Option Nat) : Prop :=
  ∀ a' b' c', a = some a' → b = some b' → c = some c' → ¬(r a' < r b' ∧ r c' < r b')

/-- inserting `x` at the hole -/
theorem LMF_insert (r : Nat → Nat) (Fr S : List Nat) (x : Nat) (h : LMF r (Fr.reverse ++ S))
    (h1 : okT r Fr.tail.head? Fr.head? (some x)) (h2 : okT r Fr.head? (some x) S.head?)
    (h3 : okT r (some x) S.head? S.tail.head?) : LMF r (Fr.reverse ++ x :: S) := by
  match Fr, S with
  | [], [] => simp
  | [], [b2] => simp
  | [], b2 :: b3 :: t' =>
    simp only [List.reverse_nil, List.nil_append, LMF_cons3] at h ⊢
    exact ⟨h3 x b2 b3 rfl rfl rfl, h⟩
  | [b1], [] => simp
  | [b1], [b2] =>
    simp only [List.reverse_cons, List.reverse_nil, List.nil_append, List.cons_append, LMF_cons3, LMF_two, and_true]
    exact h2 b1 x b2 rfl rfl rfl
  | [b1], b2 :: b3 :: t' =>
    simp only [List.reverse_cons, List.reverse_nil, List.nil_append, List.cons_append, LMF_cons3] at h ⊢
    exact ⟨h2 b1 x b2 rfl rfl rfl, h3 x b2 b3 rfl rfl rfl, h.2⟩
  | b1 :: b0 :: t, [] =>
    simp only [List.reverse_cons, List.append_assoc, List.cons_append, List.nil_append, List.append_nil] at h ⊢
    rw [LMF_split]
    simp only [LMF_cons3, LMF_two, and_true]
    exact ⟨h, h1 b0 b1 x rfl rfl rfl⟩
  | b1 :: b0 :: t, [b2] =>
    simp only [List.reverse_cons, List.append_assoc, List.cons_append, List.nil_append] at h ⊢
    rw [LMF_split] at h ⊢
    simp only [LMF_cons3, LMF_two, and_true] at h ⊢
    exact ⟨h.1, h1 b0 b1 x rfl rfl rfl, h2 b1 x b2 rfl rfl rfl⟩
  | b1 :: b0 :: t, b2 :: b3 :: t' =>
    simp only [List.reverse_cons, List.append_assoc, List.cons_append, List.nil_append] at h ⊢
    rw [LMF_split] at h ⊢
    simp only [LMF_cons3] at h ⊢
    exact ⟨h.1, h1 b0 b1 x rfl rfl rfl, h2 b1 x b2 rfl rfl rfl, h3 x b2 b3 rfl rfl rfl, h.2.2.2⟩

end PrefVerif.C12DP
