import PrefVerif.Model.SPTree
import PrefVerif.Spec.Domains
/-!
# C13 helper lemmas — paths inside a vertex set

`Path`/`Conn` are verbatim copies of `PathIn`/`Connected` of `Props/C13.lean` (the property file
imports the lemma files, so the lemmas cannot mention its definitions); the bridge is proved there.
-/
namespace PrefVerif.C13

/-- undirected adjacency -/
def Adj (edges : List (Nat × Nat)) (u w : Nat) : Prop := (u, w) ∈ edges ∨ (w, u) ∈ edges

theorem Adj.symm {edges : List (Nat × Nat)} {u w : Nat} (h : Adj edges u w) : Adj edges w u :=
  Or.symm h

inductive Path (edges : List (Nat × Nat)) (S : List Nat) : Nat → Nat → Prop where
  | refl (u : Nat) (hu : u ∈ S) : Path edges S u u
  | step (u w v : Nat) (hu : u ∈ S) (he : (u, w) ∈ edges ∨ (w, u) ∈ edges) (hw : w ∈ S)
      (h : Path edges S w v) : Path edges S u v

def Conn (edges : List (Nat × Nat)) (S : List Nat) : Prop := ∀ u ∈ S, ∀ v ∈ S, Path edges S u v

variable {edges : List (Nat × Nat)} {S : List Nat}

theorem Path.left_mem {u v : Nat} (h : Path edges S u v) : u ∈ S := by
  cases h <;> assumption

theorem Path.right_mem {u v : Nat} (h : Path edges S u v) : v ∈ S := by
  induction h with
  | refl u hu => exact hu
  | step u w v hu he hw h ih => exact ih

theorem Path.trans {u w v : Nat} (h1 : Path edges S u w) (h2 : Path edges S w v) :
    Path edges S u v := by
  induction h1 with
  | refl u hu => exact h2
  | step u x w hu he hx h ih => exact Path.step u x v hu he hx (ih h2)

theorem Path.single {u w : Nat} (hu : u ∈ S) (hw : w ∈ S) (he : Adj edges u w) :
    Path edges S u w :=
  Path.step u w w hu he hw (Path.refl w hw)

theorem Path.symm {u v : Nat} (h : Path edges S u v) : Path edges S v u := by
  induction h with
  | refl u hu => exact Path.refl u hu
  | step u w v hu he hw h ih => exact ih.trans (Path.single hw hu (Or.symm he))

theorem Path.snoc {u w v : Nat} (h : Path edges S u w) (he : Adj edges w v) (hv : v ∈ S) :
    Path edges S u v :=
  h.trans (Path.single h.right_mem hv he)

/-- more edges, more vertices: paths survive -/
theorem Path.mono {edges' : List (Nat × Nat)} {S' : List Nat} (hE : ∀ e ∈ edges, e ∈ edges')
    (hS : ∀ x ∈ S, x ∈ S') {u v : Nat} (h : Path edges S u v) : Path edges' S' u v := by
  induction h with
  | refl u hu => exact Path.refl u (hS u hu)
  | step u w v hu he hw h ih =>
    exact Path.step u w v (hS u hu) (he.imp (hE _) (hE _)) (hS w hw) ih

/-- a set all of whose members are reachable from one centre is connected -/
theorem Conn.of_star (c : Nat) (h : ∀ x ∈ S, Path edges S c x) : Conn edges S :=
  fun u hu v hv => (h u hu).symm.trans (h v hv)

theorem Conn.nil : Conn edges [] := by
  intro u hu; cases hu

theorem Conn.mono_edges {edges' : List (Nat × Nat)} (hE : ∀ e ∈ edges, e ∈ edges')
    (h : Conn edges S) : Conn edges' S :=
  fun u hu v hv => (h u hu v hv).mono hE (fun _ hx => hx)

/-- connectivity only depends on the set of members -/
theorem Conn.congr_set {S' : List Nat} (hS : ∀ x, x ∈ S ↔ x ∈ S') (h : Conn edges S) :
    Conn edges S' :=
  fun u hu v hv => (h u ((hS u).2 hu) v ((hS v).2 hv)).mono (fun _ he => he) (fun x hx => (hS x).1 hx)

/-- attaching a new leaf `a` to a vertex `b` of a connected set keeps it connected -/
theorem Conn.attach_leaf {S' : List Nat} {a b : Nat} (hsub : ∀ x ∈ S, x ∈ S')
    (hcov : ∀ x ∈ S', x = a ∨ x ∈ S) (ha : a ∈ S') (hb : b ∈ S) (h : Conn edges S) :
    Conn ((b, a) :: edges) S' := by
  apply Conn.of_star b
  intro x hx
  rcases hcov x hx with rfl | hxS
  · exact Path.single (hsub b hb) ha (Or.inl (List.mem_cons_self ..))
  · exact (h b hb x hxS).mono (fun e he => List.mem_cons_of_mem _ he) hsub

/-- any subset of the two endpoints of an edge is connected -/
theorem Conn.of_pair {a b : Nat} (he : Adj edges a b) (hS : ∀ x ∈ S, x = a ∨ x = b) :
    Conn edges S := by
  intro u hu v hv
  by_cases huv : u = v
  · subst huv; exact Path.refl u hu
  · apply Path.single hu hv
    rcases hS u hu with rfl | rfl <;> rcases hS v hv with rfl | rfl
    · exact absurd rfl huv
    · exact he
    · exact he.symm
    · exact absurd rfl huv

theorem Conn.singleton (a : Nat) : Conn edges [a] := by
  intro u hu v hv
  simp only [List.mem_singleton] at hu hv
  subst hu; subst hv
  exact Path.refl _ (List.mem_singleton.2 rfl)

end PrefVerif.C13
