import PrefVerif.Lemmas.C05Reduce
/-!
# C05 helper lemmas, part 10: a set and its complement are both intervals iff the set is a prefix or a suffix
-/
namespace PrefVerif.C05
open PrefVerif PrefVerif.Spec PrefVerif.Spec.Approval

variable {α : Type}

theorem interval_not_iff {p : α → Prop} (l : List α) (hl : 0 < l.length) (hI : Interval p l) :
    Interval (fun x => ¬ p x) l ↔ (∀ x ∈ l, ¬ p x) ∨ p l[0] ∨ p (l[l.length - 1]'(by omega)) := by
  constructor
  · intro hN
    by_cases h0 : p l[0]
    · exact Or.inr (Or.inl h0)
    by_cases hn : p (l[l.length - 1]'(by omega))
    · exact Or.inr (Or.inr hn)
    left
    intro x hx
    obtain ⟨j, hj, rfl⟩ := List.getElem_of_mem hx
    by_cases hj0 : j = 0
    · subst hj0; exact h0
    by_cases hjn : j = l.length - 1
    · subst hjn; exact hn
    exact hN 0 j (l.length - 1) (by omega) (by omega) (by omega) h0 hn
  · rintro (h | h | h)
    · exact fun _ j _ _ _ _ _ _ => h _ (List.getElem_mem _)
    · intro i j k hij hjk hk hi hk' hj
      by_cases hi0 : i = 0
      · subst hi0; exact hi h
      · exact hi (hI 0 i j (by omega) hij (by omega) h hj)
    · intro i j k hij hjk hk hi hk' hj
      by_cases hkn : k = l.length - 1
      · subst hkn; exact hk' h
      · exact hk' (hI j k (l.length - 1) hjk (by omega) (by omega) hj h)

theorem extremal_iff (order S : List Nat) :
    extremal order S = true ↔ Interval (fun a => a ∈ S) order ∧ Interval (fun a => ¬ a ∈ S) order := by
  unfold extremal
  rw [Bool.and_eq_true, contiguous_iff_interval]
  refine and_congr_right fun hI => ?_
  by_cases hl : 0 < order.length
  · rw [interval_not_iff order hl hI]
    have hh : order.head? = some order[0] := by
      rw [List.head?_eq_getElem?, List.getElem?_eq_getElem hl]
    have hg : order.getLast? = some (order[order.length - 1]'(by omega)) := by
      rw [List.getLast?_eq_getElem?, List.getElem?_eq_getElem (by omega)]
    rw [hh, hg]
    simp only [Bool.or_eq_true, List.all_eq_true, Bool.not_eq_true', List.contains_iff_mem, or_assoc]
    refine or_congr ?_ Iff.rfl
    constructor
    · intro h x hx hxs
      have := h x hxs
      simp [hx] at this
    · intro h x hxs
      cases hc : order.contains x with
      | false => rfl
      | true => exact absurd hxs (h x (by simpa using hc))
  · have : order = [] := List.eq_nil_of_length_eq_zero (by omega)
    subst this
    simp only [List.head?_nil, List.getLast?_nil, Bool.or_true, true_iff]
    exact fun _ _ k _ _ hk => absurd hk (by simp)

end PrefVerif.C05
