import PrefVerif.Lemmas.C12OptDefs
/-!
# C12Opt, part 5: invariants of the table that the optimality proof needs

* `TInv`: every stored axis has one hole, is stored under its own boundary identifier, the last placed set of
  its key is a duplicate-free list of at most two alternatives, and no stored axis is longer than `longest`.
* `Le st st'`: `longest` and `locked_axis` did not get shorter and every key of the table is still there with an
  axis at least as long — every later step of the programme is monotone in this sense.
-/
namespace PrefVerif.C12Opt
open PrefVerif PrefVerif.KAlt PrefVerif.C12DP PrefVerif.C03 PrefVerif.C03c

/-! ### keys -/

theorem Key.eq_bnd {k' k : Key} (h : k'.eq k = true) : k'.bnd = k.bnd := by
  unfold Key.eq at h
  simp only [Bool.and_eq_true, beq_iff_eq] at h
  exact h.1.1

theorem same_members_of_sub {l1 l2 : List Nat} (h1 : l1.Nodup) (hlen : l1.length = l2.length)
    (hsub : ∀ z ∈ l1, z ∈ l2) (_h2 : l2.Nodup) : ∀ z, z ∈ l1 ↔ z ∈ l2 := by
  intro z
  refine ⟨hsub z, fun hz => ?_⟩
  apply Classical.byContradiction
  intro hnot
  have hsub' : l1 ⊆ l2.erase z := by
    intro x hx
    have hxz : x ≠ z := fun e => hnot (e ▸ hx)
    exact (List.mem_erase_of_ne hxz).2 (hsub x hx)
  have h := List.Nodup.length_le_of_subset h1 hsub'
  rw [List.length_erase] at h
  simp only [hz, if_true] at h
  have : 0 < l2.length := List.length_pos_of_mem hz
  omega

/-! ### the table invariant -/

structure EntryT (votes : List (List Nat)) (e : Key × Axis) : Prop where
  ax : AxSP votes e.2
  bnd : e.1.bnd = boundary e.2
  nodup : e.1.X.Nodup
  len : e.1.X.length ≤ 2

structure TInv (votes : List (List Nat)) (st : St) : Prop where
  S : ∀ e ∈ st.S, EntryT votes e
  le : ∀ e ∈ st.S, e.2.length ≤ st.longest.length

theorem EntryT.shape {votes e} (h : EntryT votes e) :
    ∃ Fr Sr, e.2 = shape Fr Sr ∧ e.1.bnd = bndOf Fr Sr := by
  obtain ⟨Fr, Sr, hsh, _⟩ := h.ax
  exact ⟨Fr, Sr, hsh, by rw [h.bnd, hsh.boundary]; rfl⟩

theorem processX_tinv (votes : List (List Nat)) (A : Axis) (X : List Nat) (st : St) (hA : AxSP votes A)
    (hnd : X.Nodup) (hlen : X.length ≤ 2) (hst : TInv votes st) : TInv votes (processX votes A st X) := by
  have hp := place_sp votes A X hA
  unfold processX
  dsimp only
  split
  · refine ⟨?_, ?_⟩
    · intro e he
      rcases mem_dictPut _ _ _ _ he with h | h | ⟨k', A', hmem, heq, h⟩
      · exact hst.S e h
      · subst h; exact ⟨hp, rfl, hnd, hlen⟩
      · subst h
        have hold := hst.S _ hmem
        exact ⟨hp, by simpa using Key.eq_bnd heq, hold.nodup, hold.len⟩
    · intro e he
      dsimp only
      rcases mem_dictPut _ _ _ _ he with h | h | ⟨k', A', hmem, heq, h⟩
      · have := hst.le e h
        split <;> omega
      · subst h; dsimp only; split <;> omega
      · subst h; dsimp only; split <;> omega
  · split
    · exact ⟨hst.S, hst.le⟩
    · exact hst

theorem processKey_tinv (votes : List (List Nat)) (alts : List Nat) (suffix : List (PySet Nat))
    (remaining : List Nat) (e : Key × Axis) (st : St) (hs : SetsSub alts suffix) (he : AxSP votes e.2)
    (hst : TInv votes st) : TInv votes (processKey votes suffix remaining st e) := by
  unfold processKey
  split
  · exact hst
  · split
    · exact hst
    · apply foldl_inv (TInv votes) _ _ _ hst
      intro st' X hX hst'
      have hx := eligible_spec alts votes suffix _ X hs hX
      exact processX_tinv votes e.2 X st' he hx.nodup hx.len hst'

theorem st0_tinv (votes : List (List Nat)) : TInv votes st0 := by
  refine ⟨?_, ?_⟩
  · intro e he
    simp only [st0, List.mem_singleton] at he
    subst he
    exact ⟨axSP_init votes, by decide, by simp [initKey], by simp [initKey]⟩
  · intro e he
    simp only [st0, List.mem_singleton] at he
    subst he
    simp [st0]

/-! ### monotonicity -/

structure Le (st st' : St) : Prop where
  longest : st.longest.length ≤ st'.longest.length
  locked : st.locked.length ≤ st'.locked.length
  S : ∀ e ∈ st.S, ∃ e' ∈ st'.S, e'.1 = e.1 ∧ e.2.length ≤ e'.2.length

theorem Le.refl (st : St) : Le st st := ⟨Nat.le_refl _, Nat.le_refl _, fun e he => ⟨e, he, rfl, Nat.le_refl _⟩⟩

theorem Le.trans {a b c : St} (h1 : Le a b) (h2 : Le b c) : Le a c := by
  refine ⟨Nat.le_trans h1.longest h2.longest, Nat.le_trans h1.locked h2.locked, ?_⟩
  intro e he
  obtain ⟨e1, he1, hk1, hl1⟩ := h1.S e he
  obtain ⟨e2, he2, hk2, hl2⟩ := h2.S e1 he1
  exact ⟨e2, he2, hk2.trans hk1, Nat.le_trans hl1 hl2⟩

theorem dictPut_mono (S : List (Key × Axis)) (k : Key) (A : Axis) :
    ∀ e ∈ S, ∃ e' ∈ dictPut S k A, e'.1 = e.1 ∧ e.2.length ≤ e'.2.length := by
  induction S with
  | nil => intro e he; cases he
  | cons hd tl ih =>
    obtain ⟨k', A'⟩ := hd
    intro e he
    unfold dictPut
    simp only [List.mem_cons] at he
    split
    · split
      · rename_i hgt
        rcases he with rfl | he
        · exact ⟨(k', A), by simp, rfl, Nat.le_of_lt hgt⟩
        · exact ⟨e, by simp [he], rfl, Nat.le_refl _⟩
      · rcases he with rfl | he
        · exact ⟨(k', A'), by simp, rfl, Nat.le_refl _⟩
        · exact ⟨e, by simp [he], rfl, Nat.le_refl _⟩
    · rcases he with rfl | he
      · exact ⟨(k', A'), by simp, rfl, Nat.le_refl _⟩
      · obtain ⟨e', he', h1, h2⟩ := ih e he
        exact ⟨e', by simp [he'], h1, h2⟩

/-- after `S[k] = A` (or the update with the longer axis) the table has an axis of length at least `len(A)`
under a key equal to `k` -/
theorem dictPut_has (S : List (Key × Axis)) (k : Key) (A : Axis) (hS : ∀ e ∈ S, e.1.X.Nodup)
    (hk : k.X.Nodup) :
    ∃ e' ∈ dictPut S k A, e'.1.bnd = k.bnd ∧ (∀ z, z ∈ e'.1.X ↔ z ∈ k.X) ∧ A.length ≤ e'.2.length := by
  induction S with
  | nil => exact ⟨(k, A), by simp [dictPut], rfl, fun _ => Iff.rfl, Nat.le_refl _⟩
  | cons hd tl ih =>
    obtain ⟨k', A'⟩ := hd
    unfold dictPut
    split
    · rename_i heq
      have hb := Key.eq_bnd heq
      obtain ⟨hlen, hsub⟩ := Key.eq_spec heq
      have hm := same_members_of_sub (hS (k', A') (by simp)) hlen hsub hk
      split
      · exact ⟨(k', A), by simp, hb, hm, Nat.le_refl _⟩
      · rename_i hgt
        exact ⟨(k', A'), by simp, hb, hm, by dsimp only; omega⟩
    · obtain ⟨e', he', h1, h2, h3⟩ := ih (fun e he => hS e (by simp [he]))
      exact ⟨e', by simp [he'], h1, h2, h3⟩

theorem processX_le (votes : List (List Nat)) (A : Axis) (st : St) (X : List Nat) :
    Le st (processX votes A st X) := by
  unfold processX
  dsimp only
  split
  · refine ⟨?_, Nat.le_refl _, ?_⟩
    · dsimp only; split <;> omega
    · exact dictPut_mono _ _ _
  · split
    · rename_i h
      simp only [Bool.and_eq_true, decide_eq_true_eq] at h
      exact ⟨Nat.le_refl _, Nat.le_of_lt h.2, fun e he => ⟨e, he, rfl, Nat.le_refl _⟩⟩
    · exact Le.refl st

theorem foldl_le {α : Type} (f : St → α → St) (l : List α) (st : St) (h : ∀ s a, Le s (f s a)) :
    Le st (l.foldl f st) := by
  induction l generalizing st with
  | nil => exact Le.refl st
  | cons x xs ih => exact (h st x).trans (ih (f st x))

theorem processKey_le (votes : List (List Nat)) (suffix : List (PySet Nat)) (remaining : List Nat) (st : St)
    (e : Key × Axis) : Le st (processKey votes suffix remaining st e) := by
  unfold processKey
  split
  · exact Le.refl st
  · split
    · exact Le.refl st
    · exact foldl_le _ _ _ (fun s X => processX_le votes e.2 s X)

/-! ### what the path needs from the state -/

/-- the table has an axis of length at least `n` under the key `(bnd, Y)` -/
def HasEntry (st : St) (bnd : Bnd) (Y : List Nat) (n : Nat) : Prop :=
  ∃ e ∈ st.S, e.1.bnd = bnd ∧ (∀ z, z ∈ e.1.X ↔ z ∈ Y) ∧ n ≤ e.2.length

theorem HasEntry.mono {st st' : St} {bnd : Bnd} {Y : List Nat} {n : Nat} (h : HasEntry st bnd Y n)
    (hle : Le st st') : HasEntry st' bnd Y n := by
  obtain ⟨e, he, h1, h2, h3⟩ := h
  obtain ⟨e', he', hk, hl⟩ := hle.S e he
  exact ⟨e', he', by rw [hk]; exact h1, by rw [hk]; exact h2, Nat.le_trans h3 hl⟩

/-- `longest` or `locked_axis` has reached the length `t` -/
def Reached (t : Nat) (st : St) : Prop := t ≤ st.longest.length ∨ t ≤ st.locked.length

theorem Reached.mono {t : Nat} {st st' : St} (h : Reached t st) (hle : Le st st') : Reached t st' := by
  rcases h with h | h
  · exact Or.inl (Nat.le_trans h hle.longest)
  · exact Or.inr (Nat.le_trans h hle.locked)

end PrefVerif.C12Opt
