import PrefVerif.Spec.Euclid
/-!
# C19 helper lemmas, part 1: exact rational arithmetic behind the LP of `_one_euclidean_solve_lp`
-/
namespace PrefVerif.C19
open PrefVerif.Spec.Euclid

/-- `a` left of `b` by at least 1 and the voter at least 1 left of the midpoint: strictly closer to `a` -/
theorem dist_lt_of_left (v xa xb : Rat) (h1 : xa + 1 ≤ xb) (h2 : v + 1 ≤ (xa + xb) / 2) :
    dist v xa < dist v xb := by
  unfold dist; split <;> split <;> grind

/-- `b` left of `a` by at least 1 and the voter at least 1 right of the midpoint: strictly closer to `a` -/
theorem dist_lt_of_right (v xa xb : Rat) (h1 : xb + 1 ≤ xa) (h2 : v ≥ (xb + xa) / 2 + 1) :
    dist v xa < dist v xb := by
  unfold dist; split <;> split <;> grind

/-- strictly closer to the left one of two points: strictly left of the midpoint -/
theorem lt_mid_of_dist_lt (v xa xb : Rat) (h1 : xa < xb) (h2 : dist v xa < dist v xb) :
    v < (xa + xb) / 2 := by
  unfold dist at h2; split at h2 <;> split at h2 <;> grind

/-- strictly closer to the right one of two points: strictly right of the midpoint -/
theorem mid_lt_of_dist_lt (v xa xb : Rat) (h1 : xa < xb) (h2 : dist v xb < dist v xa) :
    (xa + xb) / 2 < v := by
  unfold dist at h2; split at h2 <;> split at h2 <;> grind

/-- a positive margin becomes `≥ 1` under every scaling factor `≥ 1/margin` -/
theorem one_le_scale (mu : Rat) (h : 0 < mu) (lam : Rat) (hl : mu⁻¹ ≤ lam) : 1 ≤ lam * mu := by
  have : mu⁻¹ * mu ≤ lam * mu := Rat.mul_le_mul_of_nonneg_right hl (Rat.le_of_lt h)
  grind

/-- finitely many properties that each hold for all large scaling factors hold together for all
large scaling factors -/
theorem eventually_all {α : Type} (P : α → Rat → Prop) (cs : List α)
    (h : ∀ c ∈ cs, ∃ l0 : Rat, ∀ l, l0 ≤ l → P c l) :
    ∃ l0 : Rat, 0 < l0 ∧ ∀ l, l0 ≤ l → ∀ c ∈ cs, P c l := by
  induction cs with
  | nil => exact ⟨1, by decide, fun _ _ c hc => absurd hc (by simp)⟩
  | cons c cs ih =>
    obtain ⟨l1, _, h1⟩ := ih (fun c hc => h c (List.mem_cons_of_mem _ hc))
    obtain ⟨l2, h2⟩ := h c (by simp)
    refine ⟨if l1 ≤ l2 then l2 else l1, by grind, fun l hl d hd => ?_⟩
    rcases List.mem_cons.1 hd with rfl | hd
    · exact h2 l (by grind)
    · exact h1 l (by grind) d hd

end PrefVerif.C19
