import PrefVerif.Lemmas.C05SegOps
import PrefVerif.Lemmas.C05Group
import PrefVerif.Spec.Approval
/-!
# C05 helper lemmas, part 7: the glue of `solve_consecutive_ones`

C1P of the matrix ⇔ the distinct column supports can be ordered so that every row index occurs in an
interval; expanding such an ordering group by group gives a column order.
-/
namespace PrefVerif.C05
open PrefVerif PrefVerif.Py PrefVerif.Dichotomous PrefVerif.Spec PrefVerif.Spec.Approval

/-- column indices holding a 1 in a row -/
def rowOnes (row : List Nat) : List Nat := (row.zipIdx.filter (fun vi => vi.1 == 1)).map (·.2)

theorem rowsOfMatrix_eq (m : Matrix) : rowsOfMatrix m = m.map rowOnes := rfl

theorem mem_rowOnes (row : List Nat) (c : Nat) : c ∈ rowOnes row ↔ row[c]? = some 1 := by
  simp only [rowOnes, List.mem_map, List.mem_filter, beq_iff_eq]
  constructor
  · rintro ⟨⟨v, i⟩, ⟨hm, hv⟩, rfl⟩
    rw [List.mem_zipIdx_iff_getElem?] at hm
    simp only at hv hm; subst hv; exact hm
  · intro h
    exact ⟨(1, c), ⟨by rw [List.mem_zipIdx_iff_getElem?]; exact h, rfl⟩, rfl⟩

/-- row indices holding a 1 in column `c` -/
def support (m : Matrix) (c : Nat) : List Nat :=
  (List.range m.length).filter (fun r => (m.getD r []).getD c 0 == 1)

theorem columnsIndices_eq (m : Matrix) (nc : Nat) : columnsIndices m nc = (List.range nc).map (support m) := rfl

theorem length_columnsIndices (m : Matrix) (nc : Nat) : (columnsIndices m nc).length = nc := by
  simp [columnsIndices_eq]

theorem getElem?_columnsIndices (m : Matrix) (nc c : Nat) (k : List Nat) :
    (columnsIndices m nc)[c]? = some k ↔ c < nc ∧ k = support m c := by
  rw [columnsIndices_eq, List.getElem?_map]
  by_cases h : c < nc
  · rw [List.getElem?_range h]; simp [h, eq_comm]
  · rw [List.getElem?_eq_none (by simpa using h)]; simp [h]

theorem mem_columnsIndices (m : Matrix) (nc : Nat) (k : List Nat) :
    k ∈ columnsIndices m nc ↔ ∃ c, c < nc ∧ k = support m c := by
  rw [columnsIndices_eq]; simp [eq_comm]

theorem getD_eq_one_iff (row : List Nat) (c : Nat) : row.getD c 0 = 1 ↔ row[c]? = some 1 := by
  rw [List.getD_eq_getElem?_getD]
  cases row[c]? with
  | none => simp
  | some v => simp

theorem mem_support (m : Matrix) (c r : Nat) :
    r ∈ support m c ↔ ∃ h : r < m.length, c ∈ rowOnes m[r] := by
  simp only [support, List.mem_filter, List.mem_range, beq_iff_eq]
  constructor
  · rintro ⟨h, h1⟩
    have hm : m.getD r [] = m[r] := by simp [List.getD_eq_getElem?_getD, List.getElem?_eq_getElem h]
    rw [hm] at h1
    exact ⟨h, by rw [mem_rowOnes, ← getD_eq_one_iff]; exact h1⟩
  · rintro ⟨h, h1⟩
    have hm : m.getD r [] = m[r] := by simp [List.getD_eq_getElem?_getD, List.getElem?_eq_getElem h]
    rw [hm]
    exact ⟨h, by rw [mem_rowOnes, ← getD_eq_one_iff] at h1; exact h1⟩

/-! ### expansion of an ordering of the supports -/

theorem expand_perm (m : Matrix) (nc : Nat) (ordering : List (List Nat))
    (hp : ordering.Perm (AList.keys (groupColumns (columnsIndices m nc)))) :
    (ordering.flatMap (group (columnsIndices m nc))).Perm (List.range nc) := by
  refine (List.Perm.flatMap_right _ hp).trans ?_
  have hnd : ((AList.keys (groupColumns (columnsIndices m nc))).flatMap (group (columnsIndices m nc))).Nodup := by
    apply nodup_flatMap_of (nodup_keys_groupColumns _) (fun k _ => nodup_group _ k)
    intro k _ k' _ c hc hc'
    rw [mem_group] at hc hc'
    rw [hc] at hc'; exact Option.some.inj hc'
  rw [List.perm_ext_iff_of_nodup hnd List.nodup_range]
  intro c
  simp only [List.mem_flatMap, mem_group, mem_keys_groupColumns, List.mem_range]
  constructor
  · rintro ⟨k, _, hk⟩
    exact ((getElem?_columnsIndices m nc c k).1 hk).1
  · intro hc
    exact ⟨support m c, (mem_columnsIndices m nc _).2 ⟨c, hc, rfl⟩,
      (getElem?_columnsIndices m nc c _).2 ⟨hc, rfl⟩⟩

theorem expand_interval (m : Matrix) (nc : Nat) (ordering : List (List Nat)) (r : Nat) (hr : r < m.length)
    (hi : Interval (fun k => r ∈ k) ordering) :
    Interval (fun c => c ∈ rowOnes m[r]) (ordering.flatMap (group (columnsIndices m nc))) := by
  apply Seg.interval
  apply Seg.flatMap _ hi.seg
  intro k _ c hc
  rw [mem_group, getElem?_columnsIndices] at hc
  obtain ⟨_, rfl⟩ := hc
  rw [mem_support]
  exact ⟨fun h => ⟨hr, h⟩, fun ⟨_, h⟩ => h⟩

/-! ### from a column order to an ordering of the supports -/

theorem supports_perm (m : Matrix) (nc : Nat) (colOrd : List Nat) (hp : colOrd.Perm (List.range nc)) :
    (dedup (colOrd.map (support m))).Perm (AList.keys (groupColumns (columnsIndices m nc))) := by
  rw [List.perm_ext_iff_of_nodup (nodup_dedup _) (nodup_keys_groupColumns _)]
  intro k
  rw [mem_dedup, mem_keys_groupColumns, mem_columnsIndices]
  simp only [List.mem_map]
  constructor
  · rintro ⟨c, hc, rfl⟩
    exact ⟨c, by simpa using hp.subset hc, rfl⟩
  · rintro ⟨c, hc, rfl⟩
    exact ⟨c, hp.symm.subset (by simpa using hc), rfl⟩

theorem supports_interval (m : Matrix) (colOrd : List Nat)
    (hrows : ∀ r (hr : r < m.length), Interval (fun c => c ∈ rowOnes m[r]) colOrd) (e : Nat) :
    Interval (fun k => e ∈ k) (dedup (colOrd.map (support m))) := by
  refine Interval.sublist ?_ (dedup_sublist _)
  rw [interval_map]
  by_cases he : e < m.length
  · refine (hrows e he).congr ?_
    intro c _
    rw [mem_support]
    exact ⟨fun h => ⟨he, h⟩, fun ⟨_, h⟩ => h⟩
  · apply interval_of_forall_not
    intro c _ h
    rw [mem_support] at h
    exact he h.1

/-! ### `solveC1` against the interval form of the solver contract -/

/-- the solver contract, interval form (`SolverOK` of `Props/C05.lean` unfolds to this) -/
def SolverOKI (solver : Solver) : Prop :=
  ∀ sets : List (List Nat), sets.Nodup →
    (∀ ord, solver sets = some ord → ord.Perm sets ∧ ∀ e : Nat, Interval (fun k => e ∈ k) ord) ∧
    (solver sets = none → ¬ ∃ ord : List (List Nat), ord.Perm sets ∧ ∀ e : Nat, Interval (fun k => e ∈ k) ord)

/-- every row's ones are consecutive under the column order `ord` -/
def RowsOK (m : Matrix) (ord : List Nat) : Prop := ∀ row ∈ m, Interval (fun c => c ∈ rowOnes row) ord

theorem solveC1_eq (solver : Solver) (m : Matrix) (nc : Nat) :
    solveC1 solver m nc =
      (solver (AList.keys (groupColumns (columnsIndices m nc)))).map
        (fun ordering => ordering.flatMap (group (columnsIndices m nc))) := by
  unfold solveC1
  dsimp only
  split
  · next h => rw [h]; rfl
  · next o h => rw [h]; rfl

theorem solveC1_spec (solver : Solver) (hs : SolverOKI solver) (m : Matrix) (nc : Nat) :
    (∀ ord, solveC1 solver m nc = some ord → ord.Perm (List.range nc) ∧ RowsOK m ord) ∧
    (solveC1 solver m nc = none → ¬ ∃ ord, ord.Perm (List.range nc) ∧ RowsOK m ord) := by
  obtain ⟨h1, h2⟩ := hs _ (nodup_keys_groupColumns (columnsIndices m nc))
  rw [solveC1_eq]
  constructor
  · intro ord ho
    cases hsol : solver (AList.keys (groupColumns (columnsIndices m nc))) with
    | none => simp [hsol] at ho
    | some ordering =>
      simp only [hsol, Option.map_some, Option.some.injEq] at ho
      subst ho
      obtain ⟨hp, hi⟩ := h1 ordering hsol
      refine ⟨expand_perm m nc ordering hp, ?_⟩
      intro row hrow
      obtain ⟨r, hr, rfl⟩ := List.getElem_of_mem hrow
      exact expand_interval m nc ordering r hr (hi r)
  · intro hn
    have hsol : solver (AList.keys (groupColumns (columnsIndices m nc))) = none := by
      cases hsol : solver (AList.keys (groupColumns (columnsIndices m nc))) with
      | none => rfl
      | some o => simp [hsol] at hn
    rintro ⟨colOrd, hp, hrows⟩
    exact h2 hsol ⟨_, supports_perm m nc colOrd hp,
      supports_interval m colOrd (fun r hr => hrows _ (List.getElem_mem hr))⟩

theorem rowsOK_iff_contiguous (m : Matrix) (ord : List Nat) :
    RowsOK m ord ↔ ∀ r ∈ rowsOfMatrix m, Contiguous ord r := by
  simp only [RowsOK, rowsOfMatrix_eq, List.mem_map, forall_exists_index, and_imp,
    forall_apply_eq_imp_iff₂, contiguous_def_iff]

end PrefVerif.C05
