import PrefVerif.Lemmas.C08Parse
/-!
# C08 — assembling write → parse
-/
namespace PrefVerif.C08
open PrefVerif PrefVerif.Py PrefVerif.InstanceIO PrefVerif.CategoricalIO PrefVerif.Spec.IO PrefVerif.IOL
open PrefVerif.EntryPoints

theorem foldl_ballots (L : List Ballot) (m : Ballot → Nat) (j : CatInst) :
    L.foldl (fun (a : CatInst) b =>
        { a with preferences := a.preferences ++ [b], multiplicity := AList.set a.multiplicity b (m b) }) j
      = { j with preferences := j.preferences ++ L,
                 multiplicity := (L.map (fun b => (b, m b))).foldl (fun d kv => AList.set d kv.1 kv.2)
                   j.multiplicity } := by
  induction L generalizing j with
  | nil => simp
  | cons b L ih => simp only [List.foldl_cons, List.map_cons]; rw [ih]; simp

/-- the written ballot lines, read back from an instance without ballots -/
theorem fold_ballots (L : List Ballot) (m : Ballot → Nat) (j : CatInst) (hj1 : j.preferences = [])
    (hj2 : j.multiplicity = []) (hnd : L.Nodup) (hne : ∀ b ∈ L, b ≠ []) :
    (L.map (fun b => ballotText (m b) b ++ ['\n'])).foldlM (ballotLine false) j
      = .ok { j with preferences := L, multiplicity := L.map (fun b => (b, m b)) } := by
  rw [foldlM_map_ok L _ _ (fun (a : CatInst) b =>
        { a with preferences := a.preferences ++ [b], multiplicity := AList.set a.multiplicity b (m b) })
      (fun b hb a => ballotLine_written a (m b) b (hne b hb)),
    foldl_ballots, hj1, hj2, foldl_set_nil _ (by rw [keys_map_table]; exact hnd)]
  simp

/-- `parse` of the lines `readlines()` returns for the written file -/
theorem parse_written (i i0 : CatInst) (h : wfCat i = true) (h0 : i0.header.altNames = [])
    (h0c : i0.categoriesName = []) (h1 : i0.preferences = []) (h2 : i0.multiplicity = []) :
    parse i0 ((hdrLines i ++ ballotLines i).map (fun l => l ++ ['\n'])) false false
      = .ok (normCat i) := by
  obtain ⟨hh, hne, hnd, hk, hcn, hcv, hall⟩ := (wfCat_iff i).1 h
  have hsne : sorted i ≠ [] := fun h0 => hne ((stableSort_eq_nil_iff _ _).1 h0)
  -- split off the first ballot line
  obtain ⟨r, rs, hrs⟩ : ∃ r rs, (ballotLines i).map (fun l => l ++ ['\n']) = r :: rs := by
    apply List.exists_cons_of_ne_nil
    simpa [ballotLines] using hsne
  have hr : startsWith (strip r) ['#'] = false := by
    have : r ∈ (ballotLines i).map (fun l => l ++ ['\n']) := by rw [hrs]; simp
    obtain ⟨l, hl, rfl⟩ := List.mem_map.1 this
    obtain ⟨b, _, rfl⟩ := List.mem_map.1 hl
    exact ballotText_not_hash _ b
  have hstrip : ((hdrLines i).map (fun l => l ++ ['\n'])).map strip = hdrPl i := by
    rw [← pl_hdrLines i hh hcv, List.map_map]; rfl
  have hloop := headerLoop_append (headerStep false) ((hdrLines i).map (fun l => l ++ ['\n'])) r rs
    i0 _ 0
    (by
      intro l hl
      have : strip l ∈ hdrPl i := by rw [← hstrip]; exact List.mem_map_of_mem hl
      exact hdrPl_hash i _ this)
    (by rw [hstrip]; exact fold_header i i0 hh hcn hcv h0 h0c)
    hr
  have hb := fold_ballots (sorted i) (fun b => (i.multiplicity.get? b).getD 0)
    { i0 with header := i.header, numUniquePreferences := i.numUniquePreferences,
              numCategories := i.numCategories, categoriesName := i.categoriesName } h1 h2
    ((nodup_stableSort _ _).2 hnd)
    (fun b hb => hall b ((mem_stableSort _ _ _).1 hb))
  have hbl : (ballotLines i).map (fun l => l ++ ['\n'])
      = (sorted i).map (fun b => ballotText ((i.multiplicity.get? b).getD 0) b ++ ['\n']) := by
    simp [ballotLines]
  simp only [parse, List.map_append, hrs]
  rw [hloop]
  simp only [bind, Except.bind, Nat.zero_add, List.length_map, Bool.false_eq_true, if_false]
  rw [show List.drop (hdrLines i).length ((hdrLines i).map (fun l => l ++ ['\n']) ++ r :: rs) = r :: rs by
        rw [List.drop_append_of_le_length (by simp)]; simp,
      ← hrs, hbl, hb]
  rfl

/-- **write → `parse_file`** -/
theorem parseFile_write {W : Type} (readW : Str → Option W) (i : CatInst) (h : wfCat i = true)
    (base : Str) :
    parseFile readW .categorical base (s "cat") (write i) false false = .ok (.cat (normCat i)) := by
  obtain ⟨hh, _, _, _, _, hcv, _⟩ := (wfCat_iff i).1 h
  have hext : typeValid .categorical (s "cat") = true := by decide
  simp only [parseFile, parseLines, fresh, AnyInst.setHeader, AnyInst.header, hext, Bool.not_true,
    Bool.false_eq_true, if_false]
  rw [write_eq, readlines_unlines _ (lineOK_lines i hh hcv), parse_written i _ h rfl rfl rfl rfl]
  rfl

end PrefVerif.C08
