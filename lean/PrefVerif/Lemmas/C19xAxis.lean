import PrefVerif.Lemmas.C19xColour
/-!
# C19x helper lemmas, part 4: the axis lists the coloured alternatives from left to right
-/
namespace PrefVerif.C19x
open PrefVerif PrefVerif.Euclid PrefVerif.Spec

/-- the one of two alternatives lying further left -/
def leftOf (x : Nat → Rat) (a b : Nat) : Nat := if x a < x b then a else b

section
variable {alts : List Nat} {x : Nat → Rat} {v1 vn : List Nat} {u w : Rat}

/-- for two coloured alternatives, `axis_dict` is incremented for the one lying further left -/
theorem axisWinner_eq (G : Geo alts x v1 vn u w) {g : Colouring} (hinv : Inv alts x v1 vn g) {a b : Nat}
    (ha : a ∈ alts) (hb : b ∈ alts) (hab : a ≠ b) (ca : colour g a ≠ 3) (cb : colour g b ≠ 3) :
    axisWinner g v1 vn a b = some (leftOf x a b) := by
  obtain ⟨a0, a1, a2, _, ale⟩ := hinv a ha
  obtain ⟨b0, b1, b2, _, ble⟩ := hinv b hb
  have hx := G.r1.inj G.p1 ha hb hab
  have tl := G.tops_le
  have ea : colour g a = 0 ∨ colour g a = 1 ∨ colour g a = 2 := by omega
  have eb : colour g b = 0 ∨ colour g b = 1 ∨ colour g b = 2 := by omega
  unfold axisWinner leftOf
  rcases ea with ea | ea | ea <;> rcases eb with eb | eb | eb <;> simp only [ea, eb] <;>
    simp only [ea, eb, forall_const] at a0 a1 a2 b0 b1 b2
  · -- red, red
    have := G.v1_order ha hb hab a0.1 b0.1
    simp only [show ((0 : Nat) == 2) = false from rfl, show ((0 : Nat) == 1) = false from rfl,
      show ((0 : Nat) == 0) = true from rfl, Bool.false_and, Bool.and_false, Bool.or_false,
      Bool.false_eq_true, if_false, Bool.and_self, if_true]
    by_cases h : x a < x b
    · rw [if_pos (this.2 h), if_pos h]
    · rw [if_neg (fun c => h (this.1 c)), if_neg h]
  · -- red, blue
    have : x a < x b := by grind
    rw [if_pos this]; rfl
  · -- red, green
    have : ¬ x a < x b := by grind
    rw [if_neg this]; rfl
  · -- blue, red
    have : ¬ x a < x b := by grind
    rw [if_neg this]; rfl
  · -- blue, blue
    have := G.v1_order ha hb hab (by grind) (by grind)
    simp only [show ((1 : Nat) == 2) = false from rfl, show ((1 : Nat) == 0) = false from rfl,
      show ((1 : Nat) == 1) = true from rfl, Bool.false_and, Bool.or_false,
      Bool.false_eq_true, if_false, Bool.and_self, Bool.or_true, if_true]
    by_cases h : x a < x b
    · rw [if_pos (this.2 h), if_pos h]
    · rw [if_neg (fun c => h (this.1 c)), if_neg h]
  · -- blue, green
    have : ¬ x a < x b := by grind
    rw [if_neg this]; rfl
  · -- green, red
    have : x a < x b := by grind
    rw [if_pos this]; rfl
  · -- green, blue
    have : x a < x b := by grind
    rw [if_pos this]; rfl
  · -- green, green
    have := G.vn_order ha hb hab (by grind) (by grind)
    simp only [show ((2 : Nat) == 0) = false from rfl, show ((2 : Nat) == 1) = false from rfl,
      show ((2 : Nat) == 2) = true from rfl, Bool.and_false, Bool.or_false,
      Bool.false_eq_true, if_false, Bool.and_self, if_true]
    by_cases h : x a < x b
    · rw [if_neg (fun c => by have := this.1 c; grind), if_pos h]
    · rw [if_pos (this.2 (by grind)), if_neg h]

end

/-! ### the counts of `axis_dict` -/

theorem bump_map (l : List Nat) (f : Nat → Nat) (k : Nat) :
    bump (l.map (fun c => (c, f c))) k = l.map (fun c => (c, f c + if c = k then 1 else 0)) := by
  unfold bump
  rw [List.map_map]
  apply List.map_congr_left
  intro c _
  simp only [Function.comp]
  by_cases e : c = k <;> simp [e]

theorem foldl_axisStep (g : Colouring) (v1 vn : List Nat) (x : Nat → Rat) (ps : List (Nat × Nat))
    (hps : ∀ p ∈ ps, axisWinner g v1 vn p.1 p.2 = some (leftOf x p.1 p.2)) (l : List Nat) (f : Nat → Nat) :
    ps.foldl (axisStep g v1 vn) (l.map (fun c => (c, f c))) =
      l.map (fun c => (c, f c + ps.countP (fun p => leftOf x p.1 p.2 == c))) := by
  induction ps generalizing f with
  | nil => simp
  | cons p ps ih =>
    rw [List.foldl_cons]
    have : axisStep g v1 vn (l.map (fun c => (c, f c))) p =
        bump (l.map (fun c => (c, f c))) (leftOf x p.1 p.2) := by
      unfold axisStep; rw [hps p (by simp)]
    rw [this, bump_map, ih (fun p' hp' => hps p' (List.mem_cons_of_mem _ hp'))]
    apply List.map_congr_left
    intro c _
    rw [List.countP_cons]
    congr 1
    by_cases e : c = leftOf x p.1 p.2
    · rw [if_pos e, if_pos (by simpa using e.symm)]; omega
    · rw [if_neg e, if_neg (by simpa using (Ne.symm e))]; omega

theorem mem_combos2 (l : List Nat) (p : Nat × Nat) (h : p ∈ combos2 l) : p.1 ∈ l ∧ p.2 ∈ l := by
  obtain ⟨i, j, _, hj, e1, e2⟩ := C19.combos2_getElem l p.1 p.2 h
  exact ⟨e1 ▸ List.getElem_mem _, e2 ▸ List.getElem_mem _⟩

theorem leftOf_mem (x : Nat → Rat) (a b : Nat) : leftOf x a b = a ∨ leftOf x a b = b := by
  unfold leftOf; split
  · exact Or.inl rfl
  · exact Or.inr rfl

/-- the count of `c` is the number of alternatives to its right -/
theorem countP_leftOf (x : Nat → Rat) (l : List Nat) (hnd : l.Nodup)
    (hinj : ∀ a ∈ l, ∀ b ∈ l, a ≠ b → x a ≠ x b) (c : Nat) (hc : c ∈ l) :
    (combos2 l).countP (fun p => leftOf x p.1 p.2 == c) = l.countP (fun c' => decide (x c < x c')) := by
  induction l with
  | nil => simp at hc
  | cons a rest ih =>
    obtain ⟨ha, hnd'⟩ := List.nodup_cons.1 hnd
    have hinj' : ∀ a ∈ rest, ∀ b ∈ rest, a ≠ b → x a ≠ x b := fun a ha b hb =>
      hinj a (List.mem_cons_of_mem _ ha) b (List.mem_cons_of_mem _ hb)
    rw [combos2, List.countP_append, List.countP_map, List.countP_cons (l := rest)]
    by_cases e : c = a
    · subst e
      have h1 : rest.countP ((fun p => leftOf x p.1 p.2 == c) ∘ fun b => (c, b)) =
          rest.countP (fun c' => decide (x c < x c')) := by
        apply List.countP_congr
        intro b hb
        have hbc : b ≠ c := fun e => ha (e ▸ hb)
        simp only [Function.comp, leftOf]
        split <;> simp [*]
      have h2 : (combos2 rest).countP (fun p => leftOf x p.1 p.2 == c) = 0 := by
        rw [List.countP_eq_zero]
        intro p hp
        obtain ⟨m1, m2⟩ := mem_combos2 rest p hp
        rcases leftOf_mem x p.1 p.2 with e | e <;> rw [e] <;> simp only [beq_iff_eq] <;> intro e' <;>
          subst e' <;> contradiction
      have h3 : ¬ x c < x c := by grind
      rw [h1, h2]
      simp [h3]
    · have hc' : c ∈ rest := by
        rcases List.mem_cons.1 hc with h | h
        · exact absurd h e
        · exact h
      have hxa : x a ≠ x c := hinj a (by simp) c hc (Ne.symm e)
      have h1 : rest.countP ((fun p => leftOf x p.1 p.2 == c) ∘ fun b => (a, b)) =
          if x c < x a then 1 else 0 := by
        have : rest.countP ((fun p => leftOf x p.1 p.2 == c) ∘ fun b => (a, b)) =
            rest.countP (fun b => b == c && !decide (x a < x c)) := by
          apply List.countP_congr
          intro b hb
          simp only [Function.comp, leftOf]
          have hae : (a == c) = false := by simpa using (Ne.symm e)
          split
          · next hlt =>
            by_cases hbc : b = c
            · subst hbc; simp [hae, hlt]
            · simp [hae, hbc]
          · next hlt =>
            by_cases hbc : b = c
            · subst hbc; simp [hlt]
            · simp [hbc]
        rw [this]
        by_cases hlt : x a < x c
        · have : ¬ x c < x a := by grind
          simp [hlt, this]
        · have hgt : x c < x a := by grind
          simp only [hlt, decide_false, Bool.not_false, Bool.and_true, hgt, if_true]
          have := hnd'.count (a := c)
          rw [if_pos hc'] at this
          exact this
      rw [h1, ih hnd' hinj' hc']
      by_cases hlt : x c < x a <;> simp [hlt] <;> omega

theorem countP_lt_of_imp {α : Type} (p q : α → Bool) (l : List α) (h : ∀ a ∈ l, p a = true → q a = true)
    (c : α) (hc : c ∈ l) (hq : q c = true) (hp : p c = false) : l.countP p < l.countP q := by
  induction l with
  | nil => simp at hc
  | cons d l ih =>
    rw [List.countP_cons, List.countP_cons]
    have h' : ∀ a ∈ l, p a = true → q a = true := fun a ha => h a (List.mem_cons_of_mem _ ha)
    rcases List.mem_cons.1 hc with e | hc'
    · subst e
      have := List.countP_mono_left h'
      simp only [hq, hp, if_true, Bool.false_eq_true, if_false]
      omega
    · have := ih h' hc'
      have hd := h d (by simp)
      cases hpd : p d
      · simp only [Bool.false_eq_true, if_false]; omega
      · simp only [hd hpd, if_true]; omega

/-- **the axis lists the coloured alternatives from left to right** -/
theorem axis_sorted {alts : List Nat} {x : Nat → Rat} {v1 vn : List Nat} {u w : Rat}
    (G : Geo alts x v1 vn u w) {g : Colouring} (hinv : Inv alts x v1 vn g) (halts : alts.Nodup) :
    (axisOf g v1 vn (colouredAlts alts g)).Pairwise (fun a b => x a < x b) := by
  have hsub : ∀ c ∈ colouredAlts alts g, c ∈ alts ∧ colour g c ≠ 3 := by
    intro c hc
    have := List.mem_filter.1 hc
    exact ⟨this.1, by simpa using this.2⟩
  have hnd : (colouredAlts alts g).Nodup := List.Sublist.nodup List.filter_sublist halts
  have hinj : ∀ a ∈ colouredAlts alts g, ∀ b ∈ colouredAlts alts g, a ≠ b → x a ≠ x b :=
    fun a ha b hb hab => G.r1.inj G.p1 (hsub a ha).1 (hsub b hb).1 hab
  have hw : ∀ p ∈ combos2 (colouredAlts alts g),
      axisWinner g v1 vn p.1 p.2 = some (leftOf x p.1 p.2) := by
    intro p hp
    obtain ⟨i, j, hij, hj, e1, e2⟩ := C19.combos2_getElem _ p.1 p.2 hp
    have hne : p.1 ≠ p.2 := by
      rw [← e1, ← e2]
      intro e
      have h1 := hnd.idxOf_getElem i (by omega)
      have h2 := hnd.idxOf_getElem j hj
      rw [e, h2] at h1
      omega
    obtain ⟨m1, m2⟩ := mem_combos2 _ p hp
    exact axisWinner_eq G hinv (hsub _ m1).1 (hsub _ m2).1 hne (hsub _ m1).2 (hsub _ m2).2
  have hD := foldl_axisStep g v1 vn x (combos2 (colouredAlts alts g)) hw (colouredAlts alts g) (fun _ => 0)
  unfold axisOf axisDict
  rw [hD, List.pairwise_map]
  have total : ∀ a b : Nat × Nat, (decide (b.2 ≤ a.2)) = true ∨ (decide (a.2 ≤ b.2)) = true := by
    intro a b; simp only [decide_eq_true_eq]; omega
  have trans : ∀ a b c : Nat × Nat, (decide (b.2 ≤ a.2)) = true → (decide (c.2 ≤ b.2)) = true →
      (decide (c.2 ≤ a.2)) = true := by
    intro a b c; simp only [decide_eq_true_eq]; omega
  have hsorted := IOL.stableSort_sorted (le := fun x y : Nat × Nat => decide (y.2 ≤ x.2)) total trans
    ((colouredAlts alts g).map (fun c =>
      (c, 0 + (combos2 (colouredAlts alts g)).countP (fun p => leftOf x p.1 p.2 == c))))
  have hperm := IOL.stableSort_perm (fun x y : Nat × Nat => decide (y.2 ≤ x.2))
    ((colouredAlts alts g).map (fun c =>
      (c, 0 + (combos2 (colouredAlts alts g)).countP (fun p => leftOf x p.1 p.2 == c))))
  have hnd2 : (List.map (·.1) (PrefVerif.Py.stableSort (fun x y : Nat × Nat => decide (y.2 ≤ x.2))
      ((colouredAlts alts g).map (fun c =>
        (c, 0 + (combos2 (colouredAlts alts g)).countP (fun p => leftOf x p.1 p.2 == c)))))).Nodup := by
    refine (hperm.map (·.1)).nodup_iff.2 ?_
    rw [List.map_map]
    have : (colouredAlts alts g).map ((·.1) ∘ fun c =>
        (c, 0 + (combos2 (colouredAlts alts g)).countP (fun p => leftOf x p.1 p.2 == c))) =
        colouredAlts alts g := (List.map_congr_left (fun _ _ => rfl)).trans (List.map_id _)
    rw [this]; exact hnd
  rw [List.Nodup, List.pairwise_map] at hnd2
  refine List.Pairwise.imp_of_mem ?_ (hsorted.and hnd2)
  intro s t hs ht hst
  obtain ⟨a, ha, rfl⟩ := List.mem_map.1 (hperm.mem_iff.1 hs)
  obtain ⟨b, hb, rfl⟩ := List.mem_map.1 (hperm.mem_iff.1 ht)
  obtain ⟨hle, hne⟩ := hst
  simp only [decide_eq_true_eq, Nat.zero_add] at hle hne
  rw [countP_leftOf x _ hnd hinj a ha, countP_leftOf x _ hnd hinj b hb] at hle
  have hx := hinj a ha b hb hne
  rcases (show x a < x b ∨ x b < x a by grind) with h | h
  · exact h
  · have := countP_lt_of_imp (fun c' => decide (x a < x c')) (fun c' => decide (x b < x c'))
      (colouredAlts alts g) (fun c _ hc => by simp only [decide_eq_true_eq] at hc ⊢; grind) a ha
      (by simpa using h) (by simp)
    omega

end PrefVerif.C19x
