import PrefVerif.Lemmas.C06AList
/-! C06: a score dict built by a sequence of `scores[a] += d` holds, for every key, the sum of
the increments addressed to it -/
namespace PrefVerif.C06
open PrefVerif PrefVerif.Py PrefVerif.SingleWinner

theorem mem_of_get?_some {ν : Type} (d : AList Nat ν) (k : Nat) (v : ν) (h : AList.get? d k = some v) :
    (k, v) ∈ d := by
  induction d with
  | nil => simp [get?_nil] at h
  | cons q d ih =>
    rw [get?_cons] at h
    by_cases e : q.1 = k
    · simp only [e, ↓reduceIte, Option.some.injEq] at h
      have : q = (k, v) := by rw [← e, ← h]
      simp [this]
    · simp only [e, ↓reduceIte] at h
      exact List.mem_cons_of_mem _ (ih h)

section incs
variable {β : Type} [Add β] [OfNat β 0]

/-- `scores.get(a, 0)` -/
def val (s : AList Nat β) (a : Nat) : β := (AList.get? s a).getD 0

theorem val_addScore (s : AList Nat β) (a b : Nat) (d : β) :
    val (addScore s a d) b = if b = a then val s a + d else val s b := by
  unfold addScore AList.upd val
  by_cases h : b = a
  · subst h; simp [get?_set_same]
  · simp [h, get?_set_other _ _ _ _ h]

theorem mem_keys_addScore (s : AList Nat β) (a x : Nat) (d : β) :
    x ∈ AList.keys (addScore s a d) ↔ x ∈ AList.keys s ∨ x = a := mem_keys_set _ _ _ _

theorem nodup_keys_addScore (s : AList Nat β) (a : Nat) (d : β) (h : (AList.keys s).Nodup) :
    (AList.keys (addScore s a d)).Nodup := nodup_keys_set _ _ _ h

theorem mem_addScore (s : AList Nat β) (a : Nat) (d : β) (p : Nat × β) (hp : p ∈ addScore s a d) :
    p ∈ s ∨ p.2 = 0 + d ∨ ∃ q ∈ s, p.2 = q.2 + d := by
  rcases mem_set _ _ _ _ hp with h | h
  · exact Or.inl h
  · right
    cases hg : AList.get? s a with
    | none => left; simp [h, hg]
    | some v => right; exact ⟨(a, v), mem_of_get?_some _ _ _ hg, by simp [h, hg]⟩

/-- apply a sequence of `scores[a] += d` -/
def applyIncs (s : AList Nat β) (L : List (Nat × β)) : AList Nat β :=
  L.foldl (fun s x => addScore s x.1 x.2) s

/-- total increment addressed to `a` -/
def tot : List (Nat × β) → Nat → β
  | [], _ => 0
  | x :: L, a => (if x.1 = a then x.2 else 0) + tot L a

theorem applyIncs_append (s : AList Nat β) (L₁ L₂ : List (Nat × β)) :
    applyIncs s (L₁ ++ L₂) = applyIncs (applyIncs s L₁) L₂ := by simp [applyIncs]

theorem mem_keys_applyIncs (L : List (Nat × β)) (s : AList Nat β) (x : Nat) :
    x ∈ AList.keys (applyIncs s L) ↔ x ∈ AList.keys s ∨ x ∈ L.map (·.1) := by
  induction L generalizing s with
  | nil => simp [applyIncs]
  | cons y L ih =>
    have := ih (addScore s y.1 y.2)
    simp only [applyIncs, List.foldl_cons] at this ⊢
    rw [this, mem_keys_addScore]; simp only [List.map_cons, List.mem_cons]; grind

theorem nodup_keys_applyIncs (L : List (Nat × β)) (s : AList Nat β) (h : (AList.keys s).Nodup) :
    (AList.keys (applyIncs s L)).Nodup := by
  induction L generalizing s with
  | nil => simpa [applyIncs] using h
  | cons y L ih => exact ih _ (nodup_keys_addScore _ _ _ h)

theorem applyIncs_inv (P : β → Prop) (L : List (Nat × β)) (s : AList Nat β)
    (h0 : ∀ x ∈ L, P (0 + x.2)) (hstep : ∀ v, P v → ∀ x ∈ L, P (v + x.2))
    (hs : ∀ p ∈ s, P p.2) : ∀ p ∈ applyIncs s L, P p.2 := by
  induction L generalizing s with
  | nil => simpa [applyIncs] using hs
  | cons y L ih =>
    apply ih (addScore s y.1 y.2) (fun x hx => h0 x (by simp [hx]))
      (fun v hv x hx => hstep v hv x (by simp [hx]))
    intro p hp
    rcases mem_addScore _ _ _ _ hp with h | h | ⟨q, hq, h⟩
    · exact hs p h
    · rw [h]; exact h0 y (by simp)
    · rw [h]; exact hstep _ (hs q hq) y (by simp)

theorem applyIncs_ne_nil (L : List (Nat × β)) (s : AList Nat β) (h : L ≠ [] ∨ s ≠ []) :
    applyIncs s L ≠ [] := by
  intro e
  have hk : ∀ x, x ∉ AList.keys (applyIncs s L) := by simp [e, AList.keys]
  rcases h with h | h
  · cases L with
    | nil => exact h rfl
    | cons y L => exact hk y.1 ((mem_keys_applyIncs _ _ _).2 (Or.inr (by simp)))
  · cases s with
    | nil => exact h rfl
    | cons q s => exact hk q.1 ((mem_keys_applyIncs _ _ _).2 (Or.inl (by simp [AList.keys])))

variable (hassoc : ∀ x y z : β, x + y + z = x + (y + z)) (hz : ∀ x : β, x + 0 = x)
  (hz' : ∀ x : β, 0 + x = x)
include hassoc hz hz'

theorem val_applyIncs (L : List (Nat × β)) (s : AList Nat β) (a : Nat) :
    val (applyIncs s L) a = val s a + tot L a := by
  induction L generalizing s with
  | nil => simp [applyIncs, tot, hz]
  | cons y L ih =>
    have := ih (addScore s y.1 y.2)
    simp only [applyIncs, List.foldl_cons] at this ⊢
    rw [this, val_addScore, tot]
    by_cases h : a = y.1
    · subst h; simp [hassoc]
    · have h' : ¬ y.1 = a := fun e => h e.symm
      simp [h, h', hz']

omit hz in
theorem tot_append (L₁ L₂ : List (Nat × β)) (a : Nat) : tot (L₁ ++ L₂) a = tot L₁ a + tot L₂ a := by
  induction L₁ with
  | nil => simp [tot, hz']
  | cons y L ih => simp [tot, ih, hassoc]

end incs
end PrefVerif.C06
