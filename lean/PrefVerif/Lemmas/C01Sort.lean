import PrefVerif.Spec.IOWF
import PrefVerif.Lemmas.IOSort
import PrefVerif.Lemmas.IOAList
/-!
# C01 — the ballot sort key, the normal form `normOrd`, and the second write
-/
namespace PrefVerif.C01
open PrefVerif PrefVerif.Py PrefVerif.InstanceIO PrefVerif.OrdinalIO PrefVerif.Spec.IO PrefVerif.IOL

/-- `wfOrd` unfolded into propositions -/
theorem wfOrd_iff (i : OrdInst) : wfOrd i = true ↔
    wfHeader i.header = true ∧ i.orders ≠ [] ∧ i.orders.Nodup ∧ AList.keys i.multiplicity = i.orders ∧
    ∀ o ∈ i.orders, o ≠ [] ∧ ∀ c ∈ o, c ≠ [] := by
  simp [wfOrd, and_assoc]

theorem keyLe_total (m : AList Order Nat) (a b : Order) : keyLe m a b = true ∨ keyLe m b a = true := by
  simp only [keyLe, ge_iff_le, gt_iff_lt, Bool.or_eq_true, decide_eq_true_eq, Bool.and_eq_true, beq_iff_eq]
  omega

theorem keyLe_trans (m : AList Order Nat) (a b c : Order) :
    keyLe m a b = true → keyLe m b c = true → keyLe m a c = true := by
  simp only [keyLe, ge_iff_le, gt_iff_lt, Bool.or_eq_true, decide_eq_true_eq, Bool.and_eq_true, beq_iff_eq]
  omega

/-- earlier ballots have at least the multiplicity of later ones -/
theorem keyLe_mult {m : AList Order Nat} {a b : Order} (h : keyLe m a b = true) :
    (m.get? a).getD 0 ≥ (m.get? b).getD 0 := by
  simp only [keyLe, ge_iff_le, gt_iff_lt, Bool.or_eq_true, decide_eq_true_eq, Bool.and_eq_true, beq_iff_eq] at h
  omega

/-- the orders as written -/
abbrev sorted (i : OrdInst) : List Order := stableSort (keyLe i.multiplicity) i.orders

theorem sorted_sortedBy (i : OrdInst) : SortedBy (keyLe i.multiplicity) (sorted i) :=
  stableSort_sorted (keyLe_total _) (keyLe_trans _) _

theorem normOrd_orders (i : OrdInst) : (normOrd i).orders = sorted i := rfl
theorem normOrd_header (i : OrdInst) : (normOrd i).header = i.header := rfl
theorem normOrd_numUniqueOrders (i : OrdInst) : (normOrd i).numUniqueOrders = i.numUniqueOrders := rfl
theorem normOrd_multiplicity (i : OrdInst) :
    (normOrd i).multiplicity = (sorted i).map (fun o => (o, (i.multiplicity.get? o).getD 0)) := rfl

theorem normOrd_get? (i : OrdInst) (h : wfOrd i = true) (o : Order) :
    (normOrd i).multiplicity.get? o = i.multiplicity.get? o := by
  obtain ⟨_, _, _, hk, _⟩ := (wfOrd_iff i).1 h
  rw [normOrd_multiplicity, get?_map_table]
  by_cases ho : o ∈ i.orders
  · rw [if_pos ((mem_stableSort _ _ _).2 ho)]
    obtain ⟨v, hv⟩ := get?_isSome_of_mem i.multiplicity o (hk ▸ ho)
    simp [hv]
  · rw [if_neg (fun hm => ho ((mem_stableSort _ _ _).1 hm))]
    exact (get?_eq_none_of_not_mem i.multiplicity o (hk ▸ ho)).symm

theorem normOrd_keyLe (i : OrdInst) (h : wfOrd i = true) (a b : Order) :
    keyLe (normOrd i).multiplicity a b = keyLe i.multiplicity a b := by
  simp only [keyLe, normOrd_get? i h]

theorem wfOrd_normOrd (i : OrdInst) (h : wfOrd i = true) : wfOrd (normOrd i) = true := by
  obtain ⟨hh, hne, hnd, hk, hall⟩ := (wfOrd_iff i).1 h
  refine (wfOrd_iff _).2 ⟨hh, ?_, ?_, ?_, ?_⟩
  · rw [normOrd_orders]; exact fun h0 => hne ((stableSort_eq_nil_iff _ _).1 h0)
  · rw [normOrd_orders]; exact (nodup_stableSort _ _).2 hnd
  · rw [normOrd_multiplicity, normOrd_orders, keys_map_table]
  · intro o ho; rw [normOrd_orders] at ho; exact hall o ((mem_stableSort _ _ _).1 ho)

/-- the normal form is a fixed point: its orders are already in written order -/
theorem sorted_normOrd (i : OrdInst) (h : wfOrd i = true) : sorted (normOrd i) = sorted i := by
  show stableSort (keyLe (normOrd i).multiplicity) (sorted i) = sorted i
  rw [stableSort_congr (normOrd_keyLe i h)]
  exact stableSort_idem (keyLe_total _) (keyLe_trans _) _

end PrefVerif.C01
