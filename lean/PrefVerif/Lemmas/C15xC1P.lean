import PrefVerif.Props.C05PQ
/-!
# C15x helper lemmas, part 3: the consecutive-ones specification `Spec.C1P` does not depend on the
order of the rows, nor on the order in which the columns are stored (compose the witness order with
the column permutation).
-/
namespace PrefVerif.C15x
open PrefVerif PrefVerif.Spec PrefVerif.Spec.Approval

/-- the matrix with its columns rearranged: column `j` of the result is column `π[j]` of `m` -/
def permCols (π : List Nat) (m : Dichotomous.Matrix) : Dichotomous.Matrix :=
  m.map (fun row => π.map (fun c => row.getD c 0))

/-! ### rows -/

theorem c1p_rows_congr (n : Nat) {rows rows' : List (List Nat)} (h : ∀ r, r ∈ rows ↔ r ∈ rows') :
    C1P n rows ↔ C1P n rows' := by
  unfold C1P
  simp only [h]

theorem c1p_rowsOfMatrix_perm (n : Nat) {m m' : Dichotomous.Matrix} (hp : m.Perm m') :
    C1P n (rowsOfMatrix m) ↔ C1P n (rowsOfMatrix m') :=
  c1p_rows_congr n (fun _ => (hp.map _).mem_iff)

/-! ### `Contiguous` along a map of the axis -/

theorem getElem!_map_lt (f : Nat → Nat) (ord : List Nat) {i : Nat} (hi : i < ord.length) :
    (ord.map f)[i]! = f (ord[i]!) ∧ ord[i]! ∈ ord := by
  rw [getElem!_pos (ord.map f) i (by simpa using hi), getElem!_pos ord i hi, List.getElem_map]
  exact ⟨rfl, List.getElem_mem hi⟩

theorem contiguous_map_iff (f : Nat → Nat) (ord r r' : List Nat)
    (h : ∀ x ∈ ord, f x ∈ r' ↔ x ∈ r) : Contiguous (ord.map f) r' ↔ Contiguous ord r := by
  unfold Contiguous
  simp only [List.length_map]
  constructor
  · intro hc i j k hij hjk hk hi hkk
    obtain ⟨ei, mi⟩ := getElem!_map_lt f ord (show i < ord.length by omega)
    obtain ⟨ej, mj⟩ := getElem!_map_lt f ord (show j < ord.length by omega)
    obtain ⟨ek, mk⟩ := getElem!_map_lt f ord hk
    have := hc i j k hij hjk hk (by rw [ei]; exact (h _ mi).2 hi) (by rw [ek]; exact (h _ mk).2 hkk)
    rw [ej] at this
    exact (h _ mj).1 this
  · intro hc i j k hij hjk hk hi hkk
    obtain ⟨ei, mi⟩ := getElem!_map_lt f ord (show i < ord.length by omega)
    obtain ⟨ej, mj⟩ := getElem!_map_lt f ord (show j < ord.length by omega)
    obtain ⟨ek, mk⟩ := getElem!_map_lt f ord hk
    rw [ei] at hi; rw [ek] at hkk; rw [ej]
    exact (h _ mj).2 (hc i j k hij hjk hk ((h _ mi).1 hi) ((h _ mk).1 hkk))

/-! ### columns -/

theorem getD_eq_one_iff (row : List Nat) (c : Nat) : row.getD c 0 = 1 ↔ c ∈ C05.rowOnes row := by
  rw [C05.mem_rowOnes, List.getD_eq_getElem?_getD]
  cases row[c]? with
  | none => simp
  | some v => simp

/-- the ones of a row of the rearranged matrix: the positions `j` with `π[j]` a one of the row -/
theorem mem_rowOnes_permuted (π row : List Nat) (j : Nat) :
    j ∈ C05.rowOnes (π.map (fun c => row.getD c 0)) ↔ ∃ c, π[j]? = some c ∧ c ∈ C05.rowOnes row := by
  rw [C05.mem_rowOnes, List.getElem?_map]
  cases π[j]? with
  | none => simp
  | some c => simp [← getD_eq_one_iff, List.getD_eq_getElem?_getD]

theorem map_getD_range (π : List Nat) (n : Nat) (h : π.length = n) :
    (List.range n).map (fun i => π.getD i 0) = π := by
  subst h
  apply List.ext_getElem
  · simp
  · intro i h1 h2
    simp only [List.getElem_map, List.getElem_range, List.getD_eq_getElem?_getD]
    rw [List.getElem?_eq_getElem h2]; rfl

theorem map_idxOf_self (π : List Nat) (hn : π.Nodup) :
    π.map (fun x => π.idxOf x) = List.range π.length := by
  apply List.ext_getElem
  · simp
  · intro i h1 h2
    simp only [List.getElem_map, List.getElem_range]
    exact hn.idxOf_getElem i (by simpa using h1)

theorem rowsOfMatrix_permCols (π : List Nat) (m : Dichotomous.Matrix) :
    rowsOfMatrix (permCols π m) = m.map (fun row => C05.rowOnes (π.map (fun c => row.getD c 0))) := by
  rw [C05.rowsOfMatrix_eq, permCols, List.map_map]; rfl

theorem c1p_permCols (m : Dichotomous.Matrix) (nc : Nat) (π : List Nat) (hπ : π.Perm (List.range nc)) :
    C1P nc (rowsOfMatrix (permCols π m)) ↔ C1P nc (rowsOfMatrix m) := by
  have hlen : π.length = nc := by simpa using hπ.length_eq
  have hnd : π.Nodup := hπ.nodup_iff.2 List.nodup_range
  rw [rowsOfMatrix_permCols, C05.rowsOfMatrix_eq]
  constructor
  · rintro ⟨ord', hp', hc'⟩
    refine ⟨ord'.map (fun i => π.getD i 0), ?_, ?_⟩
    · have := hp'.map (fun i => π.getD i 0)
      rw [map_getD_range π nc hlen] at this
      exact this.trans hπ
    · intro r hr
      obtain ⟨row, hrow, rfl⟩ := List.mem_map.1 hr
      refine (contiguous_map_iff _ ord' _ _ ?_).2
        (hc' (C05.rowOnes (π.map (fun c => row.getD c 0))) (List.mem_map.2 ⟨row, hrow, rfl⟩))
      intro x hx
      have hxl : x < π.length := by
        have := hp'.mem_iff.1 hx
        rw [List.mem_range] at this; omega
      rw [mem_rowOnes_permuted, List.getElem?_eq_getElem hxl, List.getD_eq_getElem?_getD,
        List.getElem?_eq_getElem hxl]
      simp
  · rintro ⟨ord, hp, hc⟩
    refine ⟨ord.map (fun x => π.idxOf x), ?_, ?_⟩
    · have := (hp.trans hπ.symm).map (fun x => π.idxOf x)
      rw [map_idxOf_self π hnd, hlen] at this
      exact this
    · intro r' hr'
      obtain ⟨row, hrow, rfl⟩ := List.mem_map.1 hr'
      refine (contiguous_map_iff _ ord (C05.rowOnes row) _ ?_).2
        (hc (C05.rowOnes row) (List.mem_map.2 ⟨row, hrow, rfl⟩))
      intro x hx
      have hxπ : x ∈ π := (hp.trans hπ.symm).mem_iff.1 hx
      have hil : π.idxOf x < π.length := List.idxOf_lt_length_iff.2 hxπ
      rw [mem_rowOnes_permuted, List.getElem?_eq_getElem hil, List.getElem_idxOf hil]
      simp

end PrefVerif.C15x
