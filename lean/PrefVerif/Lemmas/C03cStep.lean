import PrefVerif.Lemmas.C03cOne
import PrefVerif.Lemmas.C03cTwo
/-!
# C03 completeness, part 7: one iteration of the `while` loop and the whole loop

`CInv`: the soundness invariant of `Lemmas/C03Sound.lean`, every remaining preference is what is
left of some voter's order, and the existential invariant `Ex`.  Every continuing iteration
preserves it; every `break` taken under it returns `True`.
-/
namespace PrefVerif.C03c
open PrefVerif PrefVerif.ELO PrefVerif.Spec PrefVerif.C03

def CInv (alts : List Nat) (orders : List (List Nat)) (s : State) : Prop :=
  SInv alts orders s ∧ (∀ p ∈ s.prefs, ∃ o ∈ orders, p.Sublist o) ∧
    Ex alts orders s.tal s.left s.right

/-- three distinct popped candidates cannot all be at the two ends of `M` -/
theorem complete_three {alts : List Nat} {orders : List (List Nat)} {s : State}
    {popped : List (List Nat × Nat)} {M : List Nat} (R : Round alts orders s popped M) {a b c : Nat}
    (hab : a ≠ b) (hac : a ≠ c) (hbc : b ≠ c) (ha : ∃ r ∈ popped, r.2 = a)
    (hb : ∃ r ∈ popped, r.2 = b) (hc : ∃ r ∈ popped, r.2 = c) : False := by
  obtain ⟨ra, hra, ea⟩ := ha
  obtain ⟨rb, hrb, eb⟩ := hb
  obtain ⟨rc, hrc, ec⟩ := hc
  have hae := R.at_end hra
  have hbe := R.at_end hrb
  have hce := R.at_end hrc
  rw [ea] at hae
  rw [eb] at hbe
  rw [ec] at hce
  have hh : ∀ {u v : Nat} {M1 M2 : List Nat}, M = u :: M1 → M = v :: M2 → u = v := by
    intro u v M1 M2 h1 h2
    rw [h1] at h2; simp only [List.cons.injEq] at h2; exact h2.1
  have hl : ∀ {u v : Nat} {M1 M2 : List Nat}, M = M1 ++ [u] → M = M2 ++ [v] → u = v := by
    intro u v M1 M2 h1 h2
    rw [h1] at h2
    have := (List.append_inj' h2 rfl).2
    simpa using this
  rcases hae with ⟨A1, h1⟩ | ⟨A1, h1⟩ <;> rcases hbe with ⟨A2, h2⟩ | ⟨A2, h2⟩ <;>
    rcases hce with ⟨A3, h3⟩ | ⟨A3, h3⟩
  · exact hab (hh h1 h2)
  · exact hab (hh h1 h2)
  · exact hac (hh h1 h3)
  · exact hbc (hl h2 h3)
  · exact hbc (hh h2 h3)
  · exact hac (hl h1 h3)
  · exact hab (hl h1 h2)
  · exact hab (hl h1 h2)

section
variable {alts : List Nat} {orders : List (List Nat)}

/-- a continuing iteration preserves the invariant -/
theorem step_complete_fin {s s' : State} (hn : alts.Nodup) (ho : ∀ o ∈ orders, o.Perm alts)
    (hC : CInv alts orders s) (hlen : 1 ≤ headLen s) (h : step orders s = .fin s') :
    CInv alts orders s' := by
  obtain ⟨hS, hsub', M, hM, hV⟩ := hC
  have hS' := step_sound hn ho hS hlen h
  obtain ⟨hinv, hsub, hrest⟩ := hS
  have hEF : EndsOk s ∧ ∀ o ∈ orders, Full o s := by
    rcases hrest with h | ⟨h0, _⟩
    · exact h
    · omega
  obtain ⟨hE, hF⟩ := hEF
  unfold step at h
  split at h
  · simp at h
  · rename_i popped hpop
    have hprefs := popAll_eq_some hpop
    have R : Round alts orders s popped M := ⟨hn, ho, hinv.2, hsub, hsub', hprefs, hM, hV⟩
    have hpne : popped ≠ [] := by
      intro e; rw [e] at hprefs; exact hinv.1 hprefs
    have hfa : ∀ r ∈ popped, r.2 ∈ firstAppearances (popped.map (·.2)) := fun r hr =>
      (mem_firstAppearances _ _).2 (List.mem_map.2 ⟨r, hr, rfl⟩)
    have hex : ∀ z ∈ firstAppearances (popped.map (·.2)), ∃ r ∈ popped, r.2 = z := by
      intro z hz
      rw [mem_firstAppearances] at hz
      obtain ⟨r, hr, e⟩ := List.mem_map.1 hz
      exact ⟨r, hr, e⟩
    -- what is left of a voter's order stays so
    have hsubNew : ∀ (f : List Nat → List Nat), (∀ l, (f l).Sublist l) →
        ∀ p ∈ (popped.map (·.1)).map f, ∃ o ∈ orders, p.Sublist o := by
      intro f hf p hp
      simp only [List.map_map, List.mem_map, Function.comp] at hp
      obtain ⟨r, hr, rfl⟩ := hp
      obtain ⟨o, hoo, hs⟩ := hsub' _ (R.pref_mem hr)
      exact ⟨o, hoo, ((hf r.1).trans (List.sublist_append_left _ _)).trans hs⟩
    split at h
    · simp at h
    · rename_i x hx
      have hlast : ∀ r ∈ popped, r.2 = x := by
        intro r hr; have := hfa r hr; rw [hx] at this; simpa using this
      refine ⟨hS', ?_, complete_one_fin R hpne hlast hE hF h⟩
      rw [(stepOne_fin h).1]
      exact hsubNew (fun p => p.erase x) (fun l => List.erase_sublist)
    · rename_i x y hx
      have hnd := firstAppearances_nodup (popped.map (·.2))
      rw [hx] at hnd
      have hxy : x ≠ y := by
        intro e; subst e; simp at hnd
      have hlast : ∀ r ∈ popped, r.2 = x ∨ r.2 = y := by
        intro r hr; have := hfa r hr; rw [hx] at this; simpa using this
      refine ⟨hS', ?_, complete_two_fin R hxy hlast (hex x (by rw [hx]; simp)) (hex y (by rw [hx]; simp))
        hE hF h⟩
      rw [(stepTwo_fin h).1]
      exact hsubNew (fun p => (p.erase x).erase y)
        (fun l => List.erase_sublist.trans List.erase_sublist)
    · simp at h

/-- a `break` taken while a single-peaked axis of the canonical form exists returns `True` -/
theorem step_complete_brk {s : State} {e : Exit} (hrk : Rankings alts orders)
    (hC : CInv alts orders s) (hlen : 1 ≤ headLen s) (h : step orders s = .brk e) :
    e.result.1 = true := by
  have hn := hrk.1
  have ho := hrk.perm
  obtain ⟨hS, hsub', M, hM, hV⟩ := hC
  obtain ⟨hinv, hsub, hrest⟩ := hS
  have hEF : EndsOk s ∧ ∀ o ∈ orders, Full o s := by
    rcases hrest with h | ⟨h0, _⟩
    · exact h
    · omega
  obtain ⟨hE, hF⟩ := hEF
  unfold step at h
  split at h
  · simp at h
  · rename_i popped hpop
    have hprefs := popAll_eq_some hpop
    have R : Round alts orders s popped M := ⟨hn, ho, hinv.2, hsub, hsub', hprefs, hM, hV⟩
    have hpne : popped ≠ [] := by
      intro e; rw [e] at hprefs; exact hinv.1 hprefs
    have hfa : ∀ r ∈ popped, r.2 ∈ firstAppearances (popped.map (·.2)) := fun r hr =>
      (mem_firstAppearances _ _).2 (List.mem_map.2 ⟨r, hr, rfl⟩)
    have hex : ∀ z ∈ firstAppearances (popped.map (·.2)), ∃ r ∈ popped, r.2 = z := by
      intro z hz
      rw [mem_firstAppearances] at hz
      obtain ⟨r, hr, e⟩ := List.mem_map.1 hz
      exact ⟨r, hr, e⟩
    split at h
    · simp at h
    · rename_i x hx
      have hlast : ∀ r ∈ popped, r.2 = x := by
        intro r hr; have := hfa r hr; rw [hx] at this; simpa using this
      exact (complete_one_brk R hpne hlast hE h).elim
    · rename_i x y hx
      have hnd := firstAppearances_nodup (popped.map (·.2))
      rw [hx] at hnd
      have hxy : x ≠ y := by
        intro e; subst e; simp at hnd
      have hlast : ∀ r ∈ popped, r.2 = x ∨ r.2 = y := by
        intro r hr; have := hfa r hr; rw [hx] at this; simpa using this
      exact complete_two_brk R hrk hxy hlast (hex x (by rw [hx]; simp)) (hex y (by rw [hx]; simp)) hE h
    · rename_i a b c rest hx
      exfalso
      have hnd := firstAppearances_nodup (popped.map (·.2))
      rw [hx] at hnd
      simp only [List.nodup_cons, List.mem_cons, not_or] at hnd
      exact complete_three R hnd.1.1 hnd.1.2.1 hnd.2.1.1 (hex a (by rw [hx]; simp))
        (hex b (by rw [hx]; simp)) (hex c (by rw [hx]; simp))

/-- the whole loop: under the invariant the answer is `True` -/
theorem loop_complete (hrk : Rankings alts orders) :
    ∀ (fuel : Nat) (s : State) (e : Exit), CInv alts orders s → loop orders fuel s = some e →
      e.result.1 = true := by
  intro fuel
  induction fuel with
  | zero => intro s e _ h; simp [loop] at h
  | succ f ih =>
    intro s e hC h
    unfold loop at h
    split at h
    · simp at h
    · rename_i p ps hps
      split at h
      · rename_i hlen
        have hl : 1 ≤ headLen s := by simp [headLen, hps]; omega
        split at h
        · simp at h
        · rename_i e' hst
          simp only [Option.some.injEq] at h; subst h
          exact step_complete_brk hrk hC hl hst
        · rename_i s' hst
          exact ih s' e (step_complete_fin hrk.1 hrk.perm hC hl hst) h
      · simp only [Option.some.injEq] at h; subst h
        rfl

end

end PrefVerif.C03c
