import PrefVerif.Lemmas.C03Loops
/-!
# C03 completeness, part 2: what the two `for` loops record about the voters that force a placement

`case = 1` / `case = 2` and the entries of `forced_position` are always justified by a voter for whom
the placement is forced; a `contradiction` break comes from two voters forcing opposite placements;
a Case 2(d) break comes from a voter who ranks the two last candidates between `x_i` and `x_j`.
-/
namespace PrefVerif.C03c
open PrefVerif PrefVerif.ELO PrefVerif.Py PrefVerif.C03

/-- `forLoop` with an invariant of the loop-carried variables, the voters being members of `os` -/
theorem forLoop_mem {α : Type} (body : List Nat → α → Loop α) (P : α → Prop) :
    ∀ (os : List (List Nat)), (∀ o ∈ os, ∀ a a', P a → body o a = .fin a' → P a') →
      ∀ a, P a → (∀ a', forLoop body os a = .fin a' → P a') ∧
        (∀ e, forLoop body os a = .brk e → ∃ o ∈ os, ∃ a', P a' ∧ body o a' = .brk e) := by
  intro os
  induction os with
  | nil =>
    intro _ a hP
    refine ⟨fun a' h => ?_, fun e h => ?_⟩
    · simp only [forLoop, Loop.fin.injEq] at h; exact h ▸ hP
    · simp [forLoop] at h
  | cons o os ih =>
    intro hbody a hP
    have ih' := ih (fun o' ho' => hbody o' (List.mem_cons_of_mem _ ho'))
    refine ⟨fun a' h => ?_, fun e h => ?_⟩
    · unfold forLoop at h
      cases hb : body o a with
      | error => rw [hb] at h; simp at h
      | brk e => rw [hb] at h; simp at h
      | fin a1 =>
        rw [hb] at h
        exact (ih' a1 (hbody o List.mem_cons_self a a1 hP hb)).1 a' h
    · unfold forLoop at h
      cases hb : body o a with
      | error => rw [hb] at h; simp at h
      | brk e' =>
        rw [hb] at h
        simp only [Loop.brk.injEq] at h
        subst h
        exact ⟨o, List.mem_cons_self, a, hP, hb⟩
      | fin a1 =>
        rw [hb] at h
        obtain ⟨o', ho', a', hP', hb'⟩ := (ih' a1 (hbody o List.mem_cons_self a a1 hP hb)).2 e h
        exact ⟨o', List.mem_cons_of_mem _ ho', a', hP', hb'⟩

/-! ### one last candidate -/

/-- `case = 1` is justified by a voter ranking `x` below `x_j`, `case = 2` by one ranking it below `x_i` -/
def Q1 (orders : List (List Nat)) (x xi xj : Nat) (c : Nat) : Prop :=
  (c = 1 → ∃ o ∈ orders, lt o xj x) ∧ (c = 2 → ∃ o ∈ orders, lt o xi x)

theorem body1_Q1 {orders : List (List Nat)} {x xi xj : Nat} {o : List Nat} {c c' : Nat} (hoo : o ∈ orders)
    (hQ : Q1 orders x xi xj c) (h : body1 x xi xj o c = .fin c') : Q1 orders x xi xj c' := by
  unfold body1 at h
  split at h
  · rename_i ix ii ij hx hi hj
    have ex := pyIndex_eq_some hx
    have ei := pyIndex_eq_some hi
    have ej := pyIndex_eq_some hj
    subst ex ei ej
    split at h
    · rename_i hcond
      split at h
      · simp at h
      · simp only [Loop.fin.injEq] at h; subst h
        exact ⟨fun _ => ⟨o, hoo, by unfold lt; omega⟩, fun e => by omega⟩
    · split at h
      · rename_i hcond
        split at h
        · simp at h
        · simp only [Loop.fin.injEq] at h; subst h
          exact ⟨fun e => by omega, fun _ => ⟨o, hoo, by unfold lt; omega⟩⟩
      · split at h
        · simp only [Loop.fin.injEq] at h; subst h; exact hQ
        · simp at h
  · simp at h

theorem body1_brk_Q1 {orders : List (List Nat)} {x xi xj : Nat} {o : List Nat} {c : Nat} {e : Exit}
    (hoo : o ∈ orders) (hQ : Q1 orders x xi xj c) (h : body1 x xi xj o c = .brk e) :
    ∃ o1 ∈ orders, ∃ o2 ∈ orders, lt o1 xj x ∧ lt o2 xi x := by
  unfold body1 at h
  split at h
  · rename_i ix ii ij hx hi hj
    have ex := pyIndex_eq_some hx
    have ei := pyIndex_eq_some hi
    have ej := pyIndex_eq_some hj
    subst ex ei ej
    split at h
    · rename_i hcond
      split at h
      · rename_i hc2
        obtain ⟨o2, ho2, h2⟩ := hQ.2 hc2
        exact ⟨o, hoo, o2, ho2, by unfold lt; omega, h2⟩
      · simp at h
    · split at h
      · rename_i hcond
        split at h
        · rename_i hc1
          obtain ⟨o1, ho1, h1⟩ := hQ.1 hc1
          exact ⟨o1, ho1, o, hoo, h1, by unfold lt; omega⟩
        · simp at h
      · split at h <;> simp at h
  · simp at h

/-- the one-candidate step when both ends exist and candidates remain: where `x` goes and why -/
theorem stepOne_some_fin {orders : List (List Nat)} {s s' : State} {x xi xj : Nat} {p : List Nat}
    {ps : List (List Nat)} (he : s.ends = some (xi, xj)) (hp : s.prefs = p :: ps) (hne : p ≠ [])
    (h : stepOne orders s x = .fin s') :
    (s' = { s with left := s.left ++ [x], ends := some (x, xj) } ∧
      ((∀ o ∈ orders, lt o x xi ∧ lt o x xj) ∨ ∃ o ∈ orders, lt o xj x)) ∨
    (s' = { s with right := x :: s.right, ends := some (xi, x) } ∧ ∃ o ∈ orders, lt o xi x) := by
  obtain ⟨prefs, tal, left, right, ends⟩ := s
  simp only at he hp; subst he hp
  simp only [stepOne] at h
  have hlen : ¬ p.length = 0 := by
    cases p with
    | nil => exact absurd rfl hne
    | cons _ _ => simp
  simp only [hlen, if_false] at h
  split at h
  · simp at h
  · simp at h
  · rename_i case hfl
    have hP : P1 x xi xj ([] ++ orders) case :=
      forLoop_fin_pre (body1 x xi xj) (P1 x xi xj) (fun done o a a' hP hb => body1_P1 hP hb)
        orders [] 0 case ⟨by omega, by simp⟩ hfl
    simp only [List.nil_append] at hP
    obtain ⟨hc, hall⟩ := hP
    have hQ : Q1 orders x xi xj case :=
      (forLoop_mem (body1 x xi xj) (Q1 orders x xi xj) orders
        (fun o hoo a a' hQ hb => body1_Q1 hoo hQ hb) 0 ⟨by omega, by omega⟩).1 case hfl
    split at h
    · rename_i h0
      simp only [Loop.fin.injEq] at h
      exact Or.inl ⟨h.symm, Or.inl fun o ho => (hall o ho).1 h0⟩
    · split at h
      · rename_i h1
        simp only [Loop.fin.injEq] at h
        exact Or.inl ⟨h.symm, Or.inr (hQ.1 h1)⟩
      · split at h
        · rename_i h2
          simp only [Loop.fin.injEq] at h
          exact Or.inr ⟨h.symm, hQ.2 h2⟩
        · omega

theorem stepOne_some_brk {orders : List (List Nat)} {s : State} {x xi xj : Nat} {e : Exit}
    {p : List Nat} {ps : List (List Nat)} (he : s.ends = some (xi, xj)) (hp : s.prefs = p :: ps)
    (h : stepOne orders s x = .brk e) :
    p ≠ [] ∧ ∃ o1 ∈ orders, ∃ o2 ∈ orders, lt o1 xj x ∧ lt o2 xi x := by
  obtain ⟨prefs, tal, left, right, ends⟩ := s
  simp only at he hp; subst he hp
  simp only [stepOne] at h
  split at h
  · simp at h
  · rename_i hlen
    refine ⟨fun e => hlen (by simp [e]), ?_⟩
    split at h
    · simp at h
    · rename_i e' hfl
      obtain ⟨o, hoo, c, hQ, hb⟩ :=
        (forLoop_mem (body1 x xi xj) (Q1 orders x xi xj) orders
          (fun o hoo a a' hQ hb => body1_Q1 hoo hQ hb) 0 ⟨by omega, by omega⟩).2 e' hfl
      exact body1_brk_Q1 hoo hQ hb
    · split at h
      · simp at h
      · split at h
        · simp at h
        · split at h <;> simp at h

/-! ### two last candidates -/

/-- voter `o` forces `w` next to `x_i` and `u` next to `x_j`: the lower-ranked of the two is `w` and
it is below `x_j`, or it is `u` and it is below `x_i` -/
def ForceLR (xi xj : Nat) (o : List Nat) (w u : Nat) : Prop :=
  (lt o u w ∧ lt o xj w) ∨ (lt o w u ∧ lt o xi u)

/-- every entry of `forced_position` is justified by a voter -/
def Forc (orders : List (List Nat)) (xi xj x y : Nat) (f : AList Nat Side) : Prop :=
  (f.get? x = some .left → f.get? y = some .right → ∃ o ∈ orders, ForceLR xi xj o x y) ∧
  (f.get? x = some .right → f.get? y = some .left → ∃ o ∈ orders, ForceLR xi xj o y x)

theorem dictOk_symm {x y : Nat} {f : AList Nat Side} (h : DictOk x y f) : DictOk y x f := by
  rcases h with ⟨a, b⟩ | ⟨a, b⟩ | ⟨a, b⟩
  · exact Or.inl ⟨b, a⟩
  · exact Or.inr (Or.inr ⟨b, a⟩)
  · exact Or.inr (Or.inl ⟨b, a⟩)

theorem forc_symm {orders : List (List Nat)} {xi xj x y : Nat} {f : AList Nat Side}
    (h : Forc orders xi xj x y f) : Forc orders xi xj y x f :=
  ⟨fun a b => h.2 b a, fun a b => h.1 b a⟩

/-- what the `if … elif …` chain does, the lower-ranked candidate being `x'` -/
theorem body2core_Q {orders : List (List Nat)} {s : State} {o : List Nat} {xi xj x' y' : Nat}
    {f : AList Nat Side} (hoo : o ∈ orders) (hx'y' : x' ≠ y') (hd : DictOk x' y' f)
    (hF : Forc orders xi xj x' y' f) :
    (∀ v', body2core orders s o (o.idxOf xi) (o.idxOf xj) (o.idxOf x') (o.idxOf y') x' y' f = .fin v' →
      v'.x = x' ∧ v'.y = y' ∧ DictOk x' y' v'.forced ∧ Forc orders xi xj x' y' v'.forced) ∧
    (∀ e, body2core orders s o (o.idxOf xi) (o.idxOf xj) (o.idxOf x') (o.idxOf y') x' y' f = .brk e →
      (e = .contra ∧ ∃ o1 ∈ orders, ∃ w u, ((w = x' ∧ u = y') ∨ (w = y' ∧ u = x')) ∧
          ForceLR xi xj o1 w u ∧ ForceLR xi xj o u w) ∨
      (e = .case2d (case2dAxis s o false) (axisTest orders (case2dAxis s o false)) ∧
          lt o xi y' ∧ lt o y' x') ∨
      (e = .case2d (case2dAxis s o true) (axisTest orders (case2dAxis s o true)) ∧
          lt o xj y' ∧ lt o y' x')) := by
  have hy'x' : ¬ y' = x' := fun e => hx'y' e.symm
  unfold body2core
  split
  · -- Case 2.(d) Reverse
    rename_i hcond
    refine ⟨fun v' h => by simp at h, fun e h => ?_⟩
    simp only [Loop.brk.injEq] at h
    exact Or.inr (Or.inl ⟨h.symm, by unfold lt; omega, by unfold lt; omega⟩)
  · split
    · -- Case 2.(d)
      rename_i hcond
      refine ⟨fun v' h => by simp at h, fun e h => ?_⟩
      simp only [Loop.brk.injEq] at h
      exact Or.inr (Or.inr ⟨h.symm, by unfold lt; omega, by unfold lt; omega⟩)
    · split
      · -- Case 2.(c): `x'` is forced to the left
        rename_i hcond
        have hforce : ForceLR xi xj o x' y' := Or.inl ⟨by unfold lt; omega, by unfold lt; omega⟩
        split
        · rename_i hcheck
          refine ⟨fun v' h => by simp at h, fun e h => ?_⟩
          simp only [Loop.brk.injEq] at h
          have hdict : f.get? x' = some .right ∧ f.get? y' = some .left := by
            rcases hd with ⟨a, b⟩ | ⟨a, b⟩ | ⟨a, b⟩
            · rw [a, b] at hcheck; simp at hcheck
            · rw [a, b] at hcheck; simp at hcheck
            · exact ⟨a, b⟩
          obtain ⟨o1, ho1, hf1⟩ := hF.2 hdict.1 hdict.2
          exact Or.inl ⟨h.symm, o1, ho1, y', x', Or.inr ⟨rfl, rfl⟩, hf1, hforce⟩
        · rename_i hcheck
          refine ⟨fun v' h => ?_, fun e h => by simp at h⟩
          simp only [Loop.fin.injEq] at h; subst h
          have gx : ((f.set x' .left).set y' .right).get? x' = some .left := by
            rw [get?_set2]; simp [hy'x']
          have gy : ((f.set x' .left).set y' .right).get? y' = some .right := by
            rw [get?_set2]; simp
          refine ⟨rfl, rfl, Or.inr (Or.inl ⟨gx, gy⟩), fun _ _ => ⟨o, hoo, hforce⟩, fun a _ => ?_⟩
          simp only at a; rw [gx] at a; simp at a
      · split
        · -- Case 2.(c) Inverse: `x'` is forced to the right
          rename_i hcond
          have hforce : ForceLR xi xj o y' x' := Or.inr ⟨by unfold lt; omega, by unfold lt; omega⟩
          split
          · rename_i hcheck
            refine ⟨fun v' h => by simp at h, fun e h => ?_⟩
            simp only [Loop.brk.injEq] at h
            have hdict : f.get? x' = some .left ∧ f.get? y' = some .right := by
              rcases hd with ⟨a, b⟩ | ⟨a, b⟩ | ⟨a, b⟩
              · rw [a, b] at hcheck; simp at hcheck
              · exact ⟨a, b⟩
              · rw [a, b] at hcheck; simp at hcheck
            obtain ⟨o1, ho1, hf1⟩ := hF.1 hdict.1 hdict.2
            exact Or.inl ⟨h.symm, o1, ho1, x', y', Or.inl ⟨rfl, rfl⟩, hf1, hforce⟩
          · rename_i hcheck
            refine ⟨fun v' h => ?_, fun e h => by simp at h⟩
            simp only [Loop.fin.injEq] at h; subst h
            have gx : ((f.set x' .right).set y' .left).get? x' = some .right := by
              rw [get?_set2]; simp [hy'x']
            have gy : ((f.set x' .right).set y' .left).get? y' = some .left := by
              rw [get?_set2]; simp
            refine ⟨rfl, rfl, Or.inr (Or.inr ⟨gx, gy⟩), fun a _ => ?_, fun _ _ => ⟨o, hoo, hforce⟩⟩
            simp only at a; rw [gx] at a; simp at a
        · split
          · -- Case 2.(b)
            refine ⟨fun v' h => ?_, fun e h => by simp at h⟩
            simp only [Loop.fin.injEq] at h; subst h
            exact ⟨rfl, rfl, hd, hF⟩
          · exact ⟨fun v' h => by simp at h, fun e h => by simp at h⟩

/-- invariant of the loop-carried variables of the two-candidates loop -/
def Q2 (orders : List (List Nat)) (xi xj x y : Nat) (v : L2) : Prop :=
  Names x y v ∧ DictOk v.x v.y v.forced ∧ Forc orders xi xj v.x v.y v.forced

theorem names_ne {x y : Nat} {v : L2} (hxy : x ≠ y) (hn : Names x y v) : v.x ≠ v.y := by
  rcases hn with ⟨a, b⟩ | ⟨a, b⟩ <;> rw [a, b]
  · exact hxy
  · exact fun e => hxy e.symm

theorem body2_Q2 {orders : List (List Nat)} {s : State} {x y xi xj : Nat} {o : List Nat} {v : L2}
    (hoo : o ∈ orders) (hxy : x ≠ y) (hQ : Q2 orders xi xj x y v) :
    (∀ v', body2 orders s xi xj o v = .fin v' → Q2 orders xi xj x y v') ∧
    (∀ e, body2 orders s xi xj o v = .brk e →
      (e = .contra ∧ ∃ o1 ∈ orders, ∃ w u, ((w = x ∧ u = y) ∨ (w = y ∧ u = x)) ∧
          ForceLR xi xj o1 w u ∧ ForceLR xi xj o u w) ∨
      ∃ x' y', ((x' = x ∧ y' = y) ∨ (x' = y ∧ y' = x)) ∧
        ((e = .case2d (case2dAxis s o false) (axisTest orders (case2dAxis s o false)) ∧
            lt o xi y' ∧ lt o y' x') ∨
         (e = .case2d (case2dAxis s o true) (axisTest orders (case2dAxis s o true)) ∧
            lt o xj y' ∧ lt o y' x'))) := by
  obtain ⟨hn, hd, hF⟩ := hQ
  have hne := names_ne hxy hn
  have hn' : (v.x = x ∧ v.y = y) ∨ (v.x = y ∧ v.y = x) := hn
  have hnsw : (v.y = x ∧ v.x = y) ∨ (v.y = y ∧ v.x = x) := by
    rcases hn with ⟨a, b⟩ | ⟨a, b⟩
    · exact Or.inr ⟨b, a⟩
    · exact Or.inl ⟨b, a⟩
  unfold body2
  split
  · rename_i ix iy ii ij hx hy hi hj
    have ex := pyIndex_eq_some hx
    have ey := pyIndex_eq_some hy
    have ei := pyIndex_eq_some hi
    have ej := pyIndex_eq_some hj
    subst ex ey ei ej
    have wu : ∀ {a b w u : Nat}, ((a = x ∧ b = y) ∨ (a = y ∧ b = x)) →
        ((w = a ∧ u = b) ∨ (w = b ∧ u = a)) → ((w = x ∧ u = y) ∨ (w = y ∧ u = x)) := by
      intro a b w u h1 h2
      rcases h1 with ⟨rfl, rfl⟩ | ⟨rfl, rfl⟩
      · exact h2
      · exact h2.symm
    split
    · -- swapped
      obtain ⟨hfin, hbrk⟩ := body2core_Q (s := s) (xi := xi) (xj := xj) hoo (fun e => hne e.symm)
        (dictOk_symm hd) (forc_symm hF)
      refine ⟨fun v' h => ?_, fun e h => ?_⟩
      · obtain ⟨h1, h2, h3, h4⟩ := hfin v' h
        refine ⟨?_, ?_, ?_⟩
        · rcases hnsw with ⟨a, b⟩ | ⟨a, b⟩
          · exact Or.inl ⟨h1.trans a, h2.trans b⟩
          · exact Or.inr ⟨h1.trans a, h2.trans b⟩
        · rw [h1, h2]; exact h3
        · rw [h1, h2]; exact h4
      · rcases hbrk e h with ⟨he, o1, ho1, w, u, hwu, hf⟩ | h2d
        · exact Or.inl ⟨he, o1, ho1, w, u, wu hnsw hwu, hf⟩
        · exact Or.inr ⟨v.y, v.x, hnsw, h2d⟩
    · obtain ⟨hfin, hbrk⟩ := body2core_Q (s := s) (xi := xi) (xj := xj) hoo hne hd hF
      refine ⟨fun v' h => ?_, fun e h => ?_⟩
      · obtain ⟨h1, h2, h3, h4⟩ := hfin v' h
        refine ⟨?_, ?_, ?_⟩
        · rcases hn' with ⟨a, b⟩ | ⟨a, b⟩
          · exact Or.inl ⟨h1.trans a, h2.trans b⟩
          · exact Or.inr ⟨h1.trans a, h2.trans b⟩
        · rw [h1, h2]; exact h3
        · rw [h1, h2]; exact h4
      · rcases hbrk e h with ⟨he, o1, ho1, w, u, hwu, hf⟩ | h2d
        · exact Or.inl ⟨he, o1, ho1, w, u, wu hn' hwu, hf⟩
        · exact Or.inr ⟨v.x, v.y, hn', h2d⟩
  · exact ⟨fun v' h => by simp at h, fun e h => by simp at h⟩

end PrefVerif.C03c
