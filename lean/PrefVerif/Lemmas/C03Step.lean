import PrefVerif.Lemmas.C03Basic
/-!
# C03 helper lemmas, part 2: what one `while` iteration can do to the state

`stepOne` places the single last candidate at the end of `to_append_left`, at the end of `left_axis`
or at the front of `right_axis`; `stepTwo` places the two last candidates one at the end of
`left_axis` and the other at the front of `right_axis`; the remaining preferences are untouched by
both.  A `break` is a contradiction or Case 2(d) with the axis built from some voter.
-/
namespace PrefVerif.C03
open PrefVerif PrefVerif.ELO PrefVerif.Py

/-- `s'` is `s` with `x` placed (and possibly new `x_i`, `x_j`) -/
def Placed1 (s : State) (x : Nat) (s' : State) : Prop :=
  s'.prefs = s.prefs ∧
    ((s'.tal = s.tal ++ [x] ∧ s'.left = s.left ∧ s'.right = s.right) ∨
     (s'.tal = s.tal ∧ s'.left = s.left ++ [x] ∧ s'.right = s.right) ∨
     (s'.tal = s.tal ∧ s'.left = s.left ∧ s'.right = x :: s.right))

/-- `s'` is `s` with `x`, `y` placed one on each side -/
def Placed2 (s : State) (x y : Nat) (s' : State) : Prop :=
  s'.prefs = s.prefs ∧ s'.tal = s.tal ∧
    ((s'.left = s.left ++ [x] ∧ s'.right = y :: s.right) ∨
     (s'.left = s.left ++ [y] ∧ s'.right = x :: s.right))

/-- a `break` of Case 2(d) carries the axis built from a voter and the verdict of the axis test -/
def Is2d (orders : List (List Nat)) (s : State) (e : Exit) : Prop :=
  ∃ o ∈ orders, ∃ rev, e = .case2d (case2dAxis s o rev) (axisTest orders (case2dAxis s o rev))

/-! ### one last candidate -/

theorem body1_fin {x xi xj : Nat} {o : List Nat} {c c' : Nat} (hc : c ≤ 2)
    (h : body1 x xi xj o c = .fin c') : c' ≤ 2 := by
  unfold body1 at h
  split at h
  · split at h
    · split at h
      · simp at h
      · simp only [Loop.fin.injEq] at h; omega
    · split at h
      · split at h
        · simp at h
        · simp only [Loop.fin.injEq] at h; omega
      · split at h
        · simp only [Loop.fin.injEq] at h; omega
        · simp at h
  · simp at h

theorem body1_brk {x xi xj : Nat} {o : List Nat} {c : Nat} {e : Exit}
    (h : body1 x xi xj o c = .brk e) : e = .contra := by
  unfold body1 at h
  split at h
  · split at h
    · split at h
      · simp only [Loop.brk.injEq] at h; exact h.symm
      · simp at h
    · split at h
      · split at h
        · simp only [Loop.brk.injEq] at h; exact h.symm
        · simp at h
      · split at h <;> simp at h
  · simp at h

theorem stepOne_fin {orders : List (List Nat)} {s s' : State} {x : Nat}
    (h : stepOne orders s x = .fin s') : Placed1 s x s' := by
  unfold stepOne at h
  split at h
  · simp only [Loop.fin.injEq] at h; subst h
    exact ⟨rfl, Or.inl ⟨rfl, rfl, rfl⟩⟩
  · rename_i xi xj _
    split at h
    · simp at h
    · split at h
      · simp only [Loop.fin.injEq] at h; subst h
        exact ⟨rfl, Or.inr (Or.inl ⟨rfl, rfl, rfl⟩)⟩
      · split at h
        · simp at h
        · simp at h
        · rename_i case hfl
          have hc : case ≤ 2 :=
            forLoop_fin_inv (body1 x xi xj) (· ≤ 2) (fun o a a' ha hb => body1_fin ha hb)
              orders 0 case (by omega) hfl
          split at h
          · simp only [Loop.fin.injEq] at h; subst h
            exact ⟨rfl, Or.inr (Or.inl ⟨rfl, rfl, rfl⟩)⟩
          · split at h
            · simp only [Loop.fin.injEq] at h; subst h
              exact ⟨rfl, Or.inr (Or.inl ⟨rfl, rfl, rfl⟩)⟩
            · split at h
              · simp only [Loop.fin.injEq] at h; subst h
                exact ⟨rfl, Or.inr (Or.inr ⟨rfl, rfl, rfl⟩)⟩
              · omega

theorem stepOne_brk {orders : List (List Nat)} {s : State} {x : Nat} {e : Exit}
    (h : stepOne orders s x = .brk e) : e = .contra := by
  unfold stepOne at h
  split at h
  · simp at h
  · rename_i xi xj _
    split at h
    · simp at h
    · split at h
      · simp at h
      · split at h
        · simp at h
        · rename_i e' hfl
          simp only [Loop.brk.injEq] at h; subst h
          obtain ⟨o, _, a', _, hb⟩ :=
            forLoop_brk (body1 x xi xj) (fun _ => True) (fun _ _ _ _ _ => trivial) orders 0 e' trivial hfl
          exact body1_brk hb
        · split at h
          · simp at h
          · split at h
            · simp at h
            · split at h <;> simp at h

/-! ### two last candidates -/

/-- the local names `x`, `y` always denote the two last candidates, in some order -/
def Names (x y : Nat) (v : L2) : Prop := (v.x = x ∧ v.y = y) ∨ (v.x = y ∧ v.y = x)

theorem body2core_fin {orders : List (List Nat)} {s : State} {o : List Nat} {ii ij ix iy x y : Nat}
    {forced : AList Nat Side} {v' : L2}
    (h : body2core orders s o ii ij ix iy x y forced = .fin v') : v'.x = x ∧ v'.y = y := by
  unfold body2core at h
  split at h
  · simp at h
  · split at h
    · simp at h
    · split at h
      · split at h
        · simp at h
        · simp only [Loop.fin.injEq] at h; subst h; exact ⟨rfl, rfl⟩
      · split at h
        · split at h
          · simp at h
          · simp only [Loop.fin.injEq] at h; subst h; exact ⟨rfl, rfl⟩
        · split at h
          · simp only [Loop.fin.injEq] at h; subst h; exact ⟨rfl, rfl⟩
          · simp at h

theorem body2core_brk {orders : List (List Nat)} {s : State} {o : List Nat} {ii ij ix iy x y : Nat}
    {forced : AList Nat Side} {e : Exit}
    (h : body2core orders s o ii ij ix iy x y forced = .brk e) :
    e = .contra ∨ ∃ rev, e = .case2d (case2dAxis s o rev) (axisTest orders (case2dAxis s o rev)) := by
  unfold body2core at h
  split at h
  · simp only [Loop.brk.injEq] at h; exact Or.inr ⟨false, h.symm⟩
  · split at h
    · simp only [Loop.brk.injEq] at h; exact Or.inr ⟨true, h.symm⟩
    · split at h
      · split at h
        · simp only [Loop.brk.injEq] at h; exact Or.inl h.symm
        · simp at h
      · split at h
        · split at h
          · simp only [Loop.brk.injEq] at h; exact Or.inl h.symm
          · simp at h
        · split at h <;> simp at h

theorem body2_fin {orders : List (List Nat)} {s : State} {xi xj x y : Nat} {o : List Nat} {v v' : L2}
    (hv : Names x y v) (h : body2 orders s xi xj o v = .fin v') : Names x y v' := by
  unfold body2 at h
  split at h
  · split at h
    · obtain ⟨h1, h2⟩ := body2core_fin h
      rcases hv with ⟨a, b⟩ | ⟨a, b⟩
      · exact Or.inr ⟨by rw [h1, b], by rw [h2, a]⟩
      · exact Or.inl ⟨by rw [h1, b], by rw [h2, a]⟩
    · obtain ⟨h1, h2⟩ := body2core_fin h
      rcases hv with ⟨a, b⟩ | ⟨a, b⟩
      · exact Or.inl ⟨by rw [h1, a], by rw [h2, b]⟩
      · exact Or.inr ⟨by rw [h1, a], by rw [h2, b]⟩
  · simp at h

theorem body2_brk {orders : List (List Nat)} {s : State} {xi xj : Nat} {o : List Nat} {v : L2} {e : Exit}
    (h : body2 orders s xi xj o v = .brk e) :
    e = .contra ∨ ∃ rev, e = .case2d (case2dAxis s o rev) (axisTest orders (case2dAxis s o rev)) := by
  unfold body2 at h
  split at h
  · split at h <;> exact body2core_brk h
  · simp at h

theorem stepTwo_fin {orders : List (List Nat)} {s s' : State} {x y : Nat}
    (h : stepTwo orders s x y = .fin s') : Placed2 s x y s' := by
  unfold stepTwo at h
  split at h
  · simp only [Loop.fin.injEq] at h; subst h
    exact ⟨rfl, rfl, Or.inl ⟨rfl, rfl⟩⟩
  · rename_i xi xj _
    split at h
    · simp at h
    · simp at h
    · rename_i v hfl
      have hv : Names x y v :=
        forLoop_fin_inv (body2 orders s xi xj) (Names x y) (fun o a a' ha hb => body2_fin ha hb)
          orders ⟨x, y, []⟩ v (Or.inl ⟨rfl, rfl⟩) hfl
      split at h
      · simp at h
      · simp only [Loop.fin.injEq] at h; subst h
        rcases hv with ⟨a, b⟩ | ⟨a, b⟩
        · exact ⟨rfl, rfl, Or.inl ⟨by simp [a], by simp [b]⟩⟩
        · exact ⟨rfl, rfl, Or.inr ⟨by simp [a], by simp [b]⟩⟩
      · simp only [Loop.fin.injEq] at h; subst h
        rcases hv with ⟨a, b⟩ | ⟨a, b⟩
        · exact ⟨rfl, rfl, Or.inr ⟨by simp [b], by simp [a]⟩⟩
        · exact ⟨rfl, rfl, Or.inl ⟨by simp [b], by simp [a]⟩⟩

theorem stepTwo_brk {orders : List (List Nat)} {s : State} {x y : Nat} {e : Exit}
    (h : stepTwo orders s x y = .brk e) : e = .contra ∨ Is2d orders s e := by
  unfold stepTwo at h
  split at h
  · simp at h
  · rename_i xi xj _
    split at h
    · simp at h
    · rename_i e' hfl
      simp only [Loop.brk.injEq] at h; subst h
      obtain ⟨o, ho, a', _, hb⟩ :=
        forLoop_brk (body2 orders s xi xj) (fun _ => True) (fun _ _ _ _ _ => trivial) orders _ e' trivial hfl
      rcases body2_brk hb with h | ⟨rev, h⟩
      · exact Or.inl h
      · exact Or.inr ⟨o, ho, rev, h⟩
    · split at h <;> simp at h

end PrefVerif.C03
