import PrefVerif.Py.AList
/-!
# C17 helper lemmas, part 2: association lists with an arbitrary lawful key type
-/
namespace PrefVerif.C17
open PrefVerif.Py

variable {κ : Type} [BEq κ] [LawfulBEq κ]

theorem contains_iff_mem_keys {ν : Type} (d : AList κ ν) (k : κ) :
    AList.contains d k = true ↔ k ∈ AList.keys d := by
  induction d with
  | nil => simp [AList.contains, AList.keys]
  | cons p d ih =>
    simp only [AList.contains, AList.keys] at ih
    simp only [AList.contains, AList.keys, List.any_cons, Bool.or_eq_true, ih, List.map_cons,
      List.mem_cons, beq_iff_eq]
    constructor
    · rintro (h | h)
      · exact Or.inl h.symm
      · exact Or.inr h
    · rintro (h | h)
      · exact Or.inl h.symm
      · exact Or.inr h

theorem get?_of_not_mem {ν : Type} (d : AList κ ν) (k : κ) (h : k ∉ AList.keys d) :
    AList.get? d k = none := by
  induction d with
  | nil => rfl
  | cons p d ih =>
    simp only [AList.keys, List.map_cons, List.mem_cons, not_or] at h
    have h1 : (p.1 == k) = false := by
      simp only [beq_eq_false_iff_ne, ne_eq]; exact fun e => h.1 e.symm
    have := ih h.2
    simp only [AList.get?] at this
    simp [AList.get?, List.find?, h1, this]

theorem get?_set_same {ν : Type} (d : AList κ ν) (k : κ) (v : ν) :
    AList.get? (AList.set d k v) k = some v := by
  induction d with
  | nil => simp [AList.set, AList.get?]
  | cons p d ih =>
    obtain ⟨k', v'⟩ := p
    by_cases h : k' = k
    · subst h; simp [AList.set, AList.get?]
    · have h1 : (k' == k) = false := by simpa using h
      simp only [AList.get?] at ih
      simp [AList.set, AList.get?, h1, ih]

theorem get?_set_other {ν : Type} (d : AList κ ν) (k x : κ) (v : ν) (hx : x ≠ k) :
    AList.get? (AList.set d k v) x = AList.get? d x := by
  induction d with
  | nil =>
    have : (k == x) = false := by simpa using fun e => hx e.symm
    simp [AList.set, AList.get?, List.find?, this]
  | cons p d ih =>
    obtain ⟨k', v'⟩ := p
    simp only [AList.get?] at ih
    by_cases h : k' = k
    · subst h
      have : (k' == x) = false := by simpa using fun e => hx e.symm
      simp [AList.set, AList.get?, List.find?, this]
    · have h1 : (k' == k) = false := by simpa using h
      by_cases h2 : k' = x
      · subst h2; simp [AList.set, AList.get?, List.find?, h1]
      · have h3 : (k' == x) = false := by simpa using h2
        simp [AList.set, AList.get?, List.find?, h1, h3, ih]

theorem keys_set_of_mem {ν : Type} (d : AList κ ν) (k : κ) (v : ν) (h : k ∈ AList.keys d) :
    AList.keys (AList.set d k v) = AList.keys d := by
  induction d with
  | nil => simp [AList.keys] at h
  | cons p d ih =>
    obtain ⟨k', v'⟩ := p
    by_cases hk : k' = k
    · subst hk; simp [AList.set, AList.keys]
    · have h1 : (k' == k) = false := by simpa using hk
      simp only [AList.keys, List.map_cons, List.mem_cons] at h
      have h2 : k ∈ AList.keys d := by
        rcases h with h | h
        · exact absurd h.symm hk
        · exact h
      have := ih h2
      simp only [AList.keys] at this
      simp [AList.set, AList.keys, h1, this]

theorem keys_set_of_not_mem {ν : Type} (d : AList κ ν) (k : κ) (v : ν) (h : k ∉ AList.keys d) :
    AList.keys (AList.set d k v) = AList.keys d ++ [k] := by
  induction d with
  | nil => simp [AList.set, AList.keys]
  | cons p d ih =>
    obtain ⟨k', v'⟩ := p
    simp only [AList.keys, List.map_cons, List.mem_cons, not_or] at h
    have h1 : (k' == k) = false := by simpa using fun e => h.1 (Eq.symm e)
    have := ih h.2
    simp only [AList.keys] at this
    simp [AList.set, AList.keys, h1, this]

theorem values_sum_set_of_not_mem (d : AList κ Nat) (k : κ) (v : Nat) (h : k ∉ AList.keys d) :
    (AList.values (AList.set d k v)).sum = (AList.values d).sum + v := by
  induction d with
  | nil => simp [AList.set, AList.values]
  | cons p d ih =>
    obtain ⟨k', v'⟩ := p
    simp only [AList.keys, List.map_cons, List.mem_cons, not_or] at h
    have h1 : (k' == k) = false := by simpa using fun e => h.1 (Eq.symm e)
    have := ih h.2
    simp only [AList.values] at this
    simp [AList.set, AList.values, h1, this]; omega

theorem values_sum_set_of_mem (d : AList κ Nat) (k : κ) (v : Nat) (h : k ∈ AList.keys d) :
    (AList.values (AList.set d k v)).sum + (AList.get? d k).getD 0 = (AList.values d).sum + v := by
  induction d with
  | nil => simp [AList.keys] at h
  | cons p d ih =>
    obtain ⟨k', v'⟩ := p
    by_cases hk : k' = k
    · subst hk; simp [AList.set, AList.values, AList.get?]; omega
    · have h1 : (k' == k) = false := by simpa using hk
      simp only [AList.keys, List.map_cons, List.mem_cons] at h
      have h2 : k ∈ AList.keys d := by
        rcases h with h | h
        · exact absurd h.symm hk
        · exact h
      have := ih h2
      simp only [AList.values, AList.get?] at this
      simp [AList.set, AList.values, AList.get?, List.find?, h1]; omega

/-- `d[k] += m` on a present key adds `m` to the total -/
theorem values_sum_upd_of_mem (d : AList κ Nat) (k : κ) (m : Nat) (h : k ∈ AList.keys d) :
    (AList.values (AList.upd d k 0 (· + m))).sum = (AList.values d).sum + m := by
  have := values_sum_set_of_mem d k ((AList.get? d k).getD 0 + m) h
  simp only [AList.upd]; omega

theorem get?_upd_same {ν : Type} (d : AList κ ν) (k : κ) (dflt : ν) (f : ν → ν) :
    AList.get? (AList.upd d k dflt f) k = some (f ((AList.get? d k).getD dflt)) := by
  simp [AList.upd, get?_set_same]

theorem get?_upd_other {ν : Type} (d : AList κ ν) (k x : κ) (dflt : ν) (f : ν → ν) (hx : x ≠ k) :
    AList.get? (AList.upd d k dflt f) x = AList.get? d x := by
  simp [AList.upd, get?_set_other _ _ _ _ hx]

theorem keys_upd_of_mem {ν : Type} (d : AList κ ν) (k : κ) (dflt : ν) (f : ν → ν)
    (h : k ∈ AList.keys d) : AList.keys (AList.upd d k dflt f) = AList.keys d := by
  simp [AList.upd, keys_set_of_mem _ _ _ h]

end PrefVerif.C17
