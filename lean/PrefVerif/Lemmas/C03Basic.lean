import PrefVerif.Model.SinglePeakedELO
/-!
# C03 helper lemmas, part 1: `pop`, `last_candidates`, the `for` loops
-/
namespace PrefVerif.C03
open PrefVerif PrefVerif.ELO PrefVerif.Py

/-! ### `pop` -/

theorem pyPop_eq_some {l d : List Nat} {a : Nat} (h : pyPop l = some (d, a)) : l = d ++ [a] := by
  unfold pyPop at h
  cases hl : l.getLast? with
  | none => rw [hl] at h; simp at h
  | some b =>
    rw [hl] at h
    simp only [Option.some.injEq, Prod.mk.injEq] at h
    obtain ⟨ys, rfl⟩ := List.getLast?_eq_some_iff.1 hl
    rw [← h.1, ← h.2]; simp

theorem pyPop_append_singleton (d : List Nat) (a : Nat) : pyPop (d ++ [a]) = some (d, a) := by
  simp [pyPop]

theorem pyPop_eq_none {l : List Nat} (h : pyPop l = none) : l = [] := by
  unfold pyPop at h
  cases hl : l.getLast? with
  | none => simpa using hl
  | some b => rw [hl] at h; simp at h

theorem popAll_eq_some {ps : List (List Nat)} {popped : List (List Nat × Nat)}
    (h : popAll ps = some popped) : ps = popped.map (fun r => r.1 ++ [r.2]) := by
  induction ps generalizing popped with
  | nil => simp [popAll] at h; subst h; rfl
  | cons p ps ih =>
    unfold popAll at h
    cases hp : pyPop p with
    | none => rw [hp] at h; simp at h
    | some r =>
      rw [hp] at h
      cases hps : popAll ps with
      | none => rw [hps] at h; simp at h
      | some rs =>
        rw [hps] at h
        simp only [Option.some.injEq] at h
        subst h
        obtain ⟨d, a⟩ := r
        simp only [List.map_cons]
        rw [← ih hps, ← pyPop_eq_some hp]

theorem popAll_map (popped : List (List Nat × Nat)) :
    popAll (popped.map (fun r => r.1 ++ [r.2])) = some popped := by
  induction popped with
  | nil => rfl
  | cons r rs ih =>
    simp only [List.map_cons, popAll, pyPop_append_singleton, ih]

/-- every preference non-empty ⇒ the pops succeed -/
theorem popAll_isSome {ps : List (List Nat)} (h : ∀ p ∈ ps, p ≠ []) : ∃ popped, popAll ps = some popped := by
  induction ps with
  | nil => exact ⟨[], rfl⟩
  | cons p ps ih =>
    obtain ⟨rs, hrs⟩ := ih (fun q hq => h q (List.mem_cons_of_mem _ hq))
    cases hp : pyPop p with
    | none => exact absurd (pyPop_eq_none hp) (h p List.mem_cons_self)
    | some r => exact ⟨r :: rs, by simp [popAll, hp, hrs]⟩

/-! ### `last_candidates` -/

theorem firstApp_foldl (l acc : List Nat) (hacc : acc.Nodup) :
    (l.foldl (fun acc a => if a ∈ acc then acc else acc ++ [a]) acc).Nodup ∧
    ∀ a, a ∈ l.foldl (fun acc a => if a ∈ acc then acc else acc ++ [a]) acc ↔ a ∈ acc ∨ a ∈ l := by
  induction l generalizing acc with
  | nil => simp [hacc]
  | cons b l ih =>
    simp only [List.foldl_cons]
    by_cases hb : b ∈ acc
    · rw [if_pos hb]
      refine ⟨(ih acc hacc).1, fun a => ?_⟩
      rw [(ih acc hacc).2 a, List.mem_cons]
      constructor
      · rintro (h | h)
        · exact Or.inl h
        · exact Or.inr (Or.inr h)
      · rintro (h | rfl | h)
        · exact Or.inl h
        · exact Or.inl hb
        · exact Or.inr h
    · rw [if_neg hb]
      have hn : (acc ++ [b]).Nodup := by
        rw [List.nodup_append]
        refine ⟨hacc, by simp, ?_⟩
        intro a ha c hc
        simp only [List.mem_singleton] at hc
        subst hc
        exact fun e => hb (e ▸ ha)
      refine ⟨(ih _ hn).1, fun a => ?_⟩
      rw [(ih _ hn).2 a, List.mem_cons, List.mem_append, List.mem_singleton]
      constructor
      · rintro ((h | h) | h)
        · exact Or.inl h
        · exact Or.inr (Or.inl h)
        · exact Or.inr (Or.inr h)
      · rintro (h | h | h)
        · exact Or.inl (Or.inl h)
        · exact Or.inl (Or.inr h)
        · exact Or.inr h

theorem firstAppearances_nodup (l : List Nat) : (firstAppearances l).Nodup :=
  (firstApp_foldl l [] List.nodup_nil).1

theorem mem_firstAppearances (l : List Nat) (a : Nat) : a ∈ firstAppearances l ↔ a ∈ l := by
  have := (firstApp_foldl l [] List.nodup_nil).2 a
  simpa [firstAppearances] using this

/-! ### `for` loops -/

/-- an invariant of the loop-carried variables survives the loop -/
theorem forLoop_fin_inv {α : Type} (body : List Nat → α → Loop α) (P : α → Prop)
    (hbody : ∀ o a a', P a → body o a = .fin a' → P a') :
    ∀ (os : List (List Nat)) (a a' : α), P a → forLoop body os a = .fin a' → P a' := by
  intro os
  induction os with
  | nil => intro a a' hP h; simp only [forLoop, Loop.fin.injEq] at h; exact h ▸ hP
  | cons o os ih =>
    intro a a' hP h
    unfold forLoop at h
    cases hb : body o a with
    | error => rw [hb] at h; simp at h
    | brk e => rw [hb] at h; simp at h
    | fin a1 => rw [hb] at h; exact ih a1 a' (hbody o a a1 hP hb) h

/-- a `break` comes from the body run on some voter in a state satisfying the invariant -/
theorem forLoop_brk {α : Type} (body : List Nat → α → Loop α) (P : α → Prop)
    (hbody : ∀ o a a', P a → body o a = .fin a' → P a') :
    ∀ (os : List (List Nat)) (a : α) (e : Exit), P a → forLoop body os a = .brk e →
      ∃ o ∈ os, ∃ a', P a' ∧ body o a' = .brk e := by
  intro os
  induction os with
  | nil => intro a e _ h; simp [forLoop] at h
  | cons o os ih =>
    intro a e hP h
    unfold forLoop at h
    cases hb : body o a with
    | error => rw [hb] at h; simp at h
    | brk e' =>
      rw [hb] at h
      simp only [Loop.brk.injEq] at h
      subst h
      exact ⟨o, List.mem_cons_self, a, hP, hb⟩
    | fin a1 =>
      rw [hb] at h
      obtain ⟨o', ho', a', hP', hb'⟩ := ih a1 e (hbody o a a1 hP hb) h
      exact ⟨o', List.mem_cons_of_mem _ ho', a', hP', hb'⟩

end PrefVerif.C03
