import PrefVerif.Lemmas.C05PQFr
import PrefVerif.Lemmas.C05Seg
/-!
Where the sets containing `v` sit in an ordering: nowhere (`NoV`), everywhere (`AllVL`), at the right
end (`Suf`), at the left end (`Pre`), on an interval (`VSeg` = `C05.Seg`), and how these combine under
concatenation and reversal; orderings of trees all / none of whose leaves contain `v`.
-/
set_option linter.unusedSimpArgs false
namespace PrefVerif.PQTree
open Tree

def NoV (v : Nat) (f : List (List Nat)) : Prop := ∀ s ∈ f, v ∉ s
def AllVL (v : Nat) (f : List (List Nat)) : Prop := ∀ s ∈ f, v ∈ s
/-- the sets containing `v` form a suffix -/
def Suf (v : Nat) (f : List (List Nat)) : Prop := ∃ e w, f = e ++ w ∧ NoV v e ∧ AllVL v w
/-- the sets containing `v` form a prefix -/
def Pre (v : Nat) (f : List (List Nat)) : Prop := ∃ w e, f = w ++ e ∧ AllVL v w ∧ NoV v e
/-- the sets containing `v` form an interval -/
def VSeg (v : Nat) (f : List (List Nat)) : Prop := C05.Seg (fun k => v ∈ k) f

theorem noV_nil (v : Nat) : NoV v [] := by simp [NoV]
theorem allVL_nil (v : Nat) : AllVL v [] := by simp [AllVL]

theorem NoV.append {v : Nat} {a b : List (List Nat)} (ha : NoV v a) (hb : NoV v b) : NoV v (a ++ b) := by
  intro s hs
  rcases List.mem_append.1 hs with h | h
  · exact ha s h
  · exact hb s h

theorem AllVL.append {v : Nat} {a b : List (List Nat)} (ha : AllVL v a) (hb : AllVL v b) :
    AllVL v (a ++ b) := by
  intro s hs
  rcases List.mem_append.1 hs with h | h
  · exact ha s h
  · exact hb s h

theorem NoV.reverse {v : Nat} {a : List (List Nat)} (ha : NoV v a) : NoV v a.reverse :=
  fun s hs => ha s (List.mem_reverse.1 hs)

theorem AllVL.reverse {v : Nat} {a : List (List Nat)} (ha : AllVL v a) : AllVL v a.reverse :=
  fun s hs => ha s (List.mem_reverse.1 hs)

theorem NoV.suf {v : Nat} {a : List (List Nat)} (ha : NoV v a) : Suf v a := ⟨a, [], by simp, ha, allVL_nil v⟩
theorem AllVL.suf {v : Nat} {a : List (List Nat)} (ha : AllVL v a) : Suf v a := ⟨[], a, by simp, noV_nil v, ha⟩
theorem NoV.pre {v : Nat} {a : List (List Nat)} (ha : NoV v a) : Pre v a := ⟨[], a, by simp, allVL_nil v, ha⟩
theorem AllVL.pre {v : Nat} {a : List (List Nat)} (ha : AllVL v a) : Pre v a := ⟨a, [], by simp, ha, noV_nil v⟩

theorem Suf.vseg {v : Nat} {a : List (List Nat)} (h : Suf v a) : VSeg v a := by
  obtain ⟨e, w, rfl, he, hw⟩ := h
  exact ⟨e, w, [], by simp, he, hw, by simp⟩

theorem Pre.vseg {v : Nat} {a : List (List Nat)} (h : Pre v a) : VSeg v a := by
  obtain ⟨w, e, rfl, hw, he⟩ := h
  exact ⟨[], w, e, by simp, by simp, hw, he⟩

theorem NoV.vseg {v : Nat} {a : List (List Nat)} (ha : NoV v a) : VSeg v a := ha.suf.vseg
theorem AllVL.vseg {v : Nat} {a : List (List Nat)} (ha : AllVL v a) : VSeg v a := ha.suf.vseg

theorem Suf.cons_noV {v : Nat} {a b : List (List Nat)} (ha : NoV v a) (hb : Suf v b) : Suf v (a ++ b) := by
  obtain ⟨e, w, rfl, he, hw⟩ := hb
  exact ⟨a ++ e, w, by simp, ha.append he, hw⟩

theorem Suf.append_allVL {v : Nat} {a b : List (List Nat)} (ha : Suf v a) (hb : AllVL v b) :
    Suf v (a ++ b) := by
  obtain ⟨e, w, rfl, he, hw⟩ := ha
  exact ⟨e, w ++ b, by simp, he, hw.append hb⟩

theorem Pre.append_noV {v : Nat} {a b : List (List Nat)} (ha : Pre v a) (hb : NoV v b) : Pre v (a ++ b) := by
  obtain ⟨w, e, rfl, hw, he⟩ := ha
  exact ⟨w, e ++ b, by simp, hw, he.append hb⟩

theorem Pre.cons_allVL {v : Nat} {a b : List (List Nat)} (ha : AllVL v a) (hb : Pre v b) : Pre v (a ++ b) := by
  obtain ⟨w, e, rfl, hw, he⟩ := hb
  exact ⟨a ++ w, e, by simp, ha.append hw, he⟩

theorem Suf.append_pre {v : Nat} {a b : List (List Nat)} (ha : Suf v a) (hb : Pre v b) : VSeg v (a ++ b) := by
  obtain ⟨e, w, rfl, he, hw⟩ := ha
  obtain ⟨w', e', rfl, hw', he'⟩ := hb
  exact ⟨e, w ++ w', e', by simp, he, hw.append hw', he'⟩

theorem VSeg.append_noV {v : Nat} {a b : List (List Nat)} (ha : VSeg v a) (hb : NoV v b) :
    VSeg v (a ++ b) := by
  obtain ⟨A, B, C, rfl, hA, hB, hC⟩ := ha
  exact ⟨A, B, C ++ b, by simp, hA, hB, fun x hx => by
    rcases List.mem_append.1 hx with h | h
    · exact hC x h
    · exact hb x h⟩

theorem VSeg.cons_noV {v : Nat} {a b : List (List Nat)} (ha : NoV v a) (hb : VSeg v b) :
    VSeg v (a ++ b) := by
  obtain ⟨A, B, C, rfl, hA, hB, hC⟩ := hb
  exact ⟨a ++ A, B, C, by simp, fun x hx => by
    rcases List.mem_append.1 hx with h | h
    · exact ha x h
    · exact hA x h, hB, hC⟩

theorem Suf.reverse {v : Nat} {a : List (List Nat)} (h : Suf v a) : Pre v a.reverse := by
  obtain ⟨e, w, rfl, he, hw⟩ := h
  exact ⟨w.reverse, e.reverse, by simp, hw.reverse, he.reverse⟩

theorem Pre.reverse {v : Nat} {a : List (List Nat)} (h : Pre v a) : Suf v a.reverse := by
  obtain ⟨w, e, rfl, hw, he⟩ := h
  exact ⟨e.reverse, w.reverse, by simp, he.reverse, hw.reverse⟩

theorem VSeg.reverse {v : Nat} {a : List (List Nat)} (h : VSeg v a) : VSeg v a.reverse := by
  obtain ⟨A, B, C, rfl, hA, hB, hC⟩ := h
  exact ⟨C.reverse, B.reverse, A.reverse, by simp [List.append_assoc],
    fun x hx => hC x (List.mem_reverse.1 hx), fun x hx => hB x (List.mem_reverse.1 hx),
    fun x hx => hA x (List.mem_reverse.1 hx)⟩

theorem VSeg.of_reverse {v : Nat} {a : List (List Nat)} (h : VSeg v a.reverse) : VSeg v a := by
  simpa using h.reverse

/-! ### trees all / none of whose leaves contain `v` -/

/-- every leaf contains `v` -/
def AllV (v : Nat) (c : Tree) : Prop := ∀ s ∈ frontier c, v ∈ s
/-- no leaf contains `v` -/
def VFree (v : Nat) (c : Tree) : Prop := ∀ s ∈ frontier c, v ∉ s

theorem vfree_iff {v : Nat} {c : Tree} : VFree v c ↔ mem v c = false := by
  constructor
  · exact not_mem_of_none
  · intro h s hs hv
    have := (mem_iff v c).2 ⟨s, hs, hv⟩
    rw [h] at this; cases this

theorem AllV.fr {v : Nat} {c : Tree} (h : AllV v c) {g : List (List Nat)} (hg : Fr c g) : AllVL v g :=
  fun s hs => h s ((fr_perm c g hg).mem_iff.1 hs)

theorem VFree.fr {v : Nat} {c : Tree} (h : VFree v c) {g : List (List Nat)} (hg : Fr c g) : NoV v g :=
  fun s hs => h s ((fr_perm c g hg).mem_iff.1 hs)

theorem seq_allV {v : Nat} {L : List Tree} (h : ∀ c ∈ L, AllV v c) {g : List (List Nat)} (hg : Seq L g) :
    AllVL v g := by
  intro s hs
  obtain ⟨c, hc, hsc⟩ := mem_frontierList.1 ((seq_perm hg).mem_iff.1 hs)
  exact h c hc s hsc

theorem seq_vfree {v : Nat} {L : List Tree} (h : ∀ c ∈ L, VFree v c) {g : List (List Nat)} (hg : Seq L g) :
    NoV v g := by
  intro s hs
  obtain ⟨c, hc, hsc⟩ := mem_frontierList.1 ((seq_perm hg).mem_iff.1 hs)
  exact h c hc s hsc

/-- a list of trees: first trees without `v`, then trees full of `v`, both parts non-empty -/
def Pure (v : Nat) (L : List Tree) : Prop :=
  ∃ Le Lf, L = Le ++ Lf ∧ Le ≠ [] ∧ Lf ≠ [] ∧ (∀ c ∈ Le, VFree v c) ∧ (∀ c ∈ Lf, AllV v c)

/-- the mirror image: first the full trees -/
def PureL (v : Nat) (L : List Tree) : Prop :=
  ∃ Lf Le, L = Lf ++ Le ∧ Le ≠ [] ∧ Lf ≠ [] ∧ (∀ c ∈ Le, VFree v c) ∧ (∀ c ∈ Lf, AllV v c)

theorem Pure.suf {v : Nat} {L : List Tree} (h : Pure v L) {g : List (List Nat)} (hg : Seq L g) : Suf v g := by
  obtain ⟨Le, Lf, rfl, _, _, he, hf⟩ := h
  obtain ⟨g₁, g₂, rfl, h1, h2⟩ := (seq_append _ _ _).1 hg
  exact ⟨g₁, g₂, rfl, seq_vfree he h1, seq_allV hf h2⟩

theorem PureL.pre {v : Nat} {L : List Tree} (h : PureL v L) {g : List (List Nat)} (hg : Seq L g) : Pre v g := by
  obtain ⟨Lf, Le, rfl, _, _, he, hf⟩ := h
  obtain ⟨g₁, g₂, rfl, h1, h2⟩ := (seq_append _ _ _).1 hg
  exact ⟨g₁, g₂, rfl, seq_allV hf h1, seq_vfree he h2⟩

theorem allV_reverse {v : Nat} {c : Tree} (h : AllV v c) : AllV v (Tree.reverse c) := by
  intro s hs; rw [frontier_reverse] at hs; exact h s (List.mem_reverse.1 hs)

theorem vfree_reverse {v : Nat} {c : Tree} (h : VFree v c) : VFree v (Tree.reverse c) := by
  intro s hs; rw [frontier_reverse] at hs; exact h s (List.mem_reverse.1 hs)

theorem pure_reverseList {v : Nat} {L : List Tree} (h : Pure v L) : PureL v (reverseList L) := by
  obtain ⟨Le, Lf, rfl, hne, hnf, he, hf⟩ := h
  refine ⟨reverseList Lf, reverseList Le, ?_, ?_, ?_, ?_, ?_⟩
  · simp [reverseList_eq]
  · simpa [reverseList_eq] using hne
  · simpa [reverseList_eq] using hnf
  · intro c hc
    simp only [reverseList_eq, List.mem_reverse, List.mem_map] at hc
    obtain ⟨d, hd, rfl⟩ := hc
    exact vfree_reverse (he d hd)
  · intro c hc
    simp only [reverseList_eq, List.mem_reverse, List.mem_map] at hc
    obtain ⟨d, hd, rfl⟩ := hc
    exact allV_reverse (hf d hd)

end PrefVerif.PQTree
