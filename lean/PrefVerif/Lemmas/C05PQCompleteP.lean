import PrefVerif.Lemmas.C05PQBlocks
/-!
Completeness of `set_contiguous`, part 2: the restructuring step of `P.set_contiguous` raises only if no
ordering of the node has the sets with `v` on an interval, and otherwise keeps all such orderings; the
flags `(PARTIAL, UNALIGNED)` / `(PARTIAL, ALIGNED)` tell the truth about alignment to the right.
-/
set_option linter.unusedSimpArgs false
namespace PrefVerif.PQTree
open Tree

/-- what `set_contiguous` guarantees, completeness side, relative to the node `t` it was called on -/
structure CompleteOut (v : Nat) (t t' : Tree) (f' : Flag) : Prop where
  keep : ∀ g, Fr t g → VSeg v g → Fr t' g
  pu : f' = .partialUnaligned → ∀ g, Fr t g → VSeg v g → ¬ Suf v g ∧ ¬ Pre v g
  pa : f' = .partialAligned → ∀ g, Fr t g → Suf v g → Seq (simplify v true t') g

/-! ### counting flags along blocks -/

theorem select_append (f : Flag) (a b : List (Tree × Flag)) : select f (a ++ b) = select f a ++ select f b := by
  simp [select]

theorem select_length_le (f : Flag) (l : List (Tree × Flag)) : (select f l).length ≤ l.length := by
  simpa using (select_sublist f l).length_le

theorem map_fst_mid (x y : Blk) (Mid : List Blk) :
    (x :: Mid ++ [y]).map (·.1) = [x.1] ++ Mid.map (·.1) ++ [y.1] := by simp

theorem select_perm {f : Flag} {a b : List (Tree × Flag)} (h : a.Perm b) : (select f a).Perm (select f b) :=
  (h.filter _).map _

theorem select_of_all {f : Flag} {l : List (Tree × Flag)} (h : ∀ r ∈ l, r.2 = f) : select f l = l.map (·.1) := by
  simp only [select]
  rw [List.filter_eq_self.2 (fun r hr => by simp [h r hr])]

theorem seq_of_blocks {l : List Blk} (h : ∀ b ∈ l, Fr b.1.1 b.2) :
    Seq (l.map (fun b => b.1.1)) (l.map (·.2)).flatten := by
  induction l with
  | nil => exact (seq_nil _).2 rfl
  | cons b l ih =>
    simp only [List.map_cons, List.flatten_cons]
    exact (seq_cons _ _ _).2 ⟨b.2, _, rfl, h b List.mem_cons_self, ih (fun c hc => h c (List.mem_cons_of_mem _ hc))⟩

theorem perm_pair {α : Type} {a b c d : α} (h : [a, b].Perm [c, d]) : (a = c ∧ b = d) ∨ (a = d ∧ b = c) := by
  have ha : a ∈ [c, d] := h.mem_iff.1 (by simp)
  simp only [List.mem_cons, List.not_mem_nil, or_false] at ha
  rcases ha with rfl | rfl
  · have := List.Perm.cons_inv h
    exact .inl ⟨rfl, by simpa using this⟩
  · have h2 : [a, b].Perm [a, c] := h.trans (List.Perm.swap _ _ _)
    have := List.Perm.cons_inv h2
    exact .inr ⟨rfl, by simpa using this⟩

theorem map_tree_eq (l : List Blk) : l.map (fun b => b.1.1) = (l.map (·.1)).map (·.1) := by simp

/-- the trees of blocks that all carry the flag `f` -/
theorem select_blocks_of_all {f : Flag} {l : List Blk} (h : ∀ b ∈ l, b.1.2 = f) :
    select f (l.map (·.1)) = l.map (fun b => b.1.1) := by
  rw [select_of_all (by
    intro r hr
    obtain ⟨b, hb, rfl⟩ := List.mem_map.1 hr
    exact h b hb)]
  simp

theorem select_blocks_nil {f g : Flag} {l : List Blk} (h : ∀ b ∈ l, b.1.2 = g) (hfg : f ≠ g) :
    select f (l.map (·.1)) = [] :=
  select_eq_nil_of_all (by
    intro r hr
    obtain ⟨b, hb, rfl⟩ := List.mem_map.1 hr
    exact h b hb) hfg

/-! ### general form of `simplify` on the trees built by `P.set_contiguous` -/

theorem simplify_p_EX' {v : Nat} {E : List Tree} {X : Tree} (hE : ∀ c ∈ E, mem v c = false)
    (hX : synPartial v X = true) :
    simplify v true (.p (E ++ [X])) = optP E ++ simplify v true X := by
  have hmX : mem v X = true := by
    simp only [synPartial, Bool.and_eq_true] at hX; exact hX.1.2
  have h1 : (E ++ [X]).filter (fun c => !mem v c) = E := by
    rw [List.filter_append, filter_eq_self_of (fun c hc => by simp [hE c hc])]
    simp [hmX]
  have h2 : (E ++ [X]).filter (fun c => mem v c && !synPartial v c) = [] := by
    rw [List.filter_append, filter_eq_nil_of (fun c hc => by simp [hE c hc])]
    simp [hmX, hX]
  have h3 : (E ++ [X]).filter (synPartial v) = [X] := by
    rw [List.filter_append, filter_eq_nil_of (fun c hc => synPartial_of_not_mem (hE c hc))]
    simp [hX]
  simp only [simplify, simplifyEmpty_eq, simplifyFull_eq, simplifyPartial_eq, h1, h2, h3, if_true, optP]
  simp

/-- blocks of children without `v`: an ordering of the optional `P` node over them -/
theorem seq_optP_of_blocks {E : List Tree} {A : List Blk} (hnd : (frontierList E).Nodup)
    (hfr : ∀ b ∈ A, Fr b.1.1 b.2) (hp : (A.map (fun b => b.1.1)).Perm E) :
    Seq (optP E) (A.map (·.2)).flatten := by
  unfold optP
  cases E with
  | nil =>
    have : A = [] := by simpa using hp
    subst this
    simpa using (seq_nil _).2 rfl
  | cons e es =>
    simp only [List.isEmpty_cons, Bool.false_eq_true, if_false]
    exact (seq_singleton _ _).2 ((fr_newP hnd (by simp) _).2 (fr_p_perm hp _ (seq_p _ _ (seq_of_blocks hfr))))

theorem fr_pF_of_blocks {F : List Tree} {A : List Blk} (hfr : ∀ b ∈ A, Fr b.1.1 b.2)
    (hp : (A.map (fun b => b.1.1)).Perm F) : Fr (.p F) (A.map (·.2)).flatten :=
  fr_p_perm hp _ (seq_p _ _ (seq_of_blocks hfr))

/-- `P.set_contiguous` raises only through its explicit test (the `IndexError` of `_new_Q([])` is unreachable) -/
theorem restructureP_error {v : Nat} {rs : List (Tree × Flag)} {e : Err} (h : restructureP v rs = .error e) :
    (select .partialAligned rs).length > 2 ∨
      (1 ≤ (select .partialUnaligned rs).length ∧ (select .empty rs).length + 1 ≠ rs.length) := by
  have hsum := select_length_sum rs
  apply Classical.byContradiction
  intro hcon
  simp only [gt_iff_lt, not_or, not_and, Nat.not_lt, Decidable.not_not] at hcon
  unfold restructureP at h
  simp only [List.length_map] at h
  split at h
  · rename_i h1
    simp only [gt_iff_lt, ge_iff_le, bne_iff_ne, ne_eq, Bool.or_eq_true, decide_eq_true_eq,
      Bool.and_eq_true] at h1
    rcases h1 with h1 | ⟨h1, h2⟩
    · omega
    · exact h2 (hcon.2 h1)
  split at h
  · cases h
  rename_i h2
  split at h
  · cases h
  rename_i h3
  split at h
  · cases h
  rename_i h4
  split at h
  · cases h
  rename_i h5
  simp only [beq_iff_eq, Bool.and_eq_true, not_and] at h2 h3 h4 h5
  have hPU : (select .partialUnaligned rs).length = 0 := by
    by_cases hz : (select .partialUnaligned rs).length = 0
    · exact hz
    · have := hcon.2 (by omega); omega
  by_cases h6 : (select .partialAligned rs).length < 2
  · simp only [h6, if_true] at h
    by_cases hF : (select .full rs).length > 0
    · simp [hF] at h
    · have hF0 : (select .full rs).length = 0 := by omega
      by_cases hpa : (select .partialAligned rs).length = 1
      · exact h5 hpa (by omega)
      · have : (select .partialAligned rs).length = 0 := by omega
        exact h3 (by omega)
  · simp only [h6, if_false] at h
    cases h

/-- what an ordering with the sets containing `v` on an interval says about the flags of the children:
at most two partial children, and a `(PARTIAL, UNALIGNED)` child only among empty ones -/
theorem counts_of_blocks {v : Nat} {rs : List (Tree × Flag)} {bl : List Blk} (hperm : (bl.map (·.1)).Perm rs)
    (hgood : ∀ b ∈ bl, GoodBlk v b) (hv : VSeg v (bl.map (·.2)).flatten) :
    (select .partialAligned rs).length ≤ 2 ∧
      (1 ≤ (select .partialUnaligned rs).length → (select .empty rs).length + 1 = rs.length) := by
  obtain ⟨A, M, C, rfl, hA, hC, hM⟩ := blocks_shape hgood hv
  have hcount : ∀ f, (select f rs).length = (select f ((A ++ M ++ C).map (·.1))).length :=
    fun f => (select_perm hperm).length_eq.symm
  have hlen : rs.length = (A ++ M ++ C).length := by
    have := hperm.length_eq; simpa using this.symm
  have hnE : ∀ f, f ≠ Flag.empty → (select f rs).length = (select f (M.map (·.1))).length := by
    intro f hf
    rw [hcount f]
    simp only [List.map_append, select_append, List.length_append, select_blocks_nil hA hf,
      select_blocks_nil hC hf, List.length_nil]
    omega
  have hEc : (select .empty rs).length = A.length + (select .empty (M.map (·.1))).length + C.length := by
    rw [hcount .empty]
    simp only [List.map_append, select_append, List.length_append, select_blocks_of_all hA,
      select_blocks_of_all hC, List.length_map]
  constructor
  · rw [hnE _ (by simp)]
    rcases hM with rfl | ⟨x, rfl, _⟩ | ⟨x, Mid, y, rfl, _, _, hMid, _, _⟩
    · simp [select]
    · have := select_length_le .partialAligned ([x].map (·.1))
      simp only [List.map_cons, List.map_nil, List.length_cons, List.length_nil] at this ⊢
      omega
    · have hmid : select .partialAligned (Mid.map (·.1)) = [] := select_blocks_nil hMid (by simp)
      rw [map_fst_mid, select_append, select_append, hmid]
      have h3 := select_length_le .partialAligned [x.1]
      have h4 := select_length_le .partialAligned [y.1]
      simp only [List.length_append, List.length_nil, List.length_cons] at h3 h4 ⊢
      omega
  · intro h1
    rw [hnE _ (by simp)] at h1
    rcases hM with rfl | ⟨x, rfl, hx⟩ | ⟨x, Mid, y, rfl, hx, hy, hMid, hsx, hpy⟩
    · simp [select] at h1
    · rw [hEc, hlen]
      have : select .empty ([x].map (·.1)) = [] := by
        simp only [List.map_cons, List.map_nil, select_cons, if_neg hx]
        simp [select]
      rw [this]
      simp only [List.length_append, List.length_cons, List.length_nil]
      omega
    · exfalso
      have hmid : select .partialUnaligned (Mid.map (·.1)) = [] := select_blocks_nil hMid (by simp)
      have hxn : x.1.2 ≠ .partialUnaligned := fun hh => ((hgood x (by simp)).pu hh).1 hsx
      have hyn : y.1.2 ≠ .partialUnaligned := fun hh => ((hgood y (by simp)).pu hh).2 hpy
      rw [map_fst_mid, select_append, select_append, hmid, select_cons, select_cons, if_neg hxn,
        if_neg hyn] at h1
      simp [select] at h1

/-- `P.set_contiguous` does not raise when some ordering of the node has the sets with `v` on an interval -/
theorem restructureP_noerr {v : Nat} {cs : List Tree} {rs : List (Tree × Flag)}
    (hpairs : Forall2 (fun a r => Pair v a r ∧ PairC v a r) cs rs)
    (hex : ∃ g, Fr (.p cs) g ∧ VSeg v g) : ∃ out, restructureP v rs = .ok out := by
  obtain ⟨g, hg, hv⟩ := hex
  obtain ⟨bl, hperm, hflat, hgood⟩ := blocks_of_p hpairs hg hv
  obtain ⟨h1, h2⟩ := counts_of_blocks hperm hgood (hflat ▸ hv)
  cases hres : restructureP v rs with
  | ok out => exact ⟨out, rfl⟩
  | error e =>
    exfalso
    rcases restructureP_error hres with h3 | ⟨h3, h4⟩
    · omega
    · exact h4 (h2 h3)

theorem midShape_ne_empty {v : Nat} {M : List Blk} (h : MidShape v M) : ∀ b ∈ M, b.1.2 ≠ .empty := by
  rcases h with rfl | ⟨x, rfl, hx⟩ | ⟨x, Mid, y, rfl, hx, hy, hMid, _, _⟩
  · simp
  · intro b hb; simp only [List.mem_singleton] at hb; subst hb; exact hx
  · intro b hb
    simp only [List.mem_cons, List.mem_append, List.not_mem_nil, or_false] at hb
    rcases hb with (rfl | hb) | rfl
    · exact hx
    · rw [hMid b hb]; simp
    · exact hy

/-- the blocks of an ordering of a `P` node, grouped: children without `v` around a middle part -/
theorem p_blocks {v : Nat} {cs : List Tree} {rs : List (Tree × Flag)}
    (hpairs : Forall2 (fun a r => Pair v a r ∧ PairC v a r) cs rs) {g : List (List Nat)} (hg : Fr (.p cs) g)
    (hv : VSeg v g) :
    ∃ A M C : List Blk, (∀ b ∈ A ++ M ++ C, GoodBlk v b) ∧
      g = (A.map (·.2)).flatten ++ (M.map (·.2)).flatten ++ (C.map (·.2)).flatten ∧
      (∀ b ∈ A, b.1.2 = .empty) ∧ (∀ b ∈ C, b.1.2 = .empty) ∧ MidShape v M ∧
      ((A ++ C).map (fun b => b.1.1)).Perm (select .empty rs) ∧
      (∀ f, f ≠ Flag.empty → (select f (M.map (·.1))).Perm (select f rs)) := by
  obtain ⟨bl, hperm, hflat, hgood⟩ := blocks_of_p hpairs hg hv
  obtain ⟨A, M, C, rfl, hA, hC, hM⟩ := blocks_shape hgood (hflat ▸ hv)
  refine ⟨A, M, C, hgood, by simpa using hflat, hA, hC, hM, ?_, ?_⟩
  · have h1 := select_perm (f := .empty) hperm
    have hMe : select .empty (M.map (·.1)) = [] := by
      simp only [select, List.map_eq_nil_iff, List.filter_eq_nil_iff]
      intro r hr
      obtain ⟨b, hb, rfl⟩ := List.mem_map.1 hr
      simpa using midShape_ne_empty hM b hb
    simp only [List.map_append, select_append, select_blocks_of_all hA, select_blocks_of_all hC, hMe,
      List.append_nil] at h1
    simpa using h1
  · intro f hf
    have h1 := select_perm (f := f) hperm
    simpa only [List.map_append, select_append, select_blocks_nil hA hf, select_blocks_nil hC hf,
      List.nil_append, List.append_nil] using h1

/-- an ordering put together from blocks of children without `v` around one ordering of `X` -/
theorem fr_p_of_AMC {E : List Tree} {X : Tree} {A C : List Blk} {m : List (List Nat)}
    (hA : ∀ b ∈ A, Fr b.1.1 b.2) (hC : ∀ b ∈ C, Fr b.1.1 b.2)
    (hp : ((A ++ C).map (fun b => b.1.1)).Perm E) (hX : Fr X m) :
    Fr (.p (E ++ [X])) ((A.map (·.2)).flatten ++ m ++ (C.map (·.2)).flatten) := by
  have h1 : Seq (A.map (fun b => b.1.1) ++ [X] ++ C.map (fun b => b.1.1))
      ((A.map (·.2)).flatten ++ m ++ (C.map (·.2)).flatten) :=
    (seq_append _ _ _).2 ⟨_, _, rfl, (seq_append _ _ _).2 ⟨_, _, rfl, seq_of_blocks hA, (seq_singleton _ _).2 hX⟩,
      seq_of_blocks hC⟩
  refine fr_p_perm ?_ _ (seq_p _ _ h1)
  simp only [List.map_append] at hp
  refine List.Perm.trans ?_ (List.perm_append_singleton X E).symm
  rw [List.append_assoc]
  exact List.perm_middle.trans (hp.cons X)

/-- all orderings with the sets containing `v` on an interval survive in the `P` node over the final children -/
theorem keep_p_all {v : Nat} {cs : List Tree} {rs : List (Tree × Flag)}
    (hpairs : Forall2 (fun a r => Pair v a r ∧ PairC v a r) cs rs) {g : List (List Nat)} (hg : Fr (.p cs) g)
    (hv : VSeg v g) : Fr (.p (rs.map (·.1))) g := by
  obtain ⟨bl, hperm, hflat, hgood⟩ := blocks_of_p hpairs hg hv
  rw [hflat]
  refine fr_p_perm ?_ _ (seq_p _ _ (seq_of_blocks (fun b hb => (hgood b hb).fr)))
  rw [map_tree_eq]
  exact hperm.map _

/-- if the middle part holds a child flagged `(PARTIAL, UNALIGNED)`, it is the whole middle part -/
theorem mid_of_pu {v : Nat} {M : List Blk} (hgood : ∀ b ∈ M, GoodBlk v b) (hM : MidShape v M)
    (h : select .partialUnaligned (M.map (·.1)) ≠ []) : ∃ x, M = [x] ∧ x.1.2 = .partialUnaligned := by
  rcases hM with rfl | ⟨x, rfl, hx⟩ | ⟨x, Mid, y, rfl, hx, hy, hMid, hsx, hpy⟩
  · simp [select] at h
  · refine ⟨x, rfl, ?_⟩
    apply Classical.byContradiction
    intro hne
    apply h
    simp only [List.map_cons, List.map_nil, select_cons, if_neg hne]
    simp [select]
  · exfalso
    apply h
    have hmid : select .partialUnaligned (Mid.map (·.1)) = [] := select_blocks_nil hMid (by simp)
    have hxn : x.1.2 ≠ .partialUnaligned := fun hh => ((hgood x (by simp)).pu hh).1 hsx
    have hyn : y.1.2 ≠ .partialUnaligned := fun hh => ((hgood y (by simp)).pu hh).2 hpy
    rw [map_fst_mid, select_append, select_append, hmid, select_cons, select_cons, if_neg hxn, if_neg hyn]
    simp [select]

/-- a right-aligned ordering has no child without `v` after a child with `v` -/
theorem suf_no_trailing {v : Nat} {a m c : List (List Nat)} {C : List Blk} (hs : Suf v (a ++ m ++ c))
    (hm : HasV v m) (hc : c = (C.map (·.2)).flatten) (hgood : ∀ b ∈ C, GoodBlk v b)
    (hC : ∀ b ∈ C, b.1.2 = .empty) : C = [] ∧ Suf v m := by
  have h1 : Suf v (m ++ c) := by
    rw [List.append_assoc] at hs; exact hs.right
  obtain ⟨h2, h3⟩ := suf_append_hasV h1 hm
  refine ⟨?_, h2⟩
  cases C with
  | nil => rfl
  | cons b C' =>
    exfalso
    have hb := hgood b List.mem_cons_self
    obtain ⟨s, hs'⟩ := List.exists_mem_of_ne_nil _ hb.ne_nil
    have : s ∈ c := by rw [hc]; simp [hs']
    exact hb.noV (hC b List.mem_cons_self) s hs' (h3 s this)

@[simp] theorem select_nil (f : Flag) : select f [] = [] := rfl

theorem seq_optP_reverse {l : List Tree} {g : List (List Nat)} (h : Seq (optP l) g) : Seq (optP l) g.reverse := by
  have := seq_reverse h
  cases l with
  | nil => simpa [optP] using this
  | cons a l => simpa [optP] using this

/-- the flag of the first / last block of a middle part with at least two blocks -/
theorem mid_end_flags {v : Nat} {x y : Blk} (hgx : GoodBlk v x) (hgy : GoodBlk v y) (hx : x.1.2 ≠ .empty)
    (hy : y.1.2 ≠ .empty) (hsx : Suf v x.2) (hpy : Pre v y.2) :
    (x.1.2 = .full ∨ x.1.2 = .partialAligned) ∧ (y.1.2 = .full ∨ y.1.2 = .partialAligned) := by
  constructor
  · cases hf : x.1.2 with
    | full => exact .inl rfl
    | empty => exact absurd hf hx
    | partialAligned => exact .inr rfl
    | partialUnaligned => exact absurd hsx (hgx.pu hf).1
  · cases hf : y.1.2 with
    | full => exact .inl rfl
    | empty => exact absurd hf hy
    | partialAligned => exact .inr rfl
    | partialUnaligned => exact absurd hpy (hgy.pu hf).2

theorem hasV_flatten_of_mem {v : Nat} {M : List Blk} {x : Blk} (hx : x ∈ M) (h : HasV v x.2) :
    HasV v (M.map (·.2)).flatten := by
  obtain ⟨s, hs, hv⟩ := h
  exact ⟨s, List.mem_flatten.2 ⟨x.2, List.mem_map.2 ⟨x, hx, rfl⟩, hs⟩, hv⟩

/-- the restructuring step of `P.set_contiguous` is complete -/
theorem restructureP_complete {v : Nat} {cs : List Tree} {rs : List (Tree × Flag)} {t' : Tree} {f' : Flag}
    (hpairs : Forall2 (fun a r => Pair v a r ∧ PairC v a r) cs rs)
    (hnd : (frontierList (rs.map (·.1))).Nodup) (h : restructureP v rs = .ok (t', f')) :
    CompleteOut v (.p cs) t' f' := by
  have hch : ∀ r ∈ rs, ChildS v r.1 r.2 := by
    intro r hr
    obtain ⟨a, _, hp⟩ := hpairs.exists_left r hr
    exact hp.1.child
  have hsel : ∀ f c, c ∈ select f rs → ChildS v c f := fun f c hc => hch (c, f) (mem_select.1 hc)
  have hE : ∀ c ∈ select .empty rs, VFree v c := fun c hc => (hsel _ c hc).vfree
  have hEm : ∀ c ∈ select .empty rs, mem v c = false := fun c hc => vfree_iff.1 (hE c hc)
  have hF : ∀ c ∈ select .full rs, AllV v c := fun c hc => (hsel _ c hc).allV
  have hpermT := select_perm4 rs
  have hperm := frontierList_perm hpermT
  have hsum := select_length_sum rs
  have hndsel : ∀ f, (frontierList (select f rs)).Nodup :=
    fun f => nodup_of_sublist_frontier (select_sublist f rs) hnd
  have hcnt := fun a => (List.nodup_iff_count.1 (hperm.nodup hnd)) a
  simp only [frontierList_append, List.count_append] at hcnt
  rcases restructureP_shape h with
    ⟨hlenF, rfl, rfl⟩ | ⟨hlenE, rfl, rfl⟩ | ⟨hpu, hE1, rfl, rfl⟩ | ⟨hpa, hE1, rfl, rfl⟩ |
    ⟨hPU, hPA, hFne, hEne, rfl, rfl⟩ | ⟨hPU, hFne, c0, hPA, rfl, rfl⟩ | ⟨hPU, c0, c1, hPA, rfl, rfl⟩
  · exact ⟨fun g hg hv => keep_p_all hpairs hg hv, by simp, by simp⟩
  · exact ⟨fun g hg hv => keep_p_all hpairs hg hv, by simp, by simp⟩
  · -- one partial unaligned child: no ordering is aligned
    refine ⟨fun g hg hv => keep_p_all hpairs hg hv, fun _ g hg hv => ?_, by simp⟩
    obtain ⟨A, M, C, hgood, hflat, hA, hC, hM, hEperm, hMperm⟩ := p_blocks hpairs hg hv
    have hgM : ∀ b ∈ M, GoodBlk v b := fun b hb => hgood b (by simp [hb])
    obtain ⟨x, rfl, hx⟩ := mid_of_pu hgM hM (by
      intro hnil
      have := (hMperm .partialUnaligned (by simp)).length_eq
      rw [hnil, hpu] at this; simp at this)
    have hgx := hgM x (by simp)
    simp only [List.map_cons, List.map_nil, List.flatten_cons, List.flatten_nil, List.append_nil] at hflat
    subst hflat
    refine ⟨fun hs => (hgx.pu hx).1 ?_, fun hp => (hgx.pu hx).2 ?_⟩
    · exact (Suf.left (x := (A.map (·.2)).flatten ++ x.2) hs).right
    · exact (Pre.left (x := (A.map (·.2)).flatten ++ x.2) hp).right
  · -- one partial aligned child, all others empty
    have hF0 : select .full rs = [] := List.eq_nil_of_length_eq_zero (by omega)
    have hPU0 : select .partialUnaligned rs = [] := List.eq_nil_of_length_eq_zero (by omega)
    match hs : select .partialAligned rs, hpa with
    | [c0], _ =>
      have hc0 := hsel .partialAligned c0 (by simp [hs])
      obtain ⟨hsyn0, hpure0⟩ := hc0.pa rfl
      have hp : (select .empty rs ++ [c0]).Perm (rs.map (·.1)) := by
        rw [hF0, hPU0, hs] at hpermT
        simpa using hpermT.symm
      refine ⟨fun g hg hv => fr_p_perm hp.symm g (keep_p_all hpairs hg hv), by simp, fun _ g hg hsuf => ?_⟩
      obtain ⟨A, M, C, hgood, hflat, hA, hC, hM, hEperm, hMperm⟩ := p_blocks hpairs hg hsuf.vseg
      have hgM : ∀ b ∈ M, GoodBlk v b := fun b hb => hgood b (by simp [hb])
      -- the middle part is the block of `c0`
      have hMpa : (select .partialAligned (M.map (·.1))) = [c0] := by
        have := hMperm .partialAligned (by simp); rw [hs] at this; exact List.perm_singleton.1 this
      have hMf : (select .full (M.map (·.1))) = [] := by
        have := hMperm .full (by simp); rw [hF0] at this; exact List.perm_nil.1 this
      have hMx : ∃ x : Blk, M = [x] ∧ x.1 = (c0, .partialAligned) := by
        rcases hM with rfl | ⟨x, rfl, hx⟩ | ⟨x, Mid, y, rfl, hx, hy, hMid, hsx, hpy⟩
        · simp [select] at hMpa
        · refine ⟨x, rfl, ?_⟩
          simp only [List.map_cons, List.map_nil, select_cons] at hMpa
          split at hMpa
          · rename_i hxf
            simp only [select, List.filter_nil, List.map_nil, List.cons.injEq, and_true] at hMpa
            exact Prod.ext hMpa hxf
          · simp [select] at hMpa
        · exfalso
          -- two children with `v`, at most one of them partial: the other one is full
          rw [map_fst_mid, select_append, select_append, select_cons, select_cons] at hMf
          have hxf : x.1.2 ≠ .full := by
            intro hh; rw [if_pos hh] at hMf; simp at hMf
          have hyf : y.1.2 ≠ .full := by
            intro hh; rw [if_pos hh] at hMf; simp at hMf
          have hmid : select .partialAligned (Mid.map (·.1)) = [] := select_blocks_nil hMid (by simp)
          have hxu : x.1.2 ≠ .partialUnaligned := fun hh => ((hgM x (by simp)).pu hh).1 hsx
          have hyu : y.1.2 ≠ .partialUnaligned := fun hh => ((hgM y (by simp)).pu hh).2 hpy
          have hxa : x.1.2 = .partialAligned := by
            cases hfx : x.1.2 with
            | full => exact absurd hfx hxf
            | empty => exact absurd hfx hx
            | partialAligned => rfl
            | partialUnaligned => exact absurd hfx hxu
          have hya : y.1.2 = .partialAligned := by
            cases hfy : y.1.2 with
            | full => exact absurd hfy hyf
            | empty => exact absurd hfy hy
            | partialAligned => rfl
            | partialUnaligned => exact absurd hfy hyu
          rw [map_fst_mid, select_append, select_append, hmid, select_cons, select_cons, if_pos hxa,
            if_pos hya] at hMpa
          have := congrArg List.length hMpa
          simp [select] at this
      obtain ⟨x, rfl, hx⟩ := hMx
      have hgx := hgM x (by simp)
      simp only [List.map_cons, List.map_nil, List.flatten_cons, List.flatten_nil, List.append_nil] at hflat
      obtain ⟨hC0, hsx⟩ := suf_no_trailing (hflat ▸ hsuf) (hgx.hasV (by rw [hx]; simp)) rfl
        (fun b hb => hgood b (by simp [hb])) hC
      subst hC0
      have hxt : x.1.1 = c0 := by rw [hx]
      have hxf : x.1.2 = .partialAligned := by rw [hx]
      rw [simplify_p_EX' hEm hsyn0]
      simp only [List.map_nil, List.flatten_nil, List.append_nil] at hflat hEperm
      rw [hflat]
      refine (seq_append _ _ _).2 ⟨_, _, rfl, seq_optP_of_blocks (hndsel _)
        (fun b hb => (hgood b (by simp [hb])).fr) hEperm, ?_⟩
      rw [← hxt]
      exact hgx.pa hxf hsx
  · -- empty and full children only
    have hX : newQ [newP (select .full rs)] = newP (select .full rs) := by simp [newQ]
    rw [hX]
    have hallX : AllV v (newP (select .full rs)) := allV_newP (hndsel _) hFne hF
    have hwfX : WF (newP (select .full rs)) := wf_newP (hndsel _) hFne (fun c hc => (hsel _ c hc).ok.wf)
    -- the middle part: the blocks of the full children
    have hmid : ∀ {g}, Fr (.p cs) g → VSeg v g → ∃ A M C : List Blk, (∀ b ∈ A ++ M ++ C, GoodBlk v b) ∧
        g = (A.map (·.2)).flatten ++ (M.map (·.2)).flatten ++ (C.map (·.2)).flatten ∧
        (∀ b ∈ C, b.1.2 = .empty) ∧ ((A ++ C).map (fun b => b.1.1)).Perm (select .empty rs) ∧
        Fr (newP (select .full rs)) (M.map (·.2)).flatten ∧ M ≠ [] := by
      intro g hg hv
      obtain ⟨A, M, C, hgood, hflat, hA, hC, hM, hEperm, hMperm⟩ := p_blocks hpairs hg hv
      refine ⟨A, M, C, hgood, hflat, hC, hEperm, ?_, ?_⟩
      · have hMall : ∀ b ∈ M, b.1.2 = .full := by
          intro b hb
          have hne := midShape_ne_empty hM b hb
          have h1 : select .partialAligned (M.map (·.1)) = [] := by
            have := hMperm .partialAligned (by simp); rw [hPA] at this; exact List.perm_nil.1 this
          have h2 : select .partialUnaligned (M.map (·.1)) = [] := by
            have := hMperm .partialUnaligned (by simp); rw [hPU] at this; exact List.perm_nil.1 this
          cases hf : b.1.2
          · rfl
          · exact absurd hf hne
          · have : b.1.1 ∈ select .partialAligned (M.map (·.1)) :=
              mem_select.2 (List.mem_map.2 ⟨b, hb, Prod.ext rfl hf⟩)
            rw [h1] at this; cases this
          · have : b.1.1 ∈ select .partialUnaligned (M.map (·.1)) :=
              mem_select.2 (List.mem_map.2 ⟨b, hb, Prod.ext rfl hf⟩)
            rw [h2] at this; cases this
        have hMt : (M.map (fun b => b.1.1)).Perm (select .full rs) := by
          have := hMperm .full (by simp)
          rwa [select_blocks_of_all hMall] at this
        exact (fr_newP (hndsel _) hFne _).2
          (fr_pF_of_blocks (fun b hb => (hgood b (by simp [hb])).fr) hMt)
      · intro hnil
        have := (hMperm .full (by simp)).length_eq
        rw [hnil] at this
        have h0 : (select .full rs).length = 0 := by rw [← this]; simp [select]
        exact hFne (List.eq_nil_of_length_eq_zero h0)
    refine ⟨fun g hg hv => ?_, by simp, fun _ g hg hsuf => ?_⟩
    · obtain ⟨A, M, C, hgood, hflat, hC, hEperm, hMX, _⟩ := hmid hg hv
      rw [hflat]
      exact fr_p_of_AMC (fun b hb => (hgood b (by simp [hb])).fr) (fun b hb => (hgood b (by simp [hb])).fr)
        hEperm hMX
    · obtain ⟨A, M, C, hgood, hflat, hC, hEperm, hMX, hMne⟩ := hmid hg hsuf.vseg
      have hMv : HasV v (M.map (·.2)).flatten := by
        obtain ⟨x, hx⟩ := List.exists_mem_of_ne_nil _ hMne
        have hgx := hgood x (by simp [hx])
        refine hasV_flatten_of_mem hx (hgx.hasV ?_)
        intro hxe
        have := hgx.noV hxe
        obtain ⟨s, hs⟩ := List.exists_mem_of_ne_nil _ hgx.ne_nil
        have hs' : s ∈ (M.map (·.2)).flatten := List.mem_flatten.2 ⟨x.2, List.mem_map.2 ⟨x, hx, rfl⟩, hs⟩
        exact this s hs (hallX.fr hMX s hs')
      obtain ⟨hC0, _⟩ := suf_no_trailing (hflat ▸ hsuf) hMv rfl (fun b hb => hgood b (by simp [hb])) hC
      subst hC0
      rw [simplify_p_EF hEm (mem_of_all hwfX hallX) (synPartial_of_all hwfX hallX) hEne]
      simp only [List.map_nil, List.flatten_nil, List.append_nil] at hflat hEperm
      rw [hflat]
      refine (seq_cons _ _ _).2 ⟨_, _, rfl, ?_, (seq_singleton _ _).2 hMX⟩
      exact (fr_newP (hndsel _) hEne _).2 (fr_pF_of_blocks (fun b hb => (hgood b (by simp [hb])).fr) hEperm)
  · -- one partial aligned child and full children
    have hc0 := hsel .partialAligned c0 (by simp [hPA])
    obtain ⟨hsyn0, hpure0⟩ := hc0.pa rfl
    simp only [hPA, hPU, frontierList_cons, frontierList_nil, List.append_nil, List.count_nil,
      Nat.add_zero] at hcnt
    have hnpF : frontier (newP (select .full rs)) = frontierList (select .full rs) :=
      frontier_newP (hndsel _) hFne
    have hnewperm : (frontierList (simplify v true c0 ++ [newP (select .full rs)])).Perm
        (frontier c0 ++ frontierList (select .full rs)) := by
      simp only [frontierList_append, frontierList_cons, frontierList_nil, List.append_nil, hnpF]
      exact List.Perm.append_right _ (frontierList_simplify v true (hc0.ok.simp rfl) hc0.nd)
    have hndnew : (frontierList (simplify v true c0 ++ [newP (select .full rs)])).Nodup := by
      rw [List.nodup_iff_count]; intro a
      have h1 := hnewperm.count_eq a
      have h2 := hcnt a
      simp only [List.count_append] at h1
      omega
    have hlen2 : 2 ≤ (simplify v true c0 ++ [newP (select .full rs)]).length := by
      have := pure_length hpure0
      simp only [List.length_append]; omega
    rw [newQ_eq_q hlen2 hndnew]
    have hnsnew : ∀ c ∈ simplify v true c0 ++ [newP (select .full rs)], synPartial v c = false := by
      intro c hc
      rcases List.mem_append.1 hc with hc | hc
      · exact noSyn_simplify v true c0 hc0.nd c hc
      · simp only [List.mem_singleton] at hc; subst hc
        exact synPartial_newP_full (hndsel _)
          (fun c hc => ⟨(hsel _ c hc).ok.mem_full, (hsel _ c hc).ok.noSyn_full⟩)
    have hsynX : synPartial v (.q (simplify v true c0 ++ [newP (select .full rs)])) = true := by
      obtain ⟨Le, Lf, hL, hLe, hLf, h1, h2⟩ := hpure0
      have hmX : mem v (.q (simplify v true c0 ++ [newP (select .full rs)])) = true := by
        rw [mem_iff]
        obtain ⟨⟨s, hs, hv⟩, _⟩ := hc0.part (.inl rfl)
        exact ⟨s, by
          simp only [frontier_q]
          exact hnewperm.mem_iff.2 (List.mem_append.2 (.inl hs)), hv⟩
      simp only [synPartial, isPQ, children, Bool.true_and, Bool.and_eq_true, hmX, true_and,
        anyNotMem_eq_any, List.any_eq_true, Bool.not_eq_true']
      obtain ⟨e, he⟩ := List.exists_mem_of_ne_nil _ hLe
      exact ⟨e, List.mem_append.2 (.inl (by rw [hL]; exact List.mem_append.2 (.inl he))),
        vfree_iff.1 (h1 e he)⟩
    -- the middle part of an ordering: the block of `c0` first or last, the full children around
    have hmid : ∀ {g}, Fr (.p cs) g → VSeg v g → ∃ A M C : List Blk, (∀ b ∈ A ++ M ++ C, GoodBlk v b) ∧
        g = (A.map (·.2)).flatten ++ (M.map (·.2)).flatten ++ (C.map (·.2)).flatten ∧
        (∀ b ∈ C, b.1.2 = .empty) ∧ ((A ++ C).map (fun b => b.1.1)).Perm (select .empty rs) ∧
        HasV v (M.map (·.2)).flatten ∧
        (Seq (simplify v true c0 ++ [newP (select .full rs)]) (M.map (·.2)).flatten ∨
         (Seq (simplify v true c0 ++ [newP (select .full rs)]) (M.map (·.2)).flatten.reverse ∧
           ¬ Suf v (M.map (·.2)).flatten)) := by
      intro g hg hv
      obtain ⟨A, M, C, hgood, hflat, hA, hC, hM, hEperm, hMperm⟩ := p_blocks hpairs hg hv
      have hgM : ∀ b ∈ M, GoodBlk v b := fun b hb => hgood b (by simp [hb])
      have hMpa : select .partialAligned (M.map (·.1)) = [c0] := by
        have := hMperm .partialAligned (by simp); rw [hPA] at this; exact List.perm_singleton.1 this
      have hMf := hMperm .full (by simp)
      refine ⟨A, M, C, hgood, hflat, hC, hEperm, ?_⟩
      rcases hM with rfl | ⟨x, rfl, hx⟩ | ⟨x, Mid, y, rfl, hx, hy, hMid, hsx, hpy⟩
      · simp [select] at hMpa
      · exfalso
        have h1 := hMf.length_eq
        have h2 := congrArg List.length hMpa
        have h3 := List.length_pos_iff.2 hFne
        simp only [List.map_cons, List.map_nil, select_cons] at h1 h2
        split at h1
        · rename_i hxf; rw [if_neg (by rw [hxf]; simp)] at h2; simp at h2
        · simp at h1; omega
      · have hgx := hgM x (by simp)
        have hgy := hgM y (by simp)
        obtain ⟨hfx, hfy⟩ := mid_end_flags hgx hgy hx hy hsx hpy
        have hmidpa : select .partialAligned (Mid.map (·.1)) = [] := select_blocks_nil hMid (by simp)
        have hmidf : select .full (Mid.map (·.1)) = Mid.map (fun b => b.1.1) := select_blocks_of_all hMid
        rw [map_fst_mid, select_append, select_append, hmidpa, select_cons, select_cons] at hMpa
        rw [map_fst_mid, select_append, select_append, hmidf, select_cons, select_cons] at hMf
        have hMv : HasV v ((x :: Mid ++ [y]).map (·.2)).flatten :=
          hasV_flatten_of_mem (by simp) (hgx.hasV hx)
        refine ⟨hMv, ?_⟩
        rcases hfx with hfx | hfx <;> rcases hfy with hfy | hfy
        · -- both full: no partial child in the middle part
          rw [if_neg (by rw [hfx]; simp), if_neg (by rw [hfy]; simp)] at hMpa
          simp [select] at hMpa
        · -- `c0` is the last block
          right
          rw [if_neg (by rw [hfx]; simp), if_pos hfy] at hMpa
          rw [if_pos hfx, if_neg (by rw [hfy]; simp)] at hMf
          simp only [select_nil, List.nil_append, List.cons.injEq, and_true, List.append_nil] at hMpa hMf
          have hfl : ((x :: Mid ++ [y]).map (·.2)).flatten = ((x :: Mid).map (·.2)).flatten ++ y.2 := by simp
          have hrest : Fr (newP (select .full rs)) ((x :: Mid).map (·.2)).flatten :=
            (fr_newP (hndsel _) hFne _).2 (fr_pF_of_blocks
              (fun b hb => (hgM b (List.mem_append.2 (.inl hb))).fr) (by simpa using hMf))
          rw [hfl]
          refine ⟨?_, ?_⟩
          · rw [List.reverse_append]
            refine (seq_append _ _ _).2 ⟨_, _, rfl, ?_, (seq_singleton _ _).2 (fr_reverse _ _ hrest)⟩
            rw [← hMpa]
            exact hgy.paR hfy hpy
          · intro hs
            have hxv : HasV v ((x :: Mid).map (·.2)).flatten := hasV_flatten_of_mem (by simp) (hgx.hasV hx)
            exact (suf_append_hasV hs hxv).2.not_hasN (hgy.hasN (by rw [hfy]; simp))
        · -- `c0` is the first block
          left
          rw [if_pos hfx, if_neg (by rw [hfy]; simp)] at hMpa
          rw [if_neg (by rw [hfx]; simp), if_pos hfy] at hMf
          simp only [select_nil, List.nil_append, List.cons.injEq, and_true, List.append_nil] at hMpa hMf
          have hfl : ((x :: Mid ++ [y]).map (·.2)).flatten = x.2 ++ ((Mid ++ [y]).map (·.2)).flatten := by simp
          have hrest : Fr (newP (select .full rs)) ((Mid ++ [y]).map (·.2)).flatten :=
            (fr_newP (hndsel _) hFne _).2 (fr_pF_of_blocks
              (fun b hb => (hgM b (List.mem_cons_of_mem _ hb)).fr) (by simpa using hMf))
          rw [hfl]
          refine (seq_append _ _ _).2 ⟨_, _, rfl, ?_, (seq_singleton _ _).2 hrest⟩
          rw [← hMpa]
          exact hgx.pa hfx hsx
        · -- two partial children: impossible
          rw [if_pos hfx, if_pos hfy] at hMpa
          have := congrArg List.length hMpa
          simp [select] at this
    refine ⟨fun g hg hv => ?_, by simp, fun _ g hg hsuf => ?_⟩
    · obtain ⟨A, M, C, hgood, hflat, hC, hEperm, _, hMX⟩ := hmid hg hv
      rw [hflat]
      refine fr_p_of_AMC (fun b hb => (hgood b (by simp [hb])).fr) (fun b hb => (hgood b (by simp [hb])).fr)
        hEperm ((fr_q _ _).2 ?_)
      rcases hMX with h1 | ⟨h1, _⟩
      · exact .inl h1
      · exact .inr h1
    · obtain ⟨A, M, C, hgood, hflat, hC, hEperm, hMv, hMX⟩ := hmid hg hsuf.vseg
      obtain ⟨hC0, hsM⟩ := suf_no_trailing (hflat ▸ hsuf) hMv rfl (fun b hb => hgood b (by simp [hb])) hC
      subst hC0
      rw [simplify_p_EX' hEm hsynX, simplify_q_noSyn hnsnew]
      simp only [List.map_nil, List.flatten_nil, List.append_nil] at hflat hEperm
      rw [hflat]
      refine (seq_append _ _ _).2 ⟨_, _, rfl, seq_optP_of_blocks (hndsel _)
        (fun b hb => (hgood b (by simp [hb])).fr) hEperm, ?_⟩
      rcases hMX with h1 | ⟨_, h2⟩
      · exact h1
      · exact absurd hsM h2
  · -- two partial aligned children
    have hc0 := hsel .partialAligned c0 (by simp [hPA])
    have hc1 := hsel .partialAligned c1 (by simp [hPA])
    obtain ⟨hsyn0, hpure0⟩ := hc0.pa rfl
    obtain ⟨hsyn1, hpure1⟩ := hc1.pa rfl
    simp only [hPA, hPU, frontierList_cons, frontierList_nil, List.append_nil, List.count_nil,
      Nat.add_zero, List.count_append] at hcnt
    have hndr1 : (frontier (Tree.reverse c1)).Nodup := by
      rw [frontier_reverse]; exact (List.reverse_perm _).symm.nodup hc1.nd
    have hoF : frontierList (optP (select .full rs)) = frontierList (select .full rs) :=
      frontierList_optP (hndsel _)
    have hs1 := frontierList_simplify v false (simpOK_reverse (hc1.ok.simp rfl)) hndr1
    have hnewperm : (frontierList (simplify v true c0 ++ optP (select .full rs) ++
        simplify v false (Tree.reverse c1))).Perm
        (frontier c0 ++ frontierList (select .full rs) ++ frontier c1) := by
      simp only [frontierList_append, hoF]
      refine ((frontierList_simplify v true (hc0.ok.simp rfl) hc0.nd).append_right _).append (hs1.trans ?_)
      rw [frontier_reverse]; exact List.reverse_perm _
    have hndnew : (frontierList (simplify v true c0 ++ optP (select .full rs) ++
        simplify v false (Tree.reverse c1))).Nodup := by
      rw [List.nodup_iff_count]; intro a
      have h1 := hnewperm.count_eq a
      have h2 := hcnt a
      simp only [List.count_append] at h1
      omega
    have hlen2 : 2 ≤ (simplify v true c0 ++ optP (select .full rs) ++
        simplify v false (Tree.reverse c1)).length := by
      have := pure_length hpure0
      simp only [List.length_append]; omega
    rw [newQ_eq_q hlen2 hndnew]
    have hmid : ∀ {g}, Fr (.p cs) g → VSeg v g → ∃ A M C : List Blk, (∀ b ∈ A ++ M ++ C, GoodBlk v b) ∧
        g = (A.map (·.2)).flatten ++ (M.map (·.2)).flatten ++ (C.map (·.2)).flatten ∧
        ((A ++ C).map (fun b => b.1.1)).Perm (select .empty rs) ∧
        ¬ Suf v (M.map (·.2)).flatten ∧ ¬ Pre v (M.map (·.2)).flatten ∧
        Fr (.q (simplify v true c0 ++ optP (select .full rs) ++ simplify v false (Tree.reverse c1)))
          (M.map (·.2)).flatten := by
      intro g hg hv
      obtain ⟨A, M, C, hgood, hflat, hA, hC, hM, hEperm, hMperm⟩ := p_blocks hpairs hg hv
      have hgM : ∀ b ∈ M, GoodBlk v b := fun b hb => hgood b (by simp [hb])
      have hMpa := hMperm .partialAligned (by simp)
      rw [hPA] at hMpa
      have hMf := hMperm .full (by simp)
      refine ⟨A, M, C, hgood, hflat, hEperm, ?_⟩
      rcases hM with rfl | ⟨x, rfl, hx⟩ | ⟨x, Mid, y, rfl, hx, hy, hMid, hsx, hpy⟩
      · have := hMpa.length_eq; simp [select] at this
      · have := hMpa.length_eq
        have h3 := select_length_le .partialAligned ([x].map (·.1))
        simp only [List.map_cons, List.map_nil, List.length_cons, List.length_nil] at this h3
        omega
      · have hgx := hgM x (by simp)
        have hgy := hgM y (by simp)
        obtain ⟨hfx, hfy⟩ := mid_end_flags hgx hgy hx hy hsx hpy
        have hmidpa : select .partialAligned (Mid.map (·.1)) = [] := select_blocks_nil hMid (by simp)
        have hmidf : select .full (Mid.map (·.1)) = Mid.map (fun b => b.1.1) := select_blocks_of_all hMid
        rw [map_fst_mid, select_append, select_append, hmidpa, select_cons, select_cons] at hMpa
        rw [map_fst_mid, select_append, select_append, hmidf, select_cons, select_cons] at hMf
        have hfxa : x.1.2 = .partialAligned := by
          rcases hfx with hfx | hfx
          · exfalso
            rw [if_neg (by rw [hfx]; simp)] at hMpa
            have h3 := hMpa.length_eq
            have h4 := select_length_le .partialAligned [y.1]
            simp only [select_nil, List.nil_append, List.length_cons, List.length_nil, List.append_nil] at h3 h4
            split at h3 <;> simp at h3
          · exact hfx
        have hfya : y.1.2 = .partialAligned := by
          rcases hfy with hfy | hfy
          · exfalso
            rw [if_pos hfxa, if_neg (by rw [hfy]; simp)] at hMpa
            have h3 := hMpa.length_eq
            simp at h3
          · exact hfy
        rw [if_pos hfxa, if_pos hfya] at hMpa
        rw [if_neg (by rw [hfxa]; simp), if_neg (by rw [hfya]; simp)] at hMf
        simp only [select_nil, List.nil_append, List.append_nil, List.cons_append] at hMpa hMf
        have hfl : ((x :: Mid ++ [y]).map (·.2)).flatten = x.2 ++ (Mid.map (·.2)).flatten ++ y.2 := by simp
        have hMidS : Seq (optP (select .full rs)) (Mid.map (·.2)).flatten :=
          seq_optP_of_blocks (hndsel _) (fun b hb => (hgM b (by simp [hb])).fr) hMf
        have hxv := hgx.hasV hx
        have hyv := hgy.hasV hy
        have hxn := hgx.hasN (by rw [hfxa]; simp)
        have hyn := hgy.hasN (by rw [hfya]; simp)
        rw [hfl]
        refine ⟨?_, ?_, (fr_q _ _).2 ?_⟩
        · intro hs
          rw [List.append_assoc] at hs
          exact (allVL_append.1 (suf_append_hasV hs hxv).2).2.not_hasN hyn
        · intro hp
          exact (allVL_append.1 (pre_append_hasV hp hyv).1).1.not_hasN hxn
        · rcases perm_pair hMpa with ⟨hx0, hy1⟩ | ⟨hx1, hy0⟩
          · left
            refine (seq_append _ _ _).2 ⟨_, _, rfl, (seq_append _ _ _).2 ⟨_, _, rfl, ?_, hMidS⟩, ?_⟩
            · rw [← hx0]; exact hgx.pa hfxa hsx
            · rw [← hy1]; exact hgy.pa' hfya hpy
          · right
            simp only [List.reverse_append, ← List.append_assoc]
            refine (seq_append _ _ _).2 ⟨_, _, rfl, (seq_append _ _ _).2 ⟨_, _, rfl, ?_, seq_optP_reverse hMidS⟩, ?_⟩
            · rw [← hy0]; exact hgy.paR hfya hpy
            · rw [← hx1, simplify_reverse v (hgx.child.ok.simp hfxa) hgx.child.nd]
              exact seq_reverseList (hgx.pa hfxa hsx)
    refine ⟨fun g hg hv => ?_, fun _ g hg hv => ?_, by simp⟩
    · obtain ⟨A, M, C, hgood, hflat, hEperm, _, _, hMX⟩ := hmid hg hv
      rw [hflat]
      exact fr_p_of_AMC (fun b hb => (hgood b (by simp [hb])).fr) (fun b hb => (hgood b (by simp [hb])).fr)
        hEperm hMX
    · obtain ⟨A, M, C, hgood, hflat, hEperm, hns, hnp, _⟩ := hmid hg hv
      rw [hflat]
      exact ⟨fun hs => hns (Suf.left (x := (A.map (·.2)).flatten ++ (M.map (·.2)).flatten) hs).right,
        fun hp => hnp (Pre.left (x := (A.map (·.2)).flatten ++ (M.map (·.2)).flatten) hp).right⟩

end PrefVerif.PQTree
