import PrefVerif.Lemmas.C05PQSoundBasic
/-!
Soundness of `set_contiguous`, part 2: the restructuring step of `P.set_contiguous`.
-/
set_option linter.unusedSimpArgs false
namespace PrefVerif.PQTree
open Tree

/-- what the restructuring step guarantees, relative to the node `t0` over the children it started from -/
structure SoundOut (v : Nat) (t0 t' : Tree) (f' : Flag) : Prop where
  sub : ∀ g, Fr t' g → Fr t0 g
  seg : ∀ g, Fr t' g → VSeg v g
  part : (f' = .partialAligned ∨ f' = .partialUnaligned) →
    (∃ s ∈ frontier t', v ∈ s) ∧ (∃ s ∈ frontier t', v ∉ s)
  settled : RootSettled v (flattenRet t')
  pa : RootSettled v t0 → f' = .partialAligned → PASpec v t'

theorem rootSettled_flattenRet_p {v : Nat} {l : List Tree} (h2 : 2 ≤ l.length)
    (h : AllV v (.p l) ∨ ∃ c ∈ l, VFree v c) : RootSettled v (flattenRet (.p l)) := by
  match l, h2 with
  | c1 :: c2 :: rest, _ =>
    intro cs' hcs'
    simp only [flattenRet, Tree.p.injEq] at hcs'
    rcases h with h | ⟨c, hc, hv⟩
    · left
      intro s hs
      rw [frontier_flattenRet] at hs
      exact h s hs
    · right
      refine ⟨flattenRet c, ?_, ?_⟩
      · rw [← hcs', flattenRetList_eq_map]; exact List.mem_map.2 ⟨c, hc, rfl⟩
      · intro s hs; rw [frontier_flattenRet] at hs; exact hv s hs

theorem rootSettled_flattenRet_pq {v : Nat} {new : List Tree} (h2 : 2 ≤ new.length) :
    RootSettled v (flattenRet (.p [.q new])) := by
  match new, h2 with
  | c1 :: c2 :: rest, _ =>
    simp only [flattenRet]
    exact rootSettled_q v _

theorem allV_of_frontier_perm {v : Nat} {t t' : Tree} (hp : (frontier t').Perm (frontier t)) (h : AllV v t) :
    AllV v t' := fun s hs => h s (hp.mem_iff.1 hs)

theorem vfree_newP {v : Nat} {l : List Tree} (h : (frontierList l).Nodup) (hne : l ≠ [])
    (hl : ∀ c ∈ l, VFree v c) : VFree v (newP l) := by
  intro s hs
  rw [frontier_newP h hne] at hs
  obtain ⟨c, hc, hsc⟩ := mem_frontierList.1 hs
  exact hl c hc s hsc

theorem allV_newP {v : Nat} {l : List Tree} (h : (frontierList l).Nodup) (hne : l ≠ [])
    (hl : ∀ c ∈ l, AllV v c) : AllV v (newP l) := by
  intro s hs
  rw [frontier_newP h hne] at hs
  obtain ⟨c, hc, hsc⟩ := mem_frontierList.1 hs
  exact hl c hc s hsc

theorem filter_eq_self_of {α : Type} {l : List α} {P : α → Bool} (h : ∀ a ∈ l, P a = true) : l.filter P = l :=
  List.filter_eq_self.2 h

theorem filter_eq_nil_of {α : Type} {l : List α} {P : α → Bool} (h : ∀ a ∈ l, P a = false) : l.filter P = [] := by
  rw [List.filter_eq_nil_iff]; intro a ha; simp [h a ha]

/-- `simplify` of a `P` node whose children are `E` (without `v`) and one partial child `X` -/
theorem simplify_p_EX {v : Nat} {E : List Tree} {X : Tree} (hE : ∀ c ∈ E, mem v c = false)
    (hX : synPartial v X = true) (hEne : E ≠ []) :
    simplify v true (.p (E ++ [X])) = [newP E] ++ simplify v true X := by
  have hmX : mem v X = true := by
    simp only [synPartial, Bool.and_eq_true] at hX; exact hX.1.2
  have h1 : (E ++ [X]).filter (fun c => !mem v c) = E := by
    rw [List.filter_append, filter_eq_self_of (fun c hc => by simp [hE c hc])]
    simp [hmX]
  have h2 : (E ++ [X]).filter (fun c => mem v c && !synPartial v c) = [] := by
    rw [List.filter_append, filter_eq_nil_of (fun c hc => by simp [hE c hc])]
    simp [hmX, hX]
  have h3 : (E ++ [X]).filter (synPartial v) = [X] := by
    rw [List.filter_append, filter_eq_nil_of (fun c hc => synPartial_of_not_mem (hE c hc))]
    simp [hX]
  simp only [simplify, simplifyEmpty_eq, simplifyFull_eq, simplifyPartial_eq, h1, h2, h3, if_true]
  cases E with
  | nil => exact absurd rfl hEne
  | cons e es => simp

/-- `simplify` of a `P` node whose children are `E` (without `v`) and one full child `X` -/
theorem simplify_p_EF {v : Nat} {E : List Tree} {X : Tree} (hE : ∀ c ∈ E, mem v c = false)
    (hmX : mem v X = true) (hX : synPartial v X = false) (hEne : E ≠ []) :
    simplify v true (.p (E ++ [X])) = [newP E, X] := by
  have h1 : (E ++ [X]).filter (fun c => !mem v c) = E := by
    rw [List.filter_append, filter_eq_self_of (fun c hc => by simp [hE c hc])]
    simp [hmX]
  have h2 : (E ++ [X]).filter (fun c => mem v c && !synPartial v c) = [X] := by
    rw [List.filter_append, filter_eq_nil_of (fun c hc => by simp [hE c hc])]
    simp [hmX, hX]
  have h3 : (E ++ [X]).filter (synPartial v) = [] := by
    rw [List.filter_append, filter_eq_nil_of (fun c hc => synPartial_of_not_mem (hE c hc))]
    simp [hX]
  simp only [simplify, simplifyEmpty_eq, simplifyFull_eq, simplifyPartial_eq, h1, h2, h3, if_true]
  cases E with
  | nil => exact absurd rfl hEne
  | cons e es => simp [newP]

theorem simplify_q_noSyn {v : Nat} {right : Bool} {cs : List Tree} (h : ∀ c ∈ cs, synPartial v c = false) :
    simplify v right (.q cs) = cs := by
  simp only [simplify, simplifyQ_eq]
  induction cs with
  | nil => rfl
  | cons c cs ih =>
    simp only [List.flatMap_cons, h c List.mem_cons_self, Bool.false_eq_true, if_false]
    rw [ih (fun d hd => h d (List.mem_cons_of_mem _ hd))]
    rfl

theorem synPartial_p_EX {v : Nat} {E : List Tree} {X : Tree} (hE : ∀ c ∈ E, mem v c = false)
    (hmX : mem v X = true) (hEne : E ≠ []) : synPartial v (.p (E ++ [X])) = true := by
  simp only [synPartial, isPQ, children, Bool.true_and, Bool.and_eq_true, mem, memList_eq_any,
    anyNotMem_eq_any, List.any_append, List.any_cons, List.any_nil, Bool.or_false, hmX, Bool.or_true,
    Bool.not_true, true_and, Bool.or_eq_true, List.any_eq_true, Bool.not_eq_true', Bool.false_eq_true, or_false]
  obtain ⟨e, he⟩ := List.exists_mem_of_ne_nil _ hEne
  exact ⟨e, he, hE e he⟩

theorem newQ_eq_q {l : List Tree} (h2 : 2 ≤ l.length) (hnd : (frontierList l).Nodup) : newQ l = .q l := by
  unfold newQ
  rw [if_pos (by omega), mkQ_eq hnd]

theorem pure_length {v : Nat} {L : List Tree} (h : Pure v L) : 2 ≤ L.length := by
  obtain ⟨Le, Lf, rfl, h1, h2, _, _⟩ := h
  have := List.length_pos_iff.2 h1
  have := List.length_pos_iff.2 h2
  simp only [List.length_append]; omega

theorem rootSettled_flattenRet_EQ {v : Nat} {E new : List Tree} (h2 : 2 ≤ new.length)
    (hE : ∀ c ∈ E, VFree v c) : RootSettled v (flattenRet (.p (E ++ [.q new]))) := by
  cases E with
  | nil => simpa using rootSettled_flattenRet_pq h2
  | cons e es =>
    refine rootSettled_flattenRet_p (by simp) (.inr ⟨e, by simp, hE e (by simp)⟩)

/-- the restructuring step of `P.set_contiguous` is sound -/
theorem restructureP_sound {v : Nat} {rs : List (Tree × Flag)} {t' : Tree} {f' : Flag}
    (hlen : 2 ≤ rs.length) (hch : ∀ r ∈ rs, ChildS v r.1 r.2) (hnd : (frontierList (rs.map (·.1))).Nodup)
    (h : restructureP v rs = .ok (t', f')) : SoundOut v (.p (rs.map (·.1))) t' f' := by
  have hne : rs ≠ [] := by intro hn; simp [hn] at hlen
  obtain ⟨hok', hperm'⟩ := restructureP_ok hne (fun r hr => (hch r hr).ok) hnd h
  have hsel : ∀ f c, c ∈ select f rs → ChildS v c f := fun f c hc => hch (c, f) (mem_select.1 hc)
  have hE : ∀ c ∈ select .empty rs, VFree v c := fun c hc => (hsel _ c hc).vfree
  have hEm : ∀ c ∈ select .empty rs, mem v c = false := fun c hc => vfree_iff.1 (hE c hc)
  have hF : ∀ c ∈ select .full rs, AllV v c := fun c hc => (hsel _ c hc).allV
  have hpermT := select_perm4 rs
  have hperm := frontierList_perm hpermT
  have hsum := select_length_sum rs
  have hndsel : ∀ f, (frontierList (select f rs)).Nodup :=
    fun f => nodup_of_sublist_frontier (select_sublist f rs) hnd
  have hcnt := fun a => (List.nodup_iff_count.1 (hperm.nodup hnd)) a
  simp only [frontierList_append, List.count_append] at hcnt
  have hcslen : 2 ≤ (rs.map (·.1)).length := by simpa using hlen
  -- leaves with / without `v` among the children
  have hleafV : ∀ f c, c ∈ select f rs → (f = .full ∨ f = .partialAligned ∨ f = .partialUnaligned) →
      ∃ s ∈ frontierList (rs.map (·.1)), v ∈ s := by
    intro f c hc hf
    have hcs : c ∈ rs.map (·.1) := (select_sublist f rs).subset hc
    have hc' := hsel f c hc
    rcases hf with rfl | rfl | rfl
    · obtain ⟨s, hs⟩ := List.exists_mem_of_ne_nil _ (frontier_ne_nil hc'.ok.wf)
      exact ⟨s, mem_frontierList.2 ⟨c, hcs, hs⟩, hc'.allV s hs⟩
    · obtain ⟨⟨s, hs, hv⟩, _⟩ := hc'.part (.inl rfl)
      exact ⟨s, mem_frontierList.2 ⟨c, hcs, hs⟩, hv⟩
    · obtain ⟨⟨s, hs, hv⟩, _⟩ := hc'.part (.inr rfl)
      exact ⟨s, mem_frontierList.2 ⟨c, hcs, hs⟩, hv⟩
  have hleafN : ∀ f c, c ∈ select f rs → (f = .empty ∨ f = .partialAligned ∨ f = .partialUnaligned) →
      ∃ s ∈ frontierList (rs.map (·.1)), v ∉ s := by
    intro f c hc hf
    have hcs : c ∈ rs.map (·.1) := (select_sublist f rs).subset hc
    have hc' := hsel f c hc
    rcases hf with rfl | rfl | rfl
    · obtain ⟨s, hs⟩ := List.exists_mem_of_ne_nil _ (frontier_ne_nil hc'.ok.wf)
      exact ⟨s, mem_frontierList.2 ⟨c, hcs, hs⟩, hc'.vfree s hs⟩
    · obtain ⟨_, ⟨s, hs, hv⟩⟩ := hc'.part (.inl rfl)
      exact ⟨s, mem_frontierList.2 ⟨c, hcs, hs⟩, hv⟩
    · obtain ⟨_, ⟨s, hs, hv⟩⟩ := hc'.part (.inr rfl)
      exact ⟨s, mem_frontierList.2 ⟨c, hcs, hs⟩, hv⟩
  have hpartOf : (∃ s ∈ frontierList (rs.map (·.1)), v ∈ s) → (∃ s ∈ frontierList (rs.map (·.1)), v ∉ s) →
      (∃ s ∈ frontier t', v ∈ s) ∧ (∃ s ∈ frontier t', v ∉ s) := by
    rintro ⟨s, hs, hv⟩ ⟨s', hs', hv'⟩
    exact ⟨⟨s, hperm'.mem_iff.2 hs, hv⟩, ⟨s', hperm'.mem_iff.2 hs', hv'⟩⟩
  -- an empty child exists as soon as the root is settled and some child is not full
  have hEne_of : RootSettled v (.p (rs.map (·.1))) → (∃ f c, c ∈ select f rs ∧ f ≠ .full) →
      select .empty rs ≠ [] := by
    intro hrs ⟨f, c, hc, hf⟩
    rcases hrs _ rfl with hall | ⟨d, hd, hvd⟩
    · exfalso
      have hcs : c ∈ rs.map (·.1) := (select_sublist f rs).subset hc
      have : AllV v c := fun s hs => hall s (by simpa using mem_frontierList.2 ⟨c, hcs, hs⟩)
      exact hf ((hsel f c hc).flag_of_allV this)
    · obtain ⟨r, hr, rfl⟩ := List.mem_map.1 hd
      have := (hch r hr).flag_of_vfree hvd
      intro hnil
      have hm : r.1 ∈ select .empty rs := mem_select.2 (by rw [← this]; exact hr)
      rw [hnil] at hm; cases hm
  rcases restructureP_shape h with
    ⟨hlenF, rfl, rfl⟩ | ⟨hlenE, rfl, rfl⟩ | ⟨hpu, hE1, rfl, rfl⟩ | ⟨hpa, hE1, rfl, rfl⟩ |
    ⟨hPU, hPA, hFne, hEne, rfl, rfl⟩ | ⟨hPU, hFne, c0, hPA, rfl, rfl⟩ | ⟨hPU, c0, c1, hPA, rfl, rfl⟩
  · -- all full
    have hall : AllV v (.p (rs.map (·.1))) := hok'.full rfl
    exact ⟨fun g hg => hg, fun g hg => (hall.fr hg).vseg, by simp,
      rootSettled_flattenRet_p hcslen (.inl hall), by simp⟩
  · -- all empty
    have hall : VFree v (.p (rs.map (·.1))) := hok'.empty rfl
    refine ⟨fun g hg => hg, fun g hg => (hall.fr hg).vseg, by simp,
      rootSettled_flattenRet_p hcslen (.inr ?_), by simp⟩
    match hrs : rs, hne with
    | r :: rest, _ =>
      refine ⟨r.1, by simp, ?_⟩
      have : r.2 = .empty := select_all hlenE r (by simp [hrs])
      have hr := hch r (by simp [hrs])
      rw [this] at hr
      exact hr.vfree
  · -- one partial unaligned child, all others empty
    have hF0 : select .full rs = [] := List.eq_nil_of_length_eq_zero (by omega)
    have hPA0 : select .partialAligned rs = [] := List.eq_nil_of_length_eq_zero (by omega)
    match hs : select .partialUnaligned rs, hpu with
    | [x], _ =>
      have hx := hsel .partialUnaligned x (by simp [hs])
      have hp : (select .empty rs ++ [x]).Perm (rs.map (·.1)) := by
        rw [hF0, hPA0, hs] at hpermT
        simpa using hpermT.symm
      have hEne : select .empty rs ≠ [] := by
        intro hn; simp [hn] at hE1; omega
      refine ⟨fun g hg => hg, ?_, fun _ => ?_, rootSettled_flattenRet_p hcslen (.inr ?_), by simp⟩
      · intro g hg
        exact vseg_p_EX hE hx.seg g (fr_p_perm hp.symm g hg)
      · exact hpartOf (hleafV .partialUnaligned x (by simp [hs]) (by simp)) (hleafN .partialUnaligned x (by simp [hs]) (by simp))
      · obtain ⟨e, he⟩ := List.exists_mem_of_ne_nil _ hEne
        exact ⟨e, (select_sublist _ rs).subset he, hE e he⟩
  · -- one partial aligned child, all others empty
    have hF0 : select .full rs = [] := List.eq_nil_of_length_eq_zero (by omega)
    have hPU0 : select .partialUnaligned rs = [] := List.eq_nil_of_length_eq_zero (by omega)
    match hs : select .partialAligned rs, hpa with
    | [c0], _ =>
      have hc0 := hsel .partialAligned c0 (by simp [hs])
      have hp : (select .empty rs ++ [c0]).Perm (rs.map (·.1)) := by
        rw [hF0, hPU0, hs] at hpermT
        simpa using hpermT.symm
      have hEne : select .empty rs ≠ [] := by
        intro hn; simp [hn] at hE1; omega
      have hlen2 : 2 ≤ (select .empty rs ++ [c0]).length := by
        rw [hp.length_eq]; exact hcslen
      obtain ⟨hsyn0, hpure0⟩ := hc0.pa rfl
      have hm0 : mem v c0 = true := by
        simp only [synPartial, Bool.and_eq_true] at hsyn0; exact hsyn0.1.2
      refine ⟨fun g hg => fr_p_perm hp g hg, vseg_p_EX hE hc0.seg, fun _ => ?_,
        rootSettled_flattenRet_p hlen2 (.inr ?_), fun _ _ => ⟨synPartial_p_EX hEm hm0 hEne, ?_⟩⟩
      · have hh := hpartOf (hleafV .partialAligned c0 (by simp [hs]) (by simp)) (hleafN .partialAligned c0 (by simp [hs]) (by simp))
        rwa [hs] at hh
      · obtain ⟨e, he⟩ := List.exists_mem_of_ne_nil _ hEne
        exact ⟨e, List.mem_append.2 (.inl he), hE e he⟩
      · rw [simplify_p_EX hEm hsyn0 hEne]
        obtain ⟨Le, Lf, hL, hLe, hLf, h1, h2⟩ := hpure0
        refine ⟨[newP (select .empty rs)] ++ Le, Lf, by rw [hL]; simp, by simp, hLf, ?_, h2⟩
        intro c hc
        rcases List.mem_append.1 hc with hc | hc
        · simp only [List.mem_singleton] at hc; subst hc
          exact vfree_newP (hndsel _) hEne hE
        · exact h1 c hc
  · -- empty and full children only
    have hX : newQ [newP (select .full rs)] = newP (select .full rs) := by simp [newQ]
    rw [hX]
    have hallX : AllV v (newP (select .full rs)) := allV_newP (hndsel _) hFne hF
    have hwfX : WF (newP (select .full rs)) := wf_newP (hndsel _) hFne (fun c hc => (hsel _ c hc).ok.wf)
    have hp : (select .empty rs ++ select .full rs).Perm (rs.map (·.1)) := by
      rw [hPU, hPA] at hpermT
      simp only [List.append_nil] at hpermT
      exact List.perm_append_comm.trans hpermT.symm
    have hlen2 : 2 ≤ (select .empty rs ++ [newP (select .full rs)]).length := by
      have := List.length_pos_iff.2 hEne
      simp only [List.length_append, List.length_cons, List.length_nil]; omega
    obtain ⟨f0, hf0⟩ := List.exists_mem_of_ne_nil _ hFne
    obtain ⟨e0, he0⟩ := List.exists_mem_of_ne_nil _ hEne
    refine ⟨fr_p_EX (fun g hg => (fr_newP (hndsel _) hFne g).1 hg) hp,
      vseg_p_EX hE (fun g hg => (hallX.fr hg).vseg), fun _ => ?_,
      rootSettled_flattenRet_p hlen2 (.inr ⟨e0, List.mem_append.2 (.inl he0), hE e0 he0⟩),
      fun _ _ => ⟨synPartial_p_EX hEm (mem_of_all hwfX hallX) hEne, ?_⟩⟩
    · exact hpartOf (hleafV _ f0 hf0 (by simp)) (hleafN _ e0 he0 (by simp))
    · rw [simplify_p_EF hEm (mem_of_all hwfX hallX) (synPartial_of_all hwfX hallX) hEne]
      refine ⟨[newP (select .empty rs)], [newP (select .full rs)], rfl, by simp, by simp, ?_, ?_⟩
      · intro c hc
        simp only [List.mem_singleton] at hc; subst hc
        exact vfree_newP (hndsel _) hEne hE
      · intro c hc
        simp only [List.mem_singleton] at hc; subst hc
        exact hallX
  · -- one partial aligned child and full children
    have hc0 := hsel .partialAligned c0 (by simp [hPA])
    obtain ⟨hsyn0, hpure0⟩ := hc0.pa rfl
    simp only [hPA, hPU, frontierList_cons, frontierList_nil, List.append_nil, List.count_nil,
      Nat.add_zero] at hcnt
    have hnpF : frontier (newP (select .full rs)) = frontierList (select .full rs) :=
      frontier_newP (hndsel _) hFne
    have hnewperm : (frontierList (simplify v true c0 ++ [newP (select .full rs)])).Perm
        (frontier c0 ++ frontierList (select .full rs)) := by
      simp only [frontierList_append, frontierList_cons, frontierList_nil, List.append_nil, hnpF]
      exact List.Perm.append_right _ (frontierList_simplify v true (hc0.ok.simp rfl) hc0.nd)
    have hndnew : (frontierList (simplify v true c0 ++ [newP (select .full rs)])).Nodup := by
      rw [List.nodup_iff_count]; intro a
      have h1 := hnewperm.count_eq a
      have h2 := hcnt a
      simp only [List.count_append] at h1
      omega
    have hlen2 : 2 ≤ (simplify v true c0 ++ [newP (select .full rs)]).length := by
      have := pure_length hpure0
      simp only [List.length_append]; omega
    rw [newQ_eq_q hlen2 hndnew] at hpartOf ⊢
    have hallF : AllV v (newP (select .full rs)) := allV_newP (hndsel _) hFne hF
    have hkey : ∀ g, Seq (simplify v true c0 ++ [newP (select .full rs)]) g →
        Fr (.p ([c0] ++ select .full rs)) g ∧ Suf v g := by
      intro g hg
      obtain ⟨g0, gF, rfl, hg0, hgF⟩ := (seq_append _ _ _).1 hg
      have hgF' := (seq_singleton _ _).1 hgF
      refine ⟨fr_p_concat ((fr_p_singleton c0 g0).2 (seq_simplify v true (hc0.ok.simp rfl) hc0.nd g0 hg0))
        ((fr_newP (hndsel _) hFne gF).1 hgF'), (hpure0.suf hg0).append_allVL (hallF.fr hgF')⟩
    have hXsub : ∀ g, Fr (.q (simplify v true c0 ++ [newP (select .full rs)])) g →
        Fr (.p ([c0] ++ select .full rs)) g := by
      intro g hg
      rcases (fr_q _ g).1 hg with hs | hs
      · exact (hkey g hs).1
      · simpa using fr_reverse _ _ (hkey _ hs).1
    have hXseg : ∀ g, Fr (.q (simplify v true c0 ++ [newP (select .full rs)])) g → VSeg v g := by
      intro g hg
      rcases (fr_q _ g).1 hg with hs | hs
      · exact (hkey g hs).2.vseg
      · exact (hkey _ hs).2.vseg.of_reverse
    have hp : (select .empty rs ++ ([c0] ++ select .full rs)).Perm (rs.map (·.1)) := by
      rw [hPU, hPA] at hpermT
      simp only [List.append_nil] at hpermT
      refine List.Perm.trans ?_ hpermT.symm
      rw [← List.append_assoc]
      exact List.perm_append_comm.trans (List.append_assoc _ _ _ ▸ List.Perm.refl _)
    have hnsnew : ∀ c ∈ simplify v true c0 ++ [newP (select .full rs)], synPartial v c = false := by
      intro c hc
      rcases List.mem_append.1 hc with hc | hc
      · exact noSyn_simplify v true c0 hc0.nd c hc
      · simp only [List.mem_singleton] at hc; subst hc
        exact synPartial_newP_full (hndsel _)
          (fun c hc => ⟨(hsel _ c hc).ok.mem_full, (hsel _ c hc).ok.noSyn_full⟩)
    refine ⟨fr_p_EX hXsub hp, vseg_p_EX hE hXseg, fun _ => ?_, rootSettled_flattenRet_EQ hlen2 hE,
      fun hrs _ => ?_⟩
    · exact hpartOf (hleafV .partialAligned c0 (by simp [hPA]) (by simp))
        (hleafN .partialAligned c0 (by simp [hPA]) (by simp))
    · have hEne : select .empty rs ≠ [] :=
        hEne_of hrs ⟨.partialAligned, c0, by simp [hPA], by simp⟩
      obtain ⟨Le, Lf, hL, hLe, hLf, h1, h2⟩ := hpure0
      have hmX : mem v (.q (simplify v true c0 ++ [newP (select .full rs)])) = true := by
        rw [mem_iff]
        obtain ⟨⟨s, hs, hv⟩, _⟩ := hc0.part (.inl rfl)
        exact ⟨s, by
          simp only [frontier_q]
          exact hnewperm.mem_iff.2 (List.mem_append.2 (.inl hs)), hv⟩
      have hsynX : synPartial v (.q (simplify v true c0 ++ [newP (select .full rs)])) = true := by
        simp only [synPartial, isPQ, children, Bool.true_and, Bool.and_eq_true, hmX, true_and,
          anyNotMem_eq_any, List.any_eq_true, Bool.not_eq_true']
        obtain ⟨e, he⟩ := List.exists_mem_of_ne_nil _ hLe
        exact ⟨e, List.mem_append.2 (.inl (by rw [hL]; exact List.mem_append.2 (.inl he))),
          vfree_iff.1 (h1 e he)⟩
      refine ⟨synPartial_p_EX hEm hmX hEne, ?_⟩
      rw [simplify_p_EX hEm hsynX hEne, simplify_q_noSyn hnsnew]
      refine ⟨[newP (select .empty rs)] ++ Le, Lf ++ [newP (select .full rs)], by rw [hL]; simp, by simp,
        by simp, ?_, ?_⟩
      · intro c hc
        rcases List.mem_append.1 hc with hc | hc
        · simp only [List.mem_singleton] at hc; subst hc
          exact vfree_newP (hndsel _) hEne hE
        · exact h1 c hc
      · intro c hc
        rcases List.mem_append.1 hc with hc | hc
        · exact h2 c hc
        · simp only [List.mem_singleton] at hc; subst hc
          exact hallF
  · -- two partial aligned children
    have hc0 := hsel .partialAligned c0 (by simp [hPA])
    have hc1 := hsel .partialAligned c1 (by simp [hPA])
    obtain ⟨hsyn0, hpure0⟩ := hc0.pa rfl
    obtain ⟨hsyn1, hpure1⟩ := hc1.pa rfl
    simp only [hPA, hPU, frontierList_cons, frontierList_nil, List.append_nil, List.count_nil,
      Nat.add_zero, List.count_append] at hcnt
    have hndr1 : (frontier (Tree.reverse c1)).Nodup := by
      rw [frontier_reverse]; exact (List.reverse_perm _).symm.nodup hc1.nd
    have hoF : frontierList (optP (select .full rs)) = frontierList (select .full rs) :=
      frontierList_optP (hndsel _)
    have hs1 := frontierList_simplify v false (simpOK_reverse (hc1.ok.simp rfl)) hndr1
    have hnewperm : (frontierList (simplify v true c0 ++ optP (select .full rs) ++
        simplify v false (Tree.reverse c1))).Perm
        (frontier c0 ++ frontierList (select .full rs) ++ frontier c1) := by
      simp only [frontierList_append, hoF]
      refine ((frontierList_simplify v true (hc0.ok.simp rfl) hc0.nd).append_right _).append (hs1.trans ?_)
      rw [frontier_reverse]; exact List.reverse_perm _
    have hndnew : (frontierList (simplify v true c0 ++ optP (select .full rs) ++
        simplify v false (Tree.reverse c1))).Nodup := by
      rw [List.nodup_iff_count]; intro a
      have h1 := hnewperm.count_eq a
      have h2 := hcnt a
      simp only [List.count_append] at h1
      omega
    have hlen2 : 2 ≤ (simplify v true c0 ++ optP (select .full rs) ++
        simplify v false (Tree.reverse c1)).length := by
      have := pure_length hpure0
      simp only [List.length_append]; omega
    rw [newQ_eq_q hlen2 hndnew] at hpartOf ⊢
    have hpureL : PureL v (simplify v false (Tree.reverse c1)) := by
      rw [simplify_reverse v (hc1.ok.simp rfl) hc1.nd]
      exact pure_reverseList hpure1
    have hallFp : AllV v (.p (select .full rs)) := by
      intro s hs
      simp only [frontier_p] at hs
      obtain ⟨c, hc, hsc⟩ := mem_frontierList.1 hs
      exact hF c hc s hsc
    have hkey : ∀ g, Seq (simplify v true c0 ++ optP (select .full rs) ++
        simplify v false (Tree.reverse c1)) g →
        Fr (.p ([c0] ++ select .full rs ++ [c1])) g ∧ VSeg v g := by
      intro g hg
      obtain ⟨g01, g1, rfl, hg01, hg1⟩ := (seq_append _ _ _).1 hg
      obtain ⟨g0, gF, rfl, hg0, hgF⟩ := (seq_append _ _ _).1 hg01
      have hgF' : Fr (.p (select .full rs)) gF := seq_optP (hndsel _) hgF
      have hg1' : Fr c1 g1 := fr_of_reverse c1 g1
        (seq_simplify v false (simpOK_reverse (hc1.ok.simp rfl)) hndr1 g1 hg1)
      refine ⟨fr_p_concat (fr_p_concat
          ((fr_p_singleton c0 g0).2 (seq_simplify v true (hc0.ok.simp rfl) hc0.nd g0 hg0)) hgF')
          ((fr_p_singleton c1 g1).2 hg1'), ?_⟩
      exact ((hpure0.suf hg0).append_allVL (hallFp.fr hgF')).append_pre (hpureL.pre hg1)
    have hXsub : ∀ g, Fr (.q (simplify v true c0 ++ optP (select .full rs) ++
        simplify v false (Tree.reverse c1))) g → Fr (.p ([c0] ++ select .full rs ++ [c1])) g := by
      intro g hg
      rcases (fr_q _ g).1 hg with hs | hs
      · exact (hkey g hs).1
      · simpa using fr_reverse _ _ (hkey _ hs).1
    have hXseg : ∀ g, Fr (.q (simplify v true c0 ++ optP (select .full rs) ++
        simplify v false (Tree.reverse c1))) g → VSeg v g := by
      intro g hg
      rcases (fr_q _ g).1 hg with hs | hs
      · exact (hkey g hs).2
      · exact (hkey _ hs).2.of_reverse
    have hp : (select .empty rs ++ ([c0] ++ select .full rs ++ [c1])).Perm (rs.map (·.1)) := by
      rw [hPU, hPA] at hpermT
      simp only [List.append_nil] at hpermT
      refine List.Perm.trans ?_ hpermT.symm
      have : (select .empty rs ++ [c0] ++ select .full rs).Perm (select .full rs ++ select .empty rs ++ [c0]) := by
        rw [List.append_assoc (select .full rs)]
        exact List.perm_append_comm
      have h2 := this.append_right [c1]
      simpa [List.append_assoc] using h2
    refine ⟨fr_p_EX hXsub hp, vseg_p_EX hE hXseg, fun _ => ?_, rootSettled_flattenRet_EQ hlen2 hE,
      by simp⟩
    exact hpartOf (hleafV .partialAligned c0 (by simp [hPA]) (by simp))
      (hleafN .partialAligned c0 (by simp [hPA]) (by simp))

end PrefVerif.PQTree
