import PrefVerif.Lemmas.C05CI
import PrefVerif.Lemmas.C05Extremal
/-!
# C05 helper lemmas, part 11: candidate extremal interval
-/
namespace PrefVerif.C05
open PrefVerif PrefVerif.Dichotomous PrefVerif.Spec PrefVerif.Spec.Approval

theorem ceiWitness_iff (alts : List Nat) (hn : alts.Nodup) (approved : List (List Nat)) (order : List Nat) :
    ceiWitness alts approved order = true ↔
      order.Perm alts ∧ ∀ s ∈ approved,
        (Interval (fun a => a ∈ s) order ∧ Interval (fun a => ¬ a ∈ s) order) := by
  simp only [ceiWitness, Bool.and_eq_true, isPermOf_iff order alts hn, List.all_eq_true, extremal_iff]

theorem cei_relabel (alts : List Nat) (approved : List (List Nat)) (idx : List Nat)
    (hp : idx.Perm (List.range alts.length)) :
    RowsOK (ciMatrix alts approved ++ complement (ciMatrix alts approved)) idx ↔
      ∀ s ∈ approved, (Interval (fun a => a ∈ s) (idx.map (fun i => alts.getD i 0)) ∧
        Interval (fun a => ¬ a ∈ s) (idx.map (fun i => alts.getD i 0))) := by
  rw [rowsOK_append, ci_relabel alts approved idx hp, rowsOK_complement_ciMatrix]
  have : (∀ s ∈ approved, Interval (fun c => ∃ h : c < alts.length, ¬ alts[c] ∈ s) idx) ↔
      ∀ s ∈ approved, Interval (fun a => ¬ a ∈ s) (idx.map (fun i => alts.getD i 0)) :=
    forall_congr' fun s => imp_congr_right fun _ =>
      (interval_relabel alts idx hp (fun a => ¬ a ∈ s)).symm
  rw [this]
  exact ⟨fun h s hs => ⟨h.1 s hs, h.2 s hs⟩, fun h => ⟨fun s hs => (h s hs).1, fun s hs => (h s hs).2⟩⟩

theorem candidateExtremalInterval_spec (solver : Solver) (hs : SolverOKI solver) (alts : List Nat)
    (hn : alts.Nodup) (approved : List (List Nat)) :
    (∀ order, isCandidateExtremalInterval solver alts approved = some order →
        ceiWitness alts approved order = true) ∧
    (isCandidateExtremalInterval solver alts approved = none →
        ¬ ∃ order, ceiWitness alts approved order = true) := by
  obtain ⟨h1, h2⟩ := solveC1_spec solver hs
    (ciMatrix alts approved ++ complement (ciMatrix alts approved)) alts.length
  constructor
  · intro order ho
    obtain ⟨idx, hidx, rfl⟩ := Option.map_eq_some_iff.1 ho
    obtain ⟨hp, hr⟩ := h1 idx hidx
    have hlen : idx.length = alts.length := by simpa using hp.length_eq
    rw [ceiWitness_iff alts hn, ← hlen, List.take_length]
    exact ⟨relabel_perm alts idx hp, (cei_relabel alts approved idx hp).1 hr⟩
  · intro hnone
    have hsol := Option.map_eq_none_iff.1 hnone
    rintro ⟨order, hw⟩
    rw [ceiWitness_iff alts hn] at hw
    obtain ⟨idx, hp, rfl⟩ := exists_relabel alts order hn hw.1
    exact h2 hsol ⟨idx, hp, (cei_relabel alts approved idx hp).2 hw.2⟩

end PrefVerif.C05
