import PrefVerif.Spec.Domains
/-!
# C05 helper lemmas, part 1: intervals of a list

`Interval p l`: no element failing `p` lies strictly between two elements satisfying `p` (index form);
`Seg p l`: `l = A ++ B ++ C` with `p` exactly on `B` (structural form).  They are equivalent; the
checker `contiguous` and the declarative `Contiguous` are instances.
-/
namespace PrefVerif.C05
open PrefVerif.Spec

def Interval {α : Type} (p : α → Prop) (l : List α) : Prop :=
  ∀ i j k : Nat, (hij : i < j) → (hjk : j < k) → (hk : k < l.length) → p l[i] → p l[k] → p l[j]

def Seg {α : Type} (p : α → Prop) (l : List α) : Prop :=
  ∃ A B C, l = A ++ B ++ C ∧ (∀ x ∈ A, ¬ p x) ∧ (∀ x ∈ B, p x) ∧ (∀ x ∈ C, ¬ p x)

/-- downward closed: everything before an element satisfying `p` satisfies `p` -/
def DownClosed {α : Type} (p : α → Prop) (l : List α) : Prop :=
  ∀ j k : Nat, (hjk : j < k) → (hk : k < l.length) → p l[k] → p l[j]

variable {α : Type} {p : α → Prop}

theorem Interval.tail {x : α} {l : List α} (h : Interval p (x :: l)) : Interval p l := by
  intro i j k hij hjk hk hi hk'
  have := h (i+1) (j+1) (k+1) (by omega) (by omega) (by simp; omega)
  simpa using this hi hk'

theorem Interval.downClosed {x : α} {l : List α} (h : Interval p (x :: l)) (hx : p x) : DownClosed p l := by
  intro j k hjk hk hk'
  have := h 0 (j+1) (k+1) (by omega) (by omega) (by simp; omega)
  simpa using this hx hk'

theorem DownClosed.tail {x : α} {l : List α} (h : DownClosed p (x :: l)) : DownClosed p l := by
  intro j k hjk hk hk'
  have := h (j+1) (k+1) (by omega) (by simp; omega)
  simpa using this hk'

theorem DownClosed.none_of_not {x : α} {l : List α} (h : DownClosed p (x :: l)) (hx : ¬ p x) :
    ∀ y ∈ l, ¬ p y := by
  intro y hy hpy
  obtain ⟨k, hk, rfl⟩ := List.getElem_of_mem hy
  have := h 0 (k+1) (by omega) (by simp; omega)
  exact hx (by simpa using this hpy)

theorem DownClosed.split {l : List α} (h : DownClosed p l) :
    ∃ B C, l = B ++ C ∧ (∀ x ∈ B, p x) ∧ (∀ x ∈ C, ¬ p x) := by
  induction l with
  | nil => exact ⟨[], [], rfl, by simp, by simp⟩
  | cons x l ih =>
    by_cases hx : p x
    · obtain ⟨B, C, rfl, hB, hC⟩ := ih h.tail
      exact ⟨x :: B, C, rfl, by simpa [hx] using hB, hC⟩
    · refine ⟨[], x :: l, rfl, by simp, ?_⟩
      intro y hy
      rcases List.mem_cons.1 hy with rfl | hy
      · exact hx
      · exact h.none_of_not hx y hy

theorem Interval.seg {l : List α} (h : Interval p l) : Seg p l := by
  induction l with
  | nil => exact ⟨[], [], [], rfl, by simp, by simp, by simp⟩
  | cons x l ih =>
    by_cases hx : p x
    · obtain ⟨B, C, rfl, hB, hC⟩ := (h.downClosed hx).split
      exact ⟨[], x :: B, C, rfl, by simp, by simpa [hx] using hB, hC⟩
    · obtain ⟨A, B, C, rfl, hA, hB, hC⟩ := ih h.tail
      exact ⟨x :: A, B, C, rfl, by simpa [hx] using hA, hB, hC⟩

theorem Seg.interval {l : List α} (h : Seg p l) : Interval p l := by
  obtain ⟨A, B, C, rfl, hA, hB, hC⟩ := h
  intro i j k hij hjk hk hi hk'
  have hlen : (A ++ B ++ C).length = A.length + B.length + C.length := by simp; omega
  have hiA : A.length ≤ i := by
    by_cases hlt : i < A.length
    · exact absurd hi (by
        rw [List.getElem_append_left (by simp; omega), List.getElem_append_left hlt]
        exact hA _ (List.getElem_mem _))
    · omega
  have hkB : k < A.length + B.length := by
    by_cases hlt : k < A.length + B.length
    · exact hlt
    · exact absurd hk' (by
        rw [List.getElem_append_right (by simp; omega)]
        exact hC _ (List.getElem_mem _))
  rw [List.getElem_append_left (by simp; omega), List.getElem_append_right (by omega)]
  exact hB _ (List.getElem_mem _)

theorem interval_iff_seg {l : List α} : Interval p l ↔ Seg p l := ⟨Interval.seg, Seg.interval⟩

theorem contiguous_def_iff (axis S : List Nat) : Contiguous axis S ↔ Interval (· ∈ S) axis := by
  unfold Contiguous Interval
  constructor
  · intro h i j k hij hjk hk hi hk'
    have := h i j k hij hjk hk
    rw [getElem!_pos axis i (by omega), getElem!_pos axis j (by omega), getElem!_pos axis k hk] at this
    exact this hi hk'
  · intro h i j k hij hjk hk hi hk'
    rw [getElem!_pos axis i (by omega)] at hi
    rw [getElem!_pos axis k hk] at hk'
    rw [getElem!_pos axis j (by omega)]
    exact h i j k hij hjk hk hi hk'

end PrefVerif.C05
