import PrefVerif.Py.AList
/-! AList (Python dict) lemmas used by C02. -/
namespace PrefVerif.C02
open PrefVerif.Py

variable {κ ν : Type} [BEq κ] [LawfulBEq κ]

theorem contains_iff_mem_keys (d : AList κ ν) (k : κ) : AList.contains d k = true ↔ k ∈ AList.keys d := by
  induction d with
  | nil => simp [AList.contains, AList.keys]
  | cons p d ih =>
    simp only [AList.contains, AList.keys] at ih ⊢
    simp only [List.any_cons, Bool.or_eq_true, beq_iff_eq, ih, List.map_cons, List.mem_cons]
    constructor
    · rintro (h | h)
      · exact Or.inl h.symm
      · exact Or.inr h
    · rintro (h | h)
      · exact Or.inl h.symm
      · exact Or.inr h

theorem get?_eq_none_of_not_mem (d : AList κ ν) (k : κ) (h : k ∉ AList.keys d) : AList.get? d k = none := by
  induction d with
  | nil => simp [AList.get?]
  | cons p d ih =>
    simp only [AList.keys, List.map_cons, List.mem_cons, not_or] at h
    simp only [AList.get?, AList.keys] at ih ⊢
    have : (p.1 == k) = false := beq_eq_false_iff_ne.mpr (Ne.symm h.1)
    simp [this, ih h.2]

omit [LawfulBEq κ] in
theorem get?_cons (p : κ × ν) (d : AList κ ν) (k : κ) :
    AList.get? (p :: d) k = if p.1 == k then some p.2 else AList.get? d k := by
  simp only [AList.get?, List.find?_cons]
  cases p.1 == k <;> simp

theorem get?_set_same (d : AList κ ν) (k : κ) (v : ν) : AList.get? (AList.set d k v) k = some v := by
  induction d with
  | nil => simp [AList.set, get?_cons]
  | cons p d ih =>
    obtain ⟨k', v'⟩ := p
    simp only [AList.set]
    split
    · next h => simp [get?_cons, h]
    · next h => simp [get?_cons, h, ih]

theorem get?_set_other (d : AList κ ν) (k k' : κ) (v : ν) (h : k' ≠ k) :
    AList.get? (AList.set d k v) k' = AList.get? d k' := by
  induction d with
  | nil =>
    have : (k == k') = false := beq_eq_false_iff_ne.mpr (Ne.symm h)
    simp [AList.set, this, AList.get?]
  | cons p d ih =>
    obtain ⟨k₀, v₀⟩ := p
    simp only [AList.set]
    split
    · next h₀ =>
      have : k₀ = k := by simpa using h₀
      subst this
      have : (k₀ == k') = false := beq_eq_false_iff_ne.mpr (Ne.symm h)
      simp [get?_cons, this]
    · next h₀ => simp [get?_cons, ih]

theorem keys_set_of_mem (d : AList κ ν) (k : κ) (v : ν) (h : k ∈ AList.keys d) :
    AList.keys (AList.set d k v) = AList.keys d := by
  induction d with
  | nil => simp [AList.keys] at h
  | cons p d ih =>
    obtain ⟨k₀, v₀⟩ := p
    simp only [AList.set]
    split
    · simp [AList.keys]
    · next h₀ =>
      have hne : k₀ ≠ k := by simpa using h₀
      have : k ∈ AList.keys d := by
        simp only [AList.keys, List.map_cons, List.mem_cons] at h ⊢
        rcases h with h | h
        · exact absurd h.symm hne
        · exact h
      simp only [AList.keys, List.map_cons] at ih ⊢
      rw [ih this]

theorem keys_set_of_not_mem (d : AList κ ν) (k : κ) (v : ν) (h : k ∉ AList.keys d) :
    AList.keys (AList.set d k v) = AList.keys d ++ [k] := by
  induction d with
  | nil => simp [AList.keys, AList.set]
  | cons p d ih =>
    obtain ⟨k₀, v₀⟩ := p
    simp only [AList.keys, List.map_cons, List.mem_cons, not_or] at h
    have hne : (k₀ == k) = false := beq_eq_false_iff_ne.mpr (Ne.symm h.1)
    simp only [AList.set, hne, AList.keys, List.map_cons] at ih ⊢
    simp [ih h.2]

omit [LawfulBEq κ] in
theorem mem_set (d : AList κ ν) (k : κ) (v : ν) (p : κ × ν) (h : p ∈ AList.set d k v) :
    p ∈ d ∨ p.2 = v := by
  induction d with
  | nil => simp [AList.set] at h; simp [h]
  | cons q d ih =>
    obtain ⟨k₀, v₀⟩ := q
    simp only [AList.set] at h
    split at h
    · simp only [List.mem_cons] at h ⊢
      rcases h with h | h
      · right; simp [h]
      · left; right; exact h
    · simp only [List.mem_cons] at h ⊢
      rcases h with h | h
      · left; left; exact h
      · rcases ih h with h' | h'
        · left; right; exact h'
        · right; exact h'

omit [BEq κ] [LawfulBEq κ] in
theorem length_keys (d : AList κ ν) : (AList.keys d).length = d.length := by simp [AList.keys]

/-- with distinct keys, the values are the `get?` of the keys -/
theorem values_eq_map_get? (d : AList κ ν) (dflt : ν) (h : (AList.keys d).Nodup) :
    AList.values d = (AList.keys d).map (fun k => (AList.get? d k).getD dflt) := by
  induction d with
  | nil => simp [AList.values, AList.keys]
  | cons p d ih =>
    simp only [AList.keys, List.map_cons, List.nodup_cons] at h
    simp only [AList.values, AList.keys, List.map_cons, List.map_map] at ih ⊢
    rw [ih h.2]
    simp only [get?_cons, BEq.rfl, if_true, Option.getD_some, List.cons.injEq, true_and]
    apply List.map_congr_left
    intro q hq
    have : (p.1 == q.1) = false := by
      simp only [beq_eq_false_iff_ne, ne_eq]
      intro he
      exact h.1 (he ▸ List.mem_map_of_mem hq)
    simp [this]

end PrefVerif.C02
