import PrefVerif.Lemmas.C13cStep
/-!
# C13 completeness, part 4 — the loops never answer False on a tree-single-peaked profile

`TreeSP orders C`: the profile restricted to the remaining alternatives `C` is single-peaked on
some tree on `C`.  It is preserved by every elimination step, whichever `b' ∈ B(a)` the algorithm
attaches `a` to; and while it holds, `B(a) ≠ ∅` for every `a` ranked last by some voter.  The
candidates `L` are computed once per `while` round, but an alternative ranked last among `C` by
some voter is still ranked last by that voter after other alternatives have been removed.
-/
namespace PrefVerif.C13c
open PrefVerif.C13 PrefVerif.SPTree

/-- the invariant of the completeness proof -/
def TreeSP (orders : List (List Nat)) (C : List Nat) : Prop := ∃ E, Good orders C E

theorem mem_bottoms_last {orders : List (List Nat)} {C : List Nat} {a : Nat}
    (h : a ∈ bottoms orders C) : ∃ o ∈ orders, (restrict o C).getLast? = some a := by
  unfold bottoms at h
  rw [List.mem_eraseDups, List.mem_filterMap] at h
  exact h

/-- (iv) the `for a in L_set` loop does not fail and keeps the invariant -/
theorem forLoop_complete {orders : List (List Nat)} (hO : ∀ o ∈ orders, o.Nodup)
    (hne : orders ≠ []) :
    ∀ (ls C : List Nat) (tree : List (Nat × Nat)), C.Nodup → (∀ o ∈ orders, ∀ x ∈ C, x ∈ o) →
      TreeSP orders C → ls.Nodup →
      (∀ a ∈ ls, ∃ o ∈ orders, (restrict o C).getLast? = some a) →
      ∃ C₁ tree₁, forLoop orders ls C tree = some (C₁, tree₁) ∧ (∀ x ∈ C₁, x ∈ C) ∧
        TreeSP orders C₁ := by
  intro ls
  induction ls with
  | nil =>
    intro C tree _ _ hT _ _
    exact ⟨C, tree, rfl, fun _ h => h, hT⟩
  | cons a ls ih =>
    intro C tree hC hCo hT hls hlast
    rw [forLoop]
    by_cases hlt : C.length < 3
    · rw [if_pos hlt]
      exact ⟨C, tree, rfl, fun _ h => h, hT⟩
    · rw [if_neg hlt]
      obtain ⟨E, hg⟩ := hT
      obtain ⟨o, ho, hla⟩ := hlast a (List.mem_cons_self ..)
      obtain ⟨haC, b, _, hba, hab, hcount⟩ := step_leaf hO hCo hC (by omega) hg ho hla
      have hb : b ∈ getB orders C a :=
        step_getB hO hCo hC hne (by omega) hg haC hba (leaf_of_count hcount hab)
      have hgood := step_good hC hg haC hab hcount
      have ⟨hals, hls'⟩ := List.nodup_cons.1 hls
      cases hB : getB orders C a with
      | nil => rw [hB] at hb; cases hb
      | cons b' bs =>
        simp only
        obtain ⟨C₁, tree₁, hfor, hsub, hT₁⟩ := ih (C.filter (· != a)) (tree ++ [(b', a)])
          (hC.sublist List.filter_sublist)
          (fun o ho x hx => hCo o ho x (List.mem_filter.1 hx).1) ⟨_, hgood⟩ hls'
          (by
            intro a' ha'
            obtain ⟨o', ho', hl'⟩ := hlast a' (List.mem_cons_of_mem _ ha')
            refine ⟨o', ho', ?_⟩
            rw [restrict_filter]
            exact getLast?_filter_ne _ hl' (fun h => hals (h ▸ ha')))
        exact ⟨C₁, tree₁, hfor, fun x hx => (List.mem_filter.1 (hsub x hx)).1, hT₁⟩

/-- (v) the `while` loop does not fail -/
theorem whileLoop_complete {orders : List (List Nat)} (hO : ∀ o ∈ orders, o.Nodup)
    (hne : orders ≠ []) :
    ∀ (fuel : Nat) (C : List Nat) (tree : List (Nat × Nat)), C.Nodup →
      (∀ o ∈ orders, ∀ x ∈ C, x ∈ o) → 2 ≤ C.length → TreeSP orders C →
      (whileLoop orders fuel C tree).isSome = true := by
  intro fuel
  induction fuel with
  | zero => intro C tree _ _ _ _; rfl
  | succ fuel ih =>
    intro C tree hC hCo h2 hT
    rw [whileLoop]
    by_cases hlt : C.length < 3
    · rw [if_pos hlt]; rfl
    · rw [if_neg hlt]
      obtain ⟨C₁, tree₁, hfor, hsub, hT₁⟩ := forLoop_complete hO hne (bottoms orders C) C tree hC
        hCo hT (bottoms_nodup orders C) (fun a ha => mem_bottoms_last ha)
      obtain ⟨⟨_, _, hnd, h22, _, _, _⟩, _⟩ := forLoop_spec hO (bottoms orders C) C tree C₁ tree₁
        hC (bottoms_nodup orders C) (fun x hx => mem_bottoms hx) h2 hfor
      simp only [hfor]
      exact ih C₁ tree₁ hnd (fun o ho x hx => hCo o ho x (hsub x hx)) h22 hT₁

/-- the model answers True whenever the profile is single-peaked on some tree -/
theorem isSPOnTree_isSome_of_treeSP {alts : List Nat} {orders : List (List Nat)}
    (hA : alts.Nodup) (hO : ∀ o ∈ orders, o.Nodup) (hmem : ∀ o ∈ orders, ∀ x ∈ alts, x ∈ o)
    (hne : orders ≠ []) (h2 : 2 ≤ alts.length) (hT : TreeSP orders alts) :
    (isSPOnTree alts orders).isSome = true := by
  have hw := whileLoop_complete hO hne alts.length alts [] hA hmem h2 hT
  obtain ⟨⟨C, tree⟩, hw⟩ := Option.isSome_iff_exists.1 hw
  unfold isSPOnTree
  rw [hw]
  simp only
  split <;> rfl

end PrefVerif.C13c
