import PrefVerif.Lemmas.C05PQSegRec
import PrefVerif.Lemmas.C05PQSound
/-!
Completeness of `set_contiguous`, part 1: an ordering of a node in which the sets with `v` form an
interval, cut into the blocks of the children; the shape of the sequence of blocks (children without `v`,
then at most one block aligned to the right, blocks full of `v`, at most one block aligned to the left,
children without `v`).
-/
set_option linter.unusedSimpArgs false
namespace PrefVerif.PQTree
open Tree

/-- what both passes guarantee about a child `a` and its final state `r`, completeness side -/
structure PairC (v : Nat) (a : Tree) (r : Tree × Flag) : Prop where
  keep : ∀ g, Fr a g → VSeg v g → Fr r.1 g
  pu : r.2 = .partialUnaligned → ∀ g, Fr a g → VSeg v g → ¬ Suf v g ∧ ¬ Pre v g
  pa : r.2 = .partialAligned → ∀ g, Fr a g → Suf v g → Seq (simplify v true r.1) g

/-- a child in its final state with its flag, and the block of the ordering that belongs to it -/
abbrev Blk := (Tree × Flag) × List (List Nat)

def Blk.flag (b : Blk) : Flag := b.1.2
def Blk.tree (b : Blk) : Tree := b.1.1

structure GoodBlk (v : Nat) (b : Blk) : Prop where
  child : ChildS v b.1.1 b.1.2
  fr : Fr b.1.1 b.2
  seg : VSeg v b.2
  pu : b.1.2 = .partialUnaligned → ¬ Suf v b.2 ∧ ¬ Pre v b.2
  pa : b.1.2 = .partialAligned → Suf v b.2 → Seq (simplify v true b.1.1) b.2
  pa' : b.1.2 = .partialAligned → Pre v b.2 → Seq (simplify v false (Tree.reverse b.1.1)) b.2
  paR : b.1.2 = .partialAligned → Pre v b.2 → Seq (simplify v true b.1.1) b.2.reverse

theorem reverse_reverse (t : Tree) : Tree.reverse (Tree.reverse t) = t := by
  induction t using Tree.ind with
  | hleaf s => simp [Tree.reverse]
  | hp cs ih =>
    simp only [Tree.reverse, reverseList_eq, List.map_reverse, List.reverse_reverse, List.map_map, Tree.p.injEq]
    rw [List.map_congr_left (g := id) (fun c hc => by simpa using ih c hc)]
    simp
  | hq cs ih =>
    simp only [Tree.reverse, reverseList_eq, List.map_reverse, List.reverse_reverse, List.map_map, Tree.q.injEq]
    rw [List.map_congr_left (g := id) (fun c hc => by simpa using ih c hc)]
    simp

theorem fr_reverse_tree {t : Tree} {g : List (List Nat)} (h : Fr t g) : Fr (Tree.reverse t) g := by
  apply fr_of_reverse (Tree.reverse t)
  rw [reverse_reverse]; exact h

/-- orderings of the mirrored list of trees -/
theorem seq_reverseList {L : List Tree} {g : List (List Nat)} (h : Seq L g) : Seq (reverseList L) g.reverse := by
  rw [reverseList_eq]
  have := seq_reverse h
  obtain ⟨fs, hf, hfe⟩ := this
  refine ⟨fs, ?_, hfe⟩
  rw [← List.map_reverse]
  exact Forall2.map_left.2 (hf.mono (fun c _ g hg => fr_reverse_tree hg))

theorem GoodBlk.of_pair {v : Nat} {a : Tree} {r : Tree × Flag} {g : List (List Nat)} (hp : Pair v a r)
    (hc : PairC v a r) (hg : Fr a g) (hv : VSeg v g) : GoodBlk v (r, g) := by
  refine ⟨hp.child, hc.keep g hg hv, hv, fun h => hc.pu h g hg hv, fun h hs => hc.pa h g hg hs, ?_,
    fun h hpre => hc.pa h g.reverse (fr_reverse a g hg) hpre.reverse⟩
  intro h hpre
  have h1 := hc.pa h g.reverse (fr_reverse a g hg) hpre.reverse
  have h2 := seq_reverseList h1
  rw [List.reverse_reverse] at h2
  rw [simplify_reverse v (hp.child.ok.simp h) hp.child.nd]
  exact h2

theorem GoodBlk.perm {v : Nat} {b : Blk} (h : GoodBlk v b) : b.2.Perm (frontier b.1.1) := fr_perm _ _ h.fr

theorem GoodBlk.ne_nil {v : Nat} {b : Blk} (h : GoodBlk v b) : b.2 ≠ [] := by
  intro hn
  have := h.perm
  rw [hn] at this
  exact frontier_ne_nil h.child.ok.wf (List.Perm.nil_eq this).symm

theorem GoodBlk.noV {v : Nat} {b : Blk} (h : GoodBlk v b) (hf : b.1.2 = .empty) : NoV v b.2 := by
  intro s hs
  have hc := h.child
  rw [hf] at hc
  exact hc.vfree s (h.perm.mem_iff.1 hs)

theorem GoodBlk.allVL {v : Nat} {b : Blk} (h : GoodBlk v b) (hf : b.1.2 = .full) : AllVL v b.2 := by
  intro s hs
  have hc := h.child
  rw [hf] at hc
  exact hc.allV s (h.perm.mem_iff.1 hs)

theorem GoodBlk.hasV {v : Nat} {b : Blk} (h : GoodBlk v b) (hf : b.1.2 ≠ .empty) : HasV v b.2 := by
  obtain ⟨⟨t, f⟩, g⟩ := b
  have hc := h.child
  have hp := h.perm
  simp only at hc hp hf
  cases f
  · obtain ⟨s, hs⟩ := List.exists_mem_of_ne_nil _ (frontier_ne_nil hc.ok.wf)
    exact ⟨s, hp.mem_iff.2 hs, hc.allV s hs⟩
  · exact absurd rfl hf
  · obtain ⟨⟨s, hs, hv⟩, _⟩ := hc.part (.inl rfl)
    exact ⟨s, hp.mem_iff.2 hs, hv⟩
  · obtain ⟨⟨s, hs, hv⟩, _⟩ := hc.part (.inr rfl)
    exact ⟨s, hp.mem_iff.2 hs, hv⟩

theorem GoodBlk.hasN {v : Nat} {b : Blk} (h : GoodBlk v b) (hf : b.1.2 ≠ .full) : HasN v b.2 := by
  obtain ⟨⟨t, f⟩, g⟩ := b
  have hc := h.child
  have hp := h.perm
  simp only at hc hp hf
  cases f
  · exact absurd rfl hf
  · obtain ⟨s, hs⟩ := List.exists_mem_of_ne_nil _ (frontier_ne_nil hc.ok.wf)
    exact ⟨s, hp.mem_iff.2 hs, hc.vfree s hs⟩
  · obtain ⟨_, ⟨s, hs, hv⟩⟩ := hc.part (.inl rfl)
    exact ⟨s, hp.mem_iff.2 hs, hv⟩
  · obtain ⟨_, ⟨s, hs, hv⟩⟩ := hc.part (.inr rfl)
    exact ⟨s, hp.mem_iff.2 hs, hv⟩

/-- a block full of `v` belongs to a `FULL` child -/
theorem GoodBlk.flag_full {v : Nat} {b : Blk} (h : GoodBlk v b) (ha : AllVL v b.2) : b.1.2 = .full := by
  apply Classical.byContradiction
  intro hf
  exact ha.not_hasN (h.hasN hf)

theorem GoodBlk.flag_empty {v : Nat} {b : Blk} (h : GoodBlk v b) (ha : NoV v b.2) : b.1.2 = .empty := by
  apply Classical.byContradiction
  intro hf
  exact ha.not_hasV (h.hasV hf)

/-- the blocks of an ordering of the children in the given order -/
theorem blocks_of_seq {v : Nat} {cs : List Tree} {rs : List (Tree × Flag)}
    (hpairs : Forall2 (fun a r => Pair v a r ∧ PairC v a r) cs rs) {g : List (List Nat)} (hg : Seq cs g)
    (hv : VSeg v g) :
    ∃ bl : List Blk, bl.map (·.1) = rs ∧ g = (bl.map (·.2)).flatten ∧ ∀ b ∈ bl, GoodBlk v b := by
  induction hpairs generalizing g with
  | nil =>
    rw [(seq_nil g).1 hg]
    exact ⟨[], rfl, rfl, by simp⟩
  | @cons a r as rs' hab _ ih =>
    obtain ⟨g1, g2, rfl, h1, h2⟩ := (seq_cons _ _ _).1 hg
    obtain ⟨bl, hbl1, hbl2, hbl3⟩ := ih h2 hv.right
    refine ⟨(r, g1) :: bl, by simp [hbl1], by simp [hbl2], ?_⟩
    intro b hb
    rcases List.mem_cons.1 hb with rfl | hb
    · exact GoodBlk.of_pair hab.1 hab.2 h1 hv.left
    · exact hbl3 b hb

/-- the blocks of an ordering of a `P` node: the children in some order -/
theorem blocks_of_p {v : Nat} {cs : List Tree} {rs : List (Tree × Flag)}
    (hpairs : Forall2 (fun a r => Pair v a r ∧ PairC v a r) cs rs) {g : List (List Nat)} (hg : Fr (.p cs) g)
    (hv : VSeg v g) :
    ∃ bl : List Blk, (bl.map (·.1)).Perm rs ∧ g = (bl.map (·.2)).flatten ∧ ∀ b ∈ bl, GoodBlk v b := by
  obtain ⟨cs', hp, hs⟩ := (fr_p_iff cs g).1 hg
  obtain ⟨rs', hrs', hf⟩ := hpairs.perm_left hp
  obtain ⟨bl, h1, h2, h3⟩ := blocks_of_seq hf hs hv
  exact ⟨bl, h1 ▸ hrs', h2, h3⟩

/-! ### the shape of a sequence of blocks -/

theorem strip_left {α : Type} (P : α → Prop) (l : List α) :
    ∃ A R, l = A ++ R ∧ (∀ a ∈ A, P a) ∧ (R = [] ∨ ∃ x R', R = x :: R' ∧ ¬ P x) := by
  induction l with
  | nil => exact ⟨[], [], rfl, by simp, .inl rfl⟩
  | cons a l ih =>
    by_cases ha : P a
    · obtain ⟨A, R, rfl, hA, hR⟩ := ih
      refine ⟨a :: A, R, rfl, ?_, hR⟩
      intro x hx
      rcases List.mem_cons.1 hx with rfl | hx
      · exact ha
      · exact hA x hx
    · exact ⟨[], a :: l, rfl, by simp, .inr ⟨a, l, rfl, ha⟩⟩

theorem strip_right {α : Type} (P : α → Prop) (l : List α) :
    ∃ R C, l = R ++ C ∧ (∀ c ∈ C, P c) ∧ (R = [] ∨ ∃ R' y, R = R' ++ [y] ∧ ¬ P y) := by
  obtain ⟨A, R, h, hA, hR⟩ := strip_left P l.reverse
  refine ⟨R.reverse, A.reverse, ?_, fun c hc => hA c (List.mem_reverse.1 hc), ?_⟩
  · have := congrArg List.reverse h
    simpa using this
  · rcases hR with rfl | ⟨x, R', rfl, hx⟩
    · exact .inl rfl
    · exact .inr ⟨R'.reverse, x, by simp, hx⟩

/-- the middle part: nothing, one child with `v`, or a right-aligned block, full blocks, a left-aligned block -/
def MidShape (v : Nat) (M : List Blk) : Prop :=
  M = [] ∨ (∃ x, M = [x] ∧ x.1.2 ≠ .empty) ∨
  (∃ x Mid y, M = x :: Mid ++ [y] ∧ x.1.2 ≠ .empty ∧ y.1.2 ≠ .empty ∧ (∀ b ∈ Mid, b.1.2 = .full) ∧
    Suf v x.2 ∧ Pre v y.2)

theorem flatten_map_snd_append (a b : List Blk) :
    ((a ++ b).map (·.2)).flatten = (a.map (·.2)).flatten ++ (b.map (·.2)).flatten := by simp

theorem allVL_block_of_flatten {v : Nat} {Mid : List Blk} (h : AllVL v (Mid.map (·.2)).flatten) :
    ∀ b ∈ Mid, AllVL v b.2 := by
  intro b hb s hs
  exact h s (List.mem_flatten.2 ⟨b.2, List.mem_map.2 ⟨b, hb, rfl⟩, hs⟩)

theorem noV_flatten_of {v : Nat} {A : List Blk} (hg : ∀ b ∈ A, GoodBlk v b) (h : ∀ b ∈ A, b.1.2 = .empty) :
    NoV v (A.map (·.2)).flatten := by
  intro s hs
  obtain ⟨g, hg', hsg⟩ := List.mem_flatten.1 hs
  obtain ⟨b, hb, rfl⟩ := List.mem_map.1 hg'
  exact (hg b hb).noV (h b hb) s hsg

theorem allVL_flatten_of {v : Nat} {A : List Blk} (hg : ∀ b ∈ A, GoodBlk v b) (h : ∀ b ∈ A, b.1.2 = .full) :
    AllVL v (A.map (·.2)).flatten := by
  intro s hs
  obtain ⟨g, hg', hsg⟩ := List.mem_flatten.1 hs
  obtain ⟨b, hb, rfl⟩ := List.mem_map.1 hg'
  exact (hg b hb).allVL (h b hb) s hsg

/-- **the shape of the blocks of an ordering with the sets containing `v` on an interval** -/
theorem blocks_shape {v : Nat} {bl : List Blk} (hgood : ∀ b ∈ bl, GoodBlk v b)
    (hv : VSeg v (bl.map (·.2)).flatten) :
    ∃ A M C, bl = A ++ M ++ C ∧ (∀ b ∈ A, b.1.2 = .empty) ∧ (∀ b ∈ C, b.1.2 = .empty) ∧ MidShape v M := by
  obtain ⟨A, R, rfl, hA, hR⟩ := strip_left (fun b : Blk => b.1.2 = .empty) bl
  obtain ⟨M, C, rfl, hC, hM⟩ := strip_right (fun b : Blk => b.1.2 = .empty) R
  refine ⟨A, M, C, by simp, hA, hC, ?_⟩
  rcases hM with rfl | ⟨M', y, rfl, hy⟩
  · exact .inl rfl
  · rcases hR with hnil | ⟨x, R', hxR, hx⟩
    · simp at hnil
    · -- M' ++ [y] ++ C = x :: R'
      cases M' with
      | nil =>
        exact .inr (.inl ⟨y, rfl, hy⟩)
      | cons x' Mid =>
        have hxx : x' = x := by
          simp only [List.cons_append, List.cons.injEq] at hxR
          exact hxR.1
        subst hxx
        refine .inr (.inr ⟨x', Mid, y, by simp, hx, hy, ?_⟩)
        have hgx : GoodBlk v x' := hgood x' (by simp)
        have hgy : GoodBlk v y := hgood y (by simp)
        -- the sets with `v` form an interval on the middle part
        have hvM : VSeg v (x'.2 ++ ((Mid.map (·.2)).flatten ++ y.2)) := by
          have h1 := VSeg.right (x := (A.map (·.2)).flatten)
            (y := ((x' :: Mid ++ [y] ++ C).map (·.2)).flatten) (by simpa using hv)
          have h2 := VSeg.left (x := ((x' :: Mid ++ [y]).map (·.2)).flatten) (y := (C.map (·.2)).flatten)
            (by simpa using h1)
          simpa using h2
        obtain ⟨h3, h4⟩ := vseg_append_hasV hvM (hgx.hasV hx) (hasV_append.2 (.inr (hgy.hasV hy)))
        obtain ⟨h5, h6⟩ := pre_append_hasV h4 (hgy.hasV hy)
        refine ⟨?_, h3, h6⟩
        intro b hb
        exact (hgood b (by simp [hb])).flag_full (allVL_block_of_flatten h5 b hb)

end PrefVerif.PQTree
