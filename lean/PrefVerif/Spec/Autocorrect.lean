import PrefVerif.Py.Str
/-! Specification of the autocorrect normal form (C16), on the raw lines of the content. -/
namespace PrefVerif.Spec.Autocorrect
open PrefVerif.Py

/-- names after correction are pairwise distinct -/
def distinct (final : List Str) : Bool := decide final.Nodup

/-- first occurrences are left unchanged: a raw name that did not occur earlier (as a raw name)
keeps its spelling -/
def firstOccurrencesKept : List Str → List Str → List Str → Bool
  | _, [], [] => true
  | seen, r :: raw, f :: final =>
    (seen.contains r || f == r) && firstOccurrencesKept (seen ++ [r]) raw final
  | _, _, _ => false

/-- the known D18 pattern: a raw name equals a name *generated* earlier for a duplicate
(`A, A, A__1`: the second `A` became `A__1`, so the raw `A__1` is renamed) -/
def clashesWithGenerated : List Str → List Str → List Str → Bool
  | _, [], _ => false
  | _, _, [] => false
  | genSoFar, r :: raw, f :: final =>
    genSoFar.contains r || clashesWithGenerated (if f != r then genSoFar ++ [f] else genSoFar) raw final

/-- multiset of ballot lines → expected table: each distinct ballot once, multiplicity = sum -/
def merged {β : Type} [BEq β] (lines : List (Nat × β)) : List (β × Nat) :=
  lines.foldl (fun acc mb =>
    if acc.any (fun e => e.1 == mb.2) then acc.map (fun e => if e.1 == mb.2 then (e.1, e.2 + mb.1) else e)
    else acc ++ [(mb.2, mb.1)]) []

end PrefVerif.Spec.Autocorrect
