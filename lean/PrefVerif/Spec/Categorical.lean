import PrefVerif.Model.Categorical
/-! Specification for C17: what a categorical ballot derived from an order must look like. -/
namespace PrefVerif.Spec
open PrefVerif.Categorical

/-- `b` is obtained from the order `o` by merging consecutive whole indifference classes: there is
a grouping of the class list (groups may be empty = empty category) whose concatenations are the
categories.  Hence the categories partition exactly the ranked alternatives, in rank order, and
no class is split. -/
def Coarsening (o : List (List Nat)) (b : Ballot) : Prop :=
  ∃ groups : List (List (List Nat)), groups.flatten = o ∧ b = groups.map List.flatten

/-- strip from the class list a prefix of whole classes whose concatenation is exactly `cat` -/
def stripCat : List (List Nat) → List Nat → Option (List (List Nat))
  | [], cat => if cat.isEmpty then some [] else none
  | c :: rest, cat =>
    if cat.isEmpty then some (c :: rest)
    else if c.isPrefixOf cat then stripCat rest (cat.drop c.length) else none

/-- executable checker for `Coarsening` (orders with non-empty classes) -/
def isCoarsening : List (List Nat) → Ballot → Bool
  | o, [] => o.isEmpty
  | o, cat :: b =>
    match stripCat o cat with
    | none => false
    | some rest => isCoarsening rest b

/-- documented rule for absolute truncators, on the grouping: category `i` takes classes until it
holds at least `tps[i]` alternatives (no more classes than needed, fewer only if the order runs
out, in which case it is the last category); classes left over after the last truncator form one
additional category -/
def sizeRuleGroups : List Nat → List (List (List Nat)) → Bool
  | _, [] => true
  | [], [_] => true
  | [], _ :: _ :: _ => false
  | tp :: tps, g :: gs =>
    (decide (g.dropLast.flatten.length < tp) || g.isEmpty)
      && (decide (tp ≤ g.flatten.length) || gs.isEmpty)
      && sizeRuleGroups tps gs

/-- rule for `num_indif_classes`: category `i` is the union of the next `nums[i]` classes (fewer if
the order runs out); leftovers form one additional category -/
def countRuleGroups : List Nat → List (List (List Nat)) → Bool
  | [], [] => true
  | [], [_] => true
  | [], _ :: _ :: _ => false
  | _ :: _, [] => false
  | n :: ns, g :: gs =>
    decide (g.length ≤ n) && (decide (g.length = n) || gs.all List.isEmpty) && countRuleGroups ns gs

end PrefVerif.Spec
