import PrefVerif.Model.Basic
/-!
1-Euclidean preferences (C19): the embedding checker over exact rationals.
-/
namespace PrefVerif.Spec.Euclid

def dist (x y : Rat) : Rat := if x ≤ y then y - x else x - y

/-- strictly increasing distances from `x` along the ranking -/
def ranksByDistance (x : Rat) (pos : Nat → Option Rat) : List Nat → Bool
  | a :: b :: rest =>
    (match pos a, pos b with
      | some ya, some yb => decide (dist x ya < dist x yb)
      | _, _ => false) && ranksByDistance x pos (b :: rest)
  | [a] => (pos a).isSome
  | [] => true

/-- the positions realise every voter's ranking: voter `i` (with ranking `orders[i]`) sits at
`voters[i]`, every alternative has a position, and each voter ranks by strictly increasing distance -/
def realises (orders : List (List Nat)) (voters : List Rat) (alts : List (Nat × Rat)) : Bool :=
  voters.length == orders.length &&
  (orders.zip voters).all (fun ov => ranksByDistance ov.2 (fun a => alts.lookup a) ov.1)

end PrefVerif.Spec.Euclid
