import PrefVerif.Py.Str
/-!
An *independent reader* of the documented PrefLib file format (https://www.preflib.org/format),
written from the format description and not from the library's parser: no regular expression,
no shared helper with the models.  It reads the text a writer produced:

* lines are separated by `\n`;
* a header line is `# KEY: value` — key and value are separated by the first `": "` (or a
  trailing `":"` when the value is empty);
* a ballot line is `multiplicity: item, item, …` where an item is a number or a brace group
  `{n, n, …}` (possibly empty, for categorical data); items are tokenised with a brace-depth
  counter;
* an edge line of a matching file is `node, node, weight`.
-/
namespace PrefVerif.Spec.Format
open PrefVerif.Py

structure Content where
  fields : List (Str × Str)            -- header `KEY ↦ value`, in file order, numbered names excluded
  altNames : List (Nat × Str)
  catNames : List (Nat × Str)
  ballots : List (Nat × List (List Nat))   -- (multiplicity, classes / categories), in file order
  edges : List (Nat × Nat × Str)           -- (from, to, weight text), in file order
  deriving Repr, BEq, DecidableEq

def splitLines (t : Str) : List Str :=
  (splitOn '\n' t).filter (fun l => !l.isEmpty)

/-- split `# KEY: value` at the first colon -/
def keyValue (line : Str) : Str × Str :=
  let body := line.drop 2
  let key := body.takeWhile (fun c => c != ':')
  let rest := (body.dropWhile (fun c => c != ':')).drop 1
  (key, match rest with | ' ' :: v => v | v => v)

def digitsToNat? (ds : Str) : Option Nat :=
  if ds.isEmpty || !(ds.all Char.isDigit) then none else some (ds.foldl (fun n c => 10 * n + (c.toNat - 48)) 0)

/-- `PREFIX n` ↦ `n` for the numbered keys (`ALTERNATIVE NAME 3`) -/
def numberedKey (pfx : String) (key : Str) : Option Nat :=
  if pfx.toList.isPrefixOf key then digitsToNat? (key.drop pfx.length) else none

/-- tokenise the items of a ballot with a brace-depth counter.
State: finished items (reversed), current group (reversed) if inside braces, current digits. -/
def itemsGo : Str → List (List Nat) → Option (List Nat) → Str → Option (List (List Nat))
  | [], done, none, ds =>
    (if ds.isEmpty then some done else (digitsToNat? ds.reverse).map (fun n => [n] :: done)).map List.reverse
  | [], _, some _, _ => none                                  -- unclosed brace
  | c :: cs, done, grp, ds =>
    if c == ' ' then itemsGo cs done grp ds
    else if c.isDigit then itemsGo cs done grp (c :: ds)
    else if c == ',' then
      match grp with
      | none =>
        if ds.isEmpty then itemsGo cs done none []
        else (digitsToNat? ds.reverse).bind (fun n => itemsGo cs ([n] :: done) none [])
      | some g =>
        if ds.isEmpty then itemsGo cs done (some g) []
        else (digitsToNat? ds.reverse).bind (fun n => itemsGo cs done (some (n :: g)) [])
    else if c == '{' then
      match grp with
      | none => if ds.isEmpty then itemsGo cs done (some []) [] else none
      | some _ => none                                         -- nested brace
    else if c == '}' then
      match grp with
      | none => none
      | some g =>
        if ds.isEmpty then itemsGo cs (g.reverse :: done) none []
        else (digitsToNat? ds.reverse).bind (fun n => itemsGo cs ((n :: g).reverse :: done) none [])
    else none

def items (t : Str) : Option (List (List Nat)) := itemsGo t [] none []

def ballotLine (line : Str) : Option (Nat × List (List Nat)) :=
  let m := line.takeWhile (fun c => c != ':')
  let rest := (line.dropWhile (fun c => c != ':')).drop 1
  match digitsToNat? m, items rest with
  | some n, some it => some (n, it)
  | _, _ => none

def edgeLine (line : Str) : Option (Nat × Nat × Str) :=
  match (splitOn ',' line).map (fun p => p.filter (fun c => c != ' ')) with
  | [a, b, w] =>
    match digitsToNat? a, digitsToNat? b with
    | some a, some b => some (a, b, w)
    | _, _ => none
  | _ => none

/-- read a whole file; `edgesMode` selects the body grammar (matching files) -/
def read (edgesMode : Bool) (text : Str) : Option Content :=
  let lines := splitLines text
  let hdr := lines.takeWhile (fun l => ['#'].isPrefixOf l)
  let body := lines.dropWhile (fun l => ['#'].isPrefixOf l)
  let kvs := hdr.map keyValue
  let alt := kvs.filterMap (fun kv => (numberedKey "ALTERNATIVE NAME " kv.1).map (fun n => (n, kv.2)))
  let cat := kvs.filterMap (fun kv => (numberedKey "CATEGORY NAME " kv.1).map (fun n => (n, kv.2)))
  let fields := kvs.filter (fun kv => (numberedKey "ALTERNATIVE NAME " kv.1).isNone
                                    && (numberedKey "CATEGORY NAME " kv.1).isNone)
  if edgesMode then
    (body.mapM edgeLine).map (fun es => { fields := fields, altNames := alt, catNames := cat, ballots := [], edges := es })
  else
    (body.mapM ballotLine).map (fun bs => { fields := fields, altNames := alt, catNames := cat, ballots := bs, edges := [] })

/-- ballots listed by non-increasing multiplicity -/
def nonIncreasing : List Nat → Bool
  | a :: b :: rest => decide (a ≥ b) && nonIncreasing (b :: rest)
  | _ => true

end PrefVerif.Spec.Format
