/-! Declarative specification used by C20 (and C04): pairs ordered differently. -/
namespace PrefVerif.Spec

/-- `x` is ranked before `y` in `o` (both present). -/
def before (o : List Nat) (x y : Nat) : Bool := decide (o.idxOf x < o.idxOf y)

def pairs (u : List Nat) : List (Nat × Nat) := u.flatMap (fun x => u.map (fun y => (x, y)))

/-- number of ordered pairs `(x,y)` of the universe `u` with `x` before `y` in `a` and `y` before
`x` in `b`: each unordered pair on which the rankings disagree is counted exactly once. -/
def dis (a b u : List Nat) : Nat :=
  (pairs u).countP (fun p => before a p.1 p.2 && before b p.2 p.1)

/-- `b` is a ranking of the same alternatives as the duplicate-free ranking `a`. -/
def SameRanking (a b : List Nat) : Prop := a.Nodup ∧ b.Nodup ∧ ∀ x, x ∈ a ↔ x ∈ b

instance (a b : List Nat) : Decidable (SameRanking a b) := by
  unfold SameRanking
  have : Decidable (∀ x, x ∈ a ↔ x ∈ b) :=
    decidable_of_iff ((∀ x ∈ a, x ∈ b) ∧ (∀ x ∈ b, x ∈ a))
      ⟨fun h x => ⟨h.1 x, h.2 x⟩, fun h => ⟨fun x hx => (h x).1 hx, fun x hx => (h x).2 hx⟩⟩
  infer_instance

end PrefVerif.Spec
