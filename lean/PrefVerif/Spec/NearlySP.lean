import PrefVerif.Spec.Domains
/-!
Nearly single-peaked profiles (C12, C18): certificates and brute-force optima.
Orders may be weak (lists of classes); restricting an order to a set of alternatives drops the
other alternatives and then the empty classes.
-/
namespace PrefVerif.Spec.Nearly
open PrefVerif.Spec

def restrictOrder (keep : List Nat) (o : Order) : Order :=
  (o.map (fun c => c.filter (fun a => keep.contains a))).filter (fun c => !c.isEmpty)

/-- the profile restricted to `keep` is single-peaked on `axis`, and `axis` lists exactly `keep` -/
def spOnSubset (orders : List Order) (keep axis : List Nat) : Bool :=
  isPermOf axis keep && spOnAxis (orders.map (restrictOrder keep)) axis

/-- all sublists (subsets) -/
def sublists {α : Type} : List α → List (List α)
  | [] => [[]]
  | x :: xs => let r := sublists xs; r ++ r.map (x :: ·)

/-- certificate of an alternative-deletion answer: the deleted alternatives are distinct members of
`alts`, and the axis restricted to the remaining ones makes the restricted profile single-peaked -/
def altDeletionCert (alts : List Nat) (orders : List Order) (axis deleted : List Nat) : Bool :=
  decide deleted.Nodup && deleted.all (fun a => alts.contains a) &&
  (let keep := alts.filter (fun a => !deleted.contains a)
   spOnSubset orders keep (axis.filter (fun a => keep.contains a)))

/-- certificate of a voter-deletion answer: `deleted` are distinct indices of orders; the remaining
orders are single-peaked on `axis`, a permutation of the alternatives -/
def voterDeletionCert (alts : List Nat) (orders : List Order) (axis : List Nat) (deleted : List Nat) : Bool :=
  decide deleted.Nodup && deleted.all (fun i => decide (i < orders.length)) && isPermOf axis alts &&
  spOnAxis ((orders.zipIdx.filter (fun oi => !deleted.contains oi.2)).map (·.1)) axis

/-- minimum number of alternatives whose removal makes the profile single-peaked -/
def minAltDeletion (alts : List Nat) (orders : List Order) : Nat :=
  let ok := (sublists alts).filter (fun keep => bruteSP keep (orders.map (restrictOrder keep)))
  alts.length - (ok.map List.length).foldl max 0

/-- minimum number of (distinct) orders whose removal makes the profile single-peaked -/
def minVoterDeletion (alts : List Nat) (orders : List Order) : Nat :=
  let ok := (sublists orders).filter (fun keep => bruteSP alts keep)
  orders.length - (ok.map List.length).foldl max 0

/-- `axes` partition the alternatives and the profile restricted to each is single-peaked on it -/
def partitionCert (alts : List Nat) (orders : List Order) (axes : List (List Nat)) : Bool :=
  isPermOf axes.flatten alts && axes.all (fun ax => !ax.isEmpty && spOnSubset orders ax ax)

/-- all set partitions of a list -/
def setPartitions {α : Type} : List α → List (List (List α))
  | [] => [[]]
  | x :: xs =>
    (setPartitions xs).flatMap (fun p =>
      ([x] :: p) :: (List.range p.length).map (fun i =>
        (p.zipIdx.map (fun bi => if bi.2 == i then x :: bi.1 else bi.1))))

/-- minimum number of parts of a partition of the alternatives into single-peaked blocks -/
def minPartition (alts : List Nat) (orders : List Order) : Nat :=
  let ok := (setPartitions alts).filter (fun p => p.all (fun b => bruteSP b (orders.map (restrictOrder b))))
  match ok.map List.length with
  | [] => alts.length
  | l :: ls => ls.foldl min l

end PrefVerif.Spec.Nearly
