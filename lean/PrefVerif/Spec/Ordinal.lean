import PrefVerif.Model.Ordinal
import PrefVerif.Spec.Voting
/-! Specification for C02: the multiset of votes added by a history, and what it means for an
instance state to be consistent with it. -/
namespace PrefVerif.Spec
open PrefVerif.Ordinal PrefVerif.Py

/-- the votes one operation adds, one list entry per voter -/
def votesOfOp : Op → List Order
  | .order o => [o.map (fun a => [a])]
  | .array os => os.map (fun o => o.map (fun a => [a]))
  | .list os => os
  | .voteMap vm => vm.flatMap (fun bm => List.replicate bm.2 bm.1)
  | .sample vs => vs.map (fun o => o.map (fun a => [a]))

/-- all votes added so far -/
def votesOfHistory (h : List Op) : List Order := h.flatMap votesOfOp

/-- the data type the ballots have (what `infer_type` must answer) -/
def typeOfVotes (numAlts : Nat) (v : List Order) : String :=
  let s := v.all isStrictOrder
  let c := v.all (fun o => o.flatten.length == numAlts)
  if s && c then "soc" else if s then "soi" else if c then "toc" else "toi"

/-- every field of the state is the corresponding function of the multiset of votes `v` -/
structure Consistent (s : OrdState) (v : List Order) : Prop where
  mult : ∀ o, (s.multiplicity.get? o).getD 0 = v.count o
  multKeys : AList.keys s.multiplicity = s.orders
  nodup : s.orders.Nodup
  support : ∀ o, o ∈ s.orders ↔ o ∈ v
  voters : s.numVoters = v.length
  unique : s.numUniqueOrders = s.orders.length
  alts : ∀ a, a ∈ s.altKeys ↔ ∃ o ∈ v, a ∈ o.flatten
  altsNodup : s.altKeys.Nodup
  numAlts : s.numAlternatives = s.altKeys.length
  type : s.dataType = typeOfVotes s.numAlternatives v

/-- well-formed vote: non-empty, non-empty classes, no alternative twice -/
def wfVote (o : Order) : Bool := !o.isEmpty && o.all (fun c => !c.isEmpty) && decide (o.flatten.Nodup)

/-- well-formed operation: every vote well-formed, vote-map keys distinct with multiplicities ≥ 1 -/
def wfOp : Op → Bool
  | .voteMap vm => vm.all (fun bm => wfVote bm.1 && decide (bm.2 ≥ 1)) && decide ((vm.map (·.1)).Nodup)
  | op => (votesOfOp op).all wfVote

/-- canonical multiset: distinct votes with their counts, in first-appearance order -/
def countVotes (v : List Order) : List (Order × Nat) := v.eraseDups.map (fun o => (o, v.count o))

end PrefVerif.Spec
