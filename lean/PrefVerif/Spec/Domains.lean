import PrefVerif.Model.Basic
/-!
Declarative definitions of the preference domains (single-peaked, single-crossing,
consecutive ones, trees) with executable checkers for witnesses and brute-force deciders over all
permutations.  The checkers are proved equivalent to the definitions in `Props/`.
-/
namespace PrefVerif.Spec

/-- all insertions of `x` into `l` -/
def insertions {α : Type} (x : α) : List α → List (List α)
  | [] => [[x]]
  | y :: ys => (x :: y :: ys) :: (insertions x ys).map (y :: ·)

/-- all permutations of a list -/
def perms {α : Type} : List α → List (List α)
  | [] => [[]]
  | x :: xs => (perms xs).flatMap (insertions x)

/-- the members of `S` occupy consecutive positions of `axis` (an interval, possibly empty) -/
def contiguous (axis S : List Nat) : Bool :=
  let trimmed := ((axis.dropWhile (fun a => !S.contains a)).reverse.dropWhile (fun a => !S.contains a))
  trimmed.all (fun a => S.contains a)

/-- declarative form: no non-member lies strictly between two members -/
def Contiguous (axis S : List Nat) : Prop :=
  ∀ i j k : Nat, i < j → j < k → (hk : k < axis.length) →
    axis[i]! ∈ S → axis[k]! ∈ S → axis[j]! ∈ S

/-- union of the `k` best indifference classes -/
def topClasses (o : Order) (k : Nat) : List Nat := (o.take k).flatten

/-- single-peaked (single-plateaued for weak orders) on `axis`: for every voter and every `k`
the union of the `k` best classes is contiguous on the axis -/
def spOnAxis (orders : List Order) (axis : List Nat) : Bool :=
  orders.all (fun o => (List.range (o.length + 1)).all (fun k => contiguous axis (topClasses o k)))

def SPOnAxis (orders : List Order) (axis : List Nat) : Prop :=
  ∀ o ∈ orders, ∀ k, Contiguous axis (topClasses o k)

/-- `axis` lists every alternative exactly once -/
def isPermOf (axis alts : List Nat) : Bool :=
  decide (axis.Nodup) && axis.length == alts.length && axis.all (fun a => alts.contains a)

/-- a valid single-peaked witness -/
def spWitness (alts : List Nat) (orders : List Order) (axis : List Nat) : Bool :=
  isPermOf axis alts && spOnAxis orders axis

/-- brute force: some arrangement of the alternatives makes the profile single-peaked -/
def bruteSP (alts : List Nat) (orders : List Order) : Bool := (perms alts).any (spOnAxis orders)

def SP (alts : List Nat) (orders : List Order) : Prop := ∃ axis, axis.Perm alts ∧ SPOnAxis orders axis

/-! ### single-crossing (strict orders as flat lists) -/

def prefers (o : List Nat) (a b : Nat) : Bool := decide (o.idxOf a < o.idxOf b)

/-- number of adjacent positions of the sequence at which the relative order of `a`,`b` changes -/
def switches (a b : Nat) : List (List Nat) → Nat
  | o1 :: o2 :: rest => (if prefers o1 a b != prefers o2 a b then 1 else 0) + switches a b (o2 :: rest)
  | _ => 0

/-- every pair of alternatives switches relative order at most once along the sequence -/
def scSeq (alts : List Nat) (s : List (List Nat)) : Bool :=
  alts.all (fun a => alts.all (fun b => a == b || decide (switches a b s ≤ 1)))

def SCSeq (alts : List Nat) (s : List (List Nat)) : Prop :=
  ∀ a ∈ alts, ∀ b ∈ alts, a ≠ b → switches a b s ≤ 1

def scWitness (alts : List Nat) (orders s : List (List Nat)) : Bool :=
  decide (s.Nodup) && s.length == orders.length && s.all (fun o => orders.contains o) && scSeq alts s

def bruteSC (alts : List Nat) (orders : List (List Nat)) : Bool := (perms orders).any (scSeq alts)

def SC (alts : List Nat) (orders : List (List Nat)) : Prop := ∃ s, s.Perm orders ∧ SCSeq alts s

/-! ### consecutive ones: a 0/1 matrix given as rows = lists of column indices holding a 1 -/

/-- `ord` is an ordering of the `n` column indices under which every row's ones are consecutive -/
def c1pWitness (n : Nat) (rows : List (List Nat)) (ord : List Nat) : Bool :=
  isPermOf ord (List.range n) && rows.all (fun r => contiguous ord r)

def bruteC1P (n : Nat) (rows : List (List Nat)) : Bool :=
  (perms (List.range n)).any (fun ord => rows.all (fun r => contiguous ord r))

def C1P (n : Nat) (rows : List (List Nat)) : Prop :=
  ∃ ord, ord.Perm (List.range n) ∧ ∀ r ∈ rows, Contiguous ord r

/-! ### trees -/

/-- vertices reachable from `start` inside the vertex set `S` using `edges` (undirected), by `fuel`
rounds of neighbourhood expansion -/
def reach (edges : List (Nat × Nat)) (S : List Nat) : Nat → List Nat → List Nat
  | 0, cur => cur
  | fuel + 1, cur =>
    let next := S.filter (fun v => cur.contains v || edges.any (fun e =>
      (e.1 == v && cur.contains e.2) || (e.2 == v && cur.contains e.1)))
    reach edges S fuel next

/-- the vertex set `S` induces a connected subgraph (the empty set counts as connected) -/
def connectedIn (edges : List (Nat × Nat)) (S : List Nat) : Bool :=
  match S with
  | [] => true
  | v :: _ => (reach edges S S.length [v]).length == S.length

/-- `edges` is a spanning tree of `alts`: `|alts| - 1` edges between distinct known vertices, connected -/
def isSpanningTree (alts : List Nat) (edges : List (Nat × Nat)) : Bool :=
  edges.length + 1 == alts.length
    && edges.all (fun e => e.1 != e.2 && alts.contains e.1 && alts.contains e.2)
    && connectedIn edges alts

/-- single-peaked on the tree: every voter's `k` best alternatives induce a connected subtree -/
def sptWitness (alts : List Nat) (orders : List (List Nat)) (edges : List (Nat × Nat)) : Bool :=
  decide alts.Nodup && isSpanningTree alts edges
    && orders.all (fun o => (List.range (o.length + 1)).all (fun k => connectedIn edges (o.take k)))

end PrefVerif.Spec

namespace PrefVerif.Spec

/-- all sublists of length `k` -/
def choose {α : Type} : Nat → List α → List (List α)
  | 0, _ => [[]]
  | _ + 1, [] => []
  | k + 1, x :: xs => (choose k xs).map (x :: ·) ++ choose (k + 1) xs

def allPairs (alts : List Nat) : List (Nat × Nat) :=
  match alts with
  | [] => []
  | a :: rest => rest.map (fun b => (a, b)) ++ allPairs rest

/-- brute force over all spanning trees: some tree makes the profile single-peaked on it -/
def bruteSPT (alts : List Nat) (orders : List (List Nat)) : Bool :=
  (choose (alts.length - 1) (allPairs alts)).any (fun t => sptWitness alts orders t)

end PrefVerif.Spec
