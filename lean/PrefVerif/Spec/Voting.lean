import PrefVerif.Model.Basic
/-!
Declarative, voter-by-voter specifications for C06, C07 and C14.  Everything is stated on the
*full profile* (one ballot per voter), never on multiplicities.
-/
namespace PrefVerif.Spec

/-- the full profile as a list of ballots, one per voter -/
def votes (p : Profile) : List Order := p.flatMap (fun om => List.replicate om.2 om.1)

/-- index of the first indifference class containing `a` -/
def classIdx? : Order → Nat → Option Nat
  | [], _ => none
  | c :: o, a => if c.contains a then some 0 else (classIdx? o a).map (· + 1)

/-- voter `o` ranks `a` strictly above `b` (both ranked, `a` in an earlier class) -/
def above (o : Order) (a b : Nat) : Bool :=
  match classIdx? o a, classIdx? o b with
  | some i, some j => decide (i < j)
  | _, _ => false

/-- number of voters ranking `a` strictly above `b` -/
def prefCount (v : List Order) (a b : Nat) : Nat := v.countP (fun o => above o a b)

def margin (v : List Order) (a b : Nat) : Int := (prefCount v a b : Int) - (prefCount v b a : Int)

/-- some alternative has a strictly positive (weak: non-negative) net margin against every other -/
def condorcet (alts : List Nat) (v : List Order) (weak : Bool) : Bool :=
  alts.any (fun a => alts.all (fun b => a == b ||
    (if weak then decide (margin v a b ≥ 0) else decide (margin v a b > 0))))

/-- documented Borda convention: every alternative of a class gets the number of alternatives
ranked strictly below the class, counted out of `m` alternatives -/
def bordaOf (i : Int) : Order → Nat → Int
  | [], _ => 0
  | c :: o, a => if c.contains a then i - c.length else bordaOf (i - c.length) o a

def bordaScore (m : Nat) (v : List Order) (a : Nat) : Int := (v.map (fun o => bordaOf (m : Int) o a)).sum

def pluralityScore (v : List Order) (a : Nat) : Nat := v.countP (fun o => (o.headD []).contains a)
def vetoScore (v : List Order) (a : Nat) : Nat := v.countP (fun o => (o.getLastD []).contains a)

/-- `a` is among the first `k` positions of the strict ballot `o` -/
def inTop (k : Nat) (o : Order) (a : Nat) : Bool := ((o.take k).map (fun c => c.headD 0)).contains a
def topCount (k : Nat) (v : List Order) (a : Nat) : Nat := v.countP (fun o => inTop k o a)

/-- Copeland: number of pairwise contests won -/
def copelandScore (alts : List Nat) (v : List Order) (a : Nat) : Nat :=
  (alts.filter (fun b => b != a && decide (margin v a b > 0))).length

def savScore (v : List Order) (a : Nat) : Rat :=
  (v.map (fun o => let top := o.headD []
    if top.contains a then (1 : Rat) / (top.length : Rat) else 0)).sum

/-- `ws` is exactly the set of maximisers of `score` over `alts` -/
def IsArgmax {β : Type} [LE β] (alts : List Nat) (score : Nat → β) (ws : List Nat) : Prop :=
  ∀ a, a ∈ ws ↔ (a ∈ alts ∧ ∀ b ∈ alts, score b ≤ score a)

def IsArgmin {β : Type} [LE β] (alts : List Nat) (score : Nat → β) (ws : List Nat) : Prop :=
  ∀ a, a ∈ ws ↔ (a ∈ alts ∧ ∀ b ∈ alts, score a ≤ score b)

/-- executable versions used by the monitor -/
def argmaxSet {β : Type} [LE β] [DecidableRel (α := β) (· ≤ ·)] (alts : List Nat) (score : Nat → β) :
    List Nat := alts.filter (fun a => alts.all (fun b => decide (score b ≤ score a)))
def argminSet {β : Type} [LE β] [DecidableRel (α := β) (· ≤ ·)] (alts : List Nat) (score : Nat → β) :
    List Nat := alts.filter (fun a => alts.all (fun b => decide (score a ≤ score b)))

/-! ### C14: majority threshold -/

/-- least depth `k ∈ [1, m]` at which some alternative is in the top `k` of a strict majority;
`none` if no depth up to `m` reaches it (possible for truncated ballots) -/
def thresholdDepth (alts : List Nat) (v : List Order) (m : Nat) : Option Nat :=
  ((List.range m).map (· + 1)).find? (fun k => alts.any (fun a => decide (topCount k v a ≥ v.length / 2 + 1)))

/-- Bucklin / fallback winners: top-`k` counts at the threshold depth, or the full approval
counts (depth `m`) when no depth reaches a majority -/
def thresholdWinners (alts : List Nat) (v : List Order) : List Nat :=
  let m := alts.length
  let k := (thresholdDepth alts v m).getD m
  argmaxSet alts (fun a => topCount k v a)

/-- well-formed ordinal instance for the voting rules: alternatives distinct, every order
non-empty with non-empty pairwise-disjoint classes drawn from the alternatives, multiplicities ≥ 1 -/
def wfOrder (alts : List Nat) (o : Order) : Bool :=
  !o.isEmpty && o.all (fun c => !c.isEmpty) && o.flatten.all (fun a => alts.contains a)
    && decide (o.flatten.Nodup)

def wfInst (i : Inst) : Bool :=
  decide (i.alts.Nodup) && !i.profile.isEmpty
    && i.profile.all (fun om => wfOrder i.alts om.1 && decide (om.2 ≥ 1))

def isStrictOrder (o : Order) : Bool := o.all (fun c => c.length == 1)
def isCompleteOrder (alts : List Nat) (o : Order) : Bool := o.flatten.length == alts.length

/-- the data type determined by the ballots (what `infer_type` must return) -/
def typeOf (alts : List Nat) (p : Profile) : String :=
  let s := p.all (fun om => isStrictOrder om.1)
  let c := p.all (fun om => isCompleteOrder alts om.1)
  if s && c then "soc" else if s then "soi" else if c then "toc" else "toi"

end PrefVerif.Spec
