import PrefVerif.Spec.Domains
/-!
Approval domains (C05): definitions with executable witness checkers and brute-force deciders.
An approval profile is the list of approved sets (one per ballot, repeats allowed) over `alts`.
-/
namespace PrefVerif.Spec.Approval
open PrefVerif.Spec

/-- `S` is a prefix or a suffix of `order` (as a set; the empty set is both) -/
def extremal (order S : List Nat) : Bool :=
  contiguous order S &&
    (S.all (fun x => !order.contains x) ||
      (match order.head? with | some h => S.contains h | none => true) ||
      (match order.getLast? with | some l => S.contains l | none => true))

/-- candidate interval: every approval set is an interval of the candidate order -/
def ciWitness (alts : List Nat) (approved : List (List Nat)) (order : List Nat) : Bool :=
  isPermOf order alts && approved.all (fun s => contiguous order s)

def ceiWitness (alts : List Nat) (approved : List (List Nat)) (order : List Nat) : Bool :=
  isPermOf order alts && approved.all (fun s => extremal order s)

/-- ballots (by index) approving alternative `a` -/
def approvers (approved : List (List Nat)) (a : Nat) : List Nat :=
  (approved.zipIdx.filter (fun si => si.1.contains a)).map (·.2)

/-- voter interval: under the ballot order, the approvers of each alternative are consecutive -/
def viWitness (alts : List Nat) (approved : List (List Nat)) (order : List Nat) : Bool :=
  isPermOf order (List.range approved.length) && alts.all (fun a => contiguous order (approvers approved a))

def veiWitness (alts : List Nat) (approved : List (List Nat)) (order : List Nat) : Bool :=
  isPermOf order (List.range approved.length) && alts.all (fun a => extremal order (approvers approved a))

/-- weakly single-crossing as documented: for every ordered pair `(a, b)` the ballots approving `a`
but not `b` are consecutive -/
def wscWitness (alts : List Nat) (approved : List (List Nat)) (order : List Nat) : Bool :=
  isPermOf order (List.range approved.length) &&
    alts.all (fun a => alts.all (fun b => a == b ||
      contiguous order ((approved.zipIdx.filter (fun si => si.1.contains a && !si.1.contains b)).map (·.2))))

/-- dichotomous Euclidean witness with doubled coordinates: voter `i` at `(2·x, 2·r)`, alternative
`a` at integer position `p`: approved ⟺ `|2p − 2x| ≤ 2r`; positions of alternatives pairwise distinct -/
def deWitness (alts : List Nat) (approved : List (List Nat)) (voters : List (Int × Int))
    (altPos : List (Nat × Nat)) : Bool :=
  voters.length == approved.length &&
  decide ((altPos.map (·.1)).Nodup) && decide ((altPos.map (·.2)).Nodup) &&
  alts.all (fun a => (altPos.map (·.1)).contains a) && altPos.length == alts.length &&
  (approved.zip voters).all (fun sv =>
    altPos.all (fun ap =>
      let d : Int := (2 * ap.2 : Nat) - sv.2.1
      let within := decide (d ≤ sv.2.2 ∧ -d ≤ sv.2.2)
      within == sv.1.contains ap.1))

/-- partition: the witness lists the distinct approval sets, pairwise disjoint -/
def sameSet (a b : List Nat) : Bool := a.all (fun x => b.contains x) && b.all (fun x => a.contains x)
def partWitness (approved : List (List Nat)) (parts : List (List Nat)) : Bool :=
  approved.all (fun s => parts.any (sameSet s)) && parts.all (fun p => approved.any (sameSet p)) &&
  (parts.zipIdx.all (fun pi => parts.zipIdx.all (fun qj =>
    pi.2 == qj.2 || pi.1.all (fun x => !qj.1.contains x))))

def isPartition (approved : List (List Nat)) : Bool :=
  approved.all (fun s => approved.all (fun t => sameSet s t || s.all (fun x => !t.contains x)))

def distinctSets (approved : List (List Nat)) : List (List Nat) :=
  approved.foldl (fun acc s => if acc.any (sameSet s) then acc else acc ++ [s]) []

/-- 2-partition: at most two distinct approval sets, disjoint, and if two, together covering all alternatives -/
def is2Partition (alts : List Nat) (approved : List (List Nat)) : Bool :=
  isPartition approved &&
    (let d := distinctSets approved
     decide (d.length ≤ 1) || (d.length == 2 && alts.all (fun a => d.any (fun s => s.contains a))))

def bruteCI (alts : List Nat) (approved : List (List Nat)) : Bool :=
  (perms alts).any (fun o => approved.all (fun s => contiguous o s))
def bruteCEI (alts : List Nat) (approved : List (List Nat)) : Bool :=
  (perms alts).any (fun o => approved.all (fun s => extremal o s))
def bruteVI (alts : List Nat) (approved : List (List Nat)) : Bool :=
  (perms (List.range approved.length)).any (fun o => alts.all (fun a => contiguous o (approvers approved a)))
def bruteVEI (alts : List Nat) (approved : List (List Nat)) : Bool :=
  (perms (List.range approved.length)).any (fun o => alts.all (fun a => extremal o (approvers approved a)))
def bruteWSC (alts : List Nat) (approved : List (List Nat)) : Bool :=
  (perms (List.range approved.length)).any (fun o => wscWitness alts approved o)

/-- rows of a 0/1 matrix as lists of column indices holding a 1 -/
def rowsOfMatrix (m : List (List Nat)) : List (List Nat) :=
  m.map (fun row => (row.zipIdx.filter (fun vi => vi.1 == 1)).map (·.2))

end PrefVerif.Spec.Approval
