import PrefVerif.Model.EntryPoints
/-!
Well-formedness of instances for the write → parse properties (C01, C08, C09) and the
normal form a re-parsed instance has (ballots in written order).
-/
namespace PrefVerif.Spec.IO
open PrefVerif.Py PrefVerif.InstanceIO

/-- single-line text without leading or trailing (Python) whitespace -/
def cleanText (t : Str) : Bool := t.all (fun c => !isLineBreak c) && strip t == t

def wfHeader (h : Header) : Bool :=
  cleanText h.fileName && cleanText h.title && cleanText h.description && cleanText h.dataType
    && cleanText h.modificationType && cleanText h.relatesTo && cleanText h.relatedFiles
    && cleanText h.publicationDate && cleanText h.modificationDate
    && decide ((AList.keys h.altNames).Nodup) && (AList.values h.altNames).all cleanText

/-- well-formed ordinal instance: at least one order, orders pairwise distinct and listed exactly
by the multiplicity table, every order non-empty with non-empty classes -/
def wfOrd (i : OrdinalIO.OrdInst) : Bool :=
  wfHeader i.header && !i.orders.isEmpty && decide (i.orders.Nodup)
    && AList.keys i.multiplicity == i.orders
    && i.orders.all (fun o => !o.isEmpty && o.all (fun c => !c.isEmpty))

/-- the instance as it is after write → parse: ballots in file order (stable sort by
non-increasing multiplicity, then non-increasing length) -/
def normOrd (i : OrdinalIO.OrdInst) : OrdinalIO.OrdInst :=
  let os := stableSort (OrdinalIO.keyLe i.multiplicity) i.orders
  { i with orders := os, multiplicity := os.map (fun o => (o, (i.multiplicity.get? o).getD 0)) }

def wfCat (i : CategoricalIO.CatInst) : Bool :=
  wfHeader i.header && !i.preferences.isEmpty && decide (i.preferences.Nodup)
    && AList.keys i.multiplicity == i.preferences
    && decide ((AList.keys i.categoriesName).Nodup) && (AList.values i.categoriesName).all cleanText
    && i.preferences.all (fun b => !b.isEmpty)

def normCat (i : CategoricalIO.CatInst) : CategoricalIO.CatInst :=
  let bs := stableSort (CategoricalIO.keyLe i.multiplicity) i.preferences
  { i with preferences := bs, multiplicity := bs.map (fun b => (b, (i.multiplicity.get? b).getD 0)) }

end PrefVerif.Spec.IO
