import PrefVerif.Driver.Util
import PrefVerif.Spec.Domains
import PrefVerif.Spec.NearlySP
import PrefVerif.Model.SingleCrossing
import PrefVerif.Model.SinglePeakedAxis
import PrefVerif.Model.SPTree
open Lean PrefVerif PrefVerif.Driver

namespace PrefVerif.Driver.Domains

def optB (b : Bool) (v : Unit → Bool) : Json := if b then toJson (v ()) else Json.null

/-- single-peakedness (weak or strict orders): axis tests, witness checks, brute force -/
def sp : Handler := fun j => do
  let dt := argD j "type" "soc"
  let alts ← arg (α := List Nat) j "alts"
  let orders ← arg (α := List Order) j "orders"
  let axes := argD j "axes" ([] : List (List Nat))
  let witnesses := argD j "witnesses" ([] : List (List Nat))
  let brute := argD j "brute" false
  let inst : Inst := { dataType := dt, alts := alts, profile := orders.map (fun o => (o, 1)) }
  let rows := SinglePeakedAxis.consOnesRows alts orders
  return obj [
    ("axisModel", toJson (axes.map (fun ax => match SinglePeakedAxis.isSinglePeakedAxis inst ax with
        | .ok b => toJson b | .typeError => toJson "TypeError" | _ => toJson "other"))),
    ("axisSpec", toJson (axes.map (fun ax => Spec.spOnAxis orders ax))),
    ("witnessOk", toJson (witnesses.map (fun ax => Spec.spWitness alts orders ax))),
    ("bruteSP", optB brute (fun _ => Spec.bruteSP alts orders)),
    ("rows", toJson rows),
    ("bruteC1P", optB brute (fun _ => Spec.bruteC1P alts.length rows))]

def sc : Handler := fun j => do
  let alts ← arg (α := List Nat) j "alts"
  let orders ← arg (α := List (List Nat)) j "orders"
  let witnesses := argD j "witnesses" ([] : List (List (List Nat)))
  let brute := argD j "brute" false
  let (v, s) := SingleCrossing.isSC orders alts.length
  return obj [
    ("model", toJson v), ("modelSeq", toJson s),
    ("modelSeqOk", toJson (!v || Spec.scWitness alts orders s)),
    ("modelConflict", toJson (SingleCrossing.isSCConflictSets orders)),
    ("witnessOk", toJson (witnesses.map (fun w => Spec.scWitness alts orders w))),
    ("bruteSC", optB brute (fun _ => Spec.bruteSC alts orders))]

def spt : Handler := fun j => do
  let alts ← arg (α := List Nat) j "alts"
  let orders ← arg (α := List (List Nat)) j "orders"
  let witnesses := argD j "witnesses" ([] : List (List (Nat × Nat)))
  let brute := argD j "brute" false
  let m := SPTree.isSPOnTree alts orders
  return obj [
    ("model", toJson m.isSome), ("modelTree", toJson (m.getD [])),
    ("modelTreeOk", toJson (match m with | none => true | some t => Spec.sptWitness alts orders t)),
    ("witnessOk", toJson (witnesses.map (fun t => Spec.sptWitness alts orders t))),
    ("bruteSPT", optB brute (fun _ => Spec.bruteSPT alts orders))]

/-- consecutive ones: rows are lists of column indices holding a 1 -/
def c1p : Handler := fun j => do
  let n ← arg (α := Nat) j "n"
  let rows ← arg (α := List (List Nat)) j "rows"
  let witnesses := argD j "witnesses" ([] : List (List Nat))
  let brute := argD j "brute" false
  return obj [
    ("witnessOk", toJson (witnesses.map (fun w => Spec.c1pWitness n rows w))),
    ("bruteC1P", optB brute (fun _ => Spec.bruteC1P n rows))]

end PrefVerif.Driver.Domains

namespace PrefVerif.Driver.Domains
open PrefVerif.Spec.Nearly

/-- C12 / C18: certificates of the nearly-single-peaked optimisers and brute-force optima -/
def nearly : Handler := fun j => do
  let alts ← arg (α := List Nat) j "alts"
  let orders ← arg (α := List Order) j "orders"
  let brute := argD j "brute" false
  let c ← arg (α := Json) j "certs"
  let has := fun (k : String) => (c.getObjVal? k).isOk
  let l := fun (k : String) => argD c k ([] : List Nat)
  let axes := argD c "axes" ([] : List (List Nat))
  let axes2 := argD c "axes2" ([] : List (List Nat))
  let lazyN := fun (v : Unit → Nat) => if brute then toJson (v ()) else Json.null
  return obj [
    ("minAlt", lazyN (fun _ => minAltDeletion alts orders)),
    ("minVoter", lazyN (fun _ => minVoterDeletion alts orders)),
    ("minPartition", lazyN (fun _ => minPartition alts orders)),
    ("voterCert", if has "vd_axis" then toJson (voterDeletionCert alts orders (l "vd_axis") (l "vd_deleted")) else Json.null),
    ("altCert", if has "ad_axis" then toJson (altDeletionCert alts orders (l "ad_axis") (l "ad_deleted")) else Json.null),
    ("dpCert", if has "dp_axis" then toJson (altDeletionCert alts orders (l "dp_axis") (l "dp_deleted")
        && Spec.isPermOf (l "dp_axis" ++ l "dp_deleted") alts) else Json.null),
    ("axesCert", if has "axes" then toJson (partitionCert alts orders axes) else Json.null),
    ("axes2Cert", if has "axes2" then toJson (partitionCert alts orders axes2) else Json.null)]

end PrefVerif.Driver.Domains
