import PrefVerif.Driver.Util
import PrefVerif.Model.PQTree
open Lean PrefVerif PrefVerif.Driver

namespace PrefVerif.Driver.PQ
open PrefVerif.PQTree

def errName : Err → String
  | .impossible => "impossible" | .bonBen => "bonben" | .crash => "crash" | .fuel => "fuel"

/-- `reorder_sets(sets)`: `{"order": null | [[…],…]}`; `"err"` names the kind of failure
(`impossible`/`bonben` = `ValueError`, `crash` = any other exception, `fuel` = model out of fuel) -/
def reorder : Handler := fun j => do
  let sets ← arg (α := List (List Nat)) j "sets"
  match reorderSetsE sets with
  | .ok r => return obj [("order", toJson r), ("same", toJson (reorderSets sets == some r))]
  | .error e => return obj [("order", Json.null), ("err", toJson (errName e)),
      ("same", toJson (reorderSets sets == none))]

/-- `solve_consecutive_ones(matrix)` through `Dichotomous.solveC1 reorderSets`, and `isC1P(matrix)` -/
def solve : Handler := fun j => do
  let m ← arg (α := List (List Nat)) j "matrix"
  let nc ← arg (α := Nat) j "ncols"
  return obj [("result", toJson (solveConsecutiveOnes m nc)), ("isC1P", toJson (isC1P m nc))]

end PrefVerif.Driver.PQ
