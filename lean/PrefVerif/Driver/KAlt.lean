import PrefVerif.Driver.Util
import PrefVerif.Model.KAltDeletion
import PrefVerif.Model.KAltPartitionBF
open Lean PrefVerif PrefVerif.Driver

namespace PrefVerif.Driver.KAltD
open PrefVerif.KAlt

/-- `k_alternative_deletion`: `alts` = keys of `alternatives_name`, `orders` = the flattened strict orders -/
def deletion : Handler := fun j => do
  let alts ← arg (α := List Nat) j "alts"
  let orders ← arg (α := List (List Nat)) j "orders"
  let r := kAlternativeDeletion alts orders
  return obj [("axis", toJson r.1), ("removed", toJson r.2)]

/-- `k_alt_partition_approx` -/
def partition : Handler := fun j => do
  let alts ← arg (α := List Nat) j "alts"
  let orders ← arg (α := List (List Nat)) j "orders"
  return obj [("axes", toJson (kAltPartitionApprox alts orders))]

/-- `k_alternative_partition_brut_force(instance, k)`: `null` or the list of axes -/
def bruteForce : Handler := fun j => do
  let alts ← arg (α := List Nat) j "alts"
  let orders ← arg (α := List (List Nat)) j "orders"
  let k ← arg (α := Nat) j "k"
  return obj [("axes", match PrefVerif.KAltBF.partitionBruteForce alts orders k with
    | some axes => toJson axes
    | none => Json.null)]

/-- `singleton_pair_combinations(items)` (tuples as lists) -/
def spc : Handler := fun j => do
  let items ← arg (α := List Nat) j "items"
  return obj [("combis", toJson (PrefVerif.KAltBF.singletonPairCombinations items))]

/-- iteration orders of the modelled CPython sets (used to validate the layout model on its own):
`ints` are added one by one; `copyUpdate` are merged into a copy; `pairs` are added as frozensets -/
def sets : Handler := fun j => do
  let ints ← arg (α := List Nat) j "ints"
  let upd := argD j "update" ([] : List (List Nat))
  let pairs := argD j "pairs" ([] : List (List Nat))
  let s := mkFrozen ints
  let c := upd.foldl (fun c l => c.merge natKey (mkFrozen l)) (s.copy natKey)
  let fsets := pairs.map mkFrozen
  let P : PySet FS := fsets.foldl (PySet.add fsKey) PySet.empty
  return obj [("iter", toJson (s.iter natKey)), ("copyUpdate", toJson (c.iter natKey)),
    ("hashes", toJson (fsets.map fsHash)),
    ("pairs", toJson ((P.iter fsKey).map (fun fs => fs.iter natKey)))]

end PrefVerif.Driver.KAltD
