import PrefVerif.Driver.Util
import PrefVerif.Model.Distances
import PrefVerif.Spec.Distances
open Lean PrefVerif.Driver PrefVerif.Distances

namespace PrefVerif.Driver.C20

/-- all three distances of the model on `(a,b)` plus the spec-level disagreement count -/
def pair : Handler := fun j => do
  let a ← arg (α := List Nat) j "a"
  let b ← arg (α := List Nat) j "b"
  let same := decide (PrefVerif.Spec.SameRanking a b)
  return obj [("kt", toJson (kendallTau? a b)), ("fr", toJson (footrule? a b)),
    ("se", toJson (sertel? a b)), ("same", toJson same),
    ("ktn", match kendallTauNorm a b with
      | .valueError => toJson "ValueError" | .zeroDivision => toJson "ZeroDivisionError"
      | .ok n d => toJson (n, d)),
    ("dis", toJson (PrefVerif.Spec.dis a b a))]

def asym (x y : List Nat) : Nat × Nat := (x.headD 0 * 1000 + y.headD 0 + 7 * x.length, 1)

/-- `distance_matrix` of the model on the flattened orders of a profile -/
def matrix : Handler := fun j => do
  let prof ← arg (α := List (List Nat × Nat)) j "profile"
  let fn ← arg (α := String) j "fn"
  let fp := fullProfile prof
  let f : List Nat → List Nat → Nat × Nat := match fn with
    | "kt" => fun x y => ((kendallTau? x y).getD 0, 1)
    | "fr" => fun x y => (footrule? x y).getD (0, 1)
    | "se" => fun x y => (sertel? x y).getD (0, 1)
    | _ => asym
  return obj [("profile", toJson fp), ("matrix", toJson (distanceMatrix (0, 1) f fp))]

end PrefVerif.Driver.C20
