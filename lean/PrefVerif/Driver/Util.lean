import Lean.Data.Json
open Lean

namespace PrefVerif.Driver

abbrev Handler := Json → Except String Json

def arg {α : Type} [FromJson α] (j : Json) (k : String) : Except String α :=
  j.getObjValAs? α k

def argD {α : Type} [FromJson α] (j : Json) (k : String) (d : α) : α :=
  match j.getObjValAs? α k with
  | .ok v => v
  | .error _ => d

def obj (kvs : List (String × Json)) : Json := Json.mkObj kvs

end PrefVerif.Driver
