import PrefVerif.Driver.Util
import PrefVerif.Model.ILP
open Lean PrefVerif PrefVerif.Driver PrefVerif.ILP

namespace PrefVerif.Driver.ILPD

def varName : Var → String
  | .leftOf a b => s!"leftof_{a}_{b}"
  | .pos a => s!"pos_{a}"
  | .delVoter v => s!"delVoter_{v}"
  | .delAlt a => s!"delAlt_{a}"

def ratJ (r : Rat) : Json := toJson (r.num, r.den)

def constrJson (c : Constr) : Json := obj [
  ("terms", toJson (c.terms.map (fun t => (ratJ t.1, varName t.2)))),
  ("sense", toJson (match c.sense with | .le => "<" | .eq => "=" | .ge => ">")),
  ("rhs", ratJ c.rhs)]

/-- the constraint system the model of the ILP functions generates -/
def model : Handler := fun j => do
  let alts ← arg (α := List Nat) j "alts"
  let orders ← arg (α := List Order) j "orders"
  let which ← arg (α := String) j "which"
  let cs := match which with
    | "sp" => spModel alts orders
    | "votdel" => votDelModel alts orders
    | _ => altDelModel alts orders
  -- evaluate the implementation's solution (exact rationals) on the model's constraints
  let sol := argD j "solution" ([] : List (String × (Int × Nat)))
  let asg : Var → Rat := fun v => match sol.lookup (varName v) with
    | some p => (p.1 : Rat) / (p.2 : Rat)
    | none => 0
  let hasSol := (j.getObjVal? "solution").isOk
  return obj [("constraints", toJson (cs.map constrJson)),
    ("solutionFeasible", if hasSol then toJson (cs.all (satisfies asg)) else Json.null)]

end PrefVerif.Driver.ILPD
