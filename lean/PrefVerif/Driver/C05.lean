import PrefVerif.Driver.Util
import PrefVerif.Model.Dichotomous
import PrefVerif.Spec.Approval
open Lean PrefVerif PrefVerif.Driver PrefVerif.Dichotomous

namespace PrefVerif.Driver.C05
open PrefVerif.Spec PrefVerif.Spec.Approval

def lazyB (b : Bool) (v : Unit → Bool) : Json := if b then toJson (v ()) else Json.null

/-- the solver parameter instantiated with the verified brute force (small inputs only): it returns
the first ordering of the distinct supports under which every element lies in an interval -/
def bruteSolver : Solver := fun sets =>
  let elems := sets.flatten.eraseDups
  (perms sets).find? (fun ord =>
    elems.all (fun e => contiguous (List.range ord.length) ((ord.zipIdx.filter (fun si => si.1.contains e)).map (·.2))))

/-- all recognisers on one approval profile: spec verdicts (brute force, when small), the model run
with the brute-force solver, and the witness checks of what the implementation returned -/
def profile : Handler := fun j => do
  let alts ← arg (α := List Nat) j "alts"
  let approved ← arg (α := List (List Nat)) j "approved"
  let small := argD j "brute" false
  let w ← arg (α := Json) j "witnesses"
  let wl := fun (k : String) => argD w k ([] : List Nat)
  let has := fun (k : String) => (w.getObjVal? k).isOk
  let deV := argD w "de_voters" ([] : List (Int × Int))
  let deA := argD w "de_alts" ([] : List (Nat × Nat))
  let parts := argD w "parts" ([] : List (List Nat))
  let parts2 := argD w "parts2" ([] : List (List Nat))
  let chk := fun (k : String) (f : List Nat → Bool) => if has k then toJson (f (wl k)) else Json.null
  let mopt := fun (o : Option (List Nat)) => toJson o.isSome
  return obj [
    ("ci", lazyB small (fun _ => bruteCI alts approved)), ("cei", lazyB small (fun _ => bruteCEI alts approved)),
    ("vi", lazyB small (fun _ => bruteVI alts approved)), ("vei", lazyB small (fun _ => bruteVEI alts approved)),
    ("wsc", lazyB small (fun _ => bruteWSC alts approved)),
    ("part", toJson (isPartition approved)), ("part2", toJson (is2Partition alts approved)),
    ("ciW", chk "ci" (ciWitness alts approved)), ("ceiW", chk "cei" (ceiWitness alts approved)),
    ("viW", chk "vi" (viWitness alts approved)), ("veiW", chk "vei" (veiWitness alts approved)),
    ("wscW", chk "wsc" (wscWitness alts approved)),
    ("deW", if has "de_voters" then toJson (deWitness alts approved deV deA) else Json.null),
    ("partW", if has "parts" then toJson (partWitness approved parts) else Json.null),
    ("part2W", if has "parts2" then toJson (partWitness approved parts2) else Json.null),
    ("mCI", if small then mopt (isCandidateInterval bruteSolver alts approved) else Json.null),
    ("mCEI", if small then mopt (isCandidateExtremalInterval bruteSolver alts approved) else Json.null),
    ("mVI", if small then mopt (isVoterInterval bruteSolver alts approved) else Json.null),
    ("mVEI", if small then mopt (isVoterExtremalInterval bruteSolver alts approved) else Json.null),
    ("mWSC", if small then mopt (isWeaklySingleCrossing bruteSolver alts approved) else Json.null),
    ("mPart", toJson (isPart approved)), ("mPart2", toJson (is2Part alts approved))]

/-- `solve_consecutive_ones` / `isC1P` on a raw 0/1 matrix -/
def matrix : Handler := fun j => do
  let m ← arg (α := List (List Nat)) j "matrix"
  let nc ← arg (α := Nat) j "ncols"
  let small := argD j "brute" false
  let w := argD j "witness" ([] : List Nat)
  let hasW := (j.getObjVal? "witness").isOk
  let rows := rowsOfMatrix m
  return obj [
    ("c1p", lazyB small (fun _ => bruteC1P nc rows)),
    ("witnessOk", if hasW then toJson (c1pWitness nc rows w) else Json.null),
    ("model", if small then toJson (solveC1 bruteSolver m nc).isSome else Json.null),
    ("modelOk", if small then toJson (match solveC1 bruteSolver m nc with
        | none => true | some o => c1pWitness nc rows o) else Json.null)]

end PrefVerif.Driver.C05
