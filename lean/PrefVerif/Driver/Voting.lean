import PrefVerif.Driver.Util
import PrefVerif.Model.SingleWinner
import PrefVerif.Spec.Voting
open Lean PrefVerif PrefVerif.Driver PrefVerif.Pairwise PrefVerif.SingleWinner

namespace PrefVerif.Driver.Voting

def getInst (j : Json) : Except String Inst := do
  let dt ← arg (α := String) j "type"
  let alts ← arg (α := List Nat) j "alts"
  let prof ← arg (α := List (List (List Nat) × Nat)) j "profile"
  return { dataType := dt, alts := alts, profile := prof }

def resJson {α : Type} [ToJson α] : Res α → Json
  | .ok v => obj [("ok", toJson v)]
  | .refused => obj [("exc", "refused")]
  | .valueError => obj [("exc", "ValueError")]
  | .typeError => obj [("exc", "TypeError")]

def ratJson (r : Rat) : Json := toJson (r.num, r.den)

/-- C07: the model's tables and the voter-level specification of every entry -/
def tables : Handler := fun j => do
  let i ← getInst j
  -- `nospec`: multiplicities too large to list the voters one by one; the voter-level specification is then
  -- not evaluated and the model's own values (proved equal to it: C07.pairwise_entry, borda_entry,
  -- hasCondorcet_iff) stand in for it
  let nospec := argD j "nospec" false
  let v := if nospec then [] else Spec.votes i.profile
  let pw := pairwiseScores i.alts i.profile
  let cp := copelandScores i.alts i.profile
  let lookup2 (a b : Nat) : Int := ((pw.lookup a).getD []).lookup b |>.getD 0
  let modelBorda := bordaScores i.numAlternatives i.profile
  let specPw := i.alts.map (fun a => (a, (i.alts.filter (· != a)).map (fun b =>
    (b, if nospec then lookup2 a b else Spec.prefCount v a b))))
  let specBorda := i.alts.map (fun a => (a,
    if nospec then (modelBorda.lookup a).getD 0 else Spec.bordaScore i.numAlternatives v a))
  return obj [
    ("wf", toJson (Spec.wfInst i)),
    ("typeOf", toJson (Spec.typeOf i.alts i.profile)),
    ("pairwise", toJson pw), ("copeland", toJson cp),
    ("borda", toJson (bordaScores i.numAlternatives i.profile)),
    ("condorcet", toJson (hasCondorcet i.alts i.profile false)),
    ("weakCondorcet", toJson (hasCondorcet i.alts i.profile true)),
    ("pwgLines", toJson (pwgLines i.alts i.profile)),
    ("pwgCount", toJson (pwgCount i.numVoters i.alts i.profile)),
    ("specPairwise", toJson specPw),
    ("specBorda", toJson specBorda),
    ("specCondorcet", toJson (if nospec then hasCondorcet i.alts i.profile false else Spec.condorcet i.alts v false)),
    ("specWeakCondorcet", toJson (if nospec then hasCondorcet i.alts i.profile true else Spec.condorcet i.alts v true)),
    ("specFromModel", toJson nospec),
    ("numVoters", toJson (if nospec then i.numVoters else v.length))]

/-- C06 / C14: one rule on one instance: the model's answer and the textbook winner set -/
def rule : Handler := fun j => do
  let i ← getInst j
  let r ← arg (α := String) j "rule"
  let k := argD j "k" 1
  let nospec := argD j "nospec" false       -- see `tables`
  let v := if nospec then [] else Spec.votes i.profile
  let m := i.numAlternatives
  let (model, domain) : Res (List Nat) × List String := match r with
    | "plurality" => (pluralityWinner i, ordinal4)
    | "veto" => (vetoWinner i, ["soc", "toc"])
    | "k_approval" => (kApprovalWinner i k, ["soc", "soi"])
    | "borda" => (bordaWinner i, ["soc", "toc"])
    | "copeland" => (copelandWinner i, ["soc"])
    | "approval" => (approvalWinner i, ordinal4)
    | "sav" => (satisfactionApprovalWinner i, ordinal4)
    | "fallback" => (fallbackWinner i, ["soc", "soi"])
    | "bucklin" => (bucklinWinner i, ["soc"])
    | _ => (.typeError, [])
  -- the textbook winner set, voter by voter (not evaluated under `nospec`)
  let spec : List Nat := if nospec then [] else match r with
    | "plurality" => Spec.argmaxSet i.alts (Spec.pluralityScore v)
    | "veto" => Spec.argminSet i.alts (Spec.vetoScore v)
    | "k_approval" => Spec.argmaxSet i.alts (Spec.topCount k v)
    | "borda" => Spec.argmaxSet i.alts (Spec.bordaScore m v)
    | "copeland" => Spec.argmaxSet i.alts (Spec.copelandScore i.alts v)
    | "approval" => Spec.argmaxSet i.alts (Spec.pluralityScore v)
    | "sav" => Spec.argmaxSet i.alts (Spec.savScore v)
    | "fallback" => Spec.thresholdWinners i.alts v
    | "bucklin" => Spec.thresholdWinners i.alts v
    | _ => []
  return obj [
    ("wf", toJson (Spec.wfInst i)),
    ("typeOf", toJson (Spec.typeOf i.alts i.profile)),
    ("inDomain", toJson (domain.contains i.dataType)),
    ("isApproval", toJson (isApproval i)),
    ("model", resJson model),
    ("spec", if nospec then (match model with | .ok w => toJson w | _ => toJson spec) else toJson spec),
    ("specFromModel", toJson nospec),
    ("depth", if nospec then Json.null else toJson (Spec.thresholdDepth i.alts v m))]

end PrefVerif.Driver.Voting
