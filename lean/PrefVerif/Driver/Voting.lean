import PrefVerif.Driver.Util
import PrefVerif.Model.SingleWinner
import PrefVerif.Spec.Voting
open Lean PrefVerif PrefVerif.Driver PrefVerif.Pairwise PrefVerif.SingleWinner

namespace PrefVerif.Driver.Voting

def getInst (j : Json) : Except String Inst := do
  let dt ← arg (α := String) j "type"
  let alts ← arg (α := List Nat) j "alts"
  let prof ← arg (α := List (List (List Nat) × Nat)) j "profile"
  return { dataType := dt, alts := alts, profile := prof }

def resJson {α : Type} [ToJson α] : Res α → Json
  | .ok v => obj [("ok", toJson v)]
  | .refused => obj [("exc", "refused")]
  | .valueError => obj [("exc", "ValueError")]
  | .typeError => obj [("exc", "TypeError")]

def ratJson (r : Rat) : Json := toJson (r.num, r.den)

/-- C07: the model's tables and the voter-level specification of every entry -/
def tables : Handler := fun j => do
  let i ← getInst j
  let v := Spec.votes i.profile
  let pw := pairwiseScores i.alts i.profile
  let cp := copelandScores i.alts i.profile
  let specPw := i.alts.map (fun a => (a, (i.alts.filter (· != a)).map (fun b => (b, Spec.prefCount v a b))))
  let specBorda := i.alts.map (fun a => (a, Spec.bordaScore i.numAlternatives v a))
  return obj [
    ("wf", toJson (Spec.wfInst i)),
    ("typeOf", toJson (Spec.typeOf i.alts i.profile)),
    ("pairwise", toJson pw), ("copeland", toJson cp),
    ("borda", toJson (bordaScores i.numAlternatives i.profile)),
    ("condorcet", toJson (hasCondorcet i.alts i.profile false)),
    ("weakCondorcet", toJson (hasCondorcet i.alts i.profile true)),
    ("pwgLines", toJson (pwgLines i.alts i.profile)),
    ("pwgCount", toJson (pwgCount i.numVoters i.alts i.profile)),
    ("specPairwise", toJson specPw),
    ("specBorda", toJson specBorda),
    ("specCondorcet", toJson (Spec.condorcet i.alts v false)),
    ("specWeakCondorcet", toJson (Spec.condorcet i.alts v true)),
    ("numVoters", toJson v.length)]

/-- C06 / C14: one rule on one instance: the model's answer and the textbook winner set -/
def rule : Handler := fun j => do
  let i ← getInst j
  let r ← arg (α := String) j "rule"
  let k := argD j "k" 1
  let v := Spec.votes i.profile
  let m := i.numAlternatives
  let (model, spec, domain) : Res (List Nat) × List Nat × List String := match r with
    | "plurality" => (pluralityWinner i, Spec.argmaxSet i.alts (Spec.pluralityScore v), ordinal4)
    | "veto" => (vetoWinner i, Spec.argminSet i.alts (Spec.vetoScore v), ["soc", "toc"])
    | "k_approval" => (kApprovalWinner i k, Spec.argmaxSet i.alts (Spec.topCount k v), ["soc", "soi"])
    | "borda" => (bordaWinner i, Spec.argmaxSet i.alts (Spec.bordaScore m v), ["soc", "toc"])
    | "copeland" => (copelandWinner i, Spec.argmaxSet i.alts (Spec.copelandScore i.alts v), ["soc"])
    | "approval" => (approvalWinner i, Spec.argmaxSet i.alts (Spec.pluralityScore v), ordinal4)
    | "sav" => (satisfactionApprovalWinner i, Spec.argmaxSet i.alts (Spec.savScore v), ordinal4)
    | "fallback" => (fallbackWinner i, Spec.thresholdWinners i.alts v, ["soc", "soi"])
    | "bucklin" => (bucklinWinner i, Spec.thresholdWinners i.alts v, ["soc"])
    | _ => (.typeError, [], [])
  return obj [
    ("wf", toJson (Spec.wfInst i)),
    ("typeOf", toJson (Spec.typeOf i.alts i.profile)),
    ("inDomain", toJson (domain.contains i.dataType)),
    ("isApproval", toJson (isApproval i)),
    ("model", resJson model),
    ("spec", toJson spec),
    ("depth", toJson (Spec.thresholdDepth i.alts v m))]

end PrefVerif.Driver.Voting
