import PrefVerif.Driver.Util
import PrefVerif.Spec.Euclid
import PrefVerif.Model.Euclid
open Lean PrefVerif PrefVerif.Driver

namespace PrefVerif.Driver.C19

def rat (p : Int × Nat) : Rat := (p.1 : Rat) / (p.2 : Rat)

/-- embedding check (exact rationals) and the combinatorial stage of the model -/
def check : Handler := fun j => do
  let alts ← arg (α := List Nat) j "alts"
  let orders ← arg (α := List (List Nat)) j "orders"
  let embeddings := argD j "embeddings" ([] : List (List (Int × Nat) × List (Nat × (Int × Nat))))
  let st := Euclid.stage (alts.mergeSort) orders
  return obj [
    ("realises", toJson (embeddings.map (fun e =>
        Spec.Euclid.realises orders (e.1.map rat) (e.2.map (fun kv => (kv.1, rat kv.2)))))),
    ("sc", toJson st.sc), ("colouringOk", toJson st.coloured.isSome), ("grey", toJson st.grey)]

end PrefVerif.Driver.C19
