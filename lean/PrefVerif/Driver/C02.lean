import PrefVerif.Driver.Util
import PrefVerif.Spec.Ordinal
import PrefVerif.Props.C02Indif
open Lean PrefVerif PrefVerif.Driver PrefVerif.Ordinal

namespace PrefVerif.Driver.C02

def getOp (j : Json) : Except String Op := do
  let k ← arg (α := String) j "k"
  match k with
  | "order" => return .order (← arg j "o")
  | "array" => return .array (← arg j "os")
  | "list" => return .list (← arg j "os")
  | "map" => return .voteMap (← arg j "vm")
  | "sample" => return .sample (← arg j "votes")
  | _ => throw s!"unknown op kind {k}"

def stateJson (s : OrdState) (hist : List Op) : Json :=
  let v := Spec.votesOfHistory hist
  obj [
    ("altKeys", toJson s.altKeys), ("numAlternatives", toJson s.numAlternatives),
    ("numVoters", toJson s.numVoters), ("orders", toJson s.orders),
    ("multiplicity", toJson s.multiplicity), ("numUniqueOrders", toJson s.numUniqueOrders),
    ("dataType", toJson s.dataType), ("inferType", toJson (inferType s)),
    ("voteMap", toJson (voteMap s)), ("fullProfile", toJson (fullProfile s)),
    ("flattenStrict", toJson (flattenStrict s)),
    ("isStrict", toJson (isStrict s)), ("isComplete", toJson (isComplete s)),
    ("largestBallot", toJson (largestBallot s)), ("smallestBallot", toJson (smallestBallot s)),
    ("maxNumIndif", toJson (maxNumIndif s)), ("minNumIndif", toJson (minNumIndif s)),
    ("largestIndif", toJson (largestIndif s)), ("smallestIndif", toJson (smallestIndif s)),
    ("sanity", toJson (sanityOrders s)),
    -- specification side: the multiset of votes added so far and what follows from it
    ("specVotes", toJson (Spec.countVotes v)),
    ("specNumVoters", toJson v.length),
    ("specAlts", toJson (v.map List.flatten).flatten.eraseDups),
    ("specType", toJson (Spec.typeOfVotes ((v.map List.flatten).flatten.eraseDups.length) v)),
    ("specMaxNumIndif", toJson (C02Indif.votesMaxNumIndif v)),
    ("specMinNumIndif", toJson (C02Indif.votesMinNumIndif ((v.map List.flatten).flatten.eraseDups.length) v)),
    ("specLargestIndif", toJson (C02Indif.votesLargestIndif v)),
    ("specSmallestIndif", toJson (C02Indif.votesSmallestIndif ((v.map List.flatten).flatten.eraseDups.length) v)),
    ("wf", toJson (hist.all Spec.wfOp))]

/-- run a history, reporting the state after every operation -/
def runOps : Handler := fun j => do
  let opsJ ← arg (α := Array Json) j "ops"
  let ops ← opsJ.toList.mapM getOp
  let (_, _, out) := ops.foldl (fun (acc : OrdState × List Op × List Json) op =>
    let s := step acc.1 op
    let h := acc.2.1 ++ [op]
    (s, h, acc.2.2 ++ [stateJson s h])) (init, [], [])
  return obj [("states", toJson out)]

end PrefVerif.Driver.C02
