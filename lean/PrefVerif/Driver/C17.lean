import PrefVerif.Driver.Util
import PrefVerif.Spec.Categorical
open Lean PrefVerif PrefVerif.Driver PrefVerif.Categorical

namespace PrefVerif.Driver.C17

def getMode (j : Json) : Except String Mode := do
  let m ← arg (α := String) j "mode"
  match m with
  | "size" => return .size (← arg j "tps")
  | "count" => return .count (← arg j "nums")
  | "relative" => return .relative (← arg j "perOrder")
  | _ => throw s!"unknown mode {m}"

def fromOrd : Handler := fun j => do
  let prof ← arg (α := Profile) j "profile"
  let mode ← getMode j
  let implPrefs := argD j "implPrefs" ([] : List Ballot)
  let raw := rawBallots mode prof
  let st := fromOrdinal mode prof
  -- spec side, independent of the truncation rule: partition / rank order / no class split
  let modelCoarse := (prof.zip raw).all (fun x => Spec.isCoarsening x.1.1 x.2)
  let implEvery := implPrefs.all (fun b => prof.any (fun om => Spec.isCoarsening om.1 b))
  let implCovers := prof.all (fun om => implPrefs.any (fun b => Spec.isCoarsening om.1 b))
  return obj [
    ("state", match st with
      | none => Json.null
      | some s => obj [("preferences", toJson s.preferences), ("multiplicity", toJson s.multiplicity),
          ("numCategories", toJson s.numCategories), ("numVoters", toJson s.numVoters),
          ("numUniquePreferences", toJson s.numUniquePreferences), ("categoryKeys", toJson s.categoryKeys)]),
    ("raw", toJson raw),
    ("modelCoarse", toJson modelCoarse), ("implEvery", toJson implEvery), ("implCovers", toJson implCovers),
    ("sourceVoters", toJson ((prof.map (·.2)).sum))]

def fact : Handler := fun j => do
  let prefs ← arg (α := List Ballot) j "prefs"
  let mult ← arg (α := List (Ballot × Nat)) j "mult"
  let reset ← arg (α := Bool) j "reset"
  let (p, m) := factorise prefs mult reset
  return obj [("preferences", toJson p), ("multiplicity", toJson m),
    ("specCounts", toJson (prefs.eraseDups.map (fun b => (b, prefs.count b))))]

end PrefVerif.Driver.C17
