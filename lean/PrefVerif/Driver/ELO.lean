import PrefVerif.Driver.Util
import PrefVerif.Model.SinglePeakedELO
open Lean PrefVerif PrefVerif.Driver

namespace PrefVerif.Driver.ELO

def exitName : PrefVerif.ELO.Exit → String
  | .threeLast => "threeLast"
  | .contra => "contra"
  | .case2d _ _ => "case2d"
  | .finished _ => "finished"

/-- `is_single_peaked` (Escoffier–Lang–Öztürk): `{"op":"elo.sp","orders":[[…],…]}` →
`{"result": null | [bool, [axis…]], "exit": …}` -/
def elo : Handler := fun j => do
  let orders ← arg (α := List (List Nat)) j "orders"
  match PrefVerif.ELO.run orders with
  | none => return obj [("result", Json.null), ("exit", toJson "error")]
  | some e =>
    let r := e.result
    return obj [("result", Json.arr #[toJson r.1, toJson r.2]), ("exit", toJson (exitName e))]

end PrefVerif.Driver.ELO
