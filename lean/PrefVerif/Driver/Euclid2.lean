import PrefVerif.Driver.Util
import PrefVerif.Model.Euclid
import PrefVerif.Spec.Domains
open Lean PrefVerif PrefVerif.Driver PrefVerif.Euclid

namespace PrefVerif.Driver.Euclid2

/-- python-mip variable names used by `_one_euclidean_solve_lp` -/
def varName : Var → String
  | .voter i => s!"voter_{i}"
  | .alt a => s!"alternative_{a}"

def ratJ (r : Rat) : Json := toJson (r.num, r.den)

def constrJson (c : Constr) : Json := obj [
  ("terms", toJson (c.terms.map (fun t => (ratJ t.1, varName t.2)))),
  ("sense", toJson (match c.sense with | .le => "<" | .eq => "=" | .ge => ">")),
  ("rhs", ratJ c.rhs)]

/-- `{"op":"euc.lp","alts":[…],"orders":[[…],…]}`: everything `is_one_euclidean` does up to and
including the linear programme handed to the solver -/
def lp : Handler := fun j => do
  let alts ← arg (α := List Nat) j "alts"
  let orders ← arg (α := List (List Nat)) j "orders"
  let alts := alts.mergeSort
  -- `sc`: the arrangement the implementation's own pre-check returned, if the harness observed one; it is used
  -- in place of the model's arrangement when the verified checker accepts it (any valid single-crossing
  -- arrangement is a correct answer of `is_single_crossing`, e.g. the same chain reversed)
  let observed := argD j "sc" ([] : List (List Nat))
  let useObserved := !observed.isEmpty && Spec.scWitness alts orders observed
  let isSc := if useObserved then true else (SingleCrossing.isSC orders alts.length).1
  let s := if useObserved then observed else Euclid.scOrders alts orders
  let st := Euclid.stageOn alts isSc s
  let base := [("sc", toJson st.sc), ("colouringOk", toJson st.coloured.isSome), ("grey", toJson st.grey),
    ("usedObservedArrangement", toJson useObserved),
    ("modelArrangementDiffers", toJson (useObserved && observed != Euclid.scOrders alts orders))]
  match Euclid.lpOn alts orders isSc s with
  | none => return obj (base ++ [("axis", Json.null), ("constraints", toJson ([] : List Json))])
  | some l =>
    return obj (base ++ [
      ("axis", toJson l.axis),
      ("cplus", toJson l.cplus),
      ("preferences", toJson l.preferences),
      ("constraints", toJson (l.constraints.map constrJson)),
      ("genSets", obj [("f", toJson l.sets.f), ("g", toJson l.sets.g), ("k", toJson l.sets.k),
        ("plusAfter", toJson l.sets.plusAfter), ("minusAfter", toJson l.sets.minusAfter)])])

end PrefVerif.Driver.Euclid2
