import PrefVerif.Driver.Util
import PrefVerif.Model.EntryPoints
import PrefVerif.Spec.PrefLibFormat
import PrefVerif.Spec.Autocorrect
open Lean PrefVerif PrefVerif.Driver PrefVerif.Py PrefVerif.InstanceIO PrefVerif.EntryPoints

namespace PrefVerif.Driver.IO

def str (s : Str) : Json := toJson (String.ofList s)
def getStr (j : Json) (k : String) : Except String Str := do
  let v ← arg (α := String) j k; return v.toList
def getStrD (j : Json) (k : String) : Str := (argD j k "").toList

def namesJson (n : AList Nat Str) : Json := toJson (n.map (fun kv => (kv.1, String.ofList kv.2)))
def getNames (j : Json) (k : String) : Except String (AList Nat Str) := do
  let l ← arg (α := List (Nat × String)) j k
  return l.map (fun kv => (kv.1, kv.2.toList))

def headerJson (h : Header) : Json := obj [
  ("file_name", str h.fileName), ("title", str h.title), ("description", str h.description),
  ("data_type", str h.dataType), ("modification_type", str h.modificationType),
  ("relates_to", str h.relatesTo), ("related_files", str h.relatedFiles),
  ("publication_date", str h.publicationDate), ("modification_date", str h.modificationDate),
  ("num_alternatives", toJson h.numAlternatives), ("num_voters", toJson h.numVoters),
  ("alternatives_name", namesJson h.altNames)]

def getHeader (j : Json) : Except String Header := do
  return { fileName := ← getStr j "file_name", title := ← getStr j "title",
           description := ← getStr j "description", dataType := ← getStr j "data_type",
           modificationType := ← getStr j "modification_type", relatesTo := ← getStr j "relates_to",
           relatedFiles := ← getStr j "related_files", publicationDate := ← getStr j "publication_date",
           modificationDate := ← getStr j "modification_date",
           numAlternatives := ← arg j "num_alternatives", numVoters := ← arg j "num_voters",
           altNames := ← getNames j "alternatives_name" }

abbrev W := Str   -- weight = canonical `repr(float)` text

def instJson : AnyInst W → Json
  | .ord i => obj [("cls", "ord"), ("header", headerJson i.header), ("num_unique", toJson i.numUniqueOrders),
      ("orders", toJson i.orders), ("multiplicity", toJson i.multiplicity)]
  | .cat i => obj [("cls", "cat"), ("header", headerJson i.header), ("num_unique", toJson i.numUniquePreferences),
      ("num_categories", toJson i.numCategories), ("categories_name", namesJson i.categoriesName),
      ("preferences", toJson i.preferences), ("multiplicity", toJson i.multiplicity)]
  | .mat i => obj [("cls", "mat"), ("header", headerJson i.header), ("num_edges", toJson i.numEdges),
      ("nodes", toJson i.graph.nodeMapping),
      ("weights", toJson (i.graph.weights.map (fun kv => (kv.1, String.ofList kv.2))))]

def getInst (j : Json) : Except String (AnyInst W) := do
  let cls ← arg (α := String) j "cls"
  let h ← getHeader (← arg (α := Json) j "header")
  match cls with
  | "ord" => return .ord { header := h, numUniqueOrders := ← arg j "num_unique", orders := ← arg j "orders",
                           multiplicity := ← arg j "multiplicity" }
  | "cat" => return .cat { header := h, numUniquePreferences := ← arg j "num_unique",
                           numCategories := ← arg j "num_categories", categoriesName := ← getNames j "categories_name",
                           preferences := ← arg j "preferences", multiplicity := ← arg j "multiplicity" }
  | "mat" =>
    let ws ← arg (α := List ((Nat × Nat) × String)) j "weights"
    return .mat { header := h, numEdges := ← arg j "num_edges",
                  graph := { nodeMapping := ← arg j "nodes", weights := ws.map (fun kv => (kv.1, kv.2.toList)) } }
  | _ => throw s!"unknown class {cls}"

def writeAny : AnyInst W → Str
  | .ord i => OrdinalIO.write i
  | .cat i => CategoricalIO.write i
  | .mat i => MatchingIO.write (fun w => w) i

def write : Handler := fun j => do
  let i ← getInst (← arg (α := Json) j "inst")
  return obj [("text", str (writeAny i))]

def getCls (j : Json) : Except String Cls := do
  match ← arg (α := String) j "cls" with
  | "ord" => return .ordinal | "cat" => return .categorical | "mat" => return .matching
  | c => throw s!"unknown class {c}"

def resJson : Except Err (AnyInst W) → Json
  | .ok i => obj [("ok", instJson i)]
  | .error .valueError => obj [("exc", "ValueError")]
  | .error .typeError => obj [("exc", "TypeError")]

/-- `float(text)` is a parameter: the harness supplies the table text ↦ `repr(float(text))` for
every weight token occurring in the content -/
def readWOf (tbl : List (String × String)) (t : Str) : Option W :=
  (tbl.lookup (String.ofList t)).map String.toList

def parse : Handler := fun j => do
  let entry ← arg (α := String) j "entry"
  let content ← getStr j "content"
  let ac := argD j "autocorrect" false
  let ho := argD j "header_only" false
  let readW := readWOf (argD j "floats" [])
  match entry with
  | "file" => return resJson (parseFile readW (← getCls j) (getStrD j "base") (getStrD j "ext") content ac ho)
  | "str" => return resJson (parseStr readW (← getCls j) content (getStrD j "data_type") (getStrD j "file_name") ac ho)
  | "url" => return resJson (parseUrl readW (← getCls j) (getStrD j "stem") (getStrD j "ext") content ac ho)
  | "get" => return resJson (getParsedInstance readW (getStrD j "base") (getStrD j "ext") content ac ho)
  | e => throw s!"unknown entry {e}"

def contentJson (c : Spec.Format.Content) : Json := obj [
  ("fields", toJson (c.fields.map (fun kv => (String.ofList kv.1, String.ofList kv.2)))),
  ("alt_names", toJson (c.altNames.map (fun kv => (kv.1, String.ofList kv.2)))),
  ("cat_names", toJson (c.catNames.map (fun kv => (kv.1, String.ofList kv.2)))),
  ("ballots", toJson c.ballots),
  ("edges", toJson (c.edges.map (fun e => (e.1, e.2.1, String.ofList e.2.2)))),
  ("non_increasing", toJson (Spec.Format.nonIncreasing (c.ballots.map (·.1))))]

/-- the independent reader on a text -/
def read : Handler := fun j => do
  let text ← getStr j "text"
  let edges := argD j "edges" false
  return match Spec.Format.read edges text with
    | none => obj [("content", Json.null)]
    | some c => obj [("content", contentJson c)]

/-- tables of `Py.Str` for the exhaustive comparison with CPython -/
def tables : Handler := fun _ => do
  let all := (List.range 0x110000).filter (fun n => !(0xD800 ≤ n && n ≤ 0xDFFF))
  let sp := all.filter (fun n => isSpace (Char.ofNat n))
  let lb := all.filter (fun n => isLineBreak (Char.ofNat n))
  return obj [("isspace", toJson sp), ("linebreak", toJson lb)]

/-- string primitives, for the self-test against CPython -/
def prim : Handler := fun j => do
  let t ← getStr j "s"
  return obj [("strip", str (strip t)), ("removeWs", str (removeWs t)), ("removeSpaces", str (removeSpaces t)),
    ("stripCommaSpace", str (stripCommaSpace t)),
    ("splitlines", toJson ((splitlines t).map String.ofList)), ("readlines", toJson ((readlines t).map String.ofList)),
    ("splitColon", toJson ((splitOn ':' t).map String.ofList)), ("toNat", toJson (toNat? t)),
    ("scanOrder", toJson (OrdinalIO.scanOrder t)), ("scanBallot", toJson (CategoricalIO.scanBallot t)),
    ("altName", toJson ((matchNumbered (s "# ALTERNATIVE NAME ") t).map (fun p => (p.1, String.ofList p.2))))]

end PrefVerif.Driver.IO

namespace PrefVerif.Driver.IO
open PrefVerif.Spec

/-- C16: judge the names an implementation produced under autocorrect -/
def autocorrectSpec : Handler := fun j => do
  let raw ← arg (α := List String) j "raw"
  let fin ← arg (α := List String) j "final"
  let lines ← arg (α := List (Nat × List (List Nat))) j "lines"
  let r := raw.map String.toList
  let f := fin.map String.toList
  return obj [("distinct", toJson (Autocorrect.distinct f)),
    ("firstKept", toJson (Autocorrect.firstOccurrencesKept [] r f)),
    ("clashGenerated", toJson (Autocorrect.clashesWithGenerated [] r f)),
    ("merged", toJson (Autocorrect.merged lines)),
    ("voters", toJson ((lines.map (·.1)).sum))]

end PrefVerif.Driver.IO
