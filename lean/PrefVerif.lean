import PrefVerif.Model.Distances
import PrefVerif.Spec.Distances
import PrefVerif.Props.C20
