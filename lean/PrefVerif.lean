import PrefVerif.Model.Distances
import PrefVerif.Model.SingleWinner
import PrefVerif.Spec.Distances
import PrefVerif.Spec.Voting
import PrefVerif.Props.C20
