#!/bin/bash
# usage: runall.sh [seed] [tier]  -- run every registered check once, print one line per check
seed="${1:-0}"; tier="${2:-quick}"
cd /verif
for p in C01 C02 C03 C04 C05 C06 C07 C08 C09 C10 C11 C12 C13 C14 C15 C16 C17 C18 C19 C20; do
  out=$(VERIF_SEED=$seed timeout 3000 ./check $p --tier $tier 2>&1); rc=$?
  echo "$p rc=$rc $(echo "$out" | grep -E "VIOLATION|HARNESS|Traceback|Error" | head -2 | tr '\n' ' ') $(echo "$out" | tail -1)"
done
