#!/bin/bash
# usage: harmcheck.sh <Cxx> <k> [more Cxx ...] -- run checks against a scratch worktree carrying the behaviour-preserving
# rewrite /tmp/mut/outh_<Cxx>/h<k>.diff (or harmless/<Cxx>-h<k>/patch.diff); the checks must stay silent
set -u
P="$1"; K="$2"; shift 2; EXTRA="$*"
ID="$P-h$K"
SRC=/verif/harmless/$ID/patch.diff
[ -f "$SRC" ] || SRC=/tmp/mut/outh_$P/h$K.diff
[ -f "$SRC" ] || SRC=/tmp/mut/outp_$P/h$K.diff
[ -f "$SRC" ] || { echo "$ID: no diff"; exit 2; }
WT=/tmp/mut/harm_$ID.$$
git -C /repo worktree add -q --detach "$WT" HEAD || exit 2
( cd "$WT" && git apply "$SRC" ) || { git -C /repo worktree remove --force "$WT"; echo "$ID: patch does not apply"; exit 2; }
PROPS="$P $EXTRA"
# rewrites of shared plumbing (ids P<k>-h<j>) are run against all twenty checks
case "$P" in P*) PROPS="C01 C02 C03 C04 C05 C06 C07 C08 C09 C10 C11 C12 C13 C14 C15 C16 C17 C18 C19 C20 $EXTRA";; esac
for p in $PROPS; do
  o=$(cd /verif && VERIF_REPO=$WT timeout 2400 ./check "$p" 2>&1 | grep -E "VIOLATION|HARNESS|Traceback|quick seed" | head -4)
  echo "$ID $p: $o"
done
git -C /repo worktree remove --force "$WT"
